// vcheck is the /verif runner: it builds harness test binaries against the
// current /repo working tree (overlay + modfile, /repo is never written), runs
// them, parses race-detector logs, merges the fragments the harness wrote into
// /verif/evidence/<id>.json and prints the verdict.
//
// exit 0 = held on everything explored, 1 = VIOLATION, 2 = INCONCLUSIVE.
package main

import (
	"encoding/json"
	"flag"
	"fmt"
	"os"
	"os/exec"
	"path/filepath"
	"regexp"
	"sort"
	"strconv"
	"strings"
	"sync"
	"syscall"
	"time"
)

// repoRoot is the tree under test; VERIF_REPO overrides it (scratch worktrees for
// sensitivity experiments). Registered commands always use /repo.
var repoRoot = "/repo"
const modulePath = "github.com/WuKongIM/WuKongIM"

type unitSpec struct {
	Name      string            `json:"name"`
	Pkg       string            `json:"pkg"`   // repo-relative package dir (may not exist in /repo)
	Files     []string          `json:"files"` // /verif-relative harness files overlaid into Pkg
	Race      bool              `json:"race"`
	Run       string            `json:"run"` // -test.run regex
	TimeoutS  int               `json:"timeout_s"`
	TTimeoutS int               `json:"thorough_timeout_s"`
	Env       map[string]string `json:"env,omitempty"`
	// ThoroughOnly units run only in the thorough tier.
	ThoroughOnly bool `json:"thorough_only,omitempty"`
	// Strace wraps the binary (harness handles its own children otherwise).
	NeedsDisk bool `json:"needs_disk,omitempty"`
}

type checkSpec struct {
	Title         string     `json:"title"`
	Level         string     `json:"level"`
	Technique     string     `json:"technique"`
	LevelText     string     `json:"level_text"`
	LevelNote     string     `json:"level_note"`
	DesignRef     string     `json:"design_ref"`
	Engine        string     `json:"engine"`
	MinNontrivial int        `json:"min_nontrivial"`
	Units         []unitSpec `json:"units"`
	Disabled      string     `json:"disabled,omitempty"` // reason ⇒ goes to not_applicable
}

type finding struct {
	Property  string `json:"property"`
	ID        string `json:"id"`
	Status    string `json:"status"` // open | fixed
	Signature string `json:"signature"`
	Commit    string `json:"commit,omitempty"`
	What      string `json:"what"`
	Line      string `json:"line,omitempty"`
}

type violation struct {
	Sig      string `json:"sig"`
	Case     int    `json:"case"`
	CaseDesc string `json:"case_desc,omitempty"`
	Witness  any    `json:"witness,omitempty"`
	Unit     string `json:"unit,omitempty"`
}

type fragment struct {
	Property      string           `json:"property"`
	Unit          string           `json:"unit"`
	Seed          uint64           `json:"seed"`
	Tier          string           `json:"tier"`
	Evaluations   int64            `json:"evaluations"`
	Distinct      int              `json:"distinct_nontrivial"`
	Rule          string           `json:"rule"`
	Samples       []any            `json:"samples"`
	Counters      map[string]int64 `json:"counters"`
	Assumptions   []string         `json:"assumptions"`
	Notes         map[string]any   `json:"notes"`
	Violations    []violation      `json:"violations"`
	NumViolations int              `json:"num_violations"`
	Inconclusive  []string         `json:"inconclusive"`
	WallS         float64          `json:"wall_s"`
	Finished      bool             `json:"finished"`
	Panicked      string           `json:"panicked"`
}

var verifRoot string

func main() {
	exe, _ := os.Executable()
	verifRoot = filepath.Dir(filepath.Dir(exe))
	if _, err := os.Stat(filepath.Join(verifRoot, "checks.d")); err != nil {
		if wd, err2 := os.Getwd(); err2 == nil {
			verifRoot = wd
		}
	}
	tier := flag.String("tier", envOr("VERIF_TIER", "quick"), "quick|thorough")
	replay := flag.String("replay", "", "replay file written by an earlier violation")
	keep := flag.Bool("keep", false, "keep the scratch directory")
	prebuild := flag.Bool("prebuild", false, "compile every harness binary once (cache warm-up)")
	genManifest := flag.Bool("gen-manifest", false, "rewrite MANIFEST.json from checks.d/*.json")
	all := flag.Bool("all", false, "run every enabled check")
	jobs := flag.Int("j", 4, "parallel checks for --all/--prebuild")
	onlyCase := flag.Int("case", -1, "run only this case index (replay aid)")
	// allow "vcheck C05 --tier quick": move flags after positional.
	args := reorderArgs(os.Args[1:])
	if err := flag.CommandLine.Parse(args); err != nil {
		os.Exit(2)
	}
	if v := os.Getenv("VERIF_REPO"); v != "" {
		repoRoot = filepath.Clean(v)
	}
	checks := loadChecks()
	setupGoEnv()

	switch {
	case *genManifest:
		genManifestFile(checks)
		return
	case *prebuild:
		os.Exit(prebuildAll(checks, *jobs))
	case *all:
		os.Exit(runAll(checks, *tier, *jobs))
	}
	if flag.NArg() < 1 {
		fmt.Fprintln(os.Stderr, "usage: vcheck <property id> [--tier quick|thorough] [--replay path]")
		os.Exit(2)
	}
	id := flag.Arg(0)
	spec, ok := checks[id]
	if !ok {
		fmt.Fprintf(os.Stderr, "unknown property %s\n", id)
		os.Exit(2)
	}
	seed := uint64(1)
	if s := os.Getenv("VERIF_SEED"); s != "" {
		if v, err := strconv.ParseUint(s, 10, 64); err == nil {
			seed = v
		} else if v, err := strconv.ParseInt(s, 10, 64); err == nil {
			seed = uint64(v)
		}
	}
	if *replay != "" {
		var rp struct {
			Seed uint64 `json:"seed"`
			Tier string `json:"tier"`
			Case int    `json:"case"`
		}
		b, err := os.ReadFile(*replay)
		if err != nil || json.Unmarshal(b, &rp) != nil {
			fmt.Fprintf(os.Stderr, "cannot read replay %s\n", *replay)
			os.Exit(2)
		}
		seed, *tier = rp.Seed, rp.Tier
		fmt.Printf("replaying property=%s seed=%d tier=%s (whole case list; the recorded witness is in %s)\n", id, seed, *tier, *replay)
	}
	os.Exit(runCheck(id, spec, *tier, seed, *keep, *onlyCase, os.Stdout))
}

func reorderArgs(in []string) []string {
	var flags, pos []string
	for i := 0; i < len(in); i++ {
		a := in[i]
		if strings.HasPrefix(a, "-") {
			flags = append(flags, a)
			name := strings.TrimLeft(a, "-")
			if !strings.Contains(a, "=") && (name == "tier" || name == "replay" || name == "j" || name == "case") && i+1 < len(in) {
				flags = append(flags, in[i+1])
				i++
			}
		} else {
			pos = append(pos, a)
		}
	}
	return append(flags, pos...)
}

func envOr(k, d string) string {
	if v := os.Getenv(k); v != "" {
		return v
	}
	return d
}

func loadChecks() map[string]checkSpec {
	files, _ := filepath.Glob(filepath.Join(verifRoot, "checks.d", "*.json"))
	m := map[string]checkSpec{}
	for _, f := range files {
		b, err := os.ReadFile(f)
		if err != nil {
			fmt.Fprintf(os.Stderr, "%s: %v\n", f, err)
			os.Exit(2)
		}
		one := map[string]checkSpec{}
		if err := json.Unmarshal(b, &one); err != nil {
			fmt.Fprintf(os.Stderr, "%s: %v\n", f, err)
			os.Exit(2)
		}
		for k, v := range one {
			m[k] = v
		}
	}
	return m
}

func loadFindings() []finding {
	b, err := os.ReadFile(filepath.Join(verifRoot, "known_findings.json"))
	if err != nil {
		return nil
	}
	var fs []finding
	_ = json.Unmarshal(b, &fs)
	return fs
}

// setupGoEnv pins the toolchain that can build /repo, offline.
func setupGoEnv() {
	cands := []string{
		"/root/go/pkg/mod/golang.org/toolchain@v0.0.1-go1.25.11.linux-amd64/bin",
		"/opt/veriftools/go1.26.8/bin",
	}
	for _, c := range cands {
		if _, err := os.Stat(filepath.Join(c, "go")); err == nil {
			os.Setenv("PATH", c+":"+os.Getenv("PATH"))
			break
		}
	}
	os.Setenv("GOFLAGS", "-mod=mod")
	os.Setenv("GOPROXY", "off")
	os.Setenv("GOSUMDB", "off")
	os.Setenv("GOTOOLCHAIN", "local")
	os.Setenv("GOWORK", "off")
}

func mkScratch(id string) string {
	base := "/dev/shm"
	if st, err := os.Stat(base); err != nil || !st.IsDir() {
		base = "/var/tmp"
	}
	d, err := os.MkdirTemp(base, "verif."+id+".")
	if err != nil {
		fmt.Fprintf(os.Stderr, "scratch: %v\n", err)
		os.Exit(2)
	}
	return d
}

// writeBuildFiles writes modfile, sum and overlay for the given units.
func writeBuildFiles(scratch string, units []unitSpec) (modfile, overlay string, err error) {
	mod, err := os.ReadFile(filepath.Join(repoRoot, "go.mod"))
	if err != nil {
		return "", "", err
	}
	ms := string(mod)
	if !strings.Contains(ms, "github.com/anishathalye/porcupine") {
		ms += "\nrequire github.com/anishathalye/porcupine v1.3.0\n"
	}
	modfile = filepath.Join(scratch, "go.verif.mod")
	if err = os.WriteFile(modfile, []byte(ms), 0o644); err != nil {
		return
	}
	sum, _ := os.ReadFile(filepath.Join(repoRoot, "go.sum"))
	if extra, e := os.ReadFile(filepath.Join(verifRoot, "kit", "extra.sum")); e == nil {
		sum = append(sum, extra...)
	}
	if err = os.WriteFile(filepath.Join(scratch, "go.verif.sum"), sum, 0o644); err != nil {
		return
	}
	repl := map[string]string{}
	kitFiles, _ := filepath.Glob(filepath.Join(verifRoot, "kit", "*.go"))
	for _, f := range kitFiles {
		repl[filepath.Join(repoRoot, "pkg", "verifkit", filepath.Base(f))] = f
	}
	// sub-packages of the kit: kit/<sub>/*.go -> pkg/verifkit/<sub>/
	subs, _ := filepath.Glob(filepath.Join(verifRoot, "kit", "*", "*.go"))
	for _, f := range subs {
		sub := filepath.Base(filepath.Dir(f))
		repl[filepath.Join(repoRoot, "pkg", "verifkit", sub, filepath.Base(f))] = f
	}
	for _, u := range units {
		for _, f := range u.Files {
			src := filepath.Join(verifRoot, f)
			matches, _ := filepath.Glob(src)
			if len(matches) == 0 {
				return "", "", fmt.Errorf("harness file %s not found", src)
			}
			for _, m := range matches {
				base := filepath.Base(m)
				if !strings.HasPrefix(base, "zz_verif_") {
					base = "zz_verif_" + base
				}
				repl[filepath.Join(repoRoot, u.Pkg, base)] = m
			}
		}
	}
	ob, _ := json.MarshalIndent(map[string]any{"Replace": repl}, "", " ")
	overlay = filepath.Join(scratch, "overlay.json")
	err = os.WriteFile(overlay, ob, 0o644)
	return
}

func buildUnit(scratch, modfile, overlay string, u unitSpec, out string) (string, error) {
	args := []string{"test", "-c", "-tags", "verif", "-modfile=" + modfile, "-overlay=" + overlay, "-vet=off", "-o", out}
	if u.Race {
		args = append(args, "-race")
	}
	args = append(args, "./"+u.Pkg)
	cmd := exec.Command("go", args...)
	cmd.Dir = repoRoot
	b, err := cmd.CombinedOutput()
	return string(b), err
}

type unitResult struct {
	spec       unitSpec
	frag       *fragment
	buildErr   string
	exitErr    error
	log        string
	races      []raceBlock
	crashed    bool
	crashSig   string
	crashInfo  string
	timedOut   bool
	lastCase   string
	wall       float64
	skipped    bool
	panickedWithFrag bool
}

func runCheck(id string, spec checkSpec, tier string, seed uint64, keep bool, onlyCase int, out *os.File) int {
	start := time.Now()
	if spec.Disabled != "" {
		fmt.Fprintf(out, "property %s is not claimed: %s\n", id, spec.Disabled)
		return 2
	}
	scratch := mkScratch(id)
	defer func() {
		if keep {
			fmt.Fprintf(out, "scratch kept: %s\n", scratch)
		} else {
			os.RemoveAll(scratch)
		}
	}()
	var diskTmp string
	outDir := filepath.Join(scratch, "out")
	os.MkdirAll(outDir, 0o755)
	tmpDir := filepath.Join(scratch, "tmp")
	os.MkdirAll(tmpDir, 0o755)

	var units []unitSpec
	for _, u := range spec.Units {
		if u.ThoroughOnly && tier != "thorough" {
			continue
		}
		units = append(units, u)
	}
	modfile, overlay, err := writeBuildFiles(scratch, units)
	if err != nil {
		fmt.Fprintf(out, "INCONCLUSIVE property=%s reason=build-files %v\n", id, err)
		return 2
	}
	results := make([]*unitResult, len(units))
	for i, u := range units {
		res := &unitResult{spec: u}
		results[i] = res
		bin := filepath.Join(scratch, u.Name+".test")
		bo, err := buildUnit(scratch, modfile, overlay, u, bin)
		if err != nil {
			res.buildErr = bo
			continue
		}
		to := u.TimeoutS
		if tier == "thorough" && u.TTimeoutS > 0 {
			to = u.TTimeoutS
		}
		if to == 0 {
			to = 900
		}
		wd := filepath.Join(scratch, u.Name+".wd")
		os.MkdirAll(wd, 0o755)
		logPath := filepath.Join(scratch, u.Name+".log")
		lf, _ := os.Create(logPath)
		args := []string{"-test.run", u.Run, "-test.timeout", fmt.Sprintf("%ds", to), "-test.v", "-test.count=1"}
		cmd := exec.Command(bin, args...)
		cmd.Dir = wd
		cmd.Stdout = lf
		cmd.Stderr = lf
		env := os.Environ()
		env = append(env, "VERIF_OUT="+outDir, "VERIF_SEED="+strconv.FormatUint(seed, 10), "VERIF_TIER="+tier,
			"TMPDIR="+tmpDir, "VERIF_SCRATCH="+tmpDir, "VERIF_ROOT="+verifRoot, "VERIF_SELF="+bin)
		if onlyCase >= 0 {
			env = append(env, "VERIF_ONLY_CASE="+strconv.Itoa(onlyCase))
		}
		if u.Race {
			env = append(env, "GORACE=halt_on_error=0 log_path="+filepath.Join(scratch, "race."+u.Name))
		}
		if u.NeedsDisk {
			if diskTmp == "" {
				diskTmp, _ = os.MkdirTemp("/var/tmp", "verif."+id+".")
				defer os.RemoveAll(diskTmp)
			}
			env = append(env, "VERIF_DISK="+diskTmp)
		}
		for k, v := range u.Env {
			env = append(env, k+"="+v)
		}
		cmd.Env = env
		cmd.SysProcAttr = &syscall.SysProcAttr{Setpgid: true}
		t0 := time.Now()
		res.exitErr = cmd.Run()
		res.wall = time.Since(t0).Seconds()
		lf.Close()
		// make sure no child survives
		if cmd.Process != nil {
			syscall.Kill(-cmd.Process.Pid, syscall.SIGKILL)
		}
		lb, _ := os.ReadFile(logPath)
		res.log = string(lb)
		if fb, err := os.ReadFile(filepath.Join(outDir, id+"."+u.Name+".json")); err == nil {
			var fr fragment
			if json.Unmarshal(fb, &fr) == nil && fr.Finished {
				res.frag = &fr
				if fr.Panicked != "" {
					// the test function itself panicked; attribute from the stack
					res.log = "\n" + fr.Panicked
					classifyCrash(res)
					res.panickedWithFrag = true
				}
			}
		}
		if cl, err := os.ReadFile(filepath.Join(outDir, id+"."+u.Name+".cases.log")); err == nil {
			lines := strings.Split(strings.TrimSpace(string(cl)), "\n")
			res.lastCase = lines[len(lines)-1]
		}
		if u.Race {
			res.races = parseRaceLogs(filepath.Join(scratch, "race."+u.Name))
		}
		if res.frag == nil {
			classifyCrash(res)
		}
	}
	return decide(id, spec, tier, seed, results, start, out, scratch)
}

var frameRe = regexp.MustCompile(`^\s+(/[^\s:]+\.go):(\d+)`)

func isHarnessPath(p string) bool {
	return strings.Contains(p, "/zz_verif_") || strings.Contains(p, "/pkg/verifkit/") || strings.HasPrefix(p, verifRoot+"/") || strings.Contains(p, "/verifrt/")
}

func isRepoPath(p string) bool { return strings.HasPrefix(p, repoRoot+"/") && !isHarnessPath(p) }

// classifyCrash inspects the output of a unit that died without a fragment.
func classifyCrash(res *unitResult) {
	log := res.log
	if strings.Contains(log, "panic: test timed out") {
		res.timedOut = true
		return
	}
	idx := strings.Index(log, "\npanic: ")
	if idx < 0 {
		idx = strings.Index(log, "\nfatal error: ")
	}
	if idx < 0 && (strings.HasPrefix(log, "panic: ") || strings.HasPrefix(log, "fatal error: ")) {
		idx = 0
	}
	if idx < 0 {
		return
	}
	res.crashed = true
	tail := log[idx:]
	if len(tail) > 6000 {
		tail = tail[:6000]
	}
	res.crashInfo = tail
	// first frame under /repo or harness decides attribution
	lines := strings.Split(tail, "\n")
	prevFunc := ""
	for _, ln := range lines {
		if m := frameRe.FindStringSubmatch(ln); m != nil {
			p := m[1]
			if isHarnessPath(p) {
				res.crashSig = "" // harness fault
				return
			}
			if isRepoPath(p) {
				fn := strings.TrimSpace(prevFunc)
				if i := strings.Index(fn, "("); i > 0 {
					fn = fn[:i]
				}
				res.crashSig = "crash:" + fn
				return
			}
		} else {
			prevFunc = ln
		}
	}
}

type raceBlock struct {
	Text       string
	Sig        string
	Attributed bool
	Harness    bool
}

func parseRaceLogs(prefix string) []raceBlock {
	files, _ := filepath.Glob(prefix + ".*")
	var out []raceBlock
	seen := map[string]bool{}
	for _, f := range files {
		b, err := os.ReadFile(f)
		if err != nil {
			continue
		}
		for _, blk := range strings.Split(string(b), "==================") {
			if !strings.Contains(blk, "WARNING: DATA RACE") {
				continue
			}
			rb := classifyRace(blk)
			if seen[rb.Sig] {
				continue
			}
			seen[rb.Sig] = true
			out = append(out, rb)
		}
	}
	return out
}

func classifyRace(blk string) raceBlock {
	secs := strings.Split(strings.TrimSpace(blk), "\n\n")
	var kinds []string
	var tops []string
	n := 0
	for _, s := range secs {
		if !(strings.Contains(s, " by goroutine ") || strings.Contains(s, " by main goroutine")) {
			continue
		}
		n++
		if n > 2 {
			break
		}
		kind, top := "other", ""
		lines := strings.Split(s, "\n")
		prevFunc := ""
		for _, ln := range lines {
			if m := frameRe.FindStringSubmatch(ln); m != nil {
				p := m[1]
				if isHarnessPath(p) {
					kind, top = "harness", strings.TrimSpace(prevFunc)
					break
				}
				if isRepoPath(p) {
					kind, top = "repo", strings.TrimSpace(prevFunc)
					break
				}
			} else {
				prevFunc = ln
			}
		}
		if i := strings.Index(top, "("); i > 0 {
			top = top[:i]
		}
		kinds = append(kinds, kind)
		tops = append(tops, top)
	}
	sort.Strings(tops)
	rb := raceBlock{Text: strings.TrimSpace(blk), Sig: "race:" + strings.Join(tops, "|")}
	if len(rb.Text) > 8000 {
		rb.Text = rb.Text[:8000]
	}
	repo, harness := 0, 0
	for _, k := range kinds {
		if k == "repo" {
			repo++
		}
		if k == "harness" {
			harness++
		}
	}
	rb.Attributed = repo >= 1 && harness == 0 && len(kinds) >= 2 && repo == len(kinds)
	rb.Harness = harness > 0
	return rb
}

func decide(id string, spec checkSpec, tier string, seed uint64, results []*unitResult, start time.Time, out *os.File, scratch string) int {
	var viols []violation
	var inconcl []string
	var evals int64
	distinct := 0
	counters := map[string]int64{}
	notes := map[string]any{}
	var rules, assumptions []string
	var samples []any
	unattributed := []string{}
	for _, r := range results {
		u := r.spec.Name
		if r.buildErr != "" {
			msg := r.buildErr
			if len(msg) > 1500 {
				msg = msg[:1500]
			}
			inconcl = append(inconcl, "harness-build unit="+u+": "+msg)
			continue
		}
		if r.frag == nil {
			switch {
			case r.timedOut:
				inconcl = append(inconcl, fmt.Sprintf("watchdog unit=%s timed out (last %s)", u, r.lastCase))
			case r.crashed && r.crashSig != "":
				viols = append(viols, violation{Sig: r.crashSig, Case: -1, CaseDesc: r.lastCase, Unit: u, Witness: r.crashInfo})
			case r.crashed:
				inconcl = append(inconcl, fmt.Sprintf("harness-crash unit=%s (last %s): %s", u, r.lastCase, firstLines(r.crashInfo, 12)))
			default:
				inconcl = append(inconcl, fmt.Sprintf("no-fragment unit=%s exit=%v (last %s): %s", u, r.exitErr, r.lastCase, lastLines(r.log, 12)))
			}
		} else {
			fr := r.frag
			evals += fr.Evaluations
			distinct += fr.Distinct
			for k, v := range fr.Counters {
				counters[u+"."+k] = v
			}
			for k, v := range fr.Notes {
				notes[u+"."+k] = v
			}
			if fr.Rule != "" {
				rules = append(rules, "["+u+"] "+fr.Rule)
			}
			assumptions = append(assumptions, fr.Assumptions...)
			for _, s := range fr.Samples {
				if len(samples) < 6 {
					samples = append(samples, s)
				}
			}
			for _, v := range fr.Violations {
				v.Unit = u
				viols = append(viols, v)
			}
			if fr.NumViolations > len(fr.Violations) {
				counters[u+".violations_not_kept"] = int64(fr.NumViolations - len(fr.Violations))
			}
			for _, s := range fr.Inconclusive {
				inconcl = append(inconcl, "unit="+u+": "+s)
			}
			counters[u+".wall_s"] = int64(r.wall)
			if r.panickedWithFrag {
				if r.crashSig != "" {
					viols = append(viols, violation{Sig: r.crashSig, Case: -1, CaseDesc: r.lastCase, Unit: u, Witness: r.crashInfo})
				} else {
					inconcl = append(inconcl, fmt.Sprintf("harness-crash unit=%s (last %s): %s", u, r.lastCase, firstLines(r.crashInfo, 14)))
				}
			} else if r.exitErr != nil && fr.NumViolations == 0 && len(r.races) == 0 {
				inconcl = append(inconcl, fmt.Sprintf("unit-exit-nonzero unit=%s %v: %s", u, r.exitErr, lastLines(r.log, 10)))
			}
		}
		nAttr := 0
		for _, rb := range r.races {
			switch {
			case rb.Attributed:
				nAttr++
				viols = append(viols, violation{Sig: rb.Sig, Case: -1, Unit: u, Witness: rb.Text})
			case rb.Harness:
				inconcl = append(inconcl, "harness-race unit="+u+" "+rb.Sig+"\n"+firstLines(rb.Text, 30))
			default:
				unattributed = append(unattributed, rb.Sig)
			}
		}
		if r.spec.Race {
			counters[u+".race_reports_attributed"] = int64(nAttr)
			counters[u+".race_detector_on"] = 1
		}
	}
	if len(unattributed) > 0 {
		notes["unattributed_races"] = unattributed
	}
	// known findings
	findings := loadFindings()
	var fresh []violation
	knownHit := map[string]finding{}
	for _, v := range viols {
		matched := false
		for _, f := range findings {
			if f.Property != id || f.Status != "open" {
				continue
			}
			re, err := regexp.Compile(f.Signature)
			if err != nil {
				continue
			}
			if re.MatchString(v.Sig) {
				knownHit[f.ID] = f
				matched = true
				break
			}
		}
		if !matched {
			fresh = append(fresh, v)
		}
	}
	for _, f := range knownHit {
		if strings.HasPrefix(f.Line, "KNOWN-FINDING: property="+id+" ") {
			fmt.Fprintln(out, f.Line)
		} else {
			fmt.Fprintf(out, "KNOWN-FINDING: property=%s %s\n", id, f.What)
		}
	}
	verdict := 0
	if len(fresh) == 0 && len(inconcl) == 0 && distinct < spec.MinNontrivial {
		inconcl = append(inconcl, fmt.Sprintf("too-few-nontrivial distinct=%d floor=%d", distinct, spec.MinNontrivial))
	}
	// replays
	seenSig := map[string]bool{}
	if len(fresh) > 0 {
		verdict = 1
		rpDir := filepath.Join(verifRoot, "replays")
		if v := os.Getenv("VERIF_REPLAY_DIR"); v != "" {
			rpDir = v
		}
		os.MkdirAll(rpDir, 0o755)
		k := 0
		for _, v := range fresh {
			if seenSig[v.Sig] {
				continue
			}
			seenSig[v.Sig] = true
			p := filepath.Join(rpDir, fmt.Sprintf("%s-%d-%d.json", id, seed, k))
			k++
			rb, _ := json.MarshalIndent(map[string]any{"property": id, "seed": seed, "tier": tier, "case": v.Case, "case_desc": v.CaseDesc,
				"unit": v.Unit, "sig": v.Sig, "witness": v.Witness,
				"rerun": fmt.Sprintf("VERIF_SEED=%d bin/vcheck %s --tier %s --case %d", seed, id, tier, v.Case)}, "", " ")
			os.WriteFile(p, rb, 0o644)
			fmt.Fprintf(out, "VIOLATION property=%s replay=%s\n", id, p)
			fmt.Fprintf(out, "  sig=%s unit=%s case=%d %s\n", v.Sig, v.Unit, v.Case, v.CaseDesc)
		}
	} else if len(inconcl) > 0 {
		verdict = 2
		for _, s := range inconcl {
			fmt.Fprintf(out, "INCONCLUSIVE property=%s reason=%s\n", id, s)
		}
	}
	if samples == nil {
		samples = []any{}
	}
	cov := map[string]any{
		"evaluations":         evals,
		"distinct_nontrivial": distinct,
		"rule":                strings.Join(rules, " || "),
		"samples":             samples,
		"counters":            counters,
		"verdict":             []string{"held", "violated", "inconclusive"}[verdict],
	}
	if len(notes) > 0 {
		cov["notes"] = notes
	}
	if len(inconcl) > 0 {
		cov["inconclusive_reasons"] = inconcl
	}
	if len(knownHit) > 0 {
		var ks []string
		for k := range knownHit {
			ks = append(ks, k)
		}
		sort.Strings(ks)
		cov["known_findings_observed"] = ks
	}
	if spec.Level == "other" {
		cov["explanation"] = spec.LevelText
	}
	assumptions = dedupe(assumptions)
	ev := map[string]any{
		"property_id": id,
		"tier":        tier,
		"seed":        seed,
		"level":       spec.Level,
		"coverage":    cov,
		"assumptions": assumptions,
		"wall_s":      time.Since(start).Seconds(),
		"violations":  len(fresh),
	}
	eb, _ := json.MarshalIndent(ev, "", " ")
	evDir := filepath.Join(verifRoot, "evidence")
	if v := os.Getenv("VERIF_EVIDENCE_DIR"); v != "" {
		evDir = v
	}
	os.MkdirAll(evDir, 0o755)
	os.WriteFile(filepath.Join(evDir, id+".json"), append(eb, '\n'), 0o644)
	if verdict == 0 {
		fmt.Fprintf(out, "HELD property=%s tier=%s seed=%d evaluations=%d distinct_nontrivial=%d wall=%.0fs\n", id, tier, seed, evals, distinct, time.Since(start).Seconds())
	}
	return verdict
}

func dedupe(in []string) []string {
	seen := map[string]bool{}
	out := []string{}
	for _, s := range in {
		if !seen[s] {
			seen[s] = true
			out = append(out, s)
		}
	}
	return out
}

func firstLines(s string, n int) string {
	l := strings.Split(s, "\n")
	if len(l) > n {
		l = l[:n]
	}
	return strings.Join(l, "\n")
}

func lastLines(s string, n int) string {
	l := strings.Split(strings.TrimSpace(s), "\n")
	if len(l) > n {
		l = l[len(l)-n:]
	}
	return strings.Join(l, "\n")
}

func sortedIDs(checks map[string]checkSpec) []string {
	var ids []string
	for id := range checks {
		ids = append(ids, id)
	}
	sort.Strings(ids)
	return ids
}

func prebuildAll(checks map[string]checkSpec, jobs int) int {
	scratch := mkScratch("prebuild")
	defer os.RemoveAll(scratch)
	type job struct {
		id string
		u  unitSpec
	}
	var js []job
	for _, id := range sortedIDs(checks) {
		if checks[id].Disabled != "" {
			continue
		}
		for _, u := range checks[id].Units {
			js = append(js, job{id, u})
		}
	}
	var mu sync.Mutex
	fail := 0
	sem := make(chan struct{}, jobs)
	var wg sync.WaitGroup
	for i, j := range js {
		wg.Add(1)
		sem <- struct{}{}
		go func(i int, j job) {
			defer wg.Done()
			defer func() { <-sem }()
			d := filepath.Join(scratch, fmt.Sprintf("%s.%s", j.id, j.u.Name))
			os.MkdirAll(d, 0o755)
			mf, ov, err := writeBuildFiles(d, []unitSpec{j.u})
			if err == nil {
				var o string
				o, err = buildUnit(d, mf, ov, j.u, filepath.Join(d, "t.test"))
				if err != nil {
					err = fmt.Errorf("%v\n%s", err, o)
				}
			}
			os.RemoveAll(d)
			mu.Lock()
			if err != nil {
				fail++
				fmt.Printf("prebuild %s/%s FAILED: %v\n", j.id, j.u.Name, err)
			} else {
				fmt.Printf("prebuild %s/%s ok\n", j.id, j.u.Name)
			}
			mu.Unlock()
		}(i, j)
	}
	wg.Wait()
	if fail > 0 {
		return 1
	}
	return 0
}

func runAll(checks map[string]checkSpec, tier string, jobs int) int {
	ids := sortedIDs(checks)
	sem := make(chan struct{}, jobs)
	var wg sync.WaitGroup
	var mu sync.Mutex
	worst := 0
	self, _ := os.Executable()
	for _, id := range ids {
		if checks[id].Disabled != "" {
			continue
		}
		wg.Add(1)
		sem <- struct{}{}
		go func(id string) {
			defer wg.Done()
			defer func() { <-sem }()
			cmd := exec.Command(self, id, "--tier", tier)
			cmd.Dir = verifRoot
			b, err := cmd.CombinedOutput()
			code := 0
			if err != nil {
				code = 2
				if ee, ok := err.(*exec.ExitError); ok {
					code = ee.ExitCode()
				}
			}
			mu.Lock()
			fmt.Printf("[%s exit=%d] %s\n", id, code, strings.TrimSpace(string(b)))
			if code > worst {
				worst = code
			}
			mu.Unlock()
		}(id)
	}
	wg.Wait()
	return worst
}

func genManifestFile(checks map[string]checkSpec) {
	type lvl struct {
		Category  string `json:"category"`
		Text      string `json:"text"`
		DesignRef string `json:"design_ref,omitempty"`
	}
	type chk struct {
		PropertyID string `json:"property_id"`
		Quick      string `json:"quick_cmd"`
		Thorough   string `json:"thorough_cmd"`
		Evidence   string `json:"evidence_file"`
		Replay     string `json:"replay_cmd_template"`
		Engine     string `json:"engine,omitempty"`
		Level      lvl    `json:"level_claimed"`
		Note       string `json:"level_note"`
		Technique  string `json:"technique,omitempty"`
	}
	var cs []chk
	type na struct {
		PropertyID string `json:"property_id"`
		Reason     string `json:"reason"`
	}
	nas := []na{}
	claimed := map[string]bool{}
	for _, id := range sortedIDs(checks) {
		c := checks[id]
		if c.Disabled != "" {
			nas = append(nas, na{id, c.Disabled})
			continue
		}
		claimed[id] = true
		cs = append(cs, chk{PropertyID: id, Quick: "bin/vcheck " + id + " --tier quick", Thorough: "bin/vcheck " + id + " --tier thorough",
			Evidence: "evidence/" + id + ".json", Replay: "bin/vcheck " + id + " --replay {path}", Engine: c.Engine,
			Level: lvl{c.Level, c.LevelText, c.DesignRef}, Note: c.LevelNote, Technique: c.Technique})
	}
	// properties with no entry in checks.json are not claimed (yet)
	if pb, err := os.ReadFile(filepath.Join(verifRoot, "properties.jsonl")); err == nil {
		for _, ln := range strings.Split(strings.TrimSpace(string(pb)), "\n") {
			var p struct {
				ID string `json:"id"`
			}
			if json.Unmarshal([]byte(ln), &p) == nil && p.ID != "" && !claimed[p.ID] {
				if _, ok := checks[p.ID]; !ok {
					nas = append(nas, na{p.ID, "no runtime monitor registered for this property in this revision of /verif (see DESIGN.md status table); not claimed"})
				}
			}
		}
	}
	sort.Slice(nas, func(i, j int) bool { return nas[i].PropertyID < nas[j].PropertyID })
	var hooks map[string]any
	if hb, err := os.ReadFile(filepath.Join(verifRoot, "hooks.json")); err == nil {
		json.Unmarshal(hb, &hooks)
	}
	if hooks == nil {
		hooks = map[string]any{"guard": "verif", "enable": "go test -tags verif (added by bin/vcheck)", "baseline_off_cmd": "true", "source_commits": []string{}, "add_only": true}
	}
	m := map[string]any{
		"version":   1,
		"setup_cmd": "./setup.sh",
		"hooks":     hooks,
		"engines": []map[string]any{
			{"name": "verifkit", "path": "kit/", "kind_free_text": "monitor library: PRNG case lists, call/return recorder on a logical clock, evidence fragments, violation witnesses", "serves_properties": keysOf(claimed)},
			{"name": "vcheck", "path": "cmd/vcheck/", "kind_free_text": "runner: overlay build against /repo working tree, race-log parsing and attribution, verdict, evidence, known findings", "serves_properties": keysOf(claimed)},
		},
		"checks":         cs,
		"not_applicable": nas,
		"notes":          "Runtime monitoring and sanitizers only. exit 0 held / 1 VIOLATION / 2 INCONCLUSIVE (never on the unchanged tree). See DESIGN.md.",
	}
	b, _ := json.MarshalIndent(m, "", " ")
	os.WriteFile(filepath.Join(verifRoot, "MANIFEST.json"), append(b, '\n'), 0o644)
	fmt.Printf("MANIFEST.json: %d checks, %d not_applicable\n", len(cs), len(nas))
}

func keysOf(m map[string]bool) []string {
	var ks []string
	for k := range m {
		ks = append(ks, k)
	}
	sort.Strings(ks)
	return ks
}
