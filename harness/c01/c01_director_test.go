//go:build verif

package c01

import (
	"bytes"
	"context"
	"crypto/sha256"
	"encoding/binary"
	"errors"
	"fmt"
	"math/rand/v2"
	"sort"
	"strings"
	"time"

	ch "github.com/WuKongIM/WuKongIM/pkg/channel"
	"github.com/WuKongIM/WuKongIM/pkg/channel/replication"
	"github.com/WuKongIM/WuKongIM/pkg/quorumlog"
	"github.com/WuKongIM/WuKongIM/pkg/verifkit"
)

const (
	c01ModeC01 = 1
	c01ModeC02 = 2

	// c01KnownLossSig is the signature of the finding that was confirmed on the
	// unchanged tree before this monitor existed (see DESIGN.md C01). Every other
	// way of losing an acknowledged entry gets a different signature.
	c01KnownLossSig = "acked-entry-lost:holders-below-quorum-among-reachable"

	c01Window = 256
)

type c01Snap struct {
	OK  bool
	St  replication.ReplicaState
	IDs []ch.EntryIdentity // IDs[i-1] is the identity at offset i
	Err string
}

func (s c01Snap) at(o uint64) (ch.EntryIdentity, bool) {
	if !s.OK || o == 0 || o > s.St.LEO || o > uint64(len(s.IDs)) {
		return ch.EntryIdentity{}, false
	}
	return s.IDs[o-1], true
}

type c01Acked struct {
	Offset  uint64
	ID      ch.EntryIdentity
	Rec     ch.Record
	Cmd     int
	Step    int
	Leader  ch.NodeID
	Receipt replication.Receipt
}

type c01Cmd struct {
	seq     int
	id      ch.CommandID
	recs    []ch.Record
	auth    replication.AuthorityID
	leader  ch.NodeID
	acked   bool
	receipt replication.Receipt
}

type c01StepInfo struct {
	kind       string
	node       ch.NodeID
	installOK  bool
	installErr string
	installed  replication.Installed
	authority  replication.AuthorityID
	linkReach  []ch.NodeID
	responders map[ch.NodeID]bool
	obs        map[ch.NodeID]*c01ProbeObs
	pre        map[ch.NodeID]c01Snap
	noop       bool
}

type c01Director struct {
	r    *verifkit.Run
	mode int
	c    *c01Cluster
	p    c01Params
	rng  *rand.Rand
	rep  *c01Reporter

	caseIdx int
	stepNo  int
	sched   []string
	fp      []string

	auth    replication.AuthorityID              // highest authority ever issued
	leader  ch.NodeID                            // holder of d.auth if its Install succeeded and it has not restarted
	ready   map[ch.NodeID]replication.Authority  // nodes that believe they are writable
	pending map[ch.NodeID]*c01Cmd                // command admitted but unresolved on that node
	cmds    []*c01Cmd

	acked      map[uint64]*c01Acked
	ackedOrder []uint64
	held       map[uint64]map[ch.NodeID]bool
	last       map[ch.NodeID]c01Snap

	committedID map[uint64]ch.EntryIdentity
	committedBy map[uint64]ch.NodeID

	down   map[ch.NodeID]bool
	cutsOf map[ch.NodeID][]ch.NodeID // partitioned node -> peers it is cut from
	delays []c01Pair

	nextMsg           uint64
	faultSteps        int
	ackedCount        int
	installAfterAck   bool
	committedReplicas map[ch.NodeID]bool
	stopped           bool
	inconclusive      bool
	// priorLoss is the first acknowledged-entry loss the C01 oracle saw in this
	// case. A C02 breach observed after it is reported under a signature that
	// names the dependency, because the lost entry's offsets get reused.
	cmdByID     map[ch.CommandID]*c01Cmd
	priorLoss   map[string]any
	priorSuffix string
	reported    map[string]bool
}

func c01NewDirector(r *verifkit.Run, rep *c01Reporter, mode int, c *c01Cluster, p c01Params, rng *rand.Rand, caseIdx int) *c01Director {
	return &c01Director{r: r, rep: rep, mode: mode, c: c, p: p, rng: rng, caseIdx: caseIdx,
		ready: map[ch.NodeID]replication.Authority{}, pending: map[ch.NodeID]*c01Cmd{},
		acked: map[uint64]*c01Acked{}, held: map[uint64]map[ch.NodeID]bool{}, last: map[ch.NodeID]c01Snap{},
		committedID: map[uint64]ch.EntryIdentity{}, committedBy: map[uint64]ch.NodeID{},
		down: map[ch.NodeID]bool{}, cutsOf: map[ch.NodeID][]ch.NodeID{}, committedReplicas: map[ch.NodeID]bool{},
		nextMsg: uint64(caseIdx+1) << 24}
}

func (d *c01Director) logStep(format string, args ...any) {
	d.stepNo++
	d.sched = append(d.sched, fmt.Sprintf("%02d ", d.stepNo)+fmt.Sprintf(format, args...))
}

func (d *c01Director) note(format string, args ...any) {
	if len(d.sched) > 0 {
		d.sched[len(d.sched)-1] += " -> " + fmt.Sprintf(format, args...)
	}
}

// ---------------------------------------------------------------------------
// Observation.

func (d *c01Director) readReplica(id ch.NodeID, upto uint64) c01Snap {
	nd := d.c.nodes[id]
	if upto > c01Window {
		upto = c01Window
	}
	idx := make([]uint64, upto)
	for i := range idx {
		idx[i] = uint64(i + 1)
	}
	var lastErr error
	for attempt := 0; attempt < 4; attempt++ {
		ctx, cancel := context.WithTimeout(context.Background(), 30*time.Second)
		res, err := nd.raw.Load(ctx, replication.LoadBatch{Items: []replication.LoadRequest{{ChannelKey: d.c.key, ChannelID: d.c.cid, ProbeIndexes: idx}}})
		cancel()
		if err == nil && len(res.Items) == 1 && res.Items[0].Err == nil {
			it := res.Items[0]
			s := c01Snap{OK: true, St: it.State}
			for _, e := range it.Entries {
				if !e.Present {
					break
				}
				s.IDs = append(s.IDs, e.Identity)
			}
			return s
		}
		if err == nil && len(res.Items) == 1 {
			err = res.Items[0].Err
		}
		lastErr = err
		if !errors.Is(err, ch.ErrLogConflict) {
			break
		}
		time.Sleep(time.Millisecond)
	}
	return c01Snap{Err: fmt.Sprint(lastErr)}
}

func (d *c01Director) snapshotAll() map[ch.NodeID]c01Snap {
	var want uint64 = 24
	for _, s := range d.last {
		if s.OK && s.St.LEO+24 > want {
			want = s.St.LEO + 24
		}
	}
	out := make(map[ch.NodeID]c01Snap, len(d.c.ids))
	for _, id := range d.c.ids {
		s := d.readReplica(id, want)
		if s.OK && s.St.LEO > uint64(len(s.IDs)) && uint64(len(s.IDs)) < c01Window && s.St.LEO <= c01Window {
			// the log grew past the guessed window between steps: read again wider
			s = d.readReplica(id, s.St.LEO+24)
		}
		out[id] = s
	}
	return out
}

func c01SnapBrief(s c01Snap) map[string]any {
	if !s.OK {
		return map[string]any{"err": s.Err}
	}
	terms := make([]string, 0, len(s.IDs))
	for _, id := range s.IDs {
		terms = append(terms, fmt.Sprintf("%d:%d.%d.%d/%s", id.Index, id.ChannelEpoch, id.LeaderTerm, id.FenceVersion, verifkit.Hex8(id.Digest[:4])))
	}
	if len(terms) > 12 {
		terms = append([]string{fmt.Sprintf("..(%d earlier)", len(terms)-12)}, terms[len(terms)-12:]...)
	}
	return map[string]any{"leo": s.St.LEO, "committed": s.St.Committed, "entries(index:authority/digest)": terms}
}

func (d *c01Director) briefAll(m map[ch.NodeID]c01Snap) map[string]any {
	out := map[string]any{}
	for _, id := range d.c.ids {
		out[fmt.Sprintf("n%d", id)] = c01SnapBrief(m[id])
	}
	return out
}

func (d *c01Director) witness(extra map[string]any) map[string]any {
	w := map[string]any{
		"params":        d.p,
		"schedule":      append([]string(nil), d.sched...),
		"store_trace":   d.c.sf.tail(60),
		"down":          c01SortedNodes(d.down),
		"partitioned":   fmt.Sprint(d.cutsOf),
		"replicas_last": d.briefAll(d.last),
	}
	for k, v := range extra {
		w[k] = v
	}
	return w
}

func (d *c01Director) violation(prop int, sig string, extra map[string]any) {
	if prop == c01ModeC01 && d.priorLoss == nil && sig == c01KnownLossSig {
		d.priorLoss = map[string]any{"sig": sig, "at_step": d.stepNo}
		d.priorSuffix = ":after-acked-entry-loss"
		for _, k := range []string{"lost_entries", "install_node", "install_authority", "holders_among_reachable", "voters_whose_probe_answers_reached_installer"} {
			if v, ok := extra[k]; ok {
				d.priorLoss[k] = v
			}
		}
	}
	if prop != d.mode {
		// observed by the sibling property's oracle; that property has its own
		// run of the same schedules and reports it there.
		d.r.Count("sibling_property_events."+sig, 1)
		return
	}
	if d.reported == nil {
		d.reported = map[string]bool{}
	}
	if d.reported[sig] {
		return // the same breach re-observed at a later step of the same case
	}
	d.reported[sig] = true
	if prop == c01ModeC02 && d.priorLoss != nil {
		sig += d.priorSuffix
		if extra == nil {
			extra = map[string]any{}
		}
		extra["earlier_install_that_discarded_a_quorum_held_entry"] = d.priorLoss
	}
	d.rep.violation(d.r, sig, d.witness(extra))
	d.fp = append(d.fp, "V:"+sig)
	if prop == c01ModeC01 {
		// later observations of this case would only restate the same loss
		d.stopped = true
	}
}

// observe snapshots every replica and evaluates both oracles.
func (d *c01Director) observe(info c01StepInfo) map[ch.NodeID]c01Snap {
	post := d.snapshotAll()
	d.r.Eval(1)
	d.countBackgroundGrowth(info, post)
	// C01 first: it records an Install that discarded a quorum-held entry, which
	// decides the signature of any C02 breach seen from this step on.
	d.checkC01(info, post)
	d.checkC02(info, post)
	for id, s := range post {
		if s.OK {
			d.last[id] = s
		}
	}
	return post
}

// countBackgroundGrowth counts replicas whose log grew while no client call was
// running (follower gap repair, trailing replication), and whether what they
// received belongs to a proposal that never got a receipt.
func (d *c01Director) countBackgroundGrowth(info c01StepInfo, post map[ch.NodeID]c01Snap) {
	switch info.kind {
	case "commit", "commit-error", "commit-second", "retry", "install":
		return
	}
	for _, id := range d.c.ids {
		s, prev := post[id], d.last[id]
		if !s.OK || !prev.OK || s.St.LEO <= prev.St.LEO {
			continue
		}
		d.r.Count("gap_repairs_observed", 1)
		unquorate := false
		for o := prev.St.LEO + 1; o <= s.St.LEO; o++ {
			if e, ok := s.at(o); ok {
				if c := d.cmdByID[e.CommandID]; c != nil && !c.acked {
					unquorate = true
				}
			}
		}
		if unquorate {
			d.r.Count("unquorate_tail_reshipped", 1)
			d.fp = append(d.fp, fmt.Sprintf("uqship%d", id))
		}
	}
}

// checkQuorumHeld: a replica's persisted Committed never exceeds what a write
// quorum holds. Every Committed value a store persists was computed inside a
// client call (sealed with hw, a recovery page, a barrier) after Q replicas
// already held that prefix, and committed entries are never removed, so when
// the director samples all stores between calls, every one of those Q holders
// shows the entry whatever order the stores are read in. Stopped nodes are
// read too (crash-stop keeps their store).
func (d *c01Director) checkQuorumHeld(info c01StepInfo, post map[ch.NodeID]c01Snap) {
	for _, id := range d.c.ids {
		s := post[id]
		top, ok := s.at(s.St.Committed)
		if !s.OK || !ok {
			continue
		}
		var holders []ch.NodeID
		for _, v := range d.c.ids {
			if e, ok := post[v].at(s.St.Committed); ok && e == top {
				holders = append(holders, v)
			}
		}
		d.r.Count("c02.committed_quorum_held_checks", 1)
		if len(holders) >= d.p.Q {
			continue
		}
		if d.priorLoss != nil {
			// restates the known Install truncation: the holders were removed by it
			d.r.Count("c02.committed_above_quorum_held_prefix_after_known_truncation", 1)
			continue
		}
		unacked := ""
		if c := d.cmdByID[top.CommandID]; c != nil && !c.acked {
			unacked = fmt.Sprintf("cmd#%d never received a receipt", c.seq)
		}
		d.violation(c01ModeC02, "committed-above-quorum-held-prefix", map[string]any{"node": id, "committed": s.St.Committed, "holders_of_that_entry": holders,
			"write_quorum": d.p.Q, "entry_belongs_to": unacked, "step": info.kind, "all": d.briefAll(post)})
		return
	}
}

// ---------------------------------------------------------------------------
// C02 oracle.

func (d *c01Director) checkC02(info c01StepInfo, post map[ch.NodeID]c01Snap) {
	defer d.checkQuorumHeld(info, post)
	for _, id := range d.c.ids {
		s := post[id]
		if !s.OK {
			if strings.Contains(s.Err, ch.ErrLogConflict.Error()) {
				// The adapter validates Committed <= LEO, tail/manifest binding and
				// the probed predecessor chain before returning a frontier; a
				// persistent rejection of a quiescent replica's own state is a
				// broken replica log. Locate the break with single-index reads.
				reads, brokenAt := d.slowRead(id)
				sig := "replica-state-rejected-by-own-store"
				if brokenAt > 0 {
					sig = "replica-predecessor-chain-broken"
				}
				d.violation(c01ModeC02, sig, map[string]any{"node": id, "err": s.Err, "step": info.kind, "offset": brokenAt,
					"single_index_reads": reads})
			} else {
				d.r.Count("observe.load_error", 1)
			}
			continue
		}
		d.r.Count("c02.replica_observations", 1)
		if s.St.Committed > s.St.LEO {
			d.violation(c01ModeC02, "committed-above-log-end", map[string]any{"node": id, "state": c01SnapBrief(s)})
		}
		for i, e := range s.IDs {
			o := uint64(i + 1)
			bad := e.Index != o || e.PreviousIndex != o-1
			if i == 0 {
				bad = bad || e.PreviousTerm != 0 || e.PreviousDigest != (ch.EntryDigest{})
			} else {
				p := s.IDs[i-1]
				bad = bad || e.PreviousTerm != p.LeaderTerm || e.PreviousDigest != p.Digest
			}
			if bad {
				d.violation(c01ModeC02, "replica-predecessor-chain-broken", map[string]any{"node": id, "offset": o, "state": c01SnapBrief(s), "step": info.kind})
				break
			}
		}
		if s.St.LEO > 0 && s.St.LEO <= uint64(len(s.IDs)) && s.IDs[s.St.LEO-1] != s.St.TailIdentity {
			d.violation(c01ModeC02, "tail-identity-not-last-entry", map[string]any{"node": id, "state": c01SnapBrief(s)})
		}
		if prev, ok := d.last[id]; ok && prev.OK && s.St.Committed < prev.St.Committed {
			d.violation(c01ModeC02, "committed-watermark-regressed", map[string]any{"node": id, "before": c01SnapBrief(prev), "after": c01SnapBrief(s), "step": info.kind})
		}
		if s.St.Committed >= 1 {
			d.committedReplicas[id] = true
		}
		lim := s.St.Committed
		if lim > uint64(len(s.IDs)) {
			lim = uint64(len(s.IDs))
			d.r.Count("c02.window_truncated", 1)
		}
		for o := uint64(1); o <= lim; o++ {
			if g, ok := d.committedID[o]; ok {
				d.r.Count("c02.committed_offset_comparisons", 1)
				if g != s.IDs[o-1] {
					sig := "committed-offset-disagreement"
					if d.committedBy[o] == id {
						sig = "committed-entry-changed-on-replica"
					}
					d.violation(c01ModeC02, sig, map[string]any{"offset": o, "node": id, "first_committed_on": d.committedBy[o],
						"first_identity": fmt.Sprintf("%d.%d.%d/%s", g.ChannelEpoch, g.LeaderTerm, g.FenceVersion, verifkit.Hex8(g.Digest[:])),
						"now":            c01SnapBrief(s), "all": d.briefAll(post), "step": info.kind})
					break
				}
			} else {
				d.committedID[o] = s.IDs[o-1]
				d.committedBy[o] = id
			}
		}
	}
}

// slowRead reads one identity per Load (which passes the adapter's own chain
// validation trivially) and reports the first offset whose predecessor fields
// do not match the entry before it.
func (d *c01Director) slowRead(id ch.NodeID) ([]string, uint64) {
	var out []string
	var brokenAt uint64
	var prev ch.EntryIdentity
	nd := d.c.nodes[id]
	for o := uint64(1); o <= c01Window; o++ {
		ctx, cancel := context.WithTimeout(context.Background(), 10*time.Second)
		res, err := nd.raw.Load(ctx, replication.LoadBatch{Items: []replication.LoadRequest{{ChannelKey: d.c.key, ChannelID: d.c.cid, ProbeIndexes: []uint64{o}}}})
		cancel()
		if err != nil || len(res.Items) != 1 || res.Items[0].Err != nil {
			line := fmt.Sprintf("%d: err=%v", o, err)
			if len(res.Items) == 1 {
				line += fmt.Sprint(" ", res.Items[0].Err)
			}
			out = append(out, line)
			break
		}
		e := res.Items[0].Entries[0]
		if !e.Present {
			out = append(out, fmt.Sprintf("%d: absent (leo=%d committed=%d)", o, res.Items[0].State.LEO, res.Items[0].State.Committed))
			break
		}
		x := e.Identity
		out = append(out, fmt.Sprintf("%d: authority=%d.%d.%d prev=(%d,t%d,%s) digest=%s", o, x.ChannelEpoch, x.LeaderTerm, x.FenceVersion, x.PreviousIndex, x.PreviousTerm,
			verifkit.Hex8(x.PreviousDigest[:4]), verifkit.Hex8(x.Digest[:4])))
		bad := x.Index != o || x.PreviousIndex != o-1
		if o == 1 {
			bad = bad || x.PreviousTerm != 0 || x.PreviousDigest != (ch.EntryDigest{})
		} else {
			bad = bad || x.PreviousTerm != prev.LeaderTerm || x.PreviousDigest != prev.Digest
		}
		if bad && brokenAt == 0 {
			brokenAt = o
			out[len(out)-1] += "   <-- does not chain to the entry before it"
		}
		prev = x
	}
	if len(out) > 40 {
		out = append([]string{fmt.Sprintf("..(%d earlier)", len(out)-40)}, out[len(out)-40:]...)
	}
	return out, brokenAt
}

// ---------------------------------------------------------------------------
// C01 oracle.

func (d *c01Director) snapHas(s c01Snap, a *c01Acked) bool {
	id, ok := s.at(a.Offset)
	return ok && id == a.ID
}

func (d *c01Director) ackedBrief(a *c01Acked) map[string]any {
	return map[string]any{"offset": a.Offset, "authority": fmt.Sprintf("%d.%d.%d", a.ID.ChannelEpoch, a.ID.LeaderTerm, a.ID.FenceVersion),
		"digest": verifkit.Hex8(a.ID.Digest[:]), "command_seq": a.Cmd, "acked_at_step": a.Step, "acked_by_leader": a.Leader,
		"receipt": fmt.Sprintf("%+v", struct{ First, Last, HW uint64 }{a.Receipt.First, a.Receipt.Last, a.Receipt.HW})}
}

// noteCommittedDiscard records an Install that removed, from the installing
// node, an entry some replica had already persisted as committed (it need not
// have been acknowledged to a client), while fewer than Q but at least one of
// the voters that answered the installer held it. That is the precondition of
// the known C01 finding; a later committed-offset disagreement in the same case
// is reported under a signature that names it.
func (d *c01Director) noteCommittedDiscard(info c01StepInfo, post map[ch.NodeID]c01Snap) {
	x := info.node
	if info.kind != "install" || !post[x].OK || d.priorLoss != nil {
		return
	}
	offs := make([]uint64, 0, len(d.committedID))
	for o := range d.committedID {
		offs = append(offs, o)
	}
	sort.Slice(offs, func(i, j int) bool { return offs[i] < offs[j] })
	for _, o := range offs {
		g := d.committedID[o]
		had, okPre := info.pre[x].at(o)
		now, okNow := post[x].at(o)
		hasNow := okNow && now == g
		hadBefore := okPre && had == g
		if !((info.installOK && !info.noop && !hasNow) || (hadBefore && !hasNow)) {
			continue
		}
		var holders []ch.NodeID
		for _, v := range d.c.ids {
			if id, ok := info.pre[v].at(o); ok && id == g && info.responders[v] {
				holders = append(holders, v)
			}
		}
		if len(holders) >= 1 && len(holders) < d.p.Q {
			d.r.Count("c02.install_discarded_replica_committed_entry_held_below_quorum_of_reachable", 1)
			d.priorLoss = map[string]any{"at_step": d.stepNo, "install_node": x, "offset": o, "committed_first_seen_on": d.committedBy[o],
				"identity": fmt.Sprintf("%d.%d.%d/%s", g.ChannelEpoch, g.LeaderTerm, g.FenceVersion, verifkit.Hex8(g.Digest[:])),
				"holders_among_reachable": holders, "voters_whose_probe_answers_reached_installer": c01SortedNodes(info.responders),
				"install_succeeded": info.installOK, "replicas_before_install": d.briefAll(info.pre), "replicas_after_install": d.briefAll(post)}
			d.priorSuffix = ":after-install-discarded-committed-entry"
		}
		return
	}
}

func (d *c01Director) checkC01(info c01StepInfo, post map[ch.NodeID]c01Snap) {
	defer d.noteCommittedDiscard(info, post)
	if len(d.ackedOrder) == 0 {
		return
	}
	x := info.node
	isInstall := info.kind == "install"
	// A repeated Install of the authority the node already holds returns the
	// cached frontier without recovery: it is the same leadership continuing,
	// not a later leader, so entries acknowledged meanwhile by a deposed leader
	// are judged at the next real Install.
	judgeLeader := info.installOK && !info.noop
	var lost []*c01Acked
	changed := false
	for _, o := range d.ackedOrder {
		a := d.acked[o]
		if o > c01Window {
			continue
		}
		d.r.Count("c01.acked_entry_checks", 1)
		for _, id := range d.c.ids {
			s := post[id]
			if !s.OK {
				continue
			}
			has := d.snapHas(s, a)
			if d.held[o][id] && !has && !(isInstall && id == x) {
				sig := "acked-entry-removed-from-replica:without-install:" + info.kind
				if isInstall {
					sig = "acked-entry-removed-from-replica:not-the-installing-node"
				}
				d.violation(c01ModeC01, sig, map[string]any{"entry": d.ackedBrief(a), "replica": id, "step": info.kind,
					"replicas_after": d.briefAll(post)})
			}
			if d.held[o] == nil {
				d.held[o] = map[ch.NodeID]bool{}
			}
			if !(isInstall && id == x) {
				d.held[o][id] = has
			}
		}
		if !isInstall || !post[x].OK {
			continue
		}
		hasNow := d.snapHas(post[x], a)
		hadBefore := d.held[o][x] || d.snapHas(info.pre[x], a)
		if (judgeLeader && !hasNow) || (hadBefore && !hasNow) {
			lost = append(lost, a)
			if _, present := post[x].at(o); present && judgeLeader {
				changed = true
			}
		}
		d.held[o][x] = hasNow
	}
	if len(lost) == 0 {
		return
	}
	first := lost[0]
	var holdersReach, holdersAll []ch.NodeID
	for _, v := range d.c.ids {
		if d.snapHas(info.pre[v], first) {
			holdersAll = append(holdersAll, v)
			if info.responders[v] {
				holdersReach = append(holdersReach, v)
			}
		}
	}
	h := len(holdersReach)
	var sig string
	switch {
	case changed:
		sig = "acked-offset-digest-changed:installed-leader-holds-other-entry"
	case h >= d.p.Q:
		sig = "acked-entry-lost:quorum-of-reachable-held-it"
	case h == 0:
		sig = "acked-entry-lost:no-reachable-holder"
	default:
		sig = c01KnownLossSig
	}
	var lostBrief []map[string]any
	for _, a := range lost {
		lostBrief = append(lostBrief, d.ackedBrief(a))
	}
	if info.installOK {
		d.r.Count("c01.loss_events.install_succeeded", 1)
	} else {
		d.r.Count("c01.loss_events.install_failed_after_truncating", 1)
		if sig != c01KnownLossSig {
			sig += ":install-failed"
		}
	}
	d.r.Count("c01.loss_events."+sig, 1)
	d.violation(c01ModeC01, sig, map[string]any{
		"lost_entries":                                lostBrief,
		"install_node":                                x,
		"install_authority":                           fmt.Sprintf("%d.%d.%d", info.authority.ChannelEpoch, info.authority.LeaderTerm, info.authority.FenceVersion),
		"install_result":                              fmt.Sprintf("%+v", info.installed),
		"install_err":                                 info.installErr,
		"install_succeeded":                           info.installOK,
		"write_quorum":                                d.p.Q,
		"voters":                                      d.p.N,
		"link_reachable_from_installer":               info.linkReach,
		"voters_whose_probe_answers_reached_installer": c01SortedNodes(info.responders),
		"probe_frontiers_seen_by_installer":           info.obs,
		"holders_of_first_lost_entry_before_install":  holdersAll,
		"holders_among_reachable":                     holdersReach,
		"replicas_before_install":                     d.briefAll(info.pre),
		"replicas_after_install":                      d.briefAll(post),
	})
}

// onReceipt registers an acknowledgement and checks what the receipt claims.
func (d *c01Director) onReceipt(x ch.NodeID, cmd *c01Cmd, rc replication.Receipt) {
	d.r.Count("commit.receipts", 1)
	if rc.CommandID != cmd.id || rc.First == 0 || rc.Last < rc.First || rc.Last-rc.First+1 != uint64(len(cmd.recs)) || rc.Authority != cmd.auth || rc.HW < rc.Last {
		d.violation(c01ModeC01, "receipt-does-not-describe-proposal", map[string]any{"receipt": fmt.Sprintf("%+v", rc), "records": len(cmd.recs), "leader": x})
		return
	}
	snaps := d.snapshotAll()
	d.r.Eval(1)
	for i := range cmd.recs {
		o := rc.First + uint64(i)
		if o > c01Window {
			d.r.Count("c01.acked_beyond_window", 1)
			continue
		}
		id, ok := snaps[x].at(o)
		rec := cmd.recs[i]
		if !ok || id.CommandID != cmd.id || id.ChannelEpoch != rc.Authority.ChannelEpoch || id.LeaderTerm != rc.Authority.LeaderTerm ||
			id.FenceVersion != rc.Authority.FenceVersion || !quorumlog.VerifyEntry(id, quorumlog.Record{ID: rec.ID, Index: o, Epoch: rec.Epoch,
			Setting: rec.Setting, FromUID: rec.FromUID, ClientMsgNo: rec.ClientMsgNo, ServerTimestampMS: rec.ServerTimestampMS, SyncOnce: rec.SyncOnce, Payload: rec.Payload}) {
			d.violation(c01ModeC01, "receipt-entry-not-durable-on-leader", map[string]any{"receipt": fmt.Sprintf("%+v", rc), "offset": o, "leader": x,
				"leader_state": c01SnapBrief(snaps[x]), "replicas": d.briefAll(snaps)})
			return
		}
		holders := map[ch.NodeID]bool{}
		for _, v := range d.c.ids {
			if got, ok := snaps[v].at(o); ok && got == id {
				holders[v] = true
			}
		}
		if len(holders) < d.p.Q {
			d.violation(c01ModeC01, "receipt-without-write-quorum-durability", map[string]any{"receipt": fmt.Sprintf("%+v", rc), "offset": o, "leader": x,
				"holders": c01SortedNodes(holders), "write_quorum": d.p.Q, "replicas": d.briefAll(snaps)})
			return
		}
		if prev, ok := d.acked[o]; ok {
			if prev.ID != id {
				d.violation(c01ModeC01, "acked-offset-reacknowledged-with-different-entry", map[string]any{"earlier": d.ackedBrief(prev), "receipt": fmt.Sprintf("%+v", rc), "leader": x,
					"replicas": d.briefAll(snaps)})
				return
			}
			continue
		}
		d.acked[o] = &c01Acked{Offset: o, ID: id, Rec: rec, Cmd: cmd.seq, Step: d.stepNo, Leader: x, Receipt: rc}
		d.ackedOrder = append(d.ackedOrder, o)
		sort.Slice(d.ackedOrder, func(i, j int) bool { return d.ackedOrder[i] < d.ackedOrder[j] })
		d.held[o] = holders
		d.r.Count("c01.acked_entries", 1)
	}
	cmd.acked, cmd.receipt = true, rc
	d.ackedCount++
	for id, s := range snaps {
		if s.OK {
			// keep monotonicity bookkeeping current; full C02 evaluation happens in observe
			if prev, ok := d.last[id]; !ok || !prev.OK || s.St.Committed >= prev.St.Committed {
				d.last[id] = s
			}
		}
	}
}

// ---------------------------------------------------------------------------
// Availability bookkeeping (the premise of both properties).

func (d *c01Director) unavailable() map[ch.NodeID]bool {
	u := map[ch.NodeID]bool{}
	for id, v := range d.down {
		if v {
			u[id] = true
		}
	}
	for id := range d.cutsOf {
		u[id] = true
	}
	return u
}

func (d *c01Director) available() []ch.NodeID {
	u := d.unavailable()
	var out []ch.NodeID
	for _, id := range d.c.ids {
		if !u[id] {
			out = append(out, id)
		}
	}
	return out
}

func (d *c01Director) budget() int { return d.p.N - d.p.Q - len(d.unavailable()) }

// applyCuts recomputes the cut set from cutsOf; must run inside net.topology.
func (d *c01Director) applyCuts() {
	n := d.c.net
	n.cut = map[c01Pair]bool{}
	for a, peers := range d.cutsOf {
		for _, b := range peers {
			n.cut[c01Pair{a, b}] = true
			n.cut[c01Pair{b, a}] = true
		}
	}
}

func (d *c01Director) peersOf(a ch.NodeID) []ch.NodeID {
	var out []ch.NodeID
	for _, id := range d.c.ids {
		if id != a {
			out = append(out, id)
		}
	}
	return out
}

func (d *c01Director) forget(id ch.NodeID) {
	delete(d.ready, id)
	delete(d.pending, id)
	if d.leader == id {
		d.leader = 0
	}
}

func (d *c01Director) doDown(id ch.NodeID, atomically func()) {
	d.logStep("down n%d (crash-stop)", id)
	d.fp = append(d.fp, fmt.Sprintf("down%d", id))
	if err := d.c.stop(id, func() {
		if atomically != nil {
			atomically()
			d.applyCuts()
		}
	}); err != nil {
		d.note("close err=%v", err)
		d.r.Count("runtime.close_error", 1)
	}
	d.down[id] = true
	d.forget(id)
	d.faultSteps++
	d.r.Count("steps.down", 1)
	d.observe(c01StepInfo{kind: "down", node: id})
}

func (d *c01Director) doUp(id ch.NodeID) {
	reopen := d.p.Disk && d.rng.IntN(2) == 0
	d.logStep("up n%d (new runtime over the same store; engine reopened=%v)", id, reopen)
	d.fp = append(d.fp, fmt.Sprintf("up%d", id))
	if reopen {
		if err := d.c.reopenStore(id); err != nil {
			d.note("reopen err=%v", err)
			d.r.Inconclusive("messagedb reopen failed: " + err.Error())
			d.inconclusive = true
			return
		}
		d.r.Count("steps.up.engine_reopened", 1)
	}
	if err := d.c.start(id); err != nil {
		d.r.Inconclusive("runtime start failed: " + err.Error())
		d.inconclusive = true
		return
	}
	delete(d.down, id)
	d.r.Count("steps.up", 1)
	d.observe(c01StepInfo{kind: "up", node: id})
}

func (d *c01Director) doPartition(a ch.NodeID, peers []ch.NodeID, alsoHeal ch.NodeID) {
	if alsoHeal != 0 {
		d.logStep("atomically: heal n%d and cut n%d from %v", alsoHeal, a, peers)
	} else {
		d.logStep("cut n%d from %v", a, peers)
	}
	d.fp = append(d.fp, fmt.Sprintf("cut%d/%d", a, len(peers)))
	d.c.net.topology(func() {
		if alsoHeal != 0 {
			delete(d.cutsOf, alsoHeal)
		}
		d.cutsOf[a] = append([]ch.NodeID(nil), peers...)
		d.applyCuts()
	})
	d.faultSteps++
	d.r.Count("steps.partition", 1)
	d.observe(c01StepInfo{kind: "partition", node: a})
}

func (d *c01Director) doHeal(a ch.NodeID) {
	d.logStep("heal n%d", a)
	d.fp = append(d.fp, fmt.Sprintf("heal%d", a))
	d.c.net.topology(func() {
		delete(d.cutsOf, a)
		d.applyCuts()
	})
	d.r.Count("steps.heal", 1)
	d.observe(c01StepInfo{kind: "heal", node: a})
}

func (d *c01Director) clearTransientFaults() {
	n := d.c.net
	n.mu.Lock()
	n.dropReq, n.loseResp, n.dup = map[c01FaultKey]int{}, map[c01FaultKey]int{}, map[c01FaultKey]int{}
	n.delay = map[c01Pair]time.Duration{}
	n.mu.Unlock()
	f := d.c.sf
	f.mu.Lock()
	f.failLocal, f.unknownLocal = map[ch.NodeID]int{}, map[ch.NodeID]int{}
	f.delayLocal, f.crashAfterReplace = map[ch.NodeID]time.Duration{}, map[ch.NodeID]int{}
	f.mu.Unlock()
}

// ---------------------------------------------------------------------------
// Authority, install, commit.

func (d *c01Director) nextAuthority(mode int) replication.AuthorityID {
	a := d.auth
	switch {
	case a == (replication.AuthorityID{}):
		a = replication.AuthorityID{ChannelEpoch: 1 + uint64(d.rng.IntN(3)), LeaderTerm: 1 + uint64(d.rng.IntN(3)), FenceVersion: 1 + uint64(d.rng.IntN(2))}
	case mode < 78:
		a.LeaderTerm++
	case mode < 88:
		a.LeaderTerm += 2
		a.FenceVersion = 1 + uint64(d.rng.IntN(3))
	case mode < 94:
		a.ChannelEpoch++
		a.LeaderTerm = 1 + uint64(d.rng.IntN(3))
		a.FenceVersion = 1
	default:
		a.FenceVersion++
	}
	return a
}

func (d *c01Director) doInstall(x ch.NodeID, id replication.AuthorityID) bool {
	nd := d.c.nodes[x]
	if !nd.up {
		return false
	}
	voters := append([]ch.NodeID(nil), d.c.ids...)
	authority := replication.Authority{Key: d.c.key, ChannelID: d.c.cid, ID: id, Leader: x, Voters: voters, WriteQuorum: d.p.Q}
	d.logStep("install n%d authority=%d.%d.%d", x, id.ChannelEpoch, id.LeaderTerm, id.FenceVersion)
	// fresh pre-install observation: also the reference for "who held what"
	pre := d.observe(c01StepInfo{kind: "pre-install", node: x})
	if d.stopped {
		return false
	}
	if cmpAuth := c01CompareAuthority(id, d.auth); cmpAuth > 0 {
		d.auth = id
		d.leader = 0 // the previous holder is deposed from the control plane's point of view
	}
	prevReady, wasReady := d.ready[x]
	sameAuthority := wasReady && prevReady.ID == id
	keepPending := d.pending[x]
	delete(d.ready, x)
	delete(d.pending, x)
	info := c01StepInfo{kind: "install", node: x, authority: id, pre: pre, linkReach: d.c.net.reachableFrom(x, d.c.ids), noop: sameAuthority}
	d.c.net.beginObs(x)
	ctx, cancel := context.WithTimeout(context.Background(), 90*time.Second)
	var inst replication.Installed
	var err error
	panicked := d.r.Guard("Install", d.sched, func() { inst, err = nd.rt.Log().Install(ctx, authority) })
	cancel()
	info.obs = d.c.net.endObs()
	if panicked {
		d.stopped = true
		return false
	}
	if errors.Is(err, context.DeadlineExceeded) {
		d.r.Inconclusive("Install watchdog expired")
		d.inconclusive = true
		return false
	}
	info.responders = map[ch.NodeID]bool{x: true}
	for v, o := range info.obs {
		if o.OK > 0 && o.Fail == 0 {
			info.responders[v] = true
		}
	}
	info.installed = inst
	if err != nil {
		info.installErr = err.Error()
		d.note("err=%v", err)
		d.r.Count("install.error."+c01ErrClass(err), 1)
		d.fp = append(d.fp, fmt.Sprintf("I%d:e", x))
	} else {
		info.installOK = true
		d.note("Installed{LEO:%d HW:%d} responders=%v", inst.LEO, inst.HW, c01SortedNodes(info.responders))
		d.r.Count("install.ok", 1)
		d.fp = append(d.fp, fmt.Sprintf("I%d:ok", x))
		d.ready[x] = authority
		if sameAuthority && keepPending != nil {
			d.pending[x] = keepPending // the log kept its unresolved command
		}
		if sameAuthority {
			d.r.Count("install.same_authority_noop", 1)
		}
		if c01CompareAuthority(id, d.auth) == 0 {
			d.leader = x
		}
		if d.ackedCount > 0 {
			d.installAfterAck = true
		}
		if inst.Authority != id || inst.HW > inst.LEO {
			d.violation(c01ModeC01, "installed-frontier-malformed", map[string]any{"installed": fmt.Sprintf("%+v", inst)})
		}
	}
	post := d.observe(info)
	if info.installOK && post[x].OK && post[x].St.LEO != inst.LEO {
		// Installed.LEO is the frontier the leader will append after.
		d.r.Count("install.reported_leo_differs_from_store", 1)
	}
	return info.installOK
}

func c01CompareAuthority(a, b replication.AuthorityID) int {
	for _, p := range [][2]uint64{{a.ChannelEpoch, b.ChannelEpoch}, {a.LeaderTerm, b.LeaderTerm}, {a.FenceVersion, b.FenceVersion}} {
		if p[0] < p[1] {
			return -1
		}
		if p[0] > p[1] {
			return 1
		}
	}
	return 0
}

func c01ErrClass(err error) string {
	switch {
	case err == nil:
		return "nil"
	case errors.Is(err, ch.ErrLogConflict):
		return "log_conflict"
	case errors.Is(err, ch.ErrStaleMeta):
		return "stale_meta"
	case errors.Is(err, ch.ErrNotReady):
		return "not_ready"
	case errors.Is(err, ch.ErrBackpressured):
		return "backpressured"
	case errors.Is(err, ch.ErrInvalidConfig):
		return "invalid_config"
	case errors.Is(err, ch.ErrClosed):
		return "closed"
	case errors.Is(err, context.DeadlineExceeded), errors.Is(err, context.Canceled):
		return "context"
	case strings.Contains(err.Error(), "recovery quorum unavailable"):
		return "recovery_quorum_unavailable"
	case strings.Contains(err.Error(), "recovery probe incomplete"):
		return "recovery_probe_incomplete"
	case strings.Contains(err.Error(), "durable quorum unavailable"):
		return "durable_quorum_unavailable"
	case strings.Contains(err.Error(), "outcome unknown"):
		return "peer_outcome_unknown"
	case strings.Contains(err.Error(), "c01:"):
		return "injected"
	default:
		return "other"
	}
}

func (d *c01Director) newCmd(x ch.NodeID, nrec, payload int) *c01Cmd {
	auth := d.ready[x]
	seq := len(d.cmds) + 1
	var seed [24]byte
	binary.BigEndian.PutUint64(seed[0:], d.r.Seed)
	binary.BigEndian.PutUint64(seed[8:], uint64(d.caseIdx))
	binary.BigEndian.PutUint64(seed[16:], uint64(seq))
	cmd := &c01Cmd{seq: seq, id: ch.CommandID(sha256.Sum256(seed[:])), auth: auth.ID, leader: x}
	for i := 0; i < nrec; i++ {
		d.nextMsg++
		n := payload
		if n <= 0 {
			n = 1 + d.rng.IntN(48)
		}
		pl := make([]byte, n)
		for j := range pl {
			pl[j] = byte(d.rng.Uint32())
		}
		cmd.recs = append(cmd.recs, ch.Record{ID: d.nextMsg, Epoch: auth.ID.ChannelEpoch, FromUID: fmt.Sprintf("u%d", d.rng.IntN(4)),
			ClientMsgNo: fmt.Sprintf("c%d-%d-%d", d.caseIdx, seq, i), ServerTimestampMS: 1_700_000_000_000 + int64(d.nextMsg&0xffffff),
			Payload: pl, SizeBytes: len(pl)})
	}
	d.cmds = append(d.cmds, cmd)
	if d.cmdByID == nil {
		d.cmdByID = map[ch.CommandID]*c01Cmd{}
	}
	d.cmdByID[cmd.id] = cmd
	return cmd
}

func (d *c01Director) doCommit(x ch.NodeID, nrec, payload int) bool {
	nd := d.c.nodes[x]
	auth, ok := d.ready[x]
	if !nd.up || !ok {
		return false
	}
	cmd := d.pending[x]
	what := "retry-unresolved"
	if cmd == nil {
		cmd = d.newCmd(x, nrec, payload)
		what = "new"
	}
	stale := ""
	if c01CompareAuthority(auth.ID, d.auth) < 0 {
		stale = " (deposed leader)"
		d.r.Count("commit.on_deposed_leader", 1)
	}
	d.logStep("commit n%d%s cmd#%d %s records=%d", x, stale, cmd.seq, what, len(cmd.recs))
	ctx, cancel := context.WithTimeout(context.Background(), 90*time.Second)
	var rc replication.Receipt
	var err error
	panicked := d.r.Guard("Commit", d.sched, func() {
		rc, err = nd.rt.Log().Commit(ctx, replication.Proposal{Key: d.c.key, Expected: auth.ID, CommandID: cmd.id, Records: cmd.recs})
	})
	cancel()
	if panicked {
		d.stopped = true
		return false
	}
	if errors.Is(err, context.DeadlineExceeded) {
		d.r.Inconclusive("Commit watchdog expired")
		d.inconclusive = true
		return false
	}
	if err != nil {
		// stays open: it may or may not take effect later
		d.pending[x] = cmd
		d.note("err=%v", err)
		d.r.Count("commit.error."+c01ErrClass(err), 1)
		d.fp = append(d.fp, fmt.Sprintf("C%d:e", x))
		d.observe(c01StepInfo{kind: "commit-error", node: x})
		return false
	}
	delete(d.pending, x)
	d.note("Receipt{First:%d Last:%d HW:%d}", rc.First, rc.Last, rc.HW)
	d.fp = append(d.fp, fmt.Sprintf("C%d:ok%d", x, len(cmd.recs)))
	d.onReceipt(x, cmd, rc)
	if !d.stopped {
		d.observe(c01StepInfo{kind: "commit", node: x})
	}
	return true
}

// doProbeBackpressure issues a different command while one is unresolved; the
// log must refuse it without admitting it (it is never retried, never acked).
func (d *c01Director) doProbeBackpressure(x ch.NodeID) {
	nd := d.c.nodes[x]
	auth := d.ready[x]
	cmd := d.newCmd(x, 1, 0)
	d.logStep("commit n%d cmd#%d while cmd#%d unresolved", x, cmd.seq, d.pending[x].seq)
	ctx, cancel := context.WithTimeout(context.Background(), 90*time.Second)
	rc, err := nd.rt.Log().Commit(ctx, replication.Proposal{Key: d.c.key, Expected: auth.ID, CommandID: cmd.id, Records: cmd.recs})
	cancel()
	if err == nil {
		d.note("Receipt{First:%d Last:%d}", rc.First, rc.Last)
		d.onReceipt(x, cmd, rc)
		delete(d.pending, x)
	} else {
		d.note("err=%v", err)
		d.r.Count("commit.second_command_refused."+c01ErrClass(err), 1)
	}
	d.observe(c01StepInfo{kind: "commit-second", node: x})
}

func (d *c01Director) doRetryAcked(x ch.NodeID) bool {
	nd := d.c.nodes[x]
	auth, ok := d.ready[x]
	if !nd.up || !ok || d.pending[x] != nil {
		return false
	}
	var cands []*c01Cmd
	for _, c := range d.cmds {
		if c.acked && c.leader == x && c.auth == auth.ID && len(d.cmds)-c.seq < 40 {
			cands = append(cands, c)
		}
	}
	if len(cands) == 0 {
		return false
	}
	cmd := cands[d.rng.IntN(len(cands))]
	d.logStep("retry n%d acked cmd#%d", x, cmd.seq)
	ctx, cancel := context.WithTimeout(context.Background(), 90*time.Second)
	rc, err := nd.rt.Log().Commit(ctx, replication.Proposal{Key: d.c.key, Expected: auth.ID, CommandID: cmd.id, Records: cmd.recs})
	cancel()
	d.fp = append(d.fp, fmt.Sprintf("R%d", x))
	if err != nil {
		d.note("err=%v", err)
		d.r.Count("retry.error."+c01ErrClass(err), 1)
	} else {
		d.note("Receipt{First:%d Last:%d}", rc.First, rc.Last)
		if rc != cmd.receipt {
			d.r.Count("retry.receipt_differs", 1) // retry stability itself is C03's subject
		} else {
			d.r.Count("retry.same_receipt", 1)
		}
		d.onReceipt(x, cmd, rc)
	}
	if !d.stopped {
		d.observe(c01StepInfo{kind: "retry", node: x})
	}
	return true
}

func (d *c01Director) settle(ms int) {
	d.logStep("settle %dms", ms)
	time.Sleep(time.Duration(ms) * time.Millisecond)
	d.observe(c01StepInfo{kind: "settle"})
}

// ---------------------------------------------------------------------------
// Random schedule.

func (d *c01Director) pick(ids []ch.NodeID) ch.NodeID { return ids[d.rng.IntN(len(ids))] }

func (d *c01Director) commitTarget() ch.NodeID {
	if d.p.Stale && d.rng.IntN(4) == 0 {
		var stale []ch.NodeID
		for _, id := range d.c.ids {
			if a, ok := d.ready[id]; ok && d.c.nodes[id].up && c01CompareAuthority(a.ID, d.auth) < 0 {
				stale = append(stale, id)
			}
		}
		if len(stale) > 0 {
			return d.pick(stale)
		}
	}
	if d.leader != 0 && d.c.nodes[d.leader].up {
		return d.leader
	}
	return 0
}

func (d *c01Director) randomInstall() {
	avail := d.available()
	x := d.pick(avail)
	mode := d.rng.IntN(100)
	if d.leader != 0 && d.leader == x && d.rng.IntN(4) == 0 {
		// the same node re-installs the authority it already holds
		d.doInstall(x, d.auth)
		return
	}
	d.doInstall(x, d.nextAuthority(mode))
}

func (d *c01Director) randomStep() {
	op := d.rng.IntN(100)
	a1, a2, a3 := d.rng.IntN(1<<20), d.rng.IntN(1<<20), d.rng.IntN(1<<20)
	if d.leader == 0 && op < 55 {
		d.randomInstall()
		return
	}
	switch {
	case op < 36: // commit
		x := d.commitTarget()
		if x == 0 {
			d.randomInstall()
			return
		}
		if d.pending[x] != nil && a1%6 == 0 {
			d.doProbeBackpressure(x)
			return
		}
		d.doCommit(x, 1+a1%3, 0)
	case op < 48:
		d.randomInstall()
	case op < 55: // crash-stop
		if d.budget() <= 0 {
			d.randomInstall()
			return
		}
		d.doDown(d.pick(d.available()), nil)
	case op < 62: // restart
		dn := c01SortedNodes(d.down)
		if len(dn) == 0 {
			d.settle(1)
			return
		}
		d.doUp(dn[a1%len(dn)])
	case op < 68: // partition
		if d.budget() <= 0 {
			if x := d.commitTarget(); x != 0 {
				d.doCommit(x, 1+a1%3, 0)
			}
			return
		}
		a := d.pick(d.available())
		peers := d.peersOf(a)
		if a1%3 == 0 && len(peers) > 1 {
			d.rng.Shuffle(len(peers), func(i, j int) { peers[i], peers[j] = peers[j], peers[i] })
			peers = peers[:1+a2%(len(peers)-1)]
		}
		d.doPartition(a, peers, 0)
	case op < 73: // heal
		var parts []ch.NodeID
		for id := range d.cutsOf {
			parts = append(parts, id)
		}
		if len(parts) == 0 {
			d.settle(1)
			return
		}
		sort.Slice(parts, func(i, j int) bool { return parts[i] < parts[j] })
		d.doHeal(parts[a1%len(parts)])
	case op < 78: // atomic swap of the unavailable node
		var parts []ch.NodeID
		for id := range d.cutsOf {
			parts = append(parts, id)
		}
		avail := d.available()
		if len(parts) == 0 || len(avail) == 0 {
			d.settle(1)
			return
		}
		sort.Slice(parts, func(i, j int) bool { return parts[i] < parts[j] })
		healed := parts[a1%len(parts)]
		victim := avail[a2%len(avail)]
		if a3%2 == 0 {
			d.doPartition(victim, d.peersOf(victim), healed)
		} else {
			d.logStep("atomically: heal n%d and crash-stop n%d", healed, victim)
			d.stepNo--
			d.doDown(victim, func() { delete(d.cutsOf, healed) })
		}
	case op < 88: // one-shot message faults
		from := d.pick(d.c.ids)
		peers := d.peersOf(from)
		to := peers[a1%len(peers)]
		kinds := []replication.ExchangeKind{0, 0, replication.ExchangeReplicate, replication.ExchangeProbe, replication.ExchangeFetch}
		k := c01FaultKey{from, to, kinds[a2%len(kinds)]}
		cnt := 1 + a3%2
		n := d.c.net
		n.mu.Lock()
		var name string
		switch a3 % 7 {
		case 0, 1:
			n.loseResp[k] += cnt
			name = "lose-response-after-apply"
		case 2:
			n.dropReq[k] += cnt
			name = "drop-request"
		case 3, 4:
			n.dup[k] += cnt
			name = "duplicate-delivery"
		case 5:
			n.delay[c01Pair{from, to}] = time.Duration(1+a2%3) * time.Millisecond
			name = "delay"
		default:
			n.delay = map[c01Pair]time.Duration{}
			name = "clear-delays"
		}
		n.mu.Unlock()
		d.logStep("msgfault %s n%d->n%d kind=%d x%d", name, from, to, k.kind, cnt)
		d.fp = append(d.fp, "mf:"+name)
		d.faultSteps++
		d.r.Count("steps.msgfault."+name, 1)
	case op < 92: // leader-local durability faults
		x := d.commitTarget()
		if x == 0 {
			d.randomInstall()
			return
		}
		f := d.c.sf
		f.mu.Lock()
		var name string
		switch a1 % 4 {
		case 0:
			f.failLocal[x]++
			name = "local-sync-fails-unwritten"
		case 1:
			f.unknownLocal[x]++
			name = "local-sync-written-but-reported-unknown"
		case 2:
			f.delayLocal[x] = time.Duration(1+a2%3) * time.Millisecond
			name = "local-sync-slow"
		default:
			delete(f.delayLocal, x)
			name = "local-sync-normal"
		}
		f.mu.Unlock()
		d.logStep("localfault n%d %s", x, name)
		d.fp = append(d.fp, "lf:"+name)
		d.faultSteps++
		d.r.Count("steps.localfault."+name, 1)
	case op < 95:
		x := d.commitTarget()
		if x == 0 || !d.doRetryAcked(x) {
			d.settle(1)
		}
	case op < 95:
		d.settle(1 + a1%4)
	case op < 98: // unquorate tail re-shipped by gap repair, then leader and that follower vanish
		if !d.unquorateRepairShape(0, 0, 1+a1%2, a2%2 == 0) {
			d.settle(1)
		}
	default: // crash point between recovery pages on the installing node
		if d.budget() <= 0 {
			d.settle(1)
			return
		}
		x := d.pick(d.available())
		d.crashDuringInstall(x, 1+a1%2)
	}
}

// unquorateRepairShape: the leader is cut from every peer and a Commit fails for
// lack of quorum (durable on the leader only); the link to one follower heals
// so the leader's repair owner re-ships that tail; then leader and that
// follower are cut from everyone and a voter that never saw the tail installs
// and commits. Needs two simultaneously unavailable voters (N-Q >= 2).
func (d *c01Director) unquorateRepairShape(l, b ch.NodeID, recs int, returns bool) bool {
	if l == 0 {
		l = d.leader
	}
	if l == 0 || !d.c.nodes[l].up || d.p.N-d.p.Q < 2 || len(d.unavailable()) != 0 || d.pending[l] != nil {
		return false
	}
	if _, ok := d.ready[l]; !ok {
		return false
	}
	peers := d.peersOf(l)
	if b == 0 {
		b = d.pick(peers)
	}
	d.r.Count("steps.unquorate_repair_shape", 1)
	d.doPartition(l, peers, 0)
	if d.stopped {
		return true
	}
	d.doCommit(l, recs, 0)
	cmd := d.pending[l]
	if d.stopped || cmd == nil {
		return true // it was acknowledged after all (or the case ended)
	}
	var rest []ch.NodeID
	for _, v := range peers {
		if v != b {
			rest = append(rest, v)
		}
	}
	d.doPartition(l, rest, 0) // only the link l<->b heals
	shipped := false
	for i := 0; i < 60 && !d.stopped && !shipped; i++ {
		time.Sleep(3 * time.Millisecond)
		post := d.observe(c01StepInfo{kind: "await-gap-repair", node: b})
		for _, e := range post[b].IDs {
			if e.CommandID == cmd.id {
				shipped = true
			}
		}
	}
	if d.stopped {
		return true
	}
	if shipped {
		d.r.Count("steps.unquorate_repair_shape.tail_reached_follower", 1)
	} else {
		d.r.Count("steps.unquorate_repair_shape.tail_not_reshipped_in_time", 1)
	}
	d.logStep("cut n%d and n%d from everyone (unquorate tail re-shipped to n%d: %v)", l, b, b, shipped)
	d.fp = append(d.fp, fmt.Sprintf("uqcut%d", b))
	d.c.net.topology(func() {
		d.cutsOf[l] = d.peersOf(l)
		d.cutsOf[b] = d.peersOf(b)
		d.applyCuts()
	})
	d.faultSteps++
	d.observe(c01StepInfo{kind: "partition"})
	if d.stopped {
		return true
	}
	x := d.pick(d.available())
	if d.doInstall(x, d.nextAuthority(0)) {
		for i := 0; i < 2 && !d.stopped; i++ {
			d.doCommit(x, 1, 0)
		}
	}
	if returns && !d.stopped {
		d.doHeal(l)
		if !d.stopped {
			d.doHeal(b)
		}
		if !d.stopped {
			d.settle(5)
		}
	}
	return true
}

func (d *c01Director) crashDuringInstall(x ch.NodeID, afterPages int) {
	f := d.c.sf
	f.mu.Lock()
	f.crashAfterReplace[x] = afterPages
	f.mu.Unlock()
	d.logStep("arm crash point on n%d after %d recovery page(s)", x, afterPages)
	d.stepNo--
	d.doInstall(x, d.nextAuthority(0))
	f.mu.Lock()
	delete(f.crashAfterReplace, x)
	dead := d.c.nodes[x].store.dead
	f.mu.Unlock()
	d.faultSteps++
	if dead && !d.stopped {
		d.r.Count("steps.crash_between_recovery_pages", 1)
		d.doDown(x, nil)
		if !d.stopped {
			d.doUp(x)
		}
	}
}

// finalPhase heals everything, restarts every node, installs once more and
// verifies the final leader against the whole ledger, content included.
func (d *c01Director) finalPhase() {
	if d.stopped || d.inconclusive {
		return
	}
	d.clearTransientFaults()
	d.logStep("final: heal all, restart all")
	d.c.net.topology(func() {
		d.cutsOf = map[ch.NodeID][]ch.NodeID{}
		d.applyCuts()
	})
	for _, id := range c01SortedNodes(d.down) {
		if err := d.c.start(id); err != nil {
			d.r.Inconclusive("runtime start failed: " + err.Error())
			d.inconclusive = true
			return
		}
		delete(d.down, id)
	}
	d.observe(c01StepInfo{kind: "final-heal"})
	ok := false
	var x ch.NodeID
	for try := 0; try < 4 && !ok && !d.stopped && !d.inconclusive; try++ {
		x = d.pick(d.c.ids)
		ok = d.doInstall(x, d.nextAuthority(0))
	}
	if d.stopped || d.inconclusive {
		return
	}
	if !ok {
		d.r.Count("final.install_never_succeeded", 1)
		return
	}
	d.r.Count("final.install_ok", 1)
	d.verifyContent(x)
}

// verifyContent fetches the final leader's records and compares every
// acknowledged record byte for byte.
func (d *c01Director) verifyContent(x ch.NodeID) {
	if len(d.ackedOrder) == 0 {
		return
	}
	nd := d.c.nodes[x]
	s := d.readReplica(x, c01Window)
	if !s.OK || s.St.LEO == 0 {
		return
	}
	got := map[uint64]ch.Record{}
	from := uint64(1)
	for from <= s.St.LEO && from <= c01Window {
		var prev ch.EntryIdentity
		if from > 1 {
			prev = s.IDs[from-2]
		}
		through := s.St.LEO
		if through-from >= 200 {
			through = from + 199
		}
		ctx, cancel := context.WithTimeout(context.Background(), 30*time.Second)
		res := nd.raw.Fetch(ctx, []replication.FetchRange{{ChannelKey: d.c.key, ChannelID: d.c.cid, Expected: s.St, From: from, Through: through, Previous: prev, MaxBytes: 1 << 20}})
		cancel()
		if len(res) != 1 || res[0].Err != nil || len(res[0].Proposals) == 0 {
			d.r.Count("final.fetch_unavailable", 1)
			return
		}
		for _, p := range res[0].Proposals {
			for i, rec := range p.Records {
				got[p.Manifest.BaseOffset+uint64(i)+1] = rec
			}
			from = p.Manifest.LastOffset + 1
		}
	}
	for _, o := range d.ackedOrder {
		a := d.acked[o]
		rec, ok := got[o]
		if !ok {
			continue // absence is judged by identity in checkC01
		}
		d.r.Count("final.records_compared", 1)
		if rec.ID != a.Rec.ID || rec.FromUID != a.Rec.FromUID || rec.ClientMsgNo != a.Rec.ClientMsgNo || !bytes.Equal(rec.Payload, a.Rec.Payload) ||
			rec.ServerTimestampMS != a.Rec.ServerTimestampMS {
			d.violation(c01ModeC01, "acked-record-content-changed", map[string]any{"entry": d.ackedBrief(a), "leader": x,
				"got": fmt.Sprintf("id=%d from=%s no=%s payload=%s", rec.ID, rec.FromUID, rec.ClientMsgNo, verifkit.Hex8(rec.Payload))})
			return
		}
	}
}
