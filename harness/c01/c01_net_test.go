//go:build verif

// Package c01 is the shared runtime monitor of properties C01 (acknowledged
// channel appends survive failover and crashes) and C02 (replica logs agree on
// every committed offset). It composes the public replication surface
// (NewStoreAdapter / NewRuntime / Log() / ExchangeServer()) of N nodes inside
// one process, connects them with a fault-injecting PeerLink, and lets a
// single-threaded director drive hostile schedules while two oracles watch.
package c01

import (
	"context"
	"errors"
	"fmt"
	"path/filepath"
	"sort"
	"sync"
	"testing"
	"time"

	ch "github.com/WuKongIM/WuKongIM/pkg/channel"
	"github.com/WuKongIM/WuKongIM/pkg/channel/replication"
	channelstore "github.com/WuKongIM/WuKongIM/pkg/channel/store"
	goruntimeregistry "github.com/WuKongIM/WuKongIM/pkg/goroutine"
)

var (
	errC01Unreachable  = errors.New("c01: peer unreachable")
	errC01RequestLost  = errors.New("c01: request dropped before delivery")
	errC01ResponseLost = errors.New("c01: response lost after apply")
	errC01LocalFault   = errors.New("c01: injected local store failure")
	errC01Crashed      = errors.New("c01: store frozen at injected crash point")
)

type c01Pair struct{ from, to ch.NodeID }

// c01FaultKey addresses a one-shot message fault; kind 0 matches any exchange kind.
type c01FaultKey struct {
	from, to ch.NodeID
	kind     replication.ExchangeKind
}

// c01ProbeObs is what the installing node saw from one peer during one Install.
type c01ProbeObs struct {
	OK        int    `json:"probe_ok"`
	Fail      int    `json:"probe_fail"`
	LEO       uint64 `json:"leo"`
	Committed uint64 `json:"committed"`
}

// c01Net is the in-process network: a routing table to each node's
// ExchangeServer plus the fault state the director sets between steps.
type c01Net struct {
	// gate is held in read mode across every delivery so that a topology
	// change (crash-stop, atomic partition swap) waits for in-flight handlers.
	gate sync.RWMutex

	mu       sync.Mutex
	servers  map[ch.NodeID]*replication.ExchangeServer
	cut      map[c01Pair]bool
	dropReq  map[c01FaultKey]int
	loseResp map[c01FaultKey]int
	dup      map[c01FaultKey]int
	delay    map[c01Pair]time.Duration
	obsFrom  ch.NodeID
	obs      map[ch.NodeID]*c01ProbeObs
	cnt      map[string]int
}

func c01NewNet() *c01Net {
	return &c01Net{
		servers: map[ch.NodeID]*replication.ExchangeServer{}, cut: map[c01Pair]bool{},
		dropReq: map[c01FaultKey]int{}, loseResp: map[c01FaultKey]int{}, dup: map[c01FaultKey]int{},
		delay: map[c01Pair]time.Duration{}, cnt: map[string]int{},
	}
}

func (n *c01Net) count(k string) { n.cnt[k]++ }

func c01TakeFault(m map[c01FaultKey]int, from, to ch.NodeID, kind replication.ExchangeKind) bool {
	for _, k := range []c01FaultKey{{from, to, kind}, {from, to, 0}} {
		if m[k] > 0 {
			m[k]--
			if m[k] == 0 {
				delete(m, k)
			}
			return true
		}
	}
	return false
}

// topology applies fn atomically with respect to message delivery.
func (n *c01Net) topology(fn func()) {
	n.gate.Lock()
	n.mu.Lock()
	fn()
	n.mu.Unlock()
	n.gate.Unlock()
}

func (n *c01Net) linkUp(a, b ch.NodeID) bool {
	return n.servers[a] != nil && n.servers[b] != nil && !n.cut[c01Pair{a, b}]
}

// reachableFrom lists the voters the link layer would deliver to from x (x included).
func (n *c01Net) reachableFrom(x ch.NodeID, ids []ch.NodeID) []ch.NodeID {
	n.mu.Lock()
	defer n.mu.Unlock()
	var out []ch.NodeID
	for _, v := range ids {
		if v == x || n.linkUp(x, v) {
			out = append(out, v)
		}
	}
	return out
}

func (n *c01Net) beginObs(from ch.NodeID) {
	n.mu.Lock()
	n.obsFrom = from
	n.obs = map[ch.NodeID]*c01ProbeObs{}
	n.mu.Unlock()
}

func (n *c01Net) endObs() map[ch.NodeID]*c01ProbeObs {
	n.mu.Lock()
	defer n.mu.Unlock()
	o := n.obs
	n.obsFrom, n.obs = 0, nil
	return o
}

// c01Link is the PeerLink handed to one node's runtime.
type c01Link struct {
	from ch.NodeID
	net  *c01Net
}

func (l *c01Link) Exchange(ctx context.Context, target ch.NodeID, batch replication.ExchangeBatch) (replication.ExchangeBatchResult, error) {
	n := l.net
	if err := ctx.Err(); err != nil {
		return replication.ExchangeBatchResult{}, err
	}
	var kind replication.ExchangeKind
	if len(batch.Items) > 0 {
		kind = batch.Items[0].Kind
	}
	n.mu.Lock()
	d := n.delay[c01Pair{l.from, target}]
	n.mu.Unlock()
	if d > 0 {
		time.Sleep(d)
	}
	n.gate.RLock()
	defer n.gate.RUnlock()

	n.mu.Lock()
	srv := n.servers[target]
	reachable := n.linkUp(l.from, target)
	var dropReq, lose, dup bool
	if reachable {
		switch {
		case c01TakeFault(n.dropReq, l.from, target, kind):
			dropReq = true
		case c01TakeFault(n.loseResp, l.from, target, kind):
			lose = true
		case c01TakeFault(n.dup, l.from, target, kind):
			dup = true
		}
	}
	observed := kind == replication.ExchangeProbe && n.obsFrom == l.from && n.obs != nil
	noteProbe := func(ok bool, res *replication.ExchangeBatchResult) {
		if !observed || n.obsFrom != l.from || n.obs == nil {
			return
		}
		o := n.obs[target]
		if o == nil {
			o = &c01ProbeObs{}
			n.obs[target] = o
		}
		if !ok {
			o.Fail++
			return
		}
		o.OK++
		if res != nil && len(res.Items) > 0 {
			o.LEO, o.Committed = res.Items[0].Probe.State.LEO, res.Items[0].Probe.State.Committed
		}
	}
	kname := fmt.Sprintf("k%d", kind)
	switch {
	case !reachable:
		n.count("net.unreachable." + kname)
		noteProbe(false, nil)
	case dropReq:
		n.count("net.request_dropped." + kname)
		noteProbe(false, nil)
	}
	n.mu.Unlock()
	if !reachable {
		return replication.ExchangeBatchResult{}, errC01Unreachable
	}
	if dropReq {
		return replication.ExchangeBatchResult{}, errC01RequestLost
	}

	// Wire round trip: the peer never shares memory with the sender.
	wire, err := replication.EncodeExchangeBatch(batch)
	if err != nil {
		n.mu.Lock()
		n.count("net.encode_batch_error")
		noteProbe(false, nil)
		n.mu.Unlock()
		return replication.ExchangeBatchResult{}, err
	}
	deliver := func() (replication.ExchangeBatchResult, error) {
		decoded, derr := replication.DecodeExchangeBatch(wire)
		if derr != nil {
			return replication.ExchangeBatchResult{}, derr
		}
		return srv.Handle(ctx, l.from, decoded)
	}
	res, err := deliver()
	if dup && err == nil {
		res, err = deliver()
	}
	if err == nil && !lose {
		var back []byte
		if back, err = replication.EncodeExchangeBatchResult(res); err == nil {
			res, err = replication.DecodeExchangeBatchResult(back)
		}
		if err != nil {
			n.mu.Lock()
			n.count("net.result_codec_error")
			n.mu.Unlock()
		}
	}
	n.mu.Lock()
	defer n.mu.Unlock()
	switch {
	case err != nil:
		n.count("net.handler_error." + kname)
		noteProbe(false, nil)
		return replication.ExchangeBatchResult{}, err
	case lose:
		n.count("net.response_lost_after_apply." + kname)
		noteProbe(false, nil)
		return replication.ExchangeBatchResult{}, errC01ResponseLost
	}
	if dup {
		n.count("net.duplicated." + kname)
	}
	n.count("net.delivered." + kname)
	noteProbe(true, &res)
	return res, nil
}

// ---------------------------------------------------------------------------
// Store wrapper: local durability faults, crash points, mutation trace.

type c01StoreFaults struct {
	mu                sync.Mutex
	failLocal         map[ch.NodeID]int
	unknownLocal      map[ch.NodeID]int
	delayLocal        map[ch.NodeID]time.Duration
	crashAfterReplace map[ch.NodeID]int
	trace             []string
	cnt               map[string]int
}

func c01NewStoreFaults() *c01StoreFaults {
	return &c01StoreFaults{failLocal: map[ch.NodeID]int{}, unknownLocal: map[ch.NodeID]int{},
		delayLocal: map[ch.NodeID]time.Duration{}, crashAfterReplace: map[ch.NodeID]int{}, cnt: map[string]int{}}
}

func (f *c01StoreFaults) log(format string, args ...any) {
	if len(f.trace) < 600 {
		f.trace = append(f.trace, fmt.Sprintf(format, args...))
	}
}

func (f *c01StoreFaults) tail(n int) []string {
	f.mu.Lock()
	defer f.mu.Unlock()
	if len(f.trace) <= n {
		return append([]string(nil), f.trace...)
	}
	return append([]string(nil), f.trace[len(f.trace)-n:]...)
}

type c01CommandStore interface {
	LookupCommands(context.Context, []replication.CommandLookup) []replication.CommandLookupResult
}

type c01Store struct {
	node  ch.NodeID
	inner replication.ReplicaStore
	f     *c01StoreFaults
	dead  bool // guarded by f.mu
}

func (s *c01Store) isDead() bool {
	s.f.mu.Lock()
	defer s.f.mu.Unlock()
	return s.dead
}

func (s *c01Store) Load(ctx context.Context, batch replication.LoadBatch) (replication.LoadBatchResult, error) {
	if s.isDead() {
		return replication.LoadBatchResult{}, errC01Crashed
	}
	return s.inner.Load(ctx, batch)
}

func (s *c01Store) LookupCommands(ctx context.Context, lookups []replication.CommandLookup) []replication.CommandLookupResult {
	if s.isDead() {
		out := make([]replication.CommandLookupResult, len(lookups))
		for i := range out {
			out[i].Err = errC01Crashed
		}
		return out
	}
	return s.inner.(c01CommandStore).LookupCommands(ctx, lookups)
}

func c01ClassLetter(c replication.MutationClass) string {
	switch c {
	case replication.MutationClassLeaderQuorum:
		return "L"
	case replication.MutationClassFollowerQuorum:
		return "F"
	default:
		return "T"
	}
}

func (s *c01Store) Sync(ctx context.Context, muts []replication.Mutation) []replication.MutationResult {
	reject := func(outcome ch.AppendOutcome, err error) []replication.MutationResult {
		out := make([]replication.MutationResult, len(muts))
		for i := range out {
			out[i] = replication.MutationResult{Outcome: outcome, Err: err}
		}
		return out
	}
	leaderOnly := len(muts) > 0
	for _, m := range muts {
		if m.Class != replication.MutationClassLeaderQuorum {
			leaderOnly = false
		}
	}
	s.f.mu.Lock()
	dead := s.dead
	var fail, unknown bool
	var delay time.Duration
	if leaderOnly && !dead {
		delay = s.f.delayLocal[s.node]
		if s.f.failLocal[s.node] > 0 {
			s.f.failLocal[s.node]--
			fail = true
			s.f.cnt["store.local_sync_failed_not_written"]++
		} else if s.f.unknownLocal[s.node] > 0 {
			s.f.unknownLocal[s.node]--
			unknown = true
			s.f.cnt["store.local_sync_written_reported_unknown"]++
		}
	}
	s.f.mu.Unlock()
	if dead {
		return reject(ch.AppendOutcomeUnknown, errC01Crashed)
	}
	if delay > 0 {
		time.Sleep(delay)
	}
	if fail {
		return reject(ch.AppendOutcomeDefinitelyNotWritten, errC01LocalFault)
	}
	res := s.inner.Sync(ctx, muts)
	s.f.mu.Lock()
	for i, m := range muts {
		if i < len(res) {
			s.f.log("n%d.sync[%s] auth=%d.%d.%d %d..%d committed=%d => outcome=%d needFrom=%d", s.node, c01ClassLetter(m.Class),
				m.Manifest.ChannelEpoch, m.Manifest.LeaderTerm, m.Manifest.FenceVersion, m.Manifest.BaseOffset+1, m.Manifest.LastOffset,
				m.Committed, res[i].Outcome, res[i].NeedFrom)
			s.f.cnt[fmt.Sprintf("store.sync.%s.outcome%d", c01ClassLetter(m.Class), res[i].Outcome)]++
			if res[i].NeedFrom > 0 {
				s.f.cnt["store.sync.follower_reported_gap_need_from"]++
			}
		}
	}
	s.f.mu.Unlock()
	if unknown {
		return reject(ch.AppendOutcomeUnknown, errC01LocalFault)
	}
	return res
}

func (s *c01Store) Replace(ctx context.Context, reps []replication.RecoveryReplacement) []replication.RecoveryReplacementResult {
	if s.isDead() {
		out := make([]replication.RecoveryReplacementResult, len(reps))
		for i := range out {
			out[i] = replication.RecoveryReplacementResult{Outcome: ch.AppendOutcomeUnknown, Err: errC01Crashed}
		}
		return out
	}
	res := s.inner.Replace(ctx, reps)
	s.f.mu.Lock()
	for i, rp := range reps {
		if i < len(res) {
			last := rp.KeepThrough
			if len(rp.Proposals) > 0 {
				last = rp.Proposals[len(rp.Proposals)-1].Manifest.LastOffset
			}
			s.f.log("n%d.replace expected(leo=%d,committed=%d) keep=%d proposals=%d newLast=%d committed=%d => outcome=%d",
				s.node, rp.Expected.LEO, rp.Expected.Committed, rp.KeepThrough, len(rp.Proposals), last, rp.Committed, res[i].Outcome)
			s.f.cnt[fmt.Sprintf("store.replace.outcome%d", res[i].Outcome)]++
			if rp.KeepThrough < rp.Expected.LEO {
				s.f.cnt["store.replace.truncating"]++
			}
		}
	}
	if left := s.f.crashAfterReplace[s.node]; left > 0 {
		left--
		s.f.crashAfterReplace[s.node] = left
		if left == 0 {
			delete(s.f.crashAfterReplace, s.node)
			s.dead = true
			s.f.cnt["store.crash_point_after_replace_page"]++
			s.f.log("n%d.CRASH-POINT after recovery page", s.node)
		}
	}
	s.f.mu.Unlock()
	return res
}

func (s *c01Store) Fetch(ctx context.Context, ranges []replication.FetchRange) []replication.FetchRangeResult {
	if s.isDead() {
		out := make([]replication.FetchRangeResult, len(ranges))
		for i := range out {
			out[i].Err = errC01Crashed
		}
		return out
	}
	return s.inner.Fetch(ctx, ranges)
}

// ---------------------------------------------------------------------------
// Nodes and cluster.

type c01Params struct {
	Kind     string        `json:"kind"`
	N        int           `json:"n"`
	Q        int           `json:"q"`
	Disk     bool          `json:"messagedb"`
	Hedge    time.Duration `json:"hedge_ns"`
	Trailing time.Duration `json:"trailing_ns"`
	Page     int           `json:"recovery_page_bytes"`
	Key      string        `json:"channel"`
	Stale    bool          `json:"stale_leader_commits"`
	Steps    int           `json:"steps"`
	Script   []int         `json:"script,omitempty"`
}

type c01Node struct {
	id      ch.NodeID
	factory channelstore.Factory
	mdb     *channelstore.MessageDBFactory
	path    string
	raw     replication.ReplicaStore
	store   *c01Store
	rt      *replication.Runtime
	up      bool
}

type c01Cluster struct {
	t     testing.TB
	p     c01Params
	reg   *goruntimeregistry.Registry
	net   *c01Net
	sf    *c01StoreFaults
	nodes map[ch.NodeID]*c01Node
	ids   []ch.NodeID
	key   ch.ChannelKey
	cid   ch.ChannelID
	dir   string
}

func c01NewCluster(t testing.TB, reg *goruntimeregistry.Registry, p c01Params, dir string) (*c01Cluster, error) {
	c := &c01Cluster{t: t, p: p, reg: reg, net: c01NewNet(), sf: c01NewStoreFaults(), nodes: map[ch.NodeID]*c01Node{},
		key: ch.ChannelKey("2:" + p.Key), cid: ch.ChannelID{ID: p.Key, Type: 2}, dir: dir}
	for i := 1; i <= p.N; i++ {
		id := ch.NodeID(i)
		c.ids = append(c.ids, id)
		nd := &c01Node{id: id}
		c.nodes[id] = nd
		if p.Disk {
			nd.path = filepath.Join(dir, fmt.Sprintf("n%d", i))
		}
		if err := c.openStore(nd); err != nil {
			return nil, err
		}
		if err := c.start(id); err != nil {
			return nil, err
		}
	}
	return c, nil
}

func (c *c01Cluster) openStore(nd *c01Node) error {
	if c.p.Disk {
		nd.mdb = channelstore.NewMessageDBFactory(nd.path)
		nd.factory = nd.mdb
	} else if nd.factory == nil {
		nd.factory = channelstore.NewMemoryFactory()
	}
	raw, err := replication.NewStoreAdapter(replication.StoreAdapterConfig{Factory: nd.factory, MaxBatchItems: 256, MaxBatchBytes: 4 << 20})
	if err != nil {
		return err
	}
	nd.raw = raw
	return nil
}

// reopenStore closes and reopens a MessageDB-backed store (process restart
// with a clean engine close); memory stores keep their factory.
func (c *c01Cluster) reopenStore(id ch.NodeID) error {
	nd := c.nodes[id]
	if !c.p.Disk || nd.up {
		return nil
	}
	if nd.mdb != nil {
		_ = nd.mdb.Close()
	}
	return c.openStore(nd)
}

func (c *c01Cluster) start(id ch.NodeID) error {
	nd := c.nodes[id]
	if nd.up {
		return nil
	}
	nd.store = &c01Store{node: id, inner: nd.raw, f: c.sf}
	rt, err := replication.NewRuntime(replication.RuntimeConfig{
		LocalNode: id, Store: nd.store, Link: &c01Link{from: id, net: c.net}, Goroutines: c.reg,
		LocalWorkers: 2, PeerWorkers: 8, PeerTargetFlight: 4, RepairWorkers: 2, MaxVoters: c.p.N,
		ReplicaHedgeDelay: c.p.Hedge, TrailingFlushInterval: c.p.Trailing,
		QueueItems: 512, QueueBytes: 16 << 20, TargetItems: 128, TargetBytes: 4 << 20, BatchItems: 64, BatchBytes: 1 << 20,
		RecoveryPageBytes: c.p.Page,
		ExchangeTimeout:   20 * time.Second, LocalTimeout: 20 * time.Second, RecoveryTimeout: 40 * time.Second, CloseTimeout: 20 * time.Second,
		MaxChannels: 8, MaxRetainedCommands: 64,
	})
	if err != nil {
		return err
	}
	nd.rt = rt
	nd.up = true
	c.net.topology(func() { c.net.servers[id] = rt.ExchangeServer() })
	return nil
}

// stop is crash-stop: the node disappears from the network first (together
// with an optional atomic topology change), then its runtime is closed.
func (c *c01Cluster) stop(id ch.NodeID, alsoAtomically func()) error {
	nd := c.nodes[id]
	if !nd.up {
		return nil
	}
	c.net.topology(func() {
		delete(c.net.servers, id)
		if alsoAtomically != nil {
			alsoAtomically()
		}
	})
	nd.up = false
	ctx, cancel := context.WithTimeout(context.Background(), 30*time.Second)
	defer cancel()
	err := nd.rt.Close(ctx)
	nd.rt = nil
	return err
}

func (c *c01Cluster) closeAll() {
	for _, id := range c.ids {
		_ = c.stop(id, nil)
	}
	for _, id := range c.ids {
		if nd := c.nodes[id]; nd.mdb != nil {
			_ = nd.mdb.Close()
		}
	}
}

func c01SortedNodes(m map[ch.NodeID]bool) []ch.NodeID {
	out := make([]ch.NodeID, 0, len(m))
	for k, v := range m {
		if v {
			out = append(out, k)
		}
	}
	sort.Slice(out, func(i, j int) bool { return out[i] < out[j] })
	return out
}
