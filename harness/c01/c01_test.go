//go:build verif

package c01

import (
	"crypto/sha256"
	"encoding/hex"
	"fmt"
	"os"
	"path/filepath"
	"strings"
	"sync"
	"testing"
	"time"

	ch "github.com/WuKongIM/WuKongIM/pkg/channel"
	"github.com/WuKongIM/WuKongIM/pkg/channel/replication"
	goruntimeregistry "github.com/WuKongIM/WuKongIM/pkg/goroutine"
	"github.com/WuKongIM/WuKongIM/pkg/verifkit"
)

// c01Reporter keeps one signature from crowding every other signature out of
// the bounded violation list of the kit.
type c01Reporter struct {
	mu   sync.Mutex
	seen map[string]int
}

func (p *c01Reporter) violation(r *verifkit.Run, sig string, witness any) {
	p.mu.Lock()
	if p.seen == nil {
		p.seen = map[string]int{}
	}
	p.seen[sig]++
	n := p.seen[sig]
	p.mu.Unlock()
	r.Count("violations_by_signature."+sig, 1)
	if n <= 2 {
		r.Violation(sig, witness)
	}
}

func c01Cases(r *verifkit.Run) []c01Params {
	rng := r.Rand(0xC01)
	var out []c01Params
	durs := func() (time.Duration, time.Duration) {
		hedges := []time.Duration{200 * time.Microsecond, time.Millisecond, 5 * time.Millisecond}
		trails := []time.Duration{time.Millisecond, 20 * time.Millisecond, 10 * time.Second}
		return hedges[rng.IntN(len(hedges))], trails[rng.IntN(len(trails))]
	}
	// Systematic family: N=3, Q=2; first leader L, second acker A (third voter
	// unreachable while committing), failed node F, new leader X among the
	// other two, k proposals before the failover.
	variants := []int{0}
	if r.Thorough() {
		variants = []int{0, 1}
	}
	for _, crash := range variants {
		for l := 1; l <= 3; l++ {
			for a := 1; a <= 3; a++ {
				if a == l {
					continue
				}
				for f := 1; f <= 3; f++ {
					for x := 1; x <= 3; x++ {
						if x == f {
							continue
						}
						for k := 1; k <= 3; k++ {
							out = append(out, c01Params{Kind: "systematic", N: 3, Q: 2, Hedge: time.Millisecond, Trailing: 10 * time.Second,
								Page: 64 << 10, Key: fmt.Sprintf("sys-%d%d%d%d%d%d", l, a, f, x, k, crash), Script: []int{l, a, f, x, k, crash}})
						}
					}
				}
			}
		}
	}
	// Systematic family 2 (N=5, Q=3): an unquorate leader-local tail is re-shipped
	// to one follower by gap repair, then both vanish and a quorum that never saw
	// it installs. Parameters: leader, repaired follower, records in the
	// unquorate proposal, acknowledged proposals before it, whether the old pair
	// returns. (With N=3/Q=2 leader plus one follower already are a write quorum
	// and cutting both would leave fewer than Q voters, so the shape has no
	// 3-voter instance inside the premise.)
	for _, l := range []int{1, 3, 5} {
		for _, off := range []int{1, 3} {
			b := (l-1+off)%5 + 1
			for recs := 1; recs <= 2; recs++ {
				for prefix := 0; prefix <= 1; prefix++ {
					for ret := 0; ret <= 1; ret++ {
						out = append(out, c01Params{Kind: "unquorate-repair", N: 5, Q: 3, Hedge: time.Millisecond, Trailing: time.Millisecond,
							Page: 64 << 10, Key: fmt.Sprintf("uq-%d%d%d%d%d", l, b, recs, prefix, ret), Script: []int{l, b, recs, prefix, ret}})
					}
				}
			}
		}
	}
	shape := func() (int, int) {
		v := rng.IntN(100)
		switch {
		case r.Thorough() && v < 5:
			return 5, 4
		case r.Thorough() && v < 10:
			return 4, 3
		case v < 30:
			return 5, 3
		default:
			return 3, 2
		}
	}
	add := func(kind string, count int, steps func() int, page func() int) {
		for i := 0; i < count; i++ {
			n, q := shape()
			h, tr := durs()
			p := c01Params{Kind: kind, N: n, Q: q, Hedge: h, Trailing: tr, Page: page(), Steps: steps(),
				Key: fmt.Sprintf("%s-%d-%x", kind, i, rng.Uint32()), Stale: rng.IntN(4) == 0}
			if r.Thorough() && rng.IntN(100) < 15 {
				p.Disk = true
			}
			out = append(out, p)
		}
	}
	bigPage := func() int { return 64 << 10 }
	smallPage := func() int { return 600 + rng.IntN(500) }
	mixPage := func() int {
		if rng.IntN(4) == 0 {
			return smallPage()
		}
		return bigPage()
	}
	add("local-durability", r.N(10, 100), func() int { return 2 + rng.IntN(5) }, bigPage)
	add("bare-quorum", r.N(40, 500), func() int { return 3 + rng.IntN(8) }, mixPage)
	add("gap-repair", r.N(12, 120), func() int { return 3 + rng.IntN(6) }, mixPage)
	add("interrupted-replace", r.N(12, 120), func() int { return 2 + rng.IntN(5) }, smallPage)
	add("random", r.N(140, 1700), func() int { return 12 + rng.IntN(r.N(16, 30)) }, mixPage)
	return out
}

func (d *c01Director) runScript() {
	switch d.p.Kind {
	case "systematic":
		d.runSystematic()
	case "bare-quorum":
		d.runBare()
	case "unquorate-repair":
		d.runUnquorateRepair()
	case "local-durability":
		d.runLocalDurability()
	case "gap-repair":
		d.runGap()
	case "interrupted-replace":
		d.runIReplace()
	default:
		d.randomInstall()
	}
	for i := 0; i < d.p.Steps && !d.stopped && !d.inconclusive; i++ {
		d.randomStep()
	}
	d.finalPhase()
}

func (d *c01Director) runSystematic() {
	s := d.p.Script
	l, f, x, k, crash := ch.NodeID(s[0]), ch.NodeID(s[2]), ch.NodeID(s[3]), s[4], s[5] == 1
	t := ch.NodeID(6 - s[0] - s[1])
	if !d.doInstall(l, replication.AuthorityID{ChannelEpoch: 1, LeaderTerm: 1, FenceVersion: 1}) || d.stopped {
		return
	}
	d.doPartition(t, d.peersOf(t), 0)
	for i := 0; i < k && !d.stopped; i++ {
		d.doCommit(l, 1, 0)
	}
	if d.stopped {
		return
	}
	switch {
	case crash && f == t:
		d.doHeal(t)
		d.doDown(f, nil)
	case crash:
		d.logStep("atomically: heal n%d and crash-stop n%d", t, f)
		d.stepNo--
		d.doDown(f, func() { delete(d.cutsOf, t) })
	case f != t:
		d.doPartition(f, d.peersOf(f), t)
	}
	if d.stopped {
		return
	}
	if !d.doInstall(x, replication.AuthorityID{ChannelEpoch: 1, LeaderTerm: 2, FenceVersion: 1}) || d.stopped {
		return
	}
	// Tail: the new leader commits twice, the partition heals, and the first
	// leader - never told that it was deposed - tries one more proposal.
	for i := 0; i < 2 && !d.stopped; i++ {
		d.doCommit(x, 1, 0)
	}
	if d.stopped {
		return
	}
	if _, cut := d.cutsOf[f]; cut {
		d.doHeal(f)
	}
	if _, stillBelievesLeader := d.ready[l]; stillBelievesLeader && l != x && d.c.nodes[l].up && !d.stopped {
		d.doCommit(l, 1, 0)
	}
}

// runBare commits while exactly Q voters are reachable, then removes some of
// the holders and installs on a reachable voter.
func (d *c01Director) runBare() {
	l := d.pick(d.c.ids)
	if !d.doInstall(l, d.nextAuthority(0)) || d.stopped {
		return
	}
	others := d.peersOf(l)
	d.rng.Shuffle(len(others), func(i, j int) { others[i], others[j] = others[j], others[i] })
	isolated := others[:d.p.N-d.p.Q]
	for _, t := range isolated {
		d.doPartition(t, d.peersOf(t), 0)
	}
	k := 1 + d.rng.IntN(3)
	for i := 0; i < k && !d.stopped; i++ {
		d.doCommit(l, 1+d.rng.IntN(2), 0)
	}
	if d.rng.IntN(3) == 0 {
		d.settle(1 + d.rng.IntN(3))
	}
	if d.stopped {
		return
	}
	holders := append([]ch.NodeID{l}, others[d.p.N-d.p.Q:]...)
	d.rng.Shuffle(len(holders), func(i, j int) { holders[i], holders[j] = holders[j], holders[i] })
	nv := 1 + d.rng.IntN(d.p.N-d.p.Q)
	if nv > len(holders) {
		nv = len(holders)
	}
	victims := holders[:nv]
	if d.rng.IntN(2) == 0 {
		d.logStep("atomically: heal %v and cut %v from everyone", isolated, victims)
		d.fp = append(d.fp, fmt.Sprintf("swapcut%d", nv))
		d.c.net.topology(func() {
			d.cutsOf = map[ch.NodeID][]ch.NodeID{}
			for _, v := range victims {
				d.cutsOf[v] = d.peersOf(v)
			}
			d.applyCuts()
		})
		d.faultSteps++
		d.observe(c01StepInfo{kind: "partition"})
	} else {
		for i, v := range victims {
			if i == 0 {
				d.logStep("atomically: heal %v and crash-stop n%d", isolated, v)
				d.stepNo--
				d.doDown(v, func() { d.cutsOf = map[ch.NodeID][]ch.NodeID{} })
			} else if !d.stopped {
				d.doDown(v, nil)
			}
		}
	}
	if d.stopped {
		return
	}
	d.doInstall(d.pick(d.available()), d.nextAuthority(0))
}

func (d *c01Director) runUnquorateRepair() {
	s := d.p.Script
	l, b := ch.NodeID(s[0]), ch.NodeID(s[1])
	if !d.doInstall(l, replication.AuthorityID{ChannelEpoch: 1, LeaderTerm: 1, FenceVersion: 1}) || d.stopped {
		return
	}
	for i := 0; i < s[3] && !d.stopped; i++ {
		d.doCommit(l, 1, 0)
		d.settle(6) // trailing replication brings every voter up to date
	}
	if d.stopped {
		return
	}
	d.unquorateRepairShape(l, b, s[2], s[4] == 1)
}

// runLocalDurability makes the leader's own store slow, failing, or silently
// successful while every follower answers at once: a receipt may only appear
// once the leader itself holds the entry.
func (d *c01Director) runLocalDurability() {
	l := d.pick(d.c.ids)
	if !d.doInstall(l, d.nextAuthority(0)) || d.stopped {
		return
	}
	if d.rng.IntN(2) == 0 {
		d.doCommit(l, 1, 0)
	}
	for i, k := 0, 2+d.rng.IntN(3); i < k && !d.stopped && !d.inconclusive; i++ {
		f := d.c.sf
		f.mu.Lock()
		var name string
		switch d.rng.IntN(3) {
		case 0:
			f.failLocal[l]++
			name = "local-sync-fails-unwritten"
		case 1:
			f.unknownLocal[l]++
			name = "local-sync-written-but-reported-unknown"
		default:
			f.delayLocal[l] = time.Duration(2+d.rng.IntN(4)) * time.Millisecond
			name = "local-sync-slow"
		}
		f.mu.Unlock()
		d.logStep("localfault n%d %s", l, name)
		d.fp = append(d.fp, "lf:"+name)
		d.faultSteps++
		d.r.Count("steps.localfault."+name, 1)
		d.doCommit(l, 1+d.rng.IntN(2), 0)
		if !d.stopped && d.pending[l] != nil {
			d.doCommit(l, 1, 0) // resolve the unresolved command
		}
		f.mu.Lock()
		delete(f.delayLocal, l)
		f.mu.Unlock()
	}
}

// runGap lets one follower miss several proposals and then heals it so the
// leader meets NeedFrom and its repair owner replays pages.
func (d *c01Director) runGap() {
	l := d.pick(d.c.ids)
	if !d.doInstall(l, d.nextAuthority(0)) || d.stopped {
		return
	}
	if d.rng.IntN(2) == 0 {
		d.doCommit(l, 1+d.rng.IntN(2), 0)
	}
	others := d.peersOf(l)
	b := d.pick(others)
	d.doPartition(b, []ch.NodeID{l}, 0)
	for i, k := 0, 3+d.rng.IntN(6); i < k && !d.stopped; i++ {
		d.doCommit(l, 1+d.rng.IntN(3), 0)
	}
	if d.stopped {
		return
	}
	d.doHeal(b)
	for i, k := 0, 2+d.rng.IntN(4); i < k && !d.stopped; i++ {
		d.doCommit(l, 1+d.rng.IntN(2), 0)
	}
	if !d.stopped {
		d.settle(10 + d.rng.IntN(15))
	}
}

// runIReplace makes one voter fall far behind, then installs on it with a tiny
// recovery page size and a crash point between pages; the next install must
// resume from an exact prefix.
func (d *c01Director) runIReplace() {
	l := d.pick(d.c.ids)
	if !d.doInstall(l, d.nextAuthority(0)) || d.stopped {
		return
	}
	x := d.pick(d.peersOf(l))
	d.doPartition(x, d.peersOf(x), 0)
	for i, k := 0, 5+d.rng.IntN(8); i < k && !d.stopped; i++ {
		d.doCommit(l, 1+d.rng.IntN(2), 60+d.rng.IntN(100))
	}
	if d.stopped {
		return
	}
	// heal and install immediately so that the laggard repairs itself from donors
	d.c.sf.mu.Lock()
	d.c.sf.crashAfterReplace[x] = 1 + d.rng.IntN(3)
	d.c.sf.mu.Unlock()
	d.logStep("atomically: heal n%d; crash point armed on n%d", x, x)
	d.c.net.topology(func() {
		delete(d.cutsOf, x)
		d.applyCuts()
	})
	d.doInstall(x, d.nextAuthority(0))
	d.c.sf.mu.Lock()
	delete(d.c.sf.crashAfterReplace, x)
	dead := d.c.nodes[x].store.dead
	d.c.sf.mu.Unlock()
	d.faultSteps++
	if d.stopped {
		return
	}
	if dead {
		d.r.Count("steps.crash_between_recovery_pages", 1)
		d.doDown(x, nil)
		if d.stopped {
			return
		}
		d.doUp(x)
	}
	if !d.stopped && !d.inconclusive {
		if d.doInstall(x, d.nextAuthority(0)) && !d.stopped {
			d.doCommit(x, 1, 0)
		}
	}
}

func c01RunCase(t *testing.T, r *verifkit.Run, rep *c01Reporter, reg *goruntimeregistry.Registry, mode, idx int, p c01Params, base string) {
	dir := ""
	if p.Disk {
		dir = filepath.Join(base, fmt.Sprintf("case%d", idx))
		defer os.RemoveAll(dir)
	}
	c, err := c01NewCluster(t, reg, p, dir)
	if err != nil {
		r.Inconclusive(fmt.Sprintf("cluster construction failed: %v", err))
		if c != nil {
			c.closeAll()
		}
		return
	}
	d := c01NewDirector(r, rep, mode, c, p, r.Rand(uint64(idx)+1000), idx)
	finished := verifkit.Watchdog(8*time.Minute, func() {
		r.Guard("case", p, d.runScript)
		c.closeAll()
	})
	if !finished {
		r.Inconclusive(fmt.Sprintf("case %d watchdog expired; schedule so far: %v", idx, d.sched))
		return
	}
	c.net.mu.Lock()
	for k, v := range c.net.cnt {
		r.Count(k, v)
	}
	c.net.mu.Unlock()
	c.sf.mu.Lock()
	for k, v := range c.sf.cnt {
		r.Count(k, v)
	}
	c.sf.mu.Unlock()
	r.Count("cases."+p.Kind, 1)
	r.Count(fmt.Sprintf("cases.n%dq%d", p.N, p.Q), 1)
	if p.Disk {
		r.Count("cases.messagedb_backed", 1)
	}
	r.Max("max_schedule_steps", d.stepNo)
	r.Max("max_acked_entries_in_case", len(d.ackedOrder))
	sum := sha256.Sum256([]byte(p.Kind + "|" + strings.Join(d.fp, ",")))
	fp := hex.EncodeToString(sum[:10])
	nontrivial := false
	if mode == c01ModeC01 {
		nontrivial = d.ackedCount >= 1 && d.installAfterAck
	} else {
		nontrivial = len(d.committedReplicas) >= 2 && d.faultSteps >= 1
	}
	if nontrivial {
		r.Nontrivial(fp)
		r.Count("cases.nontrivial", 1)
	}
	if r.WantSample() && nontrivial && (idx%37 == 5 || p.Kind != "systematic") {
		r.Sample(map[string]any{"case": idx, "params": p, "schedule": d.sched, "acked_entries": len(d.ackedOrder), "replicas_end": d.briefAll(d.last)})
	}
}

func c01Main(t *testing.T, prop string, mode int) {
	r := verifkit.Start(t, prop, "main")
	defer r.Finish()
	r.SetRule("Cases are a pure function of (seed, tier): a systematic family (N=3,Q=2: first leader, second acker, failed node, new leader, 1..3 proposals) " +
		"a second systematic family (N=5,Q=3: unquorate leader-local tail re-shipped by gap repair, leader+follower vanish, install elsewhere) plus PRNG families local-durability / bare-quorum / gap-repair / interrupted-replace / random. A single-threaded director drives real replication.Runtime nodes through " +
		"install / commit / retry / crash-stop+restart / partition / heal / one-shot message faults (request dropped, response lost after apply, duplicate, delay) / " +
		"leader-local store faults / crash points between recovery pages, never making more than N-Q voters unavailable and installing only on voters that can reach a quorum. " +
		"Non-trivial for C01 = at least one acknowledged commit followed by a successful Install; for C02 = at least two replicas with Committed>=1 compared and at least one fault step. " +
		"Distinct = hash of the sequence (step kind, node, outcome class).")
	r.Assume("crash-stop only: a stopped node keeps everything its store acknowledged (memory factory kept, MessageDB closed cleanly and reopened); power loss is not modelled here")
	r.Assume("the control plane issues lexicographically increasing authorities and never two leaders for one authority id")
	r.Assume("real node transport is replaced by an in-process PeerLink that still round-trips every batch through the repository's wire codec")
	r.Assume("voters reachable from the installing node = voters whose probe answers actually reached it during that Install")
	var pmu sync.Mutex
	reg := goruntimeregistry.New(goruntimeregistry.WithPanicObserver(func(ev goruntimeregistry.PanicEvent) {
		pmu.Lock()
		defer pmu.Unlock()
		r.Violation("panic:repo-goroutine:"+fmt.Sprint(ev.Task), map[string]any{"module": fmt.Sprint(ev.Module), "recovered": fmt.Sprint(ev.Recovered)})
	}))
	rep := &c01Reporter{}
	cases := c01Cases(r)
	base := t.TempDir()
	for i, p := range cases {
		if r.Skip(i) {
			continue
		}
		r.BeginCase(i, fmt.Sprintf("%s n=%d q=%d key=%s script=%v", p.Kind, p.N, p.Q, p.Key, p.Script))
		c01RunCase(t, r, rep, reg, mode, i, p, base)
	}
}

func TestVerifC01(t *testing.T) { c01Main(t, "C01", c01ModeC01) }

func TestVerifC02(t *testing.T) { c01Main(t, "C02", c01ModeC02) }
