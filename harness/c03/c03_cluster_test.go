//go:build verif

package c03_test

// In-process three-node cluster for C03: three real replication.Runtime owners
// over real channel stores, connected by a fault-injecting PeerLink that routes
// to the peers' real ExchangeServer.Handle. The leader's ReplicaStore is
// wrapped so that local durability can fail before the write or lose its
// response after the write.

import (
	"context"
	"errors"
	"fmt"
	"sync"
	"sync/atomic"
	"time"

	ch "github.com/WuKongIM/WuKongIM/pkg/channel"
	"github.com/WuKongIM/WuKongIM/pkg/channel/replication"
	channelstore "github.com/WuKongIM/WuKongIM/pkg/channel/store"
	goruntimeregistry "github.com/WuKongIM/WuKongIM/pkg/goroutine"
)

var (
	c03ErrDropped  = errors.New("c03: request dropped")
	c03ErrLostResp = errors.New("c03: response lost")
	c03ErrLocal    = errors.New("c03: local durability failed before write")
)

func c03Mix(x uint64) uint64 {
	x += 0x9e3779b97f4a7c15
	z := x
	z = (z ^ (z >> 30)) * 0xbf58476d1ce4e5b9
	z = (z ^ (z >> 27)) * 0x94d049bb133111eb
	return z ^ (z >> 31)
}

// c03Faults decides faults from a seeded counter stream (the decision sequence
// is a pure function of the seed; which call draws which number depends on the
// schedule, which is what the property quantifies over).
type c03Faults struct {
	on   atomic.Bool
	seed uint64
	ctr  atomic.Uint64

	// per-mille probabilities
	linkDrop, linkLose, linkDelay    uint64
	localFail, localLose, localDelay uint64

	nLinkDrop, nLinkLose, nLinkDelay    atomic.Int64
	nLocalFail, nLocalLose, nLocalDelay atomic.Int64
}

func (f *c03Faults) roll() uint64 { return c03Mix(f.seed + f.ctr.Add(1)) }

type c03Router struct {
	mu      sync.RWMutex
	servers map[ch.NodeID]*replication.ExchangeServer
	faults  *c03Faults
}

func (r *c03Router) register(node ch.NodeID, server *replication.ExchangeServer) {
	r.mu.Lock()
	r.servers[node] = server
	r.mu.Unlock()
}

type c03Link struct {
	from   ch.NodeID
	router *c03Router
}

func (l c03Link) Exchange(ctx context.Context, target ch.NodeID, batch replication.ExchangeBatch) (replication.ExchangeBatchResult, error) {
	f := l.router.faults
	lose := false
	if f.on.Load() {
		x := f.roll()
		if x%1000 < f.linkDrop {
			f.nLinkDrop.Add(1)
			return replication.ExchangeBatchResult{}, c03ErrDropped
		}
		x = c03Mix(x)
		if x%1000 < f.linkLose {
			lose = true
		}
		x = c03Mix(x)
		if x%1000 < f.linkDelay {
			f.nLinkDelay.Add(1)
			time.Sleep(time.Duration(50+x%1500) * time.Microsecond)
		}
	}
	l.router.mu.RLock()
	server := l.router.servers[target]
	l.router.mu.RUnlock()
	if server == nil {
		return replication.ExchangeBatchResult{}, ch.ErrNotReady
	}
	result, err := server.Handle(ctx, l.from, batch)
	if lose {
		f.nLinkLose.Add(1)
		return replication.ExchangeBatchResult{}, c03ErrLostResp
	}
	return result, err
}

// c03LeaderStore wraps the leader's real ReplicaStore with local durability
// faults. It forwards LookupCommands (required by the quorum log).
type c03LeaderStore struct {
	base   replication.ReplicaStore
	faults *c03Faults
}

type c03CommandStore interface {
	LookupCommands(context.Context, []replication.CommandLookup) []replication.CommandLookupResult
}

func (s *c03LeaderStore) Load(ctx context.Context, batch replication.LoadBatch) (replication.LoadBatchResult, error) {
	return s.base.Load(ctx, batch)
}

func (s *c03LeaderStore) Sync(ctx context.Context, mutations []replication.Mutation) []replication.MutationResult {
	f := s.faults
	lose := false
	if f.on.Load() {
		x := f.roll()
		if x%1000 < f.localFail {
			f.nLocalFail.Add(1)
			out := make([]replication.MutationResult, len(mutations))
			for i := range out {
				out[i] = replication.MutationResult{Outcome: ch.AppendOutcomeDefinitelyNotWritten, Err: c03ErrLocal}
			}
			return out
		}
		x = c03Mix(x)
		if x%1000 < f.localLose {
			lose = true
		}
		x = c03Mix(x)
		if x%1000 < f.localDelay {
			f.nLocalDelay.Add(1)
			time.Sleep(time.Duration(50+x%1500) * time.Microsecond)
		}
	}
	out := s.base.Sync(ctx, mutations)
	if lose {
		f.nLocalLose.Add(1)
		lost := make([]replication.MutationResult, len(out))
		for i := range lost {
			lost[i] = replication.MutationResult{Outcome: ch.AppendOutcomeUnknown, Err: c03ErrLostResp}
		}
		return lost
	}
	return out
}

func (s *c03LeaderStore) Replace(ctx context.Context, r []replication.RecoveryReplacement) []replication.RecoveryReplacementResult {
	return s.base.Replace(ctx, r)
}

func (s *c03LeaderStore) Fetch(ctx context.Context, r []replication.FetchRange) []replication.FetchRangeResult {
	return s.base.Fetch(ctx, r)
}

func (s *c03LeaderStore) LookupCommands(ctx context.Context, l []replication.CommandLookup) []replication.CommandLookupResult {
	return s.base.(c03CommandStore).LookupCommands(ctx, l)
}

type c03Leader struct {
	rt   *replication.Runtime
	log  replication.DurableQuorumLog
	gen  int
	auth []replication.AuthorityID // per channel, the authority this generation expects
	// ctx is the parent of every Commit context issued against rt; it is
	// cancelled only after rt.Close has returned, so that a Commit whose
	// completion was never delivered by the closed runtime still returns.
	ctx      context.Context
	cancel   context.CancelFunc
	inflight *atomic.Int64
}

type c03Cluster struct {
	router      *c03Router
	faults      *c03Faults
	raw         map[ch.NodeID]replication.ReplicaStore
	leaderStore *c03LeaderStore
	followers   map[ch.NodeID]*replication.Runtime
	closers     []func() error
	maxRetained int

	leader atomic.Pointer[c03Leader]
}

const c03LeaderNode ch.NodeID = 1

var c03Voters = []ch.NodeID{1, 2, 3}

func c03NewRuntime(node ch.NodeID, store replication.ReplicaStore, link replication.PeerLink, maxRetained int) (*replication.Runtime, error) {
	return replication.NewRuntime(replication.RuntimeConfig{
		LocalNode: node, Store: store, Link: link, Goroutines: goruntimeregistry.New(),
		LocalWorkers: 2, PeerWorkers: 4, PeerTargetFlight: 2, RepairWorkers: 1,
		ReplicaHedgeDelay: time.Millisecond, TrailingFlushInterval: 2 * time.Millisecond,
		ExchangeTimeout: 20 * time.Second, LocalTimeout: 20 * time.Second,
		RecoveryTimeout: 30 * time.Second, CloseTimeout: 30 * time.Second,
		MaxChannels: 64, MaxRetainedCommands: maxRetained,
	})
}

// c03NewCluster builds the three nodes. dbDir != "" selects MessageDB stores.
func c03NewCluster(faults *c03Faults, maxRetained int, dbDir string) (*c03Cluster, error) {
	c := &c03Cluster{
		router: &c03Router{servers: map[ch.NodeID]*replication.ExchangeServer{}, faults: faults},
		faults: faults, raw: map[ch.NodeID]replication.ReplicaStore{}, followers: map[ch.NodeID]*replication.Runtime{},
		maxRetained: maxRetained,
	}
	for _, node := range c03Voters {
		var factory channelstore.Factory
		if dbDir == "" {
			factory = channelstore.NewMemoryFactory()
		} else {
			f := channelstore.NewMessageDBFactory(fmt.Sprintf("%s/n%d", dbDir, node))
			c.closers = append(c.closers, f.Close)
			factory = f
		}
		store, err := replication.NewStoreAdapter(replication.StoreAdapterConfig{Factory: factory, MaxBatchItems: 64, MaxBatchBytes: 4 << 20})
		if err != nil {
			return nil, err
		}
		c.raw[node] = store
	}
	c.leaderStore = &c03LeaderStore{base: c.raw[c03LeaderNode], faults: faults}
	for _, node := range c03Voters[1:] {
		rt, err := c03NewRuntime(node, c.raw[node], c03Link{from: node, router: c.router}, 64)
		if err != nil {
			return nil, err
		}
		c.followers[node] = rt
		c.router.register(node, rt.ExchangeServer())
	}
	return c, nil
}

// startLeader creates a fresh leader runtime over the same (durable) store and
// publishes it. The caller installs authorities afterwards.
func (c *c03Cluster) startLeader(gen int, auth []replication.AuthorityID) (*c03Leader, error) {
	rt, err := c03NewRuntime(c03LeaderNode, c.leaderStore, c03Link{from: c03LeaderNode, router: c.router}, c.maxRetained)
	if err != nil {
		return nil, err
	}
	c.router.register(c03LeaderNode, rt.ExchangeServer())
	ctx, cancel := context.WithCancel(context.Background())
	l := &c03Leader{rt: rt, log: rt.Log(), gen: gen, auth: append([]replication.AuthorityID(nil), auth...), ctx: ctx, cancel: cancel, inflight: &atomic.Int64{}}
	c.leader.Store(l)
	return l, nil
}

func (c *c03Cluster) closeAll() []error {
	var errs []error
	ctx, cancel := context.WithTimeout(context.Background(), 60*time.Second)
	defer cancel()
	if l := c.leader.Load(); l != nil {
		if err := l.rt.Close(ctx); err != nil {
			errs = append(errs, err)
		}
		l.cancel()
	}
	for _, rt := range c.followers {
		if err := rt.Close(ctx); err != nil {
			errs = append(errs, err)
		}
	}
	return errs
}

func (c *c03Cluster) closeStores() {
	for _, fn := range c.closers {
		_ = fn()
	}
}
