//go:build verif

package c03_test

// C03 — Append receipts are exact, contiguous and retry-stable.
//
// Drives the real DurableQuorumLog (replication.Runtime.Log()) of a 3-node
// in-process cluster with concurrent clients issuing fresh commands, exact
// retries (recent, evicted from the retained-command cache, after leader
// runtime restart), conflicting retries, under lost-response / failure / delay
// faults on local and follower durability.
//
// Oracle (a): sound direct checks on acknowledged receipts + porcupine
// linearizability check of each channel's history against a nondeterministic
// sequential model. Oracle (b): at quiescence the leader's durable store must be
// tiled exactly by the ranges of the commands it reports through its command
// index, and every acknowledged command must be found at its acknowledged range
// with its acknowledged content.

import (
	"context"
	"errors"
	"fmt"
	"hash/fnv"
	"math/rand/v2"
	"os"
	"runtime"
	"sort"
	"strings"
	"sync"
	"sync/atomic"
	"testing"
	"time"

	ch "github.com/WuKongIM/WuKongIM/pkg/channel"
	"github.com/WuKongIM/WuKongIM/pkg/channel/replication"
	"github.com/WuKongIM/WuKongIM/pkg/verifkit"
	"github.com/anishathalye/porcupine"
)

const (
	c03KindCommit  = 0
	c03KindInstall = 1

	c03PlanCommit      = 0
	c03PlanRestartSame = 1 // close leader runtime, new runtime on same store, Install same authority
	c03PlanRestartBump = 2 // same, but Install a higher authority (term+fence version)
	c03PlanBump        = 3 // Install a higher authority on the running runtime

	c03Variants = 8

	// Bounds of the quiescent retry loop: a channel is given up (and judged)
	// when its followers have caught up and c03SettledPasses more passes made no
	// progress; otherwise the loop runs at least c03MaxPasses passes over at
	// least c03MaxWait.
	c03SettledPasses = 12
	c03StablePasses  = 40
	c03StableFor     = 1500 * time.Millisecond
	c03MaxPasses     = 300
	c03MaxWait       = 12 * time.Second
)

type c03In struct {
	Kind        int    `json:"k"`
	Chan        int    `json:"ch"`
	Cmd         int    `json:"cmd"`
	Variant     int    `json:"v"`
	N           int    `json:"n"`
	Hash        uint64 `json:"h"`
	Gen         int    `json:"gen"`
	Term        uint64 `json:"term,omitempty"`
	AuthChanged bool   `json:"ac,omitempty"`
	Phase       string `json:"ph,omitempty"`
}

type c03Out struct {
	OK     bool   `json:"ok"`
	First  uint64 `json:"first,omitempty"`
	Last   uint64 `json:"last,omitempty"`
	HW     uint64 `json:"hw,omitempty"`
	LEO    uint64 `json:"leo,omitempty"`
	Class  string `json:"class"`
	Err    string `json:"err,omitempty"`
	AuthOK bool   `json:"-"`
	CmdOK  bool   `json:"-"`
}

func c03Class(err error) string {
	switch {
	case err == nil:
		return "ok"
	case errors.Is(err, ch.ErrBackpressured):
		return "backpressured"
	case errors.Is(err, ch.ErrNotReady):
		return "not_ready"
	case errors.Is(err, ch.ErrStaleMeta):
		return "stale_meta"
	case errors.Is(err, ch.ErrWriteFenced):
		return "write_fenced"
	case errors.Is(err, ch.ErrInvalidConfig):
		return "invalid_config"
	case errors.Is(err, ch.ErrLogConflict):
		return "log_conflict"
	case errors.Is(err, ch.ErrClosed):
		return "closed"
	case errors.Is(err, context.DeadlineExceeded):
		return "ctx_deadline"
	case errors.Is(err, context.Canceled):
		return "ctx_canceled"
	case strings.Contains(err.Error(), "durable quorum unavailable"):
		return "quorum_unavailable"
	}
	return "other"
}

// c03Definite lists error classes that quorumLog.Commit returns before it seals
// a proposal or starts any I/O (admission rejections): they cannot have the
// effect of an append. Every other error is treated as ambiguous.
func c03Definite(class string) bool {
	switch class {
	case "backpressured", "not_ready", "stale_meta", "write_fenced", "invalid_config":
		return true
	}
	return false
}

// ---------------------------------------------------------------------------
// content

func c03CommandID(caseSeed uint64, chIdx, cmd int) ch.CommandID {
	var id ch.CommandID
	x := c03Mix(caseSeed ^ 0xc03)
	for i := 0; i < 16; i++ {
		id[i] = byte(x >> (uint(i%8) * 8))
		if i == 7 {
			x = c03Mix(x)
		}
	}
	id[16] = 0xC3
	id[20] = byte(chIdx + 1)
	id[28] = byte(cmd >> 16)
	id[29] = byte(cmd >> 8)
	id[30] = byte(cmd)
	id[31] = 1
	return id
}

func c03Records(caseSeed uint64, chIdx, cmd, variant int, epoch uint64) []ch.Record {
	h := c03Mix(caseSeed ^ uint64(chIdx+1)<<40 ^ uint64(cmd+1)<<8)
	n := 1 + int(h%3)
	recs := make([]ch.Record, n, n+1)
	idBase := uint64(1_000_000*(chIdx+1) + cmd*64)
	for i := range recs {
		payload := []byte(fmt.Sprintf("p-%d-%d-%d-%x", chIdx, cmd, i, h))
		recs[i] = ch.Record{
			ID: idBase + uint64(i*2), Epoch: epoch, FromUID: fmt.Sprintf("u%d", h%5),
			ClientMsgNo: fmt.Sprintf("m-%d-%d", cmd, i), ServerTimestampMS: int64(1_700_000_000_000 + cmd*10 + i),
			Payload: payload, SizeBytes: len(payload),
		}
	}
	if variant > 0 {
		v := c03Mix(h + uint64(variant))
		t := int(v % uint64(n))
		switch (variant - 1) % c03Variants {
		case 0: // one payload byte, same length
			recs[t].Payload[int(v>>8)%len(recs[t].Payload)] ^= 0x20
		case 1:
			recs[t].FromUID += "x"
		case 2:
			recs[t].ClientMsgNo += "x"
		case 3:
			recs[t].ServerTimestampMS++
		case 4:
			recs[t].ID++ // odd ids are never used by canonical content
		case 5:
			recs[t].Setting ^= 1
		case 6:
			recs[t].SyncOnce = !recs[t].SyncOnce
		case 7: // one more record
			payload := []byte("extra")
			recs = append(recs, ch.Record{ID: idBase + 41, Epoch: epoch, FromUID: "u9", ClientMsgNo: "extra",
				ServerTimestampMS: int64(1_700_000_000_000 + cmd*10 + 9), Payload: payload, SizeBytes: len(payload)})
		}
	}
	return recs
}

func c03ContentHash(recs []ch.Record) uint64 {
	h := fnv.New64a()
	w := func(s string) { fmt.Fprintf(h, "%d:%s|", len(s), s) }
	for _, r := range recs {
		fmt.Fprintf(h, "%d,%d,%d,%v,%d|", r.ID, r.Epoch, r.Setting, r.SyncOnce, r.ServerTimestampMS)
		w(r.FromUID)
		w(r.ClientMsgNo)
		w(string(r.Payload))
	}
	fmt.Fprintf(h, "n=%d", len(recs))
	return h.Sum64()
}

// ---------------------------------------------------------------------------
// plan

type c03PlanOp struct {
	Kind      int
	Chan      int
	Cmd       int
	Variant   int
	CtxMicros int
	Delay     int
}

type c03Params struct {
	nChan, nClients, maxRetained, totalOps int
	messageDB                              bool
	reinstalls                             []int
}

func c03Plan(rng *rand.Rand, thorough bool) (c03Params, [][]c03PlanOp) {
	p := c03Params{}
	p.nChan = 1 + rng.IntN(3)
	p.nClients = 1 + rng.IntN(6)
	switch x := rng.IntN(10); {
	case x < 4:
		p.maxRetained = 1
	case x < 8:
		p.maxRetained = 2
	default:
		p.maxRetained = 64
	}
	p.totalOps = 18 + rng.IntN(20)
	if thorough {
		p.messageDB = rng.IntN(6) == 0
	} else {
		p.messageDB = rng.IntN(25) == 0
	}
	clients := make([][]c03PlanOp, p.nClients)
	planned := make([][]int, p.nChan) // cmd ids planned so far per channel
	next := make([]int, p.nChan)
	for i := 0; i < p.totalOps; i++ {
		c := 0
		if p.nChan > 1 && rng.IntN(10) >= 6 {
			c = 1 + rng.IntN(p.nChan-1)
		}
		op := c03PlanOp{Kind: c03PlanCommit, Chan: c}
		x := rng.IntN(100)
		switch {
		case len(planned[c]) == 0 || x < 42:
			op.Cmd = next[c]
			next[c]++
			planned[c] = append(planned[c], op.Cmd)
		default:
			l := planned[c]
			if rng.IntN(2) == 0 {
				op.Cmd = l[rng.IntN(1+len(l)/3)] // old: likely out of the retained cache
			} else {
				op.Cmd = l[rng.IntN(len(l))]
			}
			if x >= 82 {
				op.Variant = 1 + rng.IntN(c03Variants)
			}
		}
		if rng.IntN(100) < 8 {
			op.CtxMicros = 100 + rng.IntN(2900)
		}
		if rng.IntN(100) < 25 {
			op.Delay = rng.IntN(400)
		}
		cl := rng.IntN(p.nClients)
		clients[cl] = append(clients[cl], op)
	}
	// reinstall events are executed inline by client 0
	if rng.IntN(10) < 6 {
		k := 1 + rng.IntN(2)
		for j := 0; j < k; j++ {
			kind := c03PlanRestartSame
			switch y := rng.IntN(10); {
			case y >= 8:
				kind = c03PlanBump
			case y >= 6:
				kind = c03PlanRestartBump
			}
			p.reinstalls = append(p.reinstalls, kind)
			pos := 0
			if n := len(clients[0]); n > 0 {
				pos = 1 + rng.IntN(n)
				if pos > n {
					pos = n
				}
			}
			ops := append([]c03PlanOp(nil), clients[0][:pos]...)
			ops = append(ops, c03PlanOp{Kind: kind})
			clients[0] = append(ops, clients[0][pos:]...)
		}
	}
	return p, clients
}

// ---------------------------------------------------------------------------
// one history

type c03Chan struct {
	key ch.ChannelKey
	id  ch.ChannelID
}

type c03Hist struct {
	r        *verifkit.Run
	caseIdx  int
	caseSeed uint64
	p        c03Params
	cluster  *c03Cluster
	faults   *c03Faults
	chans    []c03Chan
	rec      *verifkit.Recorder
	reMu     sync.Mutex
	bumps    []atomic.Int64 // per channel: authority-changing installs attempted
	ready    []atomic.Bool  // per channel: latest Install for the current generation succeeded
	extraMu  sync.Mutex
	extra    []verifkit.Op // acknowledged calls of the quiet quiescent retries
	dead     atomic.Bool
}

func (h *c03Hist) authority(c int, id replication.AuthorityID) replication.Authority {
	return replication.Authority{
		Key: h.chans[c].key, ChannelID: h.chans[c].id, ID: id,
		Leader: c03LeaderNode, Voters: append([]ch.NodeID(nil), c03Voters...), WriteQuorum: 2,
	}
}

func (h *c03Hist) install(client int, l *c03Leader, c int, changed bool) bool {
	if changed {
		h.bumps[c].Add(1)
	}
	for attempt := 0; attempt < 4; attempt++ {
		out := h.rec.Do(client, c03In{Kind: c03KindInstall, Chan: c, Gen: l.gen, AuthChanged: changed}, func() any {
			ctx, cancel := context.WithTimeout(context.Background(), 60*time.Second)
			defer cancel()
			inst, err := l.log.Install(ctx, h.authority(c, l.auth[c]))
			o := c03Out{OK: err == nil, LEO: inst.LEO, HW: inst.HW, Class: c03Class(err), AuthOK: inst.Authority == l.auth[c]}
			if err != nil {
				o.Err = err.Error()
			}
			return o
		}).(c03Out)
		h.r.Count("install."+out.Class, 1)
		if out.OK {
			h.ready[c].Store(true)
			return true
		}
		h.ready[c].Store(false)
		if os.Getenv("C03_DEBUG") != "" {
			states := map[string]any{}
			for node, st := range h.cluster.raw {
				ld, err := st.Load(context.Background(), replication.LoadBatch{Items: []replication.LoadRequest{{ChannelKey: h.chans[c].key, ChannelID: h.chans[c].id}}})
				if err == nil && len(ld.Items) == 1 {
					s := ld.Items[0].State
					states[fmt.Sprint(node)] = fmt.Sprintf("leo=%d committed=%d tail(term=%d fence=%d cmd=%x base=%d last=%d) err=%v", s.LEO, s.Committed, s.Manifest.LeaderTerm, s.Manifest.FenceVersion, s.Manifest.CommandID[28:], s.Manifest.BaseOffset, s.Manifest.LastOffset, ld.Items[0].Err)
				}
			}
			fmt.Fprintf(os.Stderr, "C03DEBUG case=%d ch=%d attempt=%d gen=%d changed=%v err=%s want=%+v states=%v\nhistory=%s\n", h.caseIdx, c, attempt, l.gen, changed, out.Err, l.auth[c], states, strings.Join(c03Compact(h.rec.Ops(), c), "\n  "))
		}
	}
	h.r.Count("install.gave_up", 1)
	return false
}

func (h *c03Hist) reinstall(client int, kind int) {
	h.reMu.Lock()
	defer h.reMu.Unlock()
	h.faults.on.Store(false)
	defer h.faults.on.Store(true)
	old := h.cluster.leader.Load()
	auth := append([]replication.AuthorityID(nil), old.auth...)
	changed := kind != c03PlanRestartSame
	if changed {
		for i := range auth {
			auth[i].LeaderTerm++
			auth[i].FenceVersion++
		}
	}
	var l *c03Leader
	if kind == c03PlanBump {
		l = &c03Leader{rt: old.rt, log: old.log, gen: old.gen + 1, auth: auth, ctx: old.ctx, cancel: old.cancel, inflight: old.inflight}
		h.cluster.leader.Store(l)
		h.r.Count("reinstall.bump_live", 1)
	} else {
		ctx, cancel := context.WithTimeout(context.Background(), 60*time.Second)
		err := old.rt.Close(ctx)
		cancel()
		if err != nil {
			h.r.Count("leader_close_error", 1)
		}
		// Runtime.Close has returned: every accepted piece of work is joined, so
		// in-flight Commit calls only need CPU to return. Give them a moment,
		// then cancel their contexts; a Commit still blocked at that point was
		// stranded by the closed runtime (counted as evidence; C04 owns the
		// "admitted work reaches a terminal result" clause).
		for i := 0; i < 200 && old.inflight.Load() > 0; i++ {
			time.Sleep(time.Millisecond)
		}
		if n := old.inflight.Load(); n > 0 {
			h.r.Count("commits_still_blocked_200ms_after_close_returned", int(n))
		}
		old.cancel()
		var serr error
		l, serr = h.cluster.startLeader(old.gen+1, auth)
		if serr != nil {
			h.dead.Store(true)
			h.r.Inconclusive(fmt.Sprintf("case %d: leader restart failed: %v", h.caseIdx, serr))
			return
		}
		if changed {
			h.r.Count("reinstall.restart_bump", 1)
		} else {
			h.r.Count("reinstall.restart_same", 1)
		}
	}
	for c := range h.chans {
		h.install(client, l, c, changed)
	}
}

func (h *c03Hist) commit(client int, op c03PlanOp, phase string) c03Out {
	return h.commitRec(client, op, phase, false)
}

// allOps is the recorded history plus the acknowledged calls of the quiet part
// of the quiescent retry loop.
func (h *c03Hist) allOps() []verifkit.Op {
	ops := h.rec.Ops()
	h.extraMu.Lock()
	ops = append(ops, h.extra...)
	h.extraMu.Unlock()
	sort.Slice(ops, func(i, j int) bool { return ops[i].Call < ops[j].Call })
	return ops
}

// commitRec issues one Commit. quiet is used by the long quiescent retry loop
// after the first recorded attempts: the call is timestamped on the same
// logical clock but only kept if it was acknowledged. Dropping the repeated
// failures is the same reduction the oracle applies anyway (admission
// rejections have no effect; of several ambiguous attempts of one (command,
// content) only the earliest is kept).
func (h *c03Hist) commitRec(client int, op c03PlanOp, phase string, quiet bool) c03Out {
	l := h.cluster.leader.Load()
	// A closed leader generation (its context is cancelled after Runtime.Close
	// returned) is about to be replaced: wait for the new generation instead of
	// burning planned operations on instantly-cancelled calls.
	for i := 0; l.ctx.Err() != nil && i < 200000 && !h.dead.Load(); i++ {
		time.Sleep(50 * time.Microsecond)
		l = h.cluster.leader.Load()
	}
	auth := l.auth[op.Chan]
	recs := c03Records(h.caseSeed, op.Chan, op.Cmd, op.Variant, auth.ChannelEpoch)
	cmd := c03CommandID(h.caseSeed, op.Chan, op.Cmd)
	in := c03In{Kind: c03KindCommit, Chan: op.Chan, Cmd: op.Cmd, Variant: op.Variant, N: len(recs), Hash: c03ContentHash(recs), Gen: l.gen, Term: auth.LeaderTerm, Phase: phase}
	call := func() any {
		ctx := l.ctx
		l.inflight.Add(1)
		defer l.inflight.Add(-1)
		if op.CtxMicros > 0 {
			var cancel context.CancelFunc
			ctx, cancel = context.WithTimeout(ctx, time.Duration(op.CtxMicros)*time.Microsecond)
			defer cancel()
		}
		rc, err := l.log.Commit(ctx, replication.Proposal{Key: h.chans[op.Chan].key, Expected: auth, CommandID: cmd, Records: recs})
		o := c03Out{OK: err == nil, First: rc.First, Last: rc.Last, HW: rc.HW, Class: c03Class(err), AuthOK: rc.Authority == auth, CmdOK: rc.CommandID == cmd}
		if err != nil {
			o.Err = err.Error()
		}
		return o
	}
	if !quiet {
		return h.rec.Do(client, in, call).(c03Out)
	}
	t0 := h.rec.Clock.Tick()
	out := call().(c03Out)
	t1 := h.rec.Clock.Tick()
	if out.OK {
		h.extraMu.Lock()
		h.extra = append(h.extra, verifkit.Op{Client: client, Call: t0, Return: t1, Input: in, Output: out})
		h.extraMu.Unlock()
	}
	return out
}

// c03WedgeClass names, from the recorded history of channel c, what preceded a
// persistent quiescent rejection. The triggering round is a client call or a
// quiescent retry of a never-acknowledged command that did not return before
// the latest successful Install of the channel was called (Install resets the
// sequencer); "another attempt of the same command id" is looked for in the
// channel's whole history, in any generation.
func c03WedgeClass(ops []verifkit.Op, c int) string {
	var lastInstall, lastInstallRet int64
	var commits []verifkit.Op
	for _, op := range ops {
		in, out := op.Input.(c03In), op.Output.(c03Out)
		if in.Chan != c {
			continue
		}
		if in.Kind == c03KindInstall && out.OK && op.Return > lastInstallRet {
			lastInstallRet, lastInstall = op.Return, op.Call
		}
		if in.Kind == c03KindCommit {
			commits = append(commits, op)
		}
	}
	ambiguousOnKnown, conflictingReuse := false, false
	for i, op := range commits {
		in, out := op.Input.(c03In), op.Output.(c03Out)
		// the judged retries themselves ("final", "final-new") are not triggers
		if in.Phase != "main" && in.Phase != "final-unacked" {
			continue
		}
		if out.OK || op.Return < lastInstall || c03Definite(out.Class) {
			continue
		}
		for j, other := range commits {
			oin, oout := other.Input.(c03In), other.Output.(c03Out)
			if i == j || oin.Cmd != in.Cmd || other.Call >= op.Return || (!oout.OK && c03Definite(oout.Class)) {
				continue
			}
			// "other" is another attempt of the same command id, acknowledged or
			// without a definite no-effect outcome, that may have reached the log
			// before this one finished
			if out.Class == "log_conflict" {
				if oout.OK && oin.Hash != in.Hash {
					conflictingReuse = true // different-content reuse, correctly refused
				}
			} else {
				// an attempt on a command id the log may already hold (not answerable
				// from the pending slot) ended without a definite outcome
				ambiguousOnKnown = true
			}
		}
	}
	switch {
	case ambiguousOnKnown:
		return "after-ambiguous-round-on-evicted-command"
	case conflictingReuse:
		return "after-conflicting-reuse"
	}
	return "other"
}

var (
	c03KeepMu   sync.Mutex
	c03Kept     = map[string]int{}
	c03Smallest = map[string]map[string]any{} // per signature: shortest single-client witness
	c03SmallLen = map[string]int{}
)

// c03Keep records a violation, keeping at most two witnesses per signature
// (further occurrences are counted), and remembers the shortest single-client
// history per signature for the evidence notes.
func c03Keep(r *verifkit.Run, sig string, clients, histLen int, witness map[string]any) {
	c03KeepMu.Lock()
	n := c03Kept[sig]
	c03Kept[sig] = n + 1
	if clients == 1 {
		if l, ok := c03SmallLen[sig]; !ok || histLen < l {
			c03SmallLen[sig] = histLen
			c03Smallest[sig] = witness
		}
	}
	c03KeepMu.Unlock()
	r.Count("violation_occurrences."+sig, 1)
	if n < 2 {
		r.Violation(sig, witness)
	}
}

type c03StoreView struct {
	LEO   uint64
	Found map[int]c03Found // by cmd
	Err   string
}

type c03Found struct {
	First, Last uint64
	Hash        uint64
}

func c03RunCase(r *verifkit.Run, caseIdx int) {
	rng := r.Rand(uint64(caseIdx))
	p, plan := c03Plan(rng, r.Thorough())
	caseSeed := rng.Uint64()
	faults := &c03Faults{seed: rng.Uint64()}
	// fault intensity profile
	clean := false
	switch rng.IntN(6) {
	case 0, 1: // clean: no fault of any kind and no caller deadlines
		clean = true
		for cl := range plan {
			for i := range plan[cl] {
				plan[cl][i].CtxMicros = 0
			}
		}
	case 2: // calm
		faults.linkDelay, faults.localDelay = 100, 100
	case 3:
		faults.linkDrop, faults.linkLose, faults.linkDelay = 40, 60, 200
		faults.localFail, faults.localLose, faults.localDelay = 20, 30, 150
	case 4:
		faults.linkDrop, faults.linkLose, faults.linkDelay = 100, 120, 300
		faults.localFail, faults.localLose, faults.localDelay = 50, 60, 200
	case 5: // lost responses only
		faults.linkLose, faults.localLose, faults.linkDelay = 150, 80, 100
	}
	// Scripted tail (client 0): a different-content reuse of the oldest command
	// of channel 0 (by then usually evicted from the retained cache, or issued
	// before a restart); the quiescent phase then retries it exactly and issues a
	// new command.
	plan[0] = append(plan[0], c03PlanOp{Kind: c03PlanCommit, Chan: 0, Cmd: 0, Variant: 1 + rng.IntN(c03Variants)})
	desc := fmt.Sprintf("chan=%d clients=%d retained=%d ops=%d db=%v reinstalls=%v clean=%v faults=%d/%d/%d/%d", p.nChan, p.nClients, p.maxRetained, p.totalOps, p.messageDB, p.reinstalls, clean, faults.linkDrop, faults.linkLose, faults.localFail, faults.localLose)
	r.BeginCase(caseIdx, desc)

	dbDir := ""
	if p.messageDB {
		d, err := os.MkdirTemp("", fmt.Sprintf("c03-%d-", caseIdx))
		if err != nil {
			r.Inconclusive("mkdirtemp: " + err.Error())
			return
		}
		dbDir = d
		defer os.RemoveAll(d)
	}
	cluster, err := c03NewCluster(faults, p.maxRetained, dbDir)
	if err != nil {
		r.Inconclusive(fmt.Sprintf("case %d: cluster construction failed: %v", caseIdx, err))
		return
	}
	h := &c03Hist{r: r, caseIdx: caseIdx, caseSeed: caseSeed, p: p, cluster: cluster, faults: faults, rec: verifkit.NewRecorder(), bumps: make([]atomic.Int64, p.nChan), ready: make([]atomic.Bool, p.nChan)}
	auth := make([]replication.AuthorityID, p.nChan)
	for c := 0; c < p.nChan; c++ {
		name := fmt.Sprintf("c03-%d-%d", caseIdx, c)
		h.chans = append(h.chans, c03Chan{key: ch.ChannelKey("1:" + name), id: ch.ChannelID{ID: name, Type: 1}})
		auth[c] = replication.AuthorityID{ChannelEpoch: 3, LeaderTerm: 5, FenceVersion: 7}
	}
	l, err := cluster.startLeader(0, auth)
	if err != nil {
		r.Inconclusive(fmt.Sprintf("case %d: leader construction failed: %v", caseIdx, err))
		return
	}
	for c := range h.chans {
		if !h.install(0, l, c, false) {
			r.Inconclusive(fmt.Sprintf("case %d: initial install failed", caseIdx))
			cluster.closeAll()
			cluster.closeStores()
			return
		}
	}
	faults.on.Store(true)

	var wg sync.WaitGroup
	for cl := range plan {
		wg.Add(1)
		go func(cl int) {
			defer wg.Done()
			for _, op := range plan[cl] {
				if h.dead.Load() {
					return
				}
				if op.Delay > 0 {
					time.Sleep(time.Duration(op.Delay) * time.Microsecond)
				}
				if op.Kind == c03PlanCommit {
					out := h.commit(cl, op, "main")
					r.Count("commit."+out.Class, 1)
				} else {
					h.reinstall(cl, op.Kind)
				}
			}
		}(cl)
	}
	wg.Wait()
	faults.on.Store(false)
	if h.dead.Load() {
		cluster.closeAll()
		cluster.closeStores()
		return
	}

	// Quiescent phase 1 (all faults off, all client calls returned). Judged
	// clause: "retrying the same command with identical content returns the same
	// range ... also after restart or cache eviction". One loop retries, pass
	// after pass, (a) every (command, content) that so far only failed
	// ambiguously - a legitimately pending proposal blocks its channel by design
	// until its exact retry succeeds -, (b) every acknowledged command whose
	// channel is installed and ready under the acknowledging authority, and (c)
	// one brand-new command per ready channel, until everything is accepted.
	// Only a persistent rejection is judged: the loop gives up on a channel when
	// its followers have caught up with the leader's log and c03SettledPasses
	// further passes changed nothing, or no replica log end moved during
	// c03StablePasses passes spanning c03StableFor (state-based: no background
	// repair or trailing write is making progress), or after c03MaxPasses passes
	// spread over >= c03MaxWait.
	ops := h.rec.Ops()
	type ackKey struct{ c, cmd int }
	type varKey struct{ c, cmd, v int }
	acked := map[ackKey]c03In{}
	ambiguousOnly := map[varKey]bool{}
	var ambOrder []varKey
	variantsTried := map[ackKey]map[int]bool{} // contents whose attempt may have left a sealed proposal pending
	for _, op := range ops {
		in, out := op.Input.(c03In), op.Output.(c03Out)
		if in.Kind != c03KindCommit {
			continue
		}
		if out.OK {
			if _, ok := acked[ackKey{in.Chan, in.Cmd}]; !ok {
				acked[ackKey{in.Chan, in.Cmd}] = in
			}
			continue
		}
		if c03Definite(out.Class) {
			continue
		}
		k := varKey{in.Chan, in.Cmd, in.Variant}
		if !ambiguousOnly[k] {
			ambiguousOnly[k] = true
			ambOrder = append(ambOrder, k)
		}
		if out.Class != "log_conflict" {
			if variantsTried[ackKey{k.c, k.cmd}] == nil {
				variantsTried[ackKey{k.c, k.cmd}] = map[int]bool{}
			}
			variantsTried[ackKey{k.c, k.cmd}][k.v] = true
		}
	}
	mainAcked := make([]ackKey, 0, len(acked))
	for k := range acked {
		mainAcked = append(mainAcked, k)
	}
	sort.Slice(mainAcked, func(i, j int) bool {
		if mainAcked[i].c != mainAcked[j].c {
			return mainAcked[i].c < mainAcked[j].c
		}
		return mainAcked[i].cmd < mainAcked[j].cmd
	})
	curTerm := func(c int) uint64 { return cluster.leader.Load().auth[c].LeaderTerm }
	// replicaLEOs returns the leader and follower log ends of channel c.
	replicaLEOs := func(c int) (v [3]uint64, ok bool) {
		for i, n := range c03Voters {
			ld, err := cluster.raw[n].Load(context.Background(), replication.LoadBatch{Items: []replication.LoadRequest{{ChannelKey: h.chans[c].key, ChannelID: h.chans[c].id}}})
			if err != nil || len(ld.Items) != 1 || ld.Items[0].Err != nil {
				return v, false
			}
			v[i] = ld.Items[0].State.LEO
		}
		return v, true
	}
	caughtUp := func(c int) bool {
		v, ok := replicaLEOs(c)
		return ok && v[1] >= v[0] && v[2] >= v[0]
	}
	lastLEOs := make([][3]uint64, p.nChan)
	stablePasses := make([]int, p.nChan)
	stableSince := make([]time.Time, p.nChan)
	type tally struct {
		attempts int
		last     string
		done     bool
	}
	unackedT := map[varKey]*tally{}
	exactT := map[ackKey]*tally{}
	newT := map[int]*tally{}
	otherAuth := map[ackKey]bool{}
	settled := make([]int, p.nChan) // passes without progress since the followers were seen caught up
	gaveUp := make([]bool, p.nChan)
	started := time.Now()
	passes := 0
	for ; ; passes++ {
		progress := make([]bool, p.nChan)
		pendingWork := make([]bool, p.nChan)
		quiet := passes >= 4
		for _, k := range ambOrder {
			if _, ok := acked[ackKey{k.c, k.cmd}]; ok || gaveUp[k.c] {
				continue
			}
			t := unackedT[k]
			if t == nil {
				t = &tally{}
				unackedT[k] = t
			}
			out := h.commitRec(0, c03PlanOp{Kind: c03PlanCommit, Chan: k.c, Cmd: k.cmd, Variant: k.v}, "final-unacked", quiet)
			t.attempts, t.last = t.attempts+1, out.Class
			if out.OK {
				acked[ackKey{k.c, k.cmd}] = c03In{Chan: k.c, Cmd: k.cmd, Variant: k.v, Term: curTerm(k.c)}
				progress[k.c] = true
			} else if out.Class != "log_conflict" {
				pendingWork[k.c] = true // a rejected other-content variant of the same id is not outstanding work
			}
		}
		for _, k := range mainAcked {
			t := exactT[k]
			if t == nil {
				t = &tally{}
				exactT[k] = t
			}
			if t.done || gaveUp[k.c] {
				continue
			}
			in := acked[k]
			if in.Term != curTerm(k.c) || !h.ready[k.c].Load() {
				// acknowledged under another authority, or channel not installed: not judged, one attempt
				out := h.commitRec(0, c03PlanOp{Kind: c03PlanCommit, Chan: k.c, Cmd: k.cmd, Variant: in.Variant}, "final", false)
				r.Count("final_retry_other_authority_or_not_installed."+out.Class, 1)
				t.done, otherAuth[k] = true, true
				continue
			}
			out := h.commitRec(0, c03PlanOp{Kind: c03PlanCommit, Chan: k.c, Cmd: k.cmd, Variant: in.Variant}, "final", quiet)
			t.attempts, t.last = t.attempts+1, out.Class
			if out.OK {
				t.done, progress[k.c] = true, true
			} else {
				pendingWork[k.c] = true
			}
		}
		for c := range h.chans {
			if !h.ready[c].Load() || gaveUp[c] {
				continue
			}
			t := newT[c]
			if t == nil {
				t = &tally{}
				newT[c] = t
			}
			if t.done {
				continue
			}
			out := h.commitRec(0, c03PlanOp{Kind: c03PlanCommit, Chan: c, Cmd: 60000 + c}, "final-new", quiet)
			t.attempts, t.last = t.attempts+1, out.Class
			if out.Class != "backpressured" { // only a permanent admission refusal is judged for new commands
				t.done, progress[c] = true, true
			} else {
				pendingWork[c] = true
			}
		}
		remaining := false
		for c := range h.chans {
			if gaveUp[c] || !pendingWork[c] {
				continue
			}
			v, ok := replicaLEOs(c)
			switch {
			case progress[c] || !ok:
				settled[c], stablePasses[c] = 0, 0
			default:
				if v[1] >= v[0] && v[2] >= v[0] {
					settled[c]++
				} else {
					settled[c] = 0
				}
				if stablePasses[c] == 0 || v != lastLEOs[c] {
					stablePasses[c], stableSince[c] = 1, time.Now()
				} else {
					stablePasses[c]++
				}
			}
			lastLEOs[c] = v
			// persistent: followers caught up and nothing changed for
			// c03SettledPasses passes, or no replica log moved at all for
			// c03StablePasses passes spanning c03StableFor (no background repair or
			// trailing write is making progress that could unblock the retry)
			if settled[c] >= c03SettledPasses || (stablePasses[c] >= c03StablePasses && time.Since(stableSince[c]) >= c03StableFor) {
				gaveUp[c] = true
				continue
			}
			remaining = true
		}
		if !remaining {
			break
		}
		if passes+1 >= c03MaxPasses && time.Since(started) >= c03MaxWait {
			r.Count("quiescent_loop_hit_time_bound", 1)
			break
		}
		d := time.Duration(passes+1) * 200 * time.Microsecond
		if d > 40*time.Millisecond {
			d = 40 * time.Millisecond
		}
		time.Sleep(d)
	}
	r.Max("quiescent_loop_max_passes", passes+1)
	for _, t := range unackedT {
		r.Count("final_unacked_retry."+t.last, 1)
	}
	// pendingNeverDurable[c]: a brand-new command (one content ever attempted)
	// still cannot be made durable. Its proposal is legitimately pending and
	// blocks the channel by design; why it cannot reach a quorum is a log
	// divergence question (C01/C02), so the channel is not judged here.
	pendingNeverDurable := map[int]string{}
	for k, t := range unackedT {
		if _, ok := acked[ackKey{k.c, k.cmd}]; ok {
			continue
		}
		if !c03Definite(t.last) && t.last != "log_conflict" && len(variantsTried[ackKey{k.c, k.cmd}]) == 1 {
			pendingNeverDurable[k.c] = fmt.Sprintf("cmd=%d v=%d -> %s x%d", k.cmd, k.v, t.last, t.attempts)
		}
	}
	wedged := map[int][]string{}
	for _, k := range mainAcked {
		t := exactT[k]
		if t == nil || otherAuth[k] {
			continue
		}
		r.Count("final_retry_same_authority."+t.last, 1)
		if !t.done {
			wedged[k.c] = append(wedged[k.c], fmt.Sprintf("cmd=%d -> %s (x%d attempts)", k.cmd, t.last, t.attempts))
		}
	}
	newBlocked := map[int]string{}
	for c, t := range newT {
		r.Count("final_new_command."+t.last, 1)
		if !t.done {
			newBlocked[c] = fmt.Sprintf("backpressured x%d attempts", t.attempts)
		}
	}
	allOps := h.allOps()
	for c := range h.chans {
		list, blocked := wedged[c], newBlocked[c]
		if len(list) == 0 && blocked == "" {
			continue
		}
		if why, skip := pendingNeverDurable[c]; skip {
			r.Count("quiescent_judgement_skipped.new_command_pending_never_durable", 1)
			if os.Getenv("C03_DEBUG") != "" {
				fmt.Fprintf(os.Stderr, "C03SKIP case=%d ch=%d %s\n", caseIdx, c, why)
			}
			continue
		}
		class := c03WedgeClass(allOps, c)
		hist := c03Compact(allOps, c)
		wait := fmt.Sprintf("%d passes over %v, followers caught up: %v", passes+1, time.Since(started).Round(time.Millisecond), caughtUp(c))
		if len(list) > 0 {
			r.Count("channels_with_quiescent_exact_retry_rejected."+class, 1)
			c03Keep(r, "quiescent-exact-retry-rejected:"+class, p.nClients, len(hist), map[string]any{"case": caseIdx, "desc": desc, "channel": c, "rejected": list, "new_command": blocked, "waited": wait, "history": hist})
		}
		if blocked != "" {
			r.Count("channels_with_quiescent_new_command_backpressured."+class, 1)
			c03Keep(r, "quiescent-new-command-backpressured:"+class, p.nClients, len(hist), map[string]any{"case": caseIdx, "desc": desc, "channel": c, "new_command": blocked, "exact_retries_rejected": list, "waited": wait, "history": hist})
		}
	}

	// Quiescent phase 2: join all runtime work, then read the leader's store.
	closeErrs := cluster.closeAll()
	if len(closeErrs) > 0 {
		r.Count("close_errors", len(closeErrs))
	}
	views := make([]c03StoreView, p.nChan)
	ops = h.allOps()
	issued := make([]map[int]bool, p.nChan)
	for c := range issued {
		issued[c] = map[int]bool{}
	}
	for _, op := range ops {
		in := op.Input.(c03In)
		if in.Kind == c03KindCommit {
			issued[in.Chan][in.Cmd] = true
		}
	}
	for c := range h.chans {
		views[c] = c03ReadStore(cluster.raw[c03LeaderNode], h.chans[c], caseSeed, c, issued[c])
	}
	cluster.closeStores()

	r.Count("faults.link_drop", int(faults.nLinkDrop.Load()))
	r.Count("faults.link_lost_response", int(faults.nLinkLose.Load()))
	r.Count("faults.link_delay", int(faults.nLinkDelay.Load()))
	r.Count("faults.local_fail", int(faults.nLocalFail.Load()))
	r.Count("faults.local_lost_response", int(faults.nLocalLose.Load()))
	r.Count("faults.local_delay", int(faults.nLocalDelay.Load()))

	bumps := make([]int, p.nChan)
	for c := range bumps {
		bumps[c] = int(h.bumps[c].Load())
	}
	c03Judge(r, caseIdx, desc, p, ops, views, bumps)
}

func c03ReadStore(store replication.ReplicaStore, cn c03Chan, caseSeed uint64, c int, issued map[int]bool) c03StoreView {
	v := c03StoreView{Found: map[int]c03Found{}}
	ctx := context.Background()
	loaded, err := store.Load(ctx, replication.LoadBatch{Items: []replication.LoadRequest{{ChannelKey: cn.key, ChannelID: cn.id}}})
	if err != nil || len(loaded.Items) != 1 || loaded.Items[0].Err != nil {
		v.Err = fmt.Sprintf("load: %v %+v", err, loaded.Items)
		return v
	}
	v.LEO = loaded.Items[0].State.LEO
	cs, ok := store.(c03CommandStore)
	if !ok {
		v.Err = "store has no LookupCommands"
		return v
	}
	cmds := make([]int, 0, len(issued))
	for cmd := range issued {
		cmds = append(cmds, cmd)
	}
	sort.Ints(cmds)
	for _, cmd := range cmds {
		res := cs.LookupCommands(ctx, []replication.CommandLookup{{ChannelKey: cn.key, ChannelID: cn.id, CommandID: c03CommandID(caseSeed, c, cmd), MaxRecords: 256, MaxBytes: 4 << 20}})
		if len(res) != 1 || res[0].Err != nil {
			v.Err = fmt.Sprintf("lookup cmd %d: %+v", cmd, res)
			return v
		}
		if !res[0].Found {
			continue
		}
		// The store returns records with their assigned Index; content hash
		// ignores Index.
		v.Found[cmd] = c03Found{First: res[0].Manifest.BaseOffset + 1, Last: res[0].Manifest.LastOffset, Hash: c03ContentHash(res[0].Records)}
	}
	return v
}

// ---------------------------------------------------------------------------
// model

type c03Ent struct {
	cmd         int
	first, last uint64
	hash        uint64
}

type c03State struct {
	leo  uint64
	cmds []c03Ent // sorted by cmd
}

func (s c03State) find(cmd int) (c03Ent, bool) {
	i := sort.Search(len(s.cmds), func(i int) bool { return s.cmds[i].cmd >= cmd })
	if i < len(s.cmds) && s.cmds[i].cmd == cmd {
		return s.cmds[i], true
	}
	return c03Ent{}, false
}

func (s c03State) with(e c03Ent) c03State {
	i := sort.Search(len(s.cmds), func(i int) bool { return s.cmds[i].cmd >= e.cmd })
	n := make([]c03Ent, 0, len(s.cmds)+1)
	n = append(n, s.cmds[:i]...)
	n = append(n, e)
	n = append(n, s.cmds[i:]...)
	return c03State{leo: e.last, cmds: n}
}

func c03Step(state, input, output interface{}) []interface{} {
	s := state.(c03State)
	in := input.(c03In)
	out := output.(c03Out)
	if in.Kind == c03KindInstall {
		if !out.OK {
			// failed authority-changing install may have left its barrier
			if in.AuthChanged {
				return []interface{}{s, c03State{leo: s.leo + 1, cmds: s.cmds}}
			}
			return []interface{}{s}
		}
		switch {
		case out.LEO == s.leo:
			return []interface{}{s}
		case in.AuthChanged && out.LEO == s.leo+1: // current-term barrier entry
			return []interface{}{c03State{leo: out.LEO, cmds: s.cmds}}
		}
		return nil
	}
	ent, known := s.find(in.Cmd)
	if out.OK {
		if known {
			if ent.hash == in.Hash && ent.first == out.First && ent.last == out.Last {
				return []interface{}{s}
			}
			return nil
		}
		if out.First == s.leo+1 && out.Last == s.leo+uint64(in.N) {
			return []interface{}{s.with(c03Ent{cmd: in.Cmd, first: out.First, last: out.Last, hash: in.Hash})}
		}
		return nil
	}
	// ambiguous error: no effect, or the effect of a fresh append
	if known {
		return []interface{}{s}
	}
	return []interface{}{s, s.with(c03Ent{cmd: in.Cmd, first: s.leo + 1, last: s.leo + uint64(in.N), hash: in.Hash})}
}

func c03Equal(a, b interface{}) bool {
	x, y := a.(c03State), b.(c03State)
	if x.leo != y.leo || len(x.cmds) != len(y.cmds) {
		return false
	}
	for i := range x.cmds {
		if x.cmds[i] != y.cmds[i] {
			return false
		}
	}
	return true
}

func c03Hash(a interface{}) uint64 {
	x := a.(c03State)
	h := c03Mix(x.leo)
	for _, e := range x.cmds {
		h = c03Mix(h ^ uint64(e.cmd)<<32 ^ e.first ^ e.last<<16 ^ e.hash)
	}
	return h
}

var c03Model = (&porcupine.NondeterministicModel{
	Init:  func() []interface{} { return []interface{}{c03State{}} },
	Step:  c03Step,
	Equal: c03Equal,
	Hash:  c03Hash,
	DescribeOperation: func(in, out interface{}) string {
		return fmt.Sprintf("%+v -> %+v", in, out)
	},
}).ToModel()

// ---------------------------------------------------------------------------
// judge

type c03Ack struct {
	In  c03In
	Out c03Out
	Op  verifkit.Op
}

func c03Compact(ops []verifkit.Op, c int) []string {
	var out []string
	for _, op := range ops {
		in, o := op.Input.(c03In), op.Output.(c03Out)
		if in.Chan != c {
			continue
		}
		if in.Kind == c03KindInstall {
			out = append(out, fmt.Sprintf("[%d,%d] c%d INSTALL gen=%d changed=%v -> %s leo=%d", op.Call, op.Return, op.Client, in.Gen, in.AuthChanged, o.Class, o.LEO))
			continue
		}
		out = append(out, fmt.Sprintf("[%d,%d] c%d COMMIT cmd=%d v=%d n=%d gen=%d %s -> %s %d..%d", op.Call, op.Return, op.Client, in.Cmd, in.Variant, in.N, in.Gen, in.Phase, o.Class, o.First, o.Last))
	}
	return out
}

func c03Judge(r *verifkit.Run, caseIdx int, desc string, p c03Params, ops []verifkit.Op, views []c03StoreView, bumps []int) {
	r.Eval(len(ops))
	r.Max("max_history_len", len(ops))
	viol := func(sig string, c int, detail map[string]any) {
		detail["case"] = caseIdx
		detail["desc"] = desc
		detail["channel"] = c
		detail["history"] = c03Compact(ops, c)
		r.Violation(sig, detail)
	}
	var endTick int64
	for _, op := range ops {
		if op.Return > endTick {
			endTick = op.Return
		}
	}
	endTick++

	okRetryEvicted, okRetryRestart, okRetryRecent, conflictRejected, ambiguous := 0, 0, 0, 0, 0
	badConflictAck := false

	for c := 0; c < p.nChan; c++ {
		// ---- direct, linearisation-independent checks on receipts
		acks := map[int][]c03Ack{}
		var installs []verifkit.Op
		for _, op := range ops {
			in, out := op.Input.(c03In), op.Output.(c03Out)
			if in.Chan != c {
				continue
			}
			if in.Kind == c03KindInstall {
				if out.OK {
					installs = append(installs, op)
					if !out.AuthOK {
						viol("install-authority-mismatch", c, map[string]any{"op": op})
					}
				}
				continue
			}
			if !out.OK {
				if !c03Definite(out.Class) {
					ambiguous++
				}
				continue
			}
			if !out.AuthOK {
				viol("receipt-authority-mismatch", c, map[string]any{"op": op})
			}
			if !out.CmdOK {
				viol("receipt-command-mismatch", c, map[string]any{"op": op})
			}
			if out.First == 0 || out.Last < out.First || out.Last-out.First+1 != uint64(in.N) {
				viol("receipt-length-mismatch", c, map[string]any{"op": op})
			}
			acks[in.Cmd] = append(acks[in.Cmd], c03Ack{In: in, Out: out, Op: op})
		}
		type rng struct {
			cmd         int
			first, last uint64
		}
		var ranges []rng
		firstAckRet := map[int]int64{}
		for cmd, list := range acks {
			a0 := list[0]
			firstAckRet[cmd] = a0.Op.Return
			for _, a := range list[1:] {
				if a.In.Hash != a0.In.Hash {
					badConflictAck = true
					viol("conflicting-content-acknowledged", c, map[string]any{"cmd": cmd, "first_ack": a0.Op, "other_ack": a.Op})
				}
				if a.Out.First != a0.Out.First || a.Out.Last != a0.Out.Last {
					viol("retry-range-changed", c, map[string]any{"cmd": cmd, "first_ack": a0.Op, "other_ack": a.Op})
				}
				if a.Op.Return < firstAckRet[cmd] {
					firstAckRet[cmd] = a.Op.Return
				}
			}
			ranges = append(ranges, rng{cmd, a0.Out.First, a0.Out.Last})
		}
		sort.Slice(ranges, func(i, j int) bool { return ranges[i].first < ranges[j].first })
		for i := 1; i < len(ranges); i++ {
			if ranges[i].first <= ranges[i-1].last {
				viol("overlapping-ranges", c, map[string]any{"a": ranges[i-1], "b": ranges[i]})
			}
		}

		// ---- evidence classification of ok retries / rejected conflicts
		for _, op := range ops {
			in, out := op.Input.(c03In), op.Output.(c03Out)
			if in.Chan != c || in.Kind != c03KindCommit {
				continue
			}
			fr, wasAcked := firstAckRet[in.Cmd]
			if out.OK && wasAcked && op.Call > fr {
				restarted := false
				for _, inst := range installs {
					if inst.Call > fr && inst.Return < op.Call {
						restarted = true
					}
				}
				others := 0
				for cmd2, fr2 := range firstAckRet {
					if cmd2 != in.Cmd && fr2 > fr && fr2 < op.Call {
						others++
					}
				}
				switch {
				case restarted:
					okRetryRestart++
				case others >= p.maxRetained:
					okRetryEvicted++
				default:
					okRetryRecent++
				}
			}
			if !out.OK && wasAcked && acks[in.Cmd][0].In.Hash != in.Hash && op.Call > fr {
				conflictRejected++
			}
		}

		// ---- oracle (a): porcupine
		var hist []porcupine.Operation
		seenAmbiguous := map[[2]int]bool{}
		dropped := 0
		for _, op := range ops { // sorted by call time
			in, out := op.Input.(c03In), op.Output.(c03Out)
			if in.Chan != c {
				continue
			}
			po := porcupine.Operation{ClientId: op.Client, Input: in, Output: out, Call: op.Call, Return: op.Return}
			if in.Kind == c03KindInstall {
				if !out.OK {
					if !in.AuthChanged {
						dropped++
						continue
					}
					po.Return = endTick
				}
				hist = append(hist, po)
				continue
			}
			if out.OK {
				hist = append(hist, po)
				continue
			}
			if c03Definite(out.Class) {
				dropped++ // admission rejection: always legal, never an effect
				continue
			}
			// Ambiguous error: its possible effect (a fresh append of this exact
			// content) may linearise at any point after the call. Several
			// ambiguous attempts of the same (cmd, content) can take effect at most
			// once, at any time after the earliest call: keep only the earliest.
			k := [2]int{in.Cmd, in.Variant}
			if seenAmbiguous[k] {
				dropped++
				continue
			}
			seenAmbiguous[k] = true
			po.Return = endTick
			hist = append(hist, po)
		}
		r.Count("porcupine.ops_checked", len(hist))
		r.Count("porcupine.ops_dropped_no_effect", dropped)
		pt0 := time.Now()
		res, info := porcupine.CheckOperationsVerbose(c03Model, hist, 60*time.Second)
		r.Max("porcupine.max_check_ms", int(time.Since(pt0).Milliseconds()))
		r.Count("porcupine.total_check_ms", int(time.Since(pt0).Milliseconds()))
		switch res {
		case porcupine.Ok:
			r.Count("porcupine.ok", 1)
		case porcupine.Unknown:
			r.Count("porcupine.timeout", 1)
			r.Inconclusive(fmt.Sprintf("case %d channel %d: porcupine timeout on %d ops", caseIdx, c, len(hist)))
		case porcupine.Illegal:
			r.Count("porcupine.illegal", 1)
			longest := 0
			for _, part := range info.PartialLinearizations() {
				for _, lin := range part {
					if len(lin) > longest {
						longest = len(lin)
					}
				}
			}
			viol("history-not-linearizable", c, map[string]any{"ops_in_model_history": len(hist), "longest_partial_linearization": longest})
		}

		// ---- oracle (b): quiescent store
		v := views[c]
		if v.Err != "" {
			r.Count("store_read_error", 1)
			r.Inconclusive(fmt.Sprintf("case %d channel %d: store read failed: %s", caseIdx, c, v.Err))
			continue
		}
		r.Count("store.channels_inspected", 1)
		var found []rng
		covered := uint64(0)
		for cmd, f := range v.Found {
			found = append(found, rng{cmd, f.First, f.Last})
			covered += f.Last - f.First + 1
		}
		sort.Slice(found, func(i, j int) bool { return found[i].first < found[j].first })
		tiling := true
		for i := range found {
			if found[i].first == 0 || found[i].last < found[i].first || found[i].last > v.LEO || (i > 0 && found[i].first <= found[i-1].last) {
				tiling = false
			}
		}
		// Sequences not owned by an issued command can only be current-term
		// barrier entries written by authority-changing installs.
		if !tiling || covered > v.LEO || v.LEO-covered > uint64(bumps[c]) {
			viol("store-leo-not-sum-of-effective-commands", c, map[string]any{"leo": v.LEO, "covered": covered, "authority_changes": bumps[c], "found": found})
		}
		for cmd, list := range acks {
			a0 := list[0]
			f, ok := v.Found[cmd]
			switch {
			case !ok:
				viol("acknowledged-command-missing-in-store", c, map[string]any{"cmd": cmd, "ack": a0.Op})
			case f.First != a0.Out.First || f.Last != a0.Out.Last:
				viol("acknowledged-range-differs-in-store", c, map[string]any{"cmd": cmd, "ack": a0.Op, "store": f})
			case f.Hash != a0.In.Hash:
				viol("acknowledged-content-differs-in-store", c, map[string]any{"cmd": cmd, "ack": a0.Op, "store": f})
			}
			r.Count("store.acked_commands_verified", 1)
		}
	}
	r.Count("retry_ok.after_eviction", okRetryEvicted)
	r.Count("retry_ok.after_reinstall", okRetryRestart)
	r.Count("retry_ok.recent", okRetryRecent)
	r.Count("conflicting_retry_rejected", conflictRejected)
	r.Count("ambiguous_errors", ambiguous)
	_ = badConflictAck
	if (okRetryEvicted > 0 || okRetryRestart > 0) && conflictRejected > 0 {
		b := func(n int) int {
			switch {
			case n == 0:
				return 0
			case n < 3:
				return 1
			case n < 8:
				return 2
			}
			return 3
		}
		r.Nontrivial(fmt.Sprintf("ch%d cl%d mr%d re%v ev%d rs%d cf%d am%d len%d", p.nChan, p.nClients, p.maxRetained, p.reinstalls, b(okRetryEvicted), b(okRetryRestart), b(conflictRejected), b(ambiguous), len(ops)/4))
	}
	if r.WantSample() && okRetryEvicted > 0 && conflictRejected > 0 {
		r.Sample(map[string]any{"case": caseIdx, "desc": desc, "channel0": c03Compact(ops, 0)})
	}
}

func TestVerifC03(t *testing.T) {
	r := verifkit.Start(t, "C03", "main")
	defer r.Finish()
	r.SetRule("Each case is one history (<=40 planned Commit calls + the quiescent retries) over 1-3 channels of a 3-node in-process cluster: 1-6 concurrent clients issue fresh commands, exact retries (biased to old commands), conflicting retries (one of 8 single-field/record-count changes), some with short context deadlines, with MaxRetainedCommands in {1,2,64}, link drop/lost-response/delay and leader-local fail/lost-response/delay faults, and 0-2 leader reinstalls (runtime restart under the same authority, restart with higher authority, live higher-authority install). Non-trivial = history with >=1 exact retry acknowledged after the command left the retained cache or after a reinstall AND >=1 conflicting retry rejected after the original was acknowledged; distinct by abstract shape (channels, clients, cache size, reinstall kinds, bucketed outcome counts).")
	r.Assume("Link faults are switched off while Install runs (unreachable voters during Install are C01's subject).")
	r.Assume("Error classes backpressured/not_ready/stale_meta/write_fenced/invalid_config are admission rejections returned by quorumLog.Commit before a proposal is sealed; they are modelled as having no effect. All other errors may have the effect of one fresh append at any later time.")
	r.Assume("Retries under a changed authority may be rejected; if acknowledged they must return the stored range.")
	r.Assume("Quiescent judgement: all faults off, all client calls returned, every (command, content) that only ever failed ambiguously retried twice first (a legitimately pending proposal blocks its channel by design until its exact retry), channel installed and ready under the authority of the acknowledgement; an exact retry (or a brand-new command: backpressure only) is retried until accepted; it is judged only if still rejected after the followers have caught up with the leader log and 12 further passes changed nothing, or no replica log end moved for 40 passes spanning 1.5 s, or after >=300 passes over >=12 s, classified from the channel's history since its latest Install.")
	n := r.N(260, 2200)
	for i := 0; i < n; i++ {
		if r.Skip(i) {
			continue
		}
		i := i
		t0 := time.Now()
		ok := verifkit.Watchdog(c03WatchdogDur(), func() { c03RunCase(r, i) })
		if os.Getenv("C03_DEBUG") != "" {
			fmt.Fprintf(os.Stderr, "C03TIME case=%d ms=%d\n", i, time.Since(t0).Milliseconds())
		}
		if !ok {
			r.Inconclusive(fmt.Sprintf("case %d: watchdog expired (history did not finish in 5 min)", i))
			buf := make([]byte, 4<<20)
			buf = buf[:runtime.Stack(buf, true)]
			fmt.Fprintf(os.Stderr, "C03 WATCHDOG goroutine dump:\n%s\n", buf)
			return
		}
	}
	c03KeepMu.Lock()
	for sig, w := range c03Smallest {
		r.Note("shortest_single_client_witness/"+sig, w)
	}
	c03KeepMu.Unlock()
}

func c03WatchdogDur() time.Duration {
	if v := os.Getenv("C03_WATCHDOG_S"); v != "" {
		if d, err := time.ParseDuration(v + "s"); err == nil {
			return d
		}
	}
	return 5 * time.Minute
}
