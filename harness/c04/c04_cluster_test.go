//go:build verif

package c04_test

// In-process three-node cluster for C04 (own copy; other harnesses have their
// own): real replication.Runtime owners over memory channel stores joined by a
// PeerLink that routes to the peer's real ExchangeServer.Handle, with mild
// delay / drop / lost-response faults so that Install and Commit calls overlap
// and sometimes fail half-way.

import (
	"context"
	"errors"
	"sync"
	"sync/atomic"
	"time"

	ch "github.com/WuKongIM/WuKongIM/pkg/channel"
	"github.com/WuKongIM/WuKongIM/pkg/channel/replication"
	channelstore "github.com/WuKongIM/WuKongIM/pkg/channel/store"
	goruntimeregistry "github.com/WuKongIM/WuKongIM/pkg/goroutine"
)

var (
	c04ErrDropped  = errors.New("c04: request dropped")
	c04ErrLostResp = errors.New("c04: response lost")
)

func c04Mix(x uint64) uint64 {
	x += 0x9e3779b97f4a7c15
	z := x
	z = (z ^ (z >> 30)) * 0xbf58476d1ce4e5b9
	z = (z ^ (z >> 27)) * 0x94d049bb133111eb
	return z ^ (z >> 31)
}

type c04Faults struct {
	on                  atomic.Bool
	seed                uint64
	ctr                 atomic.Uint64
	drop, lose, delay   uint64 // per mille
	nDrop, nLose, nDlay atomic.Int64
}

func (f *c04Faults) roll() uint64 { return c04Mix(f.seed + f.ctr.Add(1)) }

type c04Router struct {
	mu      sync.RWMutex
	servers map[ch.NodeID]*replication.ExchangeServer
	faults  *c04Faults
}

func (r *c04Router) register(node ch.NodeID, server *replication.ExchangeServer) {
	r.mu.Lock()
	r.servers[node] = server
	r.mu.Unlock()
}

type c04Link struct {
	from   ch.NodeID
	router *c04Router
}

func (l c04Link) Exchange(ctx context.Context, target ch.NodeID, batch replication.ExchangeBatch) (replication.ExchangeBatchResult, error) {
	f := l.router.faults
	lose := false
	if f.on.Load() {
		x := f.roll()
		if x%1000 < f.drop {
			f.nDrop.Add(1)
			return replication.ExchangeBatchResult{}, c04ErrDropped
		}
		x = c04Mix(x)
		lose = x%1000 < f.lose
		x = c04Mix(x)
		if x%1000 < f.delay {
			f.nDlay.Add(1)
			time.Sleep(time.Duration(30+x%1200) * time.Microsecond)
		}
	}
	l.router.mu.RLock()
	server := l.router.servers[target]
	l.router.mu.RUnlock()
	if server == nil {
		return replication.ExchangeBatchResult{}, ch.ErrNotReady
	}
	result, err := server.Handle(ctx, l.from, batch)
	if lose {
		f.nLose.Add(1)
		return replication.ExchangeBatchResult{}, c04ErrLostResp
	}
	return result, err
}

type c04Node struct {
	factory *channelstore.MemoryFactory
	store   replication.ReplicaStore
	rt      *replication.Runtime
}

type c04Cluster struct {
	router *c04Router
	faults *c04Faults
	nodes  map[ch.NodeID]*c04Node
}

const c04LeaderNode ch.NodeID = 1

var c04AllNodes = []ch.NodeID{1, 2, 3}

func c04NewCluster(faults *c04Faults) (*c04Cluster, error) {
	return c04NewClusterN(faults, 64)
}

func c04NewClusterN(faults *c04Faults, maxChannels int) (*c04Cluster, error) {
	c := &c04Cluster{router: &c04Router{servers: map[ch.NodeID]*replication.ExchangeServer{}, faults: faults}, faults: faults, nodes: map[ch.NodeID]*c04Node{}}
	for _, node := range c04AllNodes {
		factory := channelstore.NewMemoryFactory()
		store, err := replication.NewStoreAdapter(replication.StoreAdapterConfig{Factory: factory, MaxBatchItems: replication.MaxExchangeBatchItems, MaxBatchBytes: replication.MaxExchangeBatchBytes})
		if err != nil {
			return nil, err
		}
		rt, err := replication.NewRuntime(replication.RuntimeConfig{
			LocalNode: node, Store: store, Link: c04Link{from: node, router: c.router}, Goroutines: goruntimeregistry.New(),
			LocalWorkers: 2, PeerWorkers: 4, PeerTargetFlight: 2, RepairWorkers: 1,
			ReplicaHedgeDelay: time.Millisecond, TrailingFlushInterval: 2 * time.Millisecond,
			ExchangeTimeout: 20 * time.Second, LocalTimeout: 20 * time.Second,
			RecoveryTimeout: 30 * time.Second, CloseTimeout: 30 * time.Second,
			MaxChannels: maxChannels, MaxVoters: 3,
		})
		if err != nil {
			return nil, err
		}
		c.nodes[node] = &c04Node{factory: factory, store: store, rt: rt}
		c.router.register(node, rt.ExchangeServer())
	}
	return c, nil
}

func (c *c04Cluster) closeFollowers() {
	ctx, cancel := context.WithTimeout(context.Background(), 60*time.Second)
	defer cancel()
	for _, node := range c04AllNodes[1:] {
		_ = c.nodes[node].rt.Close(ctx)
	}
}

// c04NewLeaderRuntime makes a fresh leader runtime over the leader's existing
// store (used by the close-race unit, which closes the leader many times).
func (c *c04Cluster) c04NewLeaderRuntime() (*replication.Runtime, error) {
	n := c.nodes[c04LeaderNode]
	rt, err := replication.NewRuntime(replication.RuntimeConfig{
		LocalNode: c04LeaderNode, Store: n.store, Link: c04Link{from: c04LeaderNode, router: c.router}, Goroutines: goruntimeregistry.New(),
		LocalWorkers: 2, PeerWorkers: 4, PeerTargetFlight: 2, RepairWorkers: 1,
		ReplicaHedgeDelay: time.Millisecond, TrailingFlushInterval: 2 * time.Millisecond,
		ExchangeTimeout: 20 * time.Second, LocalTimeout: 20 * time.Second,
		RecoveryTimeout: 30 * time.Second, CloseTimeout: 30 * time.Second,
		MaxChannels: 64, MaxVoters: 3,
	})
	if err != nil {
		return nil, err
	}
	n.rt = rt
	c.router.register(c04LeaderNode, rt.ExchangeServer())
	return rt, nil
}
