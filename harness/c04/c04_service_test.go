//go:build verif

package c04_test

// Unit "service" (level ii): the same property through service.New ->
// reactor -> quorum log on the leader node (service.Config.QuorumLog is the
// leader runtime's Log(), followers are replication runtimes only), driven with
// ApplyMeta sequences (higher / equal / lower metas, write fence set and
// cleared) racing Append traffic.
//
// Unit "closerace": bounded restatement of "admitted appends still reach a
// terminal result" at the quorum-log boundary: after Runtime.Close returned nil
// every Install/Commit that was in flight must return.

import (
	"context"
	"fmt"
	"math/rand/v2"
	"os"
	"runtime"
	"strings"
	"sync"
	"sync/atomic"
	"testing"
	"time"

	ch "github.com/WuKongIM/WuKongIM/pkg/channel"
	"github.com/WuKongIM/WuKongIM/pkg/channel/replication"
	"github.com/WuKongIM/WuKongIM/pkg/channel/service"
	"github.com/WuKongIM/WuKongIM/pkg/verifkit"
)

const (
	c04SvcApply  = 0
	c04SvcAppend = 1
	c04SvcClose  = 2
)

type c04MetaID struct {
	Epoch, LeaderEpoch, Route uint64
}

func (m c04MetaID) cmp(o c04MetaID) int {
	return c04Cmp(replication.AuthorityID{ChannelEpoch: m.Epoch, LeaderTerm: m.LeaderEpoch, FenceVersion: m.Route},
		replication.AuthorityID{ChannelEpoch: o.Epoch, LeaderTerm: o.LeaderEpoch, FenceVersion: o.Route})
}

type c04SvcIn struct {
	Kind   int       `json:"k"`
	Meta   c04MetaID `json:"meta"`
	Fenced bool      `json:"fenced,omitempty"`
	Msg    int       `json:"msg,omitempty"`
	// ExpEpoch/ExpLeaderEpoch are the append's expected epochs (0 = unchecked).
	ExpEpoch       uint64 `json:"exp_epoch,omitempty"`
	ExpLeaderEpoch uint64 `json:"exp_leader_epoch,omitempty"`
}

type c04SvcOut struct {
	OK    bool   `json:"ok"`
	Class string `json:"class"`
	Err   string `json:"err,omitempty"`
	Seq   uint64 `json:"seq,omitempty"`
}

type c04SvcPlanOp struct {
	Kind   int
	Meta   c04MetaID
	Fenced bool
	Msg    int
	// ExpMode: 0 unchecked, 1 live (latest meta whose ApplyMeta returned nil), 2 the planned Meta
	ExpMode int
	Delay   int
}

func c04SvcPlan(rng *rand.Rand) (nAppenders int, closeRace bool, actors [][]c04SvcPlanOp) {
	nAppenders = 1 + rng.IntN(4)
	closeRace = rng.IntN(100) < 15
	total := 24 + rng.IntN(20)
	actors = make([][]c04SvcPlanOp, 1+nAppenders+1)
	type pm struct {
		id     c04MetaID
		fenced bool
	}
	planned := []pm{{id: c04MetaID{1, 1, 1}}}
	max := planned[0]
	msg := 0
	for i := 1; i < total; i++ {
		op := c04SvcPlanOp{}
		if rng.IntN(100) < 25 {
			op.Delay = rng.IntN(300)
		}
		if rng.IntN(100) < 22 {
			op.Kind = c04SvcApply
			op.Delay = 300 + rng.IntN(2200) // spread meta changes over the append traffic
			switch x := rng.IntN(100); {
			case x < 45: // higher, unfenced (clears a fence if one is set)
				id := max.id
				if rng.IntN(5) == 0 {
					id.Epoch++
				} else {
					id.LeaderEpoch++
				}
				id.Route++
				max = pm{id: id}
				planned = append(planned, max)
				op.Meta = id
			case x < 70: // higher, fenced
				id := max.id
				if rng.IntN(10) < 3 {
					id.LeaderEpoch++
				}
				id.Route++
				max = pm{id: id, fenced: true}
				planned = append(planned, max)
				op.Meta, op.Fenced = id, true
			case x < 85: // equal
				op.Meta, op.Fenced = max.id, max.fenced
			default: // lower
				q := planned[rng.IntN(len(planned))]
				op.Meta, op.Fenced = q.id, q.fenced
				if rng.IntN(2) == 0 && op.Meta.Route > 1 {
					op.Meta.Route--
					op.Fenced = false
				}
			}
			actors[0] = append(actors[0], op)
			continue
		}
		op.Kind = c04SvcAppend
		op.Msg = msg
		msg++
		switch x := rng.IntN(100); {
		case x < 40:
			op.ExpMode = 0
		case x < 80:
			op.ExpMode = 1
		default:
			op.ExpMode = 2
			op.Meta = planned[rng.IntN(len(planned))].id
		}
		a := 1 + rng.IntN(nAppenders)
		actors[a] = append(actors[a], op)
	}
	if closeRace {
		actors[len(actors)-1] = append(actors[len(actors)-1], c04SvcPlanOp{Kind: c04SvcClose, Delay: 300 + rng.IntN(8000)})
	}
	return
}

func c04SvcCompact(ops []verifkit.Op) []string {
	out := make([]string, 0, len(ops))
	for _, op := range ops {
		in, o := op.Input.(c04SvcIn), op.Output.(c04SvcOut)
		switch in.Kind {
		case c04SvcApply:
			out = append(out, fmt.Sprintf("[%d,%d] a%d APPLYMETA (%d,%d,%d) fenced=%v -> %s", op.Call, op.Return, op.Client, in.Meta.Epoch, in.Meta.LeaderEpoch, in.Meta.Route, in.Fenced, o.Class))
		case c04SvcAppend:
			out = append(out, fmt.Sprintf("[%d,%d] a%d APPEND msg=%d expected=(%d,%d) -> %s seq=%d", op.Call, op.Return, op.Client, in.Msg, in.ExpEpoch, in.ExpLeaderEpoch, o.Class, o.Seq))
		case c04SvcClose:
			out = append(out, fmt.Sprintf("[%d,%d] a%d CLOSE -> %s", op.Call, op.Return, op.Client, o.Class))
		}
	}
	return out
}

func c04SvcClass(err error) string {
	if err != nil && c04Class(err) == "other" && ch.ErrorMatches(err, ch.ErrChannelNotFound) {
		return "channel_not_found"
	}
	if err != nil && c04Class(err) == "other" && ch.ErrorMatches(err, ch.ErrNotLeader) {
		return "not_leader"
	}
	return c04Class(err)
}

func c04SvcRunCase(r *verifkit.Run, caseIdx int) bool {
	rng := r.Rand(0x5e7, uint64(caseIdx))
	nAppenders, closeRace, plan := c04SvcPlan(rng)
	faults := &c04Faults{seed: rng.Uint64()}
	switch rng.IntN(3) {
	case 0:
		faults.delay = 150
	case 1:
		faults.delay, faults.drop, faults.lose = 250, 20, 20
	case 2:
		faults.delay, faults.drop, faults.lose = 300, 60, 60
	}
	desc := fmt.Sprintf("appenders=%d closeRace=%v faults=%d/%d/%d", nAppenders, closeRace, faults.delay, faults.drop, faults.lose)
	r.BeginCase(caseIdx, desc)
	cluster, err := c04NewCluster(faults)
	if err != nil {
		r.Inconclusive(fmt.Sprintf("case %d: cluster construction failed: %v", caseIdx, err))
		return true
	}
	leader := cluster.nodes[c04LeaderNode]
	svc, err := service.New(service.Config{LocalNode: c04LeaderNode, ReactorCount: 1, Store: leader.factory, QuorumLog: leader.rt.Log()})
	if err != nil {
		r.Inconclusive(fmt.Sprintf("case %d: service.New failed: %v", caseIdx, err))
		return true
	}
	name := fmt.Sprintf("c04s-%d", caseIdx)
	chID := ch.ChannelID{ID: name, Type: 1}
	mkMeta := func(id c04MetaID, fenced bool) ch.Meta {
		m := ch.Meta{Key: ch.ChannelKeyForID(chID), ID: chID, Epoch: id.Epoch, LeaderEpoch: id.LeaderEpoch, RouteGeneration: id.Route,
			Leader: c04LeaderNode, Replicas: []ch.NodeID{1, 2, 3}, ISR: []ch.NodeID{1, 2, 3}, MinISR: 2, Status: ch.StatusActive}
		if fenced {
			m.WriteFence = ch.WriteFence{Token: "c04-fence", Version: id.Route, Reason: ch.WriteFenceReasonLeaderTransfer}
		}
		return m
	}
	rec := verifkit.NewRecorder()
	var liveMu sync.Mutex
	var live *c04MetaID
	// The first meta is applied before traffic starts (channel load + first
	// install); it is part of the recorded history.
	first := c04MetaID{1, 1, 1}
	out0 := rec.Do(0, c04SvcIn{Kind: c04SvcApply, Meta: first}, func() any {
		err := svc.ApplyMeta(mkMeta(first, false))
		o := c04SvcOut{OK: err == nil, Class: c04SvcClass(err)}
		if err != nil {
			o.Err = err.Error()
		}
		return o
	}).(c04SvcOut)
	r.Count("applymeta."+out0.Class, 1)
	if out0.OK {
		live = &first
	}
	faults.on.Store(true)
	var wg sync.WaitGroup
	closeReturned := make(chan struct{})
	for a := range plan {
		if len(plan[a]) == 0 {
			continue
		}
		wg.Add(1)
		go func(a int) {
			defer wg.Done()
			for _, op := range plan[a] {
				if op.Delay > 0 {
					time.Sleep(time.Duration(op.Delay) * time.Microsecond)
				}
				switch op.Kind {
				case c04SvcApply:
					out := rec.Do(a, c04SvcIn{Kind: c04SvcApply, Meta: op.Meta, Fenced: op.Fenced}, func() any {
						err := svc.ApplyMeta(mkMeta(op.Meta, op.Fenced))
						o := c04SvcOut{OK: err == nil, Class: c04SvcClass(err)}
						if err != nil {
							o.Err = err.Error()
						}
						return o
					}).(c04SvcOut)
					r.Count("applymeta."+out.Class, 1)
					if out.OK && !op.Fenced {
						id := op.Meta
						liveMu.Lock()
						live = &id
						liveMu.Unlock()
					}
				case c04SvcAppend:
					in := c04SvcIn{Kind: c04SvcAppend, Msg: op.Msg}
					switch op.ExpMode {
					case 1:
						liveMu.Lock()
						if live != nil {
							in.ExpEpoch, in.ExpLeaderEpoch = live.Epoch, live.LeaderEpoch
						}
						liveMu.Unlock()
					case 2:
						in.ExpEpoch, in.ExpLeaderEpoch = op.Meta.Epoch, op.Meta.LeaderEpoch
					}
					out := rec.Do(a, in, func() any {
						ctx, cancel := context.WithTimeout(context.Background(), 120*time.Second)
						defer cancel()
						res, err := svc.Append(ctx, ch.AppendRequest{ChannelID: chID, CommitMode: ch.CommitModeQuorum,
							ExpectedChannelEpoch: in.ExpEpoch, ExpectedLeaderEpoch: in.ExpLeaderEpoch,
							Message: ch.Message{MessageID: uint64(10_000 + op.Msg), ChannelID: chID.ID, ChannelType: chID.Type, FromUID: "u",
								ClientMsgNo: fmt.Sprintf("m%d", op.Msg), Payload: []byte(fmt.Sprintf("c04s-%d", op.Msg))}})
						o := c04SvcOut{OK: err == nil, Class: c04SvcClass(err), Seq: res.MessageSeq}
						if err != nil {
							o.Err = err.Error()
						}
						return o
					}).(c04SvcOut)
					r.Count("append."+out.Class, 1)
					if !out.OK {
						// rejected appends return in microseconds; back off like a
						// client would so that the traffic spans the meta changes
						time.Sleep(time.Duration(250+op.Msg%7*60) * time.Microsecond)
					}
				case c04SvcClose:
					out := rec.Do(a, c04SvcIn{Kind: c04SvcClose}, func() any {
						err := svc.Close()
						o := c04SvcOut{OK: err == nil, Class: c04SvcClass(err)}
						if err != nil {
							o.Err = err.Error()
						}
						return o
					}).(c04SvcOut)
					r.Count("service_close_race."+out.Class, 1)
					if out.OK {
						close(closeReturned)
					}
				}
			}
		}(a)
	}
	done := make(chan struct{})
	go func() { wg.Wait(); close(done) }()
	select {
	case <-done:
	case <-closeReturned:
		select {
		case <-done:
		case <-time.After(c04Grace()):
			buf := make([]byte, 2<<20)
			buf = buf[:runtime.Stack(buf, true)]
			r.Violation("call-not-terminal-after-service-close-returned", map[string]any{"case": caseIdx, "desc": desc, "completed_history": c04SvcCompact(rec.Ops()), "goroutines": c04Trim(string(buf), 60000)})
			return false
		}
	}
	faults.on.Store(false)
	if !closeRace {
		if err := svc.Close(); err != nil {
			r.Count("service_close_error", 1)
		}
	}
	cctx, ccancel := context.WithTimeout(context.Background(), 90*time.Second)
	if err := leader.rt.Close(cctx); err != nil {
		r.Count("runtime_close_error", 1)
	}
	ccancel()
	cluster.closeFollowers()
	c04SvcJudge(r, caseIdx, desc, nAppenders, closeRace, rec.Ops())
	return true
}

func c04SvcJudge(r *verifkit.Run, caseIdx int, desc string, nAppenders int, closeRace bool, ops []verifkit.Op) {
	r.Eval(len(ops))
	r.Max("max_history_len", len(ops))
	hist := c04SvcCompact(ops)
	if os.Getenv("C04_DEBUG") != "" && caseIdx < 4 {
		fmt.Fprintf(os.Stderr, "C04SVC case %d %s\n  %s\n", caseIdx, desc, strings.Join(hist, "\n  "))
	}
	viol := func(sig string, detail map[string]any) {
		detail["case"] = caseIdx
		detail["desc"] = desc
		detail["history"] = hist
		r.Violation(sig, detail)
	}
	type apply struct {
		op       verifkit.Op
		in       c04SvcIn
		out      c04SvcOut
		accepted bool
	}
	var applies []apply
	for _, op := range ops {
		in, out := op.Input.(c04SvcIn), op.Output.(c04SvcOut)
		if in.Kind == c04SvcApply {
			// A fenced meta is reported back as ErrWriteFenced by the quorum log
			// (the channel is fenced to it), an unfenced one as nil.
			applies = append(applies, apply{op, in, out, out.OK || (in.Fenced && out.Class == "write_fenced")})
		}
	}
	acked, fencedRejected, staleRejected, toggles, overlap, staleApplyRejected := 0, 0, 0, 0, 0, 0
	for _, op := range ops {
		in, out := op.Input.(c04SvcIn), op.Output.(c04SvcOut)
		switch in.Kind {
		case c04SvcApply:
			accepted := out.OK || (in.Fenced && out.Class == "write_fenced")
			for _, x := range applies {
				if !x.accepted || x.op.Return >= op.Call {
					continue
				}
				// The channel state machine orders metas by (Epoch, LeaderEpoch);
				// RouteGeneration is "not part of the Channel state machine"
				// (ch.Meta doc) and only reaches the quorum log as fence version.
				older := in.Meta.Epoch < x.in.Meta.Epoch || (in.Meta.Epoch == x.in.Meta.Epoch && in.Meta.LeaderEpoch < x.in.Meta.LeaderEpoch)
				if older {
					if accepted {
						viol("older-meta-applied-after-newer", map[string]any{"newer": x.op, "older": op})
					} else {
						staleApplyRejected++
					}
					break
				}
				if in.Meta.cmp(x.in.Meta) < 0 && accepted {
					// Observed on the unchanged tree: re-applying the last successfully
					// installed authority short-circuits in the reactor even though a
					// higher (fenced) route generation was applied meanwhile. Appends
					// are then still refused by the quorum log (checked by the fence
					// window rule below), so this is evidence, not a violation.
					r.Count("lower_route_generation_meta_accepted_by_reactor", 1)
					break
				}
			}
		case c04SvcAppend:
			for _, x := range applies {
				if x.op.Call < op.Return && x.op.Return > op.Call {
					overlap++
					break
				}
			}
			// inside a fence window? (fenced meta accepted before the call, and no
			// higher unfenced ApplyMeta even started before the append returned)
			var fence *apply
			for i := range applies {
				x := &applies[i]
				if !x.accepted || !x.in.Fenced || x.op.Return >= op.Call {
					continue
				}
				cleared := false
				for _, u := range applies {
					if !u.in.Fenced && u.in.Meta.cmp(x.in.Meta) > 0 && u.op.Call < op.Return {
						cleared = true
						break
					}
				}
				if !cleared {
					fence = x
					break
				}
			}
			// deposed expectation? (a meta with higher (epoch, leader epoch) was applied before the call)
			var newer *apply
			if in.ExpEpoch != 0 && in.ExpLeaderEpoch != 0 {
				for i := range applies {
					x := &applies[i]
					if x.out.OK && x.op.Return < op.Call &&
						(x.in.Meta.Epoch > in.ExpEpoch || (x.in.Meta.Epoch == in.ExpEpoch && x.in.Meta.LeaderEpoch > in.ExpLeaderEpoch)) {
						newer = x
						break
					}
				}
			}
			if !out.OK {
				if fence != nil {
					fencedRejected++
					r.Count("fenced_append_rejected_as."+out.Class, 1)
				}
				if newer != nil {
					staleRejected++
				}
				continue
			}
			acked++
			if out.Seq == 0 {
				viol("append-acknowledged-without-sequence", map[string]any{"append": op})
			}
			if fence != nil {
				viol("append-acknowledged-while-write-fenced", map[string]any{"fence": fence.op, "append": op})
			}
			if newer != nil {
				viol("append-acknowledged-under-deposed-epoch", map[string]any{"newer_meta": newer.op, "append": op})
			}
			// toggle evidence: acked after some fence had been accepted earlier
			for _, x := range applies {
				if x.accepted && x.in.Fenced && x.op.Return < op.Call {
					toggles++
					break
				}
			}
		}
	}
	r.Count("appends_acknowledged", acked)
	r.Count("appends_rejected_inside_fence_window", fencedRejected)
	r.Count("appends_rejected_deposed_epoch", staleRejected)
	r.Count("appends_acknowledged_after_fence_cleared", toggles)
	r.Count("append_overlapping_applymeta", overlap)
	r.Count("stale_applymeta_rejected", staleApplyRejected)
	if acked > 0 && fencedRejected > 0 && toggles > 0 {
		b := func(n int) int {
			switch {
			case n == 0:
				return 0
			case n < 3:
				return 1
			case n < 8:
				return 2
			}
			return 3
		}
		r.Nontrivial(fmt.Sprintf("ap%d close%v ack%d fr%d sr%d tg%d ov%d sa%d len%d", nAppenders, closeRace, b(acked), b(fencedRejected), b(staleRejected), b(toggles), b(overlap), b(staleApplyRejected), len(ops)/4))
		if r.WantSample() {
			r.Sample(map[string]any{"case": caseIdx, "desc": desc, "history": hist})
		}
	}
}

func TestVerifC04Service(t *testing.T) {
	r := verifkit.Start(t, "C04", "service")
	defer r.Finish()
	r.SetRule("Each case is one ApplyMeta/Append call-return history (24-43 planned calls) on one channel of a leader service (service.New with Config.QuorumLog = the leader replication runtime's log; two follower replication runtimes): one goroutine applies higher-unfenced, higher-fenced, equal and lower metas; 1-4 goroutines append with unchecked, live or stale expected epochs; link delay/drop/lost-response faults; 15% of cases close the service while calls are in flight. Non-trivial = history with >=1 acknowledged append, >=1 append rejected inside a fence window, and >=1 append acknowledged after a fence was cleared by a higher unfenced meta; distinct by abstract shape.")
	r.Assume("ApplyMeta of a fenced meta that returns nil or ErrWriteFenced has applied the fence; the window closes as soon as an ApplyMeta with a higher unfenced meta has been called.")
	n := r.N(130, 800)
	for i := 0; i < n; i++ {
		if r.Skip(i) {
			continue
		}
		i := i
		cont := true
		if !verifkit.Watchdog(5*time.Minute, func() { cont = c04SvcRunCase(r, i) }) {
			r.Inconclusive(fmt.Sprintf("case %d: watchdog expired (history did not finish in 5 min)", i))
			buf := make([]byte, 2<<20)
			buf = buf[:runtime.Stack(buf, true)]
			fmt.Fprintf(os.Stderr, "C04 service WATCHDOG goroutine dump:\n%s\n", buf)
			return
		}
		if !cont {
			return
		}
	}
}

// ---------------------------------------------------------------------------
// close race at the quorum-log boundary

func TestVerifC04CloseRace(t *testing.T) {
	r := verifkit.Start(t, "C04", "closerace")
	defer r.Finish()
	r.SetRule("Each case creates a fresh leader runtime (followers persist), lets 6 goroutines loop Install(higher authority)+2 Commits on their own channels (calls keep being started until Close has returned), closes the runtime after a seeded 0.2-2.5 ms delay and, once Runtime.Close has returned nil, requires every in-flight Install/Commit to return within the grace period. Every case is non-trivial if at least one call overlapped Close; distinct by (goroutines that had a call overlapping Close, bucketed calls completed).")
	r.Assume("Runtime.Close returning nil means all accepted work was joined (its doc comment); a call still blocked 45 s later (no fault injection in this unit) is stranded, not slow.")
	faults := &c04Faults{}
	cluster, err := c04NewCluster(faults)
	if err != nil {
		r.Inconclusive("cluster construction failed: " + err.Error())
		return
	}
	// the leader runtime created by c04NewCluster is replaced per case
	cctx, ccancel := context.WithTimeout(context.Background(), 60*time.Second)
	_ = cluster.nodes[c04LeaderNode].rt.Close(cctx)
	ccancel()
	defer cluster.closeFollowers()
	n := r.N(200, 1200)
	workers := 6
	if v := os.Getenv("C04_CR_WORKERS"); v != "" {
		fmt.Sscan(v, &workers)
	}
	var tNew, tClose, tWait time.Duration
	defer func() {
		r.Note("closerace_time_ms", map[string]int64{"new_runtime": tNew.Milliseconds(), "close": tClose.Milliseconds(), "wait": tWait.Milliseconds()})
	}()
	for i := 0; i < n; i++ {
		if r.Skip(i) {
			continue
		}
		rng := r.Rand(0xc105e, uint64(i))
		delay := time.Duration(200+rng.IntN(2300)) * time.Microsecond
		r.BeginCase(i, fmt.Sprintf("close after %v", delay))
		t0 := time.Now()
		rt, err := cluster.c04NewLeaderRuntime()
		tNew += time.Since(t0)
		if err != nil {
			r.Inconclusive(fmt.Sprintf("case %d: leader runtime construction failed: %v", i, err))
			return
		}
		log := rt.Log()
		var wg sync.WaitGroup
		var stop atomic.Bool
		var calls, overlapping atomic.Int64
		var closing atomic.Bool
		for g := 0; g < workers; g++ {
			wg.Add(1)
			go func(g int) {
				defer wg.Done()
				name := fmt.Sprintf("c04c-%d-%d", i, g)
				key, chID := ch.ChannelKey("1:"+name), ch.ChannelID{ID: name, Type: 1}
				sawClose := false
				for k := 0; k < 400 && !stop.Load(); k++ {
					id := replication.AuthorityID{ChannelEpoch: 1, LeaderTerm: uint64(k + 1), FenceVersion: uint64(k + 1)}
					before := closing.Load()
					_, err := log.Install(context.Background(), c04Authority(key, chID, c04Spec{ID: id}))
					calls.Add(1)
					if !before && closing.Load() && !sawClose {
						sawClose = true
						overlapping.Add(1)
					}
					if err != nil {
						continue
					}
					for c := 0; c < 2 && !stop.Load(); c++ {
						before := closing.Load()
						_, _ = log.Commit(context.Background(), replication.Proposal{Key: key, Expected: id, CommandID: c04CommandID(i, g*1000+k*2+c), Records: c04Records(g*100000+k*2+c, 1)})
						calls.Add(1)
						if !before && closing.Load() && !sawClose {
							sawClose = true
							overlapping.Add(1)
						}
					}
				}
			}(g)
		}
		time.Sleep(delay)
		closing.Store(true)
		t1 := time.Now()
		cctx, ccancel := context.WithTimeout(context.Background(), 90*time.Second)
		err = rt.Close(cctx)
		ccancel()
		tClose += time.Since(t1)
		stop.Store(true)
		if err != nil {
			r.Count("close_error", 1)
			r.Inconclusive(fmt.Sprintf("case %d: Runtime.Close failed: %v", i, err))
			return
		}
		t2 := time.Now()
		done := make(chan struct{})
		go func() { wg.Wait(); close(done) }()
		select {
		case <-done:
			tWait += time.Since(t2)
		case <-time.After(c04Grace()):
			buf := make([]byte, 2<<20)
			buf = buf[:runtime.Stack(buf, true)]
			r.Violation("call-not-terminal-after-runtime-close-returned", map[string]any{"case": i, "close_delay": delay.String(), "stuck_in": c04StuckFrames(string(buf)), "calls_completed": calls.Load(), "goroutines": c04Trim(string(buf), 60000)})
			return
		}
		r.Eval(1)
		r.Count("calls_completed", int(calls.Load()))
		if ov := overlapping.Load(); ov > 0 {
			r.Count("cases_with_call_overlapping_close", 1)
			r.Nontrivial(fmt.Sprintf("ov%d calls%d", ov, calls.Load()/8))
		}
	}
}
