//go:build verif

package c04_test

// C04 — A deposed or fenced authority cannot acknowledge appends.
//
// Unit "quorumlog" (level i): goroutines call Install/Commit on the real
// DurableQuorumLog of a 3-node in-process cluster with increasing, equal and
// decreasing authorities (lexicographic on epoch, term, fence version), equal
// ids with different voters/quorum/fence, fenced authorities, and commits whose
// Expected authority is current, stale, future or fenced. Every call/return is
// recorded on a logical clock; the oracle uses happens-before on those
// timestamps only (overlapping calls are unconstrained).

import (
	"context"
	"errors"
	"fmt"
	"math/rand/v2"
	"os"
	"runtime"
	"sort"
	"strings"
	"sync"
	"sync/atomic"
	"testing"
	"time"

	ch "github.com/WuKongIM/WuKongIM/pkg/channel"
	"github.com/WuKongIM/WuKongIM/pkg/channel/replication"
	"github.com/WuKongIM/WuKongIM/pkg/verifkit"
)

const (
	c04KindInstall = 0
	c04KindCommit  = 1
	c04KindClose   = 2

	c04CfgPlain    = 0 // voters 1,2,3 quorum 2
	c04CfgFenced   = 1 // same, WriteFence set
	c04CfgVoters12 = 2 // voters 1,2 quorum 2
	c04CfgQuorum3  = 3 // voters 1,2,3 quorum 3
)

type c04Spec struct {
	ID  replication.AuthorityID `json:"id"`
	Cfg int                     `json:"cfg"`
}

func c04Cmp(a, b replication.AuthorityID) int {
	for _, p := range [][2]uint64{{a.ChannelEpoch, b.ChannelEpoch}, {a.LeaderTerm, b.LeaderTerm}, {a.FenceVersion, b.FenceVersion}} {
		if p[0] < p[1] {
			return -1
		}
		if p[0] > p[1] {
			return 1
		}
	}
	return 0
}

func c04Authority(key ch.ChannelKey, id ch.ChannelID, s c04Spec) replication.Authority {
	a := replication.Authority{Key: key, ChannelID: id, ID: s.ID, Leader: c04LeaderNode, Voters: []ch.NodeID{1, 2, 3}, WriteQuorum: 2}
	switch s.Cfg {
	case c04CfgFenced:
		a.WriteFence = ch.WriteFence{Token: "c04-fence", Version: s.ID.FenceVersion, Reason: ch.WriteFenceReasonLeaderTransfer}
	case c04CfgVoters12:
		a.Voters = []ch.NodeID{1, 2}
	case c04CfgQuorum3:
		a.WriteQuorum = 3
	}
	return a
}

type c04In struct {
	Kind int     `json:"k"`
	Spec c04Spec `json:"spec"`
	Cmd  int     `json:"cmd,omitempty"`
}

type c04Out struct {
	OK      bool                    `json:"ok"`
	Class   string                  `json:"class"`
	Err     string                  `json:"err,omitempty"`
	RcAuth  replication.AuthorityID `json:"rc_auth"`
	RcCmdOK bool                    `json:"rc_cmd_ok,omitempty"`
	First   uint64                  `json:"first,omitempty"`
	Last    uint64                  `json:"last,omitempty"`
	LEO     uint64                  `json:"leo,omitempty"`
}

func c04Class(err error) string {
	switch {
	case err == nil:
		return "ok"
	case errors.Is(err, ch.ErrStaleMeta):
		return "stale_meta"
	case errors.Is(err, ch.ErrWriteFenced):
		return "write_fenced"
	case errors.Is(err, ch.ErrNotReady):
		return "not_ready"
	case errors.Is(err, ch.ErrLogConflict):
		return "log_conflict"
	case errors.Is(err, ch.ErrBackpressured):
		return "backpressured"
	case errors.Is(err, ch.ErrInvalidConfig):
		return "invalid_config"
	case errors.Is(err, ch.ErrClosed):
		return "closed"
	case errors.Is(err, context.DeadlineExceeded):
		return "ctx_deadline"
	case errors.Is(err, context.Canceled):
		return "ctx_canceled"
	case strings.Contains(err.Error(), "durable quorum unavailable"):
		return "quorum_unavailable"
	case strings.Contains(err.Error(), "recovery"):
		return "recovery_unavailable"
	}
	return "other"
}

type c04PlanOp struct {
	Kind int
	// Live: the committer uses the authority of the latest Install it has seen
	// return success (read at call time) instead of Spec.
	Live      bool
	Spec      c04Spec
	Cmd       int
	Delay     int
	CtxMicros int
}

type c04Params struct {
	nInstallers, nCommitters, total int
	closeRace                       bool
}

// c04Plan builds the per-actor operation lists. Authorities are drawn around a
// moving maximum so that increasing, equal and decreasing installs and current,
// stale, future and fenced commit expectations all occur.
func c04Plan(rng *rand.Rand) (c04Params, [][]c04PlanOp) {
	p := c04Params{nInstallers: 1 + rng.IntN(2), nCommitters: 1 + rng.IntN(4), total: 24 + rng.IntN(20), closeRace: rng.IntN(10) < 1}
	if os.Getenv("C04_CLOSE_ALWAYS") != "" {
		p.closeRace = true
	}
	actors := make([][]c04PlanOp, p.nInstallers+p.nCommitters+1)
	planned := []c04Spec{{ID: replication.AuthorityID{ChannelEpoch: 1, LeaderTerm: 1, FenceVersion: 1}}}
	primary := map[replication.AuthorityID]int{planned[0].ID: c04CfgPlain}
	max := planned[0].ID
	actors[0] = append(actors[0], c04PlanOp{Kind: c04KindInstall, Spec: planned[0]})
	cmd := 0
	for i := 1; i < p.total; i++ {
		op := c04PlanOp{}
		if rng.IntN(100) < 25 {
			op.Delay = rng.IntN(300)
		}
		if rng.IntN(100) < 35 { // install
			op.Kind = c04KindInstall
			x := rng.IntN(100)
			switch {
			case x < 55: // strictly higher
				id := max
				switch y := rng.IntN(100); {
				case y < 50:
					id.LeaderTerm++
					id.FenceVersion++
				case y < 65:
					id.FenceVersion++
				case y < 80:
					id.LeaderTerm++
				default:
					id.ChannelEpoch++
					if rng.IntN(2) == 0 {
						id.LeaderTerm = 1 + uint64(rng.IntN(2))
					}
				}
				cfg := c04CfgPlain
				if rng.IntN(100) < 28 {
					cfg = c04CfgFenced
				}
				primary[id] = cfg
				op.Spec = c04Spec{ID: id, Cfg: cfg}
				planned = append(planned, op.Spec)
				max = id
			case x < 72: // equal to something already planned (usually the maximum)
				s := planned[len(planned)-1]
				if rng.IntN(3) == 0 {
					s = planned[rng.IntN(len(planned))]
				}
				op.Spec = s
			case x < 88: // lower
				op.Spec = planned[rng.IntN(len(planned))]
				if rng.IntN(2) == 0 && op.Spec.ID.FenceVersion > 1 {
					op.Spec.ID.FenceVersion-- // an id that was possibly never planned
					if c, ok := primary[op.Spec.ID]; ok {
						op.Spec.Cfg = c
					} else {
						op.Spec.Cfg = c04CfgPlain
					}
				}
			default: // equal id, different configuration
				s := planned[len(planned)-1]
				s.Cfg = (s.Cfg + 1 + rng.IntN(3)) % 4
				op.Spec = s
			}
			ia := rng.IntN(p.nInstallers)
			actors[ia] = append(actors[ia], op)
			continue
		}
		op.Kind = c04KindCommit
		op.Cmd = cmd
		cmd++
		switch x := rng.IntN(100); {
		case x < 45:
			op.Live = true
			op.Spec = c04Spec{ID: max}
		case x < 60:
			op.Spec = c04Spec{ID: max}
		case x < 75:
			op.Spec = planned[len(planned)-1]
		case x < 92:
			op.Spec = planned[rng.IntN(len(planned))]
		default: // an authority above everything planned so far
			id := max
			id.LeaderTerm++
			op.Spec = c04Spec{ID: id}
		}
		if rng.IntN(100) < 6 {
			op.CtxMicros = 100 + rng.IntN(2000)
		}
		a := p.nInstallers + rng.IntN(p.nCommitters)
		actors[a] = append(actors[a], op)
	}
	if p.closeRace {
		actors[len(actors)-1] = append(actors[len(actors)-1], c04PlanOp{Kind: c04KindClose, Delay: 200 + rng.IntN(6000)})
	}
	return p, actors
}

func c04Records(cmd int, epoch uint64) []ch.Record {
	payload := []byte(fmt.Sprintf("c04-%d", cmd))
	return []ch.Record{{ID: uint64(1000 + cmd), Epoch: epoch, FromUID: "u", ClientMsgNo: fmt.Sprintf("m%d", cmd), ServerTimestampMS: int64(1_700_000_000_000 + cmd), Payload: payload, SizeBytes: len(payload)}}
}

func c04CommandID(caseIdx, cmd int) ch.CommandID {
	var id ch.CommandID
	id[0] = 0xC4
	id[1] = byte(caseIdx >> 16)
	id[2] = byte(caseIdx >> 8)
	id[3] = byte(caseIdx)
	id[29] = byte(cmd >> 8)
	id[30] = byte(cmd)
	id[31] = 1
	return id
}

func c04Compact(ops []verifkit.Op) []string {
	out := make([]string, 0, len(ops))
	for _, op := range ops {
		in, o := op.Input.(c04In), op.Output.(c04Out)
		id := in.Spec.ID
		switch in.Kind {
		case c04KindInstall:
			out = append(out, fmt.Sprintf("[%d,%d] a%d INSTALL (%d,%d,%d) cfg=%d -> %s leo=%d", op.Call, op.Return, op.Client, id.ChannelEpoch, id.LeaderTerm, id.FenceVersion, in.Spec.Cfg, o.Class, o.LEO))
		case c04KindCommit:
			out = append(out, fmt.Sprintf("[%d,%d] a%d COMMIT cmd=%d expected=(%d,%d,%d) -> %s rc=(%d,%d,%d) %d..%d", op.Call, op.Return, op.Client, in.Cmd, id.ChannelEpoch, id.LeaderTerm, id.FenceVersion, o.Class, o.RcAuth.ChannelEpoch, o.RcAuth.LeaderTerm, o.RcAuth.FenceVersion, o.First, o.Last))
		case c04KindClose:
			out = append(out, fmt.Sprintf("[%d,%d] a%d CLOSE -> %s", op.Call, op.Return, op.Client, o.Class))
		}
	}
	return out
}

// c04RunCase returns false if the run must stop (stuck goroutines).
func c04RunCase(r *verifkit.Run, caseIdx int) bool {
	rng := r.Rand(uint64(caseIdx))
	p, plan := c04Plan(rng)
	faults := &c04Faults{seed: rng.Uint64()}
	switch rng.IntN(3) {
	case 0:
		faults.delay = 150
	case 1:
		faults.delay, faults.drop, faults.lose = 250, 30, 30
	case 2:
		faults.delay, faults.drop, faults.lose = 300, 80, 80
	}
	desc := fmt.Sprintf("installers=%d committers=%d ops=%d closeRace=%v faults=%d/%d/%d", p.nInstallers, p.nCommitters, p.total, p.closeRace, faults.delay, faults.drop, faults.lose)
	r.BeginCase(caseIdx, desc)
	cluster, err := c04NewCluster(faults)
	if err != nil {
		r.Inconclusive(fmt.Sprintf("case %d: cluster construction failed: %v", caseIdx, err))
		return true
	}
	name := fmt.Sprintf("c04-%d", caseIdx)
	key, chID := ch.ChannelKey("1:"+name), ch.ChannelID{ID: name, Type: 1}
	leader := cluster.nodes[c04LeaderNode].rt
	log := leader.Log()
	rec := verifkit.NewRecorder()
	faults.on.Store(true)
	var liveMu sync.Mutex
	var live *replication.AuthorityID // latest authority whose Install returned success

	var wg sync.WaitGroup
	closeReturned := make(chan struct{})
	for a := range plan {
		if len(plan[a]) == 0 {
			continue
		}
		wg.Add(1)
		go func(a int) {
			defer wg.Done()
			for _, op := range plan[a] {
				if op.Delay > 0 {
					time.Sleep(time.Duration(op.Delay) * time.Microsecond)
				}
				ctx := context.Background()
				cancel := func() {}
				if op.CtxMicros > 0 {
					ctx, cancel = context.WithTimeout(ctx, time.Duration(op.CtxMicros)*time.Microsecond)
				}
				switch op.Kind {
				case c04KindInstall:
					out := rec.Do(a, c04In{Kind: c04KindInstall, Spec: op.Spec}, func() any {
						inst, err := log.Install(ctx, c04Authority(key, chID, op.Spec))
						o := c04Out{OK: err == nil, Class: c04Class(err), RcAuth: inst.Authority, LEO: inst.LEO}
						if err != nil {
							o.Err = err.Error()
						}
						return o
					}).(c04Out)
					r.Count("install."+out.Class, 1)
					if out.OK {
						id := op.Spec.ID
						liveMu.Lock()
						live = &id
						liveMu.Unlock()
					}
				case c04KindCommit:
					cmdID := c04CommandID(caseIdx, op.Cmd)
					if op.Live {
						liveMu.Lock()
						if live != nil {
							op.Spec = c04Spec{ID: *live}
						}
						liveMu.Unlock()
					}
					out := rec.Do(a, c04In{Kind: c04KindCommit, Spec: op.Spec, Cmd: op.Cmd}, func() any {
						rc, err := log.Commit(ctx, replication.Proposal{Key: key, Expected: op.Spec.ID, CommandID: cmdID, Records: c04Records(op.Cmd, op.Spec.ID.ChannelEpoch)})
						o := c04Out{OK: err == nil, Class: c04Class(err), RcAuth: rc.Authority, RcCmdOK: rc.CommandID == cmdID, First: rc.First, Last: rc.Last}
						if err != nil {
							o.Err = err.Error()
						}
						return o
					}).(c04Out)
					r.Count("commit."+out.Class, 1)
					if !out.OK && out.Class != "quorum_unavailable" {
						// admission rejections return in microseconds; back off so
						// that commits span the installs
						time.Sleep(time.Duration(150+op.Cmd%7*40) * time.Microsecond)
					}
				case c04KindClose:
					out := rec.Do(a, c04In{Kind: c04KindClose}, func() any {
						cctx, ccancel := context.WithTimeout(context.Background(), 90*time.Second)
						defer ccancel()
						err := leader.Close(cctx)
						o := c04Out{OK: err == nil, Class: c04Class(err)}
						if err != nil {
							o.Err = err.Error()
						}
						return o
					}).(c04Out)
					r.Count("close_race."+out.Class, 1)
					if out.OK {
						close(closeReturned)
					}
				}
				cancel()
			}
		}(a)
	}
	done := make(chan struct{})
	go func() { wg.Wait(); close(done) }()
	select {
	case <-done:
	case <-closeReturned:
		// Runtime.Close returned nil: all accepted work is joined, so every
		// Install/Commit that was in flight only needs CPU to return (calls made
		// afterwards are rejected at admission). Bounded restatement of
		// "admitted appends still reach a terminal result": they must return
		// within a grace period that is >1000x the typical call latency.
		select {
		case <-done:
		case <-time.After(c04Grace()):
			buf := make([]byte, 2<<20)
			buf = buf[:runtime.Stack(buf, true)]
			stuck := c04StuckFrames(string(buf))
			if os.Getenv("C04_CLOSE_ALWAYS") == "" {
				// Registered unit: Runtime.Close is outside C04's quantifier
				// (Install/Commit/fence interleavings) and this verdict needs a
				// wall-clock grace period, so the stranded call is recorded as an
				// observation (DESIGN 11.3) and the case is abandoned unjudged.
				r.Count("observation.call_not_terminal_after_runtime_close_returned", 1)
				r.Note(fmt.Sprintf("observation.close_strand.case%d", caseIdx), fmt.Sprintf("call stranded after Runtime.Close returned (stuck in %v); observation only, not part of C04", stuck))
				return true
			}
			r.Violation("call-not-terminal-after-runtime-close-returned", map[string]any{"case": caseIdx, "desc": desc, "stuck_in": stuck, "completed_history": c04Compact(rec.Ops()), "goroutines": c04Trim(string(buf), 60000)})
			return false
		}
	}
	faults.on.Store(false)
	if !p.closeRace {
		cctx, ccancel := context.WithTimeout(context.Background(), 90*time.Second)
		if err := leader.Close(cctx); err != nil {
			r.Count("close_error", 1)
		}
		ccancel()
	}
	cluster.closeFollowers()
	r.Count("faults.drop", int(faults.nDrop.Load()))
	r.Count("faults.lost_response", int(faults.nLose.Load()))
	r.Count("faults.delay", int(faults.nDlay.Load()))
	c04Judge(r, caseIdx, desc, p, rec.Ops())
	return true
}

func c04Grace() time.Duration {
	if v := os.Getenv("C04_GRACE_S"); v != "" {
		if d, err := time.ParseDuration(v + "s"); err == nil {
			return d
		}
	}
	return 45 * time.Second
}

func c04Trim(s string, n int) string {
	if len(s) > n {
		return s[:n] + "\n...[truncated]"
	}
	return s
}

// c04StuckFrames names the replication frames in which goroutines are parked.
func c04StuckFrames(dump string) []string {
	seen := map[string]bool{}
	var out []string
	for _, block := range strings.Split(dump, "\n\n") {
		if !strings.Contains(block, "zz_verif_c04") {
			continue
		}
		for _, line := range strings.Split(block, "\n") {
			if strings.HasPrefix(line, "github.com/WuKongIM/WuKongIM/pkg/channel/replication.") {
				fn := line
				if i := strings.Index(fn, "("); i > 0 {
					fn = fn[:i]
				}
				if !seen[fn] {
					seen[fn] = true
					out = append(out, fn)
				}
				break
			}
		}
	}
	sort.Strings(out)
	return out
}

func c04Judge(r *verifkit.Run, caseIdx int, desc string, p c04Params, ops []verifkit.Op) {
	r.Eval(len(ops))
	r.Max("max_history_len", len(ops))
	hist := c04Compact(ops)
	viol := func(sig string, detail map[string]any) {
		detail["case"] = caseIdx
		detail["desc"] = desc
		detail["history"] = hist
		r.Violation(sig, detail)
	}
	type inst struct {
		op       verifkit.Op
		in       c04In
		out      c04Out
		accepted bool // returned success, or ErrWriteFenced (the fenced authority took hold)
	}
	var installs []inst
	for _, op := range ops {
		in, out := op.Input.(c04In), op.Output.(c04Out)
		if in.Kind == c04KindInstall {
			installs = append(installs, inst{op, in, out, out.OK || (out.Class == "write_fenced" && in.Spec.Cfg == c04CfgFenced)})
		}
	}
	overlap, staleRejected, staleInstallRejected, fenceToggles, conflictRejected := 0, 0, 0, 0, 0

	// accepted installs of one id must agree on the whole configuration
	byID := map[replication.AuthorityID]inst{}
	for _, x := range installs {
		if !x.accepted {
			continue
		}
		if prev, ok := byID[x.in.Spec.ID]; ok && prev.in.Spec.Cfg != x.in.Spec.Cfg {
			viol("same-authority-id-accepted-with-different-configuration", map[string]any{"first": prev.op, "second": x.op})
		} else if !ok {
			byID[x.in.Spec.ID] = x
		}
		if x.out.OK && x.out.RcAuth != x.in.Spec.ID {
			viol("install-result-authority-mismatch", map[string]any{"op": x.op})
		}
		if x.out.OK && x.in.Spec.Cfg == c04CfgFenced {
			r.Count("fenced_authority_install_returned_ok", 1)
		}
	}
	for _, x := range installs {
		if !x.accepted && x.out.Class == "log_conflict" {
			if prev, ok := byID[x.in.Spec.ID]; ok && prev.in.Spec.Cfg != x.in.Spec.Cfg {
				conflictRejected++
			}
		}
	}
	// fence toggles: fenced authority took hold, later a higher unfenced one installed
	for _, x := range installs {
		if x.accepted && x.in.Spec.Cfg == c04CfgFenced {
			for _, y := range installs {
				if y.out.OK && y.op.Call > x.op.Return && c04Cmp(y.in.Spec.ID, x.in.Spec.ID) > 0 {
					fenceToggles++
					break
				}
			}
		}
	}

	for _, op := range ops {
		in, out := op.Input.(c04In), op.Output.(c04Out)
		switch in.Kind {
		case c04KindInstall:
			accepted := out.OK || (out.Class == "write_fenced" && in.Spec.Cfg == c04CfgFenced)
			for _, x := range installs {
				if !x.accepted || x.op.Return >= op.Call {
					continue
				}
				if c04Cmp(in.Spec.ID, x.in.Spec.ID) < 0 {
					if accepted {
						viol("older-authority-installed-after-newer", map[string]any{"newer_install": x.op, "older_install": op})
					} else {
						staleInstallRejected++
					}
					break
				}
			}
		case c04KindCommit:
			for _, x := range installs {
				if x.op.Call < op.Return && x.op.Return > op.Call {
					overlap++
					break
				}
			}
			var newer *inst
			for i := range installs {
				x := &installs[i]
				if x.accepted && x.op.Return < op.Call && c04Cmp(x.in.Spec.ID, in.Spec.ID) > 0 {
					newer = x
					break
				}
			}
			if !out.OK {
				if newer != nil {
					staleRejected++
					if out.Class != "stale_meta" && out.Class != "not_ready" {
						r.Count("stale_commit_rejected_with_other_class."+out.Class, 1)
					}
				}
				continue
			}
			r.Count("receipts_checked", 1)
			if out.RcAuth != in.Spec.ID {
				viol("receipt-authority-differs-from-expected", map[string]any{"commit": op})
			}
			if !out.RcCmdOK {
				viol("receipt-command-mismatch", map[string]any{"commit": op})
			}
			// deposed: a newer authority had been accepted before this commit was called
			for i := range installs {
				x := &installs[i]
				if x.accepted && x.op.Return < op.Call && c04Cmp(x.in.Spec.ID, out.RcAuth) > 0 {
					viol("deposed-authority-acknowledged-append", map[string]any{"newer_install": x.op, "commit": op})
					break
				}
			}
			// fenced: the receipt's authority is one whose accepted configuration has the write fence set
			if x, ok := byID[out.RcAuth]; ok && x.in.Spec.Cfg == c04CfgFenced {
				viol("append-acknowledged-under-write-fenced-authority", map[string]any{"fenced_install": x.op, "commit": op})
			}
			// the receipt's authority must have been installed successfully by a call that started before the receipt was returned
			installed := false
			for _, x := range installs {
				if x.out.OK && x.in.Spec.ID == out.RcAuth && x.op.Call < op.Return {
					installed = true
					break
				}
			}
			if !installed {
				viol("append-acknowledged-under-never-installed-authority", map[string]any{"commit": op})
			}
		}
	}
	r.Count("commit_overlapping_install", overlap)
	r.Count("stale_commit_rejected", staleRejected)
	r.Count("stale_install_rejected", staleInstallRejected)
	r.Count("fence_toggles", fenceToggles)
	r.Count("same_id_other_config_rejected", conflictRejected)
	if overlap > 0 && staleRejected > 0 && fenceToggles > 0 {
		b := func(n int) int {
			switch {
			case n == 0:
				return 0
			case n < 3:
				return 1
			case n < 8:
				return 2
			}
			return 3
		}
		r.Nontrivial(fmt.Sprintf("i%d c%d close%v ov%d st%d si%d ft%d cf%d len%d", p.nInstallers, p.nCommitters, p.closeRace, b(overlap), b(staleRejected), b(staleInstallRejected), b(fenceToggles), b(conflictRejected), len(ops)/4))
		if r.WantSample() {
			r.Sample(map[string]any{"case": caseIdx, "desc": desc, "history": hist})
		}
	}
}

func TestVerifC04QuorumLog(t *testing.T) {
	r := verifkit.Start(t, "C04", "quorumlog")
	defer r.Finish()
	r.SetRule("Each case is one call/return history (24-43 planned calls) on one channel of the real DurableQuorumLog of a 3-node in-process cluster: 1-2 installer goroutines issue Install with strictly higher (term+fence, fence only, term only, epoch), equal, lower and equal-id-different-configuration authorities (28% of new authorities carry a write fence); 1-4 committer goroutines issue Commit with Expected = current maximum, latest planned, random earlier, or not-yet-installed authority; link delay/drop/lost-response faults; 10% of cases close the runtime while calls are in flight. Second family (cold-key install race): 600 (thorough 4000) fresh channel keys; per key 2-4 gated goroutines issue the first Installs simultaneously with different increasing authorities, then Commit(Expected=A) for every authority used, sequentially and concurrently. Non-trivial = history with >=1 commit overlapping an install in time, >=1 commit under an authority older than an already accepted install (rejected), and >=1 fence toggle (fenced authority accepted, later a higher unfenced one installed); distinct by abstract shape (actors, close race, bucketed counts).")
	r.Assume("An Install that returns ErrWriteFenced for a fenced authority counts as 'installed under a newer authority' (quorumLog fences the channel to it before returning); Installs that fail with any other error are not used as premises.")
	r.Assume("All accepted Installs of one authority id carry the same configuration on one runtime, so fencedness of an id is time-independent.")
	n := r.N(240, 1500)
	for i := 0; i < n; i++ {
		if r.Skip(i) {
			continue
		}
		i := i
		cont := true
		if !verifkit.Watchdog(5*time.Minute, func() { cont = c04RunCase(r, i) }) {
			r.Inconclusive(fmt.Sprintf("case %d: watchdog expired (history did not finish in 5 min)", i))
			buf := make([]byte, 2<<20)
			buf = buf[:runtime.Stack(buf, true)]
			fmt.Fprintf(os.Stderr, "C04 WATCHDOG goroutine dump:\n%s\n", buf)
			return
		}
		if !cont {
			return
		}
	}
	c04ColdKeyFamily(r)
}

// c04ColdKeyFamily: "cold-key install race". For many FRESH channel keys (never
// installed in that runtime) 2-4 goroutines released by one gate issue the
// first Installs of the key simultaneously with different increasing
// authorities; after all installs returned, Commit(Expected=A) is issued for
// every authority used, first sequentially, then concurrently. The ordinary
// happens-before oracle (c04Judge) applies to each key's history; additionally,
// if the highest authority attempted for the key was installed successfully,
// a Commit expecting it that starts after all installs returned must not be
// answered with a stale-meta class (nothing newer can be installed).
func c04ColdKeyFamily(r *verifkit.Run) {
	if runtime.GOMAXPROCS(0) < 8 {
		defer runtime.GOMAXPROCS(runtime.GOMAXPROCS(8))
	}
	r.Count("coldkey.gomaxprocs", runtime.GOMAXPROCS(0))
	keys := r.N(600, 4000)
	const perCluster = 200
	var cluster *c04Cluster
	closeCluster := func() {
		if cluster == nil {
			return
		}
		cctx, ccancel := context.WithTimeout(context.Background(), 90*time.Second)
		_ = cluster.nodes[c04LeaderNode].rt.Close(cctx)
		ccancel()
		cluster.closeFollowers()
		cluster = nil
	}
	defer closeCluster()
	for k := 0; k < keys; k++ {
		caseIdx := 100000 + k
		if r.Skip(caseIdx) {
			continue
		}
		if cluster == nil || k%perCluster == 0 {
			closeCluster()
			var err error
			cluster, err = c04NewClusterN(&c04Faults{}, perCluster+8)
			if err != nil {
				r.Inconclusive("coldkey: cluster construction failed: " + err.Error())
				return
			}
		}
		rng := r.Rand(0xc01d, uint64(k))
		n := 2 + rng.IntN(3)
		desc := fmt.Sprintf("coldkey racers=%d", n)
		r.BeginCase(caseIdx, desc)
		log := cluster.nodes[c04LeaderNode].rt.Log()
		name := fmt.Sprintf("c04k-%d", k)
		key, chID := ch.ChannelKey("1:"+name), ch.ChannelID{ID: name, Type: 1}
		rec := verifkit.NewRecorder()
		ids := make([]replication.AuthorityID, n)
		for i := range ids {
			ids[i] = replication.AuthorityID{ChannelEpoch: 1, LeaderTerm: uint64(i + 1), FenceVersion: uint64(i + 1)}
		}
		rng.Shuffle(n, func(i, j int) { ids[i], ids[j] = ids[j], ids[i] })
		var ready, gate atomic.Int32
		var wg sync.WaitGroup
		for g := 0; g < n; g++ {
			wg.Add(1)
			go func(g int) {
				defer wg.Done()
				spec := c04Spec{ID: ids[g]}
				auth := c04Authority(key, chID, spec)
				ready.Add(1)
				for gate.Load() == 0 {
				}
				out := rec.Do(g, c04In{Kind: c04KindInstall, Spec: spec}, func() any {
					inst, err := log.Install(context.Background(), auth)
					o := c04Out{OK: err == nil, Class: c04Class(err), RcAuth: inst.Authority, LEO: inst.LEO}
					if err != nil {
						o.Err = err.Error()
					}
					return o
				}).(c04Out)
				r.Count("coldkey.install."+out.Class, 1)
			}(g)
		}
		for int(ready.Load()) < n {
			runtime.Gosched()
		}
		gate.Store(1)
		wg.Wait()
		cmd := 0
		commit := func(client int, id replication.AuthorityID, c int) {
			cmdID := c04CommandID(caseIdx, c)
			out := rec.Do(client, c04In{Kind: c04KindCommit, Spec: c04Spec{ID: id}, Cmd: c}, func() any {
				rc, err := log.Commit(context.Background(), replication.Proposal{Key: key, Expected: id, CommandID: cmdID, Records: c04Records(c, id.ChannelEpoch)})
				o := c04Out{OK: err == nil, Class: c04Class(err), RcAuth: rc.Authority, RcCmdOK: rc.CommandID == cmdID, First: rc.First, Last: rc.Last}
				if err != nil {
					o.Err = err.Error()
				}
				return o
			}).(c04Out)
			r.Count("coldkey.commit."+out.Class, 1)
		}
		for _, id := range ids { // sequentially
			commit(0, id, cmd)
			cmd++
		}
		for g, id := range ids { // concurrently
			wg.Add(1)
			go func(g int, id replication.AuthorityID, c int) {
				defer wg.Done()
				commit(g, id, c)
			}(g, id, cmd)
			cmd++
		}
		wg.Wait()
		ops := rec.Ops()
		c04Judge(r, caseIdx, desc, c04Params{}, ops)
		// highest attempted authority installed successfully => it is the
		// installed authority for good (every other attempt is lower)
		var installsEnd int64
		maxOK := false
		maxID := replication.AuthorityID{ChannelEpoch: 1, LeaderTerm: uint64(n), FenceVersion: uint64(n)}
		okInstalls := 0
		for _, op := range ops {
			in, out := op.Input.(c04In), op.Output.(c04Out)
			if in.Kind != c04KindInstall {
				continue
			}
			if op.Return > installsEnd {
				installsEnd = op.Return
			}
			if out.OK {
				okInstalls++
				if in.Spec.ID == maxID {
					maxOK = true
				}
			}
		}
		acked := 0
		for _, op := range ops {
			in, out := op.Input.(c04In), op.Output.(c04Out)
			if in.Kind != c04KindCommit {
				continue
			}
			if out.OK {
				acked++
			}
			if maxOK && in.Spec.ID == maxID && op.Call > installsEnd && out.Class == "stale_meta" {
				r.Violation("installed-authority-reported-stale", map[string]any{"case": caseIdx, "desc": desc, "commit": op, "history": c04Compact(ops)})
			}
		}
		if maxOK {
			r.Count("coldkey.keys_with_max_authority_installed", 1)
		}
		r.Nontrivial(fmt.Sprintf("coldkey n%d ok%d acked%d max%v", n, okInstalls, acked, maxOK))
	}
}
