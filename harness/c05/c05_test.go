//go:build verif

// C05 — An entry identity binds every field of its message.
//
// Metamorphic monitor over the real pkg/quorumlog proposal sealing functions
// and their pkg/channel wrappers.  The statement has two clauses:
//
//	(1) the entry digest changes whenever any semantic field of the message
//	    (id, sender, client message number, setting, sync-once flag, server
//	    timestamp, payload) or its index, authority, command or predecessor
//	    changes;
//	(2) verification accepts a record under an identity exactly when it is the
//	    content that identity was sealed from.
//
// Only those fields are asserted.  Deliberately NOT asserted:
//   - channel.Record.SizeBytes (a batching hint, not in the statement);
//   - Record.Index 0 vs the actual index (0 means "unspecified"; both forms are
//     the same content; only a *wrong* non-zero index is a perturbation);
//   - Record.Epoch as an independent field (the code requires it to equal the
//     manifest ChannelEpoch, so it moves together with the authority epoch);
//   - EntryIdentity.Index as a field independent of PreviousIndex (VerifyEntry
//     requires PreviousIndex+1 == Index, so they move together);
//   - nil vs empty payload are the same byte content.
package c05_test

import (
	"crypto/sha512"
	"encoding/binary"
	"fmt"
	"math"
	"math/rand/v2"
	"testing"

	"github.com/WuKongIM/WuKongIM/pkg/channel"
	"github.com/WuKongIM/WuKongIM/pkg/quorumlog"
	"github.com/WuKongIM/WuKongIM/pkg/verifkit"
)

type c05Prop struct {
	M quorumlog.ProposalManifest
	R []quorumlog.Record
}

func (p c05Prop) clone() c05Prop {
	q := c05Prop{M: p.M, R: make([]quorumlog.Record, len(p.R))}
	for i, r := range p.R {
		q.R[i] = r
		if r.Payload != nil {
			q.R[i].Payload = append([]byte{}, r.Payload...)
		}
	}
	return q
}

const (
	c05APIQSeal = iota
	c05APICSeal
	c05APIQDerive
	c05APICDerive
	c05NAPI
)

var c05APINames = [...]string{"quorumlog.Seal", "channel.Seal", "quorumlog.Derive", "channel.Derive"}

func c05ToChannel(rng *rand.Rand, r quorumlog.Record) channel.Record {
	size := 0
	if rng != nil {
		size = rng.IntN(1 << 20)
	}
	return channel.Record{ID: r.ID, Index: r.Index, Epoch: r.Epoch, Setting: r.Setting, FromUID: r.FromUID,
		ClientMsgNo: r.ClientMsgNo, ServerTimestampMS: r.ServerTimestampMS, SyncOnce: r.SyncOnce, Payload: r.Payload, SizeBytes: size}
}

// c05Seal derives the entry chain through one of the four public entry points.
func c05Seal(api int, rng *rand.Rand, p c05Prop) (ents []quorumlog.EntryIdentity, tail quorumlog.EntryDigest, ok bool) {
	switch api {
	case c05APIQSeal:
		var m quorumlog.ProposalManifest
		m, ents, ok = quorumlog.SealProposalManifest(p.M, p.R)
		tail = m.Digest
	case c05APICSeal:
		recs := make([]channel.Record, len(p.R))
		for i := range p.R {
			recs[i] = c05ToChannel(rng, p.R[i])
		}
		var m channel.ProposalManifest
		m, ents, ok = channel.SealProposalManifest(p.M, recs)
		tail = m.Digest
	case c05APIQDerive:
		ents, ok = quorumlog.DeriveProposalEntries(p.M, len(p.R), func(i int) quorumlog.Record { return p.R[i] })
		if ok && len(ents) > 0 {
			tail = ents[len(ents)-1].Digest
		}
	case c05APICDerive:
		ents, ok = channel.DeriveProposalEntries(p.M, len(p.R), func(i int) channel.Record { return c05ToChannel(rng, p.R[i]) })
		if ok && len(ents) > 0 {
			tail = ents[len(ents)-1].Digest
		}
	}
	return
}

// ---------------------------------------------------------------------------
// generators

var c05Strs = []string{"", "a", "b", "ab", "bc", "c", "u1", "uid", "\x00", "\x00\x00", "\xff", "\x80\xfe", "用户", "😀", " ", "a\x00b",
	"\x00\x00\x00\x00\x00\x00\x00\x01", "\x00\x00\x00\x00\x00\x00\x00\x00", "\x01\x00\x00\x00\x00\x00\x00\x00", "\x00\x00\x00\x00\x00\x00\x00\x02ab"}

func c05GenBytes(rng *rand.Rand, max int) []byte {
	var n int
	switch rng.IntN(10) {
	case 0:
		n = 0
	case 1, 2, 3, 4, 5:
		n = rng.IntN(12)
	case 6, 7:
		n = rng.IntN(80)
	case 8:
		n = rng.IntN(max + 1)
	default:
		// around powers of two and the 8-byte length prefix width
		c := []int{7, 8, 9, 15, 16, 17, 63, 64, 65, 255, 256, 257, 1023, 1024, 4095, 4096}
		n = c[rng.IntN(len(c))]
		if n > max {
			n = max
		}
	}
	b := make([]byte, n)
	switch rng.IntN(4) {
	case 0: // all zero
	case 1:
		for i := range b {
			b[i] = "ab"[rng.IntN(2)]
		}
	default:
		for i := range b {
			b[i] = byte(rng.UintN(256))
		}
	}
	return b
}

func c05GenStr(rng *rand.Rand) string {
	switch rng.IntN(6) {
	case 0, 1:
		return c05Strs[rng.IntN(len(c05Strs))]
	case 2:
		return c05Strs[rng.IntN(len(c05Strs))] + c05Strs[rng.IntN(len(c05Strs))]
	default:
		return string(c05GenBytes(rng, 1024))
	}
}

func c05GenU64(rng *rand.Rand) uint64 { // non-zero
	switch rng.IntN(8) {
	case 0:
		return 1
	case 1:
		return math.MaxUint64
	case 2:
		return 2
	case 3:
		return uint64(1) << rng.UintN(64)
	case 4:
		return 1 + rng.Uint64N(1000)
	case 5:
		return math.MaxUint64 - rng.Uint64N(4)
	default:
		v := rng.Uint64()
		if v == 0 {
			v = 1
		}
		return v
	}
}

func c05GenTS(rng *rand.Rand) int64 { // positive
	switch rng.IntN(6) {
	case 0:
		return 1
	case 1:
		return math.MaxInt64
	case 2:
		return 1_700_000_000_000 + rng.Int64N(1_000_000)
	case 3:
		return math.MaxInt64 - rng.Int64N(3)
	default:
		return 1 + rng.Int64N(math.MaxInt64)
	}
}

func c05GenDigest(rng *rand.Rand) (d [32]byte) { // non-zero
	switch rng.IntN(4) {
	case 0:
		d[rng.IntN(32)] = byte(1 << rng.UintN(8))
	case 1:
		for i := range d {
			d[i] = 0xff
		}
	default:
		for i := range d {
			d[i] = byte(rng.UintN(256))
		}
		d[0] |= 1
	}
	return
}

func c05GenRecord(rng *rand.Rand, epoch, index uint64, setting uint8) quorumlog.Record {
	r := quorumlog.Record{ID: c05GenU64(rng), Epoch: epoch, Setting: setting, FromUID: c05GenStr(rng), ClientMsgNo: c05GenStr(rng),
		ServerTimestampMS: c05GenTS(rng), SyncOnce: rng.IntN(2) == 0, Payload: c05GenBytes(rng, 4096)}
	if rng.IntN(2) == 0 {
		r.Index = index
	}
	if len(r.Payload) == 0 && rng.IntN(2) == 0 {
		r.Payload = nil
	}
	return r
}

func c05SetBase(rng *rand.Rand, m *quorumlog.ProposalManifest, base uint64, n int) {
	m.BaseOffset, m.PreviousIndex, m.LastOffset = base, base, base+uint64(n)
	if base == 0 {
		m.PreviousTerm, m.PreviousDigest = 0, quorumlog.EntryDigest{}
	} else {
		if m.PreviousTerm == 0 {
			m.PreviousTerm = c05GenU64(rng)
		}
		if m.PreviousDigest == (quorumlog.EntryDigest{}) {
			m.PreviousDigest = c05GenDigest(rng)
		}
	}
}

func c05GenBase(rng *rand.Rand, n int) uint64 {
	switch rng.IntN(6) {
	case 0, 1:
		return 0
	case 2:
		return 1
	case 3:
		return math.MaxUint64 - uint64(n) // last entry lands on MaxUint64
	case 4:
		return 1 + rng.Uint64N(1000)
	default:
		return 1 + rng.Uint64N(math.MaxUint64-uint64(n)-1)
	}
}

func c05GenProp(rng *rand.Rand, caseIdx int) c05Prop {
	n := 1 + rng.IntN(4)
	if rng.IntN(12) == 0 {
		n = 5 + rng.IntN(12)
	}
	var p c05Prop
	p.M.Version = quorumlog.ProposalManifestVersion
	p.M.ChannelEpoch, p.M.LeaderTerm, p.M.FenceVersion = c05GenU64(rng), c05GenU64(rng), c05GenU64(rng)
	p.M.CommandID = c05GenDigest(rng)
	if rng.IntN(3) == 0 {
		// a stale caller-supplied tail digest must not matter
		p.M.Digest = c05GenDigest(rng)
	}
	c05SetBase(rng, &p.M, c05GenBase(rng, n), n)
	for i := 0; i < n; i++ {
		// sweep every Setting value deterministically across the run
		p.R = append(p.R, c05GenRecord(rng, p.M.ChannelEpoch, p.M.BaseOffset+uint64(i)+1, uint8(caseIdx*17+i*5)))
	}
	return p
}

// ---------------------------------------------------------------------------
// canonical content key (independent injective encoding of everything the
// statement says is bound) used by the run-wide digest→content map.

type c05Key [20]byte

func c05ContentKey(e quorumlog.EntryIdentity, r quorumlog.Record) c05Key {
	h := sha512.New512_256()
	var b [8]byte
	u := func(v uint64) { binary.LittleEndian.PutUint64(b[:], v); h.Write(b[:]) }
	u(e.ChannelEpoch)
	u(e.LeaderTerm)
	u(e.FenceVersion)
	u(e.Index)
	u(e.PreviousTerm)
	u(e.PreviousIndex)
	h.Write(e.CommandID[:])
	h.Write(e.PreviousDigest[:])
	u(r.ID)
	u(uint64(r.Setting))
	if r.SyncOnce {
		u(1)
	} else {
		u(0)
	}
	u(uint64(r.ServerTimestampMS))
	u(uint64(len(r.FromUID)))
	h.Write([]byte(r.FromUID))
	u(uint64(len(r.ClientMsgNo)))
	h.Write([]byte(r.ClientMsgNo))
	u(uint64(len(r.Payload)))
	h.Write(r.Payload)
	var k c05Key
	copy(k[:], h.Sum(nil))
	return k
}

type c05Monitor struct {
	r      *verifkit.Run
	rng    *rand.Rand
	seen   map[quorumlog.EntryDigest]c05Key
	capMap int
}

func (m *c05Monitor) witness(p c05Prop, extra map[string]any) map[string]any {
	w := map[string]any{"manifest": fmt.Sprintf("%+v", p.M), "n": len(p.R)}
	for i, r := range p.R {
		if i >= 3 {
			break
		}
		w[fmt.Sprintf("rec%d", i)] = fmt.Sprintf("{ID:%d Index:%d Epoch:%d Setting:%d From:%q Client:%q TS:%d Sync:%v Payload(%d):%s}", r.ID, r.Index, r.Epoch, r.Setting, c05Short(r.FromUID), c05Short(r.ClientMsgNo), r.ServerTimestampMS, r.SyncOnce, len(r.Payload), verifkit.Hex8(r.Payload))
	}
	for k, v := range extra {
		w[k] = v
	}
	return w
}

func c05Short(s string) string {
	if len(s) > 48 {
		return s[:48] + fmt.Sprintf("..(%d)", len(s))
	}
	return s
}

// note records the digest of one sealed entry in the run-wide map and flags a
// collision between different contents.
func (m *c05Monitor) note(site string, e quorumlog.EntryIdentity, r quorumlog.Record) {
	k := c05ContentKey(e, r)
	if old, ok := m.seen[e.Digest]; ok {
		if old != k {
			m.r.Violation("digest-collision-different-content:"+site, map[string]any{"digest": fmt.Sprintf("%x", e.Digest[:]), "entry": fmt.Sprintf("%+v", e), "record_id": r.ID})
		}
		m.r.Count("map.same_content_redigested", 1)
		return
	}
	if len(m.seen) < m.capMap {
		m.seen[e.Digest] = k
	} else {
		m.r.Count("map.full_skipped", 1)
	}
}

func (m *c05Monitor) noteAll(site string, ents []quorumlog.EntryIdentity, recs []quorumlog.Record) {
	for i := range ents {
		m.note(site, ents[i], recs[i])
	}
}

// ---------------------------------------------------------------------------
// record perturbations: each returns a within-domain record whose content
// differs from the input in the named field(s), or ok=false if not applicable.

type c05RecPert struct {
	name string
	fn   func(rng *rand.Rand, r quorumlog.Record) (quorumlog.Record, bool)
}

func c05OtherU64(rng *rand.Rand, v uint64) uint64 {
	for {
		var w uint64
		switch rng.IntN(4) {
		case 0:
			w = v + 1
		case 1:
			w = v - 1
		case 2:
			w = v ^ (uint64(1) << rng.UintN(64))
		default:
			w = c05GenU64(rng)
		}
		if w != 0 && w != v {
			return w
		}
	}
}

func c05MutStr(rng *rand.Rand, s string) string {
	b := []byte(s)
	switch k := rng.IntN(5); {
	case k == 0 || len(b) == 0:
		return s + string([]byte{byte(rng.UintN(256))})
	case k == 1:
		return s[:len(s)-1]
	case k == 2:
		return s[1:]
	case k == 3:
		i := rng.IntN(len(b))
		b[i] ^= byte(1 << rng.UintN(8))
		return string(b)
	default:
		return string([]byte{byte(rng.UintN(256))}) + s
	}
}

var c05RecPerts = []c05RecPert{
	{"id", func(rng *rand.Rand, r quorumlog.Record) (quorumlog.Record, bool) {
		r.ID = c05OtherU64(rng, r.ID)
		return r, true
	}},
	{"sender", func(rng *rand.Rand, r quorumlog.Record) (quorumlog.Record, bool) {
		r.FromUID = c05MutStr(rng, r.FromUID)
		return r, true
	}},
	{"clientmsgno", func(rng *rand.Rand, r quorumlog.Record) (quorumlog.Record, bool) {
		r.ClientMsgNo = c05MutStr(rng, r.ClientMsgNo)
		return r, true
	}},
	{"setting.bit", func(rng *rand.Rand, r quorumlog.Record) (quorumlog.Record, bool) {
		r.Setting ^= uint8(1) << rng.UintN(8)
		return r, true
	}},
	{"setting.any", func(rng *rand.Rand, r quorumlog.Record) (quorumlog.Record, bool) {
		r.Setting += uint8(1 + rng.UintN(255))
		return r, true
	}},
	{"synconce", func(rng *rand.Rand, r quorumlog.Record) (quorumlog.Record, bool) {
		r.SyncOnce = !r.SyncOnce
		return r, true
	}},
	{"timestamp", func(rng *rand.Rand, r quorumlog.Record) (quorumlog.Record, bool) {
		for {
			var w int64
			switch rng.IntN(4) {
			case 0:
				w = r.ServerTimestampMS + 1
			case 1:
				w = r.ServerTimestampMS - 1
			case 2:
				w = r.ServerTimestampMS ^ (int64(1) << rng.UintN(63))
			default:
				w = c05GenTS(rng)
			}
			if w > 0 && w != r.ServerTimestampMS {
				r.ServerTimestampMS = w
				return r, true
			}
		}
	}},
	{"payload.bit", func(rng *rand.Rand, r quorumlog.Record) (quorumlog.Record, bool) {
		if len(r.Payload) == 0 {
			return r, false
		}
		p := append([]byte{}, r.Payload...)
		p[rng.IntN(len(p))] ^= byte(1 << rng.UintN(8))
		r.Payload = p
		return r, true
	}},
	{"payload.grow", func(rng *rand.Rand, r quorumlog.Record) (quorumlog.Record, bool) {
		p := append([]byte{}, r.Payload...)
		if rng.IntN(2) == 0 {
			p = append(p, 0) // trailing zero byte
		} else {
			p = append(p, byte(rng.UintN(256)))
		}
		r.Payload = p
		return r, true
	}},
	{"payload.shrink", func(rng *rand.Rand, r quorumlog.Record) (quorumlog.Record, bool) {
		if len(r.Payload) == 0 {
			return r, false
		}
		if rng.IntN(2) == 0 {
			r.Payload = append([]byte{}, r.Payload[:len(r.Payload)-1]...)
		} else {
			r.Payload = append([]byte{}, r.Payload[1:]...)
		}
		return r, true
	}},
	// boundary shifts between adjacent variable-length fields
	{"shift.sender>clientmsgno", func(rng *rand.Rand, r quorumlog.Record) (quorumlog.Record, bool) {
		if r.FromUID == "" {
			return r, false
		}
		k := 1 + rng.IntN(len(r.FromUID))
		r.ClientMsgNo = r.FromUID[len(r.FromUID)-k:] + r.ClientMsgNo
		r.FromUID = r.FromUID[:len(r.FromUID)-k]
		return r, true
	}},
	{"shift.clientmsgno>sender", func(rng *rand.Rand, r quorumlog.Record) (quorumlog.Record, bool) {
		if r.ClientMsgNo == "" {
			return r, false
		}
		k := 1 + rng.IntN(len(r.ClientMsgNo))
		r.FromUID += r.ClientMsgNo[:k]
		r.ClientMsgNo = r.ClientMsgNo[k:]
		return r, true
	}},
	{"shift.clientmsgno>payload", func(rng *rand.Rand, r quorumlog.Record) (quorumlog.Record, bool) {
		if r.ClientMsgNo == "" {
			return r, false
		}
		k := 1 + rng.IntN(len(r.ClientMsgNo))
		r.Payload = append([]byte(r.ClientMsgNo[len(r.ClientMsgNo)-k:]), r.Payload...)
		r.ClientMsgNo = r.ClientMsgNo[:len(r.ClientMsgNo)-k]
		return r, true
	}},
	{"shift.payload>clientmsgno", func(rng *rand.Rand, r quorumlog.Record) (quorumlog.Record, bool) {
		if len(r.Payload) == 0 {
			return r, false
		}
		k := 1 + rng.IntN(len(r.Payload))
		r.ClientMsgNo += string(r.Payload[:k])
		r.Payload = append([]byte{}, r.Payload[k:]...)
		return r, true
	}},
	{"shift.sender>payload.all", func(rng *rand.Rand, r quorumlog.Record) (quorumlog.Record, bool) {
		// everything into the payload, including a fake big-endian length prefix
		if r.FromUID == "" && r.ClientMsgNo == "" {
			return r, false
		}
		var lp [8]byte
		binary.BigEndian.PutUint64(lp[:], uint64(len(r.ClientMsgNo)))
		p := append([]byte(r.FromUID), lp[:]...)
		p = append(p, r.ClientMsgNo...)
		binary.BigEndian.PutUint64(lp[:], uint64(len(r.Payload)))
		p = append(p, lp[:]...)
		p = append(p, r.Payload...)
		r.FromUID, r.ClientMsgNo, r.Payload = "", "", p
		return r, true
	}},
	// value swaps between fields of the same width / type
	{"swap.sender<>clientmsgno", func(rng *rand.Rand, r quorumlog.Record) (quorumlog.Record, bool) {
		if r.FromUID == r.ClientMsgNo {
			return r, false
		}
		r.FromUID, r.ClientMsgNo = r.ClientMsgNo, r.FromUID
		return r, true
	}},
	{"swap.clientmsgno<>payload", func(rng *rand.Rand, r quorumlog.Record) (quorumlog.Record, bool) {
		if r.ClientMsgNo == string(r.Payload) {
			return r, false
		}
		c := r.ClientMsgNo
		r.ClientMsgNo = string(r.Payload)
		r.Payload = []byte(c)
		return r, true
	}},
	{"swap.id<>timestamp", func(rng *rand.Rand, r quorumlog.Record) (quorumlog.Record, bool) {
		if r.ID > math.MaxInt64 || uint64(r.ServerTimestampMS) == r.ID {
			return r, false
		}
		r.ID, r.ServerTimestampMS = uint64(r.ServerTimestampMS), int64(r.ID)
		return r, true
	}},
	{"swap.setting<>synconce", func(rng *rand.Rand, r quorumlog.Record) (quorumlog.Record, bool) {
		// (setting, sync) -> (setting^1, !sync): a combiner that xors/ors the
		// flag into the low setting bit would not see this
		r.Setting, r.SyncOnce = r.Setting^1, !r.SyncOnce
		return r, true
	}},
}

// ---------------------------------------------------------------------------
// manifest perturbations (authority / command / predecessor / index)

type c05ManPert struct {
	name string
	fn   func(rng *rand.Rand, p c05Prop) (c05Prop, bool)
}

func c05FlipDigestBit(rng *rand.Rand, d [32]byte) [32]byte {
	for {
		e := d
		e[rng.IntN(32)] ^= byte(1 << rng.UintN(8))
		if e != ([32]byte{}) {
			return e
		}
	}
}

var c05ManPerts = []c05ManPert{
	{"authority.epoch", func(rng *rand.Rand, p c05Prop) (c05Prop, bool) {
		p.M.ChannelEpoch = c05OtherU64(rng, p.M.ChannelEpoch)
		for i := range p.R {
			p.R[i].Epoch = p.M.ChannelEpoch
		}
		return p, true
	}},
	{"authority.term", func(rng *rand.Rand, p c05Prop) (c05Prop, bool) {
		p.M.LeaderTerm = c05OtherU64(rng, p.M.LeaderTerm)
		return p, true
	}},
	{"authority.fence", func(rng *rand.Rand, p c05Prop) (c05Prop, bool) {
		p.M.FenceVersion = c05OtherU64(rng, p.M.FenceVersion)
		return p, true
	}},
	{"command.bit", func(rng *rand.Rand, p c05Prop) (c05Prop, bool) {
		p.M.CommandID = c05FlipDigestBit(rng, p.M.CommandID)
		return p, true
	}},
	{"command.any", func(rng *rand.Rand, p c05Prop) (c05Prop, bool) {
		for {
			c := quorumlog.CommandID(c05GenDigest(rng))
			if c != p.M.CommandID {
				p.M.CommandID = c
				return p, true
			}
		}
	}},
	{"index.shift", func(rng *rand.Rand, p c05Prop) (c05Prop, bool) {
		// move the whole proposal to another non-genesis base (index and predecessor index move together)
		if p.M.BaseOffset == 0 {
			return p, false
		}
		n := len(p.R)
		for {
			var b uint64
			switch rng.IntN(3) {
			case 0:
				b = p.M.BaseOffset + 1
			case 1:
				b = p.M.BaseOffset - 1
			default:
				b = c05GenBase(rng, n)
			}
			if b == 0 || b == p.M.BaseOffset || b > math.MaxUint64-uint64(n) {
				continue
			}
			c05SetBase(rng, &p.M, b, n)
			for i := range p.R {
				if p.R[i].Index != 0 {
					p.R[i].Index = b + uint64(i) + 1
				}
			}
			return p, true
		}
	}},
	{"predecessor.genesis-flip", func(rng *rand.Rand, p c05Prop) (c05Prop, bool) {
		n := len(p.R)
		b := uint64(0)
		if p.M.BaseOffset == 0 {
			b = 1 + rng.Uint64N(1000)
		}
		c05SetBase(rng, &p.M, b, n)
		for i := range p.R {
			if p.R[i].Index != 0 {
				p.R[i].Index = b + uint64(i) + 1
			}
		}
		return p, true
	}},
	{"predecessor.term", func(rng *rand.Rand, p c05Prop) (c05Prop, bool) {
		if p.M.BaseOffset == 0 {
			return p, false
		}
		p.M.PreviousTerm = c05OtherU64(rng, p.M.PreviousTerm)
		return p, true
	}},
	{"predecessor.digest.bit", func(rng *rand.Rand, p c05Prop) (c05Prop, bool) {
		if p.M.BaseOffset == 0 {
			return p, false
		}
		p.M.PreviousDigest = c05FlipDigestBit(rng, p.M.PreviousDigest)
		return p, true
	}},
	{"swap.epoch<>term", func(rng *rand.Rand, p c05Prop) (c05Prop, bool) {
		if p.M.ChannelEpoch == p.M.LeaderTerm {
			return p, false
		}
		p.M.ChannelEpoch, p.M.LeaderTerm = p.M.LeaderTerm, p.M.ChannelEpoch
		for i := range p.R {
			p.R[i].Epoch = p.M.ChannelEpoch
		}
		return p, true
	}},
	{"swap.term<>fence", func(rng *rand.Rand, p c05Prop) (c05Prop, bool) {
		if p.M.FenceVersion == p.M.LeaderTerm {
			return p, false
		}
		p.M.FenceVersion, p.M.LeaderTerm = p.M.LeaderTerm, p.M.FenceVersion
		return p, true
	}},
	{"swap.prevterm<>fence", func(rng *rand.Rand, p c05Prop) (c05Prop, bool) {
		if p.M.BaseOffset == 0 || p.M.FenceVersion == p.M.PreviousTerm {
			return p, false
		}
		p.M.FenceVersion, p.M.PreviousTerm = p.M.PreviousTerm, p.M.FenceVersion
		return p, true
	}},
	{"swap.command<>prevdigest", func(rng *rand.Rand, p c05Prop) (c05Prop, bool) {
		if p.M.BaseOffset == 0 || [32]byte(p.M.CommandID) == [32]byte(p.M.PreviousDigest) {
			return p, false
		}
		c := p.M.CommandID
		p.M.CommandID = quorumlog.CommandID(p.M.PreviousDigest)
		p.M.PreviousDigest = quorumlog.EntryDigest(c)
		return p, true
	}},
}

// ---------------------------------------------------------------------------
// identity perturbations for the "exactly when" clause: the sealed identity
// with one field replaced (digest kept) must no longer accept the record.

type c05IDPert struct {
	name string
	fn   func(rng *rand.Rand, e quorumlog.EntryIdentity, r quorumlog.Record) (quorumlog.EntryIdentity, quorumlog.Record, bool)
}

var c05IDPerts = []c05IDPert{
	{"id.version", func(rng *rand.Rand, e quorumlog.EntryIdentity, r quorumlog.Record) (quorumlog.EntryIdentity, quorumlog.Record, bool) {
		for {
			v := uint16(rng.UintN(1 << 16))
			if rng.IntN(2) == 0 {
				v = uint16(rng.UintN(4))
			}
			if v != e.Version {
				e.Version = v
				return e, r, true
			}
		}
	}},
	{"id.epoch", func(rng *rand.Rand, e quorumlog.EntryIdentity, r quorumlog.Record) (quorumlog.EntryIdentity, quorumlog.Record, bool) {
		e.ChannelEpoch = c05OtherU64(rng, e.ChannelEpoch)
		r.Epoch = e.ChannelEpoch // so that the rejection has to come from the digest
		return e, r, true
	}},
	{"id.term", func(rng *rand.Rand, e quorumlog.EntryIdentity, r quorumlog.Record) (quorumlog.EntryIdentity, quorumlog.Record, bool) {
		e.LeaderTerm = c05OtherU64(rng, e.LeaderTerm)
		return e, r, true
	}},
	{"id.fence", func(rng *rand.Rand, e quorumlog.EntryIdentity, r quorumlog.Record) (quorumlog.EntryIdentity, quorumlog.Record, bool) {
		e.FenceVersion = c05OtherU64(rng, e.FenceVersion)
		return e, r, true
	}},
	{"id.index+previndex", func(rng *rand.Rand, e quorumlog.EntryIdentity, r quorumlog.Record) (quorumlog.EntryIdentity, quorumlog.Record, bool) {
		if e.PreviousIndex == 0 {
			return e, r, false
		}
		switch {
		case e.Index == math.MaxUint64 || (e.PreviousIndex > 1 && rng.IntN(2) == 0):
			if e.PreviousIndex <= 1 {
				return e, r, false
			}
			e.Index--
			e.PreviousIndex--
		default:
			e.Index++
			e.PreviousIndex++
		}
		r.Index = 0 // unspecified: rejection has to come from the digest
		return e, r, true
	}},
	{"id.prevterm", func(rng *rand.Rand, e quorumlog.EntryIdentity, r quorumlog.Record) (quorumlog.EntryIdentity, quorumlog.Record, bool) {
		if e.PreviousIndex == 0 {
			return e, r, false
		}
		e.PreviousTerm = c05OtherU64(rng, e.PreviousTerm)
		return e, r, true
	}},
	{"id.command.bit", func(rng *rand.Rand, e quorumlog.EntryIdentity, r quorumlog.Record) (quorumlog.EntryIdentity, quorumlog.Record, bool) {
		e.CommandID = c05FlipDigestBit(rng, e.CommandID)
		return e, r, true
	}},
	{"id.prevdigest.bit", func(rng *rand.Rand, e quorumlog.EntryIdentity, r quorumlog.Record) (quorumlog.EntryIdentity, quorumlog.Record, bool) {
		if e.PreviousIndex == 0 {
			return e, r, false
		}
		e.PreviousDigest = c05FlipDigestBit(rng, e.PreviousDigest)
		return e, r, true
	}},
	{"id.digest.bit", func(rng *rand.Rand, e quorumlog.EntryIdentity, r quorumlog.Record) (quorumlog.EntryIdentity, quorumlog.Record, bool) {
		e.Digest = c05FlipDigestBit(rng, e.Digest)
		return e, r, true
	}},
	{"id.digest.lastbyte", func(rng *rand.Rand, e quorumlog.EntryIdentity, r quorumlog.Record) (quorumlog.EntryIdentity, quorumlog.Record, bool) {
		e.Digest[31] ^= byte(1 << rng.UintN(8))
		if e.Digest == (quorumlog.EntryDigest{}) {
			return e, r, false
		}
		return e, r, true
	}},
	{"rec.index.wrong", func(rng *rand.Rand, e quorumlog.EntryIdentity, r quorumlog.Record) (quorumlog.EntryIdentity, quorumlog.Record, bool) {
		for {
			v := c05OtherU64(rng, e.Index)
			if v != e.Index {
				r.Index = v
				return e, r, true
			}
		}
	}},
}

func c05LenClass(n int) string {
	switch {
	case n == 0:
		return "0"
	case n < 8:
		return "s"
	case n < 64:
		return "m"
	case n < 1024:
		return "l"
	default:
		return "xl"
	}
}

func c05Shape(p c05Prop, j int, api int) string {
	pos := "mid"
	if j == 0 {
		pos = "first"
	} else if j == len(p.R)-1 {
		pos = "last"
	}
	if len(p.R) == 1 {
		pos = "only"
	}
	nc := "n1"
	if len(p.R) > 4 {
		nc = "n5+"
	} else if len(p.R) > 1 {
		nc = "n2-4"
	}
	g := "mid"
	if p.M.BaseOffset == 0 {
		g = "genesis"
	} else if p.M.LastOffset == math.MaxUint64 {
		g = "maxidx"
	}
	r := p.R[j]
	return fmt.Sprintf("%s|%s|%s|%s|F%s|C%s|P%s|i%v", c05APINames[api], g, nc, pos, c05LenClass(len(r.FromUID)), c05LenClass(len(r.ClientMsgNo)), c05LenClass(len(r.Payload)), r.Index != 0)
}

// checkBase checks clause (2)-accept on a freshly sealed proposal and returns its entries.
func (m *c05Monitor) checkBase(api int, p c05Prop) ([]quorumlog.EntryIdentity, bool) {
	r := m.r
	var ents []quorumlog.EntryIdentity
	var tail quorumlog.EntryDigest
	var ok bool
	if r.Guard("Seal:"+c05APINames[api], m.witness(p, nil), func() { ents, tail, ok = c05Seal(api, m.rng, p) }) {
		return nil, false
	}
	r.Eval(1)
	if !ok {
		// within-domain input that the sealer refuses: nothing to verify.
		// Generated inputs are all inside the documented domain, so this is
		// counted (and visible in evidence) rather than asserted.
		r.Count("base.seal_refused", 1)
		return nil, false
	}
	r.Count("base.sealed."+c05APINames[api], 1)
	if len(ents) != len(p.R) {
		r.Violation("seal-entry-count", m.witness(p, map[string]any{"entries": len(ents), "api": c05APINames[api]}))
		return nil, false
	}
	if tail != ents[len(ents)-1].Digest {
		r.Violation("seal-tail-digest-not-last-entry:"+c05APINames[api], m.witness(p, nil))
	}
	for i := range ents {
		// seal ok ⇒ VerifyEntry(entry_i, record_i)
		if !quorumlog.VerifyEntry(ents[i], p.R[i]) {
			r.Violation("verify-rejects-sealed-content:"+c05APINames[api], m.witness(p, map[string]any{"i": i, "entry": fmt.Sprintf("%+v", ents[i])}))
		}
		// the same content held in different memory (and nil/empty payload
		// interchanged) is still the sealed content
		cp := p.R[i]
		cp.FromUID = string(append([]byte{}, cp.FromUID...))
		cp.ClientMsgNo = string(append([]byte{}, cp.ClientMsgNo...))
		if len(cp.Payload) == 0 {
			if cp.Payload == nil {
				cp.Payload = []byte{}
			} else {
				cp.Payload = nil
			}
		} else {
			cp.Payload = append([]byte{}, cp.Payload...)
		}
		if !quorumlog.VerifyEntry(ents[i], cp) {
			r.Violation("verify-rejects-equal-copy:"+c05APINames[api], m.witness(p, map[string]any{"i": i}))
		}
		r.Count("verify.accept_checked", 2)
	}
	// all four entry points seal the same content to the same identities
	other := (api + 1 + m.rng.IntN(c05NAPI-1)) % c05NAPI
	ents2, _, ok2 := c05Seal(other, m.rng, p)
	if !ok2 || len(ents2) != len(ents) {
		r.Violation("seal-api-disagree-ok:"+c05APINames[api]+"/"+c05APINames[other], m.witness(p, nil))
	} else {
		for i := range ents {
			if ents[i] != ents2[i] {
				r.Violation("seal-api-disagree-identity:"+c05APINames[api]+"/"+c05APINames[other], m.witness(p, map[string]any{"i": i, "a": fmt.Sprintf("%+v", ents[i]), "b": fmt.Sprintf("%+v", ents2[i])}))
				break
			}
		}
		r.Count("seal.cross_api_equal_checked", 1)
	}
	m.noteAll("base", ents, p.R)
	return ents, true
}

func (m *c05Monitor) recordPerturbations(api int, p c05Prop, ents []quorumlog.EntryIdentity, perPert int) {
	r, rng := m.r, m.rng
	for _, pert := range c05RecPerts {
		for rep := 0; rep < perPert; rep++ {
			j := rng.IntN(len(p.R))
			q := p.clone()
			nr, ok := pert.fn(rng, q.R[j])
			if !ok {
				r.Count("pert.na."+pert.name, 1)
				continue
			}
			q.R[j] = nr
			r.Eval(1)
			r.Count("pert.rec."+pert.name, 1)
			// (2) original identity must reject the perturbed record
			if quorumlog.VerifyEntry(ents[j], nr) {
				r.Violation("verify-accepts-perturbed:"+pert.name, m.witness(p, map[string]any{"j": j, "api": c05APINames[api], "perturbed": m.witness(c05Prop{R: []quorumlog.Record{nr}}, nil)["rec0"]}))
			}
			// (1) digest of entry j and of every later entry must change
			ents2, _, ok2 := c05Seal(api, rng, q)
			if !ok2 {
				r.Count("pert.reseal_refused."+pert.name, 1)
				continue
			}
			if len(ents2) != len(ents) {
				r.Violation("seal-entry-count", m.witness(q, nil))
				continue
			}
			for i := j; i < len(ents); i++ {
				if ents2[i].Digest == ents[i].Digest {
					sig := "digest-unchanged:" + pert.name
					if i > j {
						sig = "chain-digest-unchanged:" + pert.name
					}
					r.Violation(sig, m.witness(p, map[string]any{"j": j, "i": i, "api": c05APINames[api], "perturbed": m.witness(c05Prop{R: []quorumlog.Record{nr}}, nil)["rec0"]}))
					break
				}
			}
			// and the perturbed identity must reject the original record
			if quorumlog.VerifyEntry(ents2[j], p.R[j]) {
				r.Violation("verify-perturbed-identity-accepts-original:"+pert.name, m.witness(p, map[string]any{"j": j}))
			}
			if !quorumlog.VerifyEntry(ents2[j], nr) {
				r.Violation("verify-rejects-sealed-content:perturbed:"+pert.name, m.witness(q, map[string]any{"j": j}))
			}
			r.Count("chain.later_entries_checked", len(ents)-j-1)
			m.noteAll("rec:"+pert.name, ents2[j:], q.R[j:])
			r.Nontrivial(pert.name + "|" + c05Shape(p, j, api))
		}
	}
}

func (m *c05Monitor) manifestPerturbations(api int, p c05Prop, ents []quorumlog.EntryIdentity) {
	r, rng := m.r, m.rng
	for _, pert := range c05ManPerts {
		q, ok := pert.fn(rng, p.clone())
		if !ok {
			r.Count("pert.na."+pert.name, 1)
			continue
		}
		r.Eval(1)
		r.Count("pert.man."+pert.name, 1)
		ents2, _, ok2 := c05Seal(api, rng, q)
		if !ok2 {
			r.Count("pert.reseal_refused."+pert.name, 1)
			continue
		}
		if len(ents2) != len(ents) {
			r.Violation("seal-entry-count", m.witness(q, nil))
			continue
		}
		for i := range ents {
			if ents2[i].Digest == ents[i].Digest {
				r.Violation("digest-unchanged:"+pert.name, m.witness(p, map[string]any{"i": i, "api": c05APINames[api], "perturbed_manifest": fmt.Sprintf("%+v", q.M)}))
				break
			}
		}
		for i := range ents {
			// each identity accepts only its own content
			if !quorumlog.VerifyEntry(ents2[i], q.R[i]) {
				r.Violation("verify-rejects-sealed-content:perturbed:"+pert.name, m.witness(q, map[string]any{"i": i}))
			}
		}
		m.noteAll("man:"+pert.name, ents2, q.R)
		r.Nontrivial(pert.name + "|" + c05Shape(p, 0, api))
	}
}

func (m *c05Monitor) identityPerturbations(api int, p c05Prop, ents []quorumlog.EntryIdentity) {
	r, rng := m.r, m.rng
	for _, pert := range c05IDPerts {
		j := rng.IntN(len(ents))
		e2, r2, ok := pert.fn(rng, ents[j], p.R[j])
		if !ok {
			r.Count("pert.na."+pert.name, 1)
			continue
		}
		r.Eval(1)
		r.Count("pert.id."+pert.name, 1)
		var acc bool
		if r.Guard("VerifyEntry", fmt.Sprintf("%+v", e2), func() { acc = quorumlog.VerifyEntry(e2, r2) }) {
			continue
		}
		if acc {
			r.Violation("verify-accepts-perturbed-identity:"+pert.name, m.witness(p, map[string]any{"j": j, "sealed": fmt.Sprintf("%+v", ents[j]), "perturbed": fmt.Sprintf("%+v", e2)}))
		}
		r.Nontrivial(pert.name + "|" + c05Shape(p, j, api))
	}
	// an identity sealed for position j must not accept the content of
	// another position of the same proposal (unless the contents are equal,
	// which cannot be: index differs)
	if len(ents) > 1 {
		j := rng.IntN(len(ents))
		k := (j + 1 + rng.IntN(len(ents)-1)) % len(ents)
		rk := p.R[k]
		rk.Index = 0
		r.Eval(1)
		r.Count("pert.id.other-position-record", 1)
		if c05SameContent(p.R[j], rk) {
			r.Count("pert.na.other-position-record", 1)
		} else if quorumlog.VerifyEntry(ents[j], rk) {
			r.Violation("verify-accepts-other-record", m.witness(p, map[string]any{"j": j, "k": k}))
		}
	}
}

func c05SameContent(a, b quorumlog.Record) bool {
	return a.ID == b.ID && a.Setting == b.Setting && a.FromUID == b.FromUID && a.ClientMsgNo == b.ClientMsgNo &&
		a.ServerTimestampMS == b.ServerTimestampMS && a.SyncOnce == b.SyncOnce && string(a.Payload) == string(b.Payload)
}

// smallDomain enumerates a tiny product domain exhaustively: all contents are
// pairwise different, so all digests must be pairwise different (catches
// ambiguous framing that random perturbation pairs might not line up).
func (m *c05Monitor) smallDomain(api int, block int) {
	r := m.r
	strs := []string{"", "a", "b", "aa", "ab", "ba", "bb"}
	seen := map[quorumlog.EntryDigest]string{}
	man := quorumlog.ProposalManifest{Version: quorumlog.ProposalManifestVersion, ChannelEpoch: 1 + uint64(block), LeaderTerm: 1, FenceVersion: 1, CommandID: quorumlog.CommandID{31: 1}}
	c05SetBase(m.rng, &man, 0, 1)
	for _, f := range strs {
		for _, c := range strs {
			for _, pl := range strs {
				for set := uint8(0); set < 2; set++ {
					for sync := 0; sync < 2; sync++ {
						for id := uint64(1); id <= 2; id++ {
							for ts := int64(1); ts <= 2; ts++ {
								rec := quorumlog.Record{ID: id, Epoch: man.ChannelEpoch, Setting: set, FromUID: f, ClientMsgNo: c, ServerTimestampMS: ts, SyncOnce: sync == 1, Payload: []byte(pl)}
								ents, _, ok := c05Seal(api, m.rng, c05Prop{M: man, R: []quorumlog.Record{rec}})
								r.Eval(1)
								if !ok {
									r.Count("small.seal_refused", 1)
									continue
								}
								desc := fmt.Sprintf("id=%d set=%d sync=%d ts=%d F=%q C=%q P=%q", id, set, sync, ts, f, c, pl)
								if o, dup := seen[ents[0].Digest]; dup {
									r.Violation("digest-collision-small-domain", map[string]any{"a": o, "b": desc, "api": c05APINames[api]})
								}
								seen[ents[0].Digest] = desc
								m.note("small", ents[0], rec)
								r.Count("small.contents", 1)
							}
						}
					}
				}
			}
		}
	}
	r.Nontrivial(fmt.Sprintf("small-domain|%s", c05APINames[api]))
}

// ambiguityPairs runs the fixed length-prefix ambiguity pairs from the design.
func (m *c05Monitor) ambiguityPairs(api int) {
	r := m.r
	type trip struct{ f, c, p string }
	pairs := [][2]trip{
		{{"ab", "c", ""}, {"a", "bc", ""}},
		{{"ab", "", "c"}, {"a", "b", "c"}},
		{{"", "abc", ""}, {"abc", "", ""}},
		{{"", "", "abc"}, {"abc", "", ""}},
		{{"a", "", ""}, {"", "a", ""}},
		{{"a", "", ""}, {"", "", "a"}},
		{{"", "", ""}, {"\x00", "", ""}},
		{{"", "", ""}, {"", "", "\x00"}},
		{{"", "", "\x00\x00\x00\x00\x00\x00\x00\x00"}, {"", "", ""}},
		{{"", "\x00\x00\x00\x00\x00\x00\x00\x00", ""}, {"", "", "\x00\x00\x00\x00\x00\x00\x00\x00"}},
		{{"\x00\x00\x00\x00\x00\x00\x00\x01a", "", ""}, {"", "a", ""}},
		{{"", "", "\x00\x00\x00\x00\x00\x00\x00\x01a"}, {"", "", "a"}},
		{{"a\x00\x00\x00\x00\x00\x00\x00\x01b", "", ""}, {"a", "b", ""}},
	}
	man := quorumlog.ProposalManifest{Version: quorumlog.ProposalManifestVersion, ChannelEpoch: 7, LeaderTerm: 3, FenceVersion: 2, CommandID: quorumlog.CommandID{0: 9}}
	c05SetBase(m.rng, &man, 0, 1)
	for i, pr := range pairs {
		var d [2]quorumlog.EntryIdentity
		var recs [2]quorumlog.Record
		okAll := true
		for k := 0; k < 2; k++ {
			recs[k] = quorumlog.Record{ID: 1, Epoch: 7, FromUID: pr[k].f, ClientMsgNo: pr[k].c, Payload: []byte(pr[k].p), ServerTimestampMS: 1}
			ents, _, ok := c05Seal(api, m.rng, c05Prop{M: man, R: recs[k : k+1]})
			if !ok {
				okAll = false
				break
			}
			d[k] = ents[0]
		}
		r.Eval(1)
		if !okAll {
			r.Count("ambiguity.seal_refused", 1)
			continue
		}
		if d[0].Digest == d[1].Digest {
			r.Violation("digest-unchanged:ambiguity-pair", map[string]any{"pair": i, "a": fmt.Sprintf("%q", pr[0]), "b": fmt.Sprintf("%q", pr[1]), "api": c05APINames[api]})
		}
		if quorumlog.VerifyEntry(d[0], recs[1]) || quorumlog.VerifyEntry(d[1], recs[0]) {
			r.Violation("verify-accepts-perturbed:ambiguity-pair", map[string]any{"pair": i, "a": fmt.Sprintf("%q", pr[0]), "b": fmt.Sprintf("%q", pr[1])})
		}
		r.Count("ambiguity.pairs", 1)
		r.Nontrivial(fmt.Sprintf("ambiguity|%d|%s", i, c05APINames[api]))
	}
}

func TestVerifC05(t *testing.T) {
	r := verifkit.Start(t, "C05", "main")
	defer r.Finish()
	r.SetRule("PRNG proposals (1..16 records; ids/epochs/terms incl. 1 and MaxUint64; sender/client strings empty, long, non-UTF-8, length-prefix look-alikes; payload 0..4 KiB; Setting swept over all 256 values; both SyncOnce; timestamps 1..MaxInt64; genesis, mid-log and MaxUint64-tail bases) sealed through one of 4 public entry points (quorumlog/channel × Seal/Derive). Per sealed proposal: every record perturbation kind (field change, boundary shift, swap), every manifest perturbation kind (authority, command, index, predecessor) and every identity-field perturbation. Non-trivial = a perturbation that changed the content of a successfully sealed proposal; distinct = (perturbation kind, entry point, base class, size class, position, field length classes).")
	r.Assume("SHA-256 and SHA-512/256 (used for the independent content key) are collision-free on the inputs observed")

	m := &c05Monitor{r: r, rng: r.Rand(5), seen: map[quorumlog.EntryDigest]c05Key{}, capMap: r.N(3_000_000, 6_000_000)}
	settingsSeen := [256]bool{}

	idx := 0
	for api := 0; api < c05NAPI; api++ {
		if !r.Skip(idx) {
			r.BeginCase(idx, "ambiguity+small-domain "+c05APINames[api])
			m.ambiguityPairs(api)
			if api < 2 || r.Thorough() {
				m.smallDomain(api, api)
			}
		}
		idx++
	}

	nProps := r.N(60_000, 700_000)
	for i := 0; i < nProps; i++ {
		ci := idx + i
		if r.Skip(ci) {
			continue
		}
		rng := r.Rand(5, uint64(i))
		m.rng = rng
		api := i % c05NAPI
		p := c05GenProp(rng, i)
		if i%256 == 0 {
			r.BeginCase(ci, fmt.Sprintf("proposal api=%s n=%d base=%d", c05APINames[api], len(p.R), p.M.BaseOffset))
		}
		r.Guard("case", m.witness(p, map[string]any{"case": ci}), func() {
			ents, ok := m.checkBase(api, p)
			if !ok {
				return
			}
			for _, rec := range p.R {
				settingsSeen[rec.Setting] = true
			}
			r.Max("max_records_in_proposal", len(p.R))
			m.recordPerturbations(api, p, ents, 1)
			m.manifestPerturbations(api, p, ents)
			m.identityPerturbations(api, p, ents)
			if r.WantSample() && i%997 == 3 {
				r.Sample(m.witness(p, map[string]any{"api": c05APINames[api], "entry0": fmt.Sprintf("%+v", ents[0])}))
			}
		})
	}
	ns := 0
	for _, s := range settingsSeen {
		if s {
			ns++
		}
	}
	r.Count("setting_values_covered", ns)
	r.Count("map.digests_tracked", len(m.seen))
	r.Note("not_asserted", []string{
		"channel.Record.SizeBytes (not a semantic field in the statement; randomised, never compared)",
		"Record.Index 0 vs actual index (same content); only a wrong non-zero index is required to be rejected",
		"Record.Epoch / EntryIdentity.Index as fields independent of ChannelEpoch / PreviousIndex (the code forces them to move together)",
		"refusals of out-of-domain inputs (id 0, timestamp <= 0) — outside the quantifier",
	})
}
