//go:build verif

// C06 unit "machine": PRNG event sequences against the pure channel state
// machine (pkg/channel/machine) with an online monitor after EVERY step.
//
// What is asserted (and only that; see the property statement):
//   - CheckpointHW <= HW <= LEO in every reached state;
//   - HW never decreases while (epoch, leader epoch, leader, role, status) is unchanged;
//   - a successful quorum-mode reply only when HW >= the waiter's last offset
//     (local mode: LEO >= it), only after a matching durable result, item-aligned
//     with the waiter's own records and with contiguous offsets;
//   - at most one answer per accepted append (reply ledger keyed by OpID; an
//     append whose waiter was dropped by an accepted fence change / cancel /
//     abort has been answered by the reactor and must never be answered by the
//     machine afterwards);
//   - a stored result / quorum receipt whose fence is not the current inflight
//     fence produces an empty decision and leaves the state deep-equal;
//   - ApplyMeta with an older (epoch, leader epoch) or the same fence and a
//     different leader is rejected with ErrStaleMeta and leaves the state deep-equal;
//     "older"/"same" are relative to the monitor's own fence: the fence and leader
//     of the last ACCEPTED meta, whatever its status (a tombstone counts);
//   - the committed watermark is a quorum watermark: when an ack or a stored
//     result raises HW, the new HW is covered by MinISR ISR members according to
//     the offsets the harness itself acknowledged (anchor: AdvanceHW).
//
// Preconditions the harness keeps (documented contract of the machine, enforced
// by the reactor): follower acks carry offsets <= LEO; stored results carry
// offsets handed out by a store model (base = store LEO + 1, last = base+n-1);
// a batch op id is not reused inside one (epoch, leader epoch); ISR lists have
// no duplicates.

package machine_test

import (
	"encoding/json"
	"errors"
	"fmt"
	"hash/fnv"
	"math/rand/v2"
	"reflect"
	"runtime/debug"
	"sort"
	"strings"
	"testing"

	ch "github.com/WuKongIM/WuKongIM/pkg/channel"
	"github.com/WuKongIM/WuKongIM/pkg/channel/machine"
	"github.com/WuKongIM/WuKongIM/pkg/verifkit"
)

const (
	c06Key   = ch.ChannelKey("1:c06")
	c06Local = ch.NodeID(1)
)

var c06ID = ch.ChannelID{ID: "c06", Type: 1}

var c06ErrStore = errors.New("c06: injected store error")

// ---------------------------------------------------------------------------
// model

type c06Waiter struct {
	op      ch.OpID
	mode    ch.CommitMode // normalised (0 -> quorum)
	omit    bool
	recs    []ch.Record // harness-owned copy of what was proposed
	first   uint64      // first offset, known once a matching durable result was delivered
	stored  bool
	storedT int // step index at which the durable result was delivered
}

type c06Batch struct {
	op      ch.OpID
	fence   ch.Fence
	waiters []*c06Waiter // proposal order, including waiters cancelled later
	nrec    int
}

type c06Result struct {
	batch   *c06Batch
	receipt bool
	base    uint64
	last    uint64
	hw      uint64
	err     error
	bad     string // non-empty: deliberately malformed receipt
}

type c06Model struct {
	pending  map[ch.OpID]*c06Waiter
	fate     map[ch.OpID]string // terminal fate of the latest incarnation of an op that is no longer pending
	inflight *c06Batch
	tasks    []*c06Batch  // emitted store tasks not yet executed by the store model
	held     []*c06Result // executed, not yet delivered
	old      []*c06Result // delivered at least once (duplicates)
	storeLEO uint64
	acked    map[ch.NodeID]uint64 // highest offset the harness ever acknowledged per follower
	usedOps  map[[3]uint64]bool   // (epoch, leader epoch, batch op) already proposed

	// the monitor's own fence: (epoch, leader epoch, leader) of the last ACCEPTED meta of any status
	fenceSet    bool
	fEpoch, fLE uint64
	fLeader     ch.NodeID
	lastDeleted bool      // the last accepted meta was a tombstone (StatusDeleted)
	metaLog     []ch.Meta // metas offered so far (delayed replays)
	nextMsg     uint64
	nextOp      uint64
}

type c06Case struct {
	r     *verifkit.Run
	rng   *rand.Rand
	s     *machine.ChannelState
	m     *c06Model
	trace []c06Ent
	cur   c06Ent // the call in progress (for panic witnesses)
	codes []string
	step  int
	bad   bool

	// non-triviality features
	sawQuorumByAck     bool
	sawQuorumByReceipt bool
	sawStaleResult     bool
	sawStaleMeta       bool
	sawTombstone       bool
}

// c06Clone makes a normalised deep copy (nil and empty slices/maps collapse),
// so two clones compare with reflect.DeepEqual iff the states are deep-equal.
func c06Clone(s *machine.ChannelState) *machine.ChannelState {
	c := *s
	c.Replicas = append([]ch.NodeID(nil), s.Replicas...)
	c.ISR = append([]ch.NodeID(nil), s.ISR...)
	c.PendingAppendOrder = append([]ch.OpID(nil), s.PendingAppendOrder...)
	c.Progress = make(map[ch.NodeID]machine.ReplicaProgress, len(s.Progress))
	for k, v := range s.Progress {
		c.Progress[k] = v
	}
	c.PendingAppends = make(map[ch.OpID]*machine.AppendWaiter, len(s.PendingAppends))
	for k, v := range s.PendingAppends {
		if v == nil {
			c.PendingAppends[k] = nil
			continue
		}
		w := *v
		w.Records = c06CloneRecords(v.Records)
		c.PendingAppends[k] = &w
	}
	if s.InflightAppend != nil {
		in := *s.InflightAppend
		in.Records = c06CloneRecords(s.InflightAppend.Records)
		in.WaiterOpIDs = append([]ch.OpID(nil), s.InflightAppend.WaiterOpIDs...)
		in.WaiterRecordCounts = append([]int(nil), s.InflightAppend.WaiterRecordCounts...)
		c.InflightAppend = &in
	}
	return &c
}

func c06CloneRecords(in []ch.Record) []ch.Record {
	out := make([]ch.Record, 0, len(in))
	for _, r := range in {
		r.Payload = append([]byte(nil), r.Payload...)
		out = append(out, r)
	}
	return out
}

type c06FenceTuple struct {
	epoch, le uint64
	leader    ch.NodeID
	role      ch.Role
	status    ch.Status
}

func c06Tuple(s *machine.ChannelState) c06FenceTuple {
	return c06FenceTuple{s.Epoch, s.LeaderEpoch, s.Leader, s.Role, s.Status}
}

// c06Snap is the cheap pre-transition snapshot used by the watermark monitor
// (ApplyMeta replaces the membership slices, it never edits them in place).
type c06Snap struct {
	tuple    c06FenceTuple
	HW, LEO  uint64
	Replicas []ch.NodeID
	ISR      []ch.NodeID
}

func c06Snapshot(s *machine.ChannelState) c06Snap {
	return c06Snap{tuple: c06Tuple(s), HW: s.HW, LEO: s.LEO, Replicas: s.Replicas, ISR: s.ISR}
}

// c06Ent is one trace entry; formatting is deferred until a witness or a
// sample is written (arguments are never mutated after logging).
type c06Ent struct {
	step   int
	code   string
	format string
	args   []any
}

func (e c06Ent) String() string {
	return fmt.Sprintf("%d:%s ", e.step, e.code) + fmt.Sprintf(e.format, e.args...)
}

func (c *c06Case) logf(code string, format string, args ...any) {
	c.codes = append(c.codes, code)
	c.trace = append(c.trace, c06Ent{c.step, code, format, args})
}

func (c *c06Case) traceStrings() []string {
	tr := c.trace
	if len(tr) > 90 {
		tr = tr[len(tr)-90:]
	}
	out := make([]string, 0, len(tr)+1)
	for _, e := range tr {
		out = append(out, e.String())
	}
	return out
}

// calling records the call about to be made and returns the (lazy) panic witness.
func (c *c06Case) calling(format string, args ...any) *c06Case {
	c.cur = c06Ent{c.step, "call", format, args}
	return c
}

// MarshalJSON renders the case as a panic witness: trace so far + the call in progress.
func (c *c06Case) MarshalJSON() ([]byte, error) {
	return json.Marshal(map[string]any{"trace": c.traceStrings(), "call": c.cur.String(), "state": c.stateLine()})
}

func (c *c06Case) stateLine() string {
	s := c.s
	pend := make([]string, 0, len(s.PendingAppends))
	for op, w := range s.PendingAppends {
		pend = append(pend, fmt.Sprintf("%d(m%d,t%d)", op, w.CommitMode, w.Target))
	}
	sort.Strings(pend)
	in := "-"
	if s.InflightAppend != nil {
		in = fmt.Sprint(s.InflightAppend.OpID)
	}
	return fmt.Sprintf("E%d/LE%d leader=%d role=%d st=%d isr=%v min=%d repl=%v LEO=%d HW=%d CP=%d progress=%v inflight=%s pending=%v",
		s.Epoch, s.LeaderEpoch, s.Leader, s.Role, s.Status, s.ISR, s.MinISR, s.Replicas, s.LEO, s.HW, s.CheckpointHW, s.Progress, in, pend)
}

func (c *c06Case) violate(sig string, detail string) {
	c.bad = true
	c.r.Violation(sig, map[string]any{"detail": detail, "step": c.step, "state_after": c.stateLine(), "trace": c.traceStrings()})
}

// ---------------------------------------------------------------------------
// monitor pieces

// afterStep runs the watermark monitor. before is the normalised clone taken
// before the transition.
func (c *c06Case) afterStep(before c06Snap) {
	s := c.s
	c.r.Count("monitor.states_checked", 1)
	if s.CheckpointHW > s.HW {
		c.violate("watermark-order:checkpoint>hw", fmt.Sprintf("CheckpointHW=%d HW=%d", s.CheckpointHW, s.HW))
		return
	}
	if s.HW > s.LEO {
		c.violate("watermark-order:hw>leo", fmt.Sprintf("HW=%d LEO=%d", s.HW, s.LEO))
		return
	}
	if err := s.CheckInvariants(); err != nil {
		c.violate("watermark-order:CheckInvariants", err.Error())
		return
	}
	if before.tuple == c06Tuple(s) {
		if s.HW < before.HW {
			c.violate("hw-decreased-within-fence", fmt.Sprintf("HW %d -> %d", before.HW, s.HW))
			return
		}
	} else if s.HW < before.HW {
		c.r.Count("monitor.hw_decrease_across_fence", 1)
	}
}

// quorumBound returns the MinISR-th highest offset over the current ISR
// according to what the harness acknowledged (local node: LEO), or 0,false when
// the current metadata cannot form a quorum.
func (c *c06Case) quorumBound() (uint64, bool) {
	s := c.s
	if s.MinISR <= 0 || len(s.ISR) < s.MinISR {
		return 0, false
	}
	ms := make([]uint64, 0, len(s.ISR))
	for _, n := range s.ISR {
		if n == s.LocalNode {
			ms = append(ms, s.LEO)
		} else {
			ms = append(ms, c.m.acked[n])
		}
	}
	sort.Slice(ms, func(i, j int) bool { return ms[i] > ms[j] })
	return ms[s.MinISR-1], true
}

func (c *c06Case) checkHWAdvance(before c06Snap, site string) {
	if c.bad || c.s.HW <= before.HW {
		return
	}
	c.r.Count("monitor.hw_advances."+site, 1)
	bound, ok := c.quorumBound()
	if !ok {
		c.violate("hw-advanced-without-quorum-config:"+site, fmt.Sprintf("HW %d -> %d with MinISR=%d ISR=%v", before.HW, c.s.HW, c.s.MinISR, c.s.ISR))
		return
	}
	if c.s.HW > bound {
		c.violate("hw-advanced-beyond-minisr-quorum:"+site, fmt.Sprintf("HW %d -> %d but only offset %d is held by MinISR=%d of ISR=%v (acked=%v, LEO=%d)", before.HW, c.s.HW, bound, c.s.MinISR, c.s.ISR, c.m.acked, c.s.LEO))
	}
}

// checkReplies runs the reply ledger over one decision. site names the kind of
// transition that produced the replies.
func (c *c06Case) checkReplies(replies []machine.Reply, site string) {
	for _, rep := range replies {
		if c.bad {
			return
		}
		c.r.Count("replies.total", 1)
		w := c.m.pending[rep.OpID]
		if w == nil {
			fate := c.m.fate[rep.OpID]
			if fate == "" {
				fate = "never-proposed"
			}
			c.violate("reply-once:reply-for-op-"+fate, fmt.Sprintf("reply for op %d (err=%v) at %s; the append is not outstanding (%s)", rep.OpID, rep.Err, site, fate))
			return
		}
		delete(c.m.pending, rep.OpID)
		c.m.fate[rep.OpID] = "already-replied"
		if rep.Kind != machine.ReplyKindAppend {
			c.violate("reply-kind", fmt.Sprintf("op %d kind %d", rep.OpID, rep.Kind))
			return
		}
		if rep.Err != nil {
			c.r.Count("replies.error", 1)
			continue
		}
		if !w.stored {
			c.violate("success-reply-before-durable-result", fmt.Sprintf("op %d answered OK at %s but no matching stored result/receipt was delivered for its batch", rep.OpID, site))
			return
		}
		items := rep.AppendItems
		if len(items) != len(w.recs) {
			c.violate("reply-items-misaligned:count", fmt.Sprintf("op %d: %d items for %d records", rep.OpID, len(items), len(w.recs)))
			return
		}
		for i, it := range items {
			want := w.first + uint64(i)
			if it.MessageSeq != want || it.Message.MessageSeq != want {
				c.violate("reply-offsets-not-contiguous", fmt.Sprintf("op %d item %d seq=%d/%d want %d (first=%d)", rep.OpID, i, it.MessageSeq, it.Message.MessageSeq, want, w.first))
				return
			}
			if it.Err != nil {
				c.violate("reply-item-error-in-success", fmt.Sprintf("op %d item %d err=%v", rep.OpID, i, it.Err))
				return
			}
			rec := w.recs[i]
			if it.MessageID != rec.ID || it.Message.MessageID != rec.ID || it.Message.ClientMsgNo != rec.ClientMsgNo || it.Message.FromUID != rec.FromUID {
				c.violate("reply-items-misaligned:identity", fmt.Sprintf("op %d item %d got id=%d no=%q want id=%d no=%q", rep.OpID, i, it.MessageID, it.Message.ClientMsgNo, rec.ID, rec.ClientMsgNo))
				return
			}
			if w.omit {
				if len(it.Message.Payload) != 0 {
					c.r.Count("replies.payload_present_despite_omit", 1)
				}
			} else if string(it.Message.Payload) != string(rec.Payload) {
				c.violate("reply-items-misaligned:payload", fmt.Sprintf("op %d item %d payload %q want %q", rep.OpID, i, it.Message.Payload, rec.Payload))
				return
			}
		}
		if len(items) > 0 && !reflect.DeepEqual(rep.Append, items[0]) {
			c.violate("reply-items-misaligned:first", fmt.Sprintf("op %d Append != AppendItems[0]", rep.OpID))
			return
		}
		last := w.first + uint64(len(w.recs)) - 1
		switch w.mode {
		case ch.CommitModeQuorum:
			c.r.Count("replies.ok_quorum", 1)
			if c.s.HW < last {
				c.violate("quorum-reply-before-hw-covers", fmt.Sprintf("op %d answered OK at %s with HW=%d < last offset %d", rep.OpID, site, c.s.HW, last))
				return
			}
			if w.storedT < c.step {
				switch site {
				case "ack":
					c.sawQuorumByAck = true
					c.r.Count("replies.ok_quorum_by_later_ack", 1)
				default:
					c.r.Count("replies.ok_quorum_by_later_"+site, 1)
				}
			} else if site == "receipt" {
				c.sawQuorumByReceipt = true
				c.r.Count("replies.ok_quorum_by_receipt", 1)
			} else {
				c.r.Count("replies.ok_quorum_at_store", 1)
			}
		case ch.CommitModeLocal:
			c.r.Count("replies.ok_local", 1)
			if c.s.LEO < last {
				c.violate("local-reply-before-leo-covers", fmt.Sprintf("op %d answered OK at %s with LEO=%d < last offset %d", rep.OpID, site, c.s.LEO, last))
				return
			}
		default:
			c.violate("reply-unknown-mode", fmt.Sprint(w.mode))
			return
		}
	}
}

// ---------------------------------------------------------------------------
// generators and steps

func c06Subset(rng *rand.Rand, from []ch.NodeID, n int) []ch.NodeID {
	p := rng.Perm(len(from))
	out := make([]ch.NodeID, 0, n)
	for _, i := range p[:n] {
		out = append(out, from[i])
	}
	sort.Slice(out, func(i, j int) bool { return out[i] < out[j] })
	return out
}

func c06Has(xs []ch.NodeID, n ch.NodeID) bool {
	for _, x := range xs {
		if x == n {
			return true
		}
	}
	return false
}

var c06Universe = []ch.NodeID{1, 2, 3, 4, 5}

func (c *c06Case) genMembership(leader ch.NodeID) (replicas, isr []ch.NodeID, minISR int) {
	rng := c.rng
	n := 1 + rng.IntN(4)
	if rng.IntN(3) > 0 {
		n = 3
	}
	replicas = c06Subset(rng, c06Universe, n)
	if !c06Has(replicas, leader) && rng.IntN(10) > 0 {
		replicas[rng.IntN(len(replicas))] = leader
		// keep it a set
		seen := map[ch.NodeID]bool{}
		out := replicas[:0]
		for _, x := range replicas {
			if !seen[x] {
				seen[x] = true
				out = append(out, x)
			}
		}
		replicas = out
		sort.Slice(replicas, func(i, j int) bool { return replicas[i] < replicas[j] })
	}
	k := 1 + rng.IntN(len(replicas))
	if rng.IntN(2) == 0 {
		k = len(replicas)
	}
	isr = c06Subset(rng, replicas, k)
	if rng.IntN(25) == 0 { // ISR member outside the replica set (not validated by the machine)
		isr = append(isr, 5)
		seen := map[ch.NodeID]bool{}
		out := isr[:0]
		for _, x := range isr {
			if !seen[x] {
				seen[x] = true
				out = append(out, x)
			}
		}
		isr = out
	}
	minISR = 1 + rng.IntN(len(isr))
	if len(isr) >= 2 && rng.IntN(2) == 0 {
		minISR = 2
	}
	return
}

var c06StatusNames = map[ch.Status]string{ch.StatusCreating: "creating", ch.StatusActive: "active", ch.StatusDeleting: "deleting", ch.StatusDeleted: "deleted"}

// fenceClass classifies an offered meta against the MONITOR's fence (the fence
// of the last accepted meta, whatever its status), as the statement words it.
func (m *c06Model) fenceClass(meta ch.Meta) string {
	switch {
	case !m.fenceSet:
		return "first"
	case meta.Epoch < m.fEpoch:
		return "older-epoch"
	case meta.Epoch == m.fEpoch && meta.LeaderEpoch < m.fLE:
		return "older-leader-epoch"
	case meta.Epoch == m.fEpoch && meta.LeaderEpoch == m.fLE && meta.Leader != m.fLeader:
		return "same-fence-other-leader"
	case meta.Epoch == m.fEpoch && meta.LeaderEpoch == m.fLE:
		return "same-fence-same-leader"
	default:
		return "newer-fence"
	}
}

func (c *c06Case) stepMeta() {
	rng, s, m := c.rng, c.s, c.m
	// Everything is generated relative to the monitor's own fence (highest
	// (epoch, leader epoch) of any ACCEPTED meta and that meta's leader), never
	// relative to what the state happens to store.
	meta := ch.Meta{Key: c06Key, ID: c06ID, Epoch: m.fEpoch, LeaderEpoch: m.fLE, Leader: m.fLeader, Status: ch.StatusActive}
	pickLeader := func() ch.NodeID {
		if rng.IntN(100) < 75 {
			return c06Local
		}
		return c06Universe[1+rng.IntN(len(c06Universe)-1)]
	}
	kinds := []string{"fresh", "refresh", "stale-epoch", "stale-leader-epoch", "same-fence-leader-switch", "replay", "tombstone-higher", "tombstone-equal", "tombstone-lower", "bad-minisr", "bad-identity"}
	weights := []int{30, 24, 8, 8, 8, 6, 5, 2, 2, 4, 3}
	if m.lastDeleted {
		weights = []int{24, 8, 14, 14, 12, 16, 3, 2, 2, 3, 2}
	}
	kind := "fresh"
	if m.fenceSet {
		tot := 0
		for _, w := range weights {
			tot += w
		}
		x := rng.IntN(tot)
		for i, w := range weights {
			if x < w {
				kind = kinds[i]
				break
			}
			x -= w
		}
	}
	if kind == "replay" && len(m.metaLog) == 0 {
		kind = "refresh"
	}
	if (kind == "stale-epoch" || kind == "tombstone-lower") && m.fEpoch == 0 && m.fLE == 0 {
		kind = "refresh"
	}
	higher := func() {
		if !m.fenceSet {
			meta.Epoch = 1 + uint64(rng.IntN(3))
			meta.LeaderEpoch = 1 + uint64(rng.IntN(3))
		} else if rng.IntN(3) == 0 {
			meta.Epoch = m.fEpoch + 1
			meta.LeaderEpoch = m.fLE + uint64(rng.IntN(2))
			if rng.IntN(4) == 0 && m.fLE > 0 {
				meta.LeaderEpoch = m.fLE - 1 // allowed: a higher epoch dominates
			}
		} else {
			meta.LeaderEpoch = m.fLE + 1
		}
		meta.Leader = pickLeader()
	}
	lower := func() {
		if m.fEpoch > 0 && (m.fLE == 0 || rng.IntN(2) == 0) {
			meta.Epoch = m.fEpoch - 1
			meta.LeaderEpoch = m.fLE + uint64(rng.IntN(3))
		} else {
			meta.LeaderEpoch = m.fLE - 1
		}
		if rng.IntN(2) == 0 {
			meta.Leader = pickLeader()
		}
	}
	replayed := false
	switch kind {
	case "fresh", "bad-minisr", "bad-identity", "tombstone-higher":
		higher()
	case "refresh", "tombstone-equal":
	case "stale-epoch":
		if m.fEpoch == 0 {
			lower()
		} else {
			meta.Epoch = m.fEpoch - 1
			meta.LeaderEpoch = m.fLE + uint64(rng.IntN(3))
			meta.Leader = pickLeader()
		}
	case "stale-leader-epoch":
		if m.fLE == 0 {
			kind = "refresh"
		} else {
			meta.LeaderEpoch = m.fLE - 1
			if rng.IntN(2) == 0 {
				meta.Leader = pickLeader()
			}
		}
	case "tombstone-lower":
		lower()
	case "same-fence-leader-switch":
		for {
			meta.Leader = c06Universe[rng.IntN(len(c06Universe))]
			if meta.Leader != m.fLeader {
				break
			}
		}
	case "replay":
		// a delayed copy of any meta offered earlier in this history (accepted or not)
		meta = m.metaLog[rng.IntN(len(m.metaLog))]
		replayed = true
	}
	if !replayed {
		meta.Replicas, meta.ISR, meta.MinISR = c.genMembership(meta.Leader)
		if kind == "refresh" && rng.IntN(3) > 0 {
			// mostly keep membership, only move MinISR / ISR
			meta.Replicas = append([]ch.NodeID(nil), s.Replicas...)
			if len(meta.Replicas) == 0 {
				meta.Replicas = []ch.NodeID{meta.Leader}
			}
			k := 1 + rng.IntN(len(meta.Replicas))
			meta.ISR = c06Subset(rng, meta.Replicas, k)
			meta.MinISR = 1 + rng.IntN(len(meta.ISR))
		}
		// every status value the type defines
		switch x := rng.IntN(100); {
		case x < 86:
			meta.Status = ch.StatusActive
		case x < 92:
			meta.Status = ch.StatusCreating
		case x < 97:
			meta.Status = ch.StatusDeleting
		default:
			meta.Status = ch.StatusDeleted
		}
		if kind == "refresh" && rng.IntN(5) > 0 && s.Status != 0 {
			meta.Status = s.Status
		}
		if strings.HasPrefix(kind, "tombstone") {
			meta.Status = ch.StatusDeleted
		}
		if m.lastDeleted && !strings.HasPrefix(kind, "tombstone") && rng.IntN(4) > 0 {
			meta.Status = ch.StatusActive // delayed ordinary metadata arriving after the tombstone
		}
		if kind == "bad-minisr" {
			if rng.IntN(2) == 0 {
				meta.MinISR = 0
			} else {
				meta.MinISR = len(meta.ISR) + 1
			}
		}
		if kind == "bad-identity" {
			if rng.IntN(2) == 0 {
				meta.Key = "1:other"
			} else {
				meta.ID = ch.ChannelID{ID: "other", Type: 1}
			}
		}
		if rng.IntN(6) == 0 {
			meta.Key = "" // allowed: empty key is not compared
			if kind == "bad-identity" {
				meta.ID = ch.ChannelID{ID: "other", Type: 1}
			}
		}
	} else if rng.IntN(3) == 0 {
		meta.Status = []ch.Status{ch.StatusCreating, ch.StatusActive, ch.StatusDeleting, ch.StatusDeleted}[rng.IntN(4)]
	}
	if len(m.metaLog) < 64 {
		m.metaLog = append(m.metaLog, meta)
	}

	// Classification by the statement, against the monitor's fence.
	class := m.fenceClass(meta)
	stale := class == "older-epoch" || class == "older-leader-epoch" || class == "same-fence-other-leader"
	staleKind := map[string]string{"older-epoch": "stale-epoch", "older-leader-epoch": "stale-leader-epoch", "same-fence-other-leader": "same-fence-leader-switch"}[class]
	afterTomb := m.lastDeleted
	// Which appends the reactor answers itself when this meta is accepted
	// (metadataWouldFenceState): fence from the monitor, role/status as observable.
	nextRole := ch.RoleFollower
	if meta.Leader == s.LocalNode {
		nextRole = ch.RoleLeader
	}
	fenceChange := m.fEpoch != meta.Epoch || m.fLE != meta.LeaderEpoch || m.fLeader != meta.Leader || s.Role != nextRole || s.Status != meta.Status

	full := c06Clone(s)
	before := c06Snapshot(s)
	var d machine.Decision
	if c.r.Guard("ApplyMeta", c.calling("ApplyMeta(%+v)", meta), func() { d = s.ApplyMeta(meta) }) {
		c.bad = true
		return
	}
	stName := c06StatusNames[meta.Status]
	c.r.Count("events.meta."+kind, 1)
	c.r.Count("meta.status."+stName+".offered", 1)
	code := "M+"
	if d.Err != nil {
		code = "M-"
	}
	if stale {
		code = "Ms"
	}
	if meta.Status == ch.StatusDeleted {
		code += "D"
	}
	if afterTomb {
		code += "t"
	}
	c.logf(code, "meta %s class=%s E%d/LE%d leader=%d repl=%v isr=%v min=%d st=%s key=%q (monitor fence E%d/LE%d leader=%d tombstoned=%v) -> err=%v", kind, class, meta.Epoch, meta.LeaderEpoch, meta.Leader, meta.Replicas, meta.ISR, meta.MinISR, stName, meta.Key, m.fEpoch, m.fLE, m.fLeader, afterTomb, d.Err)
	outcome := "accepted"
	if d.Err != nil {
		outcome = "rejected"
	}
	c.r.Count("meta.status."+stName+"."+outcome, 1)
	if afterTomb {
		c.r.Count("meta.after_tombstone."+class+"."+outcome, 1)
		c.r.Count("meta.after_tombstone.status_"+stName+"."+outcome, 1)
	}
	if stale {
		c.sawStaleMeta = true
		c.r.Count("meta.stale_offered", 1)
		sigKind := staleKind
		if afterTomb {
			sigKind = "after-deleted-meta"
		}
		if d.Err == nil {
			c.violate("stale-meta-accepted:"+sigKind, fmt.Sprintf("last accepted meta had fence E%d/LE%d leader=%d (tombstone=%v); meta E%d/LE%d leader=%d status=%s (%s) was accepted; state before: E%d/LE%d leader=%d status=%d", m.fEpoch, m.fLE, m.fLeader, afterTomb, meta.Epoch, meta.LeaderEpoch, meta.Leader, stName, class, full.Epoch, full.LeaderEpoch, full.Leader, full.Status))
			return
		}
		if !errors.Is(d.Err, ch.ErrStaleMeta) {
			c.violate("stale-meta-wrong-error:"+sigKind, fmt.Sprintf("err=%v", d.Err))
			return
		}
		if !reflect.DeepEqual(full, c06Clone(s)) {
			c.violate("stale-meta-changed-state:"+sigKind, fmt.Sprintf("before: %+v", full))
			return
		}
	}
	if d.Err != nil {
		c.r.Count("meta.rejected", 1)
		if !stale {
			c.r.Count("meta.rejected_not_stale", 1)
		}
	} else {
		c.r.Count("meta.accepted", 1)
		if len(d.Replies) != 0 {
			c.checkReplies(d.Replies, "meta")
		}
		if fenceChange {
			c.r.Count("meta.accepted_fence_change", 1)
			// The reactor answers every outstanding append with ErrStaleMeta
			// before it applies a fencing meta (clearFencedRuntimeWork); from
			// here on those appends are answered.
			if len(m.pending) > 0 {
				c.r.Count("meta.fence_cleared_waiters", len(m.pending))
			}
			for op := range m.pending {
				delete(m.pending, op)
				m.fate[op] = "answered-by-fence-change"
			}
			m.inflight = nil
		}
		// the monitor's fence: highest accepted (a stale accept was reported above and ended the case)
		m.fenceSet = true
		m.fEpoch, m.fLE, m.fLeader = meta.Epoch, meta.LeaderEpoch, meta.Leader
		m.lastDeleted = meta.Status == ch.StatusDeleted
		if m.lastDeleted {
			c.sawTombstone = true
			c.r.Count("meta.tombstones_accepted."+class, 1)
		}
	}
	c.afterStep(before)
}

func (c *c06Case) newRecords(n int) []ch.Record {
	out := make([]ch.Record, n)
	for i := range out {
		c.m.nextMsg++
		id := c.m.nextMsg
		out[i] = ch.Record{ID: 1000 + id, FromUID: fmt.Sprintf("u%d", id%3), ClientMsgNo: fmt.Sprintf("m%d", id), Payload: []byte(fmt.Sprintf("p%d", id)), SizeBytes: 2}
	}
	return out
}

func (c *c06Case) pickOp() ch.OpID {
	if c.rng.IntN(4) == 0 {
		return ch.OpID(1 + c.rng.IntN(8)) // small space: collisions with outstanding / old ops
	}
	c.m.nextOp++
	return ch.OpID(100 + c.m.nextOp)
}

func (c *c06Case) stepPropose() {
	rng, s := c.rng, c.s
	// batch op id: unique inside one (epoch, leader epoch); reuse across fences is deliberate.
	bop := ch.OpID(1 + rng.IntN(6))
	if rng.IntN(3) == 0 {
		bop = c.pickOp()
	}
	for c.m.usedOps[[3]uint64{s.Epoch, s.LeaderEpoch, uint64(bop)}] {
		c.m.nextOp++
		bop = ch.OpID(100 + c.m.nextOp)
	}
	single := rng.IntN(3) == 0
	shape := "ok"
	var cmd machine.AppendBatchCommand
	cmd.BatchOpID = bop
	nw := 1
	if !single {
		nw = 1 + rng.IntN(4)
	}
	modes := []ch.CommitMode{0, ch.CommitModeQuorum, ch.CommitModeQuorum, ch.CommitModeLocal}
	for i := 0; i < nw; i++ {
		op := c.pickOp()
		if single {
			op = bop
		}
		cmd.Waiters = append(cmd.Waiters, machine.AppendBatchWaiter{OpID: op, CommitMode: modes[rng.IntN(len(modes))], OmitResultPayload: rng.IntN(5) == 0,
			Records: c.newRecords(1 + rng.IntN(3)), ServerAllocatedMessageIDs: rng.IntN(2) == 0})
	}
	if !single {
		switch x := rng.IntN(100); {
		case x < 6 && nw >= 2:
			cmd.Waiters[nw-1].OpID = cmd.Waiters[0].OpID
			shape = "dup-op"
		case x < 11:
			cmd.Waiters[rng.IntN(nw)].Records = nil
			shape = "empty-waiter"
		case x < 14:
			cmd.Waiters = nil
			shape = "no-waiters"
		}
	} else if rng.IntN(15) == 0 {
		cmd.Waiters[0].Records = nil
		shape = "empty-waiter"
	}
	// harness-owned copies (the machine must not alias caller records, but we do not rely on it)
	mine := make([]*c06Waiter, 0, len(cmd.Waiters))
	for _, w := range cmd.Waiters {
		mode := w.CommitMode
		if mode == 0 {
			mode = ch.CommitModeQuorum
		}
		mine = append(mine, &c06Waiter{op: w.OpID, mode: mode, omit: w.OmitResultPayload, recs: c06CloneRecords(w.Records)})
	}
	before := c06Snapshot(s)
	var d machine.Decision
	if c.r.Guard("ProposeAppend", c.calling("Propose single=%v %+v", single, cmd), func() {
		if single {
			d = s.ProposeAppend(machine.AppendCommand{OpID: bop, CommitMode: cmd.Waiters[0].CommitMode, Records: cmd.Waiters[0].Records})
			mine[0].omit = false
		} else {
			d = s.ProposeAppendBatch(cmd)
		}
	}) {
		c.bad = true
		return
	}
	ops := make([]string, 0, len(mine))
	for _, w := range mine {
		ops = append(ops, fmt.Sprintf("%d:m%d:n%d", w.op, w.mode, len(w.recs)))
	}
	accepted := d.Err == nil && len(d.Tasks) == 1 && d.Tasks[0].Kind == machine.TaskKindStoreAppend
	code := "P-"
	if accepted {
		code = fmt.Sprintf("P%d", len(mine))
	}
	c.logf(code, "propose single=%v batch=%d waiters=%v shape=%s -> err=%v tasks=%d", single, bop, ops, shape, d.Err, len(d.Tasks))
	c.r.Count("events.propose."+shape, 1)
	if len(d.Replies) != 0 {
		c.checkReplies(d.Replies, "propose")
	}
	if accepted {
		c.r.Count("propose.accepted", 1)
		c.m.usedOps[[3]uint64{s.Epoch, s.LeaderEpoch, uint64(bop)}] = true
		b := &c06Batch{op: bop, fence: d.Tasks[0].Fence, waiters: mine}
		for _, w := range mine {
			b.nrec += len(w.recs)
			if c.m.pending[w.op] != nil {
				c.r.Count("ledger.op_accepted_while_outstanding", 1)
			}
			c.m.pending[w.op] = w
			delete(c.m.fate, w.op)
			if w.mode == ch.CommitModeQuorum {
				c.r.Count("propose.quorum_waiters", 1)
			} else {
				c.r.Count("propose.local_waiters", 1)
			}
		}
		if d.Tasks[0].StoreAppend == nil || len(d.Tasks[0].StoreAppend.Records) != b.nrec {
			c.r.Count("propose.task_record_count_mismatch", 1)
		}
		c.m.inflight = b
		c.m.tasks = append(c.m.tasks, b)
	} else {
		c.r.Count("propose.rejected", 1)
		if d.Err != nil {
			c.r.Count("propose.rejected."+d.Err.Error(), 1)
		}
	}
	c.afterStep(before)
}

// execTask runs the oldest (or a random) emitted store task in the store model
// and returns its result.
func (c *c06Case) execTask() *c06Result {
	rng := c.rng
	if len(c.m.tasks) == 0 {
		return nil
	}
	i := 0
	if rng.IntN(5) == 0 {
		i = rng.IntN(len(c.m.tasks))
	}
	b := c.m.tasks[i]
	c.m.tasks = append(c.m.tasks[:i], c.m.tasks[i+1:]...)
	res := &c06Result{batch: b}
	n := uint64(b.nrec)
	switch x := rng.IntN(100); {
	case x < 10:
		res.err = c06ErrStore
		res.receipt = rng.IntN(2) == 0
	case x < 58:
		res.base = c.m.storeLEO + 1
		res.last = res.base + n - 1
		c.m.storeLEO = res.last
	case x < 86:
		res.receipt = true
		res.base = c.m.storeLEO + 1
		res.last = res.base + n - 1
		res.hw = res.last
		c.m.storeLEO = res.last
	case x < 90:
		// well-formed receipt for an arbitrary range (the machine does not know the store)
		res.receipt = true
		res.base = 1 + uint64(rng.IntN(int(c.m.storeLEO)+6))
		res.last = res.base + n - 1
		res.hw = res.last
		if res.last > c.m.storeLEO {
			c.m.storeLEO = res.last
		}
	default:
		res.receipt = true
		res.base = c.m.storeLEO + 1
		res.last = res.base + n - 1
		res.hw = res.last
		switch rng.IntN(5) {
		case 0:
			res.bad = "first=0"
			res.base = 0
			res.last = n - 1
			res.hw = res.last
		case 1:
			res.bad = "last<first"
			res.last = res.base - 1
			res.hw = res.last
		case 2:
			res.bad = "count+1"
			res.last++
			res.hw = res.last
		case 3:
			res.bad = "hw>last"
			res.hw = res.last + 1 + uint64(rng.IntN(3))
		case 4:
			res.bad = "hw<last"
			if res.last == 0 {
				res.hw = 1
			} else {
				res.hw = res.last - 1
			}
		}
	}
	return res
}

// deliver hands a result to the machine with the given fence and judges it.
func (c *c06Case) deliver(res *c06Result, fence ch.Fence, how string) {
	s := c.s
	matches := fence.ChannelKey == s.Key && fence.Generation == s.Generation && fence.Epoch == s.Epoch && fence.LeaderEpoch == s.LeaderEpoch &&
		c.m.inflight != nil && c.m.inflight.op == fence.OpID
	if matches && c.m.inflight != res.batch {
		// cannot happen under the harness preconditions (batch op unique per fence)
		c.r.Count("deliver.matching_fence_of_other_batch_skipped", 1)
		return
	}
	var full *machine.ChannelState
	if !matches {
		full = c06Clone(s)
	}
	before := c06Snapshot(s)
	var d machine.Decision
	site := "stored"
	if res.receipt {
		site = "receipt"
	}
	if c.r.Guard("Apply:"+site, c.calling("%s fence=%+v base=%d last=%d hw=%d err=%v", site, fence, res.base, res.last, res.hw, res.err), func() {
		if res.receipt {
			d = s.ApplyQuorumCommitted(machine.QuorumCommittedResult{Fence: fence, First: res.base, Last: res.last, HW: res.hw, Err: res.err})
		} else {
			d = s.ApplyAppendStored(machine.AppendStoredResult{Fence: fence, BaseOffset: res.base, LastOffset: res.last, Err: res.err})
		}
	}) {
		c.bad = true
		return
	}
	code := "R"
	if res.receipt {
		code = "Q"
	}
	switch {
	case !matches:
		code += "~"
	case res.err != nil:
		code += "e"
	case res.bad != "":
		code += "x"
	default:
		code += "="
	}
	c.logf(code, "%s %s fence={g%d E%d/LE%d op%d key=%s} base=%d last=%d hw=%d err=%v bad=%q matches=%v -> replies=%d", site, how, fence.Generation, fence.Epoch, fence.LeaderEpoch, fence.OpID, fence.ChannelKey, res.base, res.last, res.hw, res.err, res.bad, matches, len(d.Replies))
	c.r.Count("events.deliver."+site+"."+how, 1)
	if !matches {
		c.sawStaleResult = true
		c.r.Count("deliver.stale_fence", 1)
		if d.Err != nil || len(d.Replies) != 0 || len(d.Tasks) != 0 || len(d.Signals) != 0 {
			c.violate("stale-fence-result-produced-output:"+site+":"+how, fmt.Sprintf("decision=%+v", d))
			return
		}
		if !reflect.DeepEqual(full, c06Clone(s)) {
			c.violate("stale-fence-result-changed-state:"+site+":"+how, fmt.Sprintf("before: LEO=%d HW=%d inflight=%v pending=%d", full.LEO, full.HW, full.InflightAppend != nil, len(full.PendingAppends)))
			return
		}
		c.afterStep(before)
		return
	}
	c.r.Count("deliver.matching", 1)
	// the batch is resolved
	c.m.inflight = nil
	if res.err == nil && res.bad == "" {
		off := res.base
		for _, w := range res.batch.waiters {
			w.first = off
			w.stored = true
			w.storedT = c.step
			off += uint64(len(w.recs))
		}
	}
	c.checkReplies(d.Replies, site)
	if c.bad {
		return
	}
	if res.err != nil || res.bad != "" {
		// every still-outstanding waiter of the batch must have been answered (with an error) — not
		// part of the statement; only counted.
		for _, w := range res.batch.waiters {
			if c.m.pending[w.op] == w {
				c.r.Count("deliver.failed_batch_left_waiter_outstanding", 1)
			}
		}
	}
	c.afterStep(before)
	if c.bad {
		return
	}
	if res.receipt {
		if s.HW > before.HW && (res.err != nil || res.bad != "" || s.HW > res.hw) {
			c.violate("hw-advanced-beyond-receipt", fmt.Sprintf("HW %d -> %d receipt hw=%d err=%v bad=%q", before.HW, s.HW, res.hw, res.err, res.bad))
		}
	} else {
		c.checkHWAdvance(before, "stored")
	}
}

func (c *c06Case) stepExec() {
	res := c.execTask()
	if res == nil {
		return
	}
	if c.rng.IntN(100) < 70 {
		c.deliver(res, res.batch.fence, "now")
		c.m.old = append(c.m.old, res)
	} else {
		c.logf("H", "store executed batch %d (held) base=%d last=%d err=%v", res.batch.op, res.base, res.last, res.err)
		c.m.held = append(c.m.held, res)
	}
}

func (c *c06Case) stepDeliverHeld() {
	if len(c.m.held) == 0 {
		return
	}
	i := 0
	if c.rng.IntN(3) == 0 {
		i = c.rng.IntN(len(c.m.held))
	}
	res := c.m.held[i]
	c.m.held = append(c.m.held[:i], c.m.held[i+1:]...)
	c.deliver(res, res.batch.fence, "late")
	c.m.old = append(c.m.old, res)
}

// stepDeliverHostile delivers a result that must not match: a duplicate of an
// already delivered result, or a fabricated result whose fence differs from the
// current inflight fence in exactly one field.
func (c *c06Case) stepDeliverHostile() {
	rng, s := c.rng, c.s
	if c.m.inflight != nil && rng.IntN(3) > 0 {
		f := c.m.inflight.fence
		how := ""
		switch rng.IntN(7) {
		case 0:
			f.LeaderEpoch++
			how = "near:le+1"
		case 1:
			if f.LeaderEpoch == 0 {
				f.LeaderEpoch = 7
			} else {
				f.LeaderEpoch--
			}
			how = "near:le-1"
		case 2:
			f.Epoch++
			how = "near:epoch+1"
		case 3:
			if f.Epoch == 0 {
				f.Epoch = 7
			} else {
				f.Epoch--
			}
			how = "near:epoch-1"
		case 4:
			f.Generation += 1 + uint64(rng.IntN(2))
			how = "near:generation"
		case 5:
			f.ChannelKey = "1:other"
			how = "near:key"
		case 6:
			f.OpID += ch.OpID(1 + rng.IntN(3))
			how = "near:op"
		}
		n := uint64(c.m.inflight.nrec)
		res := &c06Result{batch: c.m.inflight, receipt: rng.IntN(2) == 0, base: c.m.storeLEO + 1}
		res.last = res.base + n - 1
		res.hw = res.last
		if rng.IntN(6) == 0 {
			res.err = c06ErrStore
		}
		_ = s
		c.deliver(res, f, how)
		return
	}
	if len(c.m.old) == 0 {
		return
	}
	res := c.m.old[rng.IntN(len(c.m.old))]
	dup := *res
	if rng.IntN(3) == 0 {
		dup.receipt = !dup.receipt
		dup.hw = dup.last
	}
	c.deliver(&dup, res.batch.fence, "dup")
}

func (c *c06Case) stepAck() {
	rng, s := c.rng, c.s
	var f ch.NodeID
	switch x := rng.IntN(100); {
	case x < 70 && len(s.ISR) > 0:
		f = s.ISR[rng.IntN(len(s.ISR))]
	case x < 85 && len(s.Replicas) > 0:
		f = s.Replicas[rng.IntN(len(s.Replicas))]
	default:
		f = ch.NodeID(1 + rng.IntN(7)) // includes non-replicas and unknown nodes
	}
	// documented precondition: offset <= LEO
	var off uint64
	switch x := rng.IntN(100); {
	case x < 45:
		off = s.LEO
	case x < 60 && s.HW < s.LEO:
		off = s.HW + 1
	case x < 75 && len(s.PendingAppends) > 0:
		var targets []uint64
		for _, w := range s.PendingAppends {
			if w.Target != 0 && w.Target <= s.LEO {
				targets = append(targets, w.Target)
			}
		}
		sort.Slice(targets, func(i, j int) bool { return targets[i] < targets[j] })
		if len(targets) > 0 {
			off = targets[rng.IntN(len(targets))]
		}
	default:
		off = uint64(rng.IntN(int(s.LEO) + 1))
	}
	if off > s.LEO {
		off = s.LEO
	}
	if off > c.m.acked[f] {
		c.m.acked[f] = off
	}
	before := c06Snapshot(s)
	var d machine.Decision
	if c.r.Guard("ApplyFollowerAck", c.calling("ApplyFollowerAck(follower=%d off=%d)", f, off), func() {
		d = s.ApplyFollowerAck(machine.FollowerAck{Follower: f, MatchOffset: off})
	}) {
		c.bad = true
		return
	}
	code := "A"
	if s.HW > before.HW {
		code = "A^"
	}
	if len(d.Replies) > 0 {
		code += "r"
	}
	c.logf(code, "ack follower=%d off=%d (replica=%v isr=%v) -> HW %d->%d replies=%d", f, off, c06Has(before.Replicas, f), c06Has(before.ISR, f), before.HW, s.HW, len(d.Replies))
	c.r.Count("events.ack", 1)
	if !c06Has(before.Replicas, f) {
		c.r.Count("events.ack_non_replica", 1)
	}
	c.checkReplies(d.Replies, "ack")
	if c.bad {
		return
	}
	c.afterStep(before)
	c.checkHWAdvance(before, "ack")
}

func (c *c06Case) stepCancel() {
	rng, s := c.rng, c.s
	var op ch.OpID
	if len(c.m.pending) > 0 && rng.IntN(4) > 0 {
		ops := make([]ch.OpID, 0, len(c.m.pending))
		for o := range c.m.pending {
			ops = append(ops, o)
		}
		sort.Slice(ops, func(i, j int) bool { return ops[i] < ops[j] })
		op = ops[rng.IntN(len(ops))]
	} else {
		op = ch.OpID(1 + rng.IntN(10))
	}
	before := c06Snapshot(s)
	var ok bool
	if c.r.Guard("CancelAppendWaiter", c.calling("CancelAppendWaiter(%d)", op), func() { ok = s.CancelAppendWaiter(op) }) {
		c.bad = true
		return
	}
	code := "C-"
	if ok {
		code = "C+"
	}
	c.logf(code, "cancel op=%d -> %v", op, ok)
	c.r.Count("events.cancel", 1)
	if ok {
		c.r.Count("cancel.removed", 1)
		if c.m.pending[op] == nil {
			c.r.Count("ledger.cancel_of_unknown_waiter", 1)
		}
		delete(c.m.pending, op)
		c.m.fate[op] = "cancelled"
	}
	c.afterStep(before)
}

func (c *c06Case) stepAbort() {
	rng, s := c.rng, c.s
	var bop ch.OpID
	if c.m.inflight != nil && rng.IntN(3) > 0 {
		bop = c.m.inflight.op
	} else {
		bop = ch.OpID(1 + rng.IntN(8))
	}
	before := c06Snapshot(s)
	if c.r.Guard("AbortAppendBatchProposal", c.calling("AbortAppendBatchProposal(%d)", bop), func() { s.AbortAppendBatchProposal(bop) }) {
		c.bad = true
		return
	}
	hit := c.m.inflight != nil && c.m.inflight.op == bop
	code := "B-"
	if hit {
		code = "B+"
	}
	c.logf(code, "abort batch=%d hit=%v", bop, hit)
	c.r.Count("events.abort", 1)
	if hit {
		c.r.Count("abort.hit", 1)
		for _, w := range c.m.inflight.waiters {
			if c.m.pending[w.op] == w {
				delete(c.m.pending, w.op)
				c.m.fate[w.op] = "aborted"
			}
		}
		// the store task may still run and report later: it stays in tasks/held and is stale then
		c.m.inflight = nil
	}
	c.afterStep(before)
}

// stepCheckpoint emulates the reactor publishing a completed store checkpoint
// (lifecycle_runtime.go: rc.state.CheckpointHW = result.Checkpoint.HW), which
// is always a committed offset, so that CheckpointHW <= HW is not vacuous.
func (c *c06Case) stepCheckpoint() {
	s := c.s
	if s.HW <= s.CheckpointHW {
		return
	}
	before := c06Snapshot(s)
	s.CheckpointHW += 1 + uint64(c.rng.IntN(int(s.HW-s.CheckpointHW)))
	c.logf("K", "checkpoint published CP=%d", s.CheckpointHW)
	c.r.Count("events.checkpoint", 1)
	c.afterStep(before)
}

func c06RunCase(r *verifkit.Run, idx int, rng *rand.Rand) {
	gen := uint64(1 + rng.IntN(3))
	s := machine.NewChannelState(c06Key, c06Local, gen)
	// store load as done by the reactor before the first ApplyMeta
	if rng.IntN(3) == 0 {
		s.LEO = uint64(rng.IntN(12))
		s.HW = uint64(rng.IntN(int(s.LEO) + 1))
		s.CheckpointHW = uint64(rng.IntN(int(s.HW) + 1))
	}
	c := &c06Case{r: r, rng: rng, s: s, m: &c06Model{pending: map[ch.OpID]*c06Waiter{}, fate: map[ch.OpID]string{}, acked: map[ch.NodeID]uint64{}, usedOps: map[[3]uint64]bool{}, storeLEO: s.LEO}}
	n := 25 + rng.IntN(46)
	c.logf("I", "init gen=%d LEO=%d HW=%d CP=%d", gen, s.LEO, s.HW, s.CheckpointHW)
	for c.step = 1; c.step <= n && !c.bad; c.step++ {
		r.Eval(1)
		if !c.m.fenceSet {
			c.stepMeta()
			continue
		}
		x := rng.IntN(100)
		tomb, ncodes := c.m.lastDeleted, len(c.codes)
		if (s.Role != ch.RoleLeader || !s.CommitReady) && x >= 11 && x < 53 && rng.IntN(2) == 0 {
			x = 0 // a non-leader / not-ready replica mostly waits for the next metadata
		}
		switch {
		case x < 11:
			c.stepMeta()
		case x < 33:
			c.stepPropose()
		case x < 53:
			if len(c.m.tasks) > 0 {
				c.stepExec()
			} else if len(c.m.held) > 0 {
				c.stepDeliverHeld()
			} else {
				c.stepPropose()
			}
		case x < 60:
			if len(c.m.held) > 0 {
				c.stepDeliverHeld()
			} else {
				c.stepAck()
			}
		case x < 69:
			c.stepDeliverHostile()
		case x < 90:
			c.stepAck()
		case x < 94:
			c.stepCancel()
		case x < 96:
			c.stepAbort()
		default:
			c.stepCheckpoint()
		}
		if tomb && len(c.codes) > ncodes {
			// what was driven at a deleted channel (the monitor keeps judging every clause there)
			name := map[byte]string{'M': "meta", 'P': "propose", 'R': "stored_result", 'Q': "quorum_receipt", 'H': "store_exec_held", 'A': "ack", 'C': "cancel", 'B': "abort", 'K': "checkpoint"}[c.codes[ncodes][0]]
			r.Count("events.after_tombstone."+name, 1)
		}
	}
	r.Max("max_events_per_sequence", len(c.codes))
	if c.bad {
		return
	}
	if (c.sawQuorumByAck || c.sawQuorumByReceipt) && c.sawStaleResult && c.sawStaleMeta {
		h := fnv.New64a()
		h.Write([]byte(strings.Join(c.codes, " ")))
		r.Nontrivial(fmt.Sprintf("%016x", h.Sum64()))
		r.Count("sequences.nontrivial", 1)
		if c.sawQuorumByAck {
			r.Count("sequences.with_quorum_waiter_completed_by_later_ack", 1)
		}
		if c.sawQuorumByReceipt {
			r.Count("sequences.with_quorum_waiter_completed_by_receipt", 1)
		}
		if r.WantSample() {
			r.Sample(map[string]any{"case": idx, "events": c.traceStrings(), "final": c.stateLine()})
		}
	}
	r.Count("sequences.total", 1)
	if c.sawTombstone {
		r.Count("sequences.with_accepted_tombstone", 1)
	}
}

func TestVerifC06Machine(t *testing.T) {
	r := verifkit.Start(t, "C06", "machine")
	defer r.Finish()
	r.SetRule("Each case is one PRNG sequence of 25-70 transitions on a fresh machine.ChannelState (local node 1, random store-loaded watermarks): ApplyMeta (newer fence / same-fence refresh / older epoch / older leader epoch / same-fence leader switch / delayed replay of any earlier offered meta / tombstones (StatusDeleted) with higher, equal and lower fence / bad MinISR / bad identity; role flips, ISR and MinISR changes; every status creating, active, deleting, deleted; staleness is judged against the monitor's own fence = fence and leader of the last ACCEPTED meta of any status, and all other events keep running at a deleted channel), ProposeAppend and ProposeAppendBatch (local+quorum+default mode waiters, colliding op ids, duplicate/empty/no waiters), store-model execution of emitted tasks delivered as ApplyAppendStored or ApplyQuorumCommitted (immediately, late, duplicated, errors, malformed receipts, fabricated results whose fence differs from the inflight fence in exactly one field), ApplyFollowerAck from ISR/replica/foreign nodes with offsets <= LEO, CancelAppendWaiter, AbortAppendBatchProposal, checkpoint publication. The monitor runs after every transition. A sequence is non-trivial iff it contains a quorum-mode waiter answered OK by a LATER ack or by a quorum receipt, AND a delivered result with a non-matching fence, AND a stale meta offer; distinct = distinct sequence of (event kind, outcome) codes.")
	r.Assume("follower acks carry offsets <= LEO (documented machine precondition, enforced by the reactor; unit 'service' attacks that guard)")
	r.Assume("stored offsets come from a store model: base = store LEO + 1, last = base + n - 1; a batch op id is proposed at most once per (epoch, leader epoch)")
	r.Assume("an accepted meta that changes (epoch, leader epoch, leader, role, status) answers all outstanding appends (the reactor fails them with ErrStaleMeta before applying it), so a later machine reply for one of them is a second answer")
	// The live heap is tiny and every step allocates; without this the run is dominated by GC cycles.
	defer debug.SetGCPercent(debug.SetGCPercent(1600))
	n := r.N(20_000, 700_000)
	for i := 0; i < n; i++ {
		if r.Skip(i) {
			continue
		}
		r.BeginCase(i, "machine-seq")
		if r.NumViolations() >= 10 {
			break
		}
		c06RunCaseGuarded(r, i)
	}
}

func c06RunCaseGuarded(r *verifkit.Run, i int) {
	c06RunCase(r, i, r.Rand(6, uint64(i)))
}
