//go:build verif

// C06 unit "service": a hostile peer talks to the leader of a real 3-node
// in-memory channel service cluster (service.New over memory stores and the
// local transport) through the node's transport.Server surface (HandlePull /
// HandleAck) while appends run. The runtime probe of every node is read after
// every hostile event and after every phase.
//
// Oracle (all deciding comparisons are on values, never on time):
//   - every probed runtime has CheckpointHW <= HW <= LEO;
//   - per node, HW never decreases while (channel epoch, leader epoch, role, status) is unchanged;
//   - HW never exceeds the MinISR-th highest log end that is actually durable in
//     the ISR replicas' memory stores (stores are read AFTER the probe; store log
//     ends only grow in this configuration, so the bound is sound);
//   - a hostile ack above the leader's LEO, with a stale/future fence, or from a
//     non-replica is answered with an error and leaves HW unchanged;
//   - a quorum-mode append that returned success is covered by the leader's HW
//     at the next probe, and no sequence is handed out twice.
//
// The hostile peer never over-claims an offset <= LEO for a real replica (a
// lying ISR member cannot be detected by any leader); its accepted acks are
// truthful: offset <= what that replica's store holds at send time.
//
// To make "HW unchanged" decidable the honest replication traffic can be
// paused: the transport handed to the nodes is a gate around LocalNetwork whose
// Pause() waits until every in-flight RPC has returned, after which the only
// source of follower progress at the leader is the hostile peer itself.

package c06_test

import (
	"context"
	"errors"
	"fmt"
	"math"
	"math/rand/v2"
	"sort"
	"sync"
	"testing"
	"time"

	ch "github.com/WuKongIM/WuKongIM/pkg/channel"
	"github.com/WuKongIM/WuKongIM/pkg/channel/service"
	"github.com/WuKongIM/WuKongIM/pkg/channel/store"
	"github.com/WuKongIM/WuKongIM/pkg/channel/transport"
	"github.com/WuKongIM/WuKongIM/pkg/verifkit"
)

// ---------------------------------------------------------------------------
// gate transport

var c06ErrGate = errors.New("c06: replication link paused")

type c06Gate struct {
	mu     sync.RWMutex
	closed bool
	inner  *transport.LocalNetwork
}

var _ transport.Client = (*c06Gate)(nil)
var _ transport.BatchClient = (*c06Gate)(nil)

// enter returns false when paused; otherwise the caller holds a read lock for the whole RPC.
func (g *c06Gate) enter() bool {
	g.mu.RLock()
	if g.closed {
		g.mu.RUnlock()
		return false
	}
	return true
}

// Pause stops replication RPCs and returns once none is in flight.
func (g *c06Gate) Pause()  { g.mu.Lock(); g.closed = true; g.mu.Unlock() }
func (g *c06Gate) Resume() { g.mu.Lock(); g.closed = false; g.mu.Unlock() }

func (g *c06Gate) Pull(ctx context.Context, node ch.NodeID, req transport.PullRequest) (transport.PullResponse, error) {
	if !g.enter() {
		return transport.PullResponse{}, c06ErrGate
	}
	defer g.mu.RUnlock()
	return g.inner.Pull(ctx, node, req)
}

func (g *c06Gate) PullBatch(ctx context.Context, node ch.NodeID, req transport.PullBatchRequest) (transport.PullBatchResponse, error) {
	if !g.enter() {
		return transport.PullBatchResponse{}, c06ErrGate
	}
	defer g.mu.RUnlock()
	return g.inner.PullBatch(ctx, node, req)
}

func (g *c06Gate) Ack(ctx context.Context, node ch.NodeID, req transport.AckRequest) error {
	if !g.enter() {
		return c06ErrGate
	}
	defer g.mu.RUnlock()
	return g.inner.Ack(ctx, node, req)
}

// Pull hints travel leader -> follower and carry no progress; they are let
// through unless paused (a paused hint is simply lost, which the protocol allows).
func (g *c06Gate) PullHint(ctx context.Context, node ch.NodeID, req transport.PullHintRequest) error {
	if !g.enter() {
		return c06ErrGate
	}
	defer g.mu.RUnlock()
	return g.inner.PullHint(ctx, node, req)
}

func (g *c06Gate) PullHintBatch(ctx context.Context, node ch.NodeID, req transport.PullHintBatchRequest) (transport.PullHintBatchResponse, error) {
	if !g.enter() {
		return transport.PullHintBatchResponse{}, c06ErrGate
	}
	defer g.mu.RUnlock()
	return g.inner.PullHintBatch(ctx, node, req)
}

func (g *c06Gate) Notify(ctx context.Context, node ch.NodeID, req transport.NotifyRequest) error {
	if !g.enter() {
		return c06ErrGate
	}
	defer g.mu.RUnlock()
	return g.inner.Notify(ctx, node, req)
}

// ---------------------------------------------------------------------------
// cluster

const c06Watchdog = 90 * time.Second

type c06Cluster struct {
	r      *verifkit.Run
	ids    []ch.NodeID
	nodes  map[ch.NodeID]ch.Cluster
	stores map[ch.NodeID]*store.MemoryFactory
	gate   *c06Gate
	stop   chan struct{}
	wg     sync.WaitGroup
	meta   ch.Meta      // current authoritative meta (driving goroutine only)
	id     ch.ChannelID // immutable
	leader ch.NodeID    // immutable

	// monitor state (only touched by the driving goroutine)
	last    map[ch.NodeID]c06ProbeView
	history []string
	bad     bool
	incon   bool
}

type c06ProbeView struct {
	ok                 bool
	epoch, leaderEpoch uint64
	role               ch.Role
	status             ch.Status
	leo, hw, cp        uint64
	pending            int
	inflight           bool
}

func c06NewCluster(r *verifkit.Run, meta ch.Meta) (*c06Cluster, error) {
	net := transport.NewLocalNetwork()
	c := &c06Cluster{r: r, ids: []ch.NodeID{1, 2, 3}, nodes: map[ch.NodeID]ch.Cluster{}, stores: map[ch.NodeID]*store.MemoryFactory{},
		gate: &c06Gate{inner: net}, stop: make(chan struct{}), meta: meta, id: meta.ID, leader: meta.Leader, last: map[ch.NodeID]c06ProbeView{}}
	for _, id := range c.ids {
		f := store.NewMemoryFactory()
		n, err := service.New(service.Config{LocalNode: id, Store: f, ReactorCount: 1, Transport: c.gate,
			ReplicationIdlePollInterval: 3 * time.Millisecond, ReplicationMinBackoff: time.Millisecond, ReplicationMaxBackoff: 8 * time.Millisecond,
			PullHintRetryInterval: 20 * time.Millisecond})
		if err != nil {
			c.Close()
			return nil, err
		}
		c.nodes[id] = n
		c.stores[id] = f
		srv, ok := n.(transport.Server)
		if !ok {
			c.Close()
			return nil, errors.New("service cluster does not implement transport.Server")
		}
		net.Register(id, srv)
	}
	for _, id := range c.ids {
		n := c.nodes[id]
		c.wg.Add(1)
		go func() {
			defer c.wg.Done()
			t := time.NewTicker(2 * time.Millisecond)
			defer t.Stop()
			for {
				select {
				case <-c.stop:
					return
				case <-t.C:
					_ = n.Tick(context.Background())
				}
			}
		}()
	}
	return c, nil
}

func (c *c06Cluster) Close() {
	select {
	case <-c.stop:
	default:
		close(c.stop)
	}
	c.gate.Resume()
	c.wg.Wait()
	for _, n := range c.nodes {
		_ = n.Close()
	}
}

func (c *c06Cluster) note(format string, args ...any) {
	if len(c.history) < 400 {
		c.history = append(c.history, fmt.Sprintf(format, args...))
	}
}

func (c *c06Cluster) violate(sig string, detail string) {
	c.bad = true
	h := c.history
	if len(h) > 120 {
		h = h[len(h)-120:]
	}
	c.r.Violation(sig, map[string]any{"detail": detail, "meta": fmt.Sprintf("%+v", c.meta), "history": h})
}

func (c *c06Cluster) ctx() (context.Context, context.CancelFunc) {
	return context.WithTimeout(context.Background(), c06Watchdog)
}

// durableLEO reads the log end that node's memory store holds right now.
func (c *c06Cluster) durableLEO(node ch.NodeID) (uint64, error) {
	cs, err := c.stores[node].ChannelStore(c.meta.Key, c.meta.ID)
	if err != nil {
		return 0, err
	}
	ctx, cancel := c.ctx()
	defer cancel()
	st, err := cs.Load(ctx)
	return st.LEO, err
}

// durableQuorumBound = MinISR-th highest durable log end over the ISR.
func (c *c06Cluster) durableQuorumBound() (uint64, []uint64, error) {
	leos := make([]uint64, 0, len(c.meta.ISR))
	for _, n := range c.meta.ISR {
		l, err := c.durableLEO(n)
		if err != nil {
			return 0, nil, err
		}
		leos = append(leos, l)
	}
	sorted := append([]uint64(nil), leos...)
	sort.Slice(sorted, func(i, j int) bool { return sorted[i] > sorted[j] })
	return sorted[c.meta.MinISR-1], leos, nil
}

func (c *c06Cluster) probe(node ch.NodeID) (c06ProbeView, error) {
	bench, ok := c.nodes[node].(ch.RuntimeBench)
	if !ok {
		return c06ProbeView{}, errors.New("node does not implement RuntimeBench")
	}
	ctx, cancel := c.ctx()
	defer cancel()
	res, err := bench.RuntimeProbe(ctx, ch.RuntimeSelector{ChannelIDs: []ch.ChannelID{c.meta.ID}})
	if err != nil {
		return c06ProbeView{}, err
	}
	if len(res.Channels) != 1 {
		return c06ProbeView{}, nil
	}
	p := res.Channels[0]
	return c06ProbeView{ok: true, epoch: p.ChannelEpoch, leaderEpoch: p.LeaderEpoch, role: p.Role, status: p.Status, leo: p.LEO, hw: p.HW, cp: p.CheckpointHW, pending: p.PendingAppendCount, inflight: p.InflightAppend}, nil
}

// observe probes node and runs the state monitor on what it sees.
func (c *c06Cluster) observe(node ch.NodeID, at string) (c06ProbeView, bool) {
	v, err := c.probe(node)
	if err != nil {
		c.incon = true
		c.r.Inconclusive(fmt.Sprintf("service: probe of node %d failed at %s: %v", node, at, err))
		return v, false
	}
	if !v.ok {
		c.r.Count("probe.runtime_not_loaded", 1)
		return v, false
	}
	c.r.Count("probe.states_checked", 1)
	c.note("probe n%d@%s E%d/LE%d role=%d LEO=%d HW=%d CP=%d pending=%d inflight=%v", node, at, v.epoch, v.leaderEpoch, v.role, v.leo, v.hw, v.cp, v.pending, v.inflight)
	if v.cp > v.hw {
		c.violate("service:watermark-order:checkpoint>hw", fmt.Sprintf("node %d at %s: CheckpointHW=%d HW=%d LEO=%d", node, at, v.cp, v.hw, v.leo))
		return v, false
	}
	if v.hw > v.leo {
		c.violate("service:watermark-order:hw>leo", fmt.Sprintf("node %d at %s: HW=%d LEO=%d", node, at, v.hw, v.leo))
		return v, false
	}
	if prev, ok := c.last[node]; ok && prev.epoch == v.epoch && prev.leaderEpoch == v.leaderEpoch && prev.role == v.role && prev.status == v.status {
		if v.hw < prev.hw {
			c.violate("service:hw-decreased-within-fence", fmt.Sprintf("node %d at %s: HW %d -> %d (E%d/LE%d role=%d)", node, at, prev.hw, v.hw, v.epoch, v.leaderEpoch, v.role))
			return v, false
		}
	}
	c.last[node] = v
	// stores are read after the probe; their log ends only grow
	bound, leos, err := c.durableQuorumBound()
	if err != nil {
		c.incon = true
		c.r.Inconclusive(fmt.Sprintf("service: store read failed: %v", err))
		return v, false
	}
	c.r.Count("probe.durable_bound_checks", 1)
	if v.hw > bound {
		c.violate("service:hw-beyond-durable-quorum", fmt.Sprintf("node %d (role %d) at %s: HW=%d but the MinISR=%d-th highest durable log end over ISR %v is %d (durable ends %v)", node, v.role, at, v.hw, c.meta.MinISR, c.meta.ISR, bound, leos))
		return v, false
	}
	if v.hw == bound && v.hw > 0 {
		c.r.Count("probe.hw_equals_durable_bound", 1)
	}
	return v, true
}

func (c *c06Cluster) observeAll(at string) bool {
	for _, id := range c.ids {
		if _, ok := c.observe(id, at); !ok && (c.bad || c.incon) {
			return false
		}
	}
	return true
}

func (c *c06Cluster) applyMetaAll(meta ch.Meta, order []ch.NodeID) {
	for _, id := range order {
		if err := c.nodes[id].ApplyMeta(meta); err != nil {
			c.r.Count("meta.apply_error", 1)
			c.note("ApplyMeta on n%d: %v", id, err)
		}
	}
	c.meta = meta
}

type c06AppendOutcome struct {
	mode ch.CommitMode
	seq  uint64
	err  error
}

// appendOne issues one append on the leader; msgID makes the record unique.
func (c *c06Cluster) appendOne(msgID uint64, mode ch.CommitMode) c06AppendOutcome {
	ctx, cancel := c.ctx()
	defer cancel()
	res, err := c.nodes[c.leader].Append(ctx, ch.AppendRequest{ChannelID: c.id, CommitMode: mode,
		Message: ch.Message{MessageID: msgID, FromUID: "u", ClientMsgNo: fmt.Sprintf("c06-%d", msgID), Payload: []byte(fmt.Sprintf("payload-%d", msgID))}})
	return c06AppendOutcome{mode: mode, seq: res.MessageSeq, err: err}
}

// ---------------------------------------------------------------------------
// hostile peer

type c06Hostile struct {
	kind     string
	viaAck   bool
	follower ch.NodeID
	epoch    uint64
	le       uint64
	ack      uint64
	next     uint64
	stopped  bool
	mustFail bool // by the statement: error + HW unchanged
	truthful bool
}

func (c *c06Cluster) genHostile(rng *rand.Rand, lv c06ProbeView, exact bool) (c06Hostile, bool) {
	followers := make([]ch.NodeID, 0, 2)
	for _, id := range c.meta.Replicas {
		if id != c.leader {
			followers = append(followers, id)
		}
	}
	h := c06Hostile{epoch: c.meta.Epoch, le: c.meta.LeaderEpoch, follower: followers[rng.IntN(len(followers))], viaAck: rng.IntN(3) == 0}
	h.next = lv.leo + 1
	if rng.IntN(4) == 0 {
		h.next = 1 + uint64(rng.IntN(int(lv.leo)+2))
	}
	above := func() uint64 {
		switch rng.IntN(5) {
		case 0:
			return math.MaxUint64
		case 1:
			return math.MaxUint64 - uint64(rng.IntN(4))
		case 2:
			return lv.leo + 1<<40 + uint64(rng.IntN(1000))
		case 3:
			return lv.leo + 1<<20 + uint64(rng.IntN(1000))
		default:
			if exact {
				return lv.leo + 1 + uint64(rng.IntN(3))
			}
			return lv.leo + 1<<16 + uint64(rng.IntN(1000))
		}
	}
	switch x := rng.IntN(100); {
	case x < 40:
		h.kind = "ack-above-leo"
		h.ack = above()
		h.mustFail = true
		if exact && rng.IntN(2) == 0 {
			h.ack = lv.leo + 1
		}
		if h.viaAck && rng.IntN(4) == 0 {
			h.stopped = true // stopped acks must carry MatchOffset == LEO
		}
	case x < 52:
		h.kind = "stale-fence"
		switch rng.IntN(3) {
		case 0:
			h.epoch--
		case 1:
			h.le--
		default:
			h.epoch--
			h.le++
		}
		h.ack = uint64(rng.IntN(int(lv.leo) + 1))
		if rng.IntN(3) == 0 {
			h.ack = above()
		}
		h.mustFail = true
	case x < 60:
		h.kind = "future-fence"
		if rng.IntN(2) == 0 {
			h.epoch++
		} else {
			h.le++
		}
		h.ack = uint64(rng.IntN(int(lv.leo) + 1))
		if rng.IntN(3) == 0 {
			h.ack = above()
		}
		h.mustFail = true
	case x < 72:
		h.kind = "non-replica"
		h.follower = []ch.NodeID{0, 4, 7, 99, ch.NodeID(math.MaxUint64)}[rng.IntN(5)]
		h.ack = uint64(rng.IntN(int(lv.leo) + 1))
		if rng.IntN(2) == 0 {
			h.ack = above()
		}
		h.mustFail = true
	default:
		// truthful progress on behalf of a real replica: never more than its store holds
		d, err := c.durableLEO(h.follower)
		if err != nil {
			return h, false
		}
		if d > lv.leo {
			d = lv.leo
		}
		h.kind = "truthful"
		h.truthful = true
		h.ack = d
		if d > 0 && rng.IntN(3) == 0 {
			h.ack = uint64(rng.IntN(int(d) + 1))
		}
	}
	return h, true
}

func (c *c06Cluster) fire(h c06Hostile) (transport.PullResponse, error) {
	ctx, cancel := c.ctx()
	defer cancel()
	srv := c.nodes[c.leader].(transport.Server)
	if h.viaAck {
		err := srv.HandleAck(ctx, transport.AckRequest{ChannelKey: c.meta.Key, Epoch: h.epoch, LeaderEpoch: h.le, Follower: h.follower, MatchOffset: h.ack, Stopped: h.stopped, ActivityVersion: 0})
		return transport.PullResponse{}, err
	}
	return srv.HandlePull(ctx, transport.PullRequest{ChannelKey: c.meta.Key, ChannelID: c.meta.ID, Epoch: h.epoch, LeaderEpoch: h.le, Follower: h.follower, NextOffset: h.next, AckOffset: h.ack, MaxBytes: 4096})
}

// hostileRound fires n hostile events at the leader. hwStable says that nothing
// but the hostile peer can move the leader's HW right now (replication paused
// and either MinISR >= 2 or no append outstanding). exact allows LEO+1 offsets
// (only when LEO cannot move).
func (c *c06Cluster) hostileRound(rng *rand.Rand, n int, hwStable, exact bool, phase string) {
	for i := 0; i < n && !c.bad && !c.incon; i++ {
		before, ok := c.observe(c.leader, phase+":pre")
		if !ok {
			return
		}
		h, ok := c.genHostile(rng, before, exact)
		if !ok {
			return
		}
		resp, err := c.fire(h)
		c.r.Eval(1)
		c.r.Count("hostile."+h.kind, 1)
		if h.viaAck {
			c.r.Count("hostile.via_HandleAck", 1)
		} else {
			c.r.Count("hostile.via_HandlePull", 1)
		}
		c.note("hostile %s viaAck=%v stopped=%v follower=%d E%d/LE%d ack=%d next=%d -> err=%v (leaderLEO=%d HW=%d)", h.kind, h.viaAck, h.stopped, h.follower, h.epoch, h.le, h.ack, h.next, err, before.leo, before.hw)
		if errors.Is(err, context.DeadlineExceeded) {
			c.incon = true
			c.r.Inconclusive("service: hostile call hit the watchdog")
			return
		}
		after, ok := c.observe(c.leader, phase+":post")
		if !ok {
			return
		}
		if h.mustFail {
			if err == nil {
				c.violate("service:hostile-accepted:"+h.kind, fmt.Sprintf("%+v answered without error; leader LEO=%d HW=%d -> HW=%d", h, before.leo, before.hw, after.hw))
				return
			}
			c.r.Count("hostile.rejected", 1)
			if hwStable {
				c.r.Count("hostile.hw_unchanged_checks", 1)
				if after.hw != before.hw {
					c.violate("service:hostile-rejected-but-hw-moved:"+h.kind, fmt.Sprintf("%+v -> err=%v; HW %d -> %d", h, err, before.hw, after.hw))
					return
				}
			}
		} else {
			if err != nil {
				c.r.Count("hostile.truthful_rejected", 1)
			} else {
				c.r.Count("hostile.truthful_accepted", 1)
				if after.hw > before.hw {
					c.r.Count("hostile.truthful_advanced_hw", 1)
				}
				if !h.viaAck && resp.LeaderHW > resp.LeaderLEO {
					c.violate("service:pull-response-hw>leo", fmt.Sprintf("LeaderHW=%d LeaderLEO=%d", resp.LeaderHW, resp.LeaderLEO))
					return
				}
			}
		}
	}
}

// ---------------------------------------------------------------------------
// one case

func c06RunServiceCase(r *verifkit.Run, idx int, rng *rand.Rand) {
	leader := ch.NodeID(1 + rng.IntN(3))
	replicas := []ch.NodeID{1, 2, 3}
	isr := []ch.NodeID{1, 2, 3}
	if rng.IntN(4) == 0 { // ISR of two: the leader and one follower
		other := replicas[rng.IntN(3)]
		for other == leader {
			other = replicas[rng.IntN(3)]
		}
		isr = []ch.NodeID{leader, other}
		sort.Slice(isr, func(i, j int) bool { return isr[i] < isr[j] })
	}
	minISR := 2
	switch x := rng.IntN(10); {
	case x < 2:
		minISR = 1
	case x < 4:
		minISR = len(isr)
	}
	id := ch.ChannelID{ID: fmt.Sprintf("c06-%d", idx), Type: 1}
	meta := ch.Meta{Key: ch.ChannelKeyForID(id), ID: id, Epoch: 2 + uint64(rng.IntN(3)), LeaderEpoch: 2 + uint64(rng.IntN(3)), Leader: leader,
		Replicas: replicas, ISR: isr, MinISR: minISR, Status: ch.StatusActive}
	desc := fmt.Sprintf("leader=%d isr=%v minISR=%d", leader, isr, minISR)
	r.BeginCase(idx, desc)
	c, err := c06NewCluster(r, meta)
	if err != nil {
		r.Inconclusive("service: cluster construction failed: " + err.Error())
		return
	}
	defer c.Close()
	c.note("case %d %s E%d/LE%d", idx, desc, meta.Epoch, meta.LeaderEpoch)
	c.applyMetaAll(meta, []ch.NodeID{1, 2, 3})

	var msgID uint64 = uint64(idx) * 100000
	nextID := func() uint64 { msgID++; return msgID }
	var mu sync.Mutex
	var outcomes []c06AppendOutcome
	record := func(o c06AppendOutcome) { mu.Lock(); outcomes = append(outcomes, o); mu.Unlock() }

	features := map[string]bool{}
	seen := map[uint64]bool{}
	okQuorum, checked := 0, 0
	// checkOutcomes judges every append answered so far against a leader view taken after the answers.
	// HW is only promised to be monotone inside one metadata fence, so the outcomes of a fence are
	// judged before the fence is left.
	checkOutcomes := func(view c06ProbeView) bool {
		mu.Lock()
		defer mu.Unlock()
		for ; checked < len(outcomes); checked++ {
			o := outcomes[checked]
			if o.err != nil {
				r.Count("appends.error", 1)
				if errors.Is(o.err, context.DeadlineExceeded) {
					c.incon = true
					r.Inconclusive("service: append hit the watchdog")
					return false
				}
				continue
			}
			r.Count("appends.ok", 1)
			if o.seq == 0 || seen[o.seq] {
				c.violate("service:append-seq-duplicate-or-zero", fmt.Sprintf("seq=%d mode=%d", o.seq, o.mode))
				return false
			}
			seen[o.seq] = true
			if o.mode == ch.CommitModeQuorum {
				okQuorum++
				if view.hw < o.seq {
					c.violate("service:quorum-append-ok-but-hw-behind", fmt.Sprintf("append seq=%d answered OK; later leader probe HW=%d LEO=%d", o.seq, view.hw, view.leo))
					return false
				}
			} else if view.leo < o.seq {
				c.violate("service:local-append-ok-but-leo-behind", fmt.Sprintf("append seq=%d answered OK; later leader probe LEO=%d", o.seq, view.leo))
				return false
			}
		}
		return true
	}

	// Phase A: honest replication open, quorum (and a few local) appends from two clients.
	var wgA sync.WaitGroup
	nA := 2 + rng.IntN(6)
	for cl := 0; cl < 2; cl++ {
		ids := make([]uint64, nA)
		modes := make([]ch.CommitMode, nA)
		for i := range ids {
			ids[i] = nextID()
			modes[i] = ch.CommitModeQuorum
			if rng.IntN(4) == 0 {
				modes[i] = ch.CommitModeLocal
			}
		}
		wgA.Add(1)
		go func() {
			defer wgA.Done()
			for i := range ids {
				record(c.appendOne(ids[i], modes[i]))
			}
		}()
	}
	// hostile traffic that must be rejected runs while honest replication is live (HW moves on its own here)
	c.hostileRound(r.Rand(66, uint64(idx), 1), 2+rng.IntN(4), false, false, "open")
	pauseEarly := rng.IntN(2) == 0
	if !pauseEarly {
		if !verifkit.Watchdog(c06Watchdog, wgA.Wait) {
			r.Inconclusive("service: phase A appends did not finish")
			return
		}
		if rng.IntN(3) == 0 {
			// leader-epoch bump with the same leader: a new fence; earlier epochs become stale for the hostile peer
			if v, ok := c.observe(c.leader, "before-bump"); !ok || !checkOutcomes(v) {
				return
			}
			m2 := c.meta
			m2.LeaderEpoch++
			order := []ch.NodeID{1, 2, 3}
			rng.Shuffle(3, func(i, j int) { order[i], order[j] = order[j], order[i] })
			c.applyMetaAll(m2, order)
			features["leader-epoch-bump"] = true
			r.Count("cases.leader_epoch_bump", 1)
			for i := 0; i < 2; i++ {
				record(c.appendOne(nextID(), ch.CommitModeQuorum))
			}
		}
	}
	if c.bad || c.incon {
		return
	}

	// Phase B: replication paused (possibly in the middle of phase A: followers may hold records they never acknowledged).
	c.gate.Pause()
	c.note("replication paused (early=%v)", pauseEarly)
	if !c.observeAll("paused") {
		return
	}
	// B1: local-mode appends run concurrently with the hostile peer; the leader's log runs ahead of the followers.
	nLocal := 1 + rng.IntN(6)
	localIDs := make([]uint64, nLocal)
	for i := range localIDs {
		localIDs[i] = nextID()
	}
	var wgB sync.WaitGroup
	wgB.Add(1)
	go func() {
		defer wgB.Done()
		for _, id := range localIDs {
			record(c.appendOne(id, ch.CommitModeLocal))
		}
	}()
	c.hostileRound(r.Rand(66, uint64(idx), 2), 3+rng.IntN(5), minISR >= 2, false, "paused+local-appends")
	if !verifkit.Watchdog(c06Watchdog, wgB.Wait) {
		r.Inconclusive("service: local appends did not finish")
		return
	}
	if c.bad || c.incon {
		return
	}
	// B2: quiescent log end (every append issued so far that can finish has finished, or is a quorum
	// append whose records are already stored): exact LEO+1 offsets. LEO can still move if a phase A
	// append is still queued, so exact offsets are only used when phase A was joined.
	c.hostileRound(r.Rand(66, uint64(idx), 3), 3+rng.IntN(5), minISR >= 2 || !pauseEarly, !pauseEarly, "paused+quiescent")
	if c.bad || c.incon {
		return
	}
	// B3: quorum appends outstanding (they cannot complete: followers cannot fetch) + more hostile traffic.
	nQ := 1 + rng.IntN(3)
	var wgQ sync.WaitGroup
	for i := 0; i < nQ; i++ {
		id := nextID()
		wgQ.Add(1)
		go func() { defer wgQ.Done(); record(c.appendOne(id, ch.CommitModeQuorum)) }()
	}
	c.hostileRound(r.Rand(66, uint64(idx), 4), 3+rng.IntN(5), minISR >= 2, false, "paused+quorum-appends")
	if c.bad || c.incon {
		return
	}
	lv, ok := c.observe(c.leader, "before-resume")
	if !ok {
		return
	}
	if lv.hw < lv.leo {
		features["leader-log-ahead-of-hw-under-attack"] = true
	}

	// Phase C: resume; everything outstanding completes.
	c.gate.Resume()
	c.note("replication resumed")
	if !verifkit.Watchdog(c06Watchdog, func() { wgA.Wait(); wgQ.Wait() }) {
		r.Inconclusive("service: appends did not finish after resume")
		return
	}
	final, ok := c.observe(c.leader, "final")
	if !ok {
		return
	}
	c.observeAll("final")
	if c.bad || c.incon {
		return
	}
	if !checkOutcomes(final) {
		return
	}
	// Phase D: tombstone. A StatusDeleted meta (mostly with a higher fence) is applied to every node,
	// then delayed metas arrive: the metadata of the start of the case, the pre-tombstone metadata and
	// a same-fence leader switch. Judged against the monitor's fence = the tombstone's fence wherever the
	// node accepted the tombstone.
	meta0 := meta
	pre := c.meta
	tomb := c.meta
	tomb.Status = ch.StatusDeleted
	tombKind := "higher-leader-epoch"
	switch x := rng.IntN(10); {
	case x < 5:
		tomb.LeaderEpoch++
	case x < 8:
		tomb.Epoch++
		tombKind = "higher-epoch"
	default:
		tombKind = "equal-fence"
	}
	r.Count("tombstone.offered."+tombKind, 1)
	accepted := map[ch.NodeID]bool{}
	for _, id := range c.ids {
		if err := c.nodes[id].ApplyMeta(tomb); err != nil {
			r.Count("tombstone.rejected", 1)
			c.note("tombstone on n%d rejected: %v", id, err)
			continue
		}
		accepted[id] = true
		r.Count("tombstone.accepted", 1)
	}
	c.meta = tomb
	c.note("tombstone %s E%d/LE%d applied, accepted by %v", tombKind, tomb.Epoch, tomb.LeaderEpoch, accepted)
	if !c.observeAll("tombstoned") {
		return
	}
	other := ch.NodeID(1 + (int(tomb.Leader) % 3))
	switchMeta := tomb
	switchMeta.Leader = other
	switchMeta.Status = ch.StatusActive
	olderLE := tomb
	olderLE.Status = ch.StatusActive
	olderLE.LeaderEpoch--
	delayed := []struct {
		name string
		m    ch.Meta
	}{{"start-of-case-meta", meta0}, {"pre-tombstone-meta", pre}, {"same-fence-leader-switch", switchMeta}, {"older-leader-epoch", olderLE}}
	rng.Shuffle(len(delayed), func(i, j int) { delayed[i], delayed[j] = delayed[j], delayed[i] })
	for _, dm := range delayed {
		class := "newer-fence"
		switch {
		case dm.m.Epoch < tomb.Epoch:
			class = "older-epoch"
		case dm.m.Epoch == tomb.Epoch && dm.m.LeaderEpoch < tomb.LeaderEpoch:
			class = "older-leader-epoch"
		case dm.m.Epoch == tomb.Epoch && dm.m.LeaderEpoch == tomb.LeaderEpoch && dm.m.Leader != tomb.Leader:
			class = "same-fence-other-leader"
		case dm.m.Epoch == tomb.Epoch && dm.m.LeaderEpoch == tomb.LeaderEpoch:
			class = "same-fence-same-leader"
		}
		stale := class == "older-epoch" || class == "older-leader-epoch" || class == "same-fence-other-leader"
		if !stale {
			r.Count("meta_after_tombstone.not_stale_skipped."+class, 1)
			continue // a legitimate refresh would change what later metas are compared with
		}
		for _, id := range c.ids {
			if !accepted[id] {
				continue
			}
			before, ok := c.observe(id, "tombstoned:pre-"+dm.name)
			if !ok {
				return
			}
			err := c.nodes[id].ApplyMeta(dm.m)
			r.Eval(1)
			c.note("delayed meta %s (%s) E%d/LE%d leader=%d status=%d on n%d -> err=%v", dm.name, class, dm.m.Epoch, dm.m.LeaderEpoch, dm.m.Leader, dm.m.Status, id, err)
			after, ok := c.observe(id, "tombstoned:post-"+dm.name)
			if !ok {
				return
			}
			if err == nil {
				r.Count("meta_after_tombstone."+class+".accepted", 1)
				c.violate("service:stale-meta-accepted:after-deleted-meta", fmt.Sprintf("node %d accepted tombstone E%d/LE%d leader=%d, then accepted %s meta %s E%d/LE%d leader=%d status=%d; runtime now E%d/LE%d role=%d status=%d", id, tomb.Epoch, tomb.LeaderEpoch, tomb.Leader, class, dm.name, dm.m.Epoch, dm.m.LeaderEpoch, dm.m.Leader, dm.m.Status, after.epoch, after.leaderEpoch, after.role, after.status))
				return
			}
			r.Count("meta_after_tombstone."+class+".rejected", 1)
			if !errors.Is(err, ch.ErrStaleMeta) {
				c.violate("service:stale-meta-wrong-error:after-deleted-meta", fmt.Sprintf("node %d: %s meta %s -> %v", id, class, dm.name, err))
				return
			}
			if after.epoch != before.epoch || after.leaderEpoch != before.leaderEpoch || after.role != before.role || after.status != before.status {
				c.violate("service:stale-meta-changed-runtime:after-deleted-meta", fmt.Sprintf("node %d: rejected %s meta %s changed the runtime E%d/LE%d role=%d status=%d -> E%d/LE%d role=%d status=%d", id, class, dm.name, before.epoch, before.leaderEpoch, before.role, before.status, after.epoch, after.leaderEpoch, after.role, after.status))
				return
			}
		}
	}
	// appends and hostile acks at the deleted channel: outcomes are counted, the watermark monitor keeps running
	if o := c.appendOne(nextID(), ch.CommitModeLocal); o.err != nil {
		r.Count("tombstone.append_rejected", 1)
	} else {
		r.Count("tombstone.append_accepted", 1)
	}
	c.hostileRound(r.Rand(66, uint64(idx), 5), 2+rng.IntN(3), false, false, "tombstoned")
	if c.bad || c.incon {
		return
	}
	c.observeAll("tombstoned:end")
	if c.bad || c.incon {
		return
	}
	features["tombstone-"+tombKind] = true
	if okQuorum > 0 {
		features["quorum-append-ok"] = true
	}
	if pauseEarly {
		features["paused-mid-replication"] = true
	}
	fp := fmt.Sprintf("leader=%d isr=%d min=%d", leader, len(isr), minISR)
	keys := make([]string, 0, len(features))
	for k := range features {
		keys = append(keys, k)
	}
	sort.Strings(keys)
	for _, k := range keys {
		fp += " " + k
	}
	if features["quorum-append-ok"] && features["leader-log-ahead-of-hw-under-attack"] {
		r.Nontrivial("service " + fp)
		r.Count("cases.nontrivial", 1)
	}
	r.Count("cases.total", 1)
	if idx < 2 && r.WantSample() {
		r.Sample(map[string]any{"unit": "service", "case": idx, "history": c.history})
	}
}

func TestVerifC06Service(t *testing.T) {
	r := verifkit.Start(t, "C06", "service")
	defer r.Finish()
	r.SetRule("Each case builds a fresh 3-node service cluster over memory stores (random leader, ISR of 2 or 3, MinISR 1..|ISR|, epochs >= 2), runs quorum/local appends from concurrent clients, pauses honest replication (sometimes mid-flight), lets the leader's log run ahead with local-mode appends, starts quorum appends that cannot complete, and meanwhile fires hostile HandlePull/HandleAck calls at the leader: ack offsets above LEO (LEO+1 when the log end is quiescent, huge, MaxUint64), stale and future fences, non-replica followers, stopped acks, and truthful acks on behalf of real replicas (never above what that replica's store holds). Finally a StatusDeleted tombstone (higher leader epoch / higher epoch / equal fence) is applied to all nodes and delayed older metas and a same-fence leader switch are replayed on every node: they must be rejected with ErrStaleMeta and leave the probed (epoch, leader epoch, role, status) unchanged; an append and more hostile calls then hit the deleted channel. Every hostile event is bracketed by runtime probes; all nodes are probed after each phase. A case is non-trivial iff a quorum append succeeded and the hostile peer attacked while the leader's LEO was ahead of its HW; distinct = (leader, |ISR|, MinISR, feature set).")
	r.Assume("a real ISR member that over-claims an offset <= LEO is outside the threat model (undetectable by any leader); accepted hostile acks are truthful w.r.t. the replica's memory store")
	r.Assume("memory-store log ends only grow in this configuration (no retention, no quorum-log suffix replacement), so reading them after the probe gives a sound upper bound")
	n := r.N(36, 900)
	for i := 0; i < n; i++ {
		if r.Skip(i) {
			continue
		}
		if r.NumViolations() >= 5 {
			break
		}
		c06RunServiceCase(r, i, r.Rand(606, uint64(i)))
	}
}
