//go:build verif

package c07rt

import (
	"context"
	"errors"
	"sync"
	"sync/atomic"
	"time"
)

// c07Countdown is a deterministic context: the first N polls (Err or Done
// calls) report "live"; every later poll reports context.Canceled. No wall
// clock is involved; the cancellation point is a pure function of N and of the
// polling sequence of the code under test. Safe for concurrent polling (the
// commit coordinator may poll from its own goroutine).
type c07Countdown struct {
	n     int64
	polls atomic.Int64
	done  chan struct{}
	once  sync.Once
}

func c07NewCountdown(n int64) *c07Countdown { return &c07Countdown{n: n, done: make(chan struct{})} }

func (c *c07Countdown) poll() bool {
	if c.polls.Add(1) > c.n {
		c.once.Do(func() { close(c.done) })
		return true
	}
	return false
}

func (c *c07Countdown) Deadline() (time.Time, bool) { return time.Time{}, false }
func (c *c07Countdown) Value(any) any               { return nil }
func (c *c07Countdown) Done() <-chan struct{}       { c.poll(); return c.done }
func (c *c07Countdown) Err() error {
	if c.poll() {
		return context.Canceled
	}
	return nil
}

// Polls is the number of polls seen so far.
func (c *c07Countdown) Polls() int64 { return c.polls.Load() }

// Fired reports whether some poll has been answered with cancellation.
func (c *c07Countdown) Fired() bool { return c.polls.Load() > c.n }

const c07Never = int64(1) << 60

func c07IsCancel(err error) bool { return err != nil && errors.Is(err, context.Canceled) }

// arm installs a countdown context for the next surface call on ch when the
// driver has a pending cancellation fault; it returns nil when not armed.
func (d *c07Driver) arm(ch *c07Chan, op string) *c07Countdown {
	if d.armN < 0 || len(d.surfs) != 1 {
		return nil
	}
	cd := c07NewCountdown(d.armN)
	d.armN = -1
	d.lastCD = cd
	d.surfs[0].SetCtx(ch, cd)
	d.r.Count("cancel.armed."+op, 1)
	d.tracef("  (countdown context: cancel after %d polls, op=%s)", cd.n, op)
	return cd
}

// disarm restores the live context and records what the countdown did.
func (d *c07Driver) disarm(ch *c07Chan, cd *c07Countdown, op string, err error) (cancelled bool) {
	if cd == nil {
		return false
	}
	d.surfs[0].SetCtx(ch, nil)
	switch {
	case c07IsCancel(err):
		d.r.Count("cancel.returned_ctx_error."+op, 1)
		if ch.sinceBarrier == 0 && len(ch.Barriers) > 0 {
			d.r.Count("cancel.returned_ctx_error."+op+".first_op_after_"+ch.Barriers[len(ch.Barriers)-1], 1)
		}
		return true
	case cd.Fired():
		d.r.Count("cancel.fired_but_op_completed."+op, 1)
	default:
		d.r.Count("cancel.not_reached."+op, 1)
	}
	return false
}

// reconcileLog decides, by reading back with a live context, whether a log
// mutation that returned a context error took effect. pre / post are the log
// ends before and after the operation would have been applied.
func (d *c07Driver) reconcileLog(s c07Surface, ch *c07Chan, op string, post uint64, mayApply bool, w map[string]any) (applied bool, ok bool) {
	if w == nil {
		w = map[string]any{}
	}
	// A cancelled caller may only have stopped waiting: the documented outcome
	// is then "unknown" and the admitted commit finishes on its own. Serialise
	// behind it before reading back.
	if fc, isF := s.(interface{ Fence(*c07Chan) error }); isF {
		if ferr := fc.Fence(ch); ferr != nil {
			w["err"] = ferr.Error()
			d.violate(s.Quirks().Name+":"+op+":fence-error-after-cancelled-op", w)
			return false, false
		}
	}
	leo, err := s.LEO(ch)
	d.r.Eval(1)
	w["model_leo"], w["leo_after_cancel"], w["post_leo_if_applied"] = ch.LEO, leo, post
	name := s.Quirks().Name
	if err != nil {
		w["err"] = err.Error()
		d.violate(name+":"+op+":leo-error-after-cancelled-op", w)
		return false, false
	}
	if f, isF := s.(*c07Factory); isF && f.NotWritten(ch) && leo != ch.LEO {
		d.violate(name+":"+op+":definitely-not-written-but-log-changed", w)
		return false, false
	}
	switch {
	case leo == ch.LEO:
		d.r.Count("cancel.no_effect."+op, 1)
		return false, true
	case mayApply && leo == post:
		d.r.Count("cancel.took_effect."+op, 1)
		return true, true
	case !mayApply:
		d.violate(name+":"+op+":cancelled-rejectable-op-changed-log", w)
		return false, false
	}
	d.violate(name+":"+op+":partial-effect-after-cancel", w)
	return false, false
}

// stepLookupsCancelled issues every point lookup under a very short countdown:
// each call must either report the context error or return the model's answer.
func (d *c07Driver) stepLookupsCancelled(ch *c07Chan) {
	if len(d.surfs) != 1 || !d.ensureLease(ch) {
		return
	}
	s := d.surfs[0]
	q := s.Quirks()
	row := d.randStoredRow(ch)
	if row == nil {
		return
	}
	d.kind("read")
	try := func(op string, fn func() error) bool {
		cd := c07NewCountdown(int64(d.rng.IntN(5)))
		s.SetCtx(ch, cd)
		err := fn()
		s.SetCtx(ch, nil)
		d.r.Eval(1)
		d.r.Count("cancel.armed."+op, 1)
		if c07IsCancel(err) {
			d.r.Count("cancel.returned_ctx_error."+op, 1)
			return true
		}
		if err != nil {
			d.violate(q.Name+":"+op+":wrong-answer-under-countdown-context", map[string]any{"chan": ch.Key, "err": err.Error(), "row": c07Brief(row), "n": cd.n})
			return false
		}
		return true
	}
	mismatch := errors.New("result differs from model")
	if !try("get-by-seq", func() error {
		got, ok, err := s.GetBySeq(ch, row.Seq)
		if err != nil {
			return err
		}
		if !ok || c07Diff(row, &got, q.HasHash, q.HasCompatFields) != "" {
			return mismatch
		}
		return nil
	}) {
		return
	}
	if q.HasGetByID && !try("get-by-id", func() error {
		got, ok, err := s.GetByID(ch, row.ID)
		if err != nil {
			return err
		}
		if !ok || c07Diff(row, &got, q.HasHash, q.HasCompatFields) != "" {
			return mismatch
		}
		return nil
	}) {
		return
	}
	if p, has := row.pair(); has && q.HasLookupPair && !try("lookup-idempotency", func() error {
		hit, ok, err := s.LookupPair(ch, p)
		if err != nil {
			return err
		}
		if !ok || hit.Seq != row.Seq || hit.ID != row.ID {
			return mismatch
		}
		return nil
	}) {
		return
	}
	if row.FromUID != "" && q.HasLastSender && !try("last-sender-seq", func() error {
		got, ok, err := s.LastSender(ch, row.FromUID, ^uint64(0))
		if err != nil {
			return err
		}
		want, wantOK := ch.expectLastSender(row.FromUID, ^uint64(0))
		if ok != wantOK || got != want {
			return mismatch
		}
		return nil
	}) {
		return
	}
	if row.ClientMsgNo != "" && q.HasListByNo && !try("list-by-client-msg-no", func() error {
		got, _, _, err := s.ListByNo(ch, row.ClientMsgNo, 0, 1000)
		if err != nil {
			return err
		}
		want, _, _ := ch.expectListByNo(row.ClientMsgNo, 0, 1000)
		if len(got) != len(want) {
			return mismatch
		}
		for i := range want {
			if c07Diff(want[i], &got[i], q.HasHash, q.HasCompatFields) != "" {
				return mismatch
			}
		}
		return nil
	}) {
		return
	}
}
