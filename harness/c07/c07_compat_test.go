//go:build verif

package c07rt

import (
	"bytes"
	"context"
	"encoding/binary"
	"errors"
	"fmt"
	"io"
	"sync"

	"github.com/WuKongIM/WuKongIM/pkg/db/message"
	compat "github.com/WuKongIM/WuKongIM/pkg/db/message/channelcompat"
	"github.com/WuKongIM/WuKongIM/pkg/protocol/frame"
)

// c07Compat drives the compatibility surface used by pkg/channel/store:
// message.Open -> Engine.ForChannel -> *message.ChannelStore.
type c07Compat struct {
	dir string
	eng *message.Engine

	mu     sync.Mutex
	stores map[string]*message.ChannelStore
	ctxs   map[string]context.Context
	churn  int
}

// SetCtx makes every following context-taking call on ch use ctx (nil = live).
// The compat append / apply / truncate entry points take no context.
func (c *c07Compat) SetCtx(ch *c07Chan, ctx context.Context) {
	c.mu.Lock()
	defer c.mu.Unlock()
	if c.ctxs == nil {
		c.ctxs = map[string]context.Context{}
	}
	if ctx == nil {
		delete(c.ctxs, ch.Key)
	} else {
		c.ctxs[ch.Key] = ctx
	}
}

func (c *c07Compat) cx(ch *c07Chan) context.Context {
	c.mu.Lock()
	defer c.mu.Unlock()
	if ctx := c.ctxs[ch.Key]; ctx != nil {
		return ctx
	}
	return c07Ctx
}

func c07NewCompat(dir string) *c07Compat {
	return &c07Compat{dir: dir, stores: map[string]*message.ChannelStore{}}
}

func (c *c07Compat) Quirks() c07Quirks {
	return c07Quirks{
		Name: "compat", ChecksDup: true,
		TruncAboveLEOIsError: true, TrimNeedsAdopt: true, TruncBelowRetentionRejected: true,
		TruncKeepsRetainedMax: false,
		HasBaseSeq:            false, HasTrusted: true, HasServerAlloc: true,
		HasApply: true, HasApplyStrict: true, HasApplyCkpt: true, HasCkpt: true, HasTruncate: true,
		HasListByNo: true, HasLookupPair: true, HasLastSender: true, HasGetByID: true,
		HasHash: false, HasHitHash: true, HasCompatFields: true, ExactRetention: true,
		EmptyPayloadOK: true, HasAdopt: true, AdoptAboveLEOOK: true, TrimAboveLEOOK: false,
		AppendDefaultsTS: true, ApplyDefaultsTS: false, HasChurn: true,
	}
}

// c07EncodeCompat is the durable message payload layout documented by
// channelcompat.DurableMessageCodecVersion / DurableMessageHeaderSize.
func c07EncodeCompat(r *c07Rec) []byte {
	out := make([]byte, 0, compat.DurableMessageHeaderSize+64+len(r.Payload))
	out = append(out, compat.DurableMessageCodecVersion)
	out = binary.BigEndian.AppendUint64(out, r.ID)
	out = append(out, r.Flags, r.Setting, r.StreamFlag, r.ChannelType)
	out = binary.BigEndian.AppendUint32(out, r.Expire)
	out = binary.BigEndian.AppendUint64(out, r.ClientSeq)
	out = binary.BigEndian.AppendUint64(out, r.StreamID)
	out = binary.BigEndian.AppendUint32(out, uint32(r.Timestamp))
	out = binary.BigEndian.AppendUint64(out, r.PayloadHash)
	for _, s := range []string{r.MsgKey, r.ClientMsgNo, r.StreamNo, r.ChannelID, r.Topic, r.FromUID} {
		out = binary.BigEndian.AppendUint32(out, uint32(len(s)))
		out = append(out, s...)
	}
	out = binary.BigEndian.AppendUint32(out, uint32(len(r.Payload)))
	out = append(out, r.Payload...)
	if r.TS != 0 {
		out = append(out, 'w', 'k', 't', 's')
		out = binary.BigEndian.AppendUint64(out, uint64(r.TS))
	}
	return out
}

func (c *c07Compat) Project(ch *c07Chan, in c07Rec) c07Rec {
	out := in
	out.SizeBytes = 0
	out.PayloadHash = c07Hash(in.Payload)
	out.Enc = c07EncodeCompat(&out)
	return out
}

func (c *c07Compat) Canon(class string) string {
	switch class {
	case "id0":
		return "corruptvalue"
	case "conflict":
		return "corrupt"
	}
	return class
}

func (c *c07Compat) ClassOf(err error) string {
	switch {
	case err == nil:
		return "ok"
	case errors.Is(err, context.Canceled):
		return "cancelled"
	case errors.Is(err, compat.ErrCorruptState):
		return "corrupt"
	case errors.Is(err, compat.ErrInvalidArgument):
		return "invalid"
	case errors.Is(err, compat.ErrCorruptValue):
		return "corruptvalue"
	case errors.Is(err, compat.ErrClosed):
		return "closed"
	case errors.Is(err, io.ErrUnexpectedEOF):
		return "short"
	}
	return "other"
}

func (c *c07Compat) OpenDB() error {
	eng, err := message.Open(c.dir)
	if err != nil {
		return err
	}
	c.eng = eng
	return nil
}

func (c *c07Compat) CloseDB() error {
	c.mu.Lock()
	c.stores = map[string]*message.ChannelStore{}
	c.mu.Unlock()
	if c.eng == nil {
		return nil
	}
	err := c.eng.Close()
	c.eng = nil
	return err
}

func (c *c07Compat) Acquire(ch *c07Chan) error {
	st, err := c.eng.ForChannel(compat.ChannelKey(ch.Key), compat.ChannelID{ID: ch.ID, Type: ch.Type})
	if err != nil {
		return err
	}
	c.mu.Lock()
	c.stores[ch.Key] = st
	c.mu.Unlock()
	return nil
}

func (c *c07Compat) st(ch *c07Chan) *message.ChannelStore {
	c.mu.Lock()
	defer c.mu.Unlock()
	return c.stores[ch.Key]
}

func (c *c07Compat) Release(ch *c07Chan) error {
	c.mu.Lock()
	st := c.stores[ch.Key]
	delete(c.stores, ch.Key)
	c.mu.Unlock()
	if st == nil {
		return nil
	}
	return st.Close()
}

func (c *c07Compat) Churn(n int) error {
	for i := 0; i < n; i++ {
		c.churn++
		st, err := c.eng.ForChannel(compat.ChannelKey(fmt.Sprintf("zz-churn-%d", c.churn)), compat.ChannelID{ID: "churn", Type: 9})
		if err != nil {
			return err
		}
		if err := st.Close(); err != nil {
			return err
		}
	}
	return nil
}

func (c *c07Compat) records(ch *c07Chan, recs []c07Rec, firstIndex uint64) []compat.Record {
	out := make([]compat.Record, len(recs))
	for i := range recs {
		p := c.Project(ch, recs[i])
		out[i] = compat.Record{ID: p.ID, Payload: p.Enc, SizeBytes: len(p.Enc)}
		if i%2 == 1 {
			out[i].ID = 0 // optional duplicate of the payload's id
		}
		if firstIndex != 0 {
			out[i].Index = firstIndex + uint64(i)
		}
	}
	return out
}

func (c *c07Compat) Append(ch *c07Chan, mode c07Mode, baseSeq uint64, recs []c07Rec) (uint64, uint64, error) {
	rs := c.records(ch, recs, 0)
	var off uint64
	var err error
	switch mode {
	case c07ServerAlloc:
		off, err = c.st(ch).AppendServerAllocated(rs)
	case c07Trusted:
		off, err = c.st(ch).AppendTrusted(rs)
	default:
		off, err = c.st(ch).Append(rs)
	}
	if err != nil || len(recs) == 0 {
		return 0, 0, err
	}
	return off + 1, off + uint64(len(recs)), nil
}

func (c *c07Compat) Apply(ch *c07Chan, baseSeq uint64, recs []c07Rec, ck *c07Ckpt, strict bool) (uint64, error) {
	req := compat.ApplyFetchStoreRequest{Records: c.records(ch, recs, baseSeq)}
	if ck != nil {
		req.Checkpoint = &compat.Checkpoint{Epoch: ck.Epoch, LogStartOffset: ck.LogStart, HW: ck.HW}
	}
	if strict {
		return c.st(ch).StoreApplyFetch(req)
	}
	return c.st(ch).StoreApplyFetchTrusted(req)
}

func (c *c07Compat) Truncate(ch *c07Chan, to uint64) error { return c.st(ch).Truncate(to) }

func (c *c07Compat) Adopt(ch *c07Chan, through uint64) error {
	return c.st(ch).AdoptRetentionBoundary(c.cx(ch), through, "c07")
}

func (c *c07Compat) Trim(ch *c07Chan, through uint64, maxMsgs, maxBytes int) (c07TrimRes, error) {
	res, err := c.st(ch).TrimMessagesThroughLimit(c.cx(ch), through, message.RetentionTrimOptions{MaxMessages: maxMsgs, MaxBytes: maxBytes})
	return c07TrimRes{res.DeletedThroughSeq, res.Deleted, res.More}, err
}

func (c *c07Compat) StoreCkpt(ch *c07Chan, ck c07Ckpt, mono bool, visibleHW, leo uint64) error {
	cc := compat.Checkpoint{Epoch: ck.Epoch, LogStartOffset: ck.LogStart, HW: ck.HW}
	if mono {
		return c.st(ch).StoreCheckpointMonotonic(c.cx(ch), cc, visibleHW, leo)
	}
	return c.st(ch).StoreCheckpoint(cc)
}

func (c *c07Compat) LEO(ch *c07Chan) (uint64, error) { return c.st(ch).LEOWithError() }

func c07FramerFlags(f frame.Framer) uint8 {
	var flags uint8
	if f.NoPersist {
		flags |= 1
	}
	if f.RedDot {
		flags |= 2
	}
	if f.SyncOnce {
		flags |= 4
	}
	if f.DUP {
		flags |= 8
	}
	if f.HasServerVersion {
		flags |= 16
	}
	if f.End {
		flags |= 32
	}
	return flags
}

func c07FromCompat(m compat.Message) c07Rec {
	return c07Rec{Seq: m.MessageSeq, ID: m.MessageID, ChannelID: m.ChannelID, ChannelType: m.ChannelType, FromUID: m.FromUID,
		ClientMsgNo: m.ClientMsgNo, Payload: m.Payload, TS: m.ServerTimestampMS,
		Flags: c07FramerFlags(m.Framer), Setting: uint8(m.Setting), StreamFlag: uint8(m.StreamFlag), MsgKey: m.MsgKey, StreamNo: m.StreamNo,
		Topic: m.Topic, Expire: m.Expire, ClientSeq: m.ClientSeq, StreamID: m.StreamID, Timestamp: m.Timestamp}
}

func (c *c07Compat) Scan(ch *c07Chan, from uint64, limit, maxBytes int, reverse bool) ([]c07Rec, error) {
	ms, err := c.st(ch).ListMessagesBySeq(c.cx(ch), from, limit, maxBytes, reverse)
	out := make([]c07Rec, len(ms))
	for i, m := range ms {
		out[i] = c07FromCompat(m)
	}
	return out, err
}

func (c *c07Compat) GetBySeq(ch *c07Chan, seq uint64) (c07Rec, bool, error) {
	m, ok, err := c.st(ch).GetMessageBySeq(seq)
	return c07FromCompat(m), ok, err
}

func (c *c07Compat) GetByID(ch *c07Chan, id uint64) (c07Rec, bool, error) {
	m, ok, err := c.st(ch).GetMessageByMessageID(id)
	return c07FromCompat(m), ok, err
}

func (c *c07Compat) ListByNo(ch *c07Chan, no string, before uint64, limit int) ([]c07Rec, uint64, bool, error) {
	ms, next, more, err := c.st(ch).ListMessagesByClientMsgNo(no, before, limit)
	out := make([]c07Rec, len(ms))
	for i, m := range ms {
		out[i] = c07FromCompat(m)
	}
	return out, next, more, err
}

func (c *c07Compat) LookupPair(ch *c07Chan, p c07Pair) (c07Hit, bool, error) {
	e, hash, ok, err := c.st(ch).LookupIdempotency(compat.IdempotencyKey{ChannelID: compat.ChannelID{ID: ch.ID, Type: ch.Type}, FromUID: p.UID, ClientMsgNo: p.No})
	if ok && err == nil && e.Offset != e.MessageSeq-1 {
		return c07Hit{}, ok, fmt.Errorf("offset %d does not match seq %d", e.Offset, e.MessageSeq)
	}
	return c07Hit{e.MessageSeq, e.MessageID, hash}, ok, err
}

func (c *c07Compat) LastSender(ch *c07Chan, uid string, through uint64) (uint64, bool, error) {
	return c.st(ch).GetLastSenderMessageSeq(c.cx(ch), uid, through)
}

func (c *c07Compat) Retention(ch *c07Chan) (c07Ret, error) {
	st, err := c.st(ch).LoadRetentionState()
	ret := c07Ret{false, st.LocalRetentionThroughSeq, st.PhysicalRetentionThroughSeq, st.RetainedMaxSeq}
	ret.Present = ret != c07Ret{}
	return ret, err
}

func (c *c07Compat) Checkpoint(ch *c07Chan) (c07Ckpt, error) {
	ck, err := c.st(ch).LoadCheckpoint()
	if errors.Is(err, compat.ErrEmptyState) {
		return c07Ckpt{}, nil
	}
	return c07Ckpt{true, ck.Epoch, ck.LogStartOffset, ck.HW}, err
}

// ExtraAudit compares the offset-addressed raw reads byte for byte with the
// encoded records that were appended.
func (c *c07Compat) ExtraAudit(ch *c07Chan) (string, any) {
	st := c.st(ch)
	want := ch.expectScan(0, 0, 0, false)
	recs, err := st.Read(0, 1<<30)
	if err != nil {
		return "read-records:error", err.Error()
	}
	if len(recs) != len(want) {
		return "read-records:count-mismatch", map[string]any{"want": len(want), "got": len(recs)}
	}
	for i, w := range want {
		if recs[i].Index != w.Seq || recs[i].ID != w.ID || !bytes.Equal(recs[i].Payload, w.Enc) {
			return "read-records:bytes-mismatch", map[string]any{"seq": w.Seq, "got_index": recs[i].Index, "got_id": recs[i].ID, "want_len": len(w.Enc), "got_len": len(recs[i].Payload)}
		}
	}
	// bounded offset reads in both directions
	if len(want) > 0 {
		mid := want[len(want)/2]
		fw, err := st.ReadOffsets(mid.Seq-1, 3, 1<<30)
		exp := ch.expectScan(mid.Seq, 3, 0, false)
		if err != nil || len(fw) != len(exp) {
			return "read-offsets:count-mismatch", map[string]any{"from": mid.Seq - 1, "want": len(exp), "got": len(fw), "err": fmt.Sprint(err)}
		}
		for i, w := range exp {
			if fw[i].Offset != w.Seq-1 || !bytes.Equal(fw[i].Payload, w.Enc) {
				return "read-offsets:bytes-mismatch", map[string]any{"seq": w.Seq, "got_offset": fw[i].Offset}
			}
		}
		rv, err := st.ReadOffsetsReverse(mid.Seq-1, 3, 1<<30)
		exp = ch.expectScan(mid.Seq, 3, 0, true)
		if err != nil || len(rv) != len(exp) {
			return "read-offsets-reverse:count-mismatch", map[string]any{"from": mid.Seq - 1, "want": len(exp), "got": len(rv), "err": fmt.Sprint(err)}
		}
		for i, w := range exp {
			if rv[i].Offset != w.Seq-1 || !bytes.Equal(rv[i].Payload, w.Enc) {
				return "read-offsets-reverse:bytes-mismatch", map[string]any{"seq": w.Seq, "got_offset": rv[i].Offset}
			}
		}
	}
	return "", nil
}
