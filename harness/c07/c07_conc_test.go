//go:build verif

package c07rt

import (
	"fmt"
	"os"
	"path/filepath"
	"sync"
	"testing"
	"time"

	"github.com/WuKongIM/WuKongIM/pkg/verifkit"
)

// TestVerifC07Concurrent: different channels of ONE engine are driven by
// concurrent goroutines; every goroutine compares its channel with its own
// sequential model (channels are independent logs, so concurrency on other
// channels must be invisible). Runs under the race detector. Between phases
// the engine is closed and reopened and every channel is audited.
func TestVerifC07Concurrent(t *testing.T) {
	r := verifkit.Start(t, "C07", "conc")
	defer r.Finish()
	r.SetRule("Each case opens one engine (typed, compat or factory surface in rotation) and runs 4-8 goroutines, each owning one channel and a private sequential model with a disjoint message-id range, for 2-3 concurrent phases separated by whole-DB close+reopen with a full audit of all channels. Non-trivial = a goroutine's channel saw a truncation/trim, an accepted append after it and a reopen. Distinct by surface + goroutine count + collapsed op-kind sequence of each goroutine.")
	r.Assume("message ids of different goroutines are disjoint (as the node-scoped allocator guarantees), so per-channel models are independent")
	n := r.N(3, 15)
	ops := r.N(14, 28)
	base := t.TempDir()
	for i := 0; i < n; i++ {
		if r.Skip(i) {
			continue
		}
		rng := r.Rand(uint64(i), 11)
		dir := filepath.Join(base, fmt.Sprintf("c%d", i))
		var surf c07Surface
		family := ""
		switch i % 3 {
		case 0:
			family, surf = "typed", c07NewTyped(dir)
		case 1:
			family, surf = "compat", c07NewCompat(dir)
		default:
			family, surf = "factorydb", c07NewFactory(dir, false)
		}
		g := 4 + rng.IntN(r.N(3, 5))
		phases := 2 + rng.IntN(2)
		r.BeginCase(i, fmt.Sprintf("concurrent %s goroutines=%d phases=%d", family, g, phases))
		if err := surf.OpenDB(); err != nil {
			r.Inconclusive("open: " + err.Error())
			continue
		}
		drivers := make([]*c07Driver, g)
		for k := 0; k < g; k++ {
			node := c07NewNode()
			ch := c07NewChan(fmt.Sprintf("1:g%d", k), fmt.Sprintf("g%d", k), 1)
			if k == 1 {
				ch = c07NewChan("1:g", "g", 1) // a key that is a prefix of the others
			}
			node.Chans = []*c07Chan{ch}
			p := c07Params{Ops: ops, PairPool: 8 + rng.IntN(30), IDPool: 6 + rng.IntN(20), PCollide: 0.15, AllowDBOps: false,
				IDBase: uint64(k+1) << 40, SigPrefix: "conc:", AuditCap: 8}
			drivers[k] = c07NewDriver(r, r.Rand(uint64(i), 12, uint64(k)), node, node.Chans, []c07Surface{surf}, p)
		}
		ok := true
		for ph := 0; ph < phases && ok; ph++ {
			var wg sync.WaitGroup
			done := verifkit.Watchdog(10*time.Minute, func() {
				for _, d := range drivers {
					wg.Add(1)
					go func(d *c07Driver) {
						defer wg.Done()
						r.Guard("conc:history", i, func() { d.run() })
					}(d)
				}
				wg.Wait()
			})
			if !done {
				r.Inconclusive("watchdog: concurrent phase did not finish in 10 minutes")
				ok = false
				break
			}
			r.Count("conc.phases", 1)
			// barrier: whole-DB close + reopen, then every channel is audited
			if err := surf.CloseDB(); err != nil {
				r.Violation("conc:closedb:error", err.Error())
				ok = false
				break
			}
			if err := surf.OpenDB(); err != nil {
				r.Violation("conc:opendb:error", err.Error())
				ok = false
				break
			}
			for _, d := range drivers {
				for _, ch := range d.chans {
					ch.Leased = false
					if ch.appendAfterCut {
						ch.reopenAfterAppend = true
					}
				}
				d.kind("reopen")
				if !d.dead {
					// per-op audits sample point lookups (race-detector cost); the
					// barrier audit looks up every model key
					d.p.AuditCap = 400
					r.Guard("conc:audit", i, func() { d.auditAll() })
					d.p.AuditCap = 8
				}
				if d.dead {
					ok = false
				}
			}
		}
		_ = surf.CloseDB()
		os.RemoveAll(dir)
		fp := fmt.Sprintf("%s|g%d", family, g)
		nt := false
		for _, d := range drivers {
			fp += "|" + d.fingerprint()
			nt = nt || d.nontrivial()
		}
		r.Count("histories.conc."+family, 1)
		if ok && nt {
			r.Nontrivial(fp)
		}
		if r.WantSample() {
			r.Sample(map[string]any{"family": family, "case": i, "goroutines": g, "phases": phases, "g0_fingerprint": drivers[0].fingerprint()})
		}
	}
}
