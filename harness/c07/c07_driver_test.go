//go:build verif

package c07rt

import (
	"context"
	"fmt"
	"math/rand/v2"
	"strings"

	"github.com/WuKongIM/WuKongIM/pkg/verifkit"
)

// c07Quirks describes documented per-surface behaviour that the generic
// driver must respect (not weaken): which operations exist and how the
// surface reports the abstract outcome classes.
type c07Quirks struct {
	Name string
	// ChecksDup: the surface enforces id / idempotency uniqueness (the
	// in-memory test double does not).
	ChecksDup bool
	// TruncAboveLEOIsError: truncating above the log end is rejected instead
	// of being a no-op.
	TruncAboveLEOIsError bool
	// TrimNeedsAdopt: physical trim beyond the adopted boundary is rejected;
	// adoption is a separate call. Otherwise Trim adopts by itself.
	TrimNeedsAdopt bool
	// TruncBelowRetentionRejected: cutting below the adopted boundary is an error.
	TruncBelowRetentionRejected bool
	// TruncKeepsRetainedMax: Truncate does not lower the persisted LEO floor
	// (typed ChannelLog.TruncateFrom); the main workload then only truncates
	// at or above that floor and a dedicated probe covers the rest.
	TruncKeepsRetainedMax bool
	HasBaseSeq            bool
	HasTrusted            bool
	HasServerAlloc        bool
	HasApply              bool
	HasApplyStrict        bool
	HasApplyCkpt          bool
	HasCkpt               bool
	HasTruncate           bool
	HasListByNo           bool
	HasLookupPair         bool
	HasLastSender         bool
	HasGetByID            bool
	HasHash               bool
	HasHitHash            bool
	HasCompatFields       bool
	ExactRetention        bool
	EmptyPayloadOK        bool
	AdoptAboveLEOOK       bool
	TrimAboveLEOOK        bool
	HasAdopt              bool
	// ApplyDefaultsTS: follower applies replace a zero server timestamp.
	AppendDefaultsTS bool
	ApplyDefaultsTS  bool
	HasChurn         bool
	// ApplyBelowLEOLenient: a follower apply whose indexes lie at or below the
	// log end is a documented duplicate-prefix skip (in-memory double), not an
	// error; wrong bases are then only generated above the log end.
	ApplyBelowLEOLenient bool
}

type c07TrimRes struct {
	DeletedThrough uint64
	Deleted        int
	More           bool
}

type c07Hit struct {
	Seq, ID, Hash uint64
}

// c07Surface is one real store surface under test.
type c07Surface interface {
	Quirks() c07Quirks
	// Project returns the row the surface is documented to store for input in.
	Project(ch *c07Chan, in c07Rec) c07Rec
	// Canon maps an abstract class (ok, conflict, id0, invalid, corrupt) to the
	// surface's error vocabulary; ClassOf classifies a returned error.
	Canon(class string) string
	ClassOf(err error) string

	OpenDB() error
	CloseDB() error
	Acquire(ch *c07Chan) error
	Release(ch *c07Chan) error
	Churn(n int) error
	// SetCtx installs the context used by the following calls on ch (nil = live).
	SetCtx(ch *c07Chan, ctx context.Context)

	Append(ch *c07Chan, mode c07Mode, baseSeq uint64, recs []c07Rec) (base, last uint64, err error)
	Apply(ch *c07Chan, baseSeq uint64, recs []c07Rec, ckpt *c07Ckpt, strict bool) (last uint64, err error)
	Truncate(ch *c07Chan, to uint64) error
	Adopt(ch *c07Chan, through uint64) error
	Trim(ch *c07Chan, through uint64, maxMsgs, maxBytes int) (c07TrimRes, error)
	StoreCkpt(ch *c07Chan, ck c07Ckpt, monotonic bool, visibleHW, leo uint64) error

	LEO(ch *c07Chan) (uint64, error)
	Scan(ch *c07Chan, from uint64, limit, maxBytes int, reverse bool) ([]c07Rec, error)
	GetBySeq(ch *c07Chan, seq uint64) (c07Rec, bool, error)
	GetByID(ch *c07Chan, id uint64) (c07Rec, bool, error)
	ListByNo(ch *c07Chan, no string, before uint64, limit int) ([]c07Rec, uint64, bool, error)
	LookupPair(ch *c07Chan, p c07Pair) (c07Hit, bool, error)
	LastSender(ch *c07Chan, uid string, through uint64) (uint64, bool, error)
	Retention(ch *c07Chan) (c07Ret, error)
	Checkpoint(ch *c07Chan) (c07Ckpt, error)
	// ExtraAudit runs surface-specific byte-level read checks; it returns a
	// violation kind ("" if fine) and a witness.
	ExtraAudit(ch *c07Chan) (string, any)
}

// c07Params tunes the workload.
type c07Params struct {
	Ops        int
	PairPool   int     // size of the colliding (uid, no) pool
	IDPool     int     // size of the colliding id pool (strict mode)
	PCollide   float64 // probability to reuse a stored row's pair / id on purpose
	MaxBatch   int
	BigPayload bool
	AllowDBOps bool // reopen / churn allowed (false inside concurrent phases)
	IDBase     uint64
	SigPrefix  string
	AuditCap   int // above this many rows point lookups are sampled
	AuditEvery int // audit only every k-th mutating op (0/1 = every op)
	ChurnOneIn int // a lease close evicts the warm cache once in this many times (default 6)
	// CancelOneIn: one op in this many runs under a countdown context that
	// reports cancellation after the N-th poll (0 = never). After a barrier
	// the next op is armed with probability 1/2.
	CancelOneIn int
	// Weights of the op kinds in run(): append, apply, truncate, trim, adopt,
	// ckpt, lease, reopen, read. Zero value = C07 default mix.
	Weights [9]int
}

// c07Driver runs one generated history against one or more surfaces that
// share a single reference model.
type c07Driver struct {
	r                   *verifkit.Run
	rng                 *rand.Rand
	node                *c07Node
	chans               []*c07Chan
	surfs               []c07Surface
	q                   c07Quirks // intersection of capabilities
	p                   c07Params
	fresh               uint64
	freshP              uint64
	trace               []string
	dead                bool
	muts                int
	armN                int64 // pending cancellation fault: cancel after armN polls (-1 = none)
	armNextAfterBarrier bool
	scanCD              *c07Countdown
	lastCD              *c07Countdown // countdown used by the most recent armed call
	kinds               []string      // op-kind sequence (fingerprint)
	// C08 bookkeeping: what kinds of duplicate rejections / re-acceptances the history contained
	dupAfter map[string]int
	// beforeClose runs just before the engine is closed for a reopen (evidence hooks)
	beforeClose func()
	uids        []string
	nos         []string
}

func c07Intersect(surfs []c07Surface) c07Quirks {
	q := surfs[0].Quirks()
	for _, s := range surfs[1:] {
		o := s.Quirks()
		q.Name += "+" + o.Name
		q.ChecksDup = q.ChecksDup && o.ChecksDup
		q.HasBaseSeq = q.HasBaseSeq && o.HasBaseSeq
		q.HasTrusted = q.HasTrusted && o.HasTrusted
		q.HasServerAlloc = q.HasServerAlloc && o.HasServerAlloc
		q.HasApply = q.HasApply && o.HasApply
		q.HasApplyStrict = q.HasApplyStrict && o.HasApplyStrict
		q.HasApplyCkpt = q.HasApplyCkpt && o.HasApplyCkpt
		q.HasCkpt = q.HasCkpt && o.HasCkpt
		q.HasTruncate = q.HasTruncate && o.HasTruncate
		q.EmptyPayloadOK = q.EmptyPayloadOK && o.EmptyPayloadOK
		q.AdoptAboveLEOOK = q.AdoptAboveLEOOK && o.AdoptAboveLEOOK
		q.TrimAboveLEOOK = q.TrimAboveLEOOK && o.TrimAboveLEOOK
		q.HasAdopt = q.HasAdopt && o.HasAdopt
		q.TrimNeedsAdopt = q.TrimNeedsAdopt || o.TrimNeedsAdopt
		q.TruncKeepsRetainedMax = q.TruncKeepsRetainedMax || o.TruncKeepsRetainedMax
		q.AppendDefaultsTS = q.AppendDefaultsTS || o.AppendDefaultsTS
		q.ApplyDefaultsTS = q.ApplyDefaultsTS || o.ApplyDefaultsTS
		q.HasChurn = q.HasChurn && o.HasChurn
		q.ApplyBelowLEOLenient = q.ApplyBelowLEOLenient || o.ApplyBelowLEOLenient
	}
	return q
}

func c07NewDriver(r *verifkit.Run, rng *rand.Rand, node *c07Node, chans []*c07Chan, surfs []c07Surface, p c07Params) *c07Driver {
	d := &c07Driver{r: r, rng: rng, node: node, chans: chans, surfs: surfs, q: c07Intersect(surfs), p: p, armN: -1}
	if d.p.AuditCap == 0 {
		d.p.AuditCap = 400
	}
	if d.p.MaxBatch == 0 {
		d.p.MaxBatch = 64
	}
	if d.p.ChurnOneIn == 0 {
		d.p.ChurnOneIn = 6
	}
	d.fresh = p.IDBase + 1<<20
	// sender / client-number pools with prefix-related members: ("a","bc") vs ("ab","c").
	baseU := []string{"a", "ab", "u1", "u2", "u\x00", "用户", strings.Repeat("U", 300), "u1\x00", "b"}
	baseN := []string{"bc", "c", "c1", "c2", "n\xff", "c1\x00", strings.Repeat("N", 280), "\x00", "abc"}
	nu := 2 + rng.IntN(len(baseU)-1)
	nn := 2 + rng.IntN(len(baseN)-1)
	d.uids = baseU[:nu]
	d.nos = baseN[:nn]
	for len(d.uids)*len(d.nos) < p.PairPool {
		d.nos = append(d.nos, fmt.Sprintf("p%d", len(d.nos)))
	}
	return d
}

func (d *c07Driver) tracef(format string, a ...any) {
	s := fmt.Sprintf(format, a...)
	d.trace = append(d.trace, s)
	if len(d.trace) > 60 {
		d.trace = d.trace[len(d.trace)-60:]
	}
}

func (d *c07Driver) violate(kind string, w map[string]any) {
	if w == nil {
		w = map[string]any{}
	}
	w["trace_tail"] = append([]string(nil), d.trace...)
	d.r.Violation(d.p.SigPrefix+kind, w)
	d.dead = true
}

func (d *c07Driver) kind(k string) {
	d.kinds = append(d.kinds, k)
	d.r.Count("op."+k, 1)
}

// ---- generators -----------------------------------------------------------

func (d *c07Driver) freshID() uint64 { d.fresh++; return d.fresh }

func (d *c07Driver) poolID() uint64 {
	special := []uint64{^uint64(0), 1 << 63, 1 << 32, 1}
	if d.rng.IntN(12) == 0 {
		return d.p.IDBase ^ special[d.rng.IntN(len(special))]
	}
	return d.p.IDBase + 1 + uint64(d.rng.IntN(d.p.IDPool))
}

func (d *c07Driver) poolPair() c07Pair {
	return c07Pair{d.uids[d.rng.IntN(len(d.uids))], d.nos[d.rng.IntN(len(d.nos))]}
}

func (d *c07Driver) freshPair() c07Pair {
	d.freshP++
	return c07Pair{d.uids[d.rng.IntN(len(d.uids))], fmt.Sprintf("f%d-%d", d.p.IDBase>>40, d.freshP)}
}

func (d *c07Driver) payload() []byte {
	var n int
	switch x := d.rng.IntN(100); {
	case x < 5 && d.q.EmptyPayloadOK:
		n = 0
	case x < 65:
		n = 1 + d.rng.IntN(16)
	case x < 96:
		n = 17 + d.rng.IntN(300)
	default:
		if d.p.BigPayload {
			n = 1000 + d.rng.IntN(7193)
		} else {
			n = 300 + d.rng.IntN(500)
		}
	}
	b := make([]byte, n)
	for i := range b {
		b[i] = byte(d.rng.UintN(256))
	}
	return b
}

func (d *c07Driver) ts(allowZero bool) int64 {
	switch d.rng.IntN(10) {
	case 0:
		if allowZero {
			return 0
		}
		return 1
	case 1:
		return -1 - int64(d.rng.Uint64N(1<<40))
	case 2:
		return int64(^uint64(0) >> 1)
	default:
		return 1_700_000_000_000 + int64(d.rng.Uint64N(1<<30))
	}
}

func (d *c07Driver) randStoredRow(ch *c07Chan) *c07Rec {
	if len(ch.Rows) == 0 {
		return nil
	}
	lo, hi := ch.lowSeq(), ch.LEO
	for try := 0; try < 8; try++ {
		seq := lo + d.rng.Uint64N(hi-lo+1)
		if row := ch.Rows[seq]; row != nil {
			return row
		}
	}
	return nil
}

// genBatch builds one input batch. Trusted / server-allocated batches are
// repaired so they respect the mode's documented caller contract.
func (d *c07Driver) genBatch(ch *c07Chan, mode c07Mode, allowZeroTS bool) []c07Rec {
	n := 1 + d.rng.IntN(4)
	if x := d.rng.IntN(10); x == 0 {
		n = 1 + d.rng.IntN(d.p.MaxBatch)
	} else if x == 1 {
		n = 0
	}
	recs := make([]c07Rec, 0, n)
	for i := 0; i < n; i++ {
		var rec c07Rec
		// id
		switch {
		case mode == c07Strict && d.q.ChecksDup && d.rng.Float64() < 0.35:
			rec.ID = d.poolID()
		case mode == c07Strict && d.q.ChecksDup && d.rng.Float64() < d.p.PCollide:
			if row := d.randStoredRow(d.chans[d.rng.IntN(len(d.chans))]); row != nil {
				rec.ID = row.ID
			} else {
				rec.ID = d.freshID()
			}
		case mode == c07Trusted && d.rng.IntN(3) == 0 && len(ch.GoneIDs) > 0:
			rec.ID = ch.GoneIDs[d.rng.IntN(len(ch.GoneIDs))] // re-apply of a cut suffix
		default:
			rec.ID = d.freshID()
		}
		// pair
		switch x := d.rng.Float64(); {
		case x < 0.12:
			// no sender and/or no client number
			if d.rng.IntN(2) == 0 {
				rec.ClientMsgNo = d.nos[d.rng.IntN(len(d.nos))]
			} else if d.rng.IntN(2) == 0 {
				rec.FromUID = d.uids[d.rng.IntN(len(d.uids))]
			}
		case x < 0.12+d.p.PCollide:
			if row := d.randStoredRow(ch); row != nil && row.FromUID != "" {
				rec.FromUID, rec.ClientMsgNo = row.FromUID, row.ClientMsgNo
			} else if len(ch.GonePairs) > 0 {
				p := ch.GonePairs[d.rng.IntN(len(ch.GonePairs))]
				rec.FromUID, rec.ClientMsgNo = p.UID, p.No
			} else {
				p := d.poolPair()
				rec.FromUID, rec.ClientMsgNo = p.UID, p.No
			}
		case x < 0.6:
			p := d.poolPair()
			rec.FromUID, rec.ClientMsgNo = p.UID, p.No
		default:
			p := d.freshPair()
			rec.FromUID, rec.ClientMsgNo = p.UID, p.No
		}
		rec.Payload = d.payload()
		rec.TS = d.ts(allowZeroTS)
		switch d.rng.IntN(3) {
		case 0:
			rec.SizeBytes = len(rec.Payload)
		case 1:
			rec.SizeBytes = 0
		default:
			rec.SizeBytes = len(rec.Payload)
		}
		if d.q.HasCompatFields {
			rec.Flags = uint8(d.rng.UintN(64))
			rec.Setting = uint8(d.rng.UintN(256))
			rec.StreamFlag = uint8(d.rng.UintN(3))
			rec.Expire = d.rng.Uint32()
			rec.ClientSeq = d.rng.Uint64()
			rec.StreamID = d.rng.Uint64()
			rec.Timestamp = int32(d.rng.Uint32())
			if d.rng.IntN(3) == 0 {
				rec.MsgKey = fmt.Sprintf("k%x", d.rng.Uint32())
				rec.StreamNo = fmt.Sprintf("s%x", d.rng.Uint32())
				rec.Topic = []string{"", "t", "topic\x00x"}[d.rng.IntN(3)]
			}
			rec.ChannelID = ch.ID
			rec.ChannelType = ch.Type
			if d.rng.IntN(6) == 0 {
				rec.ChannelID = "other-" + ch.ID // the payload's own channel id must be preserved verbatim
				rec.ChannelType = uint8(d.rng.UintN(256))
			}
		}
		recs = append(recs, rec)
	}
	// contract repair
	needClean := mode == c07Trusted || !d.q.ChecksDup
	seenID := map[uint64]bool{}
	seenPair := map[c07Pair]bool{}
	for i := range recs {
		rec := &recs[i]
		if mode == c07ServerAlloc || needClean {
			_, stored := d.node.IDs[rec.ID]
			if stored || seenID[rec.ID] || mode == c07ServerAlloc {
				rec.ID = d.freshID()
			}
		}
		seenID[rec.ID] = true
		if needClean {
			if p, ok := rec.pair(); ok {
				_, stored := ch.Pairs[p]
				if stored || seenPair[p] {
					np := d.freshPair()
					rec.FromUID, rec.ClientMsgNo = np.UID, np.No
				}
				if p2, ok := rec.pair(); ok {
					seenPair[p2] = true
				}
			}
		}
	}
	// occasionally an invalid (zero) message id in an otherwise clean batch
	if d.q.ChecksDup && len(recs) > 0 && d.rng.IntN(60) == 0 {
		for i := range recs {
			recs[i].ID = d.freshID()
			recs[i].FromUID, recs[i].ClientMsgNo = "", ""
		}
		recs[d.rng.IntN(len(recs))].ID = 0
	}
	return recs
}

func (d *c07Driver) project(ch *c07Chan, recs []c07Rec) []c07Rec {
	out := make([]c07Rec, len(recs))
	for i := range recs {
		out[i] = d.surfs[0].Project(ch, recs[i])
	}
	return out
}

// ---- steps ------------------------------------------------------------------

func (d *c07Driver) ensureLease(ch *c07Chan) bool {
	if ch.Leased {
		return true
	}
	for _, s := range d.surfs {
		if err := s.Acquire(ch); err != nil {
			d.violate(s.Quirks().Name+":acquire:error", map[string]any{"chan": ch.Key, "err": err.Error()})
			return false
		}
	}
	ch.Leased = true
	return true
}

func (d *c07Driver) checkClass(s c07Surface, op, want string, err error, w map[string]any) bool {
	got := s.ClassOf(err)
	wantC := s.Canon(want)
	d.r.Eval(1)
	d.r.Count("outcome."+op+"."+want, 1)
	if got == wantC {
		return true
	}
	if w == nil {
		w = map[string]any{}
	}
	w["want_class"], w["got_class"] = wantC, got
	if err != nil {
		w["err"] = err.Error()
	}
	d.violate(fmt.Sprintf("%s:%s:class:want-%s-got-%s", s.Quirks().Name, op, wantC, got), w)
	return false
}

func (d *c07Driver) stepAppend(ch *c07Chan) {
	modes := []c07Mode{c07Strict, c07Strict}
	if d.q.HasServerAlloc {
		modes = append(modes, c07ServerAlloc)
	}
	if d.q.HasTrusted {
		modes = append(modes, c07Trusted)
	}
	mode := modes[d.rng.IntN(len(modes))]
	d.doAppend(ch, mode, d.genBatch(ch, mode, !d.q.AppendDefaultsTS), -1)
}

// doAppend: baseChoice -1 random, 0 none, 1 right, 2 wrong.
func (d *c07Driver) doAppend(ch *c07Chan, mode c07Mode, recs []c07Rec, baseChoice int) (accepted bool) {
	if d.dead || !d.ensureLease(ch) {
		return false
	}
	var baseSeq uint64
	if d.q.HasBaseSeq {
		if baseChoice < 0 {
			switch x := d.rng.IntN(10); {
			case x < 6:
				baseChoice = 0
			case x < 9:
				baseChoice = 1
			default:
				baseChoice = 2
			}
		}
		switch baseChoice {
		case 1:
			baseSeq = ch.LEO + 1
		case 2:
			baseSeq = ch.LEO + 1 + []uint64{1, 2, ^uint64(0) - ch.LEO - 1}[d.rng.IntN(3)]
			if d.rng.IntN(2) == 0 && ch.LEO > 0 {
				baseSeq = 1 + d.rng.Uint64N(ch.LEO)
			}
		}
	}
	proj := d.project(ch, recs)
	if mode == c07Trusted {
		for i := range proj {
			proj[i].trusted = true
		}
	}
	want, why, holder := d.node.expectAppendHolder(ch, mode, baseSeq, proj, d.q.ChecksDup)
	d.kind("append-" + mode.String())
	d.tracef("append %s chan=%s n=%d base=%d leo=%d want=%s(%s)", mode, ch.Key, len(recs), baseSeq, ch.LEO, want, why)
	if why != "" {
		d.r.Count("append.reject."+why, 1)
	}
	wantBase, wantLast := uint64(0), uint64(0)
	if want == "ok" && len(recs) > 0 {
		wantBase, wantLast = ch.LEO+1, ch.LEO+uint64(len(recs))
	}
	for _, s := range d.surfs {
		cd := d.arm(ch, "append")
		base, last, err := s.Append(ch, mode, baseSeq, recs)
		w := map[string]any{"chan": ch.Key, "mode": mode.String(), "n": len(recs), "base_seq": baseSeq, "model_leo": ch.LEO, "why": why, "first": c07Brief(c07First(proj)), "barriers": ch.Barriers}
		if d.disarm(ch, cd, "append", err) {
			// the append reported the context error: nothing may have been
			// stored unless the whole accepted batch was
			w["countdown_n"] = cd.n
			applied, ok := d.reconcileLog(s, ch, "append", ch.LEO+uint64(len(recs)), want == "ok" && len(recs) > 0, w)
			if !ok {
				return false
			}
			if mode != c07Trusted {
				ch.sinceBarrier++
			}
			if applied {
				d.node.applyAppend(ch, proj)
			}
			d.audit(ch)
			return applied
		}
		if want == "conflict" && err == nil && (why == "stored-pair" || why == "batch-pair" || why == "stored-id" || why == "batch-id") {
			// the refuting event of C08: a duplicate was stored
			w["holder"], w["got_base"], w["got_last"] = c07Brief(holder), base, last
			if holder != nil {
				w["holder_stored_before_barriers"] = ch.Barriers[min(holder.epoch, len(ch.Barriers)):]
				w["holder_trusted"] = holder.trusted
			}
			d.r.Eval(1)
			d.violate(fmt.Sprintf("%s:append:duplicate-accepted:%s:%s", s.Quirks().Name, why, mode), w)
			return false
		}
		if !d.checkClass(s, "append", want, err, w) {
			return false
		}
		if want == "ok" && (base != wantBase || last != wantLast) {
			w["got_base"], w["got_last"], w["want_base"], w["want_last"] = base, last, wantBase, wantLast
			d.violate(s.Quirks().Name+":append:range-mismatch", w)
			return false
		}
	}
	d.noteDup(ch, mode, want, why, holder, proj)
	if mode != c07Trusted {
		ch.sinceBarrier++
	}
	if want == "ok" {
		d.node.applyAppend(ch, proj)
		d.r.Count("rows.appended", len(recs))
	}
	d.auditMaybe(ch)
	return want == "ok" && len(recs) > 0
}

// noteDup records which duplicate situations a history exercised.
func (d *c07Driver) noteDup(ch *c07Chan, mode c07Mode, want, why string, holder *c07Rec, proj []c07Rec) {
	if d.dupAfter == nil {
		d.dupAfter = map[string]int{}
	}
	note := func(k string) {
		d.dupAfter[k]++
		d.r.Count("dup."+k, 1)
	}
	switch {
	case want == "conflict" && (why == "batch-pair" || why == "batch-id"):
		note("rejected.in-" + why)
	case want == "conflict" && holder != nil:
		kind := "same-lease"
		seen := map[string]bool{}
		for _, b := range ch.Barriers[min(holder.epoch, len(ch.Barriers)):] {
			seen[b] = true
		}
		for _, b := range []string{"reopen", "evict", "reclaim"} {
			if seen[b] {
				kind = b
				break
			}
		}
		if loc := d.node.IDs[holder.ID]; why == "stored-id" && loc.Key != ch.Key {
			kind = "other-channel"
		}
		note("rejected." + why + ".after-" + kind)
		if holder.trusted {
			note("rejected." + why + ".holder-trusted")
		}
	case want == "ok":
		for i := range proj {
			if p, ok := proj[i].pair(); ok {
				for _, g := range ch.GonePairs {
					if g == p {
						note("reaccepted-pair-after-removal")
						break
					}
				}
			}
		}
	}
}

func (d *c07Driver) auditMaybe(ch *c07Chan) {
	d.muts++
	if d.p.AuditEvery > 1 && d.muts%d.p.AuditEvery != 0 {
		return
	}
	d.audit(ch)
}

func c07First(recs []c07Rec) *c07Rec {
	if len(recs) == 0 {
		return nil
	}
	return &recs[0]
}

func (d *c07Driver) stepApply(ch *c07Chan) {
	if !d.ensureLease(ch) {
		return
	}
	strict := d.q.HasApplyStrict && d.rng.IntN(4) == 0
	mode := c07Trusted
	if strict {
		mode = c07Strict
	}
	recs := d.genBatch(ch, mode, !d.q.ApplyDefaultsTS)
	baseSeq := ch.LEO + 1
	wrong := d.rng.IntN(6) == 0
	if wrong {
		baseSeq = ch.LEO + 2 + d.rng.Uint64N(3)
		if d.rng.IntN(2) == 0 && ch.LEO > 0 && !d.q.ApplyBelowLEOLenient {
			baseSeq = 1 + d.rng.Uint64N(ch.LEO)
		}
	}
	if wrong && len(recs) == 0 && !d.q.HasBaseSeq {
		baseSeq = ch.LEO + 1 // an empty batch cannot carry a base on index-addressed surfaces
	}
	proj := d.project(ch, recs)
	if !strict {
		for i := range proj {
			proj[i].trusted = true
		}
	}
	want, why := d.node.expectAppend(ch, mode, baseSeq, proj, d.q.ChecksDup)
	// optional checkpoint carried by the apply (only with an acceptable batch:
	// surfaces validate rows and checkpoint in different orders)
	var ck *c07Ckpt
	if d.q.HasApplyCkpt && want == "ok" && d.rng.IntN(3) == 0 {
		newLEO := ch.LEO
		if want == "ok" {
			newLEO += uint64(len(recs))
		}
		c := d.genCkpt(ch, newLEO)
		ck = &c
		if want == "ok" {
			if cw := d.expectCkpt(ch, c, true, newLEO, newLEO); cw != "ok" {
				want, why = cw, "ckpt"
			}
		}
	}
	d.kind("apply")
	d.tracef("apply strict=%v chan=%s n=%d base=%d leo=%d ck=%v want=%s(%s)", strict, ch.Key, len(recs), baseSeq, ch.LEO, ck, want, why)
	for _, s := range d.surfs {
		cd := d.arm(ch, "apply")
		last, err := s.Apply(ch, baseSeq, recs, ck, strict)
		w := map[string]any{"chan": ch.Key, "n": len(recs), "base_seq": baseSeq, "model_leo": ch.LEO, "why": why, "ckpt": ck}
		if d.disarm(ch, cd, "apply", err) {
			w["countdown_n"] = cd.n
			applied, ok := d.reconcileLog(s, ch, "apply", ch.LEO+uint64(len(recs)), want == "ok" && len(recs) > 0, w)
			if !ok {
				return
			}
			if applied {
				d.node.applyAppend(ch, proj)
				if ck != nil {
					ch.Ckpt = *ck
					ch.Ckpt.Present = true
				}
			} else if ck != nil && want == "ok" {
				// a records-free or unapplied request may still have stored its checkpoint
				if got, cerr := s.Checkpoint(ch); cerr == nil && got != ch.Ckpt {
					want := *ck
					want.Present = true
					if len(recs) == 0 && got == want {
						ch.Ckpt = want
					}
				}
			}
			d.audit(ch)
			return
		}
		if !d.checkClass(s, "apply", want, err, w) {
			return
		}
		if want == "ok" && len(recs) > 0 && last != ch.LEO+uint64(len(recs)) {
			w["got_last"] = last
			d.violate(s.Quirks().Name+":apply:range-mismatch", w)
			return
		}
	}
	if want == "ok" {
		d.node.applyAppend(ch, proj)
		if ck != nil {
			ch.Ckpt = *ck
			ch.Ckpt.Present = true
		}
		d.r.Count("rows.applied", len(recs))
	}
	d.audit(ch)
}

func (d *c07Driver) genCkpt(ch *c07Chan, leo uint64) c07Ckpt {
	c := ch.Ckpt
	c.Present = true
	switch d.rng.IntN(6) {
	case 0: // regress
		if c.HW > 0 {
			c.HW = d.rng.Uint64N(c.HW)
		}
	case 1: // beyond leo
		c.HW = leo + 1 + d.rng.Uint64N(3)
	case 2: // log start above hw
		c.HW = leo
		c.LogStart = leo + 1
	default:
		if leo >= c.HW {
			c.HW = c.HW + d.rng.Uint64N(leo-c.HW+1)
		}
		if d.rng.IntN(3) == 0 {
			c.Epoch += d.rng.Uint64N(3)
		}
		if d.rng.IntN(3) == 0 && c.HW >= c.LogStart {
			c.LogStart += d.rng.Uint64N(c.HW - c.LogStart + 1)
		}
	}
	return c
}

// expectCkpt: a checkpoint is accepted iff well-formed and (monotonic form)
// within the caller-visible frontier and not regressing.
func (d *c07Driver) expectCkpt(ch *c07Chan, c c07Ckpt, monotonic bool, visibleHW, leo uint64) string {
	if c.LogStart > c.HW {
		return "corrupt"
	}
	if !monotonic {
		return "ok"
	}
	if c.HW > visibleHW || c.HW > leo {
		return "corrupt"
	}
	if ch.Ckpt.Present && (c.HW < ch.Ckpt.HW || c.LogStart < ch.Ckpt.LogStart || c.Epoch < ch.Ckpt.Epoch) {
		return "corrupt"
	}
	return "ok"
}

func (d *c07Driver) stepCkpt(ch *c07Chan) {
	if !d.q.HasCkpt || !d.ensureLease(ch) {
		return
	}
	mono := d.rng.IntN(2) == 0
	c := d.genCkpt(ch, ch.LEO)
	if !mono && c.HW > ch.LEO {
		// An unvalidated checkpoint above the log end is a caller-contract
		// violation (documented as corrupt on recovery); not part of C07.
		c.HW = ch.LEO
		if c.LogStart > c.HW {
			c.LogStart = c.HW
		}
	}
	want := d.expectCkpt(ch, c, mono, ch.LEO, ch.LEO)
	d.kind("ckpt")
	d.tracef("ckpt mono=%v chan=%s %+v want=%s", mono, ch.Key, c, want)
	for _, s := range d.surfs {
		err := s.StoreCkpt(ch, c, mono, ch.LEO, ch.LEO)
		if !d.checkClass(s, "ckpt", want, err, map[string]any{"chan": ch.Key, "ckpt": c, "mono": mono, "cur": ch.Ckpt}) {
			return
		}
	}
	if want == "ok" {
		ch.Ckpt = c
	}
	d.audit(ch)
}

func (d *c07Driver) stepTruncate(ch *c07Chan) {
	if !d.q.HasTruncate || !d.ensureLease(ch) {
		return
	}
	floor := ch.Ret.Local
	if d.q.TruncKeepsRetainedMax && ch.Ret.Present && ch.Ret.RetainedMax > floor {
		floor = ch.Ret.RetainedMax
	}
	var to uint64
	switch x := d.rng.IntN(10); {
	case x == 0:
		to = ch.LEO
	case x == 1:
		to = ch.LEO + 1 + d.rng.Uint64N(3)
	case x == 2:
		to = floor
	case x == 3 && d.q.TruncBelowRetentionRejected && ch.Ret.Local > 0:
		to = d.rng.Uint64N(ch.Ret.Local)
	default:
		if ch.LEO > floor {
			to = floor + d.rng.Uint64N(ch.LEO-floor+1)
			if d.rng.IntN(2) == 0 && ch.LEO-floor > 3 {
				to = ch.LEO - 1 - d.rng.Uint64N(3)
			}
		} else {
			to = ch.LEO
		}
	}
	if to < floor && !(d.q.TruncBelowRetentionRejected && to < ch.Ret.Local) {
		to = floor
	}
	want := "ok"
	switch {
	case to > ch.LEO && d.q.TruncAboveLEOIsError:
		want = "conflict"
	case to < ch.LEO && ch.Ret.Present && to < ch.Ret.Local && d.q.TruncBelowRetentionRejected:
		want = "conflict"
	}
	d.kind("truncate")
	d.tracef("truncate chan=%s to=%d leo=%d ret=%+v want=%s", ch.Key, to, ch.LEO, ch.Ret, want)
	for _, s := range d.surfs {
		cd := d.arm(ch, "truncate")
		err := s.Truncate(ch, to)
		if d.disarm(ch, cd, "truncate", err) {
			applied, ok := d.reconcileLog(s, ch, "truncate", to, want == "ok" && to < ch.LEO, map[string]any{"chan": ch.Key, "to": to, "countdown_n": cd.n})
			if !ok {
				return
			}
			if !applied {
				d.audit(ch)
				return
			}
			continue
		}
		if !d.checkClass(s, "truncate", want, err, map[string]any{"chan": ch.Key, "to": to, "model_leo": ch.LEO, "ret": ch.Ret}) {
			return
		}
	}
	if want == "ok" && to < ch.LEO {
		n := d.node.truncateTo(ch, to)
		d.r.Count("rows.truncated", n)
		if ch.Ret.Present && ch.Ret.RetainedMax > to && !d.q.TruncKeepsRetainedMax {
			ch.Ret.RetainedMax = to
		}
		// The stores never touch the checkpoint on truncation; the model keeps
		// it too (a checkpoint above the log end is only compared, never used).
	}
	d.audit(ch)
}

func (d *c07Driver) stepAdopt(ch *c07Chan) {
	if !d.q.HasAdopt || !d.ensureLease(ch) {
		return
	}
	var through uint64
	switch x := d.rng.IntN(8); {
	case x == 0 && d.q.TrimNeedsAdopt:
		through = 0
	case x == 1 && d.q.AdoptAboveLEOOK:
		through = ch.LEO + 1 + d.rng.Uint64N(20)
	default:
		if ch.LEO == 0 {
			return
		}
		through = 1 + d.rng.Uint64N(ch.LEO)
	}
	want := "ok"
	if through == 0 {
		want = "invalid"
	}
	d.kind("adopt")
	d.tracef("adopt chan=%s through=%d leo=%d ret=%+v", ch.Key, through, ch.LEO, ch.Ret)
	for _, s := range d.surfs {
		err := s.Adopt(ch, through)
		if !d.checkClass(s, "adopt", want, err, map[string]any{"chan": ch.Key, "through": through, "model_leo": ch.LEO, "ret": ch.Ret}) {
			return
		}
	}
	if want == "ok" {
		ch.applyAdopt(through)
	}
	d.audit(ch)
}

func (d *c07Driver) stepTrim(ch *c07Chan) {
	if !d.ensureLease(ch) {
		return
	}
	var through uint64
	adoptByTrim := !d.q.TrimNeedsAdopt
	switch x := d.rng.IntN(10); {
	case x == 0:
		through = 0
	case x == 1 && adoptByTrim && d.q.TrimAboveLEOOK:
		through = ch.LEO + 1 + d.rng.Uint64N(10)
	case x == 2 && !adoptByTrim:
		through = ch.Ret.Local + 1 + d.rng.Uint64N(5) // beyond the adopted boundary: must be refused
	case x == 3:
		through = ch.LEO
	default:
		hi := ch.LEO
		if !adoptByTrim {
			hi = ch.Ret.Local
		}
		if hi == 0 {
			return
		}
		through = 1 + d.rng.Uint64N(hi)
	}
	if through == 0 && adoptByTrim {
		// documented no-op
	}
	maxMsgs, maxBytes := 0, 0
	if d.rng.IntN(2) == 0 {
		maxMsgs = 1 + d.rng.IntN(6)
	}
	if d.rng.IntN(3) == 0 {
		maxBytes = 1 + d.rng.IntN(400)
	}
	want := "ok"
	switch {
	case through == 0 && !adoptByTrim:
		want = "invalid"
	case !adoptByTrim && through > ch.Ret.Local:
		want = "conflict"
	}
	var del []uint64
	var remain bool
	if want == "ok" && through > 0 {
		del, remain = ch.expectTrim(through, maxMsgs, maxBytes)
	}
	d.kind("trim")
	d.tracef("trim chan=%s through=%d max=%d/%d leo=%d ret=%+v want=%s del=%d remain=%v", ch.Key, through, maxMsgs, maxBytes, ch.LEO, ch.Ret, want, len(del), remain)
	more := remain
	for _, s := range d.surfs {
		cd := d.arm(ch, "trim")
		res, err := s.Trim(ch, through, maxMsgs, maxBytes)
		w := map[string]any{"chan": ch.Key, "through": through, "max_msgs": maxMsgs, "max_bytes": maxBytes, "model_leo": ch.LEO, "ret": ch.Ret, "got": res, "want_deleted": len(del), "want_remain": remain}
		if d.disarm(ch, cd, "trim", err) {
			// decide by reading the retention state back: unchanged, or exactly
			// the state after the complete trim (never a partial one)
			got, rerr := s.Retention(ch)
			d.r.Eval(1)
			if rerr != nil {
				d.violate(s.Quirks().Name+":trim:retention-error-after-cancelled-op", w)
				return
			}
			if got == ch.Ret || want != "ok" || through == 0 {
				d.r.Count("cancel.no_effect.trim", 1)
				d.audit(ch)
				return
			}
			d.r.Count("cancel.took_effect.trim", 1)
			more = remain
			if got.Physical != through {
				more = true
			}
			d.node.applyTrim(ch, through, del, more, adoptByTrim)
			d.audit(ch)
			return
		}
		if !d.checkClass(s, "trim", want, err, w) {
			return
		}
		if want != "ok" || through == 0 {
			continue
		}
		var wantThrough uint64
		if len(del) > 0 {
			wantThrough = del[len(del)-1]
		}
		d.r.Eval(1)
		if res.Deleted != len(del) || res.DeletedThrough != wantThrough {
			d.violate(s.Quirks().Name+":trim:deleted-mismatch", w)
			return
		}
		if remain && !res.More {
			d.violate(s.Quirks().Name+":trim:more-false-but-rows-remain", w)
			return
		}
		if s.Quirks().ExactRetention {
			more = res.More
		}
	}
	if want == "ok" && through > 0 {
		d.node.applyTrim(ch, through, del, more, adoptByTrim)
		d.r.Count("rows.trimmed", len(del))
	}
	d.audit(ch)
}

func (d *c07Driver) stepLease(ch *c07Chan) {
	if !ch.Leased {
		d.ensureLease(ch)
		return
	}
	d.kind("lease-close")
	d.tracef("lease close chan=%s", ch.Key)
	for _, s := range d.surfs {
		if err := s.Release(ch); err != nil {
			d.violate(s.Quirks().Name+":release:error", map[string]any{"err": err.Error()})
			return
		}
	}
	ch.Leased = false
	barrier := "reclaim"
	if d.q.HasChurn && d.p.AllowDBOps && d.rng.IntN(max(d.p.ChurnOneIn, 1)) == 0 {
		barrier = "evict"
		// evict the warm append state so LEO and the idempotency filter are
		// rebuilt from durable rows at the next acquisition
		d.kind("churn")
		d.tracef("churn warm cache")
		for _, s := range d.surfs {
			if err := s.Churn(8300); err != nil {
				d.violate(s.Quirks().Name+":churn:error", map[string]any{"err": err.Error()})
				return
			}
		}
	}
	ch.Barriers = append(ch.Barriers, barrier)
	ch.sinceBarrier = 0
	d.armNextAfterBarrier = true
	if d.ensureLease(ch) {
		d.audit(ch)
	}
}

func (d *c07Driver) stepReopen() {
	if !d.p.AllowDBOps {
		return
	}
	d.kind("reopen")
	d.tracef("reopen db")
	releaseFirst := d.rng.IntN(2) == 0
	if d.beforeClose != nil {
		d.beforeClose()
	}
	for _, s := range d.surfs {
		if releaseFirst {
			for _, ch := range d.chans {
				if ch.Leased {
					if err := s.Release(ch); err != nil {
						d.violate(s.Quirks().Name+":release:error", map[string]any{"err": err.Error()})
						return
					}
				}
			}
		}
		if err := s.CloseDB(); err != nil {
			d.violate(s.Quirks().Name+":closedb:error", map[string]any{"err": err.Error()})
			return
		}
		if err := s.OpenDB(); err != nil {
			d.violate(s.Quirks().Name+":opendb:error", map[string]any{"err": err.Error()})
			return
		}
	}
	for _, ch := range d.chans {
		ch.Leased = false
		ch.Barriers = append(ch.Barriers, "reopen")
		ch.sinceBarrier = 0
		if ch.appendAfterCut {
			ch.reopenAfterAppend = true
		}
	}
	d.armNextAfterBarrier = true
	d.auditAll()
}

func (d *c07Driver) auditAll() {
	for _, ch := range d.chans {
		if d.dead {
			return
		}
		if d.ensureLease(ch) {
			d.audit(ch)
		}
	}
}

// stepRead issues one random bounded read or lookup and compares it.
func (d *c07Driver) stepRead(ch *c07Chan) {
	if !d.ensureLease(ch) {
		return
	}
	d.kind("read")
	from := uint64(0)
	if ch.LEO > 0 && d.rng.IntN(5) != 0 {
		from = d.rng.Uint64N(ch.LEO + 3)
	}
	limit, maxBytes := 0, 0
	if d.rng.IntN(2) == 0 {
		limit = 1 + d.rng.IntN(10)
	}
	if d.rng.IntN(2) == 0 {
		maxBytes = 1 + d.rng.IntN(600)
	}
	rev := d.rng.IntN(2) == 0
	for _, s := range d.surfs {
		cd := d.arm(ch, "scan")
		d.scanCD = cd
		ok := d.compareScan(s, ch, from, limit, maxBytes, rev)
		d.scanCD = nil
		if cd != nil {
			s.SetCtx(ch, nil)
		}
		if !ok {
			return
		}
	}
}

func (d *c07Driver) compareScan(s c07Surface, ch *c07Chan, from uint64, limit, maxBytes int, rev bool) bool {
	q := s.Quirks()
	want := ch.expectScan(from, limit, maxBytes, rev)
	got, err := s.Scan(ch, from, limit, maxBytes, rev)
	d.r.Eval(1)
	w := map[string]any{"chan": ch.Key, "from": from, "limit": limit, "max_bytes": maxBytes, "reverse": rev, "model_leo": ch.LEO, "ret": ch.Ret}
	dir := "fwd"
	if rev {
		dir = "rev"
	}
	if d.scanCD != nil && c07IsCancel(err) {
		// a scan under a countdown context may report the context error, but
		// must never return a silently shortened result
		d.r.Count("cancel.returned_ctx_error.scan", 1)
		return true
	}
	if err != nil {
		w["err"] = err.Error()
		d.violate(q.Name+":scan-"+dir+":error", w)
		return false
	}
	if len(got) != len(want) {
		w["want_n"], w["got_n"] = len(want), len(got)
		if len(want) > 0 {
			w["want_first"], w["want_last"] = want[0].Seq, want[len(want)-1].Seq
		}
		if len(got) > 0 {
			w["got_first"], w["got_last"] = got[0].Seq, got[len(got)-1].Seq
		}
		d.violate(q.Name+":scan-"+dir+":count-mismatch", w)
		return false
	}
	for i := range want {
		if f := c07Diff(want[i], &got[i], q.HasHash, q.HasCompatFields); f != "" {
			w["index"], w["want"], w["got"] = i, c07Brief(want[i]), c07Brief(&got[i])
			d.violate(q.Name+":scan-"+dir+":row-mismatch:"+f, w)
			return false
		}
	}
	d.r.Count("rows.compared", len(want))
	return true
}

// audit is the full comparison of one channel against the model.
func (d *c07Driver) audit(ch *c07Chan) {
	if d.dead {
		return
	}
	if err := d.node.selfCheck(ch); err != nil {
		d.r.Inconclusive("harness-model-invariant: " + err.Error())
		d.dead = true
		return
	}
	d.r.Count("audits", 1)
	d.r.Max("max_rows_in_channel", len(ch.Rows))
	for _, s := range d.surfs {
		d.auditOn(s, ch)
		if d.dead {
			return
		}
	}
}

func (d *c07Driver) auditOn(s c07Surface, ch *c07Chan) {
	q := s.Quirks()
	name := q.Name
	base := map[string]any{"chan": ch.Key, "model_leo": ch.LEO, "ret": ch.Ret, "rows": len(ch.Rows)}
	wit := func(extra map[string]any) map[string]any {
		w := map[string]any{}
		for k, v := range base {
			w[k] = v
		}
		for k, v := range extra {
			w[k] = v
		}
		return w
	}
	// log end
	leo, err := s.LEO(ch)
	d.r.Eval(1)
	if err != nil {
		d.violate(name+":leo:error", wit(map[string]any{"err": err.Error()}))
		return
	}
	if leo != ch.LEO {
		d.violate(name+":leo-mismatch", wit(map[string]any{"got_leo": leo}))
		return
	}
	// full forward and reverse scans
	if !d.compareScan(s, ch, 0, 0, 0, false) || !d.compareScan(s, ch, 0, 0, 0, true) {
		return
	}
	// retention / checkpoint state
	if ret, err := s.Retention(ch); err != nil {
		d.violate(name+":retention:error", wit(map[string]any{"err": err.Error()}))
		return
	} else {
		d.r.Eval(1)
		if q.ExactRetention {
			if ret != ch.Ret {
				d.violate(name+":retention-mismatch", wit(map[string]any{"got": ret}))
				return
			}
		} else if ret.Local != ch.Ret.Local {
			d.violate(name+":retention-mismatch", wit(map[string]any{"got": ret}))
			return
		}
	}
	if q.HasCkpt && ch.Ckpt.Present {
		ck, err := s.Checkpoint(ch)
		d.r.Eval(1)
		if err != nil || ck != ch.Ckpt {
			d.violate(name+":checkpoint-mismatch", wit(map[string]any{"got": ck, "want": ch.Ckpt, "err": fmt.Sprint(err)}))
			return
		}
	}
	// point lookups for every model key (sampled on very large channels)
	stride := 1
	if len(ch.Rows) > d.p.AuditCap {
		stride = len(ch.Rows)/d.p.AuditCap + 1
	}
	uids := map[string]bool{}
	nos := map[string]bool{}
	idx := 0
	off := d.rng.IntN(stride)
	for seq := ch.lowSeq(); seq <= ch.LEO; seq++ {
		row := ch.Rows[seq]
		if row == nil {
			continue
		}
		idx++
		if (idx+off)%stride != 0 {
			continue
		}
		got, ok, err := s.GetBySeq(ch, seq)
		d.r.Eval(1)
		if err != nil || !ok {
			d.violate(name+":get-by-seq:missing", wit(map[string]any{"seq": seq, "ok": ok, "err": fmt.Sprint(err)}))
			return
		}
		if f := c07Diff(row, &got, q.HasHash, q.HasCompatFields); f != "" {
			d.violate(name+":get-by-seq:row-mismatch:"+f, wit(map[string]any{"want": c07Brief(row), "got": c07Brief(&got)}))
			return
		}
		if q.HasGetByID {
			loc := d.node.IDs[row.ID]
			got, ok, err := s.GetByID(ch, row.ID)
			d.r.Eval(1)
			if loc.Key == ch.Key && loc.Seq == seq {
				if err != nil || !ok {
					d.violate(name+":get-by-id:missing", wit(map[string]any{"id": row.ID, "seq": seq, "ok": ok, "err": fmt.Sprint(err)}))
					return
				}
				if f := c07Diff(row, &got, q.HasHash, q.HasCompatFields); f != "" {
					d.violate(name+":get-by-id:row-mismatch:"+f, wit(map[string]any{"want": c07Brief(row), "got": c07Brief(&got)}))
					return
				}
			} else if err == nil && ok && got.Seq == seq {
				// index points elsewhere in the model (trusted overwrite); not asserted
				_ = got
			}
		}
		if p, ok := row.pair(); ok && q.HasLookupPair {
			hit, found, err := s.LookupPair(ch, p)
			d.r.Eval(1)
			wantSeq := ch.Pairs[p]
			wantRow := ch.Rows[wantSeq]
			if err != nil || !found {
				d.violate(name+":lookup-idempotency:missing", wit(map[string]any{"pair": p, "seq": seq, "found": found, "err": fmt.Sprint(err)}))
				return
			}
			if hit.Seq != wantSeq || hit.ID != wantRow.ID || (q.HasHitHash && hit.Hash != wantRow.PayloadHash) {
				d.violate(name+":lookup-idempotency:wrong-row", wit(map[string]any{"pair": p, "got": hit, "want": c07Brief(wantRow)}))
				return
			}
		}
		if row.FromUID != "" {
			uids[row.FromUID] = true
		}
		if row.ClientMsgNo != "" {
			nos[row.ClientMsgNo] = true
		}
	}
	if q.HasLastSender {
		for uid := range uids {
			for _, through := range []uint64{ch.LEO, 1 + d.rng.Uint64N(ch.LEO+1), ^uint64(0)} {
				if !d.checkLastSender(s, ch, uid, through) {
					return
				}
			}
		}
	}
	if q.HasListByNo {
		for no := range nos {
			before := uint64(0)
			if d.rng.IntN(2) == 0 {
				before = d.rng.Uint64N(ch.LEO + 2)
			}
			if !d.checkListByNo(s, ch, no, before, 1+d.rng.IntN(5)) || !d.checkListByNo(s, ch, no, 0, 1000) {
				return
			}
		}
	}
	// keys the model says are absent
	absentSeqs := []uint64{ch.LEO + 1, ch.LEO + 2}
	if ch.Ret.Physical > 0 {
		absentSeqs = append(absentSeqs, ch.Ret.Physical, 1)
	}
	absentSeqs = append(absentSeqs, ch.GoneSeqs...)
	for _, seq := range absentSeqs {
		if seq == 0 || ch.Rows[seq] != nil {
			continue
		}
		got, ok, err := s.GetBySeq(ch, seq)
		d.r.Eval(1)
		if err != nil || ok {
			d.violate(name+":get-by-seq:removed-row-returned", wit(map[string]any{"seq": seq, "ok": ok, "err": fmt.Sprint(err), "got": c07Brief(&got)}))
			return
		}
	}
	if q.HasGetByID {
		ids := append([]uint64(nil), ch.GoneIDs...)
		// ids held by other channels must not be visible through this lease
		for _, other := range d.chans {
			if other != ch {
				if row := d.randStoredRow(other); row != nil {
					ids = append(ids, row.ID)
				}
			}
		}
		ids = append(ids, d.fresh+1000)
		for _, id := range ids {
			if id == 0 {
				continue
			}
			loc, stored := d.node.IDs[id]
			got, ok, err := s.GetByID(ch, id)
			d.r.Eval(1)
			if stored && loc.Key == ch.Key {
				want := ch.Rows[loc.Seq]
				if err != nil || !ok || c07Diff(want, &got, q.HasHash, q.HasCompatFields) != "" {
					d.violate(name+":get-by-id:restored-row-wrong", wit(map[string]any{"id": id, "ok": ok, "err": fmt.Sprint(err), "want": c07Brief(want), "got": c07Brief(&got)}))
					return
				}
				continue
			}
			if err != nil || ok {
				d.violate(name+":get-by-id:removed-or-foreign-row-returned", wit(map[string]any{"id": id, "ok": ok, "err": fmt.Sprint(err), "got": c07Brief(&got), "model_loc": loc, "model_stored": stored}))
				return
			}
		}
	}
	if q.HasLookupPair {
		pairs := append([]c07Pair(nil), ch.GonePairs...)
		pairs = append(pairs, d.poolPair(), c07Pair{"a", "bc"}, c07Pair{"ab", "c"}, c07Pair{"abc", "\x00"})
		for _, p := range pairs {
			if p.UID == "" || p.No == "" {
				continue
			}
			hit, found, err := s.LookupPair(ch, p)
			d.r.Eval(1)
			if wantSeq, ok := ch.Pairs[p]; ok {
				if err != nil || !found || hit.Seq != wantSeq || hit.ID != ch.Rows[wantSeq].ID {
					d.violate(name+":lookup-idempotency:wrong-row", wit(map[string]any{"pair": p, "got": hit, "found": found, "err": fmt.Sprint(err), "want_seq": wantSeq}))
					return
				}
				continue
			}
			if err != nil || found {
				d.violate(name+":lookup-idempotency:removed-row-returned", wit(map[string]any{"pair": p, "got": hit, "found": found, "err": fmt.Sprint(err)}))
				return
			}
		}
	}
	if q.HasLastSender {
		for _, p := range ch.GonePairs {
			if !uids[p.UID] && p.UID != "" {
				if !d.checkLastSender(s, ch, p.UID, ^uint64(0)) {
					return
				}
			}
		}
	}
	if q.HasListByNo {
		for _, p := range ch.GonePairs {
			if !nos[p.No] && p.No != "" {
				if !d.checkListByNo(s, ch, p.No, 0, 10) {
					return
				}
			}
		}
	}
	if kind, w := s.ExtraAudit(ch); kind != "" {
		d.violate(name+":"+kind, wit(map[string]any{"detail": w}))
	}
}

func (d *c07Driver) checkLastSender(s c07Surface, ch *c07Chan, uid string, through uint64) bool {
	if through == 0 {
		through = 1
	}
	wantSeq, wantOK := ch.expectLastSender(uid, through)
	got, ok, err := s.LastSender(ch, uid, through)
	d.r.Eval(1)
	if err != nil || ok != wantOK || (ok && got != wantSeq) {
		d.violate(s.Quirks().Name+":last-sender-seq:mismatch", map[string]any{"chan": ch.Key, "uid": uid, "through": through, "want": wantSeq, "want_ok": wantOK, "got": got, "got_ok": ok, "err": fmt.Sprint(err), "model_leo": ch.LEO, "ret": ch.Ret})
		return false
	}
	return true
}

func (d *c07Driver) checkListByNo(s c07Surface, ch *c07Chan, no string, before uint64, limit int) bool {
	q := s.Quirks()
	want, wantNext, wantMore := ch.expectListByNo(no, before, limit)
	got, next, more, err := s.ListByNo(ch, no, before, limit)
	d.r.Eval(1)
	w := map[string]any{"chan": ch.Key, "no": no, "before": before, "limit": limit, "want_n": len(want), "got_n": len(got), "want_more": wantMore, "got_more": more, "want_next": wantNext, "got_next": next, "err": fmt.Sprint(err), "model_leo": ch.LEO}
	if err != nil || len(got) != len(want) || more != wantMore || next != wantNext {
		d.violate(q.Name+":list-by-client-msg-no:mismatch", w)
		return false
	}
	for i := range want {
		if f := c07Diff(want[i], &got[i], q.HasHash, q.HasCompatFields); f != "" {
			w["want"], w["got"] = c07Brief(want[i]), c07Brief(&got[i])
			d.violate(q.Name+":list-by-client-msg-no:row-mismatch:"+f, w)
			return false
		}
	}
	return true
}

// run executes the history.
func (d *c07Driver) run() {
	w := d.p.Weights
	if w == ([9]int{}) {
		w = [9]int{36, 10, 8, 9, 5, 4, 7, 4, 17}
	}
	total := 0
	for _, x := range w {
		total += x
	}
	for i := 0; i < d.p.Ops && !d.dead; i++ {
		ch := d.chans[d.rng.IntN(len(d.chans))]
		d.armN = -1
		if d.p.CancelOneIn > 0 && len(d.surfs) == 1 {
			if d.rng.IntN(d.p.CancelOneIn) == 0 || (d.armNextAfterBarrier && d.rng.IntN(2) == 0) {
				d.armN = d.pickCancelN(ch)
			}
			d.armNextAfterBarrier = false
			if d.armN >= 0 && d.rng.IntN(8) == 0 {
				d.armN = -1
				d.stepLookupsCancelled(ch)
				continue
			}
		}
		x := d.rng.IntN(total)
		k := 0
		for ; k < len(w)-1; k++ {
			if x < w[k] {
				break
			}
			x -= w[k]
		}
		switch k {
		case 0:
			d.stepAppend(ch)
		case 1:
			if d.q.HasApply {
				d.stepApply(ch)
			} else {
				d.stepAppend(ch)
			}
		case 2:
			d.stepTruncate(ch)
		case 3:
			d.stepTrim(ch)
		case 4:
			d.stepAdopt(ch)
		case 5:
			d.stepCkpt(ch)
		case 6:
			d.stepLease(ch)
		case 7:
			d.stepReopen()
		default:
			d.stepRead(ch)
		}
	}
}

// barrier forces the real store to drop / reload the channel's append state.
func (d *c07Driver) barrier(ch *c07Chan, kind string) {
	if d.dead {
		return
	}
	if kind == "reopen" {
		d.stepReopen()
		return
	}
	if ch.Leased {
		for _, s := range d.surfs {
			if err := s.Release(ch); err != nil {
				d.violate(s.Quirks().Name+":release:error", map[string]any{"err": err.Error()})
				return
			}
		}
		ch.Leased = false
	}
	d.kind("lease-close")
	if kind == "evict" && d.q.HasChurn {
		d.kind("churn")
		for _, s := range d.surfs {
			if err := s.Churn(8300); err != nil {
				d.violate(s.Quirks().Name+":churn:error", map[string]any{"err": err.Error()})
				return
			}
		}
	} else {
		kind = "reclaim"
	}
	d.tracef("barrier %s chan=%s", kind, ch.Key)
	ch.Barriers = append(ch.Barriers, kind)
	ch.sinceBarrier = 0
	d.ensureLease(ch)
}

// applyExact applies a clean trusted follower batch at the right base.
func (d *c07Driver) applyExact(ch *c07Chan, recs []c07Rec) {
	if !d.ensureLease(ch) {
		return
	}
	proj := d.project(ch, recs)
	for i := range proj {
		proj[i].trusted = true
	}
	want, why := d.node.expectAppend(ch, c07Trusted, ch.LEO+1, proj, d.q.ChecksDup)
	d.kind("apply")
	d.tracef("apply-exact chan=%s n=%d leo=%d want=%s(%s)", ch.Key, len(recs), ch.LEO, want, why)
	for _, s := range d.surfs {
		last, err := s.Apply(ch, ch.LEO+1, recs, nil, false)
		if !d.checkClass(s, "apply", want, err, map[string]any{"chan": ch.Key, "n": len(recs), "model_leo": ch.LEO, "why": why}) {
			return
		}
		if want == "ok" && len(recs) > 0 && last != ch.LEO+uint64(len(recs)) {
			d.violate(s.Quirks().Name+":apply:range-mismatch", map[string]any{"got_last": last, "model_leo": ch.LEO, "n": len(recs)})
			return
		}
	}
	if want == "ok" {
		d.node.applyAppend(ch, proj)
		d.r.Count("rows.applied", len(recs))
	}
	d.auditMaybe(ch)
}

// truncateExact cuts the log to `to` (must be a legal target).
func (d *c07Driver) truncateExact(ch *c07Chan, to uint64) {
	if !d.ensureLease(ch) {
		return
	}
	d.kind("truncate")
	d.tracef("truncate-exact chan=%s to=%d leo=%d", ch.Key, to, ch.LEO)
	for _, s := range d.surfs {
		if !d.checkClass(s, "truncate", "ok", s.Truncate(ch, to), map[string]any{"chan": ch.Key, "to": to, "model_leo": ch.LEO}) {
			return
		}
	}
	n := d.node.truncateTo(ch, to)
	d.r.Count("rows.truncated", n)
	if ch.Ret.Present && ch.Ret.RetainedMax > to && !d.q.TruncKeepsRetainedMax {
		ch.Ret.RetainedMax = to
	}
	d.audit(ch)
}

// pickCancelN chooses after how many context polls the fault fires: mostly
// very early, sometimes somewhere inside a scan over the channel's rows.
func (d *c07Driver) pickCancelN(ch *c07Chan) int64 {
	switch x := d.rng.IntN(10); {
	case x < 4:
		return int64(d.rng.IntN(5))
	case x < 7:
		return int64(d.rng.IntN(40))
	default:
		return int64(d.rng.IntN(2*len(ch.Rows) + 20))
	}
}

// fingerprint is the abstract op-kind sequence with run lengths removed.
func (d *c07Driver) fingerprint() string {
	var sb strings.Builder
	last := ""
	for _, k := range d.kinds {
		if k == "read" || k == last {
			continue
		}
		last = k
		sb.WriteString(k[:2])
		sb.WriteString(k[len(k)-1:])
		sb.WriteByte('.')
	}
	return sb.String()
}

func (d *c07Driver) nontrivial() bool {
	for _, ch := range d.chans {
		if ch.reopenAfterAppend {
			return true
		}
	}
	return false
}
