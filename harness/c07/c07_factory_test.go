//go:build verif

package c07rt

import (
	"bytes"
	"context"
	"errors"
	"fmt"
	"sync"

	chn "github.com/WuKongIM/WuKongIM/pkg/channel"
	chstore "github.com/WuKongIM/WuKongIM/pkg/channel/store"
	compat "github.com/WuKongIM/WuKongIM/pkg/db/message/channelcompat"
)

// c07Factory drives the channel runtime's narrow store contract
// (pkg/channel/store.Factory / ChannelStore), either the MessageDB-backed
// factory or the in-memory double.
type c07Factory struct {
	dir    string
	memory bool
	dbf    *chstore.MessageDBFactory
	memf   *chstore.MemoryFactory
	fac    chstore.Factory

	mu     sync.Mutex
	stores map[string]chstore.ChannelStore
	ctxs   map[string]context.Context
	churn  int
	// lastNotWritten: the last AppendLeader failed with the closed outcome
	// DefinitelyNotWritten (the log must then be unchanged).
	lastNotWritten map[string]bool
}

// SetCtx makes every following call on ch use ctx (nil = live background context).
func (f *c07Factory) SetCtx(ch *c07Chan, ctx context.Context) {
	f.mu.Lock()
	defer f.mu.Unlock()
	if f.ctxs == nil {
		f.ctxs = map[string]context.Context{}
	}
	if ctx == nil {
		delete(f.ctxs, ch.Key)
	} else {
		f.ctxs[ch.Key] = ctx
	}
}

func (f *c07Factory) cx(ch *c07Chan) context.Context {
	f.mu.Lock()
	defer f.mu.Unlock()
	if ctx := f.ctxs[ch.Key]; ctx != nil {
		return ctx
	}
	return c07Ctx
}

func c07NewFactory(dir string, memory bool) *c07Factory {
	f := &c07Factory{dir: dir, memory: memory, stores: map[string]chstore.ChannelStore{}}
	if memory {
		f.memf = chstore.NewMemoryFactory()
		f.fac = f.memf
	}
	return f
}

func (f *c07Factory) Quirks() c07Quirks {
	q := c07Quirks{
		Name: "factorydb", ChecksDup: true, TrimNeedsAdopt: true,
		HasServerAlloc: true, HasApply: true, HasLookupPair: true, HasLastSender: true, HasGetByID: true,
		HasHitHash: true, HasCompatFields: true, ExactRetention: true, EmptyPayloadOK: true,
		HasAdopt: true, AdoptAboveLEOOK: true, AppendDefaultsTS: true, HasChurn: true,
	}
	if f.memory {
		q.Name = "factorymem"
		q.ChecksDup = false
		q.HasLookupPair = false
		q.HasHitHash = false
		q.ExactRetention = false
		// The in-memory double indexes rows by position and cannot represent
		// the sparse log that exists between adopting a boundary beyond the
		// log end and trimming the old prefix; not driven there.
		q.AdoptAboveLEOOK = false
		q.AppendDefaultsTS = false
		q.ApplyBelowLEOLenient = true
	}
	return q
}

func (f *c07Factory) Project(ch *c07Chan, in c07Rec) c07Rec {
	return c07Rec{ID: in.ID, ChannelID: ch.ID, ChannelType: ch.Type, FromUID: in.FromUID, ClientMsgNo: in.ClientMsgNo,
		Payload: in.Payload, PayloadHash: c07Hash(in.Payload), TS: in.TS, Setting: in.Setting, Flags: in.Flags & 4}
}

func (f *c07Factory) Canon(class string) string {
	if f.memory {
		if class == "ok" {
			return "ok"
		}
		return "err"
	}
	switch class {
	case "id0":
		return "corruptvalue"
	case "conflict", "corrupt":
		return "logconflict"
	}
	return class
}

func (f *c07Factory) ClassOf(err error) string {
	switch {
	case err == nil:
		return "ok"
	case errors.Is(err, context.Canceled):
		return "cancelled"
	case f.memory:
		return "err"
	case errors.Is(err, chn.ErrLogConflict):
		return "logconflict"
	case errors.Is(err, compat.ErrInvalidArgument):
		return "invalid"
	case errors.Is(err, compat.ErrCorruptValue):
		return "corruptvalue"
	case errors.Is(err, chn.ErrClosed):
		return "closed"
	}
	return "other"
}

func (f *c07Factory) OpenDB() error {
	if f.memory {
		return nil
	}
	f.dbf = chstore.NewMessageDBFactory(f.dir)
	f.fac = f.dbf
	// a failed open yields a factory whose every call reports invalid config
	if _, _, _, err := f.dbf.ListChannelsPage(c07Ctx, "", 1); err != nil {
		return err
	}
	return nil
}

func (f *c07Factory) CloseDB() error {
	f.mu.Lock()
	f.stores = map[string]chstore.ChannelStore{}
	f.mu.Unlock()
	if f.memory || f.dbf == nil {
		return nil
	}
	err := f.dbf.Close()
	f.dbf = nil
	return err
}

func (f *c07Factory) Acquire(ch *c07Chan) error {
	st, err := f.fac.ChannelStore(chn.ChannelKey(ch.Key), chn.ChannelID{ID: ch.ID, Type: ch.Type})
	if err != nil {
		return err
	}
	f.mu.Lock()
	f.stores[ch.Key] = st
	f.mu.Unlock()
	return nil
}

func (f *c07Factory) st(ch *c07Chan) chstore.ChannelStore {
	f.mu.Lock()
	defer f.mu.Unlock()
	return f.stores[ch.Key]
}

func (f *c07Factory) Release(ch *c07Chan) error {
	f.mu.Lock()
	st := f.stores[ch.Key]
	delete(f.stores, ch.Key)
	f.mu.Unlock()
	if st == nil {
		return nil
	}
	return st.Close()
}

func (f *c07Factory) Churn(n int) error {
	if f.memory {
		return nil
	}
	for i := 0; i < n; i++ {
		f.churn++
		st, err := f.fac.ChannelStore(chn.ChannelKey(fmt.Sprintf("zz-churn-%d", f.churn)), chn.ChannelID{ID: "churn", Type: 9})
		if err != nil {
			return err
		}
		if err := st.Close(); err != nil {
			return err
		}
	}
	return nil
}

func (f *c07Factory) records(recs []c07Rec, firstIndex uint64) []chn.Record {
	out := make([]chn.Record, len(recs))
	for i, r := range recs {
		out[i] = chn.Record{ID: r.ID, Setting: r.Setting, FromUID: r.FromUID, ClientMsgNo: r.ClientMsgNo, ServerTimestampMS: r.TS,
			SyncOnce: r.Flags&4 != 0, Payload: append([]byte(nil), r.Payload...), SizeBytes: len(r.Payload)}
		if firstIndex != 0 {
			out[i].Index = firstIndex + uint64(i)
		}
	}
	return out
}

func (f *c07Factory) Append(ch *c07Chan, mode c07Mode, baseSeq uint64, recs []c07Rec) (uint64, uint64, error) {
	res, err := f.st(ch).AppendLeader(f.cx(ch), chstore.AppendLeaderRequest{Records: f.records(recs, 0), ServerAllocatedMessageIDs: mode == c07ServerAlloc})
	f.setNotWritten(ch, false)
	if err != nil {
		if res.Outcome.Durable() {
			return 0, 0, fmt.Errorf("error %v with durable outcome", err)
		}
		f.setNotWritten(ch, res.Outcome == chstore.AppendOutcomeDefinitelyNotWritten)
		return 0, 0, err
	}
	if !res.Outcome.Durable() {
		return 0, 0, fmt.Errorf("nil error with outcome %v", res.Outcome)
	}
	if len(recs) == 0 {
		return 0, 0, nil
	}
	return res.BaseOffset, res.LastOffset, nil
}

func (f *c07Factory) setNotWritten(ch *c07Chan, v bool) {
	f.mu.Lock()
	defer f.mu.Unlock()
	if f.lastNotWritten == nil {
		f.lastNotWritten = map[string]bool{}
	}
	f.lastNotWritten[ch.Key] = v
}

// NotWritten reports whether the last AppendLeader on ch failed with the
// closed outcome DefinitelyNotWritten.
func (f *c07Factory) NotWritten(ch *c07Chan) bool {
	f.mu.Lock()
	defer f.mu.Unlock()
	return f.lastNotWritten[ch.Key]
}

// Fence waits, without wall clock, until any commit admitted by an earlier
// (cancelled, outcome-unknown) append has reached its terminal state: the
// commit owner holds the channel's canonical append lock until then, and an
// empty leader append takes that lock.
func (f *c07Factory) Fence(ch *c07Chan) error {
	_, err := f.st(ch).AppendLeader(c07Ctx, chstore.AppendLeaderRequest{})
	return err
}

func (f *c07Factory) Apply(ch *c07Chan, baseSeq uint64, recs []c07Rec, ck *c07Ckpt, strict bool) (uint64, error) {
	res, err := f.st(ch).ApplyFollower(f.cx(ch), chstore.ApplyFollowerRequest{Records: f.records(recs, baseSeq)})
	return res.LEO, err
}

func (f *c07Factory) Truncate(ch *c07Chan, to uint64) error { return errors.New("unsupported") }

func (f *c07Factory) Adopt(ch *c07Chan, through uint64) error {
	_, err := f.st(ch).AdoptRetentionBoundary(f.cx(ch), through, "c07")
	return err
}

func (f *c07Factory) Trim(ch *c07Chan, through uint64, maxMsgs, maxBytes int) (c07TrimRes, error) {
	res, err := f.st(ch).TrimMessagesThrough(f.cx(ch), through, chstore.RetentionTrimOptions{MaxMessages: maxMsgs, MaxBytes: maxBytes})
	return c07TrimRes{res.DeletedThroughSeq, res.Deleted, res.More}, err
}

func (f *c07Factory) StoreCkpt(ch *c07Chan, ck c07Ckpt, mono bool, visibleHW, leo uint64) error {
	return errors.New("unsupported")
}

func (f *c07Factory) LEO(ch *c07Chan) (uint64, error) {
	st, err := f.st(ch).Load(f.cx(ch))
	return st.LEO, err
}

func c07FromChannelMsg(m chn.Message) c07Rec {
	r := c07Rec{Seq: m.MessageSeq, ID: m.MessageID, ChannelID: m.ChannelID, ChannelType: m.ChannelType, FromUID: m.FromUID,
		ClientMsgNo: m.ClientMsgNo, Payload: m.Payload, TS: m.ServerTimestampMS, Setting: m.Setting}
	if m.SyncOnce {
		r.Flags = 4
	}
	return r
}

func (f *c07Factory) Scan(ch *c07Chan, from uint64, limit, maxBytes int, reverse bool) ([]c07Rec, error) {
	res, err := f.st(ch).ReadCommitted(f.cx(ch), chstore.ReadCommittedRequest{FromSeq: from, Limit: limit, MaxBytes: maxBytes, Reverse: reverse})
	out := make([]c07Rec, len(res.Messages))
	for i, m := range res.Messages {
		out[i] = c07FromChannelMsg(m)
	}
	return out, err
}

func (f *c07Factory) GetBySeq(ch *c07Chan, seq uint64) (c07Rec, bool, error) {
	res, err := f.st(ch).ReadCommitted(f.cx(ch), chstore.ReadCommittedRequest{FromSeq: seq, MaxSeq: seq, Limit: 1, MaxBytes: 1 << 30})
	if err != nil || len(res.Messages) == 0 {
		return c07Rec{}, false, err
	}
	return c07FromChannelMsg(res.Messages[0]), true, nil
}

func (f *c07Factory) GetByID(ch *c07Chan, id uint64) (c07Rec, bool, error) {
	l, ok := f.st(ch).(chstore.MessageLookup)
	if !ok {
		return c07Rec{}, false, errors.New("no MessageLookup")
	}
	m, found, err := l.LookupMessageByID(f.cx(ch), id)
	return c07FromChannelMsg(m), found, err
}

func (f *c07Factory) ListByNo(ch *c07Chan, no string, before uint64, limit int) ([]c07Rec, uint64, bool, error) {
	return nil, 0, false, errors.New("unsupported")
}

func (f *c07Factory) LookupPair(ch *c07Chan, p c07Pair) (c07Hit, bool, error) {
	l, ok := f.st(ch).(chstore.IdempotencyLookup)
	if !ok {
		return c07Hit{}, false, errors.New("no IdempotencyLookup")
	}
	hit, found, err := l.LookupIdempotency(f.cx(ch), p.UID, p.No)
	return c07Hit{hit.Message.MessageSeq, hit.Message.MessageID, hit.PayloadHash}, found, err
}

func (f *c07Factory) LastSender(ch *c07Chan, uid string, through uint64) (uint64, bool, error) {
	l, ok := f.st(ch).(chstore.SenderSequenceLookup)
	if !ok {
		return 0, false, errors.New("no SenderSequenceLookup")
	}
	return l.GetLastSenderMessageSeq(f.cx(ch), uid, through)
}

func (f *c07Factory) Retention(ch *c07Chan) (c07Ret, error) {
	st, err := f.st(ch).LoadRetentionState(f.cx(ch))
	ret := c07Ret{false, st.LocalRetentionThroughSeq, st.PhysicalRetentionThroughSeq, st.RetainedMaxSeq}
	ret.Present = ret != c07Ret{}
	return ret, err
}

func (f *c07Factory) Checkpoint(ch *c07Chan) (c07Ckpt, error) { return c07Ckpt{}, nil }

// ExtraAudit compares the raw replication read with the model.
func (f *c07Factory) ExtraAudit(ch *c07Chan) (string, any) {
	want := ch.expectScan(0, 0, 0, false)
	res, err := f.st(ch).ReadLog(f.cx(ch), chstore.ReadLogRequest{FromOffset: 1, MaxBytes: 1 << 30})
	if err != nil {
		return "read-log:error", err.Error()
	}
	if len(res.Records) != len(want) {
		return "read-log:count-mismatch", map[string]any{"want": len(want), "got": len(res.Records)}
	}
	for i, w := range want {
		g := res.Records[i]
		if g.Index != w.Seq || g.ID != w.ID || g.FromUID != w.FromUID || g.ClientMsgNo != w.ClientMsgNo || g.Setting != w.Setting ||
			g.ServerTimestampMS != w.TS || g.SyncOnce != w.syncOnce() || !bytes.Equal(g.Payload, w.Payload) {
			return "read-log:record-mismatch", map[string]any{"want": c07Brief(w), "got_index": g.Index, "got_id": g.ID, "got_uid": g.FromUID, "got_no": g.ClientMsgNo, "got_ts": g.ServerTimestampMS}
		}
	}
	if len(want) > 1 {
		mid := want[len(want)/2].Seq
		res, err := f.st(ch).ReadLog(f.cx(ch), chstore.ReadLogRequest{FromOffset: mid, MaxOffset: mid + 1, MaxBytes: 1 << 30})
		if err != nil {
			return "read-log:error", err.Error()
		}
		n := 0
		for _, w := range want {
			if w.Seq >= mid && w.Seq <= mid+1 {
				if n >= len(res.Records) || res.Records[n].Index != w.Seq {
					return "read-log:bounded-mismatch", map[string]any{"from": mid, "want_seq": w.Seq}
				}
				n++
			}
		}
		if n != len(res.Records) {
			return "read-log:bounded-mismatch", map[string]any{"from": mid, "want": n, "got": len(res.Records)}
		}
	}
	return "", nil
}
