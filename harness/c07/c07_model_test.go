//go:build verif

// Package c07rt holds the runtime monitors for C07 (message store is a faithful
// sequential log) and C08 (sender/client-message-number uniqueness). The model
// in this file is a small sequential reference written from the property
// statements only: per channel {rows, leo, retention, checkpoint} plus one
// node-global message-id index. It never looks at the real store's bytes.
package c07rt

import (
	"bytes"
	"fmt"
	"sort"
)

// c07Mode is the abstract append mode.
type c07Mode int

const (
	c07Strict c07Mode = iota
	c07ServerAlloc
	c07Trusted
)

func (m c07Mode) String() string {
	switch m {
	case c07Strict:
		return "strict"
	case c07ServerAlloc:
		return "srvalloc"
	default:
		return "trusted"
	}
}

// c07Rec is one input record and, once Seq is assigned, one stored row. The
// second block of fields exists only on the compatibility surface.
type c07Rec struct {
	Seq         uint64
	ID          uint64
	ChannelID   string
	ChannelType uint8
	FromUID     string
	ClientMsgNo string
	Payload     []byte
	PayloadHash uint64
	TS          int64

	Flags      uint8
	Setting    uint8
	StreamFlag uint8
	MsgKey     string
	StreamNo   string
	Topic      string
	Expire     uint32
	ClientSeq  uint64
	StreamID   uint64
	Timestamp  int32

	SizeBytes int    // input only, never compared
	epoch     int    // model bookkeeping: number of lease/DB barriers seen by the channel when stored
	trusted   bool   // model bookkeeping: stored through a trusted-contiguous path
	Enc       []byte // compat surface: canonical encoded payload, compared byte for byte
}

func (r *c07Rec) syncOnce() bool { return r.Flags&4 != 0 }

type c07Pair struct{ UID, No string }

func (r *c07Rec) pair() (c07Pair, bool) {
	if r.FromUID == "" || r.ClientMsgNo == "" {
		return c07Pair{}, false
	}
	return c07Pair{r.FromUID, r.ClientMsgNo}, true
}

type c07Loc struct {
	Key string
	Seq uint64
}

type c07Ret struct {
	Present                      bool
	Local, Physical, RetainedMax uint64
}

type c07Ckpt struct {
	Present             bool
	Epoch, LogStart, HW uint64
}

const c07FNVOffset = 14695981039346656037
const c07FNVPrime = 1099511628211

func c07Hash(p []byte) uint64 {
	h := uint64(c07FNVOffset)
	for _, b := range p {
		h ^= uint64(b)
		h *= c07FNVPrime
	}
	return h
}

// c07Chan is the reference state of one channel log.
type c07Chan struct {
	Key  string
	ID   string
	Type uint8

	Rows  map[uint64]*c07Rec
	LEO   uint64
	Ret   c07Ret
	Ckpt  c07Ckpt
	Pairs map[c07Pair]uint64

	// recently removed keys, looked up as "must be absent (or re-stored)".
	GoneIDs   []uint64
	GonePairs []c07Pair
	GoneSeqs  []uint64

	Leased bool
	// Barriers lists, in order, the events after which the real store must
	// rebuild or reload per-channel append state: "reclaim" (last lease closed
	// and re-acquired), "evict" (warm state evicted, then re-acquired), "reopen".
	Barriers []string
	// sinceBarrier counts validated append attempts since the last barrier.
	sinceBarrier int

	// history shape, for the non-triviality rule
	cut, appendAfterCut, reopenAfterAppend bool
	everStored                             int
}

func c07NewChan(key, id string, typ uint8) *c07Chan {
	return &c07Chan{Key: key, ID: id, Type: typ, Rows: map[uint64]*c07Rec{}, Pairs: map[c07Pair]uint64{}}
}

// c07Node is the reference state of one node (one engine).
type c07Node struct {
	Chans []*c07Chan
	IDs   map[uint64]c07Loc
}

func c07NewNode() *c07Node { return &c07Node{IDs: map[uint64]c07Loc{}} }

func c07Push[T any](s []T, v T) []T {
	s = append(s, v)
	if len(s) > 24 {
		s = s[len(s)-24:]
	}
	return s
}

func (n *c07Node) insertRow(ch *c07Chan, rec *c07Rec) {
	ch.Rows[rec.Seq] = rec
	n.IDs[rec.ID] = c07Loc{ch.Key, rec.Seq}
	if p, ok := rec.pair(); ok {
		ch.Pairs[p] = rec.Seq
	}
	ch.everStored++
}

func (n *c07Node) removeRow(ch *c07Chan, seq uint64) {
	rec := ch.Rows[seq]
	if rec == nil {
		return
	}
	delete(ch.Rows, seq)
	if loc, ok := n.IDs[rec.ID]; ok && loc.Key == ch.Key && loc.Seq == seq {
		delete(n.IDs, rec.ID)
	}
	if p, ok := rec.pair(); ok {
		if s, ok := ch.Pairs[p]; ok && s == seq {
			delete(ch.Pairs, p)
		}
		ch.GonePairs = c07Push(ch.GonePairs, p)
	}
	ch.GoneIDs = c07Push(ch.GoneIDs, rec.ID)
	ch.GoneSeqs = c07Push(ch.GoneSeqs, seq)
}

// lowSeq is the lowest sequence that can still be physically present.
func (ch *c07Chan) lowSeq() uint64 { return ch.Ret.Physical + 1 }

// expectAppend returns the outcome class a sequential log with uniqueness
// constraints gives to this batch: "ok", "conflict", "id0".
func (n *c07Node) expectAppend(ch *c07Chan, mode c07Mode, baseSeq uint64, recs []c07Rec, checksDup bool) (class string, why string) {
	class, why, _ = n.expectAppendHolder(ch, mode, baseSeq, recs, checksDup)
	return class, why
}

// expectAppendHolder additionally returns the stored row a rejected record collides with.
func (n *c07Node) expectAppendHolder(ch *c07Chan, mode c07Mode, baseSeq uint64, recs []c07Rec, checksDup bool) (class string, why string, holder *c07Rec) {
	if baseSeq != 0 && baseSeq != ch.LEO+1 {
		return "conflict", "base", nil
	}
	if len(recs) == 0 {
		return "ok", "", nil
	}
	seenID := map[uint64]bool{}
	seenPair := map[c07Pair]bool{}
	for i := range recs {
		rec := &recs[i]
		seq := ch.LEO + 1 + uint64(i)
		if rec.ID == 0 {
			return "id0", "id0", nil
		}
		if !checksDup {
			continue
		}
		if seenID[rec.ID] {
			return "conflict", "batch-id", nil
		}
		seenID[rec.ID] = true
		if mode == c07Strict {
			if loc, ok := n.IDs[rec.ID]; ok && (loc.Key != ch.Key || loc.Seq != seq) {
				return "conflict", "stored-id", n.rowAt(loc)
			}
		}
		if p, ok := rec.pair(); ok {
			if seenPair[p] {
				return "conflict", "batch-pair", nil
			}
			seenPair[p] = true
			if mode != c07Trusted {
				if s, ok := ch.Pairs[p]; ok && s != seq {
					return "conflict", "stored-pair", ch.Rows[s]
				}
			}
		}
	}
	return "ok", "", nil
}

func (n *c07Node) rowAt(loc c07Loc) *c07Rec {
	for _, c := range n.Chans {
		if c.Key == loc.Key {
			return c.Rows[loc.Seq]
		}
	}
	return nil
}

// applyAppend stores the batch at leo+1...
func (n *c07Node) applyAppend(ch *c07Chan, recs []c07Rec) (base, last uint64) {
	if len(recs) == 0 {
		return 0, 0
	}
	base = ch.LEO + 1
	for i := range recs {
		rec := recs[i]
		rec.Seq = base + uint64(i)
		rec.Payload = append([]byte(nil), rec.Payload...)
		rec.epoch = len(ch.Barriers)
		n.insertRow(ch, &rec)
	}
	ch.LEO = base + uint64(len(recs)) - 1
	if ch.cut {
		ch.appendAfterCut = true
	}
	return base, ch.LEO
}

// truncateTo removes every row above to and makes to the log end.
func (n *c07Node) truncateTo(ch *c07Chan, to uint64) (removed int) {
	if to >= ch.LEO {
		return 0
	}
	for seq := to + 1; seq <= ch.LEO; seq++ {
		if ch.Rows[seq] != nil {
			n.removeRow(ch, seq)
			removed++
		}
	}
	ch.LEO = to
	ch.cut = true
	return removed
}

// expectTrim returns the sequences a bounded prefix trim through `through`
// removes: rows in (physical, through] in ascending order, at most maxMsgs
// rows and (after the first row) at most maxBytes payload bytes.
func (ch *c07Chan) expectTrim(through uint64, maxMsgs, maxBytes int) (del []uint64, remain bool) {
	used := 0
	hi := through
	if hi > ch.LEO {
		hi = ch.LEO
	}
	for seq := ch.lowSeq(); seq <= hi; seq++ {
		row := ch.Rows[seq]
		if row == nil {
			continue
		}
		if maxMsgs > 0 && len(del) >= maxMsgs {
			return del, true
		}
		if maxBytes > 0 && len(del) > 0 && used+len(row.Payload) > maxBytes {
			return del, true
		}
		used += len(row.Payload)
		del = append(del, seq)
	}
	return del, false
}

// applyTrim performs the trim; adopt tells whether `through` becomes the
// adopted retention boundary (and LEO floor) as part of the same call.
func (n *c07Node) applyTrim(ch *c07Chan, through uint64, del []uint64, more bool, adopt bool) {
	for _, seq := range del {
		n.removeRow(ch, seq)
	}
	ch.Ret.Present = true
	if adopt && through > ch.Ret.Local {
		ch.Ret.Local = through
	}
	if adopt && through > ch.Ret.RetainedMax {
		ch.Ret.RetainedMax = through
	}
	if ch.LEO > ch.Ret.RetainedMax {
		ch.Ret.RetainedMax = ch.LEO
	}
	var deletedThrough uint64
	if len(del) > 0 {
		deletedThrough = del[len(del)-1]
	}
	if !more && through > ch.Ret.Physical {
		ch.Ret.Physical = through
	} else if deletedThrough > ch.Ret.Physical {
		ch.Ret.Physical = deletedThrough
	}
	if ch.Ret.RetainedMax > ch.LEO {
		ch.LEO = ch.Ret.RetainedMax
	}
	if len(del) > 0 {
		ch.cut = true
	}
}

// applyAdopt records a logical retention boundary (no physical deletion).
func (ch *c07Chan) applyAdopt(through uint64) {
	ch.Ret.Present = true
	if through > ch.Ret.Local {
		ch.Ret.Local = through
	}
	m := ch.LEO
	if through > m {
		m = through
	}
	if m > ch.Ret.RetainedMax {
		ch.Ret.RetainedMax = m
	}
	if ch.Ret.RetainedMax > ch.LEO {
		ch.LEO = ch.Ret.RetainedMax
	}
}

// expectScan is what a sequential log returns for a bounded scan.
func (ch *c07Chan) expectScan(from uint64, limit, maxBytes int, reverse bool) []*c07Rec {
	var out []*c07Rec
	used := 0
	add := func(row *c07Rec) bool {
		if maxBytes > 0 && len(out) > 0 && used+len(row.Payload) > maxBytes {
			return false
		}
		out = append(out, row)
		used += len(row.Payload)
		return !(limit > 0 && len(out) >= limit)
	}
	if !reverse {
		if from == 0 {
			from = 1
		}
		if from < ch.lowSeq() {
			from = ch.lowSeq()
		}
		for seq := from; seq <= ch.LEO; seq++ {
			if row := ch.Rows[seq]; row != nil {
				if !add(row) {
					break
				}
			}
		}
		return out
	}
	if from == 0 || from > ch.LEO {
		from = ch.LEO
	}
	for seq := from; seq >= ch.lowSeq() && seq > 0; seq-- {
		if row := ch.Rows[seq]; row != nil {
			if !add(row) {
				break
			}
		}
	}
	return out
}

// expectListByNo: rows carrying clientMsgNo, newest first, paged.
func (ch *c07Chan) expectListByNo(no string, before uint64, limit int) (rows []*c07Rec, next uint64, more bool) {
	var seqs []uint64
	for seq, row := range ch.Rows {
		if row.ClientMsgNo == no && (before == 0 || seq < before) {
			seqs = append(seqs, seq)
		}
	}
	sort.Slice(seqs, func(i, j int) bool { return seqs[i] > seqs[j] })
	for _, s := range seqs {
		rows = append(rows, ch.Rows[s])
	}
	if len(rows) > limit {
		rows = rows[:limit]
		more = true
		next = rows[len(rows)-1].Seq
	}
	return rows, next, more
}

// expectLastSender: newest non-sync-once row of uid at or below through.
func (ch *c07Chan) expectLastSender(uid string, through uint64) (uint64, bool) {
	hi := through
	if hi > ch.LEO {
		hi = ch.LEO
	}
	for seq := hi; seq >= ch.lowSeq() && seq > 0; seq-- {
		if row := ch.Rows[seq]; row != nil && row.FromUID == uid && !row.syncOnce() {
			return seq, true
		}
	}
	return 0, false
}

// selfCheck verifies the model's own invariants (a failure is a harness bug).
func (n *c07Node) selfCheck(ch *c07Chan) error {
	for seq := ch.Ret.Local + 1; seq <= ch.LEO; seq++ {
		if ch.Rows[seq] == nil {
			return fmt.Errorf("model gap at %d (local=%d leo=%d)", seq, ch.Ret.Local, ch.LEO)
		}
	}
	for seq, row := range ch.Rows {
		if seq > ch.LEO || seq < ch.lowSeq() || row.Seq != seq {
			return fmt.Errorf("model row %d outside [%d,%d]", seq, ch.lowSeq(), ch.LEO)
		}
	}
	return nil
}

// c07Diff names the first differing field of two rows ("" when identical).
func c07Diff(want, got *c07Rec, hasHash, hasCompat bool) string {
	switch {
	case want.Seq != got.Seq:
		return "seq"
	case want.ID != got.ID:
		return "id"
	case want.ChannelID != got.ChannelID:
		return "channel-id"
	case want.ChannelType != got.ChannelType:
		return "channel-type"
	case want.FromUID != got.FromUID:
		return "from-uid"
	case want.ClientMsgNo != got.ClientMsgNo:
		return "client-msg-no"
	case !bytes.Equal(want.Payload, got.Payload):
		return "payload"
	case want.TS != got.TS:
		return "server-timestamp"
	case hasHash && want.PayloadHash != got.PayloadHash:
		return "payload-hash"
	}
	if hasCompat {
		switch {
		case want.Flags != got.Flags:
			return "framer-flags"
		case want.Setting != got.Setting:
			return "setting"
		case want.StreamFlag != got.StreamFlag:
			return "stream-flag"
		case want.MsgKey != got.MsgKey:
			return "msg-key"
		case want.StreamNo != got.StreamNo:
			return "stream-no"
		case want.Topic != got.Topic:
			return "topic"
		case want.Expire != got.Expire:
			return "expire"
		case want.ClientSeq != got.ClientSeq:
			return "client-seq"
		case want.StreamID != got.StreamID:
			return "stream-id"
		case want.Timestamp != got.Timestamp:
			return "timestamp"
		}
	}
	return ""
}

func c07Brief(r *c07Rec) map[string]any {
	if r == nil {
		return nil
	}
	p := r.Payload
	if len(p) > 16 {
		p = p[:16]
	}
	return map[string]any{"seq": r.Seq, "id": r.ID, "uid": r.FromUID, "no": r.ClientMsgNo, "payload_len": len(r.Payload),
		"payload_head": fmt.Sprintf("%x", p), "hash": r.PayloadHash, "ts": r.TS, "chan": r.ChannelID, "type": r.ChannelType, "flags": r.Flags}
}

// c07Channels builds 2..6 channels whose keys are prefixes of one another or
// contain separator / NUL bytes (hostile to prefix-span key layouts).
func c07Channels(n int) []*c07Chan {
	keys := []struct {
		key, id string
		typ     uint8
	}{{"1:a", "a", 1}, {"1:ab", "ab", 1}, {"1:a\x00", "a\x00", 1}, {"2:a", "a", 2}, {"1:", "", 1}, {"用户:1", "用户", 255}}
	out := make([]*c07Chan, 0, n)
	for i := 0; i < n; i++ {
		out = append(out, c07NewChan(keys[i].key, keys[i].id, keys[i].typ))
	}
	return out
}
