//go:build verif

package c07rt

import (
	"fmt"
	"math/rand/v2"

	"github.com/WuKongIM/WuKongIM/pkg/verifkit"
)

// Two input shapes of the typed ChannelLog API - an empty payload and a suffix
// truncation below the persisted LEO floor - once broke the property (both
// fixed in /repo since). They are exercised here in isolation with their own
// stable signatures, in addition to the random body.

// c07ProbeTypedEmptyPayload appends a batch containing an empty payload
// through the typed API and then reads the channel back.
func c07ProbeTypedEmptyPayload(r *verifkit.Run, rng *rand.Rand, dir string, viaApply bool) {
	s := c07NewTyped(dir)
	if err := s.OpenDB(); err != nil {
		r.Inconclusive("probe open: " + err.Error())
		return
	}
	defer s.CloseDB()
	node := c07NewNode()
	ch := c07NewChan("1:probe-empty", "probe-empty", 1)
	node.Chans = []*c07Chan{ch}
	if err := s.Acquire(ch); err != nil {
		r.Inconclusive("probe acquire: " + err.Error())
		return
	}
	n := 1 + rng.IntN(4)
	emptyAt := rng.IntN(n)
	recs := make([]c07Rec, n)
	for i := range recs {
		recs[i] = c07Rec{ID: uint64(1000 + i), FromUID: "u", ClientMsgNo: fmt.Sprintf("e%d", i), Payload: []byte{byte(i + 1)}, TS: 1_700_000_000_000}
	}
	recs[emptyAt].Payload = nil
	var err error
	if viaApply {
		_, err = s.Apply(ch, 1, recs, nil, false)
	} else {
		_, _, err = s.Append(ch, c07Strict, 0, recs)
	}
	r.Eval(1)
	hist := map[string]any{"via_apply": viaApply, "batch": n, "empty_payload_at_seq": emptyAt + 1}
	if err != nil {
		// Rejecting the record would also be a faithful behaviour (nothing stored).
		r.Count("probe.empty_payload.rejected", 1)
		return
	}
	proj := make([]c07Rec, n)
	for i := range recs {
		proj[i] = s.Project(ch, recs[i])
	}
	node.applyAppend(ch, proj)
	r.Count("probe.empty_payload.accepted", 1)
	got, err := s.Scan(ch, 0, 0, 0, false)
	r.Eval(1)
	if err != nil || len(got) != n {
		hist["read_err"], hist["read_rows"] = fmt.Sprint(err), len(got)
		_, _, gerr := s.GetBySeq(ch, uint64(emptyAt+1))
		hist["get_by_seq_err"] = fmt.Sprint(gerr)
		hist["truncate_err"] = fmt.Sprint(s.Truncate(ch, 0))
		r.Violation("typed:probe:accepted-empty-payload-row-unreadable", hist)
		return
	}
	for i := range got {
		if f := c07Diff(ch.Rows[uint64(i+1)], &got[i], false, false); f != "" {
			hist["field"] = f
			r.Violation("typed:probe:empty-payload-row-mismatch", hist)
			return
		}
	}
}

// c07ProbeTypedTruncateAfterTrim: append, trim a prefix (which persists the
// LEO floor), truncate the suffix below that floor, reopen, compare the log end
// and the sequence given to the next append.
func c07ProbeTypedTruncateAfterTrim(r *verifkit.Run, rng *rand.Rand, dir string) {
	s := c07NewTyped(dir)
	if err := s.OpenDB(); err != nil {
		r.Inconclusive("probe open: " + err.Error())
		return
	}
	defer func() { s.CloseDB() }()
	node := c07NewNode()
	ch := c07NewChan("1:probe-trunc", "probe-trunc", 1)
	node.Chans = []*c07Chan{ch}
	if err := s.Acquire(ch); err != nil {
		r.Inconclusive("probe acquire: " + err.Error())
		return
	}
	n := 6 + rng.IntN(20)
	recs := make([]c07Rec, n)
	for i := range recs {
		recs[i] = c07Rec{ID: uint64(2000 + i), FromUID: "u", ClientMsgNo: fmt.Sprintf("t%d", i), Payload: []byte{1, byte(i)}, TS: 1_700_000_000_000}
	}
	if _, _, err := s.Append(ch, c07Strict, 0, recs); err != nil {
		r.Inconclusive("probe append: " + err.Error())
		return
	}
	trim := 1 + rng.Uint64N(uint64(n)/2)
	to := trim + rng.Uint64N(uint64(n)-trim) // trim <= to < n
	if _, err := s.Trim(ch, trim, 0, 0); err != nil {
		r.Inconclusive("probe trim: " + err.Error())
		return
	}
	if err := s.Truncate(ch, to); err != nil {
		r.Inconclusive("probe truncate: " + err.Error())
		return
	}
	hist := map[string]any{"appended": n, "trim_through": trim, "truncate_to": to}
	before, _ := s.LEO(ch)
	hist["leo_after_truncate"] = before
	r.Eval(1)
	if before != to {
		r.Violation("typed:probe:truncate-after-trim-leo-wrong-before-reopen", hist)
		return
	}
	s.Release(ch)
	if err := s.CloseDB(); err != nil {
		r.Inconclusive("probe close: " + err.Error())
		return
	}
	if err := s.OpenDB(); err != nil {
		r.Inconclusive("probe reopen: " + err.Error())
		return
	}
	if err := s.Acquire(ch); err != nil {
		r.Inconclusive("probe acquire: " + err.Error())
		return
	}
	after, err := s.LEO(ch)
	hist["leo_after_reopen"], hist["err"] = after, fmt.Sprint(err)
	r.Eval(1)
	r.Count("probe.truncate_after_trim.runs", 1)
	if after != to {
		base, _, aerr := s.Append(ch, c07Strict, 0, []c07Rec{{ID: 9999, Payload: []byte{9}, TS: 1}})
		hist["next_append_base"], hist["next_append_err"] = base, fmt.Sprint(aerr)
		r.Violation("typed:probe:truncate-after-trim-leo-resurrected-on-reopen", hist)
	}
}
