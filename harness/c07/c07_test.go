//go:build verif

package c07rt

import (
	"fmt"
	"os"
	"path/filepath"
	"testing"

	"github.com/WuKongIM/WuKongIM/pkg/verifkit"
)

func c07RunHistory(r *verifkit.Run, t *testing.T, i int, family string, surfs []c07Surface, p c07Params, nchan int) *c07Driver {
	rng := r.Rand(uint64(i), 7)
	node := c07NewNode()
	node.Chans = c07Channels(nchan)
	for _, s := range surfs {
		if err := s.OpenDB(); err != nil {
			r.Inconclusive(fmt.Sprintf("open %s: %v", s.Quirks().Name, err))
			return nil
		}
	}
	d := c07NewDriver(r, rng, node, node.Chans, surfs, p)
	r.Guard(family+":history", i, func() {
		d.run()
		if !d.dead {
			d.stepReopen()
		}
	})
	for _, s := range surfs {
		_ = s.CloseDB()
	}
	r.Max("max_history_ops", len(d.kinds))
	if d.nontrivial() && !d.dead {
		r.Nontrivial(family + "|" + d.fingerprint())
		r.Count("histories.nontrivial."+family, 1)
	}
	r.Count("histories."+family, 1)
	if r.WantSample() && d.nontrivial() {
		r.Sample(map[string]any{"family": family, "case": i, "ops": len(d.kinds), "fingerprint": d.fingerprint(), "trace_tail": d.trace})
	}
	return d
}

func TestVerifC07(t *testing.T) {
	r := verifkit.Start(t, "C07", "main")
	defer r.Finish()
	r.SetRule("Each case is one PRNG-generated history (appends in strict/server-allocated/trusted modes with right and wrong bases, follower applies with checkpoints, suffix truncations, bounded prefix trims, retention adoption, checkpoint stores, lease close/re-acquire, warm-cache eviction, whole-DB close+reopen, random bounded reads; about one op in 12, and half of the first ops after a lease/DB barrier, run under a countdown context that reports cancellation after the N-th poll - such an op must either report the context error and leave the log unchanged (or completely applied, decided by reading back) or return the model's answer) over 2-6 channels on one engine, run on the typed ChannelLog, the compat Engine/ChannelStore and the channel/store Factory surfaces; every result is compared to a sequential reference model and every mutation is followed by a full audit. Non-trivial = some channel saw a truncation or trim, then an accepted append, then a DB reopen (with full audit). Distinct by surface family + collapsed op-kind sequence.")
	r.Assume("tmpfs-backed t.TempDir(); fsync semantics are not part of this check (C09)")
	r.Assume("trusted-contiguous and server-allocated batches respect their documented caller contract (no stored duplicates / allocator-fresh ids)")
	r.Assume("typed ChannelLog surface: TruncateFrom is only driven at or above the adopted retention boundary (the typed API does not reject a cut below it; the compat surface does and is driven there). Empty payloads and truncation below the persisted RetainedMaxSeq are part of the random body and additionally of the probe cases (signatures typed:probe:accepted-empty-payload-row-unreadable, typed:probe:truncate-after-trim-leo-resurrected-on-reopen)")
	r.Assume("typed StoreRetentionState is a raw setter: only states a retention adopter would write (boundary at or below the log end, RetainedMaxSeq = max(old, LEO)) are stored")
	r.Assume("factory-twin family: the in-memory double is not driven with a retention boundary beyond its log end (it cannot represent the sparse log between adoption and trim) nor with duplicate ids/pairs (it performs no uniqueness checks) nor with follower applies indexed at or below its log end (documented duplicate-prefix skip)")
	n := r.N(120, 900)
	ops := r.N(70, 130)
	base := t.TempDir()
	for i := 0; i < n; i++ {
		if r.Skip(i) {
			continue
		}
		rng := r.Rand(uint64(i), 1)
		dir := filepath.Join(base, fmt.Sprintf("h%d", i))
		p := c07Params{Ops: ops, PairPool: 8 + rng.IntN(57), IDPool: 6 + rng.IntN(40), PCollide: 0.15, AllowDBOps: true, BigPayload: i%9 == 0, IDBase: 0, CancelOneIn: 12}
		var surfs []c07Surface
		var family string
		switch i % 8 {
		case 0, 1, 2:
			family, surfs = "typed", []c07Surface{c07NewTyped(dir)}
		case 3, 4, 5:
			family, surfs = "compat", []c07Surface{c07NewCompat(dir)}
		case 6:
			family, surfs = "factorydb", []c07Surface{c07NewFactory(dir, false)}
		default:
			// same history on the MessageDB factory and the in-memory double
			family, surfs = "factory-twin", []c07Surface{c07NewFactory(dir, false), c07NewFactory("", true)}
		}
		r.BeginCase(i, family)
		c07RunHistory(r, t, i, family, surfs, p, 2+rng.IntN(5))
		os.RemoveAll(dir)
	}
	// isolated probes for the two typed-API input shapes the random typed body avoids
	np := r.N(6, 40)
	for k := 0; k < np; k++ {
		i := n + k
		if r.Skip(i) {
			continue
		}
		rng := r.Rand(uint64(i), 2)
		dir := filepath.Join(base, fmt.Sprintf("p%d", i))
		switch k % 3 {
		case 0:
			r.BeginCase(i, "probe typed empty payload (Append)")
			c07ProbeTypedEmptyPayload(r, rng, dir, false)
		case 1:
			r.BeginCase(i, "probe typed empty payload (ApplyFetch)")
			c07ProbeTypedEmptyPayload(r, rng, dir, true)
		default:
			r.BeginCase(i, "probe typed truncate below LEO floor after trim, reopen")
			c07ProbeTypedTruncateAfterTrim(r, rng, dir)
		}
		os.RemoveAll(dir)
	}
}
