//go:build verif

package c07rt

import (
	"fmt"
	"os"
	"path/filepath"
	"testing"

	"github.com/WuKongIM/WuKongIM/pkg/verifkit"
)

// c07Channels builds 2..6 channels whose keys are prefixes of one another or
// contain separator / NUL bytes (hostile to prefix-span key layouts).
func c07Channels(n int) []*c07Chan {
	keys := []struct {
		key, id string
		typ     uint8
	}{{"1:a", "a", 1}, {"1:ab", "ab", 1}, {"1:a\x00", "a\x00", 1}, {"2:a", "a", 2}, {"1:", "", 1}, {"用户:1", "用户", 255}}
	out := make([]*c07Chan, 0, n)
	for i := 0; i < n; i++ {
		out = append(out, c07NewChan(keys[i].key, keys[i].id, keys[i].typ))
	}
	return out
}

func c07RunHistory(r *verifkit.Run, t *testing.T, i int, family string, surfs []c07Surface, p c07Params, nchan int) *c07Driver {
	rng := r.Rand(uint64(i), 7)
	node := c07NewNode()
	node.Chans = c07Channels(nchan)
	for _, s := range surfs {
		if err := s.OpenDB(); err != nil {
			r.Inconclusive(fmt.Sprintf("open %s: %v", s.Quirks().Name, err))
			return nil
		}
	}
	d := c07NewDriver(r, rng, node, node.Chans, surfs, p)
	r.Guard(family+":history", i, func() {
		d.run()
		if !d.dead {
			d.stepReopen()
		}
	})
	for _, s := range surfs {
		_ = s.CloseDB()
	}
	r.Max("max_history_ops", len(d.kinds))
	if d.nontrivial() && !d.dead {
		r.Nontrivial(family + "|" + d.fingerprint())
		r.Count("histories.nontrivial."+family, 1)
	}
	r.Count("histories."+family, 1)
	if r.WantSample() && d.nontrivial() {
		r.Sample(map[string]any{"family": family, "case": i, "ops": len(d.kinds), "fingerprint": d.fingerprint(), "trace_tail": d.trace})
	}
	return d
}

func TestVerifC07(t *testing.T) {
	r := verifkit.Start(t, "C07", "main")
	defer r.Finish()
	r.SetRule("Each case is one PRNG-generated history (appends in strict/server-allocated/trusted modes with right and wrong bases, follower applies with checkpoints, suffix truncations, bounded prefix trims, retention adoption, checkpoint stores, lease close/re-acquire, warm-cache eviction, whole-DB close+reopen, random bounded reads) over 2-6 channels on one engine, run on the typed ChannelLog, the compat Engine/ChannelStore and the channel/store Factory surfaces; every result is compared to a sequential reference model and every mutation is followed by a full audit. Non-trivial = some channel saw a truncation or trim, then an accepted append, then a DB reopen (with full audit). Distinct by surface family + collapsed op-kind sequence.")
	r.Assume("tmpfs-backed t.TempDir(); fsync semantics are not part of this check (C09)")
	r.Assume("trusted-contiguous and server-allocated batches respect their documented caller contract (no stored duplicates / allocator-fresh ids)")
	n := r.N(120, 1800)
	ops := r.N(70, 160)
	base := t.TempDir()
	for i := 0; i < n; i++ {
		if r.Skip(i) {
			continue
		}
		rng := r.Rand(uint64(i), 1)
		dir := filepath.Join(base, fmt.Sprintf("h%d", i))
		p := c07Params{Ops: ops, PairPool: 8 + rng.IntN(57), IDPool: 6 + rng.IntN(40), PCollide: 0.15, AllowDBOps: true, BigPayload: i%9 == 0, IDBase: 0}
		family := "typed"
		r.BeginCase(i, family)
		c07RunHistory(r, t, i, family, []c07Surface{c07NewTyped(dir)}, p, 2+rng.IntN(5))
		os.RemoveAll(dir)
	}
}
