//go:build verif

package c07rt

import (
	"context"
	"errors"
	"fmt"
	"path/filepath"
	"sync"

	"github.com/WuKongIM/WuKongIM/pkg/db"
	"github.com/WuKongIM/WuKongIM/pkg/db/message"
)

// c07Typed drives pkg/db: OpenNodeStore(...).Messages() and the typed
// ChannelLog lease API.
type c07Typed struct {
	dir string
	ns  *db.NodeStore
	mdb *message.MessageDB

	mu     sync.Mutex
	leases map[string]*message.ChannelLog
	ctxs   map[string]context.Context
	churn  int
}

// SetCtx makes every following call on ch use ctx (nil = live background context).
func (t *c07Typed) SetCtx(ch *c07Chan, ctx context.Context) {
	t.mu.Lock()
	defer t.mu.Unlock()
	if t.ctxs == nil {
		t.ctxs = map[string]context.Context{}
	}
	if ctx == nil {
		delete(t.ctxs, ch.Key)
	} else {
		t.ctxs[ch.Key] = ctx
	}
}

func (t *c07Typed) cx(ch *c07Chan) context.Context {
	t.mu.Lock()
	defer t.mu.Unlock()
	if ctx := t.ctxs[ch.Key]; ctx != nil {
		return ctx
	}
	return c07Ctx
}

func c07NewTyped(dir string) *c07Typed {
	return &c07Typed{dir: dir, leases: map[string]*message.ChannelLog{}}
}

func (t *c07Typed) Quirks() c07Quirks {
	return c07Quirks{
		Name: "typed", ChecksDup: true,
		TruncAboveLEOIsError: false, TrimNeedsAdopt: false, TruncBelowRetentionRejected: false,
		TruncKeepsRetainedMax: false,
		HasBaseSeq:            true, HasTrusted: true, HasServerAlloc: true,
		HasApply: true, HasApplyStrict: false, HasApplyCkpt: true, HasCkpt: true, HasTruncate: true,
		HasListByNo: true, HasLookupPair: true, HasLastSender: true, HasGetByID: true,
		HasHash: true, HasHitHash: true, HasCompatFields: false, ExactRetention: true,
		// Empty payloads and truncation below the persisted LEO floor were two
		// typed-API defects (fixed in /repo since); both are part of the random
		// body again and stay covered by the dedicated probe cases.
		EmptyPayloadOK: true,
		// StoreRetentionState is a raw setter: the workload only stores states a
		// retention adopter would (boundary at or below the log end).
		HasAdopt: true, AdoptAboveLEOOK: false, TrimAboveLEOOK: true, AppendDefaultsTS: true, ApplyDefaultsTS: true, HasChurn: true,
	}
}

func (t *c07Typed) Project(ch *c07Chan, in c07Rec) c07Rec {
	out := c07Rec{ID: in.ID, ChannelID: ch.ID, ChannelType: ch.Type, FromUID: in.FromUID, ClientMsgNo: in.ClientMsgNo,
		Payload: in.Payload, TS: in.TS}
	out.PayloadHash = c07Hash(in.Payload)
	return out
}

func (t *c07Typed) Canon(class string) string {
	if class == "id0" {
		return "invalid"
	}
	return class
}

func (t *c07Typed) ClassOf(err error) string {
	switch {
	case err == nil:
		return "ok"
	case errors.Is(err, context.Canceled):
		return "cancelled"
	case errors.Is(err, db.ErrConflict):
		return "conflict"
	case errors.Is(err, db.ErrInvalidArgument):
		return "invalid"
	case errors.Is(err, db.ErrCorruptState):
		return "corrupt"
	case errors.Is(err, db.ErrCorruptValue):
		return "corruptvalue"
	case errors.Is(err, db.ErrClosed):
		return "closed"
	}
	return "other"
}

func (t *c07Typed) OpenDB() error {
	ns, err := db.OpenNodeStore(db.NodeStoreOptions{MessagePath: filepath.Join(t.dir, "message"), MetaPath: filepath.Join(t.dir, "meta")})
	if err != nil {
		return err
	}
	t.ns, t.mdb = ns, ns.Messages()
	return nil
}

func (t *c07Typed) CloseDB() error {
	t.mu.Lock()
	t.leases = map[string]*message.ChannelLog{}
	t.mu.Unlock()
	if t.ns == nil {
		return nil
	}
	err := t.ns.Close()
	t.ns, t.mdb = nil, nil
	return err
}

func (t *c07Typed) Acquire(ch *c07Chan) error {
	l, err := t.mdb.Channel(message.ChannelKey(ch.Key), message.ChannelID{ID: ch.ID, Type: ch.Type})
	if err != nil {
		return err
	}
	t.mu.Lock()
	t.leases[ch.Key] = l
	t.mu.Unlock()
	return nil
}

func (t *c07Typed) log(ch *c07Chan) *message.ChannelLog {
	t.mu.Lock()
	defer t.mu.Unlock()
	return t.leases[ch.Key]
}

func (t *c07Typed) Release(ch *c07Chan) error {
	t.mu.Lock()
	l := t.leases[ch.Key]
	delete(t.leases, ch.Key)
	t.mu.Unlock()
	if l == nil {
		return nil
	}
	return l.Close()
}

func (t *c07Typed) Churn(n int) error {
	for i := 0; i < n; i++ {
		t.churn++
		l, err := t.mdb.Channel(message.ChannelKey(fmt.Sprintf("zz-churn-%d", t.churn)), message.ChannelID{ID: "churn", Type: 9})
		if err != nil {
			return err
		}
		if err := l.Close(); err != nil {
			return err
		}
	}
	return nil
}

func c07TypedRecords(recs []c07Rec) []message.Record {
	out := make([]message.Record, len(recs))
	for i, r := range recs {
		out[i] = message.Record{ID: r.ID, ClientMsgNo: r.ClientMsgNo, FromUID: r.FromUID, Payload: append([]byte(nil), r.Payload...), SizeBytes: r.SizeBytes, ServerTimestampMS: r.TS}
	}
	return out
}

func c07TypedMode(m c07Mode) message.AppendMode {
	switch m {
	case c07ServerAlloc:
		return message.AppendServerAllocatedMessageID
	case c07Trusted:
		return message.AppendTrustedContiguous
	}
	return message.AppendStrict
}

var c07Ctx = context.Background()

func (t *c07Typed) Append(ch *c07Chan, mode c07Mode, baseSeq uint64, recs []c07Rec) (uint64, uint64, error) {
	res, err := t.log(ch).Append(t.cx(ch), c07TypedRecords(recs), message.AppendOptions{Mode: c07TypedMode(mode), BaseSeq: baseSeq})
	if err == nil && res.Count != len(recs) {
		return res.BaseSeq, res.LastSeq, fmt.Errorf("append count %d != %d", res.Count, len(recs))
	}
	return res.BaseSeq, res.LastSeq, err
}

func (t *c07Typed) Apply(ch *c07Chan, baseSeq uint64, recs []c07Rec, ck *c07Ckpt, strict bool) (uint64, error) {
	req := message.ApplyFetchRequest{BaseSeq: baseSeq, Records: c07TypedRecords(recs)}
	if ck != nil {
		req.Checkpoint = &message.Checkpoint{Epoch: ck.Epoch, LogStartOffset: ck.LogStart, HW: ck.HW}
	}
	res, err := t.log(ch).ApplyFetch(t.cx(ch), req)
	return res.LastSeq, err
}

func (t *c07Typed) Truncate(ch *c07Chan, to uint64) error {
	if to == ^uint64(0) {
		return nil
	}
	return t.log(ch).TruncateFrom(t.cx(ch), to+1)
}

func (t *c07Typed) Adopt(ch *c07Chan, through uint64) error {
	st := message.RetentionState{LocalRetentionThroughSeq: ch.Ret.Local, PhysicalRetentionThroughSeq: ch.Ret.Physical, RetainedMaxSeq: ch.Ret.RetainedMax}
	if through > st.LocalRetentionThroughSeq {
		st.LocalRetentionThroughSeq = through
	}
	if ch.LEO > st.RetainedMaxSeq {
		st.RetainedMaxSeq = ch.LEO
	}
	if through > st.RetainedMaxSeq {
		st.RetainedMaxSeq = through
	}
	return t.log(ch).StoreRetentionState(t.cx(ch), st)
}

func (t *c07Typed) Trim(ch *c07Chan, through uint64, maxMsgs, maxBytes int) (c07TrimRes, error) {
	var res message.RetentionTrimResult
	var err error
	if maxMsgs == 0 && maxBytes == 0 {
		res, err = t.log(ch).TrimPrefixThrough(t.cx(ch), through)
	} else {
		res, err = t.log(ch).TrimPrefixThroughLimit(t.cx(ch), through, message.RetentionTrimOptions{MaxMessages: maxMsgs, MaxBytes: maxBytes})
	}
	return c07TrimRes{res.DeletedThroughSeq, res.Deleted, res.More}, err
}

func (t *c07Typed) StoreCkpt(ch *c07Chan, ck c07Ckpt, mono bool, visibleHW, leo uint64) error {
	c := message.Checkpoint{Epoch: ck.Epoch, LogStartOffset: ck.LogStart, HW: ck.HW}
	if mono {
		return t.log(ch).StoreCheckpointMonotonic(t.cx(ch), c, visibleHW, leo)
	}
	return t.log(ch).StoreCheckpoint(t.cx(ch), c)
}

func (t *c07Typed) LEO(ch *c07Chan) (uint64, error) { return t.log(ch).LEO(t.cx(ch)) }

func c07FromTyped(m message.Message) c07Rec {
	return c07Rec{Seq: m.MessageSeq, ID: m.MessageID, ChannelID: m.ChannelID, ChannelType: m.ChannelType, FromUID: m.FromUID,
		ClientMsgNo: m.ClientMsgNo, Payload: m.Payload, PayloadHash: m.PayloadHash, TS: m.ServerTimestampMS}
}

func (t *c07Typed) Scan(ch *c07Chan, from uint64, limit, maxBytes int, reverse bool) ([]c07Rec, error) {
	var ms []message.Message
	var err error
	if reverse {
		ms, err = t.log(ch).ReadReverse(t.cx(ch), from, message.ReadOptions{Limit: limit, MaxBytes: maxBytes})
	} else {
		ms, err = t.log(ch).Read(t.cx(ch), from, message.ReadOptions{Limit: limit, MaxBytes: maxBytes})
	}
	out := make([]c07Rec, len(ms))
	for i, m := range ms {
		out[i] = c07FromTyped(m)
	}
	return out, err
}

func (t *c07Typed) GetBySeq(ch *c07Chan, seq uint64) (c07Rec, bool, error) {
	m, ok, err := t.log(ch).GetBySeq(t.cx(ch), seq)
	return c07FromTyped(m), ok, err
}

func (t *c07Typed) GetByID(ch *c07Chan, id uint64) (c07Rec, bool, error) {
	m, ok, err := t.log(ch).GetByMessageID(t.cx(ch), id)
	return c07FromTyped(m), ok, err
}

func (t *c07Typed) ListByNo(ch *c07Chan, no string, before uint64, limit int) ([]c07Rec, uint64, bool, error) {
	page, err := t.log(ch).ListByClientMsgNo(t.cx(ch), no, before, limit)
	out := make([]c07Rec, len(page.Messages))
	for i, m := range page.Messages {
		out[i] = c07FromTyped(m)
	}
	return out, page.NextBeforeSeq, page.HasMore, err
}

func (t *c07Typed) LookupPair(ch *c07Chan, p c07Pair) (c07Hit, bool, error) {
	hit, ok, err := t.log(ch).LookupIdempotency(t.cx(ch), message.IdempotencyKey{FromUID: p.UID, ClientMsgNo: p.No})
	if ok && err == nil && hit.Offset != hit.MessageSeq-1 {
		return c07Hit{}, ok, fmt.Errorf("offset %d does not match seq %d", hit.Offset, hit.MessageSeq)
	}
	return c07Hit{hit.MessageSeq, hit.MessageID, hit.PayloadHash}, ok, err
}

func (t *c07Typed) LastSender(ch *c07Chan, uid string, through uint64) (uint64, bool, error) {
	return t.log(ch).GetLastSenderMessageSeq(t.cx(ch), uid, through)
}

func (t *c07Typed) Retention(ch *c07Chan) (c07Ret, error) {
	st, ok, err := t.log(ch).LoadRetentionState(t.cx(ch))
	return c07Ret{ok, st.LocalRetentionThroughSeq, st.PhysicalRetentionThroughSeq, st.RetainedMaxSeq}, err
}

func (t *c07Typed) Checkpoint(ch *c07Chan) (c07Ckpt, error) {
	c, ok, err := t.log(ch).LoadCheckpoint(t.cx(ch))
	return c07Ckpt{ok, c.Epoch, c.LogStartOffset, c.HW}, err
}

func (t *c07Typed) ExtraAudit(ch *c07Chan) (string, any) {
	// argument validation documented on the lookups
	l := t.log(ch)
	if _, _, err := l.GetBySeq(t.cx(ch), 0); !errors.Is(err, db.ErrInvalidArgument) {
		return "get-by-seq-0:not-rejected", fmt.Sprint(err)
	}
	// newest visible message agrees with the model's last row
	m, ok, err := l.GetLastVisibleMessage(t.cx(ch), 0)
	var want *c07Rec
	for seq := ch.LEO; seq >= ch.lowSeq() && seq > 0; seq-- {
		if ch.Rows[seq] != nil {
			want = ch.Rows[seq]
			break
		}
	}
	if err != nil || ok != (want != nil) {
		return "last-visible:presence-mismatch", map[string]any{"ok": ok, "err": fmt.Sprint(err), "want": c07Brief(want)}
	}
	if want != nil {
		got := c07FromTyped(m)
		if f := c07Diff(want, &got, true, false); f != "" {
			return "last-visible:row-mismatch:" + f, map[string]any{"want": c07Brief(want), "got": c07Brief(&got)}
		}
	}
	return "", nil
}
