//go:build verif

package c07rt

import (
	"encoding/binary"
	"fmt"
	"os"
	"path/filepath"
	"sort"

	"github.com/WuKongIM/WuKongIM/pkg/verifkit"
)

// c08ScanOrder returns the channel's stored pairs in the order the durable
// idempotency index is scanned (client msg no, then sender, both length
// prefixed) - only used to aim duplicates at keys a cut-short scan cannot have
// reached yet.
func c08ScanOrder(ch *c07Chan) []c07Pair {
	type kv struct {
		k string
		p c07Pair
	}
	var all []kv
	for p := range ch.Pairs {
		var b []byte
		b = binary.BigEndian.AppendUint16(b, uint16(len(p.No)))
		b = append(b, p.No...)
		b = binary.BigEndian.AppendUint16(b, uint16(len(p.UID)))
		b = append(b, p.UID...)
		all = append(all, kv{string(b), p})
	}
	sort.Slice(all, func(i, j int) bool { return all[i].k < all[j].k })
	out := make([]c07Pair, len(all))
	for i := range all {
		out[i] = all[i].p
	}
	return out
}

// c08CancelledRebuild: a channel holds P durable pairs; after a barrier that
// unloads the per-channel append state (reopen / warm-state eviction / lease
// reclaim) the FIRST validated append runs under a countdown context whose
// cancellation point N is swept over the whole poll range of that append
// (measured on an identical preceding run), in particular over the window in
// which the idempotency filter is rebuilt from the durable index. The
// cancelled append must leave the log unchanged; afterwards, on the same DB
// instance and with live contexts, duplicates of stored pairs (especially of
// keys that sort after the interruption point) must still be rejected and
// fresh pairs accepted.
func c08CancelledRebuild(r *verifkit.Run, i int, base string, kind int, barrierKinds []string, pairs, rounds int) {
	rng := r.Rand(uint64(i), 23)
	dir := filepath.Join(base, fmt.Sprintf("can%d", i))
	defer os.RemoveAll(dir)
	family, surf := c08Surface(kind, dir)
	r.BeginCase(i, fmt.Sprintf("cancelled filter rebuild %s barriers=%v pairs=%d rounds=%d", family, barrierKinds, pairs, rounds))
	if err := surf.OpenDB(); err != nil {
		r.Inconclusive("open: " + err.Error())
		return
	}
	node := c07NewNode()
	ch := c07NewChan("1:can", "can", 1)
	node.Chans = []*c07Chan{ch}
	p := c07Params{PairPool: 8, IDPool: 8, AllowDBOps: true, SigPrefix: "c08:cancel:", AuditEvery: 8, AuditCap: 48}
	d := c07NewDriver(r, rng, node, node.Chans, []c07Surface{surf}, p)
	next := 0
	mkRec := func(pr c07Pair) c07Rec {
		return c07Rec{ID: d.freshID(), FromUID: pr.UID, ClientMsgNo: pr.No, Payload: []byte{1, byte(next)}, TS: 1_700_000_000_000, ChannelID: ch.ID, ChannelType: ch.Type}
	}
	freshPair := func() c07Pair {
		next++
		// varying lengths so that the index scan order is not the insertion order
		return c07Pair{fmt.Sprintf("s%d", next%5), fmt.Sprintf("%s-%d", []string{"k", "kk", "a", "zzzz"}[next%4], next)}
	}
	modes := []c07Mode{c07Strict, c07ServerAlloc}
	measure := func(mode c07Mode, recs []c07Rec) int64 {
		d.armN = c07Never
		d.doAppend(ch, mode, recs, 0)
		if d.lastCD == nil {
			return 0
		}
		return d.lastCD.Polls()
	}
	nontrivial := map[string]bool{}
	r.Guard("c08:cancelled-rebuild", i, func() {
		for len(ch.Pairs) < pairs && !d.dead {
			n := min(1+rng.IntN(64), pairs-len(ch.Pairs))
			recs := make([]c07Rec, n)
			for j := range recs {
				recs[j] = mkRec(freshPair())
			}
			d.doAppend(ch, modes[rng.IntN(2)], recs, 0)
		}
		if d.dead {
			return
		}
		order := c08ScanOrder(ch)
		// polls of an append whose filter is already loaded: rejected duplicate
		// (validation incl. the verified point read) and a pair-less record
		// (validation up to, not including, the filter)
		var tLoaded, tNoPair [2]int64
		for m, mode := range modes {
			tLoaded[m] = measure(mode, []c07Rec{mkRec(order[len(order)-1])})
			np := mkRec(c07Pair{})
			tNoPair[m] = measure(mode, []c07Rec{np})
		}
		for round := 0; round < rounds && !d.dead; round++ {
			bk := barrierKinds[round%len(barrierKinds)]
			m := round % 2
			mode := modes[m]
			order = c08ScanOrder(ch)
			victim := order[len(order)-1]
			if round%4 == 3 {
				victim = order[rng.IntN(len(order))]
			}
			// 1) identical append with a never-cancelling counting context: T polls
			d.barrier(ch, bk)
			T := measure(mode, []c07Rec{mkRec(victim)})
			if d.dead {
				return
			}
			P := int64(len(ch.Pairs))
			tail := max(tLoaded[m]-tNoPair[m], 0)
			end := T - tail
			start := end - P
			rebuilt := T-tLoaded[m] >= P
			if !rebuilt {
				r.Count("cancel.rebuild.barrier_kept_filter_loaded."+bk, 1)
				start, end = 0, T
			} else {
				r.Count("cancel.rebuild.barrier_forced_rebuild."+bk, 1)
			}
			// 2) same barrier again, then the cancelled first append
			d.barrier(ch, bk)
			cands := []int64{start, start + 1, start + P/3, start + P/2, end - 2, end - 1, 0, 1, 2, start - 1, start - 3, end, end + 1, T - 1, T, rng.Int64N(T + 1), start + rng.Int64N(max(P, 1))}
			N := cands[round%len(cands)]
			N = min(max(N, 0), T+1)
			var batch []c07Rec
			fresh := round%3 == 2
			if fresh {
				batch = []c07Rec{mkRec(freshPair())}
			} else {
				batch = []c07Rec{mkRec(victim)}
			}
			before := ch.LEO
			d.armN = N
			d.doAppend(ch, mode, batch, 0)
			if d.dead {
				return
			}
			fired := d.lastCD != nil && d.lastCD.Fired()
			where := "outside"
			switch {
			case !rebuilt:
				where = "no-rebuild"
			case N == start:
				where = "at-first-key"
			case N > start && N < end:
				where = "inside-rebuild"
			case N < start:
				where = "before-rebuild"
			}
			r.Count("cancel.rebuild.n_"+where, 1)
			if fired {
				r.Count("cancel.rebuild.fired.n_"+where, 1)
				if ch.LEO == before {
					r.Count("cancel.rebuild.fired_and_log_unchanged", 1)
				}
			}
			// 3) live follow-ups on the same DB instance: duplicates of keys late
			// in scan order and of random keys are rejected, a fresh pair is accepted
			order = c08ScanOrder(ch)
			d.doAppend(ch, modes[rng.IntN(2)], []c07Rec{mkRec(order[len(order)-1])}, 0)
			d.doAppend(ch, modes[rng.IntN(2)], []c07Rec{mkRec(order[len(order)-1-rng.IntN(min(8, len(order)))])}, 0)
			d.doAppend(ch, modes[rng.IntN(2)], []c07Rec{mkRec(order[rng.IntN(len(order))])}, 0)
			d.doAppend(ch, modes[rng.IntN(2)], []c07Rec{mkRec(freshPair()), mkRec(order[rng.IntN(len(order))])}, 0)
			d.doAppend(ch, modes[rng.IntN(2)], []c07Rec{mkRec(freshPair())}, 0)
			if !d.dead && fired && (where == "inside-rebuild" || where == "at-first-key") {
				bucket := "mid"
				if where == "at-first-key" {
					bucket = "first"
				} else if N >= end-2 {
					bucket = "last"
				}
				nontrivial[fmt.Sprintf("cancel|%s|%s|%s|%s|fresh=%v", family, bk, mode, bucket, fresh)] = true
			}
		}
		if !d.dead {
			d.stepReopen()
		}
		if !d.dead {
			d.p.AuditCap = 400
			d.audit(ch)
			c08UniqScan(d, "end-of-cancelled-rebuild")
		}
	})
	_ = surf.CloseDB()
	r.Count("histories.cancelled_rebuild."+family, 1)
	if !d.dead {
		for fp := range nontrivial {
			r.Nontrivial(fp)
		}
	}
	if r.WantSample() {
		r.Sample(map[string]any{"family": "cancelled-rebuild/" + family, "case": i, "pairs": len(ch.Pairs), "dup_events": d.dupAfter, "trace_tail": d.trace[max(0, len(d.trace)-14):]})
	}
}
