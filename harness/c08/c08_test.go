//go:build verif

package c07rt

import (
	"fmt"
	"math/rand/v2"
	"os"
	"path/filepath"
	"testing"

	"github.com/WuKongIM/WuKongIM/pkg/verifkit"
)

// C08 reuses the C07 reference model (per channel pair -> seq, per node
// id -> location) and store drivers with a workload biased to collisions, adds
// a model-independent uniqueness scan of the stored rows, and a saturation
// family for the bounded idempotency membership filter.

// c08UniqScan reads every channel back from the real store and asserts the
// statement directly: no two stored rows of a channel share a non-empty
// (FromUID, ClientMsgNo); no message id is stored twice on the node.
func c08UniqScan(d *c07Driver, where string) bool {
	for _, s := range d.surfs {
		q := s.Quirks()
		if !q.ChecksDup {
			continue
		}
		ids := map[uint64]string{}
		for _, ch := range d.chans {
			if !d.ensureLease(ch) {
				return false
			}
			rows, err := s.Scan(ch, 0, 0, 0, false)
			d.r.Eval(1)
			if err != nil {
				d.violate(q.Name+":uniq-scan:error", map[string]any{"chan": ch.Key, "err": err.Error(), "where": where})
				return false
			}
			pairs := map[c07Pair]uint64{}
			for i := range rows {
				row := &rows[i]
				if p, ok := row.pair(); ok {
					if prev, dup := pairs[p]; dup {
						d.violate(q.Name+":uniq-scan:two-rows-same-sender-client-msg-no", map[string]any{"chan": ch.Key, "pair": p, "seq_a": prev, "seq_b": row.Seq, "where": where})
						return false
					}
					pairs[p] = row.Seq
				}
				loc := fmt.Sprintf("%s@%d", ch.Key, row.Seq)
				if prev, dup := ids[row.ID]; dup {
					d.violate(q.Name+":uniq-scan:message-id-stored-twice", map[string]any{"id": row.ID, "loc_a": prev, "loc_b": loc, "where": where})
					return false
				}
				ids[row.ID] = loc
			}
			d.r.Count("uniq_scan.rows", len(rows))
		}
		d.r.Count("uniq_scan.runs", 1)
	}
	return true
}

func c08Surface(kind int, dir string) (string, c07Surface) {
	switch kind % 3 {
	case 0:
		return "typed", c07NewTyped(dir)
	case 1:
		return "compat", c07NewCompat(dir)
	}
	return "factorydb", c07NewFactory(dir, false)
}

// c08FilterMetrics reads the engine's cumulative idempotency filter counters
// (evidence that both the definite-negative and the verified-hit path ran).
func c08FilterMetrics(s c07Surface) (skips, reads uint64, ok bool) {
	switch v := s.(type) {
	case *c07Typed:
		if v.mdb != nil {
			m := v.mdb.MetricsSnapshot()
			return m.IdempotencyNegativeFilterSkips, m.IdempotencyPointReads, true
		}
	case *c07Compat:
		if v.eng != nil {
			m := v.eng.MetricsSnapshot()
			return m.IdempotencyNegativeFilterSkips, m.IdempotencyPointReads, true
		}
	}
	return 0, 0, false
}

func c08NoteMetrics(r *verifkit.Run, s c07Surface, prefix string) {
	if skips, reads, ok := c08FilterMetrics(s); ok {
		r.Count(prefix+".filter_negative_skips", int(skips))
		r.Count(prefix+".filter_point_reads", int(reads))
	}
}

// c08SmallHistory: a short random history over a tiny key space.
func c08SmallHistory(r *verifkit.Run, i int, base string) {
	rng := r.Rand(uint64(i), 21)
	dir := filepath.Join(base, fmt.Sprintf("s%d", i))
	defer os.RemoveAll(dir)
	family, surf := c08Surface(i, dir)
	r.BeginCase(i, "collisions "+family)
	if err := surf.OpenDB(); err != nil {
		r.Inconclusive("open: " + err.Error())
		return
	}
	node := c07NewNode()
	node.Chans = c07Channels(2 + rng.IntN(3))
	p := c07Params{Ops: r.N(60, 90), PairPool: 8 + rng.IntN(57), IDPool: 4 + rng.IntN(24), PCollide: 0.45, MaxBatch: 24,
		AllowDBOps: true, SigPrefix: "c08:", ChurnOneIn: 3, CancelOneIn: 10,
		//                 append apply trunc trim adopt ckpt lease reopen read
		Weights: [9]int{50, 12, 7, 5, 3, 0, 10, 6, 7}}
	d := c07NewDriver(r, rng, node, node.Chans, []c07Surface{surf}, p)
	d.beforeClose = func() { c08NoteMetrics(r, surf, "small") }
	r.Guard("c08:history", i, func() {
		d.run()
		if !d.dead {
			d.stepReopen()
		}
		if !d.dead {
			c08UniqScan(d, "end-of-history")
		}
	})
	c08NoteMetrics(r, surf, "small")
	_ = surf.CloseDB()
	r.Count("histories.small."+family, 1)
	// non-trivial: an accepted pair whose duplicate was rejected after a
	// reopen / warm-state eviction / lease reclaim
	nt := d.dupAfter["rejected.stored-pair.after-reopen"] > 0 || d.dupAfter["rejected.stored-pair.after-evict"] > 0 || d.dupAfter["rejected.stored-pair.after-reclaim"] > 0
	if nt && !d.dead {
		keys := ""
		for _, k := range []string{"rejected.stored-pair.after-reopen", "rejected.stored-pair.after-evict", "rejected.stored-pair.after-reclaim", "rejected.stored-pair.holder-trusted", "rejected.in-batch-pair", "reaccepted-pair-after-removal", "rejected.stored-id.after-other-channel"} {
			if d.dupAfter[k] > 0 {
				keys += "1"
			} else {
				keys += "0"
			}
		}
		r.Nontrivial("small|" + family + "|" + keys + "|" + d.fingerprint())
		r.Count("histories.small.nontrivial", 1)
	}
	if r.WantSample() && nt {
		r.Sample(map[string]any{"family": "small/" + family, "case": i, "dup_events": d.dupAfter, "trace_tail": d.trace[max(0, len(d.trace)-12):]})
	}
}

// c08Saturation stores nPairs distinct (FromUID, ClientMsgNo) pairs in one
// channel (the filter holds 384 primary adds + an 8192-bit overflow layer),
// then replays earlier pairs and fresh pairs across every kind of barrier.
func c08Saturation(r *verifkit.Run, i int, base string, kind int, nPairs, replays int) {
	rng := r.Rand(uint64(i), 22)
	dir := filepath.Join(base, fmt.Sprintf("sat%d", i))
	defer os.RemoveAll(dir)
	family, surf := c08Surface(kind, dir)
	r.BeginCase(i, fmt.Sprintf("saturation %s pairs=%d replays=%d", family, nPairs, replays))
	if err := surf.OpenDB(); err != nil {
		r.Inconclusive("open: " + err.Error())
		return
	}
	node := c07NewNode()
	ch := c07NewChan("1:sat", "sat", 1)
	other := c07NewChan("1:sat2", "sat2", 1)
	node.Chans = []*c07Chan{ch, other}
	p := c07Params{Ops: 0, PairPool: 8, IDPool: 8, PCollide: 0, AllowDBOps: true, SigPrefix: "c08:sat:", AuditEvery: 16, AuditCap: 64}
	d := c07NewDriver(r, rng, node, node.Chans, []c07Surface{surf}, p)
	phase := "sat.fill"
	d.beforeClose = func() { c08NoteMetrics(r, surf, phase) }
	uid := func(k int) string { return fmt.Sprintf("s%d", k%7) }
	mkRec := func(k int) c07Rec {
		return c07Rec{ID: d.freshID(), FromUID: uid(k), ClientMsgNo: fmt.Sprintf("sat-%d", k), Payload: []byte{byte(k), byte(k >> 8), 1}, TS: 1_700_000_000_000 + int64(k),
			ChannelID: ch.ID, ChannelType: ch.Type}
	}
	modeOf := func(x int) c07Mode {
		if x%2 == 0 {
			return c07ServerAlloc
		}
		return c07Strict
	}
	stored := 0
	r.Guard("c08:saturation", i, func() {
		// phase 1: fill
		for stored < nPairs && !d.dead {
			n := min(1+rng.IntN(64), nPairs-stored)
			recs := make([]c07Rec, n)
			for j := range recs {
				recs[j] = mkRec(stored + j)
			}
			mode := modeOf(rng.IntN(2))
			if rng.IntN(6) == 0 && d.q.HasApply {
				// some of the fill arrives as trusted follower applies
				for j := range recs {
					recs[j].SizeBytes = len(recs[j].Payload)
				}
				mode = c07Trusted
				if d.q.HasTrusted {
					d.doAppend(ch, mode, recs, 0)
				} else {
					d.applyExact(ch, recs)
				}
			} else {
				d.doAppend(ch, mode, recs, 0)
			}
			stored += n
			if stored == 384 || rng.IntN(40) == 0 {
				d.barrier(ch, []string{"reclaim", "evict", "reopen"}[rng.IntN(3)])
			}
		}
		if d.dead {
			return
		}
		r.Max("saturation.max_pairs_stored", len(ch.Pairs))
		c08NoteMetrics(r, surf, phase)
		phase = "sat.replay"
		c08UniqScan(d, "after-fill")
		// phase 2: replays of earlier pairs / fresh pairs across barriers
		freshK := nPairs
		for k := 0; k < replays && !d.dead; k++ {
			if k%max(replays/9, 1) == 0 {
				d.barrier(ch, []string{"reopen", "evict", "reclaim"}[(k/max(replays/9, 1))%3])
			}
			var recs []c07Rec
			switch x := rng.IntN(10); {
			case x < 5: // replay of an earlier pair (primary-era, overflow-era or recent), alone or inside a batch of fresh ones
				var old int
				switch rng.IntN(3) {
				case 0:
					old = rng.IntN(min(384, nPairs))
				case 1:
					old = nPairs - 1 - rng.IntN(min(64, nPairs))
				default:
					old = rng.IntN(nPairs)
				}
				n := 1 + rng.IntN(3)
				at := rng.IntN(n)
				for j := 0; j < n; j++ {
					if j == at {
						recs = append(recs, mkRec(old))
					} else {
						recs = append(recs, mkRec(freshK))
						freshK++
					}
				}
			case x < 8: // fresh pairs must still be accepted by a saturated filter
				n := 1 + rng.IntN(3)
				for j := 0; j < n; j++ {
					recs = append(recs, mkRec(freshK))
					freshK++
				}
			case x < 9: // duplicate inside one batch of fresh pairs
				a := mkRec(freshK)
				b := mkRec(freshK)
				freshK++
				recs = []c07Rec{a, mkRec(freshK), b}
				freshK++
			default: // trusted follower apply of fresh pairs, then a colliding leader append
				if d.q.HasApply {
					a := mkRec(freshK)
					freshK++
					if d.q.HasTrusted && rng.IntN(2) == 0 {
						d.doAppend(ch, c07Trusted, []c07Rec{a}, 0)
					} else {
						d.applyExact(ch, []c07Rec{a})
					}
					dup := a
					dup.ID = d.freshID()
					dup.Payload = []byte{9, 9}
					recs = []c07Rec{dup}
				} else {
					recs = []c07Rec{mkRec(freshK)}
					freshK++
				}
			}
			d.doAppend(ch, modeOf(rng.IntN(2)), recs, 0)
		}
		if d.dead {
			return
		}
		phase = "sat.cut"
		// phase 3: cut the tail; the pairs of removed holders must be accepted again
		if d.q.HasTruncate && ch.LEO > 40 {
			to := ch.LEO - 20 - rng.Uint64N(20)
			var freed []c07Rec
			for seq := to + 1; seq <= ch.LEO; seq++ {
				if row := ch.Rows[seq]; row != nil {
					if _, ok := row.pair(); ok {
						rec := c07Rec{ID: d.freshID(), FromUID: row.FromUID, ClientMsgNo: row.ClientMsgNo, Payload: []byte{7}, TS: 5, ChannelID: ch.ID, ChannelType: ch.Type}
						freed = append(freed, rec)
					}
				}
			}
			d.truncateExact(ch, to)
			if rng.IntN(2) == 0 {
				d.barrier(ch, "reopen")
			}
			for len(freed) > 0 && !d.dead {
				n := min(1+rng.IntN(4), len(freed))
				d.doAppend(ch, modeOf(rng.IntN(2)), freed[:n], 0)
				freed = freed[n:]
			}
		}
		if !d.dead {
			d.stepReopen()
		}
		if !d.dead {
			d.p.AuditCap = 400
			d.audit(ch)
			c08UniqScan(d, "end-of-saturation")
		}
	})
	c08NoteMetrics(r, surf, phase)
	_ = surf.CloseDB()
	r.Count("histories.saturation."+family, 1)
	if !d.dead && len(ch.Pairs) >= 2000 && (d.dupAfter["rejected.stored-pair.after-reopen"] > 0 || d.dupAfter["rejected.stored-pair.after-evict"] > 0) {
		r.Nontrivial(fmt.Sprintf("sat|%s|%d|%d|%d", family, nPairs, d.dupAfter["rejected.stored-pair.after-reopen"], d.dupAfter["rejected.stored-pair.after-evict"]))
		r.Count("histories.saturation.nontrivial", 1)
	}
	if r.WantSample() {
		r.Sample(map[string]any{"family": "saturation/" + family, "case": i, "pairs_stored": len(ch.Pairs), "dup_events": d.dupAfter})
	}
}

var _ = rand.IntN

func TestVerifC08(t *testing.T) {
	r := verifkit.Start(t, "C08", "main")
	defer r.Finish()
	r.SetRule("Two families, both checked against a sequential model (pair->seq per channel, id->location per node) and by a model-independent scan of the stored rows. (a) small histories: 60-110 random ops over 2-4 channels with a key space of 8-64 (sender, client msg no) pairs and 4-28 colliding message ids, appends in strict / server-allocated / trusted modes, follower applies, truncations, trims, lease reclaim, warm-state eviction and DB reopen; (b) saturation: 3000-20000 distinct pairs stored in one channel, then replays of primary-era / overflow-era / recent pairs, fresh pairs, in-batch duplicates and trusted applies followed by colliding appends, across reopen / eviction / reclaim barriers, then truncation of holders and re-acceptance; (c) cancelled rebuild: 150-520 stored pairs, then per round a reopen / eviction / reclaim barrier, an identical counting run, the same barrier again and the FIRST validated append under a countdown context cancelled after N polls with N swept over the measured poll range (first key, middle and end of the filter rebuild, before and after it), followed on the same DB instance by live duplicates of late-scan-order and random keys (must be rejected) and fresh pairs (must be accepted). About one op in 10 of family (a) also runs under a countdown context. Non-trivial (a): an accepted pair whose duplicate was rejected after a reopen, eviction or reclaim; (b): >= 2000 stored pairs and such a rejection after reopen or eviction; (c): the countdown fired inside (or at the first key of) the rebuild window and all follow-ups behaved. Distinct by family, surface, which duplicate situations occurred and op-kind sequence.")
	r.Assume("trusted-contiguous input never carries duplicates and server-allocated input carries allocator-fresh ids (documented caller contracts); only the pair check is expected in server-allocated mode")
	base := t.TempDir()
	idx := 0
	nSmall := r.N(150, 1200)
	for k := 0; k < nSmall; k++ {
		if !r.Skip(idx) {
			c08SmallHistory(r, idx, base)
		}
		idx++
	}
	type sat struct{ kind, pairs, replays int }
	var sats []sat
	if r.Thorough() {
		for s := 0; s < 5; s++ {
			sats = append(sats, sat{s, 20000, 4000})
		}
		sats = append(sats, sat{0, 3000, 3000}, sat{1, 3000, 3000}, sat{2, 3000, 3000})
	} else {
		sats = []sat{{int(r.Seed % 2), 3000, 900}, {2, 2200, 300}}
	}
	for _, s := range sats {
		if !r.Skip(idx) {
			c08Saturation(r, idx, base, s.kind, s.pairs, s.replays)
		}
		idx++
	} // cancellation as a fault: first validated append after a barrier under a countdown context
	type can struct {
		kind     int
		barriers []string
	}
	cans := []can{{0, []string{"reopen"}}, {2, []string{"evict"}}, {0, []string{"evict", "reopen", "reclaim"}}, {2, []string{"reopen", "reclaim"}}}
	if r.Thorough() {
		cans = append(cans, cans...)
		cans = append(cans, cans...)
	}
	for k, c := range cans {
		if !r.Skip(idx) {
			c08CancelledRebuild(r, idx, base, c.kind, c.barriers, r.N(150, 400)+60*(k%3), r.N(17, 34))
		}
		idx++
	}
}
