//go:build verif

package c09

import (
	"context"
	"errors"
	"fmt"
	"math/rand/v2"
	"strconv"
	"strings"

	"github.com/WuKongIM/WuKongIM/pkg/db/internal/dberrors"
	"github.com/WuKongIM/WuKongIM/pkg/db/internal/engine"
	"github.com/WuKongIM/WuKongIM/pkg/db/message"
	channel "github.com/WuKongIM/WuKongIM/pkg/db/message/channelcompat"
	"github.com/WuKongIM/WuKongIM/pkg/quorumlog"
	"github.com/WuKongIM/WuKongIM/pkg/wklog"
	"github.com/cockroachdb/pebble/v2"
	"github.com/cockroachdb/pebble/v2/vfs"
)

// c09Chan is one channel of a history.
type c09Chan struct {
	Idx   int
	Key   channel.ChannelKey
	ID    channel.ChannelID
	Exact bool // every row is written through exact proposals (manifest + identities)
	// Typed: driven through the typed domain API (db.OpenNodeStore ->
	// MessageDB.Channel -> ChannelLog) instead of the compatibility Engine.
	Typed bool
}

const c09Cursor = "committed"

// c09Store is one opened message DB (through the production open path
// message.OpenWithLogger -> engine.Open -> verif seam -> c09Mux root).
type c09Store struct {
	root string
	eng  *message.Engine
	st   []*message.ChannelStore
	// typed flavour: the two calls db.OpenNodeStore makes for the message
	// domain (engine.Open + message.NewDB), with a silent logger
	tdb  *message.MessageDB
	logs []*message.ChannelLog
}

func c09OpenStore(root string, chans []*c09Chan) (*c09Store, error) {
	if len(chans) > 0 && chans[0].Typed {
		e, err := engine.Open(root+"/db", engine.Options{Logger: wklog.NewNop()})
		if err != nil {
			return nil, err
		}
		s := &c09Store{root: root, tdb: message.NewDB(e), logs: make([]*message.ChannelLog, len(chans))}
		for i, ch := range chans {
			l, err := s.tdb.Channel(message.ChannelKey(ch.Key), message.ChannelID{ID: ch.ID.ID, Type: ch.ID.Type})
			if err != nil {
				s.tdb.Close()
				return nil, err
			}
			s.logs[i] = l
		}
		return s, nil
	}
	eng, err := message.OpenWithLogger(root+"/db", wklog.NewNop())
	if err != nil {
		return nil, err
	}
	s := &c09Store{root: root, eng: eng, st: make([]*message.ChannelStore, len(chans))}
	for i, ch := range chans {
		st, err := eng.ForChannel(ch.Key, ch.ID)
		if err != nil {
			eng.Close()
			return nil, err
		}
		s.st[i] = st
	}
	return s, nil
}

func (s *c09Store) close() {
	if s != nil && s.tdb != nil {
		for _, l := range s.logs {
			l.Close()
		}
		s.tdb.Close()
		s.tdb = nil
		return
	}
	if s == nil || s.eng == nil {
		return
	}
	for _, st := range s.st {
		st.Close()
	}
	s.eng.Close()
	s.eng = nil
}

// configure applies a plan's commit coordinator settings to a live store.
func (s *c09Store) configure(p *c09Plan) {
	if s != nil && s.eng != nil && p.coord != nil {
		s.eng.ConfigureCommitCoordinator(*p.coord)
	}
}

func c09ErrClass(err error) string {
	switch {
	case err == nil:
		return "ok"
	case errors.Is(err, channel.ErrCorruptState):
		return "corrupt-state"
	case errors.Is(err, channel.ErrCorruptValue):
		return "corrupt-value"
	case errors.Is(err, channel.ErrInvalidArgument):
		return "invalid-argument"
	case errors.Is(err, channel.ErrClosed):
		return "closed"
	case errors.Is(err, channel.ErrEmptyState):
		return "empty"
	case errors.Is(err, channel.ErrBackpressured):
		return "backpressured"
	case errors.Is(err, dberrors.ErrCorruptState), errors.Is(err, dberrors.ErrConflict):
		return "corrupt-state"
	case errors.Is(err, dberrors.ErrCorruptValue):
		return "corrupt-value"
	case errors.Is(err, dberrors.ErrInvalidArgument):
		return "invalid-argument"
	case errors.Is(err, dberrors.ErrClosed):
		return "closed"
	}
	m := err.Error()
	if len(m) > 60 {
		m = m[:60]
	}
	return "other:" + m
}

// c09RawDump opens the store's directory read-only at the engine level and
// returns every visible key/value pair. It performs no domain reads, so nothing
// can repair or hide a dangling row before it is compared.
func c09RawDump(root string) (map[string]string, error) {
	db, err := engine.Open(root+"/db", engine.Options{ReadOnly: true, CacheSize: 1 << 20, MemTableSize: 1 << 20, Logger: wklog.NewNop()})
	if err != nil {
		if errors.Is(err, pebble.ErrDBDoesNotExist) || strings.Contains(err.Error(), "does not exist") {
			// image taken before the very first open made the database durable:
			// a read-only open cannot create it; the keyspace is empty.
			return map[string]string{}, nil
		}
		return nil, err
	}
	defer db.Close()
	it, err := db.NewIter(engine.Span{}, engine.IterOptions{})
	if err != nil {
		return nil, err
	}
	defer it.Close()
	out := map[string]string{}
	for ok := it.First(); ok; ok = it.Next() {
		v, err := it.Value()
		if err != nil {
			return nil, err
		}
		out[string(it.Key())] = string(v)
	}
	if err := it.Error(); err != nil {
		return nil, err
	}
	return out, nil
}

// c09DumpOf takes a full-image clone of a crashable reference FS and dumps it.
func c09DumpOf(mem *vfs.MemFS, tmpRoot string, rng *rand.Rand) (map[string]string, error) {
	cl := mem.CrashClone(vfs.CrashCloneCfg{UnsyncedDataPercent: 100, RNG: rng})
	c09TheMux.register(tmpRoot, cl)
	defer c09TheMux.unregister(tmpRoot)
	return c09RawDump(tmpRoot)
}

// ---------------------------------------------------------------------------
// Observation through the public store API.

func c09Observe(s *c09Store, ch *c09Chan, u *c09Universe) map[string]string {
	if ch.Typed {
		return c09ObserveTyped(s, ch, u)
	}
	ctx := context.Background()
	st := s.st[ch.Idx]
	o := make(map[string]string, 8+len(u.msgs)*3)
	if leo, err := st.LEOWithError(); err != nil {
		o["leo"] = "ERR:" + c09ErrClass(err)
	} else {
		o["leo"] = strconv.FormatUint(leo, 10)
	}
	if ck, err := st.LoadCheckpoint(); errors.Is(err, channel.ErrEmptyState) {
		o["ckpt"] = "absent"
	} else if err != nil {
		o["ckpt"] = "ERR:" + c09ErrClass(err)
	} else {
		o["ckpt"] = fmt.Sprintf("%d/%d/%d", ck.Epoch, ck.LogStartOffset, ck.HW)
	}
	if r, err := st.LoadRetentionState(); err != nil {
		o["ret"] = "ERR:" + c09ErrClass(err)
	} else {
		o["ret"] = fmt.Sprintf("%d/%d/%d", r.LocalRetentionThroughSeq, r.PhysicalRetentionThroughSeq, r.RetainedMaxSeq)
	}
	if c, ok, err := st.LoadCommittedDispatchCursor(c09Cursor); err != nil {
		o["cursor"] = "ERR:" + c09ErrClass(err)
	} else if !ok {
		o["cursor"] = "absent"
	} else {
		o["cursor"] = strconv.FormatUint(c, 10)
	}
	if h, err := st.LoadHistory(); errors.Is(err, channel.ErrEmptyState) {
		o["hist"] = ""
	} else if err != nil {
		o["hist"] = "ERR:" + c09ErrClass(err)
	} else {
		hs := make([]string, len(h))
		for i, p := range h {
			hs[i] = fmt.Sprintf("%d@%d", p.Epoch, p.StartOffset)
		}
		o["hist"] = strings.Join(hs, ",")
	}
	if msgs, err := st.ListMessagesBySeq(ctx, 1, 0, 0, false); err != nil {
		o["rows"] = "ERR:" + c09ErrClass(err)
	} else {
		seqs := make([]uint64, len(msgs))
		for i, m := range msgs {
			seqs[i] = m.MessageSeq
			o["row/"+strconv.FormatUint(m.MessageSeq, 10)] = fmt.Sprintf("%d|id=%d|from=%q|cno=%q|len=%d|fnv=%x|ts=%d|t=%d|so=%v|set=%d|ch=%s/%d",
				m.MessageSeq, m.MessageID, m.FromUID, m.ClientMsgNo, len(m.Payload), c09FNV(m.Payload), m.ServerTimestampMS, m.Timestamp,
				m.Framer.SyncOnce, uint8(m.Setting), m.ChannelID, m.ChannelType)
		}
		o["rows"] = c09SeqList(seqs)
	}
	for _, m := range u.msgs {
		k := "id/" + strconv.FormatUint(m.ID, 10)
		if got, ok, err := st.GetMessageByMessageID(m.ID); err != nil {
			o[k] = "ERR:" + c09ErrClass(err)
		} else if !ok {
			o[k] = "none"
		} else {
			o[k] = strconv.FormatUint(got.MessageSeq, 10)
		}
	}
	for key := range u.idem {
		k := "idem/" + key[0] + "|" + key[1]
		e, _, ok, err := st.LookupIdempotency(channel.IdempotencyKey{ChannelID: ch.ID, FromUID: key[0], ClientMsgNo: key[1]})
		if err != nil {
			o[k] = "ERR:" + c09ErrClass(err)
		} else if !ok {
			o[k] = "none"
		} else {
			o[k] = fmt.Sprintf("%d:%d", e.MessageSeq, e.MessageID)
		}
	}
	for from := range u.froms {
		k := "sender/" + from
		if seq, ok, err := st.GetLastSenderMessageSeq(ctx, from, ^uint64(0)); err != nil {
			o[k] = "ERR:" + c09ErrClass(err)
		} else if !ok {
			o[k] = "none"
		} else {
			o[k] = strconv.FormatUint(seq, 10)
		}
	}
	for no := range u.cnos {
		k := "cno/" + no
		if msgs, _, _, err := st.ListMessagesByClientMsgNo(no, 0, 512); err != nil {
			o[k] = "ERR:" + c09ErrClass(err)
		} else {
			parts := make([]string, len(msgs))
			for i, m := range msgs {
				parts[i] = strconv.FormatUint(m.MessageSeq, 10)
			}
			o[k] = strings.Join(parts, ",")
		}
	}
	if keys, err := s.eng.ListChannelKeys(); err != nil {
		o["catalog"] = "ERR:" + c09ErrClass(err)
	} else {
		found := false
		for _, k := range keys {
			if k == ch.Key {
				found = true
			}
		}
		o["catalog"] = strconv.FormatBool(found)
	}
	if p, err := st.LoadSnapshotPayload(); err != nil {
		o["snap"] = "ERR:" + c09ErrClass(err)
	} else {
		o["snap"] = c09SnapString(p)
	}
	if ch.Exact {
		if f, err := st.LoadDurableFrontier(ctx); err != nil {
			o["frontier"] = "ERR:" + c09ErrClass(err)
		} else {
			o["frontier"] = fmt.Sprintf("leo=%d hw=%d man=[%s] tail=[%s]", f.LEO, f.Committed, c09ManString(f.Manifest), c09EntString(f.TailIdentity))
		}
		idx := make([]uint64, 0, u.maxIdx+2)
		for i := uint64(1); i <= u.maxIdx+2; i++ {
			idx = append(idx, i)
		}
		if rec, err := st.LoadDurableRecovery(ctx, idx); err != nil {
			o["recovery"] = "ERR:" + c09ErrClass(err)
		} else {
			for _, p := range rec.Entries {
				k := "ent/" + strconv.FormatUint(p.Index, 10)
				if p.Present {
					o[k] = c09EntString(p.Identity)
				} else {
					o[k] = "absent"
				}
			}
		}
		for cmd := range u.props {
			k := "prop/" + c09Cmd(cmd)
			p, ok, err := st.LoadDurableProposal(ctx, cmd, 100000, 1<<30)
			if err != nil {
				o[k] = "ERR:" + c09ErrClass(err)
			} else if !ok {
				o[k] = "none"
			} else {
				ids := make([]string, len(p.Records))
				for i, r := range p.Records {
					ids[i] = strconv.FormatUint(r.ID, 10)
				}
				o[k] = fmt.Sprintf("[%s] ids=%s", c09ManString(p.Manifest), strings.Join(ids, ","))
			}
		}
	}
	return o
}

// ---------------------------------------------------------------------------
// Executing steps against a store. Every function returns a non-empty string
// when the call's own result contradicts the model's expectation (a functional
// divergence of the un-crashed store; reported separately from crash audits).

func c09Frontier(s *c09State) message.DurableFrontier {
	f := message.DurableFrontier{LEO: s.LEO, Committed: s.hw()}
	if s.LEO > 0 {
		if n := len(s.Props); n > 0 {
			f.Manifest = s.Props[n-1].Man
		}
		f.TailIdentity = s.Ents[s.LEO]
	}
	return f
}

func c09Records(ch *c09Chan, msgs []*c09Msg, base uint64, withIndex bool) []channel.Record {
	out := make([]channel.Record, len(msgs))
	for i, m := range msgs {
		var idx uint64
		if withIndex {
			idx = base + uint64(i) + 1
		}
		out[i] = c09Record(ch, m, idx, 1)
	}
	return out
}

func c09AppendItems(s *c09Store, ch *c09Chan, st *c09Step) []message.AppendBatchItem {
	store := s.st[ch.Idx]
	switch st.Kind {
	case "xappend", "xreplay", "xbad":
		items := make([]message.AppendBatchItem, len(st.Props))
		for i, p := range st.Props {
			items[i] = message.AppendBatchItem{Store: store, Records: p.records(ch), Committed: st.Committed[i],
				Class: message.AppendBatchClass(st.Class), ServerAllocatedMessageIDs: st.SrvAlloc,
				ExactBaseOffset: true, ExpectedBaseOffset: p.Man.BaseOffset, Proposal: p.Man}
		}
		return items
	case "append":
		return []message.AppendBatchItem{{Store: store, Records: c09Records(ch, st.Msgs, st.pre.LEO, false),
			Class: message.AppendBatchClass(st.Class), ServerAllocatedMessageIDs: st.SrvAlloc}}
	}
	panic("c09: not an append step: " + st.Kind)
}

func c09CheckAppendResults(st *c09Step, res []message.AppendBatchResult) string {
	for i, r := range res {
		switch st.Kind {
		case "xappend":
			p := st.Props[i]
			if r.Err != nil || r.Outcome != quorumlog.AppendOutcomeDurable || r.BaseOffset != p.Man.BaseOffset || r.LastOffset != p.Man.LastOffset {
				return fmt.Sprintf("xappend item %d: %+v", i, r)
			}
		case "xreplay":
			p := st.Props[i]
			if r.Err != nil || r.Outcome != quorumlog.AppendOutcomeAlreadyDurable || r.BaseOffset != p.Man.BaseOffset || r.LastOffset != p.Man.LastOffset {
				return fmt.Sprintf("xreplay item %d: %+v", i, r)
			}
		case "xbad":
			if r.Err == nil || r.Outcome != quorumlog.AppendOutcomeConflict {
				return fmt.Sprintf("xbad(%s) item %d accepted: %+v", st.Fail, i, r)
			}
			if st.Fail == "gap" && r.NeedFrom != st.pre.LEO+1 {
				return fmt.Sprintf("xbad gap NeedFrom=%d want %d", r.NeedFrom, st.pre.LEO+1)
			}
		case "append":
			if r.Err != nil || r.Outcome != quorumlog.AppendOutcomeDurable || r.BaseOffset != st.pre.LEO || r.LastOffset != st.pre.LEO+uint64(len(st.Msgs)) {
				return fmt.Sprintf("append item: %+v", r)
			}
		}
	}
	return ""
}

func c09ApplyReq(ch *c09Chan, st *c09Step) channel.ApplyFetchStoreRequest {
	req := channel.ApplyFetchStoreRequest{PreviousCommittedHW: st.pre.hw(), Records: c09Records(ch, st.Msgs, st.pre.LEO, st.Mode%2 == 1)}
	if st.CkptFull != nil {
		req.Checkpoint = &channel.Checkpoint{Epoch: st.CkptFull.Epoch, LogStartOffset: st.CkptFull.LogStart, HW: st.CkptFull.HW}
	}
	if st.CkptHW != nil {
		hw := *st.CkptHW
		req.CheckpointHW = &hw
	}
	return req
}

// c09ExecOp executes one generated operation: either a single step, or several
// steps of one batch family (one per channel) through the cross-channel batch
// entry point.
func c09ExecOp(s *c09Store, chans []*c09Chan, op []*c09Step) string {
	ctx := context.Background()
	if len(op) > 1 || (len(op) == 1 && op[0].Mode == c09ModeBatch && op[0].batchable != "") {
		switch op[0].batchable {
		case "append":
			var items []message.AppendBatchItem
			var owner []int
			for oi, st := range op {
				its := c09AppendItems(s, chans[st.Chan], st)
				for range its {
					owner = append(owner, oi)
				}
				items = append(items, its...)
			}
			res := message.StoreAppendBatch(ctx, items)
			pos := 0
			for oi, st := range op {
				n := 0
				for pos+n < len(owner) && owner[pos+n] == oi {
					n++
				}
				if d := c09CheckAppendResults(st, res[pos:pos+n]); d != "" {
					return d
				}
				pos += n
			}
			return ""
		case "apply":
			items := make([]message.ApplyFetchBatchItem, len(op))
			for i, st := range op {
				items[i] = message.ApplyFetchBatchItem{Store: s.st[st.Chan], Request: c09ApplyReq(chans[st.Chan], st)}
			}
			res := message.StoreApplyFetchTrustedBatch(ctx, items)
			for i, st := range op {
				if res[i].Err != nil || res[i].LEO != st.pre.LEO+uint64(len(st.Msgs)) {
					return fmt.Sprintf("apply batch item %d: %+v", i, res[i])
				}
			}
			return ""
		case "ckpthw":
			items := make([]message.CheckpointHWBatchItem, len(op))
			for i, st := range op {
				items[i] = message.CheckpointHWBatchItem{Store: s.st[st.Chan], HW: st.HW}
			}
			res := message.StoreCheckpointHWMonotonicBatch(ctx, items)
			for i := range op {
				if res[i].Err != nil {
					return fmt.Sprintf("ckpthw batch item %d: %v", i, res[i].Err)
				}
			}
			return ""
		}
		panic("c09: unbatchable op " + op[0].Kind)
	}
	st := op[0]
	ch := chans[st.Chan]
	if ch.Typed {
		return c09ExecTyped(s, ch, st)
	}
	store := s.st[st.Chan]
	wantErr := st.Fail != ""
	check := func(err error) string {
		if (err != nil) != wantErr {
			return fmt.Sprintf("%s: err=%v wantErr=%v", st.desc(), err, wantErr)
		}
		return ""
	}
	switch st.Kind {
	case "xappend", "xreplay", "xbad":
		return c09CheckAppendResults(st, message.StoreAppendBatch(ctx, c09AppendItems(s, ch, st)))
	case "append":
		recs := c09Records(ch, st.Msgs, st.pre.LEO, false)
		var base uint64
		var err error
		switch st.Mode {
		case 0:
			base, err = store.Append(recs)
		case 1:
			base, err = store.AppendServerAllocated(recs)
		case 2:
			base, err = store.AppendTrusted(recs)
		default:
			return c09CheckAppendResults(st, message.StoreAppendBatch(ctx, c09AppendItems(s, ch, st)))
		}
		if d := check(err); d != "" {
			return d
		}
		if err == nil && base != st.pre.LEO {
			return fmt.Sprintf("append base=%d want %d", base, st.pre.LEO)
		}
	case "apply":
		req := c09ApplyReq(ch, st)
		var leo uint64
		var err error
		var pt *channel.EpochPoint
		if st.Point != nil {
			pt = &channel.EpochPoint{Epoch: st.Point.Epoch, StartOffset: st.Point.Start}
		}
		switch {
		case pt != nil && st.Mode < 2:
			leo, err = store.StoreApplyFetchWithEpoch(req, pt)
		case pt != nil:
			leo, err = store.StoreApplyFetchTrustedWithEpoch(req, pt)
		case st.Mode < 2:
			leo, err = store.StoreApplyFetch(req)
		default:
			leo, err = store.StoreApplyFetchTrusted(req)
		}
		if d := check(err); d != "" {
			return d
		}
		if err == nil && leo != st.pre.LEO+uint64(len(st.Msgs)) {
			return fmt.Sprintf("apply leo=%d want %d", leo, st.pre.LEO+uint64(len(st.Msgs)))
		}
	case "ckpthw":
		return check(store.StoreCheckpointHWMonotonic(ctx, st.HW))
	case "ckptfull":
		ck := channel.Checkpoint{Epoch: st.CkptFull.Epoch, LogStartOffset: st.CkptFull.LogStart, HW: st.CkptFull.HW}
		if st.Mode == 1 && st.Fail == "" {
			return check(store.StoreCheckpoint(ck))
		}
		return check(store.StoreCheckpointMonotonic(ctx, ck, st.pre.LEO, st.pre.LEO))
	case "truncate":
		if st.WithHist {
			return check(store.TruncateLogAndHistory(ctx, st.To))
		}
		return check(store.Truncate(st.To))
	case "adopt":
		return check(store.AdoptRetentionBoundary(ctx, st.Through, c09Cursor))
	case "trim":
		res, err := store.TrimMessagesThroughLimit(ctx, st.Through, message.RetentionTrimOptions{MaxMessages: st.MaxMsgs, MaxBytes: st.MaxBytes})
		if d := check(err); d != "" {
			return d
		}
		if err == nil {
			del, more := c09TrimPlan(st.pre, st.Through, st.MaxMsgs, st.MaxBytes)
			var through uint64
			if len(del) > 0 {
				through = del[len(del)-1]
			}
			if res.Deleted != len(del) || res.More != more || res.DeletedThroughSeq != through {
				return fmt.Sprintf("trim result %+v want deleted=%d through=%d more=%v", res, len(del), through, more)
			}
		}
	case "replace":
		req := message.ReplaceRecoverySuffixRequest{Expected: c09Frontier(st.pre), KeepThrough: st.Keep, Committed: st.NewHW}
		final := st.Keep
		for _, p := range st.Props {
			req.Proposals = append(req.Proposals, message.RecoveryProposal{Manifest: p.Man, Records: p.records(ch)})
			final = p.Man.LastOffset
		}
		res, err := store.ReplaceRecoverySuffix(ctx, req)
		if d := check(err); d != "" {
			return d
		}
		if err == nil && (res.Outcome != quorumlog.AppendOutcomeDurable || res.LastOffset != final) {
			return fmt.Sprintf("replace result %+v want last=%d", res, final)
		}
	case "epoch":
		return check(store.BeginEpoch(ctx, channel.EpochPoint{Epoch: st.Point.Epoch, StartOffset: st.Point.Start}, st.pre.LEO))
	case "snapshot":
		leo, err := store.InstallSnapshotAtomically(ctx, channel.Snapshot{ChannelKey: ch.Key, Epoch: st.Snap.Epoch, EndOffset: st.Snap.End, Payload: st.Snap.Payload},
			channel.Checkpoint{Epoch: st.Snap.Epoch, LogStartOffset: st.Snap.End, HW: st.Snap.End}, channel.EpochPoint{Epoch: st.Point.Epoch, StartOffset: st.Point.Start})
		if d := check(err); d != "" {
			return d
		}
		if leo != st.pre.LEO {
			return fmt.Sprintf("snapshot leo=%d want %d", leo, st.pre.LEO)
		}
	case "cursor":
		return check(store.AdvanceCommittedDispatchCursorDurable(c09Cursor, st.CursorSeq))
	default:
		panic("c09: exec unknown kind " + st.Kind)
	}
	return ""
}

const c09ModeBatch = 9

// ---------------------------------------------------------------------------
// Typed flavour (MessageDB.Channel -> ChannelLog).

func c09ObserveTyped(s *c09Store, ch *c09Chan, u *c09Universe) map[string]string {
	ctx := context.Background()
	l := s.logs[ch.Idx]
	o := make(map[string]string, 8+len(u.msgs)*3)
	if leo, err := l.LEO(ctx); err != nil {
		o["leo"] = "ERR:" + c09ErrClass(err)
	} else {
		o["leo"] = strconv.FormatUint(leo, 10)
	}
	if ck, ok, err := l.LoadCheckpoint(ctx); err != nil {
		o["ckpt"] = "ERR:" + c09ErrClass(err)
	} else if !ok {
		o["ckpt"] = "absent"
	} else {
		o["ckpt"] = fmt.Sprintf("%d/%d/%d", ck.Epoch, ck.LogStartOffset, ck.HW)
	}
	if r, _, err := l.LoadRetentionState(ctx); err != nil {
		o["ret"] = "ERR:" + c09ErrClass(err)
	} else {
		o["ret"] = fmt.Sprintf("%d/%d/%d", r.LocalRetentionThroughSeq, r.PhysicalRetentionThroughSeq, r.RetainedMaxSeq)
	}
	o["cursor"] = "absent" // no typed cursor API; the typed flavour never writes one
	if h, _, err := l.LoadHistory(ctx); err != nil {
		o["hist"] = "ERR:" + c09ErrClass(err)
	} else {
		hs := make([]string, len(h))
		for i, p := range h {
			hs[i] = fmt.Sprintf("%d@%d", p.Epoch, p.StartOffset)
		}
		o["hist"] = strings.Join(hs, ",")
	}
	if msgs, err := l.Read(ctx, 1, message.ReadOptions{}); err != nil {
		o["rows"] = "ERR:" + c09ErrClass(err)
	} else {
		seqs := make([]uint64, len(msgs))
		for i, m := range msgs {
			seqs[i] = m.MessageSeq
			o["row/"+strconv.FormatUint(m.MessageSeq, 10)] = fmt.Sprintf("%d|id=%d|from=%q|cno=%q|len=%d|fnv=%x|ts=%d|t=%d|so=%v|set=%d|ch=%s/%d",
				m.MessageSeq, m.MessageID, m.FromUID, m.ClientMsgNo, len(m.Payload), c09FNV(m.Payload), m.ServerTimestampMS, 0, false, 0, m.ChannelID, m.ChannelType)
		}
		o["rows"] = c09SeqList(seqs)
	}
	for _, m := range u.msgs {
		k := "id/" + strconv.FormatUint(m.ID, 10)
		if got, ok, err := l.GetByMessageID(ctx, m.ID); err != nil {
			o[k] = "ERR:" + c09ErrClass(err)
		} else if !ok {
			o[k] = "none"
		} else {
			o[k] = strconv.FormatUint(got.MessageSeq, 10)
		}
	}
	for key := range u.idem {
		k := "idem/" + key[0] + "|" + key[1]
		if hit, ok, err := l.LookupIdempotency(ctx, message.IdempotencyKey{FromUID: key[0], ClientMsgNo: key[1]}); err != nil {
			o[k] = "ERR:" + c09ErrClass(err)
		} else if !ok {
			o[k] = "none"
		} else {
			o[k] = fmt.Sprintf("%d:%d", hit.MessageSeq, hit.MessageID)
		}
	}
	for from := range u.froms {
		k := "sender/" + from
		if seq, ok, err := l.GetLastSenderMessageSeq(ctx, from, ^uint64(0)); err != nil {
			o[k] = "ERR:" + c09ErrClass(err)
		} else if !ok {
			o[k] = "none"
		} else {
			o[k] = strconv.FormatUint(seq, 10)
		}
	}
	for no := range u.cnos {
		k := "cno/" + no
		if page, err := l.ListByClientMsgNo(ctx, no, 0, 512); err != nil {
			o[k] = "ERR:" + c09ErrClass(err)
		} else {
			parts := make([]string, len(page.Messages))
			for i, m := range page.Messages {
				parts[i] = strconv.FormatUint(m.MessageSeq, 10)
			}
			o[k] = strings.Join(parts, ",")
		}
	}
	if entries, err := s.tdb.ListChannels(ctx); err != nil {
		o["catalog"] = "ERR:" + c09ErrClass(err)
	} else {
		found := false
		for _, e := range entries {
			if string(e.Key) == string(ch.Key) {
				found = true
			}
		}
		o["catalog"] = strconv.FormatBool(found)
	}
	if p, ok, err := l.LoadSnapshotPayload(ctx); err != nil {
		o["snap"] = "ERR:" + c09ErrClass(err)
	} else if !ok {
		o["snap"] = "absent"
	} else {
		o["snap"] = c09SnapString(p)
	}
	return o
}

func c09ExecTyped(s *c09Store, ch *c09Chan, st *c09Step) string {
	ctx := context.Background()
	l := s.logs[ch.Idx]
	wantErr := st.Fail != ""
	check := func(err error) string {
		if (err != nil) != wantErr {
			return fmt.Sprintf("%s: err=%v wantErr=%v", st.desc(), err, wantErr)
		}
		return ""
	}
	recs := make([]message.Record, len(st.Msgs))
	for i, m := range st.Msgs {
		recs[i] = message.Record{ID: m.ID, ClientMsgNo: m.ClientNo, FromUID: m.From, Payload: m.Payload, ServerTimestampMS: m.TS}
	}
	n := uint64(len(st.Msgs))
	checkRes := func(res message.AppendResult) string {
		want := message.AppendResult{}
		if n > 0 {
			want = message.AppendResult{BaseSeq: st.pre.LEO + 1, LastSeq: st.pre.LEO + n, Count: int(n)}
		}
		if res != want {
			return fmt.Sprintf("%s: result %+v want %+v", st.desc(), res, want)
		}
		return ""
	}
	switch st.Kind {
	case "append":
		opts := message.AppendOptions{Mode: message.AppendMode(st.Mode)}
		if st.SrvAlloc {
			opts.BaseSeq = st.pre.LEO + 1
		}
		res, err := l.Append(ctx, recs, opts)
		if d := check(err); d != "" {
			return d
		}
		if err == nil {
			return checkRes(res)
		}
	case "apply":
		req := message.ApplyFetchRequest{Records: recs}
		if st.Mode%2 == 1 {
			req.BaseSeq = st.pre.LEO + 1
		}
		if st.CkptFull != nil {
			req.Checkpoint = &message.Checkpoint{Epoch: st.CkptFull.Epoch, LogStartOffset: st.CkptFull.LogStart, HW: st.CkptFull.HW}
		}
		if st.Point != nil {
			req.EpochPoint = &message.EpochPoint{Epoch: st.Point.Epoch, StartOffset: st.Point.Start}
		}
		res, err := l.ApplyFetch(ctx, req)
		if d := check(err); d != "" {
			return d
		}
		if err == nil {
			return checkRes(res)
		}
	case "ckptfull":
		ck := message.Checkpoint{Epoch: st.CkptFull.Epoch, LogStartOffset: st.CkptFull.LogStart, HW: st.CkptFull.HW}
		if st.Mode == 1 && st.Fail == "" {
			return check(l.StoreCheckpoint(ctx, ck))
		}
		return check(l.StoreCheckpointMonotonic(ctx, ck, st.pre.LEO, st.pre.LEO))
	case "truncate":
		return check(l.TruncateFrom(ctx, st.To+1))
	case "trim":
		res, err := l.TrimPrefixThroughLimit(ctx, st.Through, message.RetentionTrimOptions{MaxMessages: st.MaxMsgs, MaxBytes: st.MaxBytes})
		if d := check(err); d != "" {
			return d
		}
		del, more := c09TrimPlan(st.pre, st.Through, st.MaxMsgs, st.MaxBytes)
		var through uint64
		if len(del) > 0 {
			through = del[len(del)-1]
		}
		if res.Deleted != len(del) || res.More != more || res.DeletedThroughSeq != through {
			return fmt.Sprintf("trim result %+v want deleted=%d through=%d more=%v", res, len(del), through, more)
		}
	case "epoch":
		return check(l.AppendHistory(ctx, message.EpochPoint{Epoch: st.Point.Epoch, StartOffset: st.Point.Start}))
	case "snapshot":
		end, err := l.InstallSnapshot(ctx, message.Snapshot{Epoch: st.Snap.Epoch, EndOffset: st.Snap.End, Payload: st.Snap.Payload},
			message.Checkpoint{Epoch: st.Snap.Epoch, LogStartOffset: st.Snap.End, HW: st.Snap.End}, message.EpochPoint{Epoch: st.Point.Epoch, StartOffset: st.Point.Start})
		if d := check(err); d != "" {
			return d
		}
		if end != st.Snap.End {
			return fmt.Sprintf("snapshot end=%d want %d", end, st.Snap.End)
		}
	default:
		panic("c09: typed exec unknown kind " + st.Kind)
	}
	return ""
}
