//go:build verif

package c09

import (
	"context"
	"fmt"
	"math/rand/v2"
	"os"
	"os/exec"
	"path/filepath"
	"strconv"
	"strings"
	"sync"
	"sync/atomic"
	"syscall"
	"testing"
	"time"

	ch "github.com/WuKongIM/WuKongIM/pkg/channel"
	channelstore "github.com/WuKongIM/WuKongIM/pkg/channel/store"
	channel "github.com/WuKongIM/WuKongIM/pkg/db/message/channelcompat"
	"github.com/WuKongIM/WuKongIM/pkg/verifkit"
	"github.com/WuKongIM/WuKongIM/pkg/wklog"
	"github.com/cockroachdb/pebble/v2/vfs"
	"github.com/cockroachdb/pebble/v2/vfs/errorfs"
)

// ---------------------------------------------------------------------------
// The recovered image seen through pkg/channel/store (MessageDB factory), the
// surface the channel runtime loads its initial state from.

func (h *c09Hist) adapterCheck(root string, cutInfo map[string]any, matched []int, stats *c09AuditStats) {
	ctx := context.Background()
	f := channelstore.NewMessageDBFactoryWithOptions(root+"/db", channelstore.MessageDBFactoryOptions{Logger: wklog.NewNop()})
	defer f.Close()
	stats.add("audit.reopened_through_channel_store_factory", 1)
	for c, chn := range h.plan.chans {
		g := h.plan.gens[c]
		s := g.states[matched[c]]
		st, err := f.ChannelStore(ch.ChannelKey(chn.Key), ch.ChannelID{ID: chn.ID.ID, Type: chn.ID.Type})
		if err != nil {
			h.violation("reopen-failed:channel-store-factory", map[string]any{"cut": cutInfo, "chan": c, "err": err.Error()})
			return
		}
		init, err := st.Load(ctx)
		wantHW := min(s.hw(), s.LEO)
		if err != nil || init.LEO != s.LEO || init.HW != wantHW || init.CheckpointHW != wantHW {
			h.violation("factory-load-mismatch", map[string]any{"cut": cutInfo, "chan": c, "got": fmt.Sprintf("%+v err=%v", init, err), "want_leo": s.LEO, "want_hw": wantHW})
		}
		if chn.Exact {
			if l, ok := st.(channelstore.ExactStateLoader); ok {
				ex, err := l.LoadExactState(ctx)
				want := c09Frontier(s)
				if err != nil || ex.LEO != want.LEO || ex.HW != want.Committed || ex.Manifest != want.Manifest || ex.TailIdentity != want.TailIdentity {
					h.violation("factory-exact-state-mismatch", map[string]any{"cut": cutInfo, "chan": c, "err": fmt.Sprint(err),
						"got":  fmt.Sprintf("leo=%d hw=%d man=[%s] tail=[%s]", ex.LEO, ex.HW, c09ManString(ex.Manifest), c09EntString(ex.TailIdentity)),
						"want": fmt.Sprintf("leo=%d hw=%d man=[%s] tail=[%s]", want.LEO, want.Committed, c09ManString(want.Manifest), c09EntString(want.TailIdentity))})
				}
			}
		}
		st.Close()
	}
}

// ---------------------------------------------------------------------------
// Restore-cleanup paging: MessageDBFactory.DiscardRestoreChannels on a channel
// holding more than one 1024-row page. The cleanup is deliberately multi-batch
// (pages of rows together with their index rows, then one batch for all system
// state and the catalog entry) and is only used before activation, so the
// admissible images are exactly its sub-steps: untouched, first k pages gone,
// all rows gone with system state intact, everything gone. The "committed <=
// log end" clause is knowingly suspended between the last page and the final
// batch (documented cleanup-before-retry), so it is not asserted here.

type c09DCut struct {
	fs          *vfs.MemFS
	pct         int
	ackedBefore bool
	begunAfter  bool
	event       string
	lossy       bool
}

func c09DiscardScenario(r *verifkit.Run, idx int, stats *c09AuditStats) {
	rng := r.Rand(17, uint64(idx))
	chn := &c09Chan{Idx: 0, Key: channel.ChannelKey(fmt.Sprintf("2:rs%d", idx)), ID: channel.ChannelID{ID: fmt.Sprintf("rs%d", idx), Type: 2}}
	chans := []*c09Chan{chn}
	g := c09NewGen(rand.New(rand.NewPCG(rng.Uint64(), rng.Uint64())), chn)
	pages := 2
	if r.Thorough() && idx%3 == 0 {
		pages = 3
	}
	total := 1024*(pages-1) + 1 + rng.IntN(300)
	for int(g.cur().LEO) < total {
		n := min(256, total-int(g.cur().LEO))
		st := &c09Step{Kind: "append", Mode: 2, batchable: "append"}
		for i := 0; i < n; i++ {
			m := g.newMsg()
			if len(m.Payload) > 40 {
				m.Payload = m.Payload[:40]
			}
			st.Msgs = append(st.Msgs, m)
		}
		g.commit(st)
	}
	g.commit(g.genCkptHW(g.cur(), 0))
	if rng.IntN(2) == 0 {
		g.commit(g.genEpoch(g.cur()))
	}
	s0 := g.cur()
	// admissible sub-states
	var subs []*c09State
	var names []string
	subs, names = append(subs, s0), append(names, "untouched")
	for p := 1; p < pages; p++ {
		s := s0.clone()
		for seq := range s.Rows {
			if seq <= uint64(1024*p) {
				delete(s.Rows, seq)
			}
		}
		subs, names = append(subs, s), append(names, fmt.Sprintf("pages-gone-%d", p))
	}
	sAll := s0.clone()
	sAll.Rows = map[uint64]*c09Msg{}
	sAll.LEO = 0
	subs, names = append(subs, sAll), append(names, "rows-gone")
	subs, names = append(subs, c09NewState()), append(names, "discarded")
	exp := make([]map[string]string, len(subs))
	for i, s := range subs {
		exp[i] = c09Expect(chn, s, g.u)
	}
	bound := []channelstore.RestoreChannelBoundary{{ID: ch.ChannelID{ID: chn.ID.ID, Type: chn.ID.Type}}}
	fail := func(sig string, w map[string]any) {
		w["case"] = fmt.Sprintf("discard-%d", idx)
		r.Count("violations."+sig, 1)
		c09ViolMu.Lock()
		r.BeginCase(100000+idx, fmt.Sprintf("restore-discard rows=%d pages=%d", total, pages))
		r.Violation(sig, w)
		c09ViolMu.Unlock()
	}

	// reference: raw keyspace before and after on a never-crashed store
	build := func(root string) bool {
		s, err := c09OpenStore(root, chans)
		if err != nil {
			r.Inconclusive(fmt.Sprintf("discard scenario open: %v", err))
			return false
		}
		defer s.close()
		for _, st := range g.steps {
			if d := c09ExecOp(s, chans, c09Op{st}); d != "" {
				r.Inconclusive("discard scenario build diverged: " + d)
				return false
			}
		}
		return true
	}
	refMem := vfs.NewCrashableMem()
	refRoot := fmt.Sprintf("d%dr", idx)
	c09TheMux.register(refRoot, refMem)
	defer c09TheMux.unregister(refRoot)
	dumpRng := rand.New(rand.NewPCG(3, 4))
	if !build(refRoot) {
		return
	}
	before, err := c09DumpOf(refMem, refRoot+"d", dumpRng)
	if err != nil {
		r.Inconclusive(fmt.Sprintf("discard scenario dump: %v", err))
		return
	}
	{
		f := channelstore.NewMessageDBFactoryWithOptions(refRoot+"/db", channelstore.MessageDBFactoryOptions{Logger: wklog.NewNop()})
		err := f.DiscardRestoreChannels(context.Background(), bound)
		f.Close()
		if err != nil {
			r.Inconclusive(fmt.Sprintf("discard scenario reference discard: %v", err))
			return
		}
	}
	after, err := c09DumpOf(refMem, refRoot+"d", dumpRng)
	if err != nil {
		r.Inconclusive(fmt.Sprintf("discard scenario dump: %v", err))
		return
	}
	if s, err := c09OpenStore(refRoot, chans); err != nil {
		r.Inconclusive(fmt.Sprintf("discard scenario reopen: %v", err))
		return
	} else {
		d := c09Diff(c09Observe(s, chn, g.u), exp[len(exp)-1])
		s.close()
		if len(d) > 0 {
			r.Inconclusive("model-divergence(discard final state): " + strings.Join(d[:min(len(d), 6)], " ; "))
			return
		}
	}

	// live run: an image before every filesystem write event of the discard
	mem := vfs.NewCrashableMem()
	root := fmt.Sprintf("d%dL", idx)
	var phase atomic.Int32 // 0 building, 1 discard begun, 2 discard acknowledged
	var mu sync.Mutex
	var fsMu sync.RWMutex
	var cuts []*c09DCut
	cutRng := rand.New(rand.NewPCG(rng.Uint64(), rng.Uint64()))
	take := func(event string) {
		mu.Lock()
		defer mu.Unlock()
		acked := phase.Load() == 2
		full := c09Clone(mem, &fsMu, vfs.CrashCloneCfg{UnsyncedDataPercent: 100, RNG: cutRng})
		lossyPct := 0
		if cutRng.IntN(3) == 0 {
			lossyPct = 1 + cutRng.IntN(99)
		}
		lossy := c09Clone(mem, &fsMu, vfs.CrashCloneCfg{UnsyncedDataPercent: lossyPct, RNG: cutRng})
		begun := phase.Load() >= 1
		ff, fb := c09FSSig(full, "db")
		lf, lb := c09FSSig(lossy, "db")
		cuts = append(cuts, &c09DCut{fs: full, pct: 100, ackedBefore: acked, begunAfter: begun, event: event},
			&c09DCut{fs: lossy, pct: lossyPct, ackedBefore: acked, begunAfter: begun, event: event, lossy: ff != lf || fb != lb})
	}
	c09TheMux.register(root, errorfs.Wrap(c09Guard{FS: mem, mu: &fsMu}, errorfs.InjectorFunc(func(op errorfs.Op) error {
		if op.Kind.ReadOrWrite() == errorfs.OpIsWrite && phase.Load() == 1 {
			take(c09OpNames[op.Kind] + ":" + c09FileClass(op.Path))
		}
		return nil
	})))
	defer c09TheMux.unregister(root)
	if !build(root) {
		return
	}
	f := channelstore.NewMessageDBFactoryWithOptions(root+"/db", channelstore.MessageDBFactoryOptions{Logger: wklog.NewNop()})
	take("before")
	phase.Store(1)
	err = f.DiscardRestoreChannels(context.Background(), bound)
	if err != nil {
		phase.Store(0)
		f.Close()
		r.Inconclusive(fmt.Sprintf("discard scenario live discard: %v", err))
		return
	}
	phase.Store(2)
	take("after")
	phase.Store(0)
	f.Close()
	stats.add("discard.scenarios", 1)
	stats.add("discard.rows", total)

	for n, cut := range cuts {
		r.Eval(1)
		croot := fmt.Sprintf("d%dc%d", idx, n)
		c09TheMux.register(croot, cut.fs)
		info := map[string]any{"pct": cut.pct, "event": cut.event, "discard_acked_before_image": cut.ackedBefore, "discard_begun": cut.begunAfter, "rows": total}
		func() {
			defer c09TheMux.unregister(croot)
			raw, err := c09RawDump(croot)
			if err != nil {
				if cut.pct == 0 || cut.pct == 100 {
					fail("reopen-failed:engine", map[string]any{"cut": info, "err": err.Error()})
				}
				return
			}
			s, err := c09OpenStore(croot, chans)
			if err != nil {
				if cut.pct == 0 || cut.pct == 100 {
					fail("reopen-failed:open", map[string]any{"cut": info, "err": err.Error()})
				}
				return
			}
			defer s.close()
			obs := c09Observe(s, chn, g.u)
			lo, hi := 0, len(subs)-1
			if cut.ackedBefore {
				lo = hi
			} else if !cut.begunAfter {
				hi = 0
			}
			m := -1
			for k := hi; k >= lo; k-- {
				if c09MapsEqual(obs, exp[k]) {
					m = k
					break
				}
			}
			if m < 0 {
				best, bd := lo, c09Diff(obs, exp[lo])
				for k := lo + 1; k <= hi; k++ {
					if d := c09Diff(obs, exp[k]); len(d) < len(bd) {
						best, bd = k, d
					}
				}
				sig := "torn-state:restore-discard"
				if cut.ackedBefore {
					sig = "acknowledged-mutation-lost:restore-discard"
				}
				fail(sig, map[string]any{"cut": info, "closest_sub_step": names[best], "clauses_differing": c09DiffKind(bd), "diff": bd[:min(len(bd), 14)], "diff_count": len(bd)})
				return
			}
			stats.add("discard.image_"+names[m], 1)
			var want map[string]string
			if m == 0 {
				want = before
			} else if m == len(subs)-1 {
				want = after
			}
			if want != nil {
				if !c09MapsEqual(raw, want) {
					var d []string
					for k, v := range raw {
						if w, ok := want[k]; !ok {
							d = append(d, "extra key "+c09Hex(k))
						} else if w != v {
							d = append(d, "value differs at "+c09Hex(k))
						}
					}
					for k := range want {
						if _, ok := raw[k]; !ok {
							d = append(d, "missing key "+c09Hex(k))
						}
					}
					// the engine-global index marker may legitimately be missing only in an image of the very first open
					fail("raw-keyspace-not-a-prefix:restore-discard", map[string]any{"cut": info, "sub_step": names[m], "raw_diff": d[:min(len(d), 12)], "raw_diff_count": len(d)})
					return
				}
				stats.add("audit.raw_keyspace_compared", 1)
			}
			if cut.begunAfter && !cut.ackedBefore || cut.lossy {
				r.Nontrivial(fmt.Sprintf("discard|%s|%s|%s|lossy=%v", names[m], c09PctClass(cut.pct), cut.event, cut.lossy))
			}
		}()
	}
}

// ---------------------------------------------------------------------------
// Second mechanism: process kill on a real directory. A child process (re-exec
// of this test binary) runs a single-issuer history on $VERIF_DISK, journaling
// "B <op>" before and "E <op>" after every storage call; the parent SIGKILLs it
// at PRNG-chosen journal positions, reopens the directory and audits it with
// the same oracle.

const (
	c09ChildDirEnv  = "C09_CHILD_DIR"
	c09ChildCaseEnv = "C09_CHILD_CASE"
)

func c09KillPlan(r *verifkit.Run, i int) *c09Plan {
	if i%4 == 3 {
		p := c09LargeTruncPlan(r.Rand(43, uint64(i)), i%8 == 3)
		p.restart = nil
		return p
	}
	p := c09MakePlan(r.Rand(31, uint64(i)), r.N(22, 30), true)
	p.restart = nil
	return p
}

func TestVerifC09KillChild(t *testing.T) {
	dir := os.Getenv(c09ChildDirEnv)
	if dir == "" {
		t.Skip("child entry point of TestVerifC09Kill")
	}
	idx, _ := strconv.Atoi(os.Getenv(c09ChildCaseEnv))
	os.Unsetenv("VERIF_OUT") // the child reports through its journal only
	r := verifkit.Start(t, "C09", "killchild")
	c09InstallSeam()
	p := c09KillPlan(r, idx)
	c09TheMux.registerDir("kc", dir)
	j, err := os.OpenFile(filepath.Join(dir, "journal"), os.O_CREATE|os.O_WRONLY|os.O_APPEND, 0o644)
	if err != nil {
		t.Fatal(err)
	}
	s, err := c09OpenStore("kc", p.chans)
	if err != nil {
		fmt.Fprintf(j, "OPENFAIL %v\n", err)
		os.Exit(3)
	}
	s.configure(p)
	fmt.Fprintf(j, "READY\n")
	for i, op := range p.issuers[0] {
		fmt.Fprintf(j, "B %d\n", i)
		if d := c09ExecOp(s, p.chans, op); d != "" {
			fmt.Fprintf(j, "DIVERGED %d %s\n", i, strings.ReplaceAll(d, "\n", " "))
			os.Exit(3)
		}
		fmt.Fprintf(j, "E %d\n", i)
	}
	fmt.Fprintf(j, "DONE\n")
	s.close()
}

func c09ReadJournal(path string) (lines []string) {
	b, err := os.ReadFile(path)
	if err != nil {
		return nil
	}
	txt := string(b)
	if i := strings.LastIndexByte(txt, '\n'); i >= 0 {
		txt = txt[:i]
	} else {
		return nil
	}
	return strings.Split(txt, "\n")
}

func TestVerifC09Kill(t *testing.T) {
	r := verifkit.Start(t, "C09", "kill")
	defer r.Finish()
	c09InstallSeam()
	r.SetRule("Case = one single-issuer generated history (same generator as unit crashfs) executed by a child process on a real directory under $VERIF_DISK with real fsync; the parent SIGKILLs the child when its begin/end journal reaches a PRNG-chosen length plus a PRNG busy-wait, reopens the directory through message.Open and runs the same audit (model prefix lastAcked<=j<=lastBegun, raw keyspace differential, continuation). Evaluation = one killed (or completed) run audited. Non-trivial = the kill landed between a step's begin and end journal records; distinct by (channel kind, in-flight step, present/absent).")
	r.Assume("SIGKILL keeps the page cache: this unit judges atomicity of the kill image and recovery on a real filesystem, not fsync placement (that is unit crashfs with 0% images)")
	disk := os.Getenv("VERIF_DISK")
	if disk == "" {
		disk = t.TempDir()
	}
	self := os.Getenv("VERIF_SELF")
	if self == "" {
		self = os.Args[0]
	}
	stats := &c09AuditStats{m: map[string]int{}}
	nPlans := r.N(4, 24)
	kills := r.N(5, 8)
	for i := 0; i < nPlans; i++ {
		if r.Skip(i) {
			continue
		}
		p := c09KillPlan(r, i)
		h := &c09Hist{r: r, idx: i, plan: p, seed: []uint64{uint64(i), 7}}
		r.BeginCase(i, p.desc())
		if !h.reference() {
			continue
		}
		ops := p.issuers[0]
		rng := r.Rand(33, uint64(i))
		contRng := rand.New(rand.NewPCG(uint64(i), 99))
		for k := 0; k < kills; k++ {
			dir, err := os.MkdirTemp(disk, fmt.Sprintf("c09k%d_", i))
			if err != nil {
				r.Inconclusive("mkdtemp: " + err.Error())
				return
			}
			killAt := 2 + rng.IntN(2*len(ops))
			spin := time.Duration(rng.IntN(2500)) * time.Microsecond
			cmd := exec.Command(self, "-test.run", "^TestVerifC09KillChild$", "-test.count=1", "-test.timeout=120s")
			cmd.Env = append(os.Environ(), c09ChildDirEnv+"="+dir, c09ChildCaseEnv+"="+strconv.Itoa(i))
			logf, _ := os.Create(filepath.Join(dir, "child.log"))
			cmd.Stdout, cmd.Stderr = logf, logf
			if err := cmd.Start(); err != nil {
				r.Inconclusive("child start: " + err.Error())
				return
			}
			exited := make(chan struct{})
			go func() { cmd.Wait(); close(exited) }()
			jpath := filepath.Join(dir, "journal")
			killed := false
			deadline := time.Now().Add(90 * time.Second)
		poll:
			for {
				select {
				case <-exited:
					break poll
				default:
				}
				if n := len(c09ReadJournal(jpath)); n >= killAt {
					t0 := time.Now()
					for time.Since(t0) < spin {
					}
					cmd.Process.Signal(syscall.SIGKILL)
					killed = true
					<-exited
					break poll
				}
				if time.Now().After(deadline) {
					cmd.Process.Signal(syscall.SIGKILL)
					<-exited
					r.Inconclusive(fmt.Sprintf("kill child watchdog case=%d", i))
					break poll
				}
				time.Sleep(150 * time.Microsecond)
			}
			logf.Close()
			lines := c09ReadJournal(jpath)
			a := make([]int64, len(p.chans))
			b := make([]int64, len(p.chans))
			bad := ""
			for _, ln := range lines {
				f := strings.Fields(ln)
				if len(f) == 0 {
					continue
				}
				switch f[0] {
				case "B", "E":
					oi, _ := strconv.Atoi(f[1])
					for _, st := range ops[oi] {
						if f[0] == "B" {
							b[st.Chan] = max(b[st.Chan], int64(st.idx))
						} else {
							a[st.Chan] = max(a[st.Chan], int64(st.idx))
						}
					}
				case "DIVERGED", "OPENFAIL":
					bad = ln
				}
			}
			if bad != "" {
				r.Inconclusive(fmt.Sprintf("kill child case=%d: %s", i, bad))
				os.RemoveAll(dir)
				continue
			}
			if killed {
				stats.add("kill.sigkill_sent", 1)
			} else {
				stats.add("kill.child_completed_first", 1)
			}
			root := fmt.Sprintf("k%d_%d", i, k)
			c09TheMux.registerDir(root, dir)
			cut := &c09Cut{root: root, pct: 100, a: a, b: b, when: "kill", event: "sigkill", serial: k}
			h.audit(cut, stats, contRng)
			c09TheMux.unregister(root)
			os.RemoveAll(dir)
		}
		stats.add("histories", 1)
	}
	for k, v := range stats.m {
		r.Count(k, v)
	}
}
