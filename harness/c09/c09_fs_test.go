//go:build verif

package c09

import (
	"errors"
	"io"
	"os"
	"path"
	"strings"
	"sync"

	"github.com/WuKongIM/WuKongIM/pkg/db/internal/engine"
	"github.com/cockroachdb/pebble/v2/vfs"
)

// c09Mux is the single filesystem handed to the verif seam
// (engine.SetVerifFS). It dispatches on the first path component, so every
// store of every concurrently running history (live crashable FS, reference
// FS, crash clones) lives under its own root name and the process-global seam
// never has to be re-pointed. The inner filesystem sees the path without the
// root component.
type c09Mux struct{ roots sync.Map }

var (
	c09TheMux   = &c09Mux{}
	c09SeamOnce sync.Once
)

func c09InstallSeam() {
	c09SeamOnce.Do(func() { engine.SetVerifFS(func() vfs.FS { return c09TheMux }) })
}

type c09Root struct {
	fs     vfs.FS
	prefix string // real-disk roots: absolute directory prepended to the inner path
}

func (m *c09Mux) register(root string, fs vfs.FS) { m.roots.Store(root, c09Root{fs: fs}) }
func (m *c09Mux) registerDir(root, dir string) {
	m.roots.Store(root, c09Root{fs: vfs.Default, prefix: dir})
}
func (m *c09Mux) unregister(root string) { m.roots.Delete(root) }

var errC09NoRoot = errors.New("c09mux: unknown root")

func (m *c09Mux) res(name string) (vfs.FS, string, error) {
	name = strings.TrimPrefix(name, "./")
	root, rest := name, "."
	if i := strings.IndexByte(name, '/'); i >= 0 {
		root, rest = name[:i], name[i+1:]
		if rest == "" {
			rest = "."
		}
	}
	v, ok := m.roots.Load(root)
	if !ok {
		return nil, "", &os.PathError{Op: "c09mux", Path: name, Err: errC09NoRoot}
	}
	r := v.(c09Root)
	if r.prefix != "" {
		if rest == "." {
			return r.fs, r.prefix, nil
		}
		return r.fs, r.prefix + "/" + rest, nil
	}
	return r.fs, rest, nil
}

func (m *c09Mux) res2(a, b string) (vfs.FS, string, string, error) {
	fa, ra, err := m.res(a)
	if err != nil {
		return nil, "", "", err
	}
	fb, rb, err := m.res(b)
	if err != nil {
		return nil, "", "", err
	}
	if fa != fb {
		return nil, "", "", &os.PathError{Op: "c09mux", Path: a, Err: errors.New("cross-root operation")}
	}
	return fa, ra, rb, nil
}

func (m *c09Mux) Create(name string, c vfs.DiskWriteCategory) (vfs.File, error) {
	fs, p, err := m.res(name)
	if err != nil {
		return nil, err
	}
	return fs.Create(p, c)
}
func (m *c09Mux) Link(a, b string) error {
	fs, pa, pb, err := m.res2(a, b)
	if err != nil {
		return err
	}
	return fs.Link(pa, pb)
}
func (m *c09Mux) Open(name string, opts ...vfs.OpenOption) (vfs.File, error) {
	fs, p, err := m.res(name)
	if err != nil {
		return nil, err
	}
	return fs.Open(p, opts...)
}
func (m *c09Mux) OpenReadWrite(name string, c vfs.DiskWriteCategory, opts ...vfs.OpenOption) (vfs.File, error) {
	fs, p, err := m.res(name)
	if err != nil {
		return nil, err
	}
	return fs.OpenReadWrite(p, c, opts...)
}
func (m *c09Mux) OpenDir(name string) (vfs.File, error) {
	fs, p, err := m.res(name)
	if err != nil {
		return nil, err
	}
	return fs.OpenDir(p)
}
func (m *c09Mux) Remove(name string) error {
	fs, p, err := m.res(name)
	if err != nil {
		return err
	}
	return fs.Remove(p)
}
func (m *c09Mux) RemoveAll(name string) error {
	fs, p, err := m.res(name)
	if err != nil {
		return err
	}
	return fs.RemoveAll(p)
}
func (m *c09Mux) Rename(a, b string) error {
	fs, pa, pb, err := m.res2(a, b)
	if err != nil {
		return err
	}
	return fs.Rename(pa, pb)
}
func (m *c09Mux) ReuseForWrite(a, b string, c vfs.DiskWriteCategory) (vfs.File, error) {
	fs, pa, pb, err := m.res2(a, b)
	if err != nil {
		return nil, err
	}
	return fs.ReuseForWrite(pa, pb, c)
}
func (m *c09Mux) MkdirAll(dir string, perm os.FileMode) error {
	fs, p, err := m.res(dir)
	if err != nil {
		return err
	}
	return fs.MkdirAll(p, perm)
}
func (m *c09Mux) Lock(name string) (io.Closer, error) {
	fs, p, err := m.res(name)
	if err != nil {
		return nil, err
	}
	return fs.Lock(p)
}
func (m *c09Mux) List(dir string) ([]string, error) {
	fs, p, err := m.res(dir)
	if err != nil {
		return nil, err
	}
	return fs.List(p)
}
func (m *c09Mux) Stat(name string) (vfs.FileInfo, error) {
	fs, p, err := m.res(name)
	if err != nil {
		return nil, err
	}
	return fs.Stat(p)
}
func (m *c09Mux) PathBase(p string) string       { return path.Base(p) }
func (m *c09Mux) PathJoin(elem ...string) string { return path.Join(elem...) }
func (m *c09Mux) PathDir(p string) string        { return path.Dir(p) }
func (m *c09Mux) Unwrap() vfs.FS                 { return nil }
func (m *c09Mux) GetDiskUsage(p string) (vfs.DiskUsage, error) {
	fs, r, err := m.res(p)
	if err != nil {
		return vfs.DiskUsage{}, err
	}
	return fs.GetDiskUsage(r)
}

// c09Guard sits between the event hook and a crashable MemFS. MemFS.Lock and
// MemFS.ReuseForWrite take the clone read-lock and then call another MemFS
// method that takes it again; a CrashClone (writer) arriving from a different
// goroutine between the two acquisitions deadlocks the filesystem. The guard
// makes clones wait for, and exclude, exactly those two calls (harness-side
// workaround; it changes nothing the store can observe).
type c09Guard struct {
	vfs.FS
	mu *sync.RWMutex
}

func (g c09Guard) Lock(name string) (io.Closer, error) {
	g.mu.RLock()
	defer g.mu.RUnlock()
	return g.FS.Lock(name)
}

func (g c09Guard) ReuseForWrite(oldname, newname string, c vfs.DiskWriteCategory) (vfs.File, error) {
	g.mu.RLock()
	defer g.mu.RUnlock()
	return g.FS.ReuseForWrite(oldname, newname, c)
}

// c09Clone takes a crash clone while no guarded call is in flight.
func c09Clone(mem *vfs.MemFS, mu *sync.RWMutex, cfg vfs.CrashCloneCfg) *vfs.MemFS {
	mu.Lock()
	defer mu.Unlock()
	return mem.CrashClone(cfg)
}

// c09FSSig is a cheap content signature of a MemFS subtree (file names and
// sizes) used to tell whether a lossy clone actually dropped unsynced data.
func c09FSSig(fs vfs.FS, dir string) (files int, bytes int64) {
	names, err := fs.List(dir)
	if err != nil {
		return 0, 0
	}
	for _, n := range names {
		p := fs.PathJoin(dir, n)
		st, err := fs.Stat(p)
		if err != nil {
			continue
		}
		if st.IsDir() {
			f, b := c09FSSig(fs, p)
			files += f
			bytes += b
			continue
		}
		files++
		bytes += st.Size()
	}
	return files, bytes
}

func c09FileClass(p string) string {
	b := path.Base(p)
	switch {
	case strings.HasSuffix(b, ".log"):
		return "wal"
	case strings.HasSuffix(b, ".sst"):
		return "sst"
	case strings.HasPrefix(b, "MANIFEST"):
		return "manifest"
	case strings.HasPrefix(b, "OPTIONS"), strings.HasSuffix(b, ".dbtmp"):
		return "options"
	case strings.HasPrefix(b, "marker."):
		return "marker"
	case b == "LOCK":
		return "lock"
	case !strings.Contains(b, "."):
		return "dir"
	}
	return "other"
}
