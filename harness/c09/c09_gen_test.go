//go:build verif

package c09

import (
	"fmt"
	"math/rand/v2"
	"time"

	"github.com/WuKongIM/WuKongIM/pkg/db/message"

	channel "github.com/WuKongIM/WuKongIM/pkg/db/message/channelcompat"
	"github.com/WuKongIM/WuKongIM/pkg/quorumlog"
)

// c09Gen generates the step sequence of one channel. Generation is a pure
// function of the PRNG stream and the model state (never of live results), so a
// whole history can be generated up front, replayed on a reference store, run
// live under crashes, and regenerated identically in a child process.
type c09Gen struct {
	rng    *rand.Rand
	ch     *c09Chan
	u      *c09Universe
	states []*c09State // states[k] = model after k steps
	steps  []*c09Step
	msgCtr uint64
	term   uint64
	fence  uint64
	epoch  uint64
	used   map[[2]string]bool
	below  bool // prefer cut points below RetentionState.RetainedMaxSeq
}

func c09NewGen(rng *rand.Rand, ch *c09Chan) *c09Gen {
	return &c09Gen{rng: rng, ch: ch, u: c09NewUniverse(), states: []*c09State{c09NewState()},
		term: 1 + uint64(rng.IntN(3)), fence: 1 + uint64(rng.IntN(3)), epoch: 1 + uint64(rng.IntN(4)), used: map[[2]string]bool{}}
}

func (g *c09Gen) cur() *c09State { return g.states[len(g.states)-1] }

func (g *c09Gen) commit(st *c09Step) *c09Step {
	st.Chan = g.ch.Idx
	st.pre = g.cur()
	st.idx = len(g.steps) + 1
	g.steps = append(g.steps, st)
	g.u.addStep(st)
	g.states = append(g.states, st.apply())
	return st
}

func (g *c09Gen) newMsg() *c09Msg {
	g.msgCtr++
	r := g.rng
	m := &c09Msg{ID: uint64(g.ch.Idx+1)<<40 | g.msgCtr, TS: 1_700_000_000_000 + int64(g.msgCtr) + int64(g.ch.Idx)*1_000_000,
		Timestamp: int32(1_700_000 + g.msgCtr), Setting: uint8(r.IntN(4)), SyncOnce: r.IntN(10) == 0}
	switch v := r.IntN(10); {
	case v < 1:
		m.From = ""
	default:
		m.From = fmt.Sprintf("u%d", r.IntN(3))
	}
	switch v := r.IntN(20); {
	case v < 3:
		m.ClientNo = ""
	case v < 6:
		m.ClientNo = fmt.Sprintf("p%d", r.IntN(3))
	default:
		m.ClientNo = fmt.Sprintf("n%d", g.msgCtr)
	}
	if m.From != "" && m.ClientNo != "" {
		k := [2]string{m.From, m.ClientNo}
		if g.used[k] {
			m.ClientNo = fmt.Sprintf("%s-%d", m.ClientNo, g.msgCtr)
			k[1] = m.ClientNo
		}
		g.used[k] = true
	}
	n := r.IntN(48)
	if r.IntN(16) == 0 {
		n = 200 + r.IntN(300)
	}
	m.Payload = make([]byte, n)
	for i := range m.Payload {
		m.Payload[i] = byte(r.UintN(256))
	}
	if g.ch.Typed {
		// the typed Record has no framer/setting/client-timestamp fields
		m.Setting, m.SyncOnce, m.Timestamp = 0, false, 0
		// Side observation (not C09): ChannelLog.Append/ApplyFetch store
		// PayloadHash=0 for an empty payload (normalizeMessageRow only hashes
		// non-empty payloads) and every later scan of the channel then fails
		// with "payload hash mismatch". Typed histories avoid empty payloads so
		// that this unrelated read failure does not mask crash audits.
		if len(m.Payload) == 0 {
			m.Payload = []byte{byte(g.msgCtr)}
		}
	}
	return m
}

func (g *c09Gen) newMsgs(lo, hi int) []*c09Msg {
	n := lo + g.rng.IntN(hi-lo+1)
	out := make([]*c09Msg, n)
	for i := range out {
		out[i] = g.newMsg()
	}
	return out
}

func (g *c09Gen) newCmd() quorumlog.CommandID {
	var id quorumlog.CommandID
	for i := range id {
		id[i] = byte(g.rng.UintN(256))
	}
	id[0] |= 1
	return id
}

// manifest builds an unsealed manifest extending `prev` (the identity at base,
// zero at genesis).
func (g *c09Gen) manifest(base uint64, n int, prev quorumlog.EntryIdentity, cmd quorumlog.CommandID) quorumlog.ProposalManifest {
	m := quorumlog.ProposalManifest{Version: quorumlog.ProposalManifestVersion, ChannelEpoch: g.epoch, LeaderTerm: g.term,
		FenceVersion: g.fence, CommandID: cmd, BaseOffset: base, LastOffset: base + uint64(n), PreviousIndex: base}
	if base > 0 {
		m.PreviousTerm = prev.LeaderTerm
		m.PreviousDigest = prev.Digest
	}
	return m
}

func c09Between(r *rand.Rand, lo, hi uint64) uint64 {
	if hi <= lo {
		return lo
	}
	return lo + r.Uint64N(hi-lo+1)
}

// gen produces the next step for this channel. family restricts the result to
// one cross-channel batch family ("append", "apply", "ckpthw") and returns nil
// when the channel cannot take part.
func (g *c09Gen) gen(family string) *c09Step {
	s := g.cur()
	r := g.rng
	switch family {
	case "append":
		if g.ch.Exact {
			return g.commit(g.genXAppend(s, c09ModeBatch))
		}
		return g.commit(g.genAppend(s, c09ModeBatch))
	case "apply":
		if g.ch.Exact {
			return nil
		}
		return g.commit(g.genApply(s, c09ModeBatch))
	case "ckpthw":
		return g.commit(g.genCkptHW(s, c09ModeBatch))
	}
	ret := s.retOrZero()
	if s.Ret != nil && ret.Physical < ret.Local && r.IntN(2) == 0 {
		return g.commit(g.genTrim(s))
	}
	// Retention was adopted/trimmed while the log was longer than the cut
	// floor: cut or replace the suffix below RetainedMaxSeq, so that the
	// retention record has to follow the new log end (a later reopen recovers
	// the log end from max(last row, RetainedMaxSeq)).
	if s.Ret != nil && !g.ch.Typed && ret.RetainedMax > g.truncFloor(s) && r.IntN(5) == 0 {
		g.below = true
		var st *c09Step
		if g.ch.Exact && r.IntN(3) > 0 {
			st = g.genReplace(s)
		} else {
			st = g.genTruncate(s)
		}
		g.below = false
		if st != nil {
			return g.commit(st)
		}
	}
	for tries := 0; tries < 50; tries++ {
		v := r.IntN(100)
		var st *c09Step
		if g.ch.Typed {
			switch {
			case v < 30:
				st = g.genAppend(s, r.IntN(3))
			case v < 55:
				st = g.genApply(s, r.IntN(4))
			case v < 58:
				st = g.genDupIdem(s)
			case v < 66:
				st = g.genCkptFull(s)
			case v < 68:
				st = g.genCkptRegress(s)
			case v < 76:
				st = g.genTruncate(s)
			case v < 90:
				st = g.genTrim(s)
			case v < 94:
				st = g.genEpoch(s)
			default:
				st = g.genSnapshot(s)
			}
			if st != nil {
				return g.commit(st)
			}
			continue
		}
		if g.ch.Exact {
			switch {
			case v < 38:
				st = g.genXAppend(s, 0)
			case v < 44:
				st = g.genXReplay(s)
			case v < 48:
				st = g.genXBad(s)
			case v < 58:
				st = g.genCkptHW(s, r.IntN(2)*c09ModeBatch)
			case v < 62:
				st = g.genCkptFull(s)
			case v < 70:
				st = g.genTruncate(s)
			case v < 72:
				st = g.genTruncSplit(s)
			case v < 79:
				st = g.genAdopt(s)
			case v < 86:
				st = g.genTrim(s)
			case v < 88:
				st = g.genTrimBad(s)
			case v < 94:
				st = g.genReplace(s)
			case v < 96:
				st = g.genSnapshot(s)
			case v < 98:
				st = g.genCursor(s)
			default:
				st = g.genEpoch(s)
			}
		} else {
			switch {
			case v < 22:
				st = g.genAppend(s, []int{0, 1, 2, c09ModeBatch}[r.IntN(4)])
			case v < 50:
				st = g.genApply(s, r.IntN(4))
			case v < 53:
				st = g.genDupIdem(s)
			case v < 63:
				st = g.genCkptHW(s, r.IntN(2)*c09ModeBatch)
			case v < 68:
				st = g.genCkptFull(s)
			case v < 70:
				st = g.genCkptRegress(s)
			case v < 79:
				st = g.genTruncate(s)
			case v < 86:
				st = g.genAdopt(s)
			case v < 94:
				st = g.genTrim(s)
			case v < 95:
				st = g.genTrimBad(s)
			case v < 97:
				st = g.genSnapshot(s)
			case v < 99:
				st = g.genCursor(s)
			default:
				st = g.genEpoch(s)
			}
		}
		if st != nil {
			return g.commit(st)
		}
	}
	if g.ch.Exact {
		return g.commit(g.genXAppend(s, 0))
	}
	return g.commit(g.genAppend(s, 0))
}

func (g *c09Gen) committedFor(s *c09State, hwNow, last uint64) uint64 {
	r := g.rng
	switch v := r.IntN(10); {
	case v < 4:
		return 0
	case v < 8:
		return c09Between(r, hwNow, last)
	default:
		return c09Between(r, 1, last) // possibly below the durable HW: must be ignored
	}
}

func (g *c09Gen) genXAppend(s *c09State, mode int) *c09Step {
	r := g.rng
	st := &c09Step{Kind: "xappend", Mode: mode, Class: uint8(r.IntN(3)), SrvAlloc: r.IntN(2) == 0, batchable: "append"}
	nProps := 1
	if r.IntN(4) == 0 {
		nProps = 2
	}
	base := s.LEO
	prev := s.Ents[base]
	hw := s.hw()
	for i := 0; i < nProps; i++ {
		msgs := g.newMsgs(1, 4)
		p := c09Seal(g.manifest(base, len(msgs), prev, g.newCmd()), msgs)
		st.Props = append(st.Props, p)
		c := g.committedFor(s, hw, p.Man.LastOffset)
		st.Committed = append(st.Committed, c)
		hw = max(hw, c)
		base = p.Man.LastOffset
		prev = p.Ents[len(p.Ents)-1]
	}
	return st
}

func (g *c09Gen) genXReplay(s *c09State) *c09Step {
	if len(s.Props) == 0 {
		return nil
	}
	r := g.rng
	p := s.Props[r.IntN(len(s.Props))]
	if r.IntN(2) == 0 {
		p = s.Props[len(s.Props)-1]
	}
	var c uint64
	if r.IntN(3) == 0 {
		c = c09Between(r, 1, p.Man.LastOffset)
	}
	return &c09Step{Kind: "xreplay", Props: []*c09Proposal{p}, Committed: []uint64{c}, Class: uint8(r.IntN(3)), SrvAlloc: r.IntN(2) == 0, batchable: "append"}
}

func (g *c09Gen) genXBad(s *c09State) *c09Step {
	r := g.rng
	msgs := g.newMsgs(1, 3)
	if s.LEO > 0 && r.IntN(2) == 0 {
		prev := s.Ents[s.LEO]
		prev.Digest[3] ^= 0x5a
		p := c09Seal(g.manifest(s.LEO, len(msgs), prev, g.newCmd()), msgs)
		return &c09Step{Kind: "xbad", Fail: "badprev", Props: []*c09Proposal{p}, Committed: []uint64{0}, batchable: "append"}
	}
	base := s.LEO + 1 + uint64(r.IntN(3))
	prev := quorumlog.EntryIdentity{LeaderTerm: g.term, Digest: quorumlog.EntryDigest{1, 2, 3}}
	p := c09Seal(g.manifest(base, len(msgs), prev, g.newCmd()), msgs)
	return &c09Step{Kind: "xbad", Fail: "gap", Props: []*c09Proposal{p}, Committed: []uint64{0}, batchable: "append"}
}

func (g *c09Gen) genAppend(s *c09State, mode int) *c09Step {
	r := g.rng
	return &c09Step{Kind: "append", Mode: mode, Msgs: g.newMsgs(1, 4), Class: uint8(r.IntN(3)), SrvAlloc: r.IntN(2) == 0, batchable: "append"}
}

func (g *c09Gen) genDupIdem(s *c09State) *c09Step {
	for _, seq := range s.retainedSeqs() {
		m := s.Rows[seq]
		if m.From != "" && m.ClientNo != "" {
			dup := g.newMsg()
			delete(g.used, [2]string{dup.From, dup.ClientNo})
			dup.From, dup.ClientNo = m.From, m.ClientNo
			return &c09Step{Kind: "append", Fail: "dupidem", Mode: 0, Msgs: []*c09Msg{dup}}
		}
	}
	return nil
}

func (g *c09Gen) fullCkpt(s *c09State, leo uint64) *c09Ckpt {
	r := g.rng
	cur := s.ckptOrZero()
	ck := c09Ckpt{Epoch: cur.Epoch + uint64(r.IntN(2)), HW: c09Between(r, cur.HW, leo)}
	ck.LogStart = c09Between(r, cur.LogStart, ck.HW)
	if r.IntN(2) == 0 {
		ck.LogStart = cur.LogStart
	}
	return &ck
}

func (g *c09Gen) genApply(s *c09State, mode int) *c09Step {
	r := g.rng
	st := &c09Step{Kind: "apply", Mode: mode, Msgs: g.newMsgs(0, 4), batchable: "apply"}
	next := s.LEO + uint64(len(st.Msgs))
	switch v := r.IntN(10); {
	case v < 3:
	case v < 6:
		st.CkptFull = g.fullCkpt(s, next)
	default:
		if g.ch.Typed {
			st.CkptFull = g.fullCkpt(s, next)
			break
		}
		hw := c09Between(r, 0, next)
		if r.IntN(3) > 0 {
			hw = c09Between(r, s.hw(), next)
		}
		st.CkptHW = &hw
	}
	if mode != c09ModeBatch && r.IntN(6) == 0 && g.pointOK(s) {
		st.Point = &c09Point{Epoch: s.lastEpoch() + 1, Start: s.LEO}
	}
	return st
}

func (g *c09Gen) genCkptHW(s *c09State, mode int) *c09Step {
	r := g.rng
	hw := c09Between(r, s.hw(), s.LEO)
	if r.IntN(4) == 0 {
		hw = c09Between(r, 0, s.LEO)
	}
	return &c09Step{Kind: "ckpthw", Mode: mode, HW: hw, batchable: "ckpthw"}
}

func (g *c09Gen) genCkptFull(s *c09State) *c09Step {
	return &c09Step{Kind: "ckptfull", Mode: g.rng.IntN(2), CkptFull: g.fullCkpt(s, s.LEO)}
}

func (g *c09Gen) genCkptRegress(s *c09State) *c09Step {
	if s.hw() == 0 {
		return nil
	}
	cur := s.ckptOrZero()
	ck := cur
	ck.HW = c09Between(g.rng, 0, cur.HW-1)
	if ck.LogStart > ck.HW {
		ck.LogStart = ck.HW
	}
	return &c09Step{Kind: "ckptfull", Fail: "regress", CkptFull: &ck}
}

func (g *c09Gen) truncFloor(s *c09State) uint64 {
	f := max(s.hw(), s.retOrZero().Local)
	if g.ch.Typed {
		// ChannelLog.TruncateFrom leaves the retention record alone; cutting
		// below RetainedMaxSeq is outside what this monitor drives (see report).
		f = max(f, s.retOrZero().RetainedMax)
	}
	return f
}

func (g *c09Gen) genTruncate(s *c09State) *c09Step {
	r := g.rng
	floor := g.truncFloor(s)
	if floor > s.LEO {
		return nil
	}
	var to uint64
	if g.ch.Exact {
		var c []uint64
		for _, b := range s.boundaries() {
			if b >= floor && b <= s.LEO {
				c = append(c, b)
			}
		}
		if len(c) == 0 {
			return nil
		}
		to = c[r.IntN(len(c))]
		if len(c) > 1 && r.IntN(2) == 0 {
			to = c[len(c)-2] // drop exactly the tail proposal
		}
		if g.below {
			if lo := g.belowRetained(s, c); len(lo) > 0 {
				to = lo[r.IntN(len(lo))]
			}
		}
	} else if g.below && s.retOrZero().RetainedMax > floor {
		to = c09Between(r, floor, s.retOrZero().RetainedMax-1)
	} else {
		to = c09Between(r, floor, s.LEO)
		if s.LEO > floor && r.IntN(2) == 0 {
			to = c09Between(r, max(floor, s.LEO-min(s.LEO, 3)), s.LEO)
		}
	}
	return &c09Step{Kind: "truncate", To: to, WithHist: r.IntN(2) == 0 && !g.ch.Typed}
}

func (g *c09Gen) belowRetained(s *c09State, cands []uint64) []uint64 {
	var lo []uint64
	for _, v := range cands {
		if v+1 < s.retOrZero().RetainedMax {
			lo = append(lo, v)
		}
	}
	return lo
}

func (g *c09Gen) genTruncSplit(s *c09State) *c09Step {
	floor := g.truncFloor(s)
	for i := len(s.Props) - 1; i >= 0; i-- {
		p := s.Props[i]
		if p.Man.LastOffset-p.Man.BaseOffset >= 2 && p.Man.LastOffset-1 >= floor && p.Man.LastOffset-1 > p.Man.BaseOffset {
			return &c09Step{Kind: "truncate", Fail: "split", To: p.Man.LastOffset - 1, WithHist: g.rng.IntN(2) == 0}
		}
	}
	return nil
}

func (g *c09Gen) genAdopt(s *c09State) *c09Step {
	hw := s.hw()
	if hw == 0 {
		return nil
	}
	r := g.rng
	local := s.retOrZero().Local
	through := c09Between(r, 1, hw)
	if local < hw && r.IntN(4) > 0 {
		through = c09Between(r, local+1, hw)
	}
	return &c09Step{Kind: "adopt", Through: through}
}

func (g *c09Gen) genTrim(s *c09State) *c09Step {
	r := g.rng
	if g.ch.Typed {
		// ChannelLog.TrimPrefixThroughLimit adopts the boundary in the same call
		hw := s.hw()
		if hw == 0 {
			return nil
		}
		local := s.retOrZero().Local
		through := c09Between(r, 1, hw)
		if local > 0 && r.IntN(2) == 0 {
			through = local
		}
		st := &c09Step{Kind: "trim", Adopt: true, Through: through, MaxMsgs: []int{0, 1, 1, 2, 3, 5}[r.IntN(6)]}
		if r.IntN(5) == 0 {
			st.MaxBytes = []int{1, 40, 120, 600}[r.IntN(4)]
		}
		return st
	}
	if s.Ret == nil || s.Ret.Local == 0 {
		return nil
	}
	through := s.Ret.Local
	if r.IntN(4) == 0 {
		through = c09Between(r, 1, s.Ret.Local)
	}
	st := &c09Step{Kind: "trim", Through: through, MaxMsgs: []int{0, 1, 1, 2, 3, 5}[r.IntN(6)]}
	if r.IntN(5) == 0 {
		st.MaxBytes = []int{1, 40, 120, 600}[r.IntN(4)]
	}
	return st
}

func (g *c09Gen) genTrimBad(s *c09State) *c09Step {
	return &c09Step{Kind: "trim", Fail: "beyond", Through: s.retOrZero().Local + 1 + uint64(g.rng.IntN(2)), MaxMsgs: g.rng.IntN(3)}
}

func (g *c09Gen) genSnapshot(s *c09State) *c09Step {
	r := g.rng
	cur := s.ckptOrZero()
	end := c09Between(r, cur.HW, s.LEO)
	// epoch above every history point that survives the install (points
	// starting above `end` are removed by it)
	var lastKept uint64
	for _, p := range s.Hist {
		if p.Start <= end {
			lastKept = p.Epoch
		}
	}
	epoch := max(cur.Epoch, lastKept+1)
	payload := make([]byte, 1+r.IntN(64))
	for i := range payload {
		payload[i] = byte(r.UintN(256))
	}
	return &c09Step{Kind: "snapshot", Snap: &c09Snap{Epoch: epoch, End: end, Payload: payload}, Point: &c09Point{Epoch: epoch, Start: end}}
}

func (g *c09Gen) genCursor(s *c09State) *c09Step {
	var cur uint64
	if s.Cursor != nil {
		cur = *s.Cursor
	}
	if cur > 0 && g.rng.IntN(4) == 0 {
		return &c09Step{Kind: "cursor", Fail: "backwards", CursorSeq: cur - 1}
	}
	return &c09Step{Kind: "cursor", CursorSeq: cur + uint64(g.rng.IntN(3))}
}

// pointOK: a new epoch point may not start below the last recorded one (a
// plain Truncate keeps future history points; the store rejects the regression).
func (g *c09Gen) pointOK(s *c09State) bool {
	return len(s.Hist) == 0 || s.Hist[len(s.Hist)-1].Start <= s.LEO
}

func (g *c09Gen) genEpoch(s *c09State) *c09Step {
	if !g.pointOK(s) {
		return nil
	}
	return &c09Step{Kind: "epoch", Point: &c09Point{Epoch: s.lastEpoch() + 1, Start: s.LEO}}
}

func (g *c09Gen) genReplace(s *c09State) *c09Step {
	r := g.rng
	floor := g.truncFloor(s)
	var c []uint64
	for _, b := range s.boundaries() {
		if b >= floor && b <= s.LEO {
			c = append(c, b)
		}
	}
	if len(c) == 0 {
		return nil
	}
	keep := c[r.IntN(len(c))]
	if g.below {
		if lo := g.belowRetained(s, c); len(lo) > 0 {
			keep = lo[r.IntN(len(lo))]
		}
	}
	st := &c09Step{Kind: "replace", Keep: keep}
	// removed suffix proposals (candidates for message / command reuse)
	var removed []*c09Proposal
	for _, p := range s.Props {
		if p.Man.LastOffset > keep {
			removed = append(removed, p)
		}
	}
	g.term++ // a recovery source always speaks for a newer authority term
	if r.IntN(4) == 0 {
		g.fence++
	}
	nNew := r.IntN(3)
	if g.below {
		nNew = r.IntN(2) // keep the replacement short so the log end stays below RetainedMaxSeq
	}
	base := keep
	prev := s.Ents[keep]
	for i := 0; i < nNew; i++ {
		var msgs []*c09Msg
		cmd := g.newCmd()
		if i == 0 && len(removed) > 0 && r.IntN(3) == 0 {
			// same entries re-certified by the new term (ids and idempotency
			// keys live only in the suffix being replaced), optionally under
			// the command id of the proposal they replace
			msgs = removed[0].Msgs
			if r.IntN(2) == 0 {
				cmd = removed[0].Man.CommandID
			}
		} else if g.below {
			msgs = g.newMsgs(1, 1)
		} else {
			msgs = g.newMsgs(1, 3)
		}
		p := c09Seal(g.manifest(base, len(msgs), prev, cmd), msgs)
		st.Props = append(st.Props, p)
		base = p.Man.LastOffset
		prev = p.Ents[len(p.Ents)-1]
	}
	st.NewHW = c09Between(r, s.hw(), base)
	if r.IntN(2) == 0 {
		st.NewHW = s.hw()
	}
	return st
}

// ---------------------------------------------------------------------------
// History = channels + issuers; each issuer owns a disjoint set of channels and
// issues its operations sequentially.

type c09Op []*c09Step

type c09Plan struct {
	chans   []*c09Chan
	gens    []*c09Gen
	issuers [][]c09Op
	owner   [][]int // issuer -> channel indexes
	restart []int   // single-issuer plans: op index -> 0 none, 1 clean reopen, 2 crash reopen (before the op)
	// coord, when set, re-configures the live store's commit coordinator
	// (shards / collection window / per-commit request cap).
	coord *message.CommitCoordinatorConfig
}

func c09MakePlan(rng *rand.Rand, opsPerIssuer int, forceSingle bool) *c09Plan {
	p := &c09Plan{}
	nChan := 1 + rng.IntN(4)
	typed := rng.IntN(5) == 0
	for i := 0; i < nChan; i++ {
		ch := &c09Chan{Idx: i, Key: channel.ChannelKey(fmt.Sprintf("2:ch%d", i)), ID: channel.ChannelID{ID: fmt.Sprintf("ch%d", i), Type: 2}}
		ch.Exact = rng.IntN(5) < 3
		if i == 0 && nChan == 1 {
			ch.Exact = rng.IntN(4) < 3
		}
		if typed {
			ch.Typed, ch.Exact = true, false
		}
		p.chans = append(p.chans, ch)
		p.gens = append(p.gens, c09NewGen(rand.New(rand.NewPCG(rng.Uint64(), rng.Uint64())), ch))
	}
	nIss := 1 + rng.IntN(nChan)
	if forceSingle || rng.IntN(3) == 0 {
		nIss = 1
	}
	p.owner = make([][]int, nIss)
	for i := 0; i < nChan; i++ {
		k := i % nIss
		p.owner[k] = append(p.owner[k], i)
	}
	for k := 0; k < nIss; k++ {
		r := rand.New(rand.NewPCG(rng.Uint64(), rng.Uint64()))
		own := p.owner[k]
		var ops []c09Op
		for len(ops) < opsPerIssuer {
			if len(own) >= 2 && r.IntN(4) == 0 && !typed {
				fam := []string{"append", "append", "apply", "ckpthw"}[r.IntN(4)]
				var op c09Op
				for _, c := range own {
					if r.IntN(4) == 0 {
						continue
					}
					if st := p.gens[c].gen(fam); st != nil {
						op = append(op, st)
					}
				}
				if len(op) > 0 {
					ops = append(ops, op)
					continue
				}
			}
			c := own[r.IntN(len(own))]
			ops = append(ops, c09Op{p.gens[c].gen("")})
		}
		p.issuers = append(p.issuers, ops)
	}
	if !typed && rng.IntN(5) < 2 {
		p.coord = &message.CommitCoordinatorConfig{Shards: []int{1, 2, 4}[rng.IntN(3)], MaxRequests: []int{0, 1, 2}[rng.IntN(3)],
			FlushWindow: []time.Duration{0, -1, 2 * time.Millisecond}[rng.IntN(3)]}
	}
	if nIss == 1 {
		p.restart = make([]int, len(p.issuers[0]))
		for i := range p.restart {
			if i > 2 && rng.IntN(12) == 0 {
				p.restart[i] = 1 + rng.IntN(2)
			}
		}
	}
	return p
}

func (p *c09Plan) desc() string {
	kinds := ""
	for _, ch := range p.chans {
		if ch.Typed {
			kinds += "T"
		} else if ch.Exact {
			kinds += "X"
		} else {
			kinds += "L"
		}
	}
	steps := 0
	for _, g := range p.gens {
		steps += len(g.steps)
	}
	return fmt.Sprintf("chans=%s issuers=%d steps=%d", kinds, len(p.issuers), steps)
}

// c09LargeTruncPlan: one channel preloaded with 300-900 rows, a low committed
// watermark, then (exact mode) a rejected proposal-splitting cut far back and a
// Truncate / TruncateLogAndHistory removing 256-800 rows, followed by a restart
// and a few ordinary steps. A suffix that large must still disappear in one
// atomic mutation; a rejected cut must leave no trace.
func c09LargeTruncPlan(rng *rand.Rand, exact bool) *c09Plan {
	ch := &c09Chan{Idx: 0, Key: channel.ChannelKey("2:big0"), ID: channel.ChannelID{ID: "big0", Type: 2}, Exact: exact}
	g := c09NewGen(rand.New(rand.NewPCG(rng.Uint64(), rng.Uint64())), ch)
	p := &c09Plan{chans: []*c09Chan{ch}, gens: []*c09Gen{g}, owner: [][]int{{0}}}
	var ops []c09Op
	add := func(st *c09Step) {
		if st != nil {
			ops = append(ops, c09Op{g.commit(st)})
		}
	}
	small := func(lo, hi int) []*c09Msg {
		ms := g.newMsgs(lo, hi)
		for _, m := range ms {
			if len(m.Payload) > 48 {
				m.Payload = m.Payload[:48]
			}
		}
		return ms
	}
	add(g.genEpoch(g.cur()))
	total := 300 + rng.IntN(600)
	for int(g.cur().LEO) < total {
		s := g.cur()
		if exact {
			st := &c09Step{Kind: "xappend", batchable: "append"}
			base, prev := s.LEO, s.Ents[s.LEO]
			for rows := 0; rows < 128; {
				msgs := small(4, 12)
				pr := c09Seal(g.manifest(base, len(msgs), prev, g.newCmd()), msgs)
				st.Props = append(st.Props, pr)
				st.Committed = append(st.Committed, 0)
				base, prev = pr.Man.LastOffset, pr.Ents[len(pr.Ents)-1]
				rows += len(msgs)
			}
			add(st)
		} else {
			add(&c09Step{Kind: "append", Mode: 2, Msgs: small(128, 256), batchable: "append"})
		}
	}
	add(&c09Step{Kind: "ckpthw", HW: uint64(rng.IntN(20)), batchable: "ckpthw"})
	add(g.genEpoch(g.cur())) // a history point above the cut
	s := g.cur()
	floor := g.truncFloor(s)
	if exact {
		for _, pr := range s.Props {
			if pr.Man.BaseOffset >= floor && pr.Man.LastOffset-pr.Man.BaseOffset >= 2 && s.LEO-pr.Man.BaseOffset > 300 {
				add(&c09Step{Kind: "truncate", Fail: "split", To: pr.Man.BaseOffset + 1, WithHist: rng.IntN(2) == 0})
				break
			}
		}
	}
	remove := 256 + uint64(rng.IntN(int(min(545, s.LEO-floor-256))))
	to := s.LEO - remove
	if exact {
		best := floor
		for _, b := range s.boundaries() {
			if b >= floor && b <= to {
				best = b
			}
		}
		to = best
	}
	truncAt := len(ops)
	add(&c09Step{Kind: "truncate", To: to, WithHist: rng.IntN(2) == 0})
	for i := 0; i < 3; i++ {
		ops = append(ops, c09Op{g.gen("")}) // gen commits the step itself
	}
	p.issuers = [][]c09Op{ops}
	p.restart = make([]int, len(ops))
	p.restart[truncAt+1] = 1 + rng.IntN(2)
	return p
}
