//go:build verif

package c09

import (
	"encoding/binary"
	"encoding/hex"
	"fmt"
	"sort"
	"strconv"
	"strings"

	channel "github.com/WuKongIM/WuKongIM/pkg/db/message/channelcompat"
	"github.com/WuKongIM/WuKongIM/pkg/quorumlog"
)

// ---------------------------------------------------------------------------
// Messages, records, proposals.

// c09Msg is the semantic content of one issued log entry.
type c09Msg struct {
	ID        uint64
	From      string
	ClientNo  string
	Payload   []byte
	TS        int64 // ServerTimestampMS (always set: no wall clock reaches the rows)
	Timestamp int32
	SyncOnce  bool
	Setting   uint8
}

func c09FNV(p []byte) uint64 {
	h := uint64(14695981039346656037)
	for _, b := range p {
		h ^= uint64(b)
		h *= 1099511628211
	}
	return h
}

func c09AppendSized(dst []byte, v []byte) []byte {
	dst = binary.BigEndian.AppendUint32(dst, uint32(len(v)))
	return append(dst, v...)
}

// c09Record encodes m in the durable compatibility payload format that
// pkg/channel/store hands to the message DB (version 1 header + sized fields +
// "wkts" server timestamp trailer).
func c09Record(ch *c09Chan, m *c09Msg, index, epoch uint64) channel.Record {
	p := make([]byte, 0, channel.DurableMessageHeaderSize+96+len(m.Payload))
	p = append(p, channel.DurableMessageCodecVersion)
	p = binary.BigEndian.AppendUint64(p, m.ID)
	var flags uint8
	if m.SyncOnce {
		flags |= 4
	}
	p = append(p, flags, m.Setting, 0, ch.ID.Type)
	p = binary.BigEndian.AppendUint32(p, 0) // expire
	p = binary.BigEndian.AppendUint64(p, 0) // client seq
	p = binary.BigEndian.AppendUint64(p, 0) // stream id
	p = binary.BigEndian.AppendUint32(p, uint32(m.Timestamp))
	p = binary.BigEndian.AppendUint64(p, c09FNV(m.Payload))
	p = c09AppendSized(p, nil)                // msg key
	p = c09AppendSized(p, []byte(m.ClientNo)) // client msg no
	p = c09AppendSized(p, nil)                // stream no
	p = c09AppendSized(p, []byte(ch.ID.ID))   // channel id
	p = c09AppendSized(p, nil)                // topic
	p = c09AppendSized(p, []byte(m.From))     // from uid
	p = c09AppendSized(p, m.Payload)
	p = append(p, 'w', 'k', 't', 's')
	p = binary.BigEndian.AppendUint64(p, uint64(m.TS))
	return channel.Record{ID: m.ID, Index: index, Epoch: epoch, Payload: p, SizeBytes: len(p)}
}

func (m *c09Msg) qrecord(index, epoch uint64) quorumlog.Record {
	return quorumlog.Record{ID: m.ID, Index: index, Epoch: epoch, Setting: m.Setting, FromUID: m.From,
		ClientMsgNo: m.ClientNo, ServerTimestampMS: m.TS, SyncOnce: m.SyncOnce, Payload: m.Payload}
}

// c09Proposal is one exact proposal: sealed manifest, its messages and the
// derived per-entry identities (derived by pkg/quorumlog, the storage-neutral
// definition, not by the message DB).
type c09Proposal struct {
	Man  quorumlog.ProposalManifest
	Msgs []*c09Msg
	Ents []quorumlog.EntryIdentity
}

func c09Seal(man quorumlog.ProposalManifest, msgs []*c09Msg) *c09Proposal {
	recs := make([]quorumlog.Record, len(msgs))
	for i, m := range msgs {
		recs[i] = m.qrecord(man.BaseOffset+uint64(i)+1, man.ChannelEpoch)
	}
	sealed, ents, ok := quorumlog.SealProposalManifest(man, recs)
	if !ok {
		panic(fmt.Sprintf("c09: cannot seal manifest %+v", man))
	}
	return &c09Proposal{Man: sealed, Msgs: msgs, Ents: ents}
}

func (p *c09Proposal) records(ch *c09Chan) []channel.Record {
	out := make([]channel.Record, len(p.Msgs))
	for i, m := range p.Msgs {
		out[i] = c09Record(ch, m, 0, p.Man.ChannelEpoch)
	}
	return out
}

func c09Cmd(id quorumlog.CommandID) string { return hex.EncodeToString(id[:6]) }

// ---------------------------------------------------------------------------
// Channel model state.

type c09Ckpt struct{ Epoch, LogStart, HW uint64 }
type c09Ret struct{ Local, Physical, RetainedMax uint64 }
type c09Point struct{ Epoch, Start uint64 }
type c09Snap struct {
	Epoch, End uint64
	Payload    []byte
}

// c09State is the abstract durable state of one channel after a prefix of its
// issued steps.
type c09State struct {
	Rows    map[uint64]*c09Msg
	LEO     uint64
	Ckpt    *c09Ckpt
	Ret     *c09Ret
	Cursor  *uint64
	Hist    []c09Point
	Props   []*c09Proposal // ascending LastOffset
	Ents    map[uint64]quorumlog.EntryIdentity
	Catalog bool
	Snap    []byte // nil = no snapshot payload stored
}

func c09NewState() *c09State {
	return &c09State{Rows: map[uint64]*c09Msg{}, Ents: map[uint64]quorumlog.EntryIdentity{}}
}

func (s *c09State) clone() *c09State {
	n := &c09State{LEO: s.LEO, Catalog: s.Catalog, Snap: s.Snap,
		Rows: make(map[uint64]*c09Msg, len(s.Rows)+8), Ents: make(map[uint64]quorumlog.EntryIdentity, len(s.Ents)+8)}
	for k, v := range s.Rows {
		n.Rows[k] = v
	}
	for k, v := range s.Ents {
		n.Ents[k] = v
	}
	if s.Ckpt != nil {
		c := *s.Ckpt
		n.Ckpt = &c
	}
	if s.Ret != nil {
		c := *s.Ret
		n.Ret = &c
	}
	if s.Cursor != nil {
		c := *s.Cursor
		n.Cursor = &c
	}
	n.Hist = append([]c09Point(nil), s.Hist...)
	n.Props = append([]*c09Proposal(nil), s.Props...)
	return n
}

func (s *c09State) hw() uint64 {
	if s.Ckpt == nil {
		return 0
	}
	return s.Ckpt.HW
}
func (s *c09State) ckptOrZero() c09Ckpt {
	if s.Ckpt == nil {
		return c09Ckpt{}
	}
	return *s.Ckpt
}
func (s *c09State) retOrZero() c09Ret {
	if s.Ret == nil {
		return c09Ret{}
	}
	return *s.Ret
}
func (s *c09State) lastEpoch() uint64 {
	if len(s.Hist) == 0 {
		return 0
	}
	return s.Hist[len(s.Hist)-1].Epoch
}
func (s *c09State) retainedSeqs() []uint64 {
	out := make([]uint64, 0, len(s.Rows))
	for k := range s.Rows {
		out = append(out, k)
	}
	sort.Slice(out, func(i, j int) bool { return out[i] < out[j] })
	return out
}

// boundaries returns the admissible exact cut points (0 and every proposal tail).
func (s *c09State) boundaries() []uint64 {
	out := []uint64{0}
	for _, p := range s.Props {
		out = append(out, p.Man.LastOffset)
	}
	return out
}

func (s *c09State) advanceHW(hw uint64) {
	c := s.ckptOrZero()
	if hw > c.HW {
		c.HW = hw
		s.Ckpt = &c
	}
}

func (s *c09State) addRows(base uint64, msgs []*c09Msg) {
	for i, m := range msgs {
		s.Rows[base+uint64(i)+1] = m
	}
	if len(msgs) > 0 {
		s.LEO = base + uint64(len(msgs))
		s.Catalog = true
	}
}

func (s *c09State) addProposal(p *c09Proposal) {
	s.addRows(p.Man.BaseOffset, p.Msgs)
	s.Props = append(s.Props, p)
	for _, e := range p.Ents {
		s.Ents[e.Index] = e
	}
}

// cutSuffix removes everything above `to` (rows, proposals, identities).
func (s *c09State) cutSuffix(to uint64) {
	for k := range s.Rows {
		if k > to {
			delete(s.Rows, k)
		}
	}
	for k := range s.Ents {
		if k > to {
			delete(s.Ents, k)
		}
	}
	kept := s.Props[:0:0]
	for _, p := range s.Props {
		if p.Man.LastOffset <= to {
			kept = append(kept, p)
		}
	}
	s.Props = kept
}

func (s *c09State) cutHistory(to uint64) {
	kept := s.Hist[:0:0]
	for _, p := range s.Hist {
		if p.Start <= to {
			kept = append(kept, p)
		}
	}
	s.Hist = kept
}

// ---------------------------------------------------------------------------
// Steps. One step = one storage API call on one channel (cross-channel batch
// calls are one step on each participating channel).

type c09Step struct {
	Kind string
	Chan int
	// Fail is non-empty for steps constructed to be rejected; they must leave
	// no trace.
	Fail string
	Mode int

	Props     []*c09Proposal // xappend, xreplay, xbad, replace
	Committed []uint64       // per proposal (xappend/xreplay)
	Class     uint8
	SrvAlloc  bool

	Msgs     []*c09Msg // append, apply, dupidem
	CkptFull *c09Ckpt
	CkptHW   *uint64
	Point    *c09Point
	HW       uint64

	To       uint64
	WithHist bool

	Through  uint64
	MaxMsgs  int
	MaxBytes int

	Keep      uint64
	NewHW     uint64
	Adopt     bool     // typed trim: the call also adopts the boundary
	Snap      *c09Snap // snapshot install
	CursorSeq uint64
	pre       *c09State // model state the step was generated against
	idx       int       // 1-based step index within its channel
	batchable string
}

func (st *c09Step) desc() string {
	d := st.Kind
	if st.Fail != "" {
		d += "!" + st.Fail
	}
	return d + "/" + strconv.Itoa(st.Mode)
}

// detail renders the step parameters and the model state it was generated
// against (witness text only).
func (st *c09Step) detail() string {
	var sb strings.Builder
	fmt.Fprintf(&sb, "%s chan=%d step=%d", st.desc(), st.Chan, st.idx)
	for i, p := range st.Props {
		fmt.Fprintf(&sb, " prop%d=[%s n=%d]", i, c09ManString(p.Man), len(p.Msgs))
		if i < len(st.Committed) {
			fmt.Fprintf(&sb, " committed=%d", st.Committed[i])
		}
	}
	if len(st.Msgs) > 0 {
		fmt.Fprintf(&sb, " msgs=%d", len(st.Msgs))
	}
	if st.CkptFull != nil {
		fmt.Fprintf(&sb, " ckpt=%+v", *st.CkptFull)
	}
	if st.CkptHW != nil {
		fmt.Fprintf(&sb, " ckpthw=%d", *st.CkptHW)
	}
	if st.Point != nil {
		fmt.Fprintf(&sb, " point=%+v", *st.Point)
	}
	if st.Snap != nil {
		fmt.Fprintf(&sb, " snap=e%d/end%d/%dB", st.Snap.Epoch, st.Snap.End, len(st.Snap.Payload))
	}
	fmt.Fprintf(&sb, " adopt=%v cursor=%d", st.Adopt, st.CursorSeq)
	fmt.Fprintf(&sb, " hw=%d to=%d hist=%v through=%d max=%d/%d keep=%d newhw=%d", st.HW, st.To, st.WithHist, st.Through, st.MaxMsgs, st.MaxBytes, st.Keep, st.NewHW)
	if st.pre != nil {
		fmt.Fprintf(&sb, " | pre: leo=%d ckpt=%v ret=%v hist=%v rows=%s props=%d", st.pre.LEO, st.pre.Ckpt, st.pre.Ret, st.pre.Hist, c09SeqList(st.pre.retainedSeqs()), len(st.pre.Props))
	}
	return sb.String()
}

// apply returns the model state after st (st.pre unchanged).
func (st *c09Step) apply() *c09State {
	if st.Fail != "" {
		return st.pre
	}
	s := st.pre.clone()
	switch st.Kind {
	case "xappend":
		for i, p := range st.Props {
			s.addProposal(p)
			if st.Committed[i] > 0 {
				s.advanceHW(st.Committed[i])
			}
		}
	case "xreplay":
		if st.Committed[0] > 0 && st.Committed[0] > s.hw() {
			s.advanceHW(st.Committed[0])
			s.Catalog = true
		}
	case "append":
		s.addRows(s.LEO, st.Msgs)
	case "apply":
		base := s.LEO
		wrote := len(st.Msgs) > 0
		s.addRows(base, st.Msgs)
		if st.CkptFull != nil {
			c := *st.CkptFull
			s.Ckpt = &c
			wrote = true
		} else if st.CkptHW != nil && *st.CkptHW > s.hw() {
			s.advanceHW(*st.CkptHW)
			wrote = true
		}
		if st.Point != nil {
			last := s.lastEpoch()
			if len(s.Hist) == 0 || st.Point.Epoch > last {
				s.Hist = append(s.Hist, *st.Point)
				wrote = true
			}
		}
		if wrote {
			s.Catalog = true
		}
	case "ckpthw":
		if s.Ckpt == nil || st.HW > s.Ckpt.HW {
			c := s.ckptOrZero()
			c.HW = st.HW
			s.Ckpt = &c
			s.Catalog = true
		}
	case "ckptfull":
		c := *st.CkptFull
		s.Ckpt = &c
		s.Catalog = true
	case "truncate":
		if st.To == s.LEO && !st.WithHist {
			return s
		}
		s.cutSuffix(st.To)
		if s.Ret != nil && s.Ret.RetainedMax > st.To {
			s.Ret.RetainedMax = st.To
		}
		if st.WithHist {
			s.cutHistory(st.To)
		}
		s.LEO = st.To
		s.Catalog = true
	case "adopt":
		prev := s.retOrZero()
		next := prev
		next.Local = max(next.Local, st.Through)
		next.RetainedMax = max(next.RetainedMax, max(s.LEO, st.Through))
		cursorOK := s.Cursor != nil && *s.Cursor >= next.Local
		if next == prev && cursorOK {
			return s
		}
		if next != prev {
			s.Ret = &next
		}
		if !cursorOK {
			c := next.Local
			s.Cursor = &c
		}
		if next.RetainedMax > s.LEO {
			s.LEO = next.RetainedMax
		}
		s.Catalog = true
	case "trim":
		del, more := c09TrimPlan(s, st.Through, st.MaxMsgs, st.MaxBytes)
		next := s.retOrZero()
		if st.Adopt {
			next.Local = max(next.Local, st.Through)
			next.RetainedMax = max(next.RetainedMax, st.Through)
		}
		if s.LEO > next.RetainedMax {
			next.RetainedMax = s.LEO
		}
		var deletedThrough uint64
		for _, seq := range del {
			delete(s.Rows, seq)
			deletedThrough = seq
		}
		if !more && st.Through > next.Physical {
			next.Physical = st.Through
		} else if deletedThrough > next.Physical {
			next.Physical = deletedThrough
		}
		s.Ret = &next
		s.LEO = max(s.LEO, next.RetainedMax)
		s.Catalog = true
	case "replace":
		s.cutSuffix(st.Keep)
		s.cutHistory(st.Keep)
		final := st.Keep
		for _, p := range st.Props {
			s.addProposal(p)
			final = p.Man.LastOffset
		}
		c := s.ckptOrZero()
		c.HW = st.NewHW
		s.Ckpt = &c
		if s.Ret != nil && s.Ret.RetainedMax > final {
			s.Ret.RetainedMax = final
		}
		s.LEO = final
		s.Catalog = true
	case "epoch":
		s.Hist = append(s.Hist, *st.Point)
		s.Catalog = true
	case "snapshot":
		s.Snap = st.Snap.Payload
		s.Ckpt = &c09Ckpt{Epoch: st.Snap.Epoch, LogStart: st.Snap.End, HW: st.Snap.End}
		s.cutHistory(st.Snap.End)
		if n := len(s.Hist); n == 0 || s.Hist[n-1] != *st.Point {
			s.Hist = append(s.Hist, *st.Point)
		}
		s.Catalog = true
	case "cursor":
		c := st.CursorSeq
		s.Cursor = &c
		s.Catalog = true
	default:
		panic("c09: unknown step kind " + st.Kind)
	}
	return s
}

// c09TrimPlan mirrors the documented contract of one bounded prefix trim: rows
// from PhysicalRetentionThroughSeq+1 through `through`, capped by MaxMessages
// and MaxBytes; More tells the caller to call again.
func c09TrimPlan(s *c09State, through uint64, maxMsgs, maxBytes int) (del []uint64, more bool) {
	start := s.retOrZero().Physical + 1
	limit := 0
	if maxMsgs > 0 {
		limit = maxMsgs + 1
	}
	total := 0
	for _, seq := range s.retainedSeqs() {
		if seq < start {
			continue
		}
		if seq > through {
			break
		}
		n := len(s.Rows[seq].Payload)
		if maxBytes > 0 && len(del) > 0 && total+n > maxBytes {
			break
		}
		del = append(del, seq)
		total += n
		if limit > 0 && len(del) >= limit {
			break
		}
	}
	if maxMsgs > 0 && len(del) > maxMsgs {
		more = true
		del = del[:maxMsgs]
	}
	if maxBytes > 0 && len(del) > 0 && del[len(del)-1] < through {
		more = true
	}
	return del, more
}

// ---------------------------------------------------------------------------
// Universe: everything ever issued on a channel (probe set for lookups).

type c09Universe struct {
	msgs   []*c09Msg
	byID   map[uint64]*c09Msg
	froms  map[string]struct{}
	cnos   map[string]struct{}
	idem   map[[2]string]struct{}
	props  map[quorumlog.CommandID]*c09Proposal
	maxIdx uint64
}

func c09NewUniverse() *c09Universe {
	return &c09Universe{byID: map[uint64]*c09Msg{}, froms: map[string]struct{}{}, cnos: map[string]struct{}{},
		idem: map[[2]string]struct{}{}, props: map[quorumlog.CommandID]*c09Proposal{}}
}

func (u *c09Universe) addMsg(m *c09Msg) {
	if _, ok := u.byID[m.ID]; !ok {
		u.byID[m.ID] = m
		u.msgs = append(u.msgs, m)
	}
	if m.From != "" {
		u.froms[m.From] = struct{}{}
	}
	if m.ClientNo != "" {
		u.cnos[m.ClientNo] = struct{}{}
	}
	if m.From != "" && m.ClientNo != "" {
		u.idem[[2]string{m.From, m.ClientNo}] = struct{}{}
	}
}

func (u *c09Universe) addStep(st *c09Step) {
	for _, m := range st.Msgs {
		u.addMsg(m)
	}
	for _, p := range st.Props {
		for _, m := range p.Msgs {
			u.addMsg(m)
		}
		u.props[p.Man.CommandID] = p
		if p.Man.LastOffset > u.maxIdx {
			u.maxIdx = p.Man.LastOffset
		}
	}
}

// ---------------------------------------------------------------------------
// Expected observation of a model state, flattened to key -> value so that the
// comparison with an observed store (c09Observe) is a map diff. The key prefix
// before '/' names the clause that a mismatch refutes.

func c09RowString(ch *c09Chan, seq uint64, m *c09Msg) string {
	return fmt.Sprintf("%d|id=%d|from=%q|cno=%q|len=%d|fnv=%x|ts=%d|t=%d|so=%v|set=%d|ch=%s/%d",
		seq, m.ID, m.From, m.ClientNo, len(m.Payload), c09FNV(m.Payload), m.TS, m.Timestamp, m.SyncOnce, m.Setting, ch.ID.ID, ch.ID.Type)
}

func c09ManString(m quorumlog.ProposalManifest) string {
	if m == (quorumlog.ProposalManifest{}) {
		return "zero"
	}
	return fmt.Sprintf("v%d e%d t%d f%d cmd=%s %d-%d prev=t%d/i%d/%s dig=%s", m.Version, m.ChannelEpoch, m.LeaderTerm, m.FenceVersion,
		c09Cmd(m.CommandID), m.BaseOffset, m.LastOffset, m.PreviousTerm, m.PreviousIndex, hex.EncodeToString(m.PreviousDigest[:4]), hex.EncodeToString(m.Digest[:6]))
}

func c09EntString(e quorumlog.EntryIdentity) string {
	if e == (quorumlog.EntryIdentity{}) {
		return "zero"
	}
	return fmt.Sprintf("v%d e%d t%d f%d i%d cmd=%s prev=t%d/i%d/%s dig=%s", e.Version, e.ChannelEpoch, e.LeaderTerm, e.FenceVersion, e.Index,
		c09Cmd(e.CommandID), e.PreviousTerm, e.PreviousIndex, hex.EncodeToString(e.PreviousDigest[:4]), hex.EncodeToString(e.Digest[:6]))
}

func c09SnapString(p []byte) string {
	if p == nil {
		return "absent"
	}
	return fmt.Sprintf("%d:%x", len(p), c09FNV(p))
}

func c09SeqList(seqs []uint64) string {
	var sb strings.Builder
	for i := 0; i < len(seqs); {
		j := i
		for j+1 < len(seqs) && seqs[j+1] == seqs[j]+1 {
			j++
		}
		if sb.Len() > 0 {
			sb.WriteByte(',')
		}
		if j > i {
			fmt.Fprintf(&sb, "%d..%d", seqs[i], seqs[j])
		} else {
			fmt.Fprintf(&sb, "%d", seqs[i])
		}
		i = j + 1
	}
	return sb.String()
}

func c09Expect(ch *c09Chan, s *c09State, u *c09Universe) map[string]string {
	o := make(map[string]string, 8+len(u.msgs)*3)
	o["leo"] = strconv.FormatUint(s.LEO, 10)
	if s.Ckpt == nil {
		o["ckpt"] = "absent"
	} else {
		o["ckpt"] = fmt.Sprintf("%d/%d/%d", s.Ckpt.Epoch, s.Ckpt.LogStart, s.Ckpt.HW)
	}
	r := s.retOrZero()
	o["ret"] = fmt.Sprintf("%d/%d/%d", r.Local, r.Physical, r.RetainedMax)
	if s.Cursor == nil {
		o["cursor"] = "absent"
	} else {
		o["cursor"] = strconv.FormatUint(*s.Cursor, 10)
	}
	hs := make([]string, len(s.Hist))
	for i, p := range s.Hist {
		hs[i] = fmt.Sprintf("%d@%d", p.Epoch, p.Start)
	}
	o["hist"] = strings.Join(hs, ",")
	seqs := s.retainedSeqs()
	o["rows"] = c09SeqList(seqs)
	idSeq := map[uint64]uint64{}
	idemSeq := map[[2]string]uint64{}
	sender := map[string]uint64{}
	cno := map[string][]uint64{}
	for _, seq := range seqs {
		m := s.Rows[seq]
		o["row/"+strconv.FormatUint(seq, 10)] = c09RowString(ch, seq, m)
		idSeq[m.ID] = seq
		if m.From != "" && m.ClientNo != "" {
			idemSeq[[2]string{m.From, m.ClientNo}] = seq
		}
		if m.From != "" && !m.SyncOnce && seq > sender[m.From] {
			sender[m.From] = seq
		}
		if m.ClientNo != "" {
			cno[m.ClientNo] = append(cno[m.ClientNo], seq)
		}
	}
	for _, m := range u.msgs {
		k := "id/" + strconv.FormatUint(m.ID, 10)
		if seq, ok := idSeq[m.ID]; ok {
			o[k] = strconv.FormatUint(seq, 10)
		} else {
			o[k] = "none"
		}
	}
	for key := range u.idem {
		k := "idem/" + key[0] + "|" + key[1]
		if seq, ok := idemSeq[key]; ok {
			o[k] = fmt.Sprintf("%d:%d", seq, s.Rows[seq].ID)
		} else {
			o[k] = "none"
		}
	}
	for from := range u.froms {
		k := "sender/" + from
		if seq, ok := sender[from]; ok {
			o[k] = strconv.FormatUint(seq, 10)
		} else {
			o[k] = "none"
		}
	}
	for no := range u.cnos {
		l := cno[no]
		sort.Slice(l, func(i, j int) bool { return l[i] > l[j] })
		parts := make([]string, len(l))
		for i, v := range l {
			parts[i] = strconv.FormatUint(v, 10)
		}
		o["cno/"+no] = strings.Join(parts, ",")
	}
	o["catalog"] = strconv.FormatBool(s.Catalog)
	o["snap"] = c09SnapString(s.Snap)
	if ch.Exact {
		var man quorumlog.ProposalManifest
		var tail quorumlog.EntryIdentity
		if s.LEO > 0 {
			if n := len(s.Props); n > 0 && s.Props[n-1].Man.LastOffset == s.LEO {
				man = s.Props[n-1].Man
			}
			tail = s.Ents[s.LEO]
		}
		o["frontier"] = fmt.Sprintf("leo=%d hw=%d man=[%s] tail=[%s]", s.LEO, s.hw(), c09ManString(man), c09EntString(tail))
		for i := uint64(1); i <= u.maxIdx+2; i++ {
			k := "ent/" + strconv.FormatUint(i, 10)
			if e, ok := s.Ents[i]; ok && i <= s.LEO {
				o[k] = c09EntString(e)
			} else {
				o[k] = "absent"
			}
		}
		live := map[quorumlog.CommandID]*c09Proposal{}
		for _, p := range s.Props {
			live[p.Man.CommandID] = p
		}
		for cmd := range u.props {
			k := "prop/" + c09Cmd(cmd)
			p, ok := live[cmd]
			if !ok {
				o[k] = "none"
				continue
			}
			complete := true
			ids := make([]string, 0, len(p.Msgs))
			for i, m := range p.Msgs {
				if _, ok := s.Rows[p.Man.BaseOffset+uint64(i)+1]; !ok {
					complete = false
				}
				ids = append(ids, strconv.FormatUint(m.ID, 10))
			}
			if !complete {
				// rows removed by retention: manifest is kept for exact replay,
				// materialised load reports the missing rows.
				o[k] = "ERR:corrupt-state"
			} else {
				o[k] = fmt.Sprintf("[%s] ids=%s", c09ManString(p.Man), strings.Join(ids, ","))
			}
		}
	}
	return o
}

// c09Diff lists the keys on which two flattened observations disagree.
func c09Diff(got, want map[string]string) []string {
	var out []string
	for k, w := range want {
		if g, ok := got[k]; !ok {
			out = append(out, k+": missing, want "+w)
		} else if g != w {
			out = append(out, k+": got "+g+" want "+w)
		}
	}
	for k, g := range got {
		if _, ok := want[k]; !ok {
			out = append(out, k+": unexpected "+g)
		}
	}
	sort.Strings(out)
	return out
}

// c09DiffKind reduces a diff to the sorted set of clause names it touches.
func c09DiffKind(diff []string) string {
	set := map[string]struct{}{}
	for _, d := range diff {
		k := d
		if i := strings.IndexAny(k, "/:"); i >= 0 {
			k = k[:i]
		}
		set[k] = struct{}{}
	}
	keys := make([]string, 0, len(set))
	for k := range set {
		keys = append(keys, k)
	}
	sort.Strings(keys)
	return strings.Join(keys, "+")
}
