//go:build verif

package c09

import (
	"fmt"
	"testing"
	"time"

	"github.com/WuKongIM/WuKongIM/pkg/db/internal/engine"
	"github.com/WuKongIM/WuKongIM/pkg/db/message"
	channel "github.com/WuKongIM/WuKongIM/pkg/db/message/channelcompat"
	"github.com/WuKongIM/WuKongIM/pkg/verifkit"
	"github.com/WuKongIM/WuKongIM/pkg/wklog"
	"github.com/cockroachdb/pebble/v2/vfs"
)

func TestVerifC09Crashfs(t *testing.T) {
	r := verifkit.Start(t, "C09", "crashfs")
	defer r.Finish()
	mem := vfs.NewCrashableMem()
	engine.SetVerifFS(func() vfs.FS { return mem })
	e, err := message.OpenWithLogger("db", wklog.NewNop())
	if err != nil {
		t.Fatal(err)
	}
	st, _ := e.ForChannel("k1", channel.ChannelID{ID: "c1", Type: 2})
	for i := 0; i < 50; i++ {
		st.StoreCheckpointHWMonotonic(t.Context(), 0)
	}
	for i := 0; i < 5; i++ {
		cl := mem.CrashClone(vfs.CrashCloneCfg{})
		engine.SetVerifFS(func() vfs.FS { return cl })
		t0 := time.Now()
		e2, err := message.OpenWithLogger("db", wklog.NewNop())
		t1 := time.Now()
		e2.Close()
		fmt.Println("reopen", err, t1.Sub(t0), "close", time.Since(t1))
		t0 = time.Now()
		d, err := engine.Open("db", engine.Options{ReadOnly: true, CacheSize: 1 << 20, MemTableSize: 1 << 20, Logger: wklog.NewNop()})
		t1 = time.Now()
		n := 0
		it, _ := d.NewIter(engine.Span{}, engine.IterOptions{})
		for ok := it.First(); ok; ok = it.Next() {
			n++
		}
		it.Close()
		d.Close()
		fmt.Println("ro open", err, t1.Sub(t0), "iter+close", time.Since(t1), n)
	}
	e.Close()
	r.Eval(1)
	r.Nontrivial("x")
}
