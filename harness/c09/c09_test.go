//go:build verif

// Package c09 is the runtime monitor for property C09 "Storage mutations are
// crash-atomic". It drives the real message DB (pkg/db/message, opened through
// the production path on a crash-simulating filesystem injected by the
// verif-tagged engine seam) with generated mutation histories, takes crash
// images at filesystem-event boundaries while operations are in flight, reopens
// every image through the normal open path and audits it against a prefix
// model.
package c09

import (
	"fmt"
	"math/rand/v2"
	"regexp"
	"runtime"
	"sort"
	"strings"
	"sync"
	"sync/atomic"
	"testing"

	"github.com/WuKongIM/WuKongIM/pkg/verifkit"
	"github.com/cockroachdb/pebble/v2/vfs"
	"github.com/cockroachdb/pebble/v2/vfs/errorfs"
)

// ---------------------------------------------------------------------------

type c09Cut struct {
	fs     *vfs.MemFS
	pct    int
	a, b   []int64 // per channel: last acknowledged / last begun step index
	event  string
	when   string
	lossy  bool // clone verifiably lacks data that the full image had
	dirty  bool
	serial int
	root   string // pre-registered mux root (real-disk images); fs is nil then
}

type c09Hist struct {
	r      *verifkit.Run
	idx    int
	seed   []uint64
	plan   *c09Plan
	exp    [][]map[string]string // [chan][step] expected observation
	dump   [][]map[string]string // [chan][step] reference raw dump
	keys   []map[string]struct{} // [chan] raw key universe of the channel
	shared map[string]string

	begun []atomic.Int64
	acked []atomic.Int64

	mu          sync.Mutex
	gen         int // live filesystem generation (changes on crash-restart)
	mem         *vfs.MemFS
	cutRng      *rand.Rand
	pCut        float64
	maxCuts     int
	ncuts       int
	events      int
	dirty       bool
	syncPending bool
	stopCuts    bool
	crashed     bool // a crash-restart happened earlier in this live run
	cutCh       chan *c09Cut
	diverged    atomic.Bool
	fsMu        sync.RWMutex // see c09Guard
}

var c09ViolMu sync.Mutex

func (h *c09Hist) violation(sig string, w map[string]any) {
	w["case"] = h.idx
	w["plan"] = h.plan.desc()
	h.r.Count("violations."+sig, 1)
	c09ViolMu.Lock()
	h.r.BeginCase(h.idx, h.plan.desc())
	h.r.Violation(sig, w)
	c09ViolMu.Unlock()
}

var c09OpNames = map[errorfs.OpKind]string{
	errorfs.OpCreate: "create", errorfs.OpLink: "link", errorfs.OpRemove: "remove", errorfs.OpRemoveAll: "removeall",
	errorfs.OpRename: "rename", errorfs.OpReuseForWrite: "reuse", errorfs.OpMkdirAll: "mkdir", errorfs.OpLock: "lock",
	errorfs.OpFileClose: "close", errorfs.OpFileWrite: "write", errorfs.OpFileWriteAt: "writeat", errorfs.OpFileSync: "sync",
	errorfs.OpFileSyncData: "syncdata", errorfs.OpFileSyncTo: "syncto", errorfs.OpFileFlush: "flush", errorfs.OpFilePreallocate: "prealloc",
}

func (h *c09Hist) snapshot(src []atomic.Int64) []int64 {
	out := make([]int64, len(src))
	for i := range src {
		out[i] = src[i].Load()
	}
	return out
}

// takeCuts clones the live filesystem (h.mu held). The acknowledged counters
// are read before the first clone and the begun counters after the last one,
// so every step acknowledged before the image must be in it and no step begun
// after it can be.
func (h *c09Hist) takeCuts(when, event string, pcts []int) {
	a := h.snapshot(h.acked)
	clones := make([]*c09Cut, 0, len(pcts))
	for _, pct := range pcts {
		cfg := vfs.CrashCloneCfg{UnsyncedDataPercent: pct, RNG: h.cutRng}
		clones = append(clones, &c09Cut{fs: c09Clone(h.mem, &h.fsMu, cfg), pct: pct, event: event, when: when, dirty: h.dirty})
	}
	b := h.snapshot(h.begun)
	var fullFiles int
	var fullBytes int64 = -1
	for _, c := range clones {
		if c.pct == 100 {
			fullFiles, fullBytes = c09FSSig(c.fs, "db")
		}
	}
	for _, c := range clones {
		c.a, c.b = a, b
		if c.pct < 100 && fullBytes >= 0 {
			f, n := c09FSSig(c.fs, "db")
			c.lossy = f != fullFiles || n != fullBytes
		}
		h.ncuts++
		c.serial = h.ncuts
		h.cutCh <- c
	}
}

func (h *c09Hist) hook(gen int) errorfs.InjectorFunc {
	return func(op errorfs.Op) error {
		if op.Kind.ReadOrWrite() != errorfs.OpIsWrite {
			return nil
		}
		h.mu.Lock()
		defer h.mu.Unlock()
		if gen != h.gen || h.stopCuts {
			return nil
		}
		h.events++
		if h.syncPending {
			h.dirty, h.syncPending = false, false
		}
		name := c09OpNames[op.Kind] + ":" + c09FileClass(op.Path)
		if h.ncuts < h.maxCuts && h.cutRng.Float64() < h.pCut {
			var pcts []int
			if h.dirty {
				switch v := h.cutRng.IntN(10); {
				case v < 4:
					pcts = []int{100, 0}
				case v < 6:
					pcts = []int{100, 1 + h.cutRng.IntN(99)}
				case v < 8:
					pcts = []int{0}
				default:
					pcts = []int{100}
				}
			} else {
				pcts = []int{0}
				if h.cutRng.IntN(8) == 0 {
					pcts = []int{100, 1 + h.cutRng.IntN(99)}
				}
			}
			h.takeCuts("event", name, pcts)
		}
		switch op.Kind {
		case errorfs.OpFileSync, errorfs.OpFileSyncData, errorfs.OpFileSyncTo:
			h.syncPending = true
		case errorfs.OpFileClose, errorfs.OpLock, errorfs.OpFileFlush, errorfs.OpFilePreallocate:
		default:
			h.dirty = true
		}
		return nil
	}
}

func (h *c09Hist) cutNow(when string, pcts []int) {
	h.mu.Lock()
	defer h.mu.Unlock()
	if h.stopCuts {
		return
	}
	h.takeCuts(when, "-", pcts)
}

// ---------------------------------------------------------------------------
// Reference run: each channel's steps on its own never-crashed store. It
// validates the model against the real code (a mismatch is a harness/model
// problem, reported as inconclusive, never as a C09 violation) and records the
// raw keyspace after every step.

func (h *c09Hist) reference() bool {
	p := h.plan
	n := len(p.chans)
	h.exp = make([][]map[string]string, n)
	h.dump = make([][]map[string]string, n)
	h.keys = make([]map[string]struct{}, n)
	rng := rand.New(rand.NewPCG(1, 2))
	for c, ch := range p.chans {
		g := p.gens[c]
		mem := vfs.NewCrashableMem()
		root := fmt.Sprintf("h%dr%d", h.idx, c)
		c09TheMux.register(root, mem)
		s, err := c09OpenStore(root, p.chans)
		if err != nil {
			c09TheMux.unregister(root)
			h.r.Inconclusive(fmt.Sprintf("reference open failed case=%d: %v", h.idx, err))
			return false
		}
		ok := func() bool {
			for k := 0; k <= len(g.steps); k++ {
				if k > 0 {
					st := g.steps[k-1]
					if d := c09ExecOp(s, p.chans, c09Op{st}); d != "" {
						if !h.checkReopened(mem, "ref", func(int) string { return st.Kind }, map[string]any{"step": st.detail(), "result_divergence": d,
							"note": "never-crashed store: the step's own result already disagreed with the model; the image is a clean reopen right after it returned"}) {
							h.r.Inconclusive(fmt.Sprintf("model-divergence(result) case=%d: %s: %s", h.idx, st.detail(), d))
						}
						return false
					}
				}
				want := c09Expect(ch, g.states[k], g.u)
				got := c09Observe(s, ch, g.u)
				if diff := c09Diff(got, want); len(diff) > 0 {
					kind, short := "open", "open"
					if k > 0 {
						kind, short = g.steps[k-1].detail(), g.steps[k-1].Kind
					}
					// A disagreement between the running store and the model is a
					// harness matter unless the reopened store breaks a clause the
					// property states: then it is a violation (no crash cut needed).
					if h.checkReopened(mem, "ref", func(int) string { return short }, map[string]any{"step": kind, "live_vs_model": diff[:min(len(diff), 8)],
						"note": "never-crashed store, clean reopen right after the mutation returned"}) {
						return false
					}
					h.r.Inconclusive(fmt.Sprintf("model-divergence(state) case=%d chan=%d step=%d %s: %s", h.idx, c, k, kind, strings.Join(diff[:min(len(diff), 6)], " ; ")))
					return false
				}
				h.exp[c] = append(h.exp[c], want)
				d, err := c09DumpOf(mem, root+"d", rng)
				if err != nil {
					h.r.Inconclusive(fmt.Sprintf("reference dump failed case=%d: %v", h.idx, err))
					return false
				}
				h.dump[c] = append(h.dump[c], d)
			}
			return true
		}()
		s.close()
		c09TheMux.unregister(root)
		if !ok {
			return false
		}
		if c == 0 {
			h.shared = h.dump[0][0]
		}
		ks := map[string]struct{}{}
		for _, d := range h.dump[c] {
			for k := range d {
				if _, sh := h.shared[k]; !sh {
					ks[k] = struct{}{}
				}
			}
		}
		h.keys[c] = ks
	}
	// channel key universes must be disjoint for the per-channel raw comparison
	for a := 0; a < n; a++ {
		for b := a + 1; b < n; b++ {
			for k := range h.keys[a] {
				if _, dup := h.keys[b][k]; dup {
					h.r.Inconclusive(fmt.Sprintf("raw key universes overlap case=%d chans=%d,%d key=%x", h.idx, a, b, k))
					return false
				}
			}
		}
	}
	return true
}

// ---------------------------------------------------------------------------
// Live run under crashes.

func (h *c09Hist) openLive(root string, mem *vfs.MemFS) (*c09Store, error) {
	h.mu.Lock()
	h.gen++
	gen := h.gen
	h.mem = mem
	h.dirty, h.syncPending = false, false
	h.mu.Unlock()
	c09TheMux.register(root, errorfs.Wrap(c09Guard{FS: mem, mu: &h.fsMu}, h.hook(gen)))
	s, err := c09OpenStore(root, h.plan.chans)
	if err == nil {
		s.configure(h.plan)
	}
	return s, err
}

func (h *c09Hist) live() {
	p := h.plan
	root := fmt.Sprintf("h%dL", h.idx)
	store, err := h.openLive(root, vfs.NewCrashableMem())
	if err != nil {
		h.r.Inconclusive(fmt.Sprintf("live open failed case=%d: %v", h.idx, err))
		return
	}
	var wg sync.WaitGroup
	done := make(chan struct{})
	// free-running cutter: images at PRNG-chosen instants unrelated to FS events
	spinRng := rand.New(rand.NewPCG(h.seed[0]^0x51, h.seed[1]))
	wg.Add(1)
	go func() {
		defer wg.Done()
		for i := 0; i < 6; i++ {
			n := spinRng.IntN(4000)
			for j := 0; j < n; j++ {
				runtime.Gosched()
			}
			select {
			case <-done:
				return
			default:
			}
			pct := []int{0, 100, 1 + spinRng.IntN(99)}[spinRng.IntN(3)]
			h.cutNow("spin", []int{pct})
		}
	}()
	var iwg sync.WaitGroup
	var storeMu sync.RWMutex // only the single issuer of a restart plan swaps the store
	for k := range p.issuers {
		iwg.Add(1)
		go func(k int) {
			defer iwg.Done()
			rng := rand.New(rand.NewPCG(h.seed[0]+uint64(k)*77, h.seed[1]^0xabc))
			for i, op := range p.issuers[k] {
				if h.diverged.Load() {
					return
				}
				if p.restart != nil && p.restart[i] != 0 {
					storeMu.Lock()
					if p.restart[i] == 1 {
						store.close()
						c09TheMux.unregister(store.root)
						store, err = h.openLive(root, h.mem)
						h.mu.Lock()
						h.crashed = true // a clean restart is a crash point too
						h.mu.Unlock()
						h.r.Count("live.clean_restarts", 1)
					} else {
						// crash-restart: continue the history on a power-loss image
						// taken at a quiescent point (everything acknowledged)
						h.mu.Lock()
						cl := c09Clone(h.mem, &h.fsMu, vfs.CrashCloneCfg{UnsyncedDataPercent: []int{0, 0, 100}[rng.IntN(3)], RNG: h.cutRng})
						h.crashed = true
						h.mu.Unlock()
						old := store
						store, err = h.openLive(root+"x", cl)
						root = root + "x"
						old.close()
						c09TheMux.unregister(old.root)
						h.r.Count("live.crash_restarts", 1)
					}
					storeMu.Unlock()
					if err != nil {
						h.violation("reopen-failed:restart", map[string]any{"err": err.Error(), "op_index": i})
						h.diverged.Store(true)
						return
					}
				}
				for _, st := range op {
					h.begun[st.Chan].Store(int64(st.idx))
				}
				storeMu.RLock()
				d := c09ExecOp(store, p.chans, op)
				storeMu.RUnlock()
				if d != "" {
					h.diverged.Store(true)
					h.mu.Lock()
					crashed, mem := h.crashed, h.mem
					h.mu.Unlock()
					kindOf := func(c int) string {
						if n := int(h.begun[c].Load()); n > 0 {
							return p.gens[c].steps[n-1].Kind
						}
						return "open"
					}
					// The reference store accepted the same step sequence, so this
					// divergence comes from a restart or from concurrency. If the
					// reopened store breaks a stated clause it is a violation; a
					// divergence after any restart (clean or crash) is one too.
					if h.checkReopened(mem, "live", kindOf, map[string]any{"diverging_op": op[0].detail(), "result_divergence": d}) {
					} else if crashed {
						h.violation("post-restart-op-diverged:"+op[0].Kind, map[string]any{"op": op[0].desc(), "detail": d, "issuer": k, "op_index": i,
							"note": "the same step sequence succeeded on the never-restarted reference store; this run continued after a clean or crash restart"})
					} else {
						h.r.Inconclusive(fmt.Sprintf("live-divergence case=%d issuer=%d op=%d %s: %s", h.idx, k, i, op[0].desc(), d))
					}
					return
				}
				for _, st := range op {
					h.acked[st.Chan].Store(int64(st.idx))
				}
				if rng.IntN(5) == 0 {
					pcts := [][]int{{0}, {100, 0}, {1 + rng.IntN(99)}}[rng.IntN(3)]
					h.cutNow("between", pcts)
				}
			}
		}(k)
	}
	iwg.Wait()
	close(done)
	wg.Wait()
	if !h.diverged.Load() {
		h.cutNow("final", []int{100, 0})
	}
	h.mu.Lock()
	h.stopCuts = true
	h.mu.Unlock()
	store.close()
	c09TheMux.unregister(store.root)
	h.r.Count("live.fs_write_events", h.events)
}

// ---------------------------------------------------------------------------
// Audit of one crash image.

type c09AuditStats struct {
	mu sync.Mutex
	m  map[string]int
}

func (s *c09AuditStats) add(k string, n int) {
	s.mu.Lock()
	s.m[k] += n
	s.mu.Unlock()
}

func c09PctClass(p int) string {
	switch {
	case p == 0:
		return "pct0"
	case p == 100:
		return "pct100"
	}
	return "pct1-99"
}

func c09MapsEqual(a, b map[string]string) bool {
	if len(a) != len(b) {
		return false
	}
	for k, v := range a {
		if w, ok := b[k]; !ok || w != v {
			return false
		}
	}
	return true
}

func c09Hex(s string) string {
	if len(s) > 40 {
		return fmt.Sprintf("%x..(%d)", s[:40], len(s))
	}
	return fmt.Sprintf("%x", s)
}

func (h *c09Hist) audit(cut *c09Cut, stats *c09AuditStats, contRng *rand.Rand) {
	p := h.plan
	r := h.r
	root := cut.root
	if cut.fs != nil {
		root = fmt.Sprintf("h%dc%d", h.idx, cut.serial)
		c09TheMux.register(root, cut.fs)
		defer c09TheMux.unregister(root)
	}
	r.Eval(1)
	pc := c09PctClass(cut.pct)
	stats.add("cuts."+cut.when+"."+pc, 1)
	cutInfo := map[string]any{"pct": cut.pct, "when": cut.when, "event": cut.event, "acked": cut.a, "begun": cut.b, "serial": cut.serial}
	inflightAny := false
	for c := range p.chans {
		if cut.b[c] > cut.a[c] {
			inflightAny = true
		}
	}
	if inflightAny {
		stats.add("cuts.with_op_in_flight", 1)
	}
	if cut.lossy {
		stats.add("cuts.dropped_unsynced_data", 1)
	}

	// A 1-99% image keeps a random subset of the *unsynced directory entries*,
	// so it can contain a later-created entry (Pebble's manifest marker) without
	// an earlier-created one (the manifest it names). Pebble itself refuses such
	// a directory; no code of the repository is involved, so these are counted
	// and not judged. A refusal on the all-synced (0%) or full (100%) image is
	// a violation.
	refuse := func(stage string, err error) {
		if cut.pct > 0 && cut.pct < 100 {
			stats.add("cuts.partial_image_refused_by_pebble_open", 1)
			return
		}
		h.violation("reopen-failed:"+stage, map[string]any{"cut": cutInfo, "err": err.Error()})
	}
	raw, err := c09RawDump(root)
	if err != nil {
		refuse("engine", err)
		return
	}
	store, err := c09OpenStore(root, p.chans)
	if err != nil {
		refuse("open", err)
		return
	}
	defer store.close()

	matched := make([]int, len(p.chans))
	allOK := true
	for c, ch := range p.chans {
		g := p.gens[c]
		a, b := int(cut.a[c]), int(cut.b[c])
		inflight := "-"
		if b > a {
			inflight = g.steps[b-1].desc()
			if b-a > 1 {
				inflight = g.steps[a].desc() + ".." + inflight
			}
		}
		obs := c09Observe(store, ch, g.u)
		j := -1
		for k := b; k >= a; k-- {
			if c09MapsEqual(obs, h.exp[c][k]) {
				j = k
				break
			}
		}
		matched[c] = j
		chInfo := map[string]any{"chan": c, "exact": ch.Exact, "acked_step": a, "begun_step": b, "in_flight": inflight}
		// model-free clauses of the statement, checked on the observation itself
		if sig, why := c09ClauseCheck(ch, obs); sig != "" {
			allOK = false
			lastKind := "open"
			if b > 0 {
				lastKind = g.steps[b-1].Kind
			}
			h.violation(sig+":"+lastKind, map[string]any{"cut": cutInfo, "channel": chInfo, "clause": why, "leo": obs["leo"], "rows": obs["rows"], "ret": obs["ret"], "ckpt": obs["ckpt"], "frontier": obs["frontier"]})
			continue
		}
		if j < 0 {
			allOK = false
			// classify: an older state (acknowledged mutation lost), or no state at all (torn)
			older := -1
			for k := a - 1; k >= 0; k-- {
				if c09MapsEqual(obs, h.exp[c][k]) {
					older = k
					break
				}
			}
			best, bestDiff := a, c09Diff(obs, h.exp[c][a])
			for k := a + 1; k <= b; k++ {
				if d := c09Diff(obs, h.exp[c][k]); len(d) < len(bestDiff) {
					best, bestDiff = k, d
				}
			}
			w := map[string]any{"cut": cutInfo, "channel": chInfo, "closest_admissible_step": best,
				"diff_vs_closest": bestDiff[:min(len(bestDiff), 14)], "diff_count": len(bestDiff)}
			if older >= 0 {
				lost := g.steps[older].Kind
				w["recovered_state_equals_step"] = older
				w["first_lost_step"] = g.steps[older].desc()
				h.violation("acknowledged-mutation-lost:"+lost, w)
			} else {
				kind := "-"
				if b > a {
					kind = g.steps[b-1].Kind
				}
				w["clauses_differing"] = c09DiffKind(bestDiff)
				h.violation("torn-state:"+kind, w)
			}
			continue
		}
		// raw keyspace of this channel must be exactly the never-crashed keyspace after step j
		var rawDiff []string
		want := h.dump[c][j]
		for k := range h.keys[c] {
			gv, gok := raw[k]
			wv, wok := want[k]
			switch {
			case gok && !wok:
				rawDiff = append(rawDiff, "extra key "+c09Hex(k)+" = "+c09Hex(gv))
			case !gok && wok:
				rawDiff = append(rawDiff, "missing key "+c09Hex(k))
			case gok && wok && gv != wv:
				rawDiff = append(rawDiff, "value differs at "+c09Hex(k))
			}
		}
		stats.add("audit.raw_keyspace_compared", 1)
		if len(rawDiff) > 0 {
			allOK = false
			sort.Strings(rawDiff)
			kind := "-"
			if b > a {
				kind = g.steps[b-1].Kind
			}
			h.violation("raw-keyspace-not-a-prefix:"+kind, map[string]any{"cut": cutInfo, "channel": chInfo, "matched_step": j,
				"raw_diff": rawDiff[:min(len(rawDiff), 12)], "raw_diff_count": len(rawDiff),
				"note": "public reads matched the model but stored keys differ from a never-crashed store after the same prefix (dangling index / orphan identity / leftover row)"})
		}
		stats.add("audit.channel_states_matched", 1)
		outcome := "n/a"
		if b > a {
			if j == b {
				outcome = "present"
				stats.add("audit.in_flight_step_present", 1)
			} else if j == a {
				outcome = "absent"
				stats.add("audit.in_flight_step_absent", 1)
			} else {
				outcome = "partial-sequence"
			}
			stats.add("inflight."+g.steps[b-1].Kind, 1)
		}
		if b > a || cut.lossy {
			kind := "X"
			if !ch.Exact {
				kind = "L"
			}
			r.Nontrivial(fmt.Sprintf("%s|%s|%s|%s|%s|lossy=%v", kind, inflight, pc, cut.event, outcome, cut.lossy))
		}
	}
	// keys that belong to no channel and are not engine-global
	known := 0
	var unknown []string
	for k := range raw {
		if _, ok := h.shared[k]; ok {
			known++
			continue
		}
		found := false
		for c := range p.chans {
			if _, ok := h.keys[c][k]; ok {
				found = true
				break
			}
		}
		if !found {
			unknown = append(unknown, c09Hex(k))
		}
	}
	if len(unknown) > 0 {
		allOK = false
		sort.Strings(unknown)
		h.violation("raw-keyspace-unknown-keys", map[string]any{"cut": cutInfo, "keys": unknown[:min(len(unknown), 10)], "count": len(unknown)})
	}
	if !allOK {
		return
	}
	if inflightAny && r.WantSample() {
		fl := []string{}
		for c := range p.chans {
			if cut.b[c] > cut.a[c] {
				fl = append(fl, fmt.Sprintf("chan %d: %s -> recovered state = step %d of [%d..%d]", c, p.gens[c].steps[cut.b[c]-1].detail(), matched[c], cut.a[c], cut.b[c]))
			}
		}
		r.Sample(map[string]any{"case": h.idx, "plan": p.desc(), "cut": cutInfo, "in_flight": fl})
	}
	// Continuation: the recovered store must accept the channel's next step
	// (for an absent in-flight step that is the in-flight step itself) and land
	// on the next model state; a present in-flight exact append must replay as
	// AlreadyDurable without changing anything.
	switch v := contRng.IntN(12); {
	case v < 2:
		// the same image through the channel runtime's store factory
		store.close()
		h.adapterCheck(root, cutInfo, matched, stats)
		return
	case v < 6:
	default:
		return
	}
	c := contRng.IntN(len(p.chans))
	g := p.gens[c]
	ch := p.chans[c]
	j := matched[c]
	b := int(cut.b[c])
	if j == b && b > int(cut.a[c]) && g.steps[b-1].Kind == "xappend" {
		st := g.steps[b-1]
		rp := &c09Step{Kind: "xreplay", Chan: c, Props: st.Props, Committed: st.Committed, Class: st.Class, SrvAlloc: st.SrvAlloc, pre: st.pre}
		stats.add("continuation.exact_replay_of_present_in_flight", 1)
		if d := c09ExecOp(store, p.chans, c09Op{rp}); d != "" {
			h.violation("post-crash-exact-replay:result", map[string]any{"cut": cutInfo, "chan": c, "detail": d})
			return
		}
		if diff := c09Diff(c09Observe(store, ch, g.u), h.exp[c][j]); len(diff) > 0 {
			h.violation("post-crash-exact-replay:state-changed", map[string]any{"cut": cutInfo, "chan": c, "diff": diff[:min(len(diff), 10)]})
		}
		return
	}
	if j >= len(g.steps) {
		return
	}
	st := g.steps[j]
	stats.add("continuation.next_step_on_recovered_store", 1)
	if j < b {
		stats.add("continuation.reissue_of_absent_in_flight", 1)
	}
	if d := c09ExecOp(store, p.chans, c09Op{st}); d != "" {
		h.violation("post-crash-op-diverged:"+st.Kind, map[string]any{"cut": cutInfo, "chan": c, "step": st.desc(), "detail": d})
		return
	}
	if diff := c09Diff(c09Observe(store, ch, g.u), h.exp[c][j+1]); len(diff) > 0 {
		h.violation("post-crash-state-diverged:"+st.Kind, map[string]any{"clauses_differing": c09DiffKind(diff), "cut": cutInfo, "chan": c, "step": st.desc(), "diff": diff[:min(len(diff), 10)]})
	}
}

// c09ClauseCheck evaluates, on the observation of one reopened image and
// without any model, the clauses the property states verbatim:
//   - the recovered log end equals the last stored row; only when no stored row
//     lies above the logical retention boundary (fully trimmed log) may it be
//     the retained max seq instead;
//   - the committed watermark does not exceed the log end;
//   - every stored row has its secondary index rows (and, on exact channels,
//     its entry identity) and every index row / identity points at its row;
//   - on exact channels the durable frontier / recovery loaders load.
//
// It returns a signature stem ("" if all hold) and a one-line explanation.
var c09RowRe = regexp.MustCompile(`^(\d+)\|id=(\d+)\|from="([^"]*)"\|cno="([^"]*)"\|.*\|so=(true|false)\|`)

func c09ClauseCheck(ch *c09Chan, o map[string]string) (string, string) {
	var leo, l, ph, rm, e, ls, hw uint64
	if _, err := fmt.Sscanf(o["leo"], "%d", &leo); err != nil {
		return "recovered-log-end-unreadable", "leo=" + o["leo"]
	}
	if _, err := fmt.Sscanf(o["ret"], "%d/%d/%d", &l, &ph, &rm); err != nil {
		return "retention-state-unreadable", "ret=" + o["ret"]
	}
	if strings.HasPrefix(o["rows"], "ERR") {
		return "rows-unreadable", "rows=" + o["rows"]
	}
	type row struct {
		seq, id   uint64
		from, cno string
		so        bool
	}
	rows := map[uint64]row{}
	var last uint64
	for k, v := range o {
		if !strings.HasPrefix(k, "row/") {
			continue
		}
		m := c09RowRe.FindStringSubmatch(v)
		if m == nil {
			return "rows-unreadable", k + "=" + v
		}
		var r row
		fmt.Sscanf(m[1], "%d", &r.seq)
		fmt.Sscanf(m[2], "%d", &r.id)
		r.from, r.cno, r.so = m[3], m[4], m[5] == "true"
		rows[r.seq] = r
		last = max(last, r.seq)
	}
	if last > l {
		// at least one stored row above the logical retention boundary
		if leo != last {
			return "recovered-log-end-not-last-stored-row", fmt.Sprintf("recovered LEO %d, last stored row %d, retention %s", leo, last, o["ret"])
		}
	} else if leo != max(last, rm) {
		return "recovered-log-end-not-last-stored-row", fmt.Sprintf("recovered LEO %d, last stored row %d (none above the retention boundary), retention %s", leo, last, o["ret"])
	}
	for seq := last; seq > 0 && len(rows) > 0; seq-- {
		if _, ok := rows[seq]; !ok {
			if seq > ph {
				return "stored-rows-not-contiguous", fmt.Sprintf("row %d missing below last stored row %d (physical retention %d)", seq, last, ph)
			}
			break
		}
	}
	if o["ckpt"] != "absent" {
		if _, err := fmt.Sscanf(o["ckpt"], "%d/%d/%d", &e, &ls, &hw); err != nil {
			return "checkpoint-unreadable", "ckpt=" + o["ckpt"]
		}
		if hw > leo {
			return "committed-above-log-end", fmt.Sprintf("committed %d > recovered LEO %d", hw, leo)
		}
	}
	// rows -> indexes
	senderMax := map[string]uint64{}
	for _, r := range rows {
		if v, ok := o[fmt.Sprintf("id/%d", r.id)]; ok && v != fmt.Sprint(r.seq) {
			return "row-without-index", fmt.Sprintf("row %d id %d: message-id index says %s", r.seq, r.id, v)
		}
		if r.from != "" && r.cno != "" {
			if v, ok := o["idem/"+r.from+"|"+r.cno]; ok && v != fmt.Sprintf("%d:%d", r.seq, r.id) {
				return "row-without-index", fmt.Sprintf("row %d (%s,%s): idempotency index says %s", r.seq, r.from, r.cno, v)
			}
		}
		if r.cno != "" {
			if v, ok := o["cno/"+r.cno]; ok && !c09ListHas(v, r.seq) {
				return "row-without-index", fmt.Sprintf("row %d cno %s: client-msg-no index lists [%s]", r.seq, r.cno, v)
			}
		}
		if r.from != "" && !r.so {
			senderMax[r.from] = max(senderMax[r.from], r.seq)
		}
		if ch.Exact {
			if v, ok := o[fmt.Sprintf("ent/%d", r.seq)]; ok && v == "absent" {
				return "row-without-entry-identity", fmt.Sprintf("row %d has no entry identity", r.seq)
			}
		}
	}
	// indexes -> rows
	for k, v := range o {
		if strings.HasPrefix(v, "ERR:") && (strings.HasPrefix(k, "id/") || strings.HasPrefix(k, "idem/") || strings.HasPrefix(k, "sender/") || strings.HasPrefix(k, "cno/")) {
			return "index-without-row", k + " = " + v
		}
		switch {
		case strings.HasPrefix(k, "id/") && v != "none":
			var seq, id uint64
			fmt.Sscanf(v, "%d", &seq)
			fmt.Sscanf(k[3:], "%d", &id)
			if r, ok := rows[seq]; !ok || r.id != id {
				return "index-without-row", fmt.Sprintf("message-id index %d -> seq %d, no such row", id, seq)
			}
		case strings.HasPrefix(k, "idem/") && v != "none":
			var seq, id uint64
			fmt.Sscanf(v, "%d:%d", &seq, &id)
			if r, ok := rows[seq]; !ok || r.id != id || r.from+"|"+r.cno != k[5:] {
				return "index-without-row", fmt.Sprintf("idempotency index %s -> %s, no such row", k[5:], v)
			}
		case strings.HasPrefix(k, "sender/"):
			want := "none"
			if m := senderMax[k[7:]]; m > 0 {
				want = fmt.Sprint(m)
			}
			if v != want {
				return "index-without-row", fmt.Sprintf("sender index %s -> %s, stored rows say %s", k[7:], v, want)
			}
		case strings.HasPrefix(k, "cno/") && v != "":
			for _, part := range strings.Split(v, ",") {
				var seq uint64
				fmt.Sscanf(part, "%d", &seq)
				if r, ok := rows[seq]; !ok || r.cno != k[4:] {
					return "index-without-row", fmt.Sprintf("client-msg-no index %s lists seq %d, no such row", k[4:], seq)
				}
			}
		}
	}
	if ch.Exact {
		if v := o["frontier"]; strings.HasPrefix(v, "ERR:") {
			return "durable-frontier-unloadable", "LoadDurableFrontier: " + v
		}
		if v, ok := o["recovery"]; ok {
			return "durable-frontier-unloadable", "LoadDurableRecovery: " + v
		}
		for k, v := range o {
			if strings.HasPrefix(k, "ent/") && v != "absent" {
				var idx uint64
				fmt.Sscanf(k[4:], "%d", &idx)
				if idx > leo {
					return "entry-identity-above-log-end", fmt.Sprintf("identity at %d, recovered LEO %d", idx, leo)
				}
			}
		}
	}
	return "", ""
}

func c09ListHas(list string, seq uint64) bool {
	for _, part := range strings.Split(list, ",") {
		if part == fmt.Sprint(seq) {
			return true
		}
	}
	return false
}

// checkReopened reopens a quiescent image of mem (everything issued so far was
// acknowledged) as power-loss and as kill image and applies the model-free
// clauses to every channel. kindOf names the last mutation of a channel. It
// reports violations and returns true if any clause failed. A clean restart
// right after a mutation returned is a crash point like any other.
func (h *c09Hist) checkReopened(mem *vfs.MemFS, tag string, kindOf func(c int) string, extra map[string]any) bool {
	bad := false
	rng := rand.New(rand.NewPCG(5, 6))
	for _, pct := range []int{0, 100} {
		root := fmt.Sprintf("h%dq%s%d", h.idx, tag, pct)
		c09TheMux.register(root, c09Clone(mem, &h.fsMu, vfs.CrashCloneCfg{UnsyncedDataPercent: pct, RNG: rng}))
		s, err := c09OpenStore(root, h.plan.chans)
		if err != nil {
			c09TheMux.unregister(root)
			h.violation("reopen-failed:open", map[string]any{"pct": pct, "when": "quiescent image after " + tag, "err": err.Error()})
			return true
		}
		for c, ch := range h.plan.chans {
			obs := c09Observe(s, ch, h.plan.gens[c].u)
			if sig, why := c09ClauseCheck(ch, obs); sig != "" {
				bad = true
				w := map[string]any{"pct": pct, "when": "quiescent image, no operation in flight (" + tag + ")", "chan": c, "exact": ch.Exact, "typed": ch.Typed,
					"clause": why, "leo": obs["leo"], "rows": obs["rows"], "ret": obs["ret"], "ckpt": obs["ckpt"], "frontier": obs["frontier"]}
				for k, v := range extra {
					w[k] = v
				}
				h.violation(sig+":"+kindOf(c), w)
			}
		}
		s.close()
		c09TheMux.unregister(root)
		if bad {
			break
		}
	}
	return bad
}

// ---------------------------------------------------------------------------

func c09RunHistory(r *verifkit.Run, idx int, stats *c09AuditStats, opsPerIssuer, maxCuts int, pCut float64) {
	rng := r.Rand(9, uint64(idx))
	h := &c09Hist{r: r, idx: idx, seed: []uint64{rng.Uint64(), rng.Uint64()}}
	h.plan = c09MakePlan(rng, opsPerIssuer, false)
	c09RunPlan(h, stats, maxCuts, pCut)
}

// c09RunPlan runs reference, live run under crash images and audits for h.plan.
func c09RunPlan(h *c09Hist, stats *c09AuditStats, maxCuts int, pCut float64) {
	p := h.plan
	r := h.r
	_ = r
	for _, g := range p.gens {
		for _, st := range g.steps {
			stats.add("steps."+st.desc(), 1)
		}
		stats.add("steps.total", len(g.steps))
	}
	if !h.reference() {
		return
	}
	h.begun = make([]atomic.Int64, len(p.chans))
	h.acked = make([]atomic.Int64, len(p.chans))
	h.cutRng = rand.New(rand.NewPCG(h.seed[0], h.seed[1]))
	h.pCut, h.maxCuts = pCut, maxCuts
	h.cutCh = make(chan *c09Cut, 48)
	contRng := rand.New(rand.NewPCG(h.seed[1], h.seed[0]))
	var awg sync.WaitGroup
	awg.Add(1)
	go func() {
		defer awg.Done()
		for cut := range h.cutCh {
			h.audit(cut, stats, contRng)
		}
	}()
	h.live()
	close(h.cutCh)
	awg.Wait()
	stats.add("histories", 1)
	if len(p.issuers) > 1 {
		stats.add("histories.concurrent_issuers", 1)
	}
	if p.chans[0].Typed {
		stats.add("histories.typed_channel_log_api", 1)
	}
	if p.coord != nil {
		stats.add("histories.reconfigured_commit_coordinator", 1)
	}
}

func TestVerifC09Crashfs(t *testing.T) {
	r := verifkit.Start(t, "C09", "crashfs")
	defer r.Finish()
	c09InstallSeam()
	r.SetRule("Case = one generated history over 1-4 channels of one flavour. Compatibility flavour (message.Engine/ChannelStore, the surface behind pkg/channel/store): exact-proposal channels (StoreAppendBatch exact appends with manifests/identities and piggy-backed committed HW, adjacent proposals in one call, cross-channel batches, all three append classes, exact replays, rejected gap/bad-predecessor appends, ReplaceRecoverySuffix incl. re-certified entries and reused command ids, proposal-boundary Truncate/TruncateLogAndHistory, rejected proposal-splitting truncation) and legacy channels (Append/AppendServerAllocated/AppendTrusted/batched appends, StoreApplyFetch[Trusted][WithEpoch] and StoreApplyFetchTrustedBatch with full checkpoint, HW-only checkpoint and epoch point, rejected duplicate idempotency key); both: StoreCheckpoint[Monotonic], StoreCheckpointHWMonotonic[Batch], rejected checkpoint regression, BeginEpoch, InstallSnapshotAtomically, AdvanceCommittedDispatchCursorDurable, AdoptRetentionBoundary, bounded multi-call TrimMessagesThroughLimit (MaxMessages/MaxBytes), rejected trims. Typed flavour (engine.Open+message.NewDB as db.OpenNodeStore does, ChannelLog API): Append (3 modes, pinned base), ApplyFetch, StoreCheckpoint[Monotonic], TruncateFrom, adopting TrimPrefixThroughLimit, AppendHistory, InstallSnapshot. 1-4 concurrent sequential issuers, commit coordinator default or re-configured (shards 1/2/4, request cap, collection window); clean and crash restarts inside single-issuer histories. Plus restore-cleanup scenarios: MessageDBFactory.DiscardRestoreChannels over >1024 rows with an image before every filesystem event of the cleanup. A crash image is cloned before PRNG-selected filesystem write/sync/create/rename events (i.e. while an operation is between its WAL write and its acknowledgement), between operations, and from a free-running goroutine: 100% = process-kill image, 0% = power loss dropping all unsynced data, 1-99% = random unsynced 4K blocks/dir entries. Evaluation = one image reopened through the normal open path and audited. Non-trivial = image taken while >=1 step was in flight on the channel, or an image that verifiably lacks data present in the simultaneous full image; distinct by (channel kind, in-flight step kind/variant, pct class, filesystem event, in-flight step present/absent, lossy).")
	r.Assume("per channel the issuer is sequential: admissible recovered states are the model states after step j, lastAcked <= j <= lastBegun (each storage call is one step; a bounded trim loop is one step per call)")
	r.Assume("CrashableMem models lost unsynced file data and directory entries at 4K-block granularity; no torn sectors, no reordering of synced writes; only engines opened through engine.Open see the seam")
	r.Note("not_reached", []string{
		"ChannelLog.StoreRetentionState / TruncateHistoryTo / StoreSnapshotPayload, ChannelStore.PutIdempotency, non-durable StoreCommittedDispatchCursor",
		"backup snapshot import / restore staging (ImportBackupSnapshot*), pkg/db/meta",
		"ChannelLog.TruncateFrom below RetentionState.RetainedMaxSeq (typed API leaves the retention record untouched; not driven)",
		"strace-based sync-before-ack trace check (design mechanism 3) and strace-injected kills at the N-th pwrite/fdatasync; the filesystem-event images of unit crashfs stand in for them",
	})
	stats := &c09AuditStats{m: map[string]int{}}
	nHist := r.N(48, 480)
	ops := r.N(26, 34)
	maxCuts := r.N(140, 220)
	pCut := 0.5
	workers := max(2, min(8, runtime.GOMAXPROCS(0)/2))
	var wg sync.WaitGroup
	next := atomic.Int64{}
	for w := 0; w < workers; w++ {
		wg.Add(1)
		go func() {
			defer wg.Done()
			for {
				i := int(next.Add(1)) - 1
				if i >= nHist {
					return
				}
				if r.Skip(i) {
					continue
				}
				c09RunHistory(r, i, stats, ops, maxCuts, pCut)
			}
		}()
	}
	wg.Wait()
	for i := 0; i < r.N(2, 12); i++ {
		if r.Skip(100000 + i) {
			continue
		}
		c09DiscardScenario(r, i, stats)
	}
	// large-truncate family: suffix cuts of 256-800 rows, an image at EVERY
	// filesystem event of the history (pCut = 1)
	for i := 0; i < r.N(4, 24); i++ {
		idx := 200000 + i
		if r.Skip(idx) {
			continue
		}
		rng := r.Rand(41, uint64(i))
		h := &c09Hist{r: r, idx: idx, seed: []uint64{rng.Uint64(), rng.Uint64()}}
		h.plan = c09LargeTruncPlan(rng, i%2 == 0)
		c09RunPlan(h, stats, 400, 1.0)
		stats.add("histories.large_truncate", 1)
	}
	for k, v := range stats.m {
		r.Count(k, v)
	}
}
