//go:build verif

package cluster_test

// Unit "reader" of C10: internal/infra/cluster.ChannelMessageReader (the
// message-sync port: SyncMessages / SyncMessagesBatch). It translates a
// client pull (StartSeq/EndSeq/MinSeq/Limit/PullMode) into a committed read,
// and is the place where SyncOnce barrier/command records are removed from
// ordinary pages.
//
// The read node behind the reader is not a canned fake: it delegates to a real
// pkg/cluster/channels.Service (exactly what cluster.Node.ReadChannelCommittedBatch
// does), node 1 of a two-node pair joined by the real forward codec, so a sync
// is judged end to end: query -> request -> HW cap / retention floor -> store
// -> (codec) -> SyncOnce filter -> page. The harness is the only writer of the
// serving store, so the committed frontier, the retention floor and the set of
// SyncOnce records are known exactly.

import (
	"context"
	"fmt"
	"math/rand/v2"
	"strings"
	"sync"
	"testing"

	infracluster "github.com/WuKongIM/WuKongIM/internal/infra/cluster"
	"github.com/WuKongIM/WuKongIM/internal/usecase/message"
	ch "github.com/WuKongIM/WuKongIM/pkg/channel"
	"github.com/WuKongIM/WuKongIM/pkg/channel/store"
	channeltransport "github.com/WuKongIM/WuKongIM/pkg/channel/transport"
	"github.com/WuKongIM/WuKongIM/pkg/cluster/channels"
	clusternet "github.com/WuKongIM/WuKongIM/pkg/cluster/net"
	"github.com/WuKongIM/WuKongIM/pkg/verifkit"
)

var (
	c10rVMu   sync.Mutex
	c10rVSeen = map[string]int{}
)

// c10rV keeps one witness per signature, counts every occurrence.
func c10rV(r *verifkit.Run, sig string, witness any) {
	c10rVMu.Lock()
	c10rVSeen[sig]++
	n := c10rVSeen[sig]
	c10rVMu.Unlock()
	r.Count("viol."+sig, 1)
	if n == 1 {
		r.Violation(sig, witness)
	}
}

type c10rRuntime struct{}

func (c10rRuntime) ApplyMeta(ch.Meta) error { return nil }
func (c10rRuntime) Append(context.Context, ch.AppendRequest) (ch.AppendResult, error) {
	return ch.AppendResult{}, ch.ErrNotLeader
}
func (c10rRuntime) AppendBatch(context.Context, ch.AppendBatchRequest) (ch.AppendBatchResult, error) {
	return ch.AppendBatchResult{}, ch.ErrNotLeader
}
func (c10rRuntime) Tick(context.Context) error { return nil }
func (c10rRuntime) Close() error               { return nil }
func (c10rRuntime) HandlePull(context.Context, channeltransport.PullRequest) (channeltransport.PullResponse, error) {
	return channeltransport.PullResponse{}, ch.ErrNotLeader
}
func (c10rRuntime) HandleAck(context.Context, channeltransport.AckRequest) error { return nil }
func (c10rRuntime) HandlePullHint(context.Context, channeltransport.PullHintRequest) error {
	return nil
}
func (c10rRuntime) HandleNotify(context.Context, channeltransport.NotifyRequest) error { return nil }

type c10rMetaSource struct {
	mu    sync.Mutex
	metas map[ch.ChannelID]ch.Meta
}

func (m *c10rMetaSource) ResolveChannelMeta(ctx context.Context, id ch.ChannelID) (ch.Meta, error) {
	m.mu.Lock()
	defer m.mu.Unlock()
	meta, ok := m.metas[id]
	if !ok {
		return ch.Meta{}, ch.ErrChannelNotFound
	}
	meta.Replicas = append([]ch.NodeID(nil), meta.Replicas...)
	meta.ISR = append([]ch.NodeID(nil), meta.ISR...)
	return meta, nil
}

func (m *c10rMetaSource) set(meta ch.Meta) {
	m.mu.Lock()
	m.metas[meta.ID] = meta
	m.mu.Unlock()
}

func (m *c10rMetaSource) drop(id ch.ChannelID) {
	m.mu.Lock()
	delete(m.metas, id)
	m.mu.Unlock()
}

// c10rNode is the read node handed to the reader; it is what cluster.Node is
// for the production wiring: a thin delegate to channels.Service.
type c10rNode struct {
	svc   *channels.Service
	mu    sync.Mutex
	calls int
	last  []channels.CommittedRead
}

func (n *c10rNode) ReadChannelCommitted(ctx context.Context, id ch.ChannelID, req store.ReadCommittedRequest) (store.ReadCommittedResult, error) {
	res, err := n.ReadChannelCommittedBatch(ctx, []channels.CommittedRead{{ChannelID: id, Request: req}})
	if err != nil {
		return store.ReadCommittedResult{}, err
	}
	return res[0].Read, res[0].Err
}

func (n *c10rNode) ReadChannelCommittedBatch(ctx context.Context, reads []channels.CommittedRead) ([]channels.CommittedReadResult, error) {
	n.mu.Lock()
	n.calls++
	n.last = append([]channels.CommittedRead(nil), reads...)
	n.mu.Unlock()
	return n.svc.ReadCommittedBatch(ctx, reads)
}

type c10rRec struct {
	ID       uint64
	Payload  string
	SyncOnce bool
}

func c10rPayload(id uint64, n int) []byte {
	b := make([]byte, n)
	x := id*0x9e3779b97f4a7c15 + 1
	for i := range b {
		x ^= x << 13
		x ^= x >> 7
		x ^= x << 17
		b[i] = 'a' + byte(x%26)
	}
	return b
}

type c10rCase struct {
	r      *verifkit.Run
	rng    *rand.Rand
	id     ch.ChannelID
	leader ch.NodeID
	cs     store.ChannelStore
	metas  map[ch.NodeID]*c10rMetaSource
	reader *infracluster.ChannelMessageReader
	node   *c10rNode
	recs   map[uint64]c10rRec
	nextID uint64
	log    []string

	leo, maxCP, adopted uint64
	minISR              int
	retention           uint64

	sawRegress, sawCross, sawCap, sawSyncOnceInRange bool
	shape                                            strings.Builder
}

func (c *c10rCase) logf(format string, a ...any) {
	if len(c.log) < 300 {
		c.log = append(c.log, fmt.Sprintf(format, a...))
	}
}

func (c *c10rCase) publishMeta() {
	m := ch.Meta{Key: ch.ChannelKeyForID(c.id), ID: c.id, Epoch: 2, LeaderEpoch: 4, Leader: c.leader, Replicas: []ch.NodeID{1, 2, 3}, ISR: []ch.NodeID{1, 2, 3},
		MinISR: c.minISR, RetentionThroughSeq: c.retention, Status: ch.StatusActive}
	c.metas[1].set(m)
	c.metas[2].set(m)
}

func (c *c10rCase) committed() uint64 {
	if c.minISR <= 1 || c.maxCP > c.leo {
		return c.leo
	}
	return c.maxCP
}

func (c *c10rCase) floor() uint64 {
	if c.adopted > c.retention {
		return c.adopted
	}
	return c.retention
}

func (c *c10rCase) stepAppend() {
	n := 1 + c.rng.IntN(4)
	recs := make([]ch.Record, n)
	sh := make([]c10rRec, n)
	for i := range recs {
		c.nextID++
		p := c10rPayload(c.nextID, 1+c.rng.IntN(24))
		so := c.rng.IntN(100) < 30
		recs[i] = ch.Record{ID: c.nextID, Payload: p, SizeBytes: len(p), SyncOnce: so, FromUID: "u1", ClientMsgNo: fmt.Sprintf("c%d", c.nextID)}
		sh[i] = c10rRec{ID: c.nextID, Payload: string(p), SyncOnce: so}
	}
	res, err := c.cs.AppendLeader(context.Background(), store.AppendLeaderRequest{Records: recs})
	if err != nil || res.LastOffset-res.BaseOffset+1 != uint64(n) {
		c.r.Count("reader.append_err", 1)
		return
	}
	var marks []string
	for i := range recs {
		c.recs[res.BaseOffset+uint64(i)] = sh[i]
		if sh[i].SyncOnce {
			marks = append(marks, fmt.Sprint(res.BaseOffset+uint64(i)))
		}
	}
	c.leo = res.LastOffset
	c.logf("append [%d,%d] synconce=%v", res.BaseOffset, res.LastOffset, marks)
	c.shape.WriteString("A")
}

func (c *c10rCase) stepCheckpoint() {
	hw := c.maxCP + uint64(c.rng.IntN(3))
	if c.rng.IntN(4) == 0 && c.maxCP > 0 {
		hw = uint64(c.rng.IntN(int(c.maxCP)))
	}
	if hw > c.leo {
		hw = c.leo
	}
	if err := c.cs.StoreCheckpoint(context.Background(), ch.Checkpoint{HW: hw}); err == nil && hw > c.maxCP {
		c.maxCP = hw
	}
	c.logf("checkpoint hw=%d (max %d)", hw, c.maxCP)
	c.shape.WriteString("C")
}

func (c *c10rCase) stepRetention() {
	if c.leo == 0 {
		return
	}
	switch x := c.rng.IntN(100); {
	case x < 30: // adopt locally (forward / backward / repeated)
		through := c.adopted + 1
		if c.rng.IntN(3) == 0 && c.adopted > 1 {
			through = 1 + uint64(c.rng.IntN(int(c.adopted)))
		}
		if through > c.leo {
			through = c.leo
		}
		if through < c.adopted {
			c.sawRegress = true
		}
		if _, err := c.cs.AdoptRetentionBoundary(context.Background(), through, ch.RetentionCursorCommitted); err == nil && through > c.adopted {
			c.adopted = through
		}
		c.logf("adopt through=%d (max adopted %d)", through, c.adopted)
		c.shape.WriteString("a")
	case x < 40 && c.adopted > 0:
		through := 1 + uint64(c.rng.IntN(int(c.adopted)))
		res, err := c.cs.TrimMessagesThrough(context.Background(), through, store.RetentionTrimOptions{})
		c.logf("trim through=%d -> deleted=%d err=%v", through, res.Deleted, err)
		c.shape.WriteString("T")
	default: // authoritative meta boundary
		next := c.retention + 1 + uint64(c.rng.IntN(2))
		if c.rng.IntN(3) == 0 && c.retention > 0 {
			next = uint64(c.rng.IntN(int(c.retention)))
			c.sawRegress = true
		}
		if next > c.leo {
			next = c.leo
		}
		c.retention = next
		if c.rng.IntN(4) == 0 {
			c.minISR = 1 + c.rng.IntN(3)
		}
		c.publishMeta()
		c.logf("meta retention=%d minISR=%d", c.retention, c.minISR)
		c.shape.WriteString("M")
	}
}

func (c *c10rCase) genQuery() message.ChannelMessageQuery {
	floor, committed, leo := c.floor(), c.committed(), c.leo
	pick := func(zeroP int) uint64 {
		switch x := c.rng.IntN(100); {
		case x < zeroP:
			return 0
		case x < zeroP+20:
			b := floor
			if b > 0 {
				b--
			}
			return b + uint64(c.rng.IntN(4))
		case x < zeroP+40:
			if committed == 0 {
				return uint64(c.rng.IntN(3))
			}
			return committed - 1 + uint64(c.rng.IntN(3))
		case x < zeroP+50:
			return leo + uint64(c.rng.IntN(3))
		default:
			return uint64(c.rng.IntN(int(leo) + 3))
		}
	}
	q := message.ChannelMessageQuery{ChannelID: message.ChannelID{ID: c.id.ID, Type: c.id.Type}, StartSeq: pick(30), EndSeq: pick(45), Limit: c.rng.IntN(int(leo) + 4)}
	if c.rng.IntN(2) == 0 {
		q.PullMode = message.PullModeUp
	}
	if c.rng.IntN(100) < 45 {
		q.MinSeq = pick(0)
	}
	if c.rng.IntN(4) == 0 {
		q.Limit = c.rng.IntN(3)
	}
	return q
}

func c10rQ(q message.ChannelMessageQuery) map[string]any {
	mode := "down"
	if q.PullMode == message.PullModeUp {
		mode = "up"
	}
	return map[string]any{"start": q.StartSeq, "end": q.EndSeq, "min": q.MinSeq, "limit": q.Limit, "mode": mode}
}

func (c *c10rCase) judge(q message.ChannelMessageQuery, page message.ChannelMessagePage, api string) {
	path := "local"
	if c.leader != 1 {
		path = "forwarded"
	}
	committed, floor := c.committed(), c.floor()
	seqs := make([]uint64, len(page.Messages))
	for i, m := range page.Messages {
		seqs[i] = m.MessageSeq
	}
	c.logf("%s path=%s committed=%d(cp=%d leo=%d minISR=%d) floor=%d(meta=%d adopted=%d) %v -> %v more=%v", api, path, committed, c.maxCP, c.leo, c.minISR, floor, c.retention, c.adopted, c10rQ(q), seqs, page.HasMore)
	w := func() map[string]any {
		var so []uint64
		for s, r := range c.recs {
			if r.SyncOnce {
				so = append(so, s)
			}
		}
		return map[string]any{"api": api, "path": path, "query": c10rQ(q), "returned": seqs, "committed": committed, "persisted_hw": c.maxCP, "leo": c.leo, "min_isr": c.minISR,
			"meta_retention": c.retention, "adopted_retention": c.adopted, "synconce_seqs": so, "history": c.log}
	}
	c.r.Count("reader.messages", len(seqs))
	reverse := q.PullMode == message.PullModeDown || (q.StartSeq == 0 && q.EndSeq == 0)
	dir := "up"
	if reverse {
		dir = "down"
	}
	for i, m := range page.Messages {
		rec, ok := c.recs[m.MessageSeq]
		if !ok || rec.ID != m.MessageID || rec.Payload != string(m.Payload) {
			c10rV(c.r, "sync-phantom-message", w())
			break
		}
		if rec.SyncOnce {
			c10rV(c.r, "sync-returned-synconce-record:"+path, w())
			break
		}
		if m.MessageSeq > committed {
			kind := "hw>0"
			if committed == 0 {
				kind = "committed=0"
			}
			c10rV(c.r, "sync-above-committed:"+kind+":"+dir, w())
			break
		}
		if m.MessageSeq <= floor {
			c10rV(c.r, "sync-at-or-below-retention:"+dir, w())
			break
		}
		if q.MinSeq > 0 && m.MessageSeq < q.MinSeq {
			c10rV(c.r, "sync-below-minseq:"+dir, w())
			break
		}
		if i > 0 && m.MessageSeq <= page.Messages[i-1].MessageSeq {
			c.r.Count("reader.note.page_not_ascending", 1)
		}
		// pull-window translation (not part of the C10 statement): counted only
		if (q.PullMode == message.PullModeDown && (q.StartSeq > 0 && m.MessageSeq > q.StartSeq || q.EndSeq > 0 && m.MessageSeq <= q.EndSeq)) ||
			(q.PullMode == message.PullModeUp && (q.StartSeq > 0 && m.MessageSeq < q.StartSeq || q.EndSeq > 0 && m.MessageSeq >= q.EndSeq)) {
			c.r.Count("reader.note.outside_pull_window", 1)
		}
	}
	// what made this sync interesting
	lo, hi := floor+1, committed
	for s := lo; s <= hi && s < lo+64; s++ {
		if c.recs[s].SyncOnce {
			c.sawSyncOnceInRange = true
			c.r.Count("reader.sync_with_synconce_in_visible_range", 1)
			break
		}
	}
	if c.minISR > 1 && c.leo > committed {
		c.sawCap = true
		c.r.Count("reader.sync_with_uncommitted_tail", 1)
	}
	if reverse && floor > 0 && len(seqs) > 0 && !page.HasMore && q.MinSeq <= floor+1 && (q.EndSeq == 0 || q.EndSeq <= floor) {
		c.sawCross = true
		c.r.Count("reader.reverse_cross_floor", 1)
	}
	c.shape.WriteString(dir[:1] + c10rB(q.StartSeq, committed) + c10rB(q.EndSeq, floor) + c10rB(q.MinSeq, floor+1))
}

func c10rB(v, ref uint64) string {
	switch {
	case v == 0:
		return "0"
	case v < ref:
		return "<"
	case v == ref:
		return "="
	default:
		return ">"
	}
}

func (c *c10rCase) stepSync() {
	if c.rng.IntN(4) == 0 {
		qs := make([]message.ChannelMessageQuery, 1+c.rng.IntN(3))
		for i := range qs {
			qs[i] = c.genQuery()
		}
		var res []message.ChannelMessageReadResult
		var err error
		if c.r.Guard("SyncMessagesBatch", nil, func() { res, err = c.reader.SyncMessagesBatch(context.Background(), qs) }) {
			return
		}
		if err != nil || len(res) != len(qs) {
			c.r.Count("reader.batch_err", 1)
			return
		}
		for i := range qs {
			c.r.Eval(1)
			if res[i].Err != nil {
				c.r.Count("reader.item_err", 1)
				continue
			}
			c.judge(qs[i], res[i].Page, "SyncMessagesBatch")
		}
		return
	}
	q := c.genQuery()
	var page message.ChannelMessagePage
	var err error
	if c.r.Guard("SyncMessages", nil, func() { page, err = c.reader.SyncMessages(context.Background(), q) }) {
		return
	}
	c.r.Eval(1)
	if err != nil {
		c.r.Count("reader.sync_err", 1)
		c.logf("SyncMessages %v -> err=%v", c10rQ(q), err)
		return
	}
	c.judge(q, page, "SyncMessages")
}

func TestVerifC10Reader(t *testing.T) {
	r := verifkit.Start(t, "C10", "reader")
	defer r.Finish()
	r.SetRule("Per case one channel on a two-node pair of real channels.Service instances over memory stores (leader = node 1: local read; leader = node 2: read forwarded through the real RPC codec); node 1's service is the read node of a real ChannelMessageReader. The harness alone writes the serving store: appends (30% SyncOnce records), checkpoints forward/regressive, retention adoption/meta boundary forward/backward, trims, MinISR 1..3. SyncMessages / SyncMessagesBatch are called with StartSeq/EndSeq/MinSeq/Limit drawn around floor, HW, LEO and 0, in both pull modes (latest page when both bounds are 0); every page is one evaluation. Non-trivial = case has a backward boundary update, a sync whose visible range contains a SyncOnce record, a sync with an uncommitted tail above the persisted HW, and a downward pull that ran into the retention floor. Distinct = leader placement + step/query shape string.")
	r.Assume("committed frontier = highest checkpoint the harness stored (capped by LEO), or LEO when MinISR<=1; floor = max(meta RetentionThroughSeq published for the read, highest boundary adopted in the serving store).")

	metas := map[ch.NodeID]*c10rMetaSource{1: {metas: map[ch.ChannelID]ch.Meta{}}, 2: {metas: map[ch.ChannelID]ch.Meta{}}}
	factories := map[ch.NodeID]store.Factory{1: store.NewMemoryFactory(), 2: store.NewMemoryFactory()}
	network := clusternet.NewLocalNetwork()
	svcs := map[ch.NodeID]*channels.Service{}
	for _, n := range []ch.NodeID{1, 2} {
		svc, err := channels.NewService(channels.Config{Runtime: c10rRuntime{}, LocalNode: n, MetaSource: metas[n], Store: factories[n], Forward: channels.NewTransportClient(network)})
		if err != nil {
			r.Inconclusive("NewService: " + err.Error())
			return
		}
		svcs[n] = svc
		channels.RegisterServiceHandlers(network, uint64(n), svc)
	}
	node := &c10rNode{svc: svcs[1]}
	reader := infracluster.NewChannelMessageReader(node)

	nCases := r.N(2500, 40000)
	for i := 0; i < nCases; i++ {
		if r.Skip(i) {
			continue
		}
		rng := r.Rand(0x4ead, uint64(i))
		leader := ch.NodeID(1 + rng.IntN(2))
		r.BeginCase(i, fmt.Sprintf("leader=%d", leader))
		id := ch.ChannelID{ID: fmt.Sprintf("c10r-%d-%d", r.Seed, i), Type: 2}
		cs, err := factories[leader].ChannelStore(ch.ChannelKeyForID(id), id)
		if err != nil {
			r.Inconclusive("ChannelStore: " + err.Error())
			return
		}
		c := &c10rCase{r: r, rng: rng, id: id, leader: leader, cs: cs, metas: metas, reader: reader, node: node, recs: map[uint64]c10rRec{},
			nextID: uint64(i+1) * 1_000_000, minISR: 1 + rng.IntN(3)}
		c.shape.WriteString(fmt.Sprintf("L%d:", leader))
		c.publishMeta()
		steps := 25 + rng.IntN(26)
		r.Guard("reader-step", nil, func() {
			c.stepAppend()
			if rng.IntN(2) == 0 {
				c.stepSync()
			}
			for s := 0; s < steps; s++ {
				switch x := rng.IntN(100); {
				case x < 16:
					c.stepAppend()
				case x < 30:
					c.stepCheckpoint()
				case x < 46:
					c.stepRetention()
				default:
					c.stepSync()
				}
			}
		})
		_ = cs.Close()
		metas[1].drop(id)
		metas[2].drop(id)
		if c.sawRegress && c.sawSyncOnceInRange && c.sawCap && c.sawCross {
			r.Nontrivial(c.shape.String())
		}
		if r.WantSample() && c.sawRegress && c.sawSyncOnceInRange && c.sawCap && c.sawCross {
			r.Sample(map[string]any{"case": i, "leader": leader, "history": c.log})
		}
	}
	node.mu.Lock()
	r.Count("reader.read_node_calls", node.calls)
	node.mu.Unlock()
}
