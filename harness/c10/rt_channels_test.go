//go:build verif

package c10_test

// Unit "channels": pkg/cluster/channels.Service.ReadCommittedBatch /
// readLocalCommitted. This is the layer where the committed cap and the
// logical retention floor are applied to a caller's request:
//
//	MaxSeq  <= persisted HW of the serving store (LEO when MinISR <= 1)
//	MinSeq  >= max(meta.RetentionThroughSeq, locally adopted boundary) + 1
//
// Two real Services (node 1 = origin, node 2) are joined by the real
// TransportClient/RegisterServiceHandlers codec over a LocalNetwork, each with
// its own store factory (memory or MessageDB) and a harness meta source. The
// harness is the only writer of the stores, so the committed frontier and the
// adopted boundary are known exactly at every read. Three serving paths are
// driven: local leader, forwarded to node 2, and node 2 serving without
// metadata (missing-meta fallback fenced by the origin's expectations).

import (
	"context"
	"errors"
	"fmt"
	"math/rand/v2"
	"os"
	"strings"
	"sync"
	"testing"

	ch "github.com/WuKongIM/WuKongIM/pkg/channel"
	"github.com/WuKongIM/WuKongIM/pkg/channel/store"
	channeltransport "github.com/WuKongIM/WuKongIM/pkg/channel/transport"
	"github.com/WuKongIM/WuKongIM/pkg/cluster/channels"
	clusternet "github.com/WuKongIM/WuKongIM/pkg/cluster/net"
	"github.com/WuKongIM/WuKongIM/pkg/verifkit"
)

// c10FakeRuntime satisfies the runtime surface the Service wraps; committed
// reads never touch it (they go to the store factory).
type c10FakeRuntime struct{}

func (c10FakeRuntime) ApplyMeta(ch.Meta) error { return nil }
func (c10FakeRuntime) Append(context.Context, ch.AppendRequest) (ch.AppendResult, error) {
	return ch.AppendResult{}, ch.ErrNotLeader
}
func (c10FakeRuntime) AppendBatch(context.Context, ch.AppendBatchRequest) (ch.AppendBatchResult, error) {
	return ch.AppendBatchResult{}, ch.ErrNotLeader
}
func (c10FakeRuntime) Tick(context.Context) error { return nil }
func (c10FakeRuntime) Close() error               { return nil }
func (c10FakeRuntime) HandlePull(context.Context, channeltransport.PullRequest) (channeltransport.PullResponse, error) {
	return channeltransport.PullResponse{}, ch.ErrNotLeader
}
func (c10FakeRuntime) HandleAck(context.Context, channeltransport.AckRequest) error { return nil }
func (c10FakeRuntime) HandlePullHint(context.Context, channeltransport.PullHintRequest) error {
	return nil
}
func (c10FakeRuntime) HandleNotify(context.Context, channeltransport.NotifyRequest) error {
	return nil
}

type c10MetaSource struct {
	mu      sync.Mutex
	metas   map[ch.ChannelID]ch.Meta
	missing map[ch.ChannelID]bool
}

func c10NewMetaSource() *c10MetaSource {
	return &c10MetaSource{metas: map[ch.ChannelID]ch.Meta{}, missing: map[ch.ChannelID]bool{}}
}

func (m *c10MetaSource) ResolveChannelMeta(ctx context.Context, id ch.ChannelID) (ch.Meta, error) {
	if err := ctx.Err(); err != nil {
		return ch.Meta{}, err
	}
	m.mu.Lock()
	defer m.mu.Unlock()
	meta, ok := m.metas[id]
	if !ok || m.missing[id] {
		return ch.Meta{}, ch.ErrChannelNotFound
	}
	meta.Replicas = append([]ch.NodeID(nil), meta.Replicas...)
	meta.ISR = append([]ch.NodeID(nil), meta.ISR...)
	return meta, nil
}

func (m *c10MetaSource) set(meta ch.Meta) {
	m.mu.Lock()
	m.metas[meta.ID] = meta
	m.mu.Unlock()
}

func (m *c10MetaSource) get(id ch.ChannelID) (ch.Meta, bool) {
	m.mu.Lock()
	defer m.mu.Unlock()
	meta, ok := m.metas[id]
	return meta, ok && !m.missing[id]
}

func (m *c10MetaSource) setMissing(id ch.ChannelID, missing bool) {
	m.mu.Lock()
	m.missing[id] = missing
	m.mu.Unlock()
}

func (m *c10MetaSource) drop(id ch.ChannelID) {
	m.mu.Lock()
	delete(m.metas, id)
	delete(m.missing, id)
	m.mu.Unlock()
}

// c10ChanWorld is one pair of services over one store kind.
type c10ChanWorld struct {
	kind      string
	factories map[ch.NodeID]store.Factory
	metas     map[ch.NodeID]*c10MetaSource
	svcs      map[ch.NodeID]*channels.Service
}

func c10NewChanWorld(kind string, f1, f2 store.Factory) (*c10ChanWorld, error) {
	w := &c10ChanWorld{kind: kind,
		factories: map[ch.NodeID]store.Factory{1: f1, 2: f2},
		metas:     map[ch.NodeID]*c10MetaSource{1: c10NewMetaSource(), 2: c10NewMetaSource()},
		svcs:      map[ch.NodeID]*channels.Service{}}
	network := clusternet.NewLocalNetwork()
	for _, node := range []ch.NodeID{1, 2} {
		svc, err := channels.NewService(channels.Config{Runtime: c10FakeRuntime{}, LocalNode: node, MetaSource: w.metas[node],
			Store: w.factories[node], Forward: channels.NewTransportClient(network)})
		if err != nil {
			return nil, err
		}
		w.svcs[node] = svc
		channels.RegisterServiceHandlers(network, uint64(node), svc)
	}
	return w, nil
}

type c10ChanCase struct {
	r      *verifkit.Run
	rng    *rand.Rand
	w      *c10ChanWorld
	id     ch.ChannelID
	leader ch.NodeID
	cs     store.ChannelStore // serving (leader) store, harness handle
	shadow *c10Shadow
	nextID uint64
	log    []string

	leo       uint64 // highest offset returned by an append / LEO after adoption
	maxCP     uint64 // highest checkpoint HW written by the harness
	adopted   uint64 // highest boundary successfully adopted by the harness
	node2Mode string // "present" | "missing" | "stale-epoch" | "other-leader"

	sawRegress, sawCross, sawCap bool
	paths                        map[string]bool
	shape                        strings.Builder
}

func (c *c10ChanCase) logf(format string, a ...any) {
	if len(c.log) < 400 {
		c.log = append(c.log, fmt.Sprintf(format, a...))
	}
}

func (c *c10ChanCase) provenHW() uint64 {
	if c.maxCP < c.leo {
		return c.maxCP
	}
	return c.leo
}

func (c *c10ChanCase) baseMeta(minISR int, retention uint64) ch.Meta {
	return ch.Meta{Key: ch.ChannelKeyForID(c.id), ID: c.id, Epoch: 3, LeaderEpoch: 5, Leader: c.leader,
		Replicas: []ch.NodeID{1, 2, 3}, ISR: []ch.NodeID{1, 2, 3}, MinISR: minISR, RetentionThroughSeq: retention, Status: ch.StatusActive}
}

func (c *c10ChanCase) stepAppend() {
	n := 1 + c.rng.IntN(4)
	recs := make([]ch.Record, n)
	sh := make([]c10Rec, n)
	for i := range recs {
		c.nextID++
		p := c10Payload(c.nextID, 1+c.rng.IntN(30))
		so := c.rng.IntN(100) < 20
		recs[i] = ch.Record{ID: c.nextID, Payload: p, SizeBytes: len(p), SyncOnce: so, FromUID: "u1", ClientMsgNo: fmt.Sprintf("c%d", c.nextID)}
		sh[i] = c10Rec{ID: c.nextID, Payload: string(p), SyncOnce: so}
	}
	res, err := c.cs.AppendLeader(context.Background(), store.AppendLeaderRequest{Records: recs})
	c.logf("append n=%d -> [%d,%d] err=%v", n, res.BaseOffset, res.LastOffset, err)
	c.shape.WriteString("A")
	if err != nil || res.LastOffset-res.BaseOffset+1 != uint64(n) {
		c.r.Count("channels.append_err", 1)
		return
	}
	for i := range recs {
		c.shadow.put(res.BaseOffset+uint64(i), sh[i])
	}
	c.leo = res.LastOffset
	c.r.Count("channels.appends", 1)
}

func (c *c10ChanCase) stepCheckpoint() {
	var hw uint64
	switch x := c.rng.IntN(100); {
	case x < 30 && c.maxCP > 0:
		hw = uint64(c.rng.IntN(int(c.maxCP))) // regressive, must be ignored
	case x < 85:
		hw = c.maxCP + uint64(c.rng.IntN(3))
		if hw > c.leo {
			hw = c.leo
		}
	default:
		hw = uint64(c.rng.IntN(int(c.leo) + 1))
	}
	err := c.cs.StoreCheckpoint(context.Background(), ch.Checkpoint{HW: hw})
	c.logf("checkpoint hw=%d err=%v", hw, err)
	c.shape.WriteString("C")
	if err == nil && hw > c.maxCP {
		c.maxCP = hw
	}
	c.r.Count("channels.checkpoints", 1)
}

func (c *c10ChanCase) stepAdopt() {
	var through uint64
	switch x := c.rng.IntN(100); {
	case x < 35 && c.adopted > 1:
		through = 1 + uint64(c.rng.IntN(int(c.adopted-1)))
	case x < 45 && c.adopted > 0:
		through = c.adopted
	default:
		through = c.adopted + 1 + uint64(c.rng.IntN(3))
	}
	if through > c.leo && (c.w.kind == "memory" || c.rng.IntN(4) != 0) {
		through = c.leo // see rt_store_test.go: the memory double cannot be driven beyond its log end
	}
	if through == 0 {
		return
	}
	_, err := c.cs.AdoptRetentionBoundary(context.Background(), through, ch.RetentionCursorCommitted)
	c.logf("adopt through=%d (adopted before %d) err=%v", through, c.adopted, err)
	if through < c.adopted {
		c.sawRegress = true
		c.shape.WriteString("b")
		c.r.Count("channels.adopt_backward", 1)
	} else {
		c.shape.WriteString("a")
		c.r.Count("channels.adopt_forward_or_same", 1)
	}
	if err == nil && through > c.adopted {
		c.adopted = through
	}
	if st, lerr := c.cs.Load(context.Background()); lerr == nil && st.LEO > c.leo {
		c.leo = st.LEO
	}
}

func (c *c10ChanCase) stepTrim() {
	if c.adopted == 0 {
		return
	}
	through := 1 + uint64(c.rng.IntN(int(c.adopted)))
	res, err := c.cs.TrimMessagesThrough(context.Background(), through, store.RetentionTrimOptions{MaxMessages: c.rng.IntN(3)})
	c.logf("trim through=%d -> deleted_through=%d deleted=%d err=%v", through, res.DeletedThroughSeq, res.Deleted, err)
	c.shape.WriteString("T")
	c.r.Count("channels.trims", 1)
}

func (c *c10ChanCase) stepMeta() {
	origin, _ := c.w.metas[1].get(c.id)
	cur := origin.RetentionThroughSeq
	var next uint64
	switch x := c.rng.IntN(100); {
	case x < 30 && cur > 0:
		next = uint64(c.rng.IntN(int(cur))) // authoritative value regresses at the source
		c.sawRegress = true
		c.r.Count("channels.meta_retention_backward", 1)
	case x < 40:
		next = cur
	default:
		next = cur + 1 + uint64(c.rng.IntN(3))
		if next > c.leo+1 {
			next = c.leo + 1
		}
	}
	minISR := origin.MinISR
	if c.rng.IntN(3) == 0 {
		minISR = 1 + c.rng.IntN(3)
	}
	m1 := c.baseMeta(minISR, next)
	c.w.metas[1].set(m1)
	if c.leader == 2 {
		m2 := m1
		switch x := c.rng.IntN(100); {
		case x < 25: // the serving node's view of the boundary differs
			m2.RetentionThroughSeq = uint64(c.rng.IntN(int(c.leo) + 2))
		case x < 35:
			m2.MinISR = 1 + c.rng.IntN(3)
		}
		switch c.node2Mode {
		case "stale-epoch":
			m2.LeaderEpoch--
		case "other-leader":
			m2.Leader = 1
		}
		c.w.metas[2].set(m2)
	}
	c.logf("meta origin{retention=%d minISR=%d}", next, minISR)
	c.shape.WriteString("M")
}

func (c *c10ChanCase) stepNode2Mode() {
	if c.leader != 2 {
		return
	}
	modes := []string{"present", "present", "missing", "missing", "stale-epoch", "other-leader"}
	c.node2Mode = modes[c.rng.IntN(len(modes))]
	c.w.metas[2].setMissing(c.id, c.node2Mode == "missing")
	m1, _ := c.w.metas[1].get(c.id)
	m2 := m1
	switch c.node2Mode {
	case "stale-epoch":
		m2.LeaderEpoch--
	case "other-leader":
		m2.Leader = 1
	}
	c.w.metas[2].set(m2)
	c.logf("node2 mode=%s", c.node2Mode)
	c.shape.WriteString("N" + c.node2Mode[:1])
}

func c10ErrClass(err error) string {
	switch {
	case err == nil:
		return "ok"
	case ch.ErrorMatches(err, ch.ErrNotLeader):
		return "not_leader"
	case ch.ErrorMatches(err, ch.ErrStaleMeta):
		return "stale_meta"
	case ch.ErrorMatches(err, ch.ErrNotReady):
		return "not_ready"
	case ch.ErrorMatches(err, ch.ErrChannelNotFound):
		return "channel_not_found"
	case errors.Is(err, context.Canceled), errors.Is(err, context.DeadlineExceeded):
		return "ctx"
	default:
		return "other"
	}
}

func (c *c10ChanCase) stepRead() {
	origin, ok := c.w.metas[1].get(c.id)
	if !ok {
		return
	}
	path := "local"
	minISRUsed := origin.MinISR
	floorMeta := origin.RetentionThroughSeq
	if c.leader == 2 {
		serving, present := c.w.metas[2].get(c.id)
		if present {
			path = "forward"
			minISRUsed = serving.MinISR
			if serving.RetentionThroughSeq > floorMeta {
				floorMeta = serving.RetentionThroughSeq
			}
		} else {
			path = "fallback"
		}
	}
	committed := c.provenHW()
	if minISRUsed <= 1 {
		committed = c.leo
	}
	floor := floorMeta
	if c.adopted > floor {
		floor = c.adopted
	}
	nReads := 1 + c.rng.IntN(3)
	reads := make([]channels.CommittedRead, nReads)
	for i := range reads {
		reads[i] = channels.CommittedRead{ChannelID: c.id, Request: c10GenReq(c.rng, floor, committed, c.leo)}
	}
	var results []channels.CommittedReadResult
	var err error
	if c.r.Guard("channels.ReadCommittedBatch:"+path, nil, func() {
		results, err = c.w.svcs[1].ReadCommittedBatch(context.Background(), reads)
	}) {
		return
	}
	if err != nil || len(results) != len(reads) {
		c.r.Count("channels.batch_err", 1)
		c.logf("read batch path=%s err=%v", path, err)
		return
	}
	for i, res := range results {
		q := reads[i].Request
		c.r.Eval(1)
		dir := "fwd"
		if q.Reverse {
			dir = "rev"
		}
		class := c10ErrClass(res.Err)
		c.r.Count("channels.read."+path+"."+dir+"."+class, 1)
		if res.Err != nil {
			c.logf("read path=%s(%s) %v -> err=%v", path, c.node2Mode, c10ReqJSON(q), res.Err)
			continue
		}
		c.paths[path] = true
		seqs := c10Seqs(res.Read.Messages)
		c.logf("read path=%s minISR=%d committed=%d(hw=%d leo=%d) floor=%d(meta=%d adopted=%d) %v -> %v next=%d", path, minISRUsed, committed, c.provenHW(), c.leo, floor, floorMeta, c.adopted, c10ReqJSON(q), seqs, res.Read.NextSeq)
		c.r.Count("channels.read_messages", len(seqs))
		w := func() map[string]any {
			return map[string]any{"store": c.w.kind, "path": path, "min_isr_used": minISRUsed, "leo": c.leo, "persisted_hw": c.provenHW(), "committed_bound": committed,
				"meta_retention": floorMeta, "adopted_retention": c.adopted, "request": c10ReqJSON(q), "returned": seqs, "next": res.Read.NextSeq, "history": c.log}
		}
		for _, m := range res.Read.Messages {
			if m.MessageSeq > committed {
				kind := "hw>0"
				if committed == 0 {
					kind = "committed=0"
				}
				c10V(c.r, "channels-read-above-committed:"+kind+":"+dir, w())
				break
			}
			if m.MessageSeq <= floor {
				which := "meta"
				if m.MessageSeq > floorMeta {
					which = "adopted"
				}
				c10V(c.r, "channels-read-at-or-below-retention:"+which+":"+dir, w())
				break
			}
			if q.MinSeq > 0 && m.MessageSeq < q.MinSeq {
				c10V(c.r, "channels-read-below-minseq:"+dir, w())
				break
			}
			if q.MaxSeq > 0 && m.MessageSeq > q.MaxSeq {
				c10V(c.r, "channels-read-above-maxseq:"+dir, w())
				break
			}
			rec, ok := c.shadow.get(m.MessageSeq)
			if !ok || rec.ID != m.MessageID || rec.Payload != string(m.Payload) {
				c10V(c.r, "channels-read-phantom-message", w())
				break
			}
			if rec.SyncOnce && !m.SyncOnce {
				// The record is a SyncOnce barrier/command record but is handed to
				// the caller as an ordinary message: the reader's filter
				// (internal/infra/cluster syncedMessagesFromChannel) can no
				// longer drop it.
				c10V(c.r, "channels-read-synconce-record-returned-as-ordinary:"+path, w())
				break
			}
			if !rec.SyncOnce && m.SyncOnce {
				c.r.Count("channels.note.ordinary_marked_synconce", 1)
			}
		}
		// cap effective: there is an uncommitted tail the request would reach
		if minISRUsed > 1 && c.leo > committed && (q.MaxSeq == 0 || q.MaxSeq > committed) {
			c.sawCap = true
			c.r.Count("channels.read_cap_effective", 1)
		}
		// reverse read crossing the floor
		if q.Reverse && floor > 0 && len(seqs) > 0 {
			lim := q.Limit
			if lim <= 0 {
				lim = 1 << 30
			}
			if _, below := c.shadow.get(floor); below && len(seqs) < lim && (q.MaxBytes == 0 || q.MaxBytes >= 1<<20) && (q.MinSeq <= floor+1) {
				c.sawCross = true
				c.r.Count("channels.reverse_cross_floor", 1)
			}
		}
		c.shape.WriteString(path[:2] + dir[:1] + c10Bucket(q.MinSeq, floor+1) + c10Bucket(q.MaxSeq, committed) + c10Bucket(q.FromSeq, committed))
	}
}

func TestVerifC10Channels(t *testing.T) {
	r := verifkit.Start(t, "C10", "channels")
	defer r.Finish()
	r.SetRule("Per case one channel on a two-node pair of real channels.Service instances (real forward codec over LocalNetwork; memory or MessageDB stores). The harness alone writes the serving store: appends (20% SyncOnce), StoreCheckpoint forward/regressive, AdoptRetentionBoundary forward/backward/repeated, trims, meta RetentionThroughSeq forward/backward at origin and serving node, MinISR 1..3, node-2 metadata present/missing/stale. Reads are ReadCommittedBatch at node 1 with 1-3 requests drawn around floor/HW/LEO/0/maxuint64, forward and reverse; every item is one evaluation. Bounds judged: committed = max checkpoint the harness wrote (capped by LEO), or LEO when the serving MinISR<=1; floor = max(meta retention at origin [and serving node when it has metadata], highest boundary the harness adopted). Non-trivial = case has a backward boundary update, a reverse read that crossed the floor, a read whose request reached into an uncommitted tail, on a successful read. Distinct = store kind, leader placement and the step/read shape string.")
	r.Assume("The authoritative meta source is the harness; when it regresses RetentionThroughSeq the judge uses the value served for that read (monotonicity of the slot metadata itself is not this unit's subject); the locally adopted boundary is judged with the maximum ever adopted.")

	dir, err := os.MkdirTemp("", "c10chan")
	if err != nil {
		r.Inconclusive("mkdtemp: " + err.Error())
		return
	}
	defer os.RemoveAll(dir)
	mdb1 := store.NewMessageDBFactory(dir + "/n1")
	mdb2 := store.NewMessageDBFactory(dir + "/n2")
	defer mdb1.Close()
	defer mdb2.Close()
	worlds := make([]*c10ChanWorld, 2)
	if worlds[0], err = c10NewChanWorld("memory", store.NewMemoryFactory(), store.NewMemoryFactory()); err != nil {
		r.Inconclusive("NewService: " + err.Error())
		return
	}
	if worlds[1], err = c10NewChanWorld("messagedb", mdb1, mdb2); err != nil {
		r.Inconclusive("NewService: " + err.Error())
		return
	}

	nCases := r.N(900, 11000)
	for i := 0; i < nCases; i++ {
		if r.Skip(i) {
			continue
		}
		rng := r.Rand(0xc4a7, uint64(i))
		w := worlds[0]
		if i%3 == 2 {
			w = worlds[1]
		}
		leader := ch.NodeID(1)
		if rng.IntN(3) != 0 {
			leader = 2
		}
		r.BeginCase(i, fmt.Sprintf("store=%s leader=%d", w.kind, leader))
		id := ch.ChannelID{ID: fmt.Sprintf("c10c-%d-%d", r.Seed, i), Type: 2}
		cs, err := w.factories[leader].ChannelStore(ch.ChannelKeyForID(id), id)
		if err != nil {
			r.Inconclusive(fmt.Sprintf("case %d: ChannelStore: %v", i, err))
			return
		}
		c := &c10ChanCase{r: r, rng: rng, w: w, id: id, leader: leader, cs: cs, shadow: c10NewShadow(), nextID: uint64(i+1) * 1_000_000,
			node2Mode: "present", paths: map[string]bool{}}
		c.shape.WriteString(fmt.Sprintf("%s:L%d:", w.kind[:3], leader))
		m := c.baseMeta(1+rng.IntN(3), 0)
		w.metas[1].set(m)
		w.metas[2].set(m)
		steps := 30 + rng.IntN(31)
		r.Guard("channels-step:"+w.kind, nil, func() {
			c.stepAppend()
			if rng.IntN(2) == 0 {
				c.stepRead() // reads before anything was checkpointed (persisted HW = 0)
			}
			for s := 0; s < steps; s++ {
				switch x := rng.IntN(100); {
				case x < 15:
					c.stepAppend()
				case x < 27:
					c.stepCheckpoint()
				case x < 39:
					c.stepAdopt()
				case x < 44:
					c.stepTrim()
				case x < 54:
					c.stepMeta()
				case x < 60:
					c.stepNode2Mode()
				default:
					c.stepRead()
				}
			}
		})
		_ = cs.Close()
		w.metas[1].drop(id)
		w.metas[2].drop(id)
		if c.sawRegress && c.sawCross && c.sawCap {
			r.Nontrivial(c.shape.String())
		}
		for p := range c.paths {
			r.Count("channels.cases_with_path."+p, 1)
		}
		if r.WantSample() && c.sawRegress && c.sawCross && c.sawCap && len(c.paths) > 1 {
			r.Sample(map[string]any{"case": i, "store": w.kind, "leader": leader, "history": c.log})
		}
	}
}
