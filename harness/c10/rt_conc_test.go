//go:build verif

package c10_test

// Unit "storeconc" (-race): several retention operations on the SAME channel
// store at once. The reactor lets more than one retention task be in flight
// and the store worker pool has several workers, so AdoptRetentionBoundary,
// TrimMessagesThrough, LoadRetentionState and committed reads of one channel
// do overlap in production. The single-threaded store unit cannot see a lost
// update between them (a trim writing back a retention state it read before
// another adoption committed).
//
// Two drives per store kind (memory, MessageDB):
//   - direct: 2-6 goroutines call the ChannelStore methods themselves;
//   - reactor: the same goroutines call ApplyRetentionBoundary of a real
//     single-node service.New runtime over that store (reactor -> worker pool
//     -> adopt + trim + load), several calls in flight.
// Reads go through a real channels.Service (readLocalCommitted floors them at
// the store's adopted boundary).
//
// Oracles, all on a logical clock (no timing):
//   - per goroutine, every field of successive LoadRetentionState results is
//     non-decreasing;
//   - once an adoption of boundary B has RETURNED ok, every LoadRetentionState
//     that STARTS later reports a local boundary >= B and every committed read
//     that starts later returns nothing <= B ("floor" is read from an atomic
//     max that is raised only after the adopting call returned);
//   - at the quiescent end the durable boundary >= every boundary adopted ok;
//   - an adoption never fails, and a trim at or below a boundary whose
//     adoption had returned before the trim started never fails.

import (
	"context"
	"errors"
	"fmt"
	"math/rand/v2"
	"os"
	"sync"
	"sync/atomic"
	"testing"
	"time"

	ch "github.com/WuKongIM/WuKongIM/pkg/channel"
	"github.com/WuKongIM/WuKongIM/pkg/channel/service"
	"github.com/WuKongIM/WuKongIM/pkg/channel/store"
	"github.com/WuKongIM/WuKongIM/pkg/cluster/channels"
	"github.com/WuKongIM/WuKongIM/pkg/verifkit"
)

type c10ConcOp struct {
	G     int    `json:"g"`
	Call  int64  `json:"call"`
	Ret   int64  `json:"ret"`
	Kind  string `json:"kind"`
	Arg   uint64 `json:"arg,omitempty"`
	Floor uint64 `json:"adopted_ok_before_call"`
	Out   string `json:"out"`
}

type c10ConcWorld struct {
	kind    string
	factory store.Factory
	src     *c10MetaSource
	svc     *channels.Service // reads (fake runtime)
	rt      ch.Cluster        // real single-node runtime for the reactor drive
}

type c10ConcCase struct {
	r      *verifkit.Run
	w      *c10ConcWorld
	id     ch.ChannelID
	drive  string
	n      uint64
	clock  verifkit.Clock
	floor  atomic.Uint64 // max boundary whose adoption has returned ok
	mu     sync.Mutex
	ops    []c10ConcOp
	overlaps atomic.Int64
	inRetention atomic.Int64
}

func (c *c10ConcCase) raiseFloor(b uint64) {
	for {
		cur := c.floor.Load()
		if b <= cur || c.floor.CompareAndSwap(cur, b) {
			return
		}
	}
}

func (c *c10ConcCase) record(op c10ConcOp) {
	c.mu.Lock()
	if len(c.ops) < 600 {
		c.ops = append(c.ops, op)
	}
	c.mu.Unlock()
}

func (c *c10ConcCase) witness(extra map[string]any) map[string]any {
	c.mu.Lock()
	ops := append([]c10ConcOp(nil), c.ops...)
	c.mu.Unlock()
	if len(ops) > 120 {
		ops = ops[len(ops)-120:]
	}
	extra["store"], extra["drive"], extra["rows"], extra["ops_tail"] = c.w.kind, c.drive, c.n, ops
	return extra
}

func c10IsCorrupt(err error) bool {
	// the MessageDB adapter maps dberrors.ErrCorruptState to ErrLogConflict
	return err != nil && (errors.Is(err, ch.ErrLogConflict) || errors.Is(err, ch.ErrInvalidConfig))
}

// worker runs one goroutine's PRNG op sequence.
func (c *c10ConcCase) worker(g int, rng *rand.Rand, cs store.ChannelStore, nOps int, next *atomic.Uint64) {
	ctx := context.Background()
	var last store.RetentionState
	sig := ":" + c.w.kind + ":" + c.drive
	observe := func(rs store.RetentionState, floor uint64, site string) {
		fields := []struct {
			name     string
			old, new uint64
		}{{"local", last.LocalRetentionThroughSeq, rs.LocalRetentionThroughSeq}, {"physical", last.PhysicalRetentionThroughSeq, rs.PhysicalRetentionThroughSeq}, {"retained_max", last.RetainedMaxSeq, rs.RetainedMaxSeq}}
		for _, f := range fields {
			if f.new < f.old {
				c10V(c.r, "retention-boundary-decreased:concurrent:"+f.name+sig, c.witness(map[string]any{"goroutine": g, "site": site, "field": f.name, "before": f.old, "after": f.new}))
			}
		}
		if rs.LocalRetentionThroughSeq < floor {
			c10V(c.r, "retention-state-below-adopted-boundary:concurrent"+sig, c.witness(map[string]any{"goroutine": g, "site": site, "adopted_ok_before_call": floor, "local_observed": rs.LocalRetentionThroughSeq}))
		}
		last = rs
		c.r.Count("conc.retention_observations", 1)
	}
	for i := 0; i < nOps; i++ {
		floor := c.floor.Load()
		op := c10ConcOp{G: g, Floor: floor}
		op.Call = c.clock.Tick()
		switch x := rng.IntN(100); {
		case x < 26: // adopt: a new higher boundary or a repeated one
			var b uint64
			if rng.IntN(3) == 0 && next.Load() > 0 {
				b = next.Load()
			} else {
				b = next.Add(uint64(1 + rng.IntN(3)))
			}
			if b > c.n {
				b = c.n
			}
			if b == 0 {
				b = 1
			}
			op.Kind, op.Arg = "adopt", b
			var err error
			if c.inRetention.Add(1) > 1 {
				c.overlaps.Add(1)
			}
			if c.drive == "reactor" {
				var res ch.RetentionApplyResult
				res, err = c.w.rt.(ch.RetentionRuntime).ApplyRetentionBoundary(ctx, ch.RetentionApplyRequest{ChannelID: c.id, ThroughSeq: b, Options: ch.RetentionApplyOptions{MaxTrimMessages: 1 + rng.IntN(2)}})
				op.Out = fmt.Sprintf("local=%d physical=%d deleted=%d blocked=%q err=%v", res.LocalRetentionThroughSeq, res.PhysicalRetentionThroughSeq, res.Deleted, res.BlockedReason, err)
				if err == nil && res.LocalRetentionThroughSeq < b {
					c10V(c.r, "retention-apply-result-below-requested-boundary:concurrent"+sig, c.witness(map[string]any{"goroutine": g, "requested": b, "result_local": res.LocalRetentionThroughSeq}))
				}
			} else {
				_, err = cs.AdoptRetentionBoundary(ctx, b, ch.RetentionCursorCommitted)
				op.Out = fmt.Sprintf("err=%v", err)
			}
			c.inRetention.Add(-1)
			op.Ret = c.clock.Tick()
			if err != nil {
				c.r.Count("conc.adopt_err", 1)
				if c10IsCorrupt(err) {
					c10V(c.r, "retention-op-corrupt-state:concurrent"+sig, c.witness(map[string]any{"goroutine": g, "op": "adopt", "through": b, "err": err.Error()}))
				}
			} else {
				c.raiseFloor(b)
				c.r.Count("conc.adopt_ok", 1)
			}
		case x < 50: // trim at or below a boundary whose adoption already returned
			if floor == 0 || c.drive == "reactor" {
				op.Kind = "noop"
				break
			}
			through := 1 + uint64(rng.IntN(int(floor)))
			if rng.IntN(2) == 0 {
				through = floor
			}
			op.Kind, op.Arg = "trim", through
			if c.inRetention.Add(1) > 1 {
				c.overlaps.Add(1)
			}
			res, err := cs.TrimMessagesThrough(ctx, through, store.RetentionTrimOptions{MaxMessages: 1 + rng.IntN(2)})
			c.inRetention.Add(-1)
			op.Out = fmt.Sprintf("deleted_through=%d deleted=%d more=%v err=%v", res.DeletedThroughSeq, res.Deleted, res.More, err)
			c.r.Count("conc.trim", 1)
			if err != nil {
				c.r.Count("conc.trim_err", 1)
				if c10IsCorrupt(err) {
					c10V(c.r, "retention-op-corrupt-state:concurrent"+sig, c.witness(map[string]any{"goroutine": g, "op": "trim", "through": through, "adopted_ok_before_call": floor, "err": err.Error()}))
				}
			} else if res.Deleted > 0 && res.DeletedThroughSeq > through {
				c10V(c.r, "trim-deleted-above-requested-boundary:concurrent"+sig, c.witness(map[string]any{"through": through, "deleted_through": res.DeletedThroughSeq}))
			}
		case x < 72: // load
			op.Kind = "load"
			rs, err := cs.LoadRetentionState(ctx)
			op.Out = fmt.Sprintf("local=%d physical=%d retained_max=%d err=%v", rs.LocalRetentionThroughSeq, rs.PhysicalRetentionThroughSeq, rs.RetainedMaxSeq, err)
			if err == nil {
				observe(rs, floor, "load")
			}
		default: // committed read through the real service (floored at the adopted boundary)
			q := store.ReadCommittedRequest{Reverse: rng.IntN(2) == 0, Limit: 4 + rng.IntN(int(c.n)), MaxBytes: 1 << 20}
			switch rng.IntN(3) {
			case 0:
				q.FromSeq = uint64(rng.IntN(int(c.n) + 2))
			case 1:
				q.FromSeq = c10MaxU64
			}
			if rng.IntN(3) == 0 {
				q.MinSeq = uint64(rng.IntN(int(c.n) + 1))
			}
			op.Kind = "read"
			res, err := c.w.svc.ReadCommittedBatch(ctx, []channels.CommittedRead{{ChannelID: c.id, Request: q}})
			c.r.Eval(1)
			if err != nil || len(res) != 1 || res[0].Err != nil {
				op.Out = fmt.Sprintf("err=%v", err)
				c.r.Count("conc.read_err", 1)
				break
			}
			seqs := c10Seqs(res[0].Read.Messages)
			op.Out = fmt.Sprintf("%v -> %v", c10ReqJSON(q), seqs)
			c.r.Count("conc.read_messages", len(seqs))
			for _, s := range seqs {
				if s <= floor {
					c10V(c.r, "read-at-or-below-adopted-boundary:concurrent"+sig, c.witness(map[string]any{"goroutine": g, "adopted_ok_before_call": floor, "request": c10ReqJSON(q), "returned": seqs}))
					break
				}
				if q.MinSeq > 0 && s < q.MinSeq {
					c10V(c.r, "read-below-minseq:concurrent"+sig, c.witness(map[string]any{"request": c10ReqJSON(q), "returned": seqs}))
					break
				}
			}
		}
		if op.Ret == 0 {
			op.Ret = c.clock.Tick()
		}
		if op.Kind != "noop" {
			c.record(op)
		}
	}
}

func c10ConcRunCase(r *verifkit.Run, i int, w *c10ConcWorld, drive string) {
	rng := r.Rand(0xc0c0, uint64(i))
	id := ch.ChannelID{ID: fmt.Sprintf("c10k-%d-%d", r.Seed, i), Type: 2}
	key := ch.ChannelKeyForID(id)
	n := uint64(12 + rng.IntN(40))
	goroutines := 2 + rng.IntN(5)
	r.BeginCase(i, fmt.Sprintf("store=%s drive=%s rows=%d goroutines=%d", w.kind, drive, n, goroutines))
	seed, err := w.factory.ChannelStore(key, id)
	if err != nil {
		r.Inconclusive("storeconc: ChannelStore: " + err.Error())
		return
	}
	recs := make([]ch.Record, n)
	for k := range recs {
		mid := uint64(i+1)*1_000_000 + uint64(k) + 1
		p := c10Payload(mid, 1+rng.IntN(20))
		recs[k] = ch.Record{ID: mid, Payload: p, SizeBytes: len(p), FromUID: "u1", ClientMsgNo: fmt.Sprintf("c%d", mid)}
	}
	if _, err := seed.AppendLeader(context.Background(), store.AppendLeaderRequest{Records: recs}); err != nil {
		r.Inconclusive("storeconc: seed append: " + err.Error())
		return
	}
	if err := seed.StoreCheckpoint(context.Background(), ch.Checkpoint{HW: n}); err != nil {
		r.Inconclusive("storeconc: seed checkpoint: " + err.Error())
		return
	}
	_ = seed.Close()
	meta := ch.Meta{Key: key, ID: id, Epoch: 1, LeaderEpoch: 1, RouteGeneration: 1, Leader: 1, Replicas: []ch.NodeID{1}, ISR: []ch.NodeID{1}, MinISR: 1, Status: ch.StatusActive}
	w.src.set(meta)
	defer w.src.drop(id)
	if drive == "reactor" {
		if err := w.rt.ApplyMeta(meta); err != nil {
			r.Inconclusive("storeconc: ApplyMeta: " + err.Error())
			return
		}
	}
	c := &c10ConcCase{r: r, w: w, id: id, drive: drive, n: n}
	var next atomic.Uint64
	var wg sync.WaitGroup
	handles := make([]store.ChannelStore, goroutines)
	for g := 0; g < goroutines; g++ {
		cs, err := w.factory.ChannelStore(key, id)
		if err != nil {
			r.Inconclusive("storeconc: ChannelStore: " + err.Error())
			return
		}
		handles[g] = cs
	}
	nOps := 10 + rng.IntN(16)
	done := make(chan struct{})
	for g := 0; g < goroutines; g++ {
		wg.Add(1)
		grng := r.Rand(0xc0c1, uint64(i), uint64(g))
		go func(g int) {
			defer wg.Done()
			c.worker(g, grng, handles[g], nOps, &next)
		}(g)
	}
	go func() { wg.Wait(); close(done) }()
	select {
	case <-done:
	case <-time.After(120 * time.Second):
		r.Inconclusive("storeconc: case did not finish within the watchdog")
		return
	}
	for _, cs := range handles {
		_ = cs.Close()
	}
	// quiescent end
	end, err := w.factory.ChannelStore(key, id)
	if err == nil {
		rs, lerr := end.LoadRetentionState(context.Background())
		if lerr == nil && rs.LocalRetentionThroughSeq < c.floor.Load() {
			c10V(r, "retention-final-boundary-below-adopted:concurrent:"+w.kind+":"+drive, c.witness(map[string]any{"max_adopted_ok": c.floor.Load(), "final_local": rs.LocalRetentionThroughSeq}))
		}
		if lerr == nil && c.floor.Load() > 0 {
			// a final trim through the highest adopted boundary must be accepted
			if _, terr := end.TrimMessagesThrough(context.Background(), c.floor.Load(), store.RetentionTrimOptions{}); c10IsCorrupt(terr) {
				c10V(r, "retention-op-corrupt-state:concurrent:"+w.kind+":"+drive, c.witness(map[string]any{"op": "final trim", "through": c.floor.Load(), "final_local": rs.LocalRetentionThroughSeq, "err": terr.Error()}))
			}
		}
		_ = end.Close()
	}
	if drive == "reactor" {
		if ev, ok := w.rt.(interface {
			RuntimeEvict(context.Context, ch.RuntimeSelector) (ch.RuntimeEvictResult, error)
		}); ok {
			ctx, cancel := context.WithTimeout(context.Background(), 20*time.Second)
			_, _ = ev.RuntimeEvict(ctx, ch.RuntimeSelector{ChannelIDs: []ch.ChannelID{id}})
			cancel()
		}
	}
	r.Count("conc.cases."+w.kind+"."+drive, 1)
	r.Count("conc.overlapping_retention_ops", int(c.overlaps.Load()))
	r.Max("conc.max_goroutines", goroutines)
	if c.overlaps.Load() > 0 && c.floor.Load() > 0 {
		r.Nontrivial(fmt.Sprintf("%s:%s:g%d:n%d:ops%d:ov%d", w.kind, drive, goroutines, n/8, nOps/4, min(c.overlaps.Load(), 6)))
	}
	if r.WantSample() && c.overlaps.Load() > 2 {
		c.mu.Lock()
		ops := append([]c10ConcOp(nil), c.ops...)
		c.mu.Unlock()
		if len(ops) > 60 {
			ops = ops[:60]
		}
		r.Sample(map[string]any{"case": i, "store": w.kind, "drive": drive, "rows": n, "goroutines": goroutines, "ops_head": ops})
	}
}

func TestVerifC10StoreConc(t *testing.T) {
	r := verifkit.Start(t, "C10", "storeconc")
	defer r.Finish()
	r.SetRule("Per case one channel store (memory or MessageDB, alternating) preloaded with rows 1..N (12-51) and checkpoint N; 2-6 goroutines each run 10-25 PRNG ops on the SAME channel concurrently: adoption of a new higher or a repeated boundary (direct AdoptRetentionBoundary, or ApplyRetentionBoundary of a real single-node runtime with MaxTrimMessages 1-2 in the reactor drive), TrimMessagesThrough at or below an already adopted boundary with MaxMessages 1-2 (multi-page), LoadRetentionState, committed reads (forward/reverse, MinSeq) through a real channels.Service. Every read is one evaluation. Non-trivial = at least two retention operations (adopt/trim/apply) were in flight at the same time and a boundary was adopted. Distinct = store, drive, goroutines, bucketed rows/ops/overlap count.")
	r.Assume("A logical clock orders call/return; the adopted floor used by an observer is an atomic max raised only after the adopting call returned, read before the observer's call starts.")

	dir, err := os.MkdirTemp("", "c10conc")
	if err != nil {
		r.Inconclusive("mkdtemp: " + err.Error())
		return
	}
	defer os.RemoveAll(dir)
	mdb := store.NewMessageDBFactory(dir)
	defer mdb.Close()
	worlds := []*c10ConcWorld{{kind: "messagedb", factory: mdb}, {kind: "memory", factory: store.NewMemoryFactory()}}
	for _, w := range worlds {
		w.src = c10NewMetaSource()
		svc, err := channels.NewService(channels.Config{Runtime: c10FakeRuntime{}, LocalNode: 1, MetaSource: w.src, Store: w.factory})
		if err != nil {
			r.Inconclusive("NewService: " + err.Error())
			return
		}
		w.svc = svc
		rt, err := service.New(service.Config{LocalNode: 1, Store: w.factory, ReactorCount: 1, MetaResolver: w.src})
		if err != nil {
			r.Inconclusive("service.New: " + err.Error())
			return
		}
		w.rt = rt
		defer rt.Close()
	}
	n := r.N(150, 3000)
	for i := 0; i < n; i++ {
		if r.Skip(i) {
			continue
		}
		w := worlds[0]
		if i%3 == 2 {
			w = worlds[1]
		}
		drive := "direct"
		if i%4 == 3 {
			drive = "reactor"
		}
		c10ConcRunCase(r, i, w, drive)
	}
}
