//go:build verif

package c10_test

// Shared pieces of the C10 harness units that live in verifrt/c10:
//   - c10Shadow: the harness' own model of one channel log (what was appended,
//     which records are SyncOnce barrier/command records);
//   - c10Factory/c10Store: a store.Factory wrapper that records every
//     trim/adopt/checkpoint/apply/append with its result, can hold a follower's
//     ApplyFollower to keep its ISR progress back, and judges every physical
//     trim at the instant it happened (while the store call is still held).

import (
	"context"
	"fmt"
	"math/rand/v2"
	"sync"
	"sync/atomic"

	ch "github.com/WuKongIM/WuKongIM/pkg/channel"
	"github.com/WuKongIM/WuKongIM/pkg/channel/store"
	channeltransport "github.com/WuKongIM/WuKongIM/pkg/channel/transport"
	"github.com/WuKongIM/WuKongIM/pkg/verifkit"
)

const c10MaxU64 = ^uint64(0)

// c10V reports a violation but keeps one witness per signature (verifkit keeps
// only the first ten violations of a unit; a defect that fires on most cases
// must not crowd out other signatures). Every occurrence is counted under
// "viol.<sig>"; a first witness that no longer fits into the ten kept
// violations is stored as an evidence note "witness.<sig>".
var (
	c10VMu   sync.Mutex
	c10VSeen = map[string]int{}
	c10VKept int
)

func c10V(r *verifkit.Run, sig string, witness any) {
	c10VMu.Lock()
	c10VSeen[sig]++
	n := c10VSeen[sig]
	overflow := false
	if n == 1 {
		c10VKept++
		overflow = c10VKept > 10
	}
	c10VMu.Unlock()
	r.Count("viol."+sig, 1)
	if n == 1 {
		r.Violation(sig, witness)
		if overflow {
			r.Note("witness."+sig, witness)
		}
	}
}

// ---------------------------------------------------------------------------
// Shadow log.

type c10Rec struct {
	ID       uint64
	Payload  string
	SyncOnce bool
}

type c10Shadow struct {
	mu   sync.Mutex
	recs map[uint64]c10Rec // by sequence
}

func c10NewShadow() *c10Shadow { return &c10Shadow{recs: map[uint64]c10Rec{}} }

func (s *c10Shadow) put(seq uint64, r c10Rec) {
	s.mu.Lock()
	s.recs[seq] = r
	s.mu.Unlock()
}

func (s *c10Shadow) get(seq uint64) (c10Rec, bool) {
	s.mu.Lock()
	r, ok := s.recs[seq]
	s.mu.Unlock()
	return r, ok
}

func (s *c10Shadow) byID(id uint64) (uint64, c10Rec, bool) {
	s.mu.Lock()
	defer s.mu.Unlock()
	for seq, r := range s.recs {
		if r.ID == id {
			return seq, r, true
		}
	}
	return 0, c10Rec{}, false
}

// c10Payload makes a deterministic payload of n bytes for message id.
func c10Payload(id uint64, n int) []byte {
	b := make([]byte, n)
	x := id*0x9e3779b97f4a7c15 + 1
	for i := range b {
		x ^= x << 13
		x ^= x >> 7
		x ^= x << 17
		b[i] = 'a' + byte(x%26)
	}
	return b
}

// c10ReqJSON renders a read request for witnesses.
func c10ReqJSON(q store.ReadCommittedRequest) map[string]any {
	m := map[string]any{"from": c10U(q.FromSeq), "max": c10U(q.MaxSeq), "min": c10U(q.MinSeq), "limit": q.Limit, "reverse": q.Reverse}
	if q.MaxBytes == int(^uint(0)>>1) {
		m["max_bytes"] = "maxint"
	} else {
		m["max_bytes"] = q.MaxBytes
	}
	return m
}

func c10U(v uint64) any {
	if v == c10MaxU64 {
		return "maxuint64"
	}
	return v
}

func c10Seqs(msgs []ch.Message) []uint64 {
	out := make([]uint64, len(msgs))
	for i, m := range msgs {
		out[i] = m.MessageSeq
	}
	return out
}

// c10Bucket gives a coarse bucket for fingerprints.
func c10Bucket(v, ref uint64) string {
	switch {
	case v == 0:
		return "0"
	case v == c10MaxU64:
		return "M"
	case v < ref:
		return "<"
	case v == ref:
		return "="
	default:
		return ">"
	}
}

// c10GenReq draws a hostile read request around the interesting points
// (retention floor, committed frontier, log end).
func c10GenReq(rng *rand.Rand, floor, committed, leo uint64) store.ReadCommittedRequest {
	pick := func(zeroP int) uint64 {
		switch x := rng.IntN(100); {
		case x < zeroP:
			return 0
		case x < zeroP+8:
			return c10MaxU64
		case x < zeroP+25:
			b := floor
			if b > 0 {
				b--
			}
			return b + uint64(rng.IntN(4)) // floor-1 .. floor+2
		case x < zeroP+45:
			if committed == 0 {
				return uint64(rng.IntN(3))
			}
			return committed - 1 + uint64(rng.IntN(3))
		case x < zeroP+55:
			return leo + uint64(rng.IntN(3))
		default:
			return uint64(rng.IntN(int(leo) + 3))
		}
	}
	q := store.ReadCommittedRequest{FromSeq: pick(20), MaxSeq: pick(35), Reverse: rng.IntN(2) == 0}
	if rng.IntN(100) < 55 {
		q.MinSeq = pick(0)
		if q.MinSeq == c10MaxU64 && rng.IntN(4) != 0 {
			q.MinSeq = uint64(rng.IntN(int(leo) + 2))
		}
	}
	switch x := rng.IntN(100); {
	case x < 10:
		q.Limit = 0
	case x < 45:
		q.Limit = 1 + rng.IntN(3)
	default:
		q.Limit = 1 + rng.IntN(int(leo)+4)
	}
	switch x := rng.IntN(100); {
	case x < 15:
		q.MaxBytes = 0
	case x < 35:
		q.MaxBytes = 1 + rng.IntN(60)
	case x < 45:
		q.MaxBytes = int(^uint(0) >> 1)
	default:
		q.MaxBytes = 1 << 20
	}
	return q
}

// ---------------------------------------------------------------------------
// Recording / fault-injecting store factory.

type c10Event struct {
	N    int64  `json:"n"`
	Node uint64 `json:"node"`
	Kind string `json:"kind"`
	Arg  uint64 `json:"arg,omitempty"`
	Arg2 uint64 `json:"arg2,omitempty"`
	Res  uint64 `json:"res,omitempty"`
	Res2 uint64 `json:"res2,omitempty"`
	Err  string `json:"err,omitempty"`
}

// c10Hub is shared by the wrapped factories of all nodes of one case.
type c10Hub struct {
	r *verifkit.Run

	mu        sync.Mutex
	events    []c10Event
	factories map[ch.NodeID]*c10Factory
	leader    ch.NodeID
	isr       []ch.NodeID
	key       ch.ChannelKey
	id        ch.ChannelID
	// retention observations per node (store level), for monotonicity.
	lastLocal map[ch.NodeID]uint64
	lastPhys  map[ch.NodeID]uint64
	// applied counts replicated record batches a node persisted as a follower.
	applied map[ch.NodeID]int

	// Leader-side follower progress entries, derived from the transport the
	// harness owns (machine.ChannelState.Progress is not exported anywhere).
	// The leader creates Progress[f] only in ApplyFollowerAck with an offset
	// > 0, which is reached only from a Pull carrying AckOffset>0 or an Ack
	// carrying MatchOffset>0 sent by f. ackMu orders those RPCs against the
	// director's leader retention calls:
	//   - no such RPC of f was ever handed to the leader  => no entry;
	//   - one returned without error before the retention call started, and
	//     none may start while the call runs (held) => entry present;
	//   - anything else (RPC failed, or still in flight) => unknown.
	ackMu       sync.Mutex
	ackCond     *sync.Cond
	ackStarted  map[ch.NodeID]bool
	ackDone     map[ch.NodeID]bool
	ackUnknown  map[ch.NodeID]bool
	ackInflight map[ch.NodeID]int
	holdAcks    bool
	frozenDone  map[ch.NodeID]bool

	// mode names the replication wiring of the live case ("pull" / "quorum").
	mode string
	// history returns the director's step log for witnesses (may be nil).
	history func() []string

	clock atomic.Int64
	obsMu sync.Mutex
	retentionObs atomic.Int64

	// statistics of the case
	trims            atomic.Int64
	trimsDeleting    atomic.Int64
	leaderTrims      atomic.Int64
	trimHeldBackISR  atomic.Int64 // leader trims while some ISR follower LEO < leader LEO
	adoptBackward    atomic.Int64
	appliesHeld      atomic.Int64
	leaderAppendLast atomic.Uint64
	suffixShortened  atomic.Bool
	// leaderTrimmedAboveFollower is set once a leader trim removed records an
	// ISR follower does not have: that follower can no longer catch up from
	// the leader's log, so the director stops expecting appends to commit.
	leaderTrimmedAboveFollower atomic.Bool
}

func c10NewHub(r *verifkit.Run) *c10Hub {
	h := &c10Hub{r: r, factories: map[ch.NodeID]*c10Factory{}, lastLocal: map[ch.NodeID]uint64{}, lastPhys: map[ch.NodeID]uint64{}, applied: map[ch.NodeID]int{},
		ackStarted: map[ch.NodeID]bool{}, ackDone: map[ch.NodeID]bool{}, ackUnknown: map[ch.NodeID]bool{}, ackInflight: map[ch.NodeID]int{}}
	h.ackCond = sync.NewCond(&h.ackMu)
	return h
}

// ackBegin is called before an offset-carrying (>0) Pull/Ack of follower f is
// handed to the leader. While the director runs a leader retention call such
// RPCs are held, so the leader's Progress map cannot change under the call.
func (h *c10Hub) ackBegin(f ch.NodeID) {
	h.ackMu.Lock()
	for h.holdAcks {
		h.ackCond.Wait()
	}
	h.ackStarted[f] = true
	h.ackInflight[f]++
	h.ackMu.Unlock()
}

func (h *c10Hub) ackEnd(f ch.NodeID, err error) {
	h.ackMu.Lock()
	h.ackInflight[f]--
	if err == nil {
		h.ackDone[f] = true
	} else if !h.ackDone[f] {
		h.ackUnknown[f] = true // may or may not have reached ApplyFollowerAck
	}
	h.ackCond.Broadcast()
	h.ackMu.Unlock()
}

// freezeAcks holds new offset-carrying RPCs, lets wait() give the ones in
// flight time to return, then snapshots which followers had a successful one:
// those entries existed before the leader retention call started.
func (h *c10Hub) freezeAcks(wait func() bool) {
	h.ackMu.Lock()
	h.holdAcks = true
	h.ackMu.Unlock()
	wait()
	h.ackMu.Lock()
	h.frozenDone = map[ch.NodeID]bool{}
	for f, ok := range h.ackDone {
		h.frozenDone[f] = ok
	}
	h.ackMu.Unlock()
}

func (h *c10Hub) acksInflight() bool {
	h.ackMu.Lock()
	defer h.ackMu.Unlock()
	for _, n := range h.ackInflight {
		if n > 0 {
			return true
		}
	}
	return false
}

func (h *c10Hub) releaseAcks() {
	h.ackMu.Lock()
	h.holdAcks = false
	h.frozenDone = nil
	h.ackCond.Broadcast()
	h.ackMu.Unlock()
}

// progressEntryClass classifies the leader's Progress entry of follower f as
// of the decision of the running leader retention call (see the ackMu
// comment): never started => none; succeeded before the freeze => present;
// otherwise (failed, or returned only after the freeze) unknown.
func (h *c10Hub) progressEntryClass(f ch.NodeID) string {
	h.ackMu.Lock()
	defer h.ackMu.Unlock()
	switch {
	case !h.ackStarted[f]:
		return "no-progress-entry"
	case h.frozenDone != nil && h.frozenDone[f]:
		return "progress-entry-present"
	default:
		return "progress-entry-unknown"
	}
}

// c10Net is the replication transport handed to the runtimes: the in-process
// network plus the ack bookkeeping above. It deliberately does not implement
// transport.BatchClient, so every pull is one observable RPC.
type c10Net struct {
	base channeltransport.Client
	hub  atomic.Pointer[c10Hub]
}

func (n *c10Net) track(key ch.ChannelKey, offset uint64) *c10Hub {
	h := n.hub.Load()
	if h == nil || offset == 0 {
		return nil
	}
	h.mu.Lock()
	mine := h.key == key
	h.mu.Unlock()
	if !mine {
		return nil
	}
	return h
}

func (n *c10Net) Pull(ctx context.Context, node ch.NodeID, req channeltransport.PullRequest) (channeltransport.PullResponse, error) {
	h := n.track(req.ChannelKey, req.AckOffset)
	if h != nil {
		h.ackBegin(req.Follower)
	}
	resp, err := n.base.Pull(ctx, node, req)
	if h != nil {
		h.ackEnd(req.Follower, err)
	}
	return resp, err
}

func (n *c10Net) Ack(ctx context.Context, node ch.NodeID, req channeltransport.AckRequest) error {
	h := n.track(req.ChannelKey, req.MatchOffset)
	if h != nil {
		h.ackBegin(req.Follower)
	}
	err := n.base.Ack(ctx, node, req)
	if h != nil {
		h.ackEnd(req.Follower, err)
	}
	return err
}

func (n *c10Net) PullHint(ctx context.Context, node ch.NodeID, req channeltransport.PullHintRequest) error {
	return n.base.PullHint(ctx, node, req)
}

func (n *c10Net) Notify(ctx context.Context, node ch.NodeID, req channeltransport.NotifyRequest) error {
	return n.base.Notify(ctx, node, req)
}

func (h *c10Hub) noteApplied(node ch.NodeID) {
	h.mu.Lock()
	h.applied[node]++
	h.mu.Unlock()
}

func (h *c10Hub) appliedCount(node ch.NodeID) int {
	h.mu.Lock()
	defer h.mu.Unlock()
	return h.applied[node]
}

func (h *c10Hub) setTopology(id ch.ChannelID, leader ch.NodeID, isr []ch.NodeID) {
	h.mu.Lock()
	h.id, h.key, h.leader = id, ch.ChannelKeyForID(id), leader
	h.isr = append([]ch.NodeID(nil), isr...)
	h.mu.Unlock()
}

func (h *c10Hub) record(ev c10Event) {
	ev.N = h.clock.Add(1)
	h.mu.Lock()
	if len(h.events) < 4000 {
		h.events = append(h.events, ev)
	}
	h.mu.Unlock()
}

func (h *c10Hub) steps() []string {
	if h.history == nil {
		return nil
	}
	return h.history()
}

func (h *c10Hub) tail(n int) []c10Event {
	h.mu.Lock()
	defer h.mu.Unlock()
	if len(h.events) <= n {
		return append([]c10Event(nil), h.events...)
	}
	return append([]c10Event(nil), h.events[len(h.events)-n:]...)
}

func c10NewFactory(node ch.NodeID, base store.Factory) *c10Factory {
	f := &c10Factory{node: node, base: base}
	f.resume = sync.NewCond(&f.pmu)
	return f
}

// attach makes h the hub that judges f's node from now on (one hub per case;
// the factories and the runtimes above them live across cases).
func (h *c10Hub) attach(f *c10Factory) {
	h.mu.Lock()
	h.factories[f.node] = f
	h.mu.Unlock()
	f.hub.Store(h)
}

// rawLoad reads LEO/HW/CheckpointHW of node's store for the hub's channel
// directly from the unwrapped factory.
func (h *c10Hub) rawLoad(node ch.NodeID) (store.InitialState, store.RetentionState, error) {
	h.mu.Lock()
	f := h.factories[node]
	key, id := h.key, h.id
	h.mu.Unlock()
	if f == nil {
		return store.InitialState{}, store.RetentionState{}, fmt.Errorf("no factory for node %d", node)
	}
	cs, err := f.base.ChannelStore(key, id)
	if err != nil {
		return store.InitialState{}, store.RetentionState{}, err
	}
	defer cs.Close()
	st, err := cs.Load(context.Background())
	if err != nil {
		return st, store.RetentionState{}, err
	}
	rs, err := cs.LoadRetentionState(context.Background())
	return st, rs, err
}

// observeRetention loads the store-level retention state of node through load
// and checks that the boundaries never move backwards between two
// observations. Load and comparison happen under one mutex, so the order of
// observations is the order of the loads even with concurrent observers.
func (h *c10Hub) observeRetention(node ch.NodeID, site string, load func() (store.RetentionState, error)) (store.RetentionState, error) {
	h.obsMu.Lock()
	rs, err := load()
	if err != nil {
		h.obsMu.Unlock()
		return rs, err
	}
	prevL, prevP := h.lastLocal[node], h.lastPhys[node]
	if rs.LocalRetentionThroughSeq > prevL {
		h.lastLocal[node] = rs.LocalRetentionThroughSeq
	}
	if rs.PhysicalRetentionThroughSeq > prevP {
		h.lastPhys[node] = rs.PhysicalRetentionThroughSeq
	}
	h.obsMu.Unlock()
	h.retentionObs.Add(1)
	if rs.LocalRetentionThroughSeq < prevL {
		c10V(h.r, "retention-boundary-decreased:store-local:"+site, map[string]any{"node": node, "before": prevL, "after": rs.LocalRetentionThroughSeq, "events": h.tail(25)})
	}
	if rs.PhysicalRetentionThroughSeq < prevP {
		c10V(h.r, "retention-boundary-decreased:store-physical:"+site, map[string]any{"node": node, "before": prevP, "after": rs.PhysicalRetentionThroughSeq, "events": h.tail(25)})
	}
	if rs.PhysicalRetentionThroughSeq > rs.LocalRetentionThroughSeq {
		h.r.Count("note.physical_above_local", 1)
	}
	return rs, nil
}

type c10Factory struct {
	hub  atomic.Pointer[c10Hub] // hub of the case currently driving this node
	node ch.NodeID
	base store.Factory

	pmu    sync.Mutex
	paused bool
	resume *sync.Cond
	held   int
}

func (f *c10Factory) ChannelStore(key ch.ChannelKey, id ch.ChannelID) (store.ChannelStore, error) {
	cs, err := f.base.ChannelStore(key, id)
	if err != nil {
		return nil, err
	}
	return &c10Store{ChannelStore: cs, f: f, hub: f.hub.Load(), key: key}, nil
}

func (f *c10Factory) setPaused(p bool) {
	f.pmu.Lock()
	f.paused = p
	f.pmu.Unlock()
	if !p {
		f.resume.Broadcast()
	}
}

func (f *c10Factory) heldApplies() int {
	f.pmu.Lock()
	defer f.pmu.Unlock()
	return f.held
}

// c10Store deliberately embeds only the ChannelStore interface: optional
// batch/lookup capabilities of the base are hidden so that every mutation goes
// through the recorded methods below.
type c10Store struct {
	store.ChannelStore
	f   *c10Factory
	hub *c10Hub // hub current when the handle was opened
	key ch.ChannelKey
}

func c10ErrStr(err error) string {
	if err == nil {
		return ""
	}
	return err.Error()
}

// mine reports whether this handle belongs to the channel of the case that is
// currently running on the node.
func (s *c10Store) mine() bool {
	h := s.hub
	if h == nil || h != s.f.hub.Load() {
		return false
	}
	h.mu.Lock()
	defer h.mu.Unlock()
	return s.key == h.key
}

// hold blocks the caller while this node is paused (follower durability held
// back). Only calls for the current case's channel are held.
func (s *c10Store) hold() {
	f := s.f
	f.pmu.Lock()
	if f.paused {
		f.held++
		s.hub.appliesHeld.Add(1)
		for f.paused {
			f.resume.Wait()
		}
		f.held--
	}
	f.pmu.Unlock()
}

func (s *c10Store) isLeaderNode() bool {
	s.hub.mu.Lock()
	defer s.hub.mu.Unlock()
	return s.hub.leader == s.f.node
}

func (s *c10Store) AppendLeader(ctx context.Context, req store.AppendLeaderRequest) (store.AppendLeaderResult, error) {
	if s.mine() && !s.isLeaderNode() {
		// durable-quorum-log mode: a follower persists replicated proposals
		// through AppendLeader (exact base offset), this is its "apply".
		s.hold()
	}
	res, err := s.ChannelStore.AppendLeader(ctx, req)
	if s.mine() {
		s.hub.record(c10Event{Node: uint64(s.f.node), Kind: "append_leader", Arg: uint64(len(req.Records)), Arg2: req.Committed, Res: res.BaseOffset, Res2: res.LastOffset, Err: c10ErrStr(err)})
		if err == nil && len(req.Records) > 0 && !s.isLeaderNode() {
			s.hub.noteApplied(s.f.node)
		}
		if err == nil && len(req.Records) > 0 && s.isLeaderNode() {
			for {
				cur := s.hub.leaderAppendLast.Load()
				if res.LastOffset <= cur || s.hub.leaderAppendLast.CompareAndSwap(cur, res.LastOffset) {
					break
				}
			}
		}
	}
	return res, err
}

func (s *c10Store) ApplyFollower(ctx context.Context, req store.ApplyFollowerRequest) (store.ApplyFollowerResult, error) {
	if s.mine() {
		s.hold()
	}
	res, err := s.ChannelStore.ApplyFollower(ctx, req)
	if s.mine() {
		first := uint64(0)
		if len(req.Records) > 0 {
			first = req.Records[0].Index
		}
		s.hub.record(c10Event{Node: uint64(s.f.node), Kind: "apply_follower", Arg: first, Arg2: req.LeaderHW, Res: res.LEO, Res2: res.CheckpointHW, Err: c10ErrStr(err)})
		if err == nil && len(req.Records) > 0 {
			s.hub.noteApplied(s.f.node)
		}
	}
	return res, err
}

// Optional capabilities needed by the durable-quorum-log store adapter are
// forwarded to the wrapped store (the memory and MessageDB stores have them).

func (s *c10Store) LoadExactState(ctx context.Context) (store.ExactState, error) {
	if l, ok := s.ChannelStore.(store.ExactStateLoader); ok {
		return l.LoadExactState(ctx)
	}
	return store.ExactState{}, ch.ErrInvalidConfig
}

func (s *c10Store) LoadExactRecoveryState(ctx context.Context, indexes []uint64) (store.ExactRecoveryState, error) {
	if l, ok := s.ChannelStore.(store.ExactRecoveryStateLoader); ok {
		return l.LoadExactRecoveryState(ctx, indexes)
	}
	return store.ExactRecoveryState{}, ch.ErrInvalidConfig
}

func (s *c10Store) ReadExactRecoveryPage(ctx context.Context, req store.ExactRecoveryPageRequest) (store.ExactRecoveryPage, error) {
	if l, ok := s.ChannelStore.(store.ExactRecoveryPageReader); ok {
		return l.ReadExactRecoveryPage(ctx, req)
	}
	return store.ExactRecoveryPage{}, ch.ErrInvalidConfig
}

func (s *c10Store) LoadExactProposal(ctx context.Context, req store.ExactProposalRequest) (store.ExactProposal, bool, error) {
	if l, ok := s.ChannelStore.(store.ExactProposalLookup); ok {
		return l.LoadExactProposal(ctx, req)
	}
	return store.ExactProposal{}, false, ch.ErrInvalidConfig
}

// ReplaceRecoverySuffix may shorten a log. The "durable LEO only grows"
// argument of the trim/read judges does not hold after such a replacement, so
// the hub remembers it and those judges stand down for the rest of the case.
func (s *c10Store) ReplaceRecoverySuffix(ctx context.Context, req store.ReplaceRecoverySuffixRequest) (store.ReplaceRecoverySuffixResult, error) {
	l, ok := s.ChannelStore.(store.RecoverySuffixReplacer)
	if !ok {
		return store.ReplaceRecoverySuffixResult{}, ch.ErrInvalidConfig
	}
	if s.mine() && !s.isLeaderNode() {
		s.hold()
	}
	res, err := l.ReplaceRecoverySuffix(ctx, req)
	if s.mine() {
		if req.KeepThrough < req.Expected.LEO {
			s.hub.suffixShortened.Store(true)
		}
		s.hub.record(c10Event{Node: uint64(s.f.node), Kind: "replace_suffix", Arg: req.KeepThrough, Arg2: req.Expected.LEO, Res: res.LastOffset, Err: c10ErrStr(err)})
	}
	return res, err
}

func (s *c10Store) StoreCheckpoint(ctx context.Context, cp ch.Checkpoint) error {
	err := s.ChannelStore.StoreCheckpoint(ctx, cp)
	if s.mine() {
		s.hub.record(c10Event{Node: uint64(s.f.node), Kind: "checkpoint", Arg: cp.HW, Err: c10ErrStr(err)})
	}
	return err
}

func (s *c10Store) AdoptRetentionBoundary(ctx context.Context, through uint64, cursor string) (uint64, error) {
	if !s.mine() {
		return s.ChannelStore.AdoptRetentionBoundary(ctx, through, cursor)
	}
	h := s.hub
	before, _ := s.ChannelStore.LoadRetentionState(ctx)
	retained, err := s.ChannelStore.AdoptRetentionBoundary(ctx, through, cursor)
	after, _ := h.observeRetention(s.f.node, "adopt", func() (store.RetentionState, error) { return s.ChannelStore.LoadRetentionState(ctx) })
	h.record(c10Event{Node: uint64(s.f.node), Kind: "adopt", Arg: through, Arg2: before.LocalRetentionThroughSeq, Res: after.LocalRetentionThroughSeq, Res2: retained, Err: c10ErrStr(err)})
	if through < before.LocalRetentionThroughSeq {
		h.adoptBackward.Add(1)
	}
	return retained, err
}

func (s *c10Store) LoadRetentionState(ctx context.Context) (store.RetentionState, error) {
	if !s.mine() {
		return s.ChannelStore.LoadRetentionState(ctx)
	}
	return s.hub.observeRetention(s.f.node, "load", func() (store.RetentionState, error) { return s.ChannelStore.LoadRetentionState(ctx) })
}

// TrimMessagesThrough is the instant where the physical-trim clauses are
// judged. The store call of the runtime is held while the samples are taken:
//
//   - this node's own persisted checkpoint HW and LEO are sampled AFTER the
//     trim returned. Both only grow (checkpoint is stored monotonically, LEO is
//     preserved by RetainedMaxSeq), and the runtime's HW is never below the
//     persisted checkpoint it derived the decision from, so
//     deleted > min(checkpointHW_after, LEO_after) proves that the trim deleted
//     above min(HW, checkpoint HW, LEO) at the moment of the deletion.
//   - on the leader, every ISR follower's durable LEO is sampled AFTER the
//     trim returned, straight from the follower's store. Follower LEO only
//     grows (one leader epoch per case, no truncation), so the sample is an
//     upper bound of the follower's progress at the deletion: a later sample
//     may hide a violation, it can never create one.
func (s *c10Store) TrimMessagesThrough(ctx context.Context, through uint64, opts store.RetentionTrimOptions) (store.RetentionTrimResult, error) {
	if !s.mine() {
		return s.ChannelStore.TrimMessagesThrough(ctx, through, opts)
	}
	h := s.hub
	node := s.f.node
	stBefore, _ := s.ChannelStore.Load(ctx)
	rsBefore, _ := s.ChannelStore.LoadRetentionState(ctx)
	res, err := s.ChannelStore.TrimMessagesThrough(ctx, through, opts)
	stAfter, lerr := s.ChannelStore.Load(ctx)
	rsAfter, rerr := h.observeRetention(node, "trim", func() (store.RetentionState, error) { return s.ChannelStore.LoadRetentionState(ctx) })
	h.trims.Add(1)
	h.record(c10Event{Node: uint64(node), Kind: "trim", Arg: through, Arg2: stBefore.CheckpointHW, Res: res.DeletedThroughSeq, Res2: uint64(res.Deleted), Err: c10ErrStr(err)})
	if err != nil || lerr != nil || rerr != nil {
		return res, err
	}
	deletedThrough := res.DeletedThroughSeq
	if res.Deleted == 0 {
		deletedThrough = 0
	}
	if res.Deleted > 0 {
		h.trimsDeleting.Add(1)
		if deletedThrough > through {
			c10V(h.r, "trim-deleted-above-requested-boundary", map[string]any{"node": node, "through": through, "deleted_through": deletedThrough, "events": h.tail(25)})
		}
		if deletedThrough > rsAfter.LocalRetentionThroughSeq {
			c10V(h.r, "trim-deleted-above-adopted-boundary", map[string]any{"node": node, "deleted_through": deletedThrough, "local_retention": rsAfter.LocalRetentionThroughSeq, "events": h.tail(25)})
		}
		bound := stAfter.CheckpointHW
		which := "checkpoint-hw"
		if stAfter.LEO < bound {
			bound, which = stAfter.LEO, "leo"
		}
		if deletedThrough > bound {
			c10V(h.r, "trim-above-local-watermark:"+which, map[string]any{
				"node": node, "requested_through": through, "deleted_through": deletedThrough, "deleted": res.Deleted,
				"checkpoint_hw_before": stBefore.CheckpointHW, "leo_before": stBefore.LEO,
				"checkpoint_hw_after": stAfter.CheckpointHW, "leo_after": stAfter.LEO,
				"physical_before": rsBefore.PhysicalRetentionThroughSeq, "events": h.tail(30), "history": h.steps()})
		}
	}
	h.mu.Lock()
	leader := h.leader
	isr := append([]ch.NodeID(nil), h.isr...)
	h.mu.Unlock()
	if node == leader && h.suffixShortened.Load() {
		h.r.Count("live.note.leader_trim_not_judged_after_suffix_replacement", 1)
	} else if node == leader {
		h.leaderTrims.Add(1)
		lagging := false
		for _, fnode := range isr {
			if fnode == node {
				continue
			}
			fst, _, ferr := h.rawLoad(fnode)
			if ferr != nil {
				continue
			}
			if fst.LEO < stAfter.LEO {
				lagging = true
			}
			if res.Deleted > 0 && deletedThrough > fst.LEO {
				h.leaderTrimmedAboveFollower.Store(true)
				kind := h.progressEntryClass(fnode)
				c10V(h.r, "leader-trim-above-isr-follower-leo:"+kind+":"+h.mode, map[string]any{
					"replication_mode": h.mode,
					"leader": node, "follower": fnode, "follower_durable_leo_after_trim": fst.LEO, "follower_replicated_batches_applied": h.appliedCount(fnode),
					"requested_through": through, "deleted_through": deletedThrough, "deleted": res.Deleted,
					"leader_leo": stAfter.LEO, "leader_checkpoint_hw": stAfter.CheckpointHW, "isr": isr, "events": h.tail(40), "history": h.steps()})
			}
		}
		if lagging {
			h.trimHeldBackISR.Add(1)
		}
	}
	return res, err
}
