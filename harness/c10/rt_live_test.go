//go:build verif

package c10_test

// Unit "live": a real 3-node channel runtime (service.New, pull replication
// over the in-process transport) whose store factories are wrapped by
// c10Factory. A sequential director issues appends (with SyncOnce records),
// follower pause/resume (ApplyFollower held), ApplyMeta with the retention
// boundary moving forward / BACKWARD / repeated, ApplyRetentionBoundary with
// physical trim requests at arbitrary sequences on every node, RetentionView
// observations and committed reads through a real channels.Service that sits
// on the leader's runtime and store.
//
// Judged online:
//   - reads: nothing above the committed frontier the harness can prove AFTER
//     the read returned (MinISR-th largest durable LEO among the ISR stores,
//     LEOs only grow), nothing at or below max(meta retention served for this
//     read, boundary adopted by the leader store BEFORE the read), nothing below
//     MinSeq, SyncOnce marker kept;
//   - RetentionView / RetentionApplyResult boundaries per node never decrease;
//   - every physical trim (see c10Store.TrimMessagesThrough).

import (
	"context"
	"fmt"
	"math/rand/v2"
	"sort"
	"strings"
	"sync"
	"testing"
	"time"

	ch "github.com/WuKongIM/WuKongIM/pkg/channel"
	"github.com/WuKongIM/WuKongIM/pkg/channel/replication"
	"github.com/WuKongIM/WuKongIM/pkg/channel/service"
	"github.com/WuKongIM/WuKongIM/pkg/channel/store"
	channeltransport "github.com/WuKongIM/WuKongIM/pkg/channel/transport"
	"github.com/WuKongIM/WuKongIM/pkg/cluster/channels"
	goruntimeregistry "github.com/WuKongIM/WuKongIM/pkg/goroutine"
	"github.com/WuKongIM/WuKongIM/pkg/verifkit"
)

const c10LiveOpTimeout = 90 * time.Second

type c10Pending struct {
	id   uint64
	done chan struct{}
	res  ch.AppendResult
	err  error
}

type c10ViewMark struct{ meta, local, phys uint64 }

type c10Live struct {
	r     *verifkit.Run
	rng   *rand.Rand
	hub   *c10Hub
	w     *c10LiveWorld
	nodes map[ch.NodeID]ch.Cluster
	facts map[ch.NodeID]*c10Factory
	svc   *channels.Service
	src   *c10MetaSource
	meta  ch.Meta

	ctx    context.Context
	cancel context.CancelFunc

	mu       sync.Mutex
	msgs     map[uint64]c10Rec // by message id
	nextID   uint64
	pending  []*c10Pending
	ackedMax uint64
	paused   map[ch.NodeID]bool
	views    map[ch.NodeID]c10ViewMark
	maxMeta  uint64 // highest retention boundary ever applied through ApplyMeta
	log      []string
	aborted  bool

	sawRegress, sawBlocked, sawCross, sawTail bool
	shape                                    strings.Builder
}

func (l *c10Live) logf(format string, a ...any) {
	l.mu.Lock()
	if len(l.log) < 500 {
		l.log = append(l.log, fmt.Sprintf(format, a...))
	}
	l.mu.Unlock()
}

func (l *c10Live) history() []string {
	l.mu.Lock()
	defer l.mu.Unlock()
	return append([]string(nil), l.log...)
}

func (l *c10Live) followers() []ch.NodeID {
	var out []ch.NodeID
	for _, n := range l.meta.ISR {
		if n != l.meta.Leader {
			out = append(out, n)
		}
	}
	return out
}

func (l *c10Live) committable() bool {
	n := 0
	for _, node := range l.meta.ISR {
		if node == l.meta.Leader || !l.paused[node] {
			n++
		}
	}
	return n >= l.meta.MinISR
}

// quorumReady reports whether, with the durable quorum log, enough unpaused
// voters are already at the leader's log end so that one exchange round can
// commit (a voter that first needs a repair does not vote in that round).
func (l *c10Live) quorumReady() bool {
	if l.w.mode != "quorum" {
		return true
	}
	target := l.leaderLEO()
	n := 1
	for _, f := range l.followers() {
		if l.paused[f] {
			continue
		}
		if st, _, err := l.hub.rawLoad(f); err == nil && st.LEO >= target {
			n++
		}
	}
	return n >= l.meta.MinISR && len(l.pending) == 0
}

func (l *c10Live) leaderLEO() uint64 {
	st, _, err := l.hub.rawLoad(l.meta.Leader)
	if err != nil {
		return 0
	}
	return st.LEO
}

// c10LiveWorld is the 3-node runtime shared by consecutive cases (building the
// worker pools of three runtimes costs about a second under -race); every case
// uses a fresh channel and a fresh hub, and evicts its channel at the end.
// c10Router joins the three durable-quorum-log runtimes: an exchange to a peer
// is a direct call of that peer's real ExchangeServer.
type c10Router struct {
	mu      sync.RWMutex
	servers map[ch.NodeID]*replication.ExchangeServer
}

type c10Link struct {
	from   ch.NodeID
	router *c10Router
}

func (l c10Link) Exchange(ctx context.Context, target ch.NodeID, batch replication.ExchangeBatch) (replication.ExchangeBatchResult, error) {
	l.router.mu.RLock()
	server := l.router.servers[target]
	l.router.mu.RUnlock()
	if server == nil {
		return replication.ExchangeBatchResult{}, ch.ErrNotReady
	}
	return server.Handle(ctx, l.from, batch)
}

type c10LiveWorld struct {
	// mode is "pull" (transitional PullHint/Pull replication, leader tracks
	// follower match offsets) or "quorum" (production wiring: every node has a
	// replication.Runtime, leader appends go through the durable quorum log,
	// followers persist proposals through their exchange server).
	mode  string
	net   *c10Net
	rts   map[ch.NodeID]*replication.Runtime
	nodes map[ch.NodeID]ch.Cluster
	facts map[ch.NodeID]*c10Factory
	svcs  map[ch.NodeID]*channels.Service
	src   *c10MetaSource
	stop  chan struct{}
	wg    sync.WaitGroup
	used  int
}

func c10NewLiveWorld(mode string) (*c10LiveWorld, error) {
	w := &c10LiveWorld{mode: mode, rts: map[ch.NodeID]*replication.Runtime{}, nodes: map[ch.NodeID]ch.Cluster{}, facts: map[ch.NodeID]*c10Factory{}, svcs: map[ch.NodeID]*channels.Service{},
		src: c10NewMetaSource(), stop: make(chan struct{})}
	network := channeltransport.NewLocalNetwork()
	w.net = &c10Net{base: network.Client()}
	router := &c10Router{servers: map[ch.NodeID]*replication.ExchangeServer{}}
	for _, node := range []ch.NodeID{1, 2, 3} {
		f := c10NewFactory(node, store.NewMemoryFactory())
		w.facts[node] = f
		cfg := service.Config{LocalNode: node, Store: f, ReactorCount: 1, Transport: w.net, MetaResolver: w.src,
			ReplicationIdlePollInterval: 2 * time.Millisecond, ReplicationMaxBackoff: 10 * time.Millisecond, PullHintRetryInterval: 10 * time.Millisecond,
			FollowerRecoveryProbeInterval: 20 * time.Millisecond, FollowerRecoveryProbeJitter: 5 * time.Millisecond}
		if mode == "quorum" {
			adapter, err := replication.NewStoreAdapter(replication.StoreAdapterConfig{Factory: f, MaxBatchItems: replication.MaxExchangeBatchItems, MaxBatchBytes: replication.MaxExchangeBatchBytes})
			if err != nil {
				w.close()
				return nil, err
			}
			rt, err := replication.NewRuntime(replication.RuntimeConfig{
				LocalNode: node, Store: adapter, Link: c10Link{from: node, router: router}, Goroutines: goruntimeregistry.New(),
				LocalWorkers: 4, PeerWorkers: 4, PeerTargetFlight: 2, RepairWorkers: 1,
				ReplicaHedgeDelay: time.Millisecond, TrailingFlushInterval: 2 * time.Millisecond,
				ExchangeTimeout: 2 * c10LiveOpTimeout, LocalTimeout: 2 * c10LiveOpTimeout, RecoveryTimeout: 2 * c10LiveOpTimeout, CloseTimeout: 30 * time.Second,
				MaxChannels: 256, MaxVoters: 3,
			})
			if err != nil {
				w.close()
				return nil, err
			}
			w.rts[node] = rt
			router.mu.Lock()
			router.servers[node] = rt.ExchangeServer()
			router.mu.Unlock()
			cfg.QuorumLog = rt.Log()
		}
		cl, err := service.New(cfg)
		if err != nil {
			w.close()
			return nil, err
		}
		w.nodes[node], w.facts[node] = cl, f
		server, ok := cl.(channeltransport.Server)
		if !ok {
			w.close()
			return nil, fmt.Errorf("service cluster is not a transport.Server")
		}
		network.Register(node, server)
		svc, err := channels.NewService(channels.Config{Runtime: cl, LocalNode: node, MetaSource: w.src, Store: f})
		if err != nil {
			w.close()
			return nil, err
		}
		w.svcs[node] = svc
	}
	for _, node := range []ch.NodeID{1, 2, 3} {
		cl := w.nodes[node]
		w.wg.Add(1)
		go func() {
			defer w.wg.Done()
			t := time.NewTicker(2 * time.Millisecond)
			defer t.Stop()
			for {
				select {
				case <-w.stop:
					return
				case <-t.C:
					_ = cl.Tick(context.Background())
				}
			}
		}()
	}
	return w, nil
}

func (w *c10LiveWorld) close() {
	for _, f := range w.facts {
		f.setPaused(false)
	}
	select {
	case <-w.stop:
	default:
		close(w.stop)
	}
	w.wg.Wait()
	for _, n := range w.nodes {
		_ = n.Close()
	}
	for _, rt := range w.rts {
		ctx, cancel := context.WithTimeout(context.Background(), 60*time.Second)
		_ = rt.Close(ctx)
		cancel()
	}
}

func c10NewLive(r *verifkit.Run, rng *rand.Rand, caseIdx int, w *c10LiveWorld) (*c10Live, error) {
	l := &c10Live{r: r, rng: rng, hub: c10NewHub(r), w: w, nodes: w.nodes, facts: w.facts, src: w.src,
		msgs: map[uint64]c10Rec{}, nextID: uint64(caseIdx+1) * 1_000_000, paused: map[ch.NodeID]bool{}, views: map[ch.NodeID]c10ViewMark{}}
	l.ctx, l.cancel = context.WithCancel(context.Background())
	l.hub.history = l.history
	l.hub.mode = w.mode
	id := ch.ChannelID{ID: fmt.Sprintf("c10l-%d-%d", r.Seed, caseIdx), Type: 2}
	leader := ch.NodeID(1 + rng.IntN(3))
	isr := []ch.NodeID{1, 2, 3}
	minISR := 2
	switch x := rng.IntN(100); {
	case x < 12:
		minISR = 1
	case x < 24:
		minISR = 3
	}
	if rng.IntN(6) == 0 { // a two-member ISR, the third node is a plain replica
		other := ch.NodeID(1 + (int(leader)+rng.IntN(2))%3)
		isr = []ch.NodeID{leader, other}
		if minISR > 2 {
			minISR = 2
		}
	}
	if w.mode == "quorum" && minISR*2 <= len(isr) {
		// the durable quorum log only installs majority write quorums; the
		// MinISR<=1 read path (committed = LEO) is reached with a single voter.
		isr = []ch.NodeID{leader}
		minISR = 1
	}
	l.meta = ch.Meta{Key: ch.ChannelKeyForID(id), ID: id, Epoch: 1, LeaderEpoch: 1, RouteGeneration: 1, Leader: leader, Replicas: []ch.NodeID{1, 2, 3}, ISR: isr, MinISR: minISR, Status: ch.StatusActive}
	l.hub.setTopology(id, leader, isr)
	for _, node := range []ch.NodeID{1, 2, 3} {
		l.hub.attach(w.facts[node])
	}
	w.net.hub.Store(l.hub)
	l.src.set(l.meta)
	l.svc = w.svcs[leader]
	for _, node := range []ch.NodeID{1, 2, 3} {
		if err := l.nodes[node].ApplyMeta(l.meta); err != nil {
			l.close()
			return nil, fmt.Errorf("ApplyMeta node %d (mode %s, meta %+v): %w", node, w.mode, l.meta, err)
		}
	}
	w.used++
	return l, nil
}

// close ends the case: releases held applies, cancels in-flight appends and
// unloads the case's channel from the three runtimes.
func (l *c10Live) close() {
	l.hub.releaseAcks()
	for _, f := range l.facts {
		f.setPaused(false)
	}
	l.cancel()
	for _, p := range l.pending {
		select {
		case <-p.done:
		case <-time.After(c10LiveOpTimeout):
		}
	}
	l.src.setMissing(l.meta.ID, true)
	order := []ch.NodeID{l.meta.Leader}
	for _, n := range []ch.NodeID{1, 2, 3} {
		if n != l.meta.Leader {
			order = append(order, n)
		}
	}
	for _, n := range order {
		ev, ok := l.nodes[n].(interface {
			RuntimeEvict(context.Context, ch.RuntimeSelector) (ch.RuntimeEvictResult, error)
		})
		if !ok {
			continue
		}
		ctx, cancel := context.WithTimeout(context.Background(), 20*time.Second)
		res, err := ev.RuntimeEvict(ctx, ch.RuntimeSelector{ChannelIDs: []ch.ChannelID{l.meta.ID}})
		cancel()
		if err != nil || res.Evicted == 0 {
			l.r.Count("live.evict_not_done", 1)
		}
	}
}

func (l *c10Live) timed(kind string, fn func()) {
	t0 := time.Now()
	fn()
	l.r.Count("live.ms."+kind, int(time.Since(t0).Milliseconds()))
}

func (l *c10Live) abort(reason string) {
	if !l.aborted {
		l.aborted = true
		l.r.Inconclusive(fmt.Sprintf("%s (mode %s, leader %d, isr %v, minISR %d)", reason, l.w.mode, l.meta.Leader, l.meta.ISR, l.meta.MinISR))
		h := l.history()
		if len(h) > 30 {
			h = h[len(h)-30:]
		}
		l.r.Note("live.abort."+l.meta.ID.ID, map[string]any{"reason": reason, "history_tail": h, "events_tail": l.hub.tail(30)})
	}
}

// appendOne issues one append. If the ISR cannot commit right now (paused
// followers) the call is left in flight and only the leader-local durable
// append is awaited, which creates an uncommitted tail above HW.
func (l *c10Live) appendOne() {
	l.nextID++
	id := l.nextID
	p := c10Payload(id, 1+l.rng.IntN(30))
	so := l.rng.IntN(100) < 22
	l.mu.Lock()
	l.msgs[id] = c10Rec{ID: id, Payload: string(p), SyncOnce: so}
	l.mu.Unlock()
	req := ch.AppendRequest{ChannelID: l.meta.ID, Message: ch.Message{MessageID: id, Payload: p, FromUID: "u1", ClientMsgNo: fmt.Sprintf("c%d", id), SyncOnce: so}}
	pend := &c10Pending{id: id, done: make(chan struct{})}
	before := l.hub.leaderAppendLast.Load()
	go func() {
		defer close(pend.done)
		pend.res, pend.err = l.nodes[l.meta.Leader].Append(l.ctx, req)
		if pend.err == nil {
			l.mu.Lock()
			if pend.res.MessageSeq > l.ackedMax {
				l.ackedMax = pend.res.MessageSeq
			}
			l.mu.Unlock()
		}
	}()
	if l.committable() {
		wait := c10LiveOpTimeout
		stuckExpected := l.hub.leaderTrimmedAboveFollower.Load() || !l.quorumReady()
		if stuckExpected {
			wait = 2 * time.Second
		}
		select {
		case <-pend.done:
			l.logf("append id=%d synconce=%v -> seq=%d err=%v", id, so, pend.res.MessageSeq, pend.err)
			if pend.err != nil {
				l.r.Count("live.append_err."+c10ErrClass(pend.err), 1)
			} else {
				l.r.Count("live.append_acked", 1)
			}
		case <-time.After(wait):
			l.pending = append(l.pending, pend)
			if stuckExpected {
				// either a consequence of the trim already reported for this
				// case (the follower cannot be repaired from the trimmed leader
				// log) or, with the quorum log, the only reachable voter needs a
				// repair first and the round waits for the held one: not judged.
				l.r.Count("live.append_left_pending_commit_not_expected", 1)
				l.logf("append id=%d not committed within 2s (commit not expected right now), left in flight", id)
			} else {
				l.abort("live: committable append did not return within the watchdog")
			}
		}
		l.shape.WriteString("A")
		return
	}
	queuedBehind := l.w.mode == "quorum" && len(l.pending) > 0
	l.pending = append(l.pending, pend)
	if queuedBehind {
		// the durable quorum log serialises one channel: this proposal is not
		// written anywhere before the in-flight one resolves.
		l.logf("append id=%d synconce=%v queued behind an in-flight proposal", id, so)
		l.r.Count("live.append_queued_behind_in_flight", 1)
		l.shape.WriteString("Q")
		return
	}
	ok := false
	for deadline := time.Now().Add(c10LiveOpTimeout); time.Now().Before(deadline); time.Sleep(200 * time.Microsecond) {
		if l.hub.leaderAppendLast.Load() > before {
			ok = true
			break
		}
		select {
		case <-pend.done:
			ok = true
		default:
		}
		if ok {
			break
		}
	}
	l.logf("append id=%d synconce=%v left in flight (ISR held back), leader appended through %d", id, so, l.hub.leaderAppendLast.Load())
	l.r.Count("live.append_in_flight", 1)
	l.shape.WriteString("P")
	if !ok {
		l.abort("live: leader-local append of a held-back append not observed within the watchdog")
	}
}

func (l *c10Live) drainPending() {
	if !l.committable() || l.hub.leaderTrimmedAboveFollower.Load() {
		return
	}
	keep := l.pending[:0]
	for _, p := range l.pending {
		wait := c10LiveOpTimeout
		if l.w.mode == "quorum" {
			wait = 3 * time.Second // a round that lost its voters only resolves at the exchange timeout
		}
		select {
		case <-p.done:
			l.logf("in-flight append id=%d -> seq=%d err=%v", p.id, p.res.MessageSeq, p.err)
		case <-time.After(wait):
			keep = append(keep, p)
			if l.w.mode == "quorum" {
				l.r.Count("live.append_still_pending_after_resume", 1)
			} else {
				l.abort("live: held-back append did not complete after resume within the watchdog")
			}
		}
	}
	l.pending = keep
}

func (l *c10Live) stepPause() {
	fs := l.followers()
	if len(fs) == 0 {
		return
	}
	f := fs[l.rng.IntN(len(fs))]
	if l.paused[f] {
		l.facts[f].setPaused(false)
		l.paused[f] = false
		l.logf("resume follower %d", f)
		l.shape.WriteString("R")
		l.r.Count("live.resume", 1)
		l.drainPending()
		return
	}
	l.facts[f].setPaused(true)
	l.paused[f] = true
	l.logf("pause follower %d (ApplyFollower held)", f)
	l.shape.WriteString("H")
	l.r.Count("live.pause", 1)
}

func (l *c10Live) stepMeta() {
	cur := l.meta.RetentionThroughSeq
	leo := l.leaderLEO()
	var next uint64
	switch x := l.rng.IntN(100); {
	case x < 35 && l.maxMeta > 0:
		next = uint64(l.rng.IntN(int(l.maxMeta))) // regressing boundary update
	case x < 45:
		next = cur
	default:
		next = l.maxMeta + 1 + uint64(l.rng.IntN(2))
	}
	if next > leo {
		next = leo
	}
	kind := "forward"
	if next < l.maxMeta {
		kind = "backward"
		l.sawRegress = true
	} else if next == l.maxMeta {
		kind = "repeated"
	}
	l.meta.RetentionThroughSeq = next
	if next > l.maxMeta {
		l.maxMeta = next
	}
	l.src.set(l.meta)
	for _, node := range []ch.NodeID{1, 2, 3} {
		if l.rng.IntN(5) == 0 {
			continue // this node misses the update
		}
		if err := l.nodes[node].ApplyMeta(l.meta); err != nil {
			l.r.Count("live.apply_meta_err."+c10ErrClass(err), 1)
		}
	}
	l.logf("ApplyMeta retention=%d (%s, max so far %d)", next, kind, l.maxMeta)
	l.r.Count("live.apply_meta."+kind, 1)
	l.shape.WriteString("M" + kind[:1])
	l.stepViews()
}

func (l *c10Live) observeView(node ch.NodeID, site string, meta, local, phys uint64) {
	prev := l.views[node]
	w := func() map[string]any {
		return map[string]any{"node": node, "site": site, "before": map[string]uint64{"retention_through": prev.meta, "local": prev.local, "physical": prev.phys},
			"after": map[string]uint64{"retention_through": meta, "local": local, "physical": phys}, "history": l.history(), "events": l.hub.tail(25)}
	}
	if site == "view" && meta < prev.meta {
		c10V(l.r, "retention-boundary-decreased:runtime-authoritative", w())
	}
	if local < prev.local {
		c10V(l.r, "retention-boundary-decreased:runtime-local:"+site, w())
	}
	if phys < prev.phys {
		c10V(l.r, "retention-boundary-decreased:runtime-physical:"+site, w())
	}
	if site == "view" && meta > prev.meta {
		prev.meta = meta
	}
	if local > prev.local {
		prev.local = local
	}
	if phys > prev.phys {
		prev.phys = phys
	}
	l.views[node] = prev
	l.r.Count("live.retention_observations", 1)
}

func (l *c10Live) stepViews() {
	for _, node := range []ch.NodeID{1, 2, 3} {
		rt, ok := l.nodes[node].(ch.RetentionRuntime)
		if !ok {
			continue
		}
		ctx, cancel := context.WithTimeout(l.ctx, c10LiveOpTimeout)
		v, err := rt.RetentionView(ctx, l.meta.ID)
		cancel()
		if err != nil {
			l.r.Count("live.view_err."+c10ErrClass(err), 1)
			continue
		}
		l.observeView(node, "view", v.RetentionThroughSeq, v.LocalRetentionThroughSeq, v.PhysicalRetentionThroughSeq)
	}
}

func (l *c10Live) stepRetention() {
	node := ch.NodeID(1 + l.rng.IntN(3))
	if l.rng.IntN(2) == 0 {
		node = l.meta.Leader
	}
	leo := l.leaderLEO()
	if leo == 0 {
		return
	}
	var through uint64
	switch x := l.rng.IntN(100); {
	case x < 45 && l.meta.RetentionThroughSeq > 0:
		through = l.meta.RetentionThroughSeq // what the retention GC pass does
	case x < 60 && l.maxMeta > 0:
		through = l.maxMeta
	case x < 75 && l.views[node].local > 1:
		through = 1 + uint64(l.rng.IntN(int(l.views[node].local))) // at or below what this node adopted: regress/repeat
	default:
		through = 1 + uint64(l.rng.IntN(int(leo)))
	}
	if through > leo {
		through = leo // memory double: never beyond the leader's log end (see rt_store_test.go)
	}
	if l.w.mode == "quorum" && node != l.meta.Leader {
		// adopting beyond a follower's own log end moves its LEO over records
		// it never stored; the exact-append path then conflicts forever (a
		// liveness matter outside C10), so a quorum-mode follower only adopts
		// what it holds.
		if st, _, err := l.hub.rawLoad(node); err != nil || st.LEO == 0 {
			return
		} else if through > st.LEO {
			through = st.LEO
		}
	}
	opts := ch.RetentionApplyOptions{}
	if l.rng.IntN(3) == 0 {
		opts.MaxTrimMessages = 1 + l.rng.IntN(3)
	}
	if l.rng.IntN(5) == 0 {
		opts.MaxTrimBytes = 1 + l.rng.IntN(60)
	}
	rt, ok := l.nodes[node].(ch.RetentionRuntime)
	if !ok {
		return
	}
	if through < l.views[node].local {
		l.sawRegress = true
		l.r.Count("live.apply_retention_backward", 1)
	}
	if node == l.meta.Leader {
		// Freeze the leader's follower-progress bookkeeping for the duration
		// of the call: new offset-carrying pulls/acks are held (a network
		// delay), the ones in flight are given time to return.
		l.hub.freezeAcks(func() bool {
			for deadline := time.Now().Add(5 * time.Second); time.Now().Before(deadline); time.Sleep(200 * time.Microsecond) {
				if !l.hub.acksInflight() {
					return true
				}
			}
			l.r.Count("live.note.acks_still_in_flight_at_leader_retention", 1)
			return false
		})
	}
	ctx, cancel := context.WithTimeout(l.ctx, c10LiveOpTimeout)
	res, err := rt.ApplyRetentionBoundary(ctx, ch.RetentionApplyRequest{ChannelID: l.meta.ID, ThroughSeq: through, Options: opts})
	cancel()
	l.hub.releaseAcks()
	role := "follower"
	if node == l.meta.Leader {
		role = "leader"
	}
	l.logf("ApplyRetentionBoundary node=%d(%s) through=%d opts=%+v -> local=%d physical=%d deleted_through=%d deleted=%d more=%v blocked=%q err=%v",
		node, role, through, opts, res.LocalRetentionThroughSeq, res.PhysicalRetentionThroughSeq, res.DeletedThroughSeq, res.Deleted, res.More, res.BlockedReason, err)
	l.shape.WriteString("G" + role[:1])
	if err != nil {
		l.r.Count("live.apply_retention_err."+c10ErrClass(err), 1)
		if ctx.Err() != nil && l.ctx.Err() == nil {
			l.abort("live: ApplyRetentionBoundary did not return within the watchdog")
		}
		return
	}
	l.r.Count("live.apply_retention."+role, 1)
	if res.Deleted > 0 {
		l.r.Count("live.apply_retention_deleted."+role, 1)
	}
	if res.BlockedReason != "" {
		l.r.Count("live.apply_retention_blocked."+role+"."+res.BlockedReason, 1)
		if res.BlockedReason == ch.RetentionBlockedMinISRLag || res.BlockedReason == ch.RetentionBlockedCheckpointLag {
			l.sawBlocked = true
		}
	}
	l.observeView(node, "apply", 0, res.LocalRetentionThroughSeq, res.PhysicalRetentionThroughSeq)
}

func (l *c10Live) stepRead() {
	leader := l.meta.Leader
	// floor proof: sampled BEFORE the read (boundaries only grow).
	metaRetention := l.meta.RetentionThroughSeq
	_, rsBefore, err := l.hub.rawLoad(leader)
	if err != nil {
		return
	}
	floor := metaRetention
	if rsBefore.LocalRetentionThroughSeq > floor {
		floor = rsBefore.LocalRetentionThroughSeq
	}
	stBefore, _, _ := l.hub.rawLoad(leader)
	hint := stBefore.HW
	if l.meta.MinISR <= 1 {
		hint = stBefore.LEO
	}
	n := 1 + l.rng.IntN(3)
	reads := make([]channels.CommittedRead, n)
	for i := range reads {
		q := c10GenReq(l.rng, floor, hint, stBefore.LEO)
		if l.rng.IntN(4) == 0 {
			// a downward page that has to stop at the retention floor
			q = store.ReadCommittedRequest{Reverse: true, Limit: int(stBefore.LEO) + 4, MaxBytes: 1 << 20}
			q.FromSeq = []uint64{0, c10MaxU64, hint, stBefore.LEO}[l.rng.IntN(4)]
			q.MaxSeq = []uint64{0, c10MaxU64}[l.rng.IntN(2)]
			q.MinSeq = []uint64{0, 0, floor, floor + 1}[l.rng.IntN(4)]
		}
		reads[i] = channels.CommittedRead{ChannelID: l.meta.ID, Request: q}
	}
	var results []channels.CommittedReadResult
	if l.r.Guard("live.ReadCommittedBatch", nil, func() {
		ctx, cancel := context.WithTimeout(l.ctx, c10LiveOpTimeout)
		defer cancel()
		results, err = l.svc.ReadCommittedBatch(ctx, reads)
	}) {
		return
	}
	if err != nil || len(results) != n {
		l.r.Count("live.read_batch_err", 1)
		return
	}
	// committed proof: sampled AFTER the read returned (LEOs only grow).
	var leos []uint64
	leoByNode := map[ch.NodeID]uint64{}
	for _, node := range l.meta.ISR {
		st, _, lerr := l.hub.rawLoad(node)
		if lerr != nil {
			return
		}
		leos = append(leos, st.LEO)
		leoByNode[node] = st.LEO
	}
	sort.Slice(leos, func(i, j int) bool { return leos[i] > leos[j] })
	proven := leoByNode[leader]
	if l.meta.MinISR > 1 {
		proven = leos[l.meta.MinISR-1]
		if leoByNode[leader] < proven {
			proven = leoByNode[leader]
		}
	}
	l.mu.Lock()
	if l.ackedMax > proven {
		proven = l.ackedMax
	}
	l.mu.Unlock()
	tail := leoByNode[leader] > proven
	if l.hub.suffixShortened.Load() {
		l.r.Count("live.note.read_not_judged_after_suffix_replacement", 1)
		return
	}
	for i, res := range results {
		q := reads[i].Request
		l.r.Eval(1)
		dir := "fwd"
		if q.Reverse {
			dir = "rev"
		}
		l.r.Count("live.read."+dir+"."+c10ErrClass(res.Err), 1)
		if res.Err != nil {
			continue
		}
		seqs := c10Seqs(res.Read.Messages)
		l.logf("read minISR=%d proven_committed=%d leader_leo=%d isr_leos=%v floor=%d(meta=%d adopted=%d) %v -> %v", l.meta.MinISR, proven, leoByNode[leader], leoByNode, floor, metaRetention, rsBefore.LocalRetentionThroughSeq, c10ReqJSON(q), seqs)
		l.r.Count("live.read_messages", len(seqs))
		w := func() map[string]any {
			return map[string]any{"leader": leader, "isr": l.meta.ISR, "min_isr": l.meta.MinISR, "durable_leo_by_isr_node_after_read": leoByNode, "proven_committed": proven,
				"leader_persisted_hw_before_read": stBefore.HW,
				"meta_retention": metaRetention, "leader_adopted_retention_before_read": rsBefore.LocalRetentionThroughSeq,
				"request": c10ReqJSON(q), "returned": seqs, "history": l.history(), "events": l.hub.tail(30)}
		}
		for _, m := range res.Read.Messages {
			if m.MessageSeq > proven {
				kind := "persisted-hw>0"
				if stBefore.HW == 0 && l.meta.MinISR > 1 {
					kind = "committed=0"
				}
				c10V(l.r, "live-read-above-proven-committed:"+kind+":"+dir, w())
				break
			}
			if m.MessageSeq <= floor {
				c10V(l.r, "live-read-at-or-below-retention:"+dir, w())
				break
			}
			if q.MinSeq > 0 && m.MessageSeq < q.MinSeq {
				c10V(l.r, "live-read-below-minseq:"+dir, w())
				break
			}
			l.mu.Lock()
			rec, ok := l.msgs[m.MessageID]
			l.mu.Unlock()
			if !ok && m.SyncOnce {
				// not appended by the harness and marked SyncOnce: the quorum
				// log's current-term barrier record; at this layer it must
				// carry the marker so that the sync reader can drop it.
				l.r.Count("live.barrier_records_seen_marked", 1)
				continue
			}
			if !ok {
				c10V(l.r, "live-read-unknown-record-not-marked-synconce", w())
				break
			}
			if rec.Payload != string(m.Payload) {
				c10V(l.r, "live-read-phantom-message", w())
				break
			}
			if rec.SyncOnce && !m.SyncOnce {
				c10V(l.r, "channels-read-synconce-record-returned-as-ordinary:live-local", w())
				break
			}
		}
		if tail && (q.MaxSeq == 0 || q.MaxSeq > proven) {
			l.sawTail = true
			l.r.Count("live.read_with_uncommitted_tail", 1)
		}
		if q.Reverse && floor > 0 && len(seqs) > 0 {
			lim := q.Limit
			if lim <= 0 {
				lim = 1 << 30
			}
			if len(seqs) < lim && (q.MaxBytes == 0 || q.MaxBytes >= 1<<20) && q.MinSeq <= floor+1 {
				l.sawCross = true
				l.r.Count("live.reverse_cross_floor", 1)
			}
		}
		l.shape.WriteString(dir[:1] + c10Bucket(q.MinSeq, floor+1) + c10Bucket(q.MaxSeq, proven))
	}
}

// settle gives unpaused followers a bounded chance to reach the leader's log
// end (a driver convenience, never judged).
func (l *c10Live) settle() {
	target := l.leaderLEO()
	limit := 2 * time.Second
	if l.hub.leaderTrimmedAboveFollower.Load() {
		limit = 200 * time.Millisecond
	}
	deadline := time.Now().Add(limit)
	for time.Now().Before(deadline) {
		ok := true
		for _, f := range l.followers() {
			if l.paused[f] {
				continue
			}
			st, _, err := l.hub.rawLoad(f)
			if err != nil || st.LEO < target {
				ok = false
			}
		}
		if ok {
			return
		}
		time.Sleep(500 * time.Microsecond)
	}
	l.r.Count("live.settle_gave_up", 1)
}

func c10LiveCase(r *verifkit.Run, i int, w *c10LiveWorld) {
	rng := r.Rand(0x11fe, uint64(i))
	l, err := c10NewLive(r, rng, i, w)
	if err != nil {
		r.Inconclusive(fmt.Sprintf("live case %d: cluster construction: %v", i, err))
		return
	}
	defer l.timed("close", l.close)
	r.BeginCase(i, fmt.Sprintf("mode=%s leader=%d isr=%v minISR=%d", w.mode, l.meta.Leader, l.meta.ISR, l.meta.MinISR))
	l.shape.WriteString(fmt.Sprintf("%s:L%d:I%d:Q%d:", w.mode, l.meta.Leader, len(l.meta.ISR), l.meta.MinISR))
	r.Count("live.cases."+w.mode, 1)
	if rng.IntN(4) == 0 {
		l.stepPause() // a follower that never applies anything
	}
	for k := 2 + rng.IntN(4); k > 0 && !l.aborted; k-- {
		l.timed("append_initial", l.appendOne)
	}
	steps := 16 + rng.IntN(14)
	for s := 0; s < steps && !l.aborted; s++ {
		switch x := rng.IntN(100); {
		case x < 18:
			l.timed("append", l.appendOne)
		case x < 30:
			l.timed("pause", l.stepPause)
		case x < 42:
			l.timed("meta", l.stepMeta)
		case x < 64:
			l.timed("retention", l.stepRetention)
		case x < 70:
			l.timed("views", l.stepViews)
		case x < 75:
			l.timed("settle", l.settle)
		default:
			l.timed("read", l.stepRead)
		}
	}
	if !l.aborted {
		l.stepViews()
		for _, f := range l.followers() {
			if l.paused[f] {
				l.facts[f].setPaused(false)
				l.paused[f] = false
			}
		}
		l.timed("final_drain", l.drainPending)
		l.timed("final_settle", l.settle)
		l.stepRead()
		l.stepViews()
	}
	h := l.hub
	r.Count("live.store_trims", int(h.trims.Load()))
	r.Count("live.store_trims_deleting", int(h.trimsDeleting.Load()))
	r.Count("live.leader_trims", int(h.leaderTrims.Load()))
	r.Count("live.leader_trims_with_lagging_isr_follower", int(h.trimHeldBackISR.Load()))
	r.Count("live.store_adopt_backward", int(h.adoptBackward.Load()))
	r.Count("live.follower_applies_held", int(h.appliesHeld.Load()))
	r.Count("live.store_retention_observations", int(h.retentionObs.Load()))
	r.Max("live.max_store_events_per_case", int(h.clock.Load()))
	if h.adoptBackward.Load() > 0 {
		l.sawRegress = true
	}
	for k, v := range map[string]bool{"regress": l.sawRegress, "blocked": l.sawBlocked, "cross": l.sawCross, "tail": l.sawTail} {
		if v {
			r.Count("live.cases_with."+k, 1)
		}
	}
	r.Count("live.cases", 1)
	if l.sawRegress && l.sawBlocked && l.sawCross {
		r.Nontrivial(l.shape.String())
		if l.sawTail {
			r.Count("live.nontrivial_cases_with_uncommitted_tail_read", 1)
		}
	}
	if r.WantSample() && l.sawRegress && l.sawBlocked && l.sawCross {
		r.Sample(map[string]any{"case": i, "leader": l.meta.Leader, "isr": l.meta.ISR, "min_isr": l.meta.MinISR, "history": l.history()})
	}
}

func TestVerifC10Live(t *testing.T) {
	r := verifkit.Start(t, "C10", "live")
	defer r.Finish()
	r.SetRule("Per case a fresh 3-node service.New cluster (memory stores behind the recording wrapper, random leader, ISR of 3 or 2, MinISR 1..3) runs 20-35 director steps: appends (22% SyncOnce; left in flight when paused followers make the ISR uncommittable, which builds an uncommitted tail), pause/resume of a follower's ApplyFollower (sometimes from the very start), ApplyMeta with RetentionThroughSeq forward/backward/repeated (some nodes miss an update), ApplyRetentionBoundary on leader/followers at the meta boundary, at earlier boundaries or at arbitrary sequences with random trim caps, RetentionView sweeps, and ReadCommittedBatch (1-3 requests around floor/HW/LEO/0/maxuint64, forward/reverse) through a channels.Service on the leader. Every read item is one evaluation; every physical trim is judged inside the store call. Non-trivial = case has a regressing boundary update, a physical trim blocked by min_isr_lag or checkpoint_lag, and a reverse read that crossed the retention floor. Distinct = topology + step/read shape string.")
	r.Assume("One leader epoch per case: follower logs are never truncated, so durable LEOs only grow and a sample taken after an event is an upper bound of the value during it.")
	r.Assume("The memory store double is never driven beyond the leader's log end (holes make later records unreadable in the double).")
	n := r.N(120, 1600)
	var w *c10LiveWorld
	defer func() {
		if w != nil {
			w.close()
		}
	}()
	for i := 0; i < n; i++ {
		if r.Skip(i) {
			continue
		}
		if w == nil || w.used >= 20 {
			mode := "quorum"
			if w != nil {
				if w.mode == "quorum" {
					mode = "pull"
				}
				w.close()
			}
			t0 := time.Now()
			var err error
			if w, err = c10NewLiveWorld(mode); err != nil {
				r.Inconclusive("live: cluster construction: " + err.Error())
				return
			}
			r.Count("live.ms.construct", int(time.Since(t0).Milliseconds()))
			r.Count("live.clusters_built."+mode, 1)
		}
		c10LiveCase(r, i, w)
	}
}
