//go:build verif

package c10_test

// Unit "store": the ChannelStore read/retention contract of both production
// store adapters (memory, MessageDB) under random histories of appends
// (leader and follower mode, with SyncOnce records), checkpoints, retention
// adoptions moving forward / BACKWARD / repeated, physical trims at arbitrary
// sequences and forward/reverse reads with arbitrary bounds.
//
// Asserted at this layer (this is where MinSeq / MaxSeq are enforced):
//   - ReadCommitted never returns a message below MinSeq (the logical retention
//     floor passed by the caller) nor above MaxSeq (the committed frontier
//     passed by the caller), forward or reverse;
//   - every returned message is the appended one (same id/payload) and keeps
//     its SyncOnce marker (the upper layer's barrier filter depends on it);
//   - RetentionState.{Local,Physical}RetentionThroughSeq never decrease;
//   - a physical trim never deletes above the requested / adopted boundary and
//     never removes a message above what it reported as deleted.

import (
	"context"
	"fmt"
	"math/rand/v2"
	"os"
	"sort"
	"strings"
	"testing"

	ch "github.com/WuKongIM/WuKongIM/pkg/channel"
	"github.com/WuKongIM/WuKongIM/pkg/channel/store"
	"github.com/WuKongIM/WuKongIM/pkg/verifkit"
)

type c10StoreCase struct {
	r      *verifkit.Run
	rng    *rand.Rand
	kind   string
	cs     store.ChannelStore
	shadow *c10Shadow
	nextID uint64
	log    []string

	leo       uint64 // from store results
	deleted   uint64 // highest seq reported deleted
	lastLocal uint64
	lastPhys  uint64
	follower  bool

	sawBackward, sawTrimRejected, sawTrim, sawCross bool
	shape                                         strings.Builder
}

func (c *c10StoreCase) logf(format string, a ...any) {
	if len(c.log) < 400 {
		c.log = append(c.log, fmt.Sprintf(format, a...))
	}
}

func (c *c10StoreCase) witness(extra map[string]any) map[string]any {
	extra["store"] = c.kind
	extra["history"] = c.log
	return extra
}

func (c *c10StoreCase) present(seq uint64) bool {
	_, ok := c.shadow.get(seq)
	return ok && seq > c.deleted
}

func (c *c10StoreCase) observeRetention(site string) store.RetentionState {
	rs, err := c.cs.LoadRetentionState(context.Background())
	if err != nil {
		c.r.Count("store.retention_load_err", 1)
		return rs
	}
	c.r.Count("store.retention_observations", 1)
	if rs.LocalRetentionThroughSeq < c.lastLocal {
		c10V(c.r, "retention-boundary-decreased:store-local:"+c.kind, c.witness(map[string]any{"site": site, "before": c.lastLocal, "after": rs.LocalRetentionThroughSeq}))
	}
	if rs.PhysicalRetentionThroughSeq < c.lastPhys {
		c10V(c.r, "retention-boundary-decreased:store-physical:"+c.kind, c.witness(map[string]any{"site": site, "before": c.lastPhys, "after": rs.PhysicalRetentionThroughSeq}))
	}
	if rs.LocalRetentionThroughSeq > c.lastLocal {
		c.lastLocal = rs.LocalRetentionThroughSeq
	}
	if rs.PhysicalRetentionThroughSeq > c.lastPhys {
		c.lastPhys = rs.PhysicalRetentionThroughSeq
	}
	return rs
}

func (c *c10StoreCase) stepAppend() {
	ctx := context.Background()
	n := 1 + c.rng.IntN(5)
	recs := make([]ch.Record, n)
	shadowRecs := make([]c10Rec, n)
	for i := range recs {
		c.nextID++
		p := c10Payload(c.nextID, 1+c.rng.IntN(40))
		so := c.rng.IntN(100) < 22
		recs[i] = ch.Record{ID: c.nextID, Payload: p, SizeBytes: len(p), SyncOnce: so, FromUID: "u1", ClientMsgNo: fmt.Sprintf("c%d", c.nextID)}
		shadowRecs[i] = c10Rec{ID: c.nextID, Payload: string(p), SyncOnce: so}
	}
	if c.follower {
		st, err := c.cs.Load(ctx)
		if err != nil {
			c.r.Count("store.load_err", 1)
			return
		}
		for i := range recs {
			recs[i].Index = st.LEO + 1 + uint64(i)
		}
		hw := uint64(c.rng.IntN(int(st.LEO) + n + 2))
		res, err := c.cs.ApplyFollower(ctx, store.ApplyFollowerRequest{Records: recs, LeaderHW: hw})
		c.logf("apply_follower first=%d n=%d leader_hw=%d -> leo=%d cp=%d err=%v", st.LEO+1, n, hw, res.LEO, res.CheckpointHW, err)
		c.shape.WriteString("F")
		if err != nil {
			c.r.Count("store.apply_err", 1)
			return
		}
		for i := range recs {
			c.shadow.put(recs[i].Index, shadowRecs[i])
		}
		c.leo = res.LEO
		c.r.Count("store.apply_follower", 1)
		return
	}
	res, err := c.cs.AppendLeader(ctx, store.AppendLeaderRequest{Records: recs})
	c.logf("append_leader n=%d -> [%d,%d] err=%v", n, res.BaseOffset, res.LastOffset, err)
	c.shape.WriteString("A")
	if err != nil {
		c.r.Count("store.append_err", 1)
		return
	}
	if res.LastOffset-res.BaseOffset+1 != uint64(n) {
		c.r.Count("store.append_range_odd", 1)
		return
	}
	for i := range recs {
		c.shadow.put(res.BaseOffset+uint64(i), shadowRecs[i])
	}
	c.leo = res.LastOffset
	c.r.Count("store.append_leader", 1)
}

func (c *c10StoreCase) stepCheckpoint() {
	hw := uint64(c.rng.IntN(int(c.leo) + 3))
	err := c.cs.StoreCheckpoint(context.Background(), ch.Checkpoint{HW: hw})
	c.logf("checkpoint hw=%d err=%v", hw, err)
	c.shape.WriteString("C")
	c.r.Count("store.checkpoint", 1)
}

func (c *c10StoreCase) stepAdopt() {
	var through uint64
	switch x := c.rng.IntN(100); {
	case x < 35 && c.lastLocal > 1: // backward
		through = 1 + uint64(c.rng.IntN(int(c.lastLocal-1)))
	case x < 50 && c.lastLocal > 0: // repeated
		through = c.lastLocal
	case x < 92:
		through = c.lastLocal + 1 + uint64(c.rng.IntN(3))
	default:
		through = c.leo + 1 + uint64(c.rng.IntN(3))
	}
	if through == 0 {
		through = 1
	}
	if c.kind == "memory" && through > c.leo {
		// The memory store is an index-addressed test double: adopting beyond
		// the log end leaves a hole in its record slice and every record
		// appended afterwards becomes unreadable (recordBySeqLocked). That is a
		// limitation of the double, not a C10 subject, so the memory store is
		// never driven beyond its log end (the MessageDB adapter is).
		through = c.leo
		c.r.Count("store.adopt_clamped_memory", 1)
		if through == 0 {
			return
		}
	}
	before := c.lastLocal
	retained, err := c.cs.AdoptRetentionBoundary(context.Background(), through, ch.RetentionCursorCommitted)
	c.logf("adopt through=%d (local before %d) -> retained_max=%d err=%v", through, before, retained, err)
	if through < before {
		c.sawBackward = true
		c.shape.WriteString("b")
		c.r.Count("store.adopt_backward", 1)
	} else if through == before {
		c.shape.WriteString("r")
		c.r.Count("store.adopt_repeated", 1)
	} else {
		c.shape.WriteString("a")
		c.r.Count("store.adopt_forward", 1)
	}
	rs := c.observeRetention("adopt")
	if err == nil && rs.LocalRetentionThroughSeq < through {
		// adoption acknowledged but not visible: not a "backwards" move, counted.
		c.r.Count("store.adopt_not_visible", 1)
	}
	if st, lerr := c.cs.Load(context.Background()); lerr == nil && st.LEO > c.leo {
		c.leo = st.LEO // adopting beyond the log end moves LEO (RetainedMaxSeq)
	}
}

func (c *c10StoreCase) fullRead() (map[uint64]ch.Message, bool) {
	res, err := c.cs.ReadCommitted(context.Background(), store.ReadCommittedRequest{FromSeq: 1, Limit: int(c.leo) + 16, MaxBytes: 1 << 30})
	if err != nil {
		c.r.Count("store.fullread_err", 1)
		return nil, false
	}
	out := make(map[uint64]ch.Message, len(res.Messages))
	for _, m := range res.Messages {
		out[m.MessageSeq] = m
	}
	return out, true
}

func (c *c10StoreCase) stepTrim() {
	var through uint64
	switch x := c.rng.IntN(100); {
	case x < 55 && c.lastLocal > 0:
		through = 1 + uint64(c.rng.IntN(int(c.lastLocal)))
	case x < 75:
		through = c.lastLocal + 1 + uint64(c.rng.IntN(3)) // above the adopted boundary: must not delete
	default:
		through = 1 + uint64(c.rng.IntN(int(c.leo)+2))
	}
	opts := store.RetentionTrimOptions{}
	if c.rng.IntN(3) == 0 {
		opts.MaxMessages = 1 + c.rng.IntN(3)
	}
	if c.rng.IntN(4) == 0 {
		opts.MaxBytes = 1 + c.rng.IntN(80)
	}
	localBefore := c.lastLocal
	res, err := c.cs.TrimMessagesThrough(context.Background(), through, opts)
	c.logf("trim through=%d opts=%+v (local %d) -> deleted_through=%d deleted=%d more=%v err=%v", through, opts, localBefore, res.DeletedThroughSeq, res.Deleted, res.More, err)
	c.shape.WriteString("T")
	c.r.Count("store.trim", 1)
	rs := c.observeRetention("trim")
	if err != nil {
		c.r.Count("store.trim_rejected", 1)
		if through > localBefore {
			c.sawTrimRejected = true
		}
	} else {
		if res.Deleted > 0 {
			c.sawTrim = true
			c.r.Count("store.trim_deleting", 1)
			if res.DeletedThroughSeq > through {
				c10V(c.r, "trim-deleted-above-requested-boundary:"+c.kind, c.witness(map[string]any{"through": through, "deleted_through": res.DeletedThroughSeq}))
			}
			if res.DeletedThroughSeq > rs.LocalRetentionThroughSeq || through > localBefore && res.DeletedThroughSeq > localBefore {
				c10V(c.r, "trim-deleted-above-adopted-boundary:"+c.kind, c.witness(map[string]any{"through": through, "deleted_through": res.DeletedThroughSeq, "local_before": localBefore, "local_after": rs.LocalRetentionThroughSeq}))
			}
			if res.DeletedThroughSeq > c.deleted {
				c.deleted = res.DeletedThroughSeq
			}
		}
	}
	// No message above what the trims reported as deleted may be gone.
	got, ok := c.fullRead()
	if !ok {
		return
	}
	var missing []uint64
	c.shadow.mu.Lock()
	for seq := range c.shadow.recs {
		if seq > c.deleted {
			if _, ok := got[seq]; !ok {
				missing = append(missing, seq)
			}
		}
	}
	c.shadow.mu.Unlock()
	if len(missing) > 0 {
		sort.Slice(missing, func(i, j int) bool { return missing[i] < missing[j] })
		c10V(c.r, "trim-removed-message-above-deleted-through:"+c.kind, c.witness(map[string]any{"through": through, "reported_deleted_through": c.deleted, "missing": missing}))
	}
	for seq := range got {
		if seq <= c.deleted {
			c.r.Count("store.note.trimmed_still_readable", 1)
			break
		}
	}
}

func (c *c10StoreCase) stepRead() {
	floor := c.lastLocal
	q := c10GenReq(c.rng, floor, c.leo, c.leo)
	res, err := c.cs.ReadCommitted(context.Background(), q)
	c.r.Eval(1)
	dir := "fwd"
	if q.Reverse {
		dir = "rev"
	}
	c.r.Count("store.read."+dir, 1)
	if err != nil {
		c.r.Count("store.read_err", 1)
		c.logf("read %v -> err=%v", c10ReqJSON(q), err)
		return
	}
	seqs := c10Seqs(res.Messages)
	c.logf("read %v -> %v next=%d", c10ReqJSON(q), seqs, res.NextSeq)
	c.r.Count("store.read_messages", len(seqs))
	w := func() map[string]any {
		return c.witness(map[string]any{"request": c10ReqJSON(q), "returned": seqs, "next": res.NextSeq, "leo": c.leo})
	}
	for i, m := range res.Messages {
		if q.MinSeq > 0 && m.MessageSeq < q.MinSeq {
			c10V(c.r, "store-read-below-minseq:"+dir+":"+c.kind, w())
			break
		}
		if q.MaxSeq > 0 && m.MessageSeq > q.MaxSeq {
			c10V(c.r, "store-read-above-maxseq:"+dir+":"+c.kind, w())
			break
		}
		rec, ok := c.shadow.get(m.MessageSeq)
		if !ok || rec.ID != m.MessageID || rec.Payload != string(m.Payload) {
			c10V(c.r, "store-read-phantom-message:"+c.kind, w())
			break
		}
		if rec.SyncOnce != m.SyncOnce {
			c10V(c.r, "store-read-synconce-marker-changed:"+c.kind, w())
			break
		}
		if i > 0 {
			prev := res.Messages[i-1].MessageSeq
			if (!q.Reverse && m.MessageSeq <= prev) || (q.Reverse && m.MessageSeq >= prev) {
				c.r.Count("store.note.order_unexpected", 1)
			}
		}
		if q.FromSeq > 0 && q.FromSeq != c10MaxU64 && ((!q.Reverse && m.MessageSeq < q.FromSeq && (q.MinSeq == 0 || q.FromSeq >= q.MinSeq)) || (q.Reverse && m.MessageSeq > q.FromSeq)) {
			c.r.Count("store.note.fromseq_escape", 1)
		}
	}
	if q.MinSeq > 0 {
		c.r.Count("store.read_with_minseq", 1)
	}
	if q.MaxSeq > 0 && q.MaxSeq < c.leo {
		c.r.Count("store.read_with_effective_maxseq", 1)
	}
	// reverse read crossing the retention floor: the scan started at/above the
	// floor, there are stored messages below it, and neither the limit nor the
	// byte budget stopped it first.
	if q.Reverse && q.MinSeq > 1 {
		from := q.FromSeq
		if from == 0 || from > c.leo {
			from = c.leo
		}
		if q.MaxSeq > 0 && from > q.MaxSeq {
			from = q.MaxSeq
		}
		below := false
		for s := q.MinSeq - 1; s >= 1 && s+8 >= q.MinSeq; s-- {
			if c.present(s) {
				below = true
				break
			}
		}
		lim := q.Limit
		if lim <= 0 {
			lim = 1 << 30
		}
		budgetFree := q.MaxBytes == 0 || q.MaxBytes >= 1<<20
		if from >= q.MinSeq && below && len(seqs) < lim && len(seqs) > 0 && budgetFree {
			c.sawCross = true
			c.r.Count("store.reverse_cross_floor", 1)
		}
	}
	c.shape.WriteString(map[bool]string{false: "f", true: "v"}[q.Reverse] + c10Bucket(q.MinSeq, floor+1) + c10Bucket(q.MaxSeq, c.leo))
}

func TestVerifC10Store(t *testing.T) {
	r := verifkit.Start(t, "C10", "store")
	defer r.Finish()
	r.SetRule("Per case one channel store (memory or MessageDB adapter, leader- or follower-fed) is driven by 30-70 random steps: appends (22% SyncOnce records), checkpoints (any value), AdoptRetentionBoundary forward/backward/repeated/beyond LEO, TrimMessagesThrough at arbitrary sequences with random message/byte caps, ReadCommitted forward/reverse with FromSeq/MaxSeq/MinSeq/Limit/MaxBytes drawn around floor, LEO, 0 and maxuint64. Every read is one evaluation. Non-trivial = the case contains a backward adoption, a trim request rejected because it was above the adopted boundary, a deleting trim, and a reverse read that crossed the MinSeq floor (stopped by the floor, not by limit/bytes, with stored messages just below). Distinct = store kind + sequence of step kinds with bucketed read bounds.")
	r.Assume("ReadCommitted at the store layer enforces only the caller's MinSeq/MaxSeq; the HW cap itself is the channels unit's subject.")

	dir, err := os.MkdirTemp("", "c10store")
	if err != nil {
		r.Inconclusive("mkdtemp: " + err.Error())
		return
	}
	defer os.RemoveAll(dir)
	mdb := store.NewMessageDBFactory(dir)
	defer mdb.Close()
	mem := store.NewMemoryFactory()

	nCases := r.N(1000, 14000)
	for i := 0; i < nCases; i++ {
		if r.Skip(i) {
			continue
		}
		rng := r.Rand(0x5701, uint64(i))
		kind := "memory"
		var f store.Factory = mem
		if i%2 == 1 {
			kind, f = "messagedb", mdb
		}
		follower := rng.IntN(4) == 0
		r.BeginCase(i, fmt.Sprintf("store=%s follower=%v", kind, follower))
		id := ch.ChannelID{ID: fmt.Sprintf("c10s-%d-%d", r.Seed, i), Type: 2}
		cs, err := f.ChannelStore(ch.ChannelKeyForID(id), id)
		if err != nil {
			r.Inconclusive(fmt.Sprintf("case %d: ChannelStore: %v", i, err))
			return
		}
		c := &c10StoreCase{r: r, rng: rng, kind: kind, cs: cs, shadow: c10NewShadow(), nextID: uint64(i+1) * 1_000_000, follower: follower}
		c.shape.WriteString(kind[:3])
		if follower {
			c.shape.WriteString("F:")
		}
		steps := 30 + rng.IntN(41)
		r.Guard("store-step:"+kind, nil, func() {
			c.stepAppend()
			for s := 0; s < steps; s++ {
				switch x := rng.IntN(100); {
				case x < 18:
					c.stepAppend()
				case x < 26:
					c.stepCheckpoint()
				case x < 42:
					c.stepAdopt()
				case x < 54:
					c.stepTrim()
				default:
					c.stepRead()
				}
			}
		})
		_ = cs.Close()
		if c.sawBackward && c.sawTrimRejected && c.sawTrim && c.sawCross {
			r.Nontrivial(c.shape.String())
		}
		if r.WantSample() && c.sawCross && c.sawBackward {
			r.Sample(map[string]any{"case": i, "store": kind, "follower_fed": follower, "history": c.log})
		}
	}
}
