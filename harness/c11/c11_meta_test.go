//go:build verif

package c11_test

import (
	"bytes"
	"context"
	"encoding/binary"
	"errors"
	"fmt"
	"io"
	"math/rand/v2"
	"os"
	"path/filepath"
	"reflect"
	"sort"
	"testing"

	"github.com/WuKongIM/WuKongIM/pkg/db/meta"
	"github.com/WuKongIM/WuKongIM/pkg/verifkit"
)

// ---------------------------------------------------------------------------
// PRNG metadata tables written through the public pkg/db/meta API. The model
// is the list of rows the store accepted (last write wins per key).

type c11MetaModel struct {
	users    map[string]meta.User
	devices  map[string]meta.Device
	channels map[string]meta.Channel // value is refreshed from the store at audit time (subscriber counters move)
	subs     map[string][]string
	members  map[string]meta.UserChannelMembership
	cmds     map[string]meta.UserCMDChannelMembership
	latest   map[string]meta.ChannelLatest
	plugins  map[string]meta.PluginUserBinding
	runtime  map[string]meta.ChannelRuntimeMeta
	events   int
	rejected int
	rejKinds map[string]int
}

func c11NewMetaModel() *c11MetaModel {
	return &c11MetaModel{users: map[string]meta.User{}, devices: map[string]meta.Device{}, channels: map[string]meta.Channel{},
		subs: map[string][]string{}, members: map[string]meta.UserChannelMembership{}, cmds: map[string]meta.UserCMDChannelMembership{},
		latest: map[string]meta.ChannelLatest{}, plugins: map[string]meta.PluginUserBinding{}, runtime: map[string]meta.ChannelRuntimeMeta{}}
}

func (m *c11MetaModel) rows() int {
	n := len(m.users) + len(m.devices) + len(m.channels) + len(m.members) + len(m.cmds) + len(m.latest) + len(m.plugins) + len(m.runtime) + m.events
	for _, s := range m.subs {
		n += len(s)
	}
	return n
}

func c11Str(rng *rand.Rand, prefix string, n int) string {
	if rng.IntN(12) == 0 {
		return prefix + string([]rune{rune(0x4e00 + rng.IntN(500))}) + fmt.Sprint(rng.IntN(n))
	}
	return fmt.Sprintf("%s%d", prefix, rng.IntN(n))
}

func c11Bytes(rng *rand.Rand, max int) []byte {
	b := make([]byte, rng.IntN(max))
	for i := range b {
		b[i] = byte(rng.UintN(256))
	}
	return b
}

// c11FillMeta writes nOps PRNG rows into hashSlot of db.
func c11FillMeta(rng *rand.Rand, db *meta.DB, hashSlot uint16, nOps int, tag string) *c11MetaModel {
	m := c11NewMetaModel()
	ctx := context.Background()
	s := db.ForHashSlot(hashSlot)
	kind := ""
	note := func(err error) bool {
		if err != nil {
			m.rejected++
			if m.rejKinds == nil {
				m.rejKinds = map[string]int{}
			}
			m.rejKinds[kind+": "+err.Error()]++
			return false
		}
		return true
	}
	for i := 0; i < nOps; i++ {
		uid := c11Str(rng, tag+"u", 12)
		cid := c11Str(rng, tag+"g", 6)
		ctype := int64(1 + rng.IntN(3))
		ck := fmt.Sprintf("%s/%d", cid, ctype)
		op := rng.IntN(12)
		kind = fmt.Sprint("op", op)
		switch op {
		case 0, 1:
			u := meta.User{UID: uid, Token: fmt.Sprintf("tok-%x", rng.Uint32()), DeviceFlag: int64(rng.IntN(3)), DeviceLevel: int64(rng.IntN(2))}
			if note(s.UpsertUser(ctx, u)) {
				m.users[uid] = u
			}
		case 2:
			d := meta.Device{UID: uid, DeviceFlag: int64(rng.IntN(3)), Token: fmt.Sprintf("dtok-%x", rng.Uint32()), DeviceLevel: int64(rng.IntN(2))}
			if note(s.UpsertDevice(ctx, d)) {
				m.devices[fmt.Sprintf("%s/%d", uid, d.DeviceFlag)] = d
			}
		case 3, 4:
			c := meta.Channel{ChannelID: cid, ChannelType: ctype, Ban: int64(rng.IntN(2)), Disband: 0, SendBan: int64(rng.IntN(2)),
				AllowStranger: int64(rng.IntN(2)), Large: int64(rng.IntN(2))}
			if _, ok := m.channels[ck]; ok {
				continue // keep subscriber counters the store maintains
			}
			if note(s.UpsertChannel(ctx, c)) {
				m.channels[ck] = c
			}
		case 5, 6:
			if _, ok := m.channels[ck]; !ok {
				continue
			}
			var uids []string
			for k := 0; k < 1+rng.IntN(5); k++ {
				uids = append(uids, c11Str(rng, tag+"u", 30))
			}
			if rng.IntN(5) == 0 && len(m.subs[ck]) > 0 {
				if note(s.RemoveSubscribers(ctx, cid, ctype, uids)) {
					keep := m.subs[ck][:0:0]
					for _, x := range m.subs[ck] {
						rm := false
						for _, y := range uids {
							rm = rm || x == y
						}
						if !rm {
							keep = append(keep, x)
						}
					}
					m.subs[ck] = keep
				}
				continue
			}
			if note(s.AddSubscribers(ctx, cid, ctype, uids)) {
				set := map[string]bool{}
				for _, x := range append(m.subs[ck], uids...) {
					set[x] = true
				}
				var all []string
				for x := range set {
					all = append(all, x)
				}
				sort.Strings(all)
				m.subs[ck] = all
			}
		case 7:
			mb := meta.UserChannelMembership{UID: uid, ChannelID: cid, ChannelType: ctype, JoinSeq: uint64(rng.IntN(100)), ReadSeq: uint64(rng.IntN(100)),
				ActivatedAt: int64(rng.IntN(1 << 30)), SourceVersion: uint64(1 + rng.IntN(9)), UpdatedAt: int64(1 + rng.IntN(1<<30))}
			if note(s.UpsertUserChannelMembership(ctx, mb)) {
				m.members[uid+"|"+ck] = mb
			}
		case 8:
			l := meta.ChannelLatest{ChannelID: cid, ChannelType: ctype, LastMessageID: uint64(1 + rng.IntN(1<<30)), LastMessageSeq: uint64(1 + rng.IntN(1000)),
				LastAt: int64(rng.IntN(1 << 30)), FromUID: uid, ClientMsgNo: c11Str(rng, "no", 1000), Payload: c11Bytes(rng, 64), UpdatedAt: int64(1 + rng.IntN(1<<30))}
			if old, ok := m.latest[ck]; ok && old.LastMessageSeq >= l.LastMessageSeq {
				continue // projection only advances
			}
			if note(s.UpsertChannelLatest(ctx, l)) {
				m.latest[ck] = l
			}
		case 9:
			b := meta.PluginUserBinding{UID: uid, PluginNo: c11Str(rng, "p", 3), CreatedAtMS: int64(1 + rng.IntN(1<<20)), UpdatedAtMS: int64(1<<20 + rng.IntN(1<<30))}
			if note(s.BindPluginUser(ctx, b)) {
				m.plugins[uid+"|"+b.PluginNo] = b
			}
		case 10:
			if _, ok := m.runtime[ck]; ok {
				continue
			}
			rm := meta.ChannelRuntimeMeta{ChannelID: cid, ChannelType: ctype, ChannelEpoch: uint64(1 + rng.IntN(5)), LeaderEpoch: uint64(1 + rng.IntN(5)),
				RouteGeneration: uint64(1 + rng.IntN(5)), Replicas: []uint64{1, 2, 3}, ISR: []uint64{1, 2}, Leader: 1, MinISR: 2, Status: 1}
			if note(s.UpsertChannelRuntimeMeta(ctx, rm)) {
				m.runtime[ck] = rm
			}
		case 11:
			ev := meta.MessageEventAppend{ChannelID: cid, ChannelType: ctype, ClientMsgNo: c11Str(rng, "no", 20), EventID: fmt.Sprintf("e%x", rng.Uint32()),
				EventKey: c11Str(rng, "k", 3), EventType: []string{meta.EventTypeStreamOpen, meta.EventTypeStreamDelta, meta.EventTypeStreamClose, meta.EventTypeStreamFinish}[rng.IntN(4)], Visibility: "", OccurredAt: int64(1 + rng.IntN(1<<30)), Payload: c11Bytes(rng, 32), UpdatedAt: int64(1 + rng.IntN(1<<30))}
			if _, err := s.AppendMessageEvent(ctx, ev); note(err) {
				m.events++
			}
		}
	}
	return m
}

// c11MetaAudit reads every modelled row back from tgt and compares with the
// source store (differential) and the model. backupOnly: runtime ownership
// rows are documented as excluded from the semantic backup stream.
func c11MetaAudit(r *verifkit.Run, m *c11MetaModel, src, tgt *meta.DB, hashSlot uint16, backupOnly bool) (string, any) {
	ctx := context.Background()
	s, t := src.ForHashSlot(hashSlot), tgt.ForHashSlot(hashSlot)
	for uid, u := range m.users {
		g, err := t.GetUser(ctx, uid)
		if err != nil || g != u {
			return "restored-meta-differs:user", map[string]any{"uid": uid, "err": fmt.Sprint(err), "got": fmt.Sprintf("%+v", g), "want": fmt.Sprintf("%+v", u)}
		}
	}
	for k, d := range m.devices {
		g, err := t.GetDevice(ctx, d.UID, d.DeviceFlag)
		if err != nil || g != d {
			return "restored-meta-differs:device", map[string]any{"key": k, "err": fmt.Sprint(err)}
		}
	}
	for k, c := range m.channels {
		w, werr := s.GetChannel(ctx, c.ChannelID, c.ChannelType)
		g, err := t.GetChannel(ctx, c.ChannelID, c.ChannelType)
		if werr != nil || err != nil || g != w {
			return "restored-meta-differs:channel", map[string]any{"key": k, "err": fmt.Sprint(err, werr), "got": fmt.Sprintf("%+v", g), "want": fmt.Sprintf("%+v", w)}
		}
		if g.Ban != c.Ban || g.SendBan != c.SendBan || g.AllowStranger != c.AllowStranger || g.Large != c.Large {
			return "restored-meta-differs:channel-flags", map[string]any{"key": k}
		}
		subs, err := t.ListSubscribersSnapshot(ctx, c.ChannelID, c.ChannelType)
		if err != nil {
			return "restored-meta-differs:subscribers", map[string]any{"key": k, "err": err.Error()}
		}
		got := append([]string(nil), subs...)
		sort.Strings(got)
		want := append([]string(nil), m.subs[k]...)
		sort.Strings(want)
		if len(got) != len(want) || (len(got) > 0 && !reflect.DeepEqual(got, want)) {
			return "restored-meta-differs:subscribers", map[string]any{"key": k, "got": got, "want": want}
		}
		if uint64(len(want)) != g.SubscriberCount {
			return "restored-meta-differs:subscriber-count", map[string]any{"key": k, "count": g.SubscriberCount, "want": len(want)}
		}
	}
	for k, mb := range m.members {
		g, err := t.GetUserChannelMembership(ctx, mb.UID, mb.ChannelID, mb.ChannelType)
		w, werr := s.GetUserChannelMembership(ctx, mb.UID, mb.ChannelID, mb.ChannelType)
		if err != nil || werr != nil || g != w {
			return "restored-meta-differs:membership", map[string]any{"key": k, "err": fmt.Sprint(err, werr)}
		}
	}
	for k, l := range m.latest {
		g, err := t.GetChannelLatest(ctx, l.ChannelID, l.ChannelType)
		if err != nil || !reflect.DeepEqual(c11NormLatest(g), c11NormLatest(l)) {
			return "restored-meta-differs:channel-latest", map[string]any{"key": k, "err": fmt.Sprint(err)}
		}
	}
	for k, b := range m.plugins {
		gs, err := t.ListPluginBindingsByUID(ctx, b.UID)
		ws, werr := s.ListPluginBindingsByUID(ctx, b.UID)
		if err != nil || werr != nil || !reflect.DeepEqual(gs, ws) || len(gs) == 0 {
			return "restored-meta-differs:plugin-binding", map[string]any{"key": k, "err": fmt.Sprint(err, werr)}
		}
	}
	for k, rm := range m.runtime {
		g, err := t.GetChannelRuntimeMeta(ctx, rm.ChannelID, rm.ChannelType)
		if backupOnly {
			if err == nil {
				// documented: runtime ownership rows are not part of the semantic backup
				return "backup-carried-runtime-meta", map[string]any{"key": k, "got": fmt.Sprintf("%+v", g)}
			}
			continue
		}
		w, werr := s.GetChannelRuntimeMeta(ctx, rm.ChannelID, rm.ChannelType)
		if err != nil || werr != nil || !reflect.DeepEqual(g, w) {
			return "restored-meta-differs:runtime-meta", map[string]any{"key": k, "err": fmt.Sprint(err, werr)}
		}
	}
	r.Count("meta.audit.rows", m.rows())
	return "", nil
}

func c11NormLatest(l meta.ChannelLatest) meta.ChannelLatest {
	if len(l.Payload) == 0 {
		l.Payload = nil
	}
	return l
}

func c11ReadAll(rd io.ReadCloser, err error) ([]byte, error) {
	if err != nil {
		return nil, err
	}
	b, rerr := io.ReadAll(rd)
	cerr := rd.Close()
	if rerr != nil {
		return nil, rerr
	}
	return b, cerr
}

func c11MetaFull(db *meta.DB, slots []uint16) ([]byte, error) {
	snap, err := db.ExportHashSlotSnapshot(context.Background(), slots)
	return snap.Data, err
}

// c11MetaLayout returns the offsets of the header fields and per-entry length
// fields of a portable metadata snapshot.
func c11MetaLayout(s []byte) (fields []int, entries [][2]int, countAt int, ok bool) {
	if len(s) < 20 {
		return nil, nil, 0, false
	}
	n := int(binary.BigEndian.Uint16(s[6:8]))
	p := 8 + 2*n
	countAt = p
	if p+8 > len(s)-4 {
		return nil, nil, 0, false
	}
	count := binary.BigEndian.Uint64(s[p : p+8])
	p += 8
	body := s[:len(s)-4]
	for i := uint64(0); i < count; i++ {
		st := p
		kl, a := binary.Uvarint(body[p:])
		if a <= 0 {
			return fields, entries, countAt, false
		}
		vl, b := binary.Uvarint(body[p+a:])
		if b <= 0 || uint64(len(body)-p-a-b) < kl+vl {
			return fields, entries, countAt, false
		}
		fields = append(fields, p, p+a, p+a+b, p+a+b+int(kl))
		p += a + b + int(kl) + int(vl)
		entries = append(entries, [2]int{st, p})
	}
	return fields, entries, countAt, p == len(body)
}

type c11MetaFault struct {
	class      string
	body       []byte
	forged     bool
	mustReject bool
	detail     string
}

func c11MetaFaults(rng *rand.Rand, s []byte, nRandom int) []c11MetaFault {
	var out []c11MetaFault
	n := len(s)
	raw := func(class, detail string, b []byte) {
		out = append(out, c11MetaFault{class: class, body: b, mustReject: true, detail: detail})
	}
	fields, entries, countAt, ok := c11MetaLayout(s)
	lens := map[int]bool{0: true, n - 1: true, n - 4: true, n - 5: true, n / 2: true, countAt: true, countAt + 8: true}
	for i := 1; i <= 21 && i < n; i++ {
		lens[i] = true
	}
	for i := 0; i < nRandom/4; i++ {
		lens[rng.IntN(n)] = true
	}
	if len(entries) > 0 {
		e := entries[rng.IntN(len(entries))]
		lens[e[0]], lens[e[1]], lens[e[0]+1] = true, true, true
	}
	var ll []int
	for l := range lens {
		if l >= 0 && l < n {
			ll = append(ll, l)
		}
	}
	sort.Ints(ll)
	for _, l := range ll {
		raw("truncate", fmt.Sprintf("len=%d/%d", l, n), append([]byte(nil), s[:l]...))
	}
	offs := map[int]bool{}
	for i := 0; i < countAt+8 && i < n; i++ {
		offs[i] = true
	}
	for i := n - 4; i < n; i++ {
		offs[i] = true
	}
	ff := append([]int(nil), fields...)
	rng.Shuffle(len(ff), func(i, j int) { ff[i], ff[j] = ff[j], ff[i] })
	if len(ff) > nRandom {
		ff = ff[:nRandom]
	}
	for _, f := range ff {
		if f < n {
			offs[f] = true
		}
	}
	for i := 0; i < nRandom; i++ {
		offs[rng.IntN(n)] = true
	}
	var ol []int
	for o := range offs {
		ol = append(ol, o)
	}
	sort.Ints(ol)
	for _, o := range ol {
		b := append([]byte(nil), s...)
		bit := byte(1) << rng.UintN(8)
		b[o] ^= bit
		raw("bitflip", fmt.Sprintf("off=%d/%d bit=%#x", o, n, bit), b)
	}
	raw("extend", "+1 zero", append(append([]byte(nil), s...), 0))
	raw("extend", "stream twice", append(append([]byte(nil), s...), s...))
	if !ok {
		return out
	}
	rebuild := func(es [][]byte, count uint64) []byte {
		b := append([]byte(nil), s[:countAt+8]...)
		binary.BigEndian.PutUint64(b[countAt:], count)
		for _, e := range es {
			b = append(b, e...)
		}
		return append(b, s[n-4:]...)
	}
	var es [][]byte
	for _, e := range entries {
		es = append(es, s[e[0]:e[1]])
	}
	both := func(class, detail string, b []byte, must bool) {
		if bytes.Equal(b, s) {
			return
		}
		raw(class, detail, append([]byte(nil), b...))
		out = append(out, c11MetaFault{class: "forged-" + class, body: c11FixCRC(append([]byte(nil), b...)), forged: true, mustReject: must, detail: detail})
	}
	if len(es) >= 2 {
		i := rng.IntN(len(es))
		j := (i + 1 + rng.IntN(len(es)-1)) % len(es)
		sw := append([][]byte(nil), es...)
		sw[i], sw[j] = sw[j], sw[i]
		// entry order carries no meaning for a key/value import: a forged
		// reordering is a well-formed snapshot of the same rows
		both("reorder-entries", fmt.Sprintf("%d<->%d", i, j), rebuild(sw, uint64(len(sw))), false)
		dup := append(append([][]byte(nil), es[:i+1]...), es[i:]...)
		both("duplicate-entry-same-count", fmt.Sprintf("entry %d twice", i), rebuild(dup, uint64(len(es))), true)
		both("entry-count+1", "", rebuild(es, uint64(len(es))+1), true)
		both("entry-count-1", "", rebuild(es, uint64(len(es))-1), true)
	}
	// another hash slot in the header (valid checksum): the import is told
	// which slots to expect and must refuse.
	other := append([]byte(nil), s...)
	hs := binary.BigEndian.Uint16(s[8:10])
	binary.BigEndian.PutUint16(other[8:10], hs^uint16(1+rng.IntN(255)))
	both("other-hash-slot", "header slot edited", other, true)
	for i := 0; i < nRandom/2; i++ {
		o := countAt + 8 + rng.IntN(n-4-countAt-8)
		b := append([]byte(nil), s...)
		b[o] ^= 1 << rng.UintN(7)
		out = append(out, c11MetaFault{class: "forged-body-bit", body: c11FixCRC(b), forged: true, detail: fmt.Sprintf("off=%d", o)})
	}
	return out
}

func c11MetaImportReader(ctx context.Context, db *meta.DB, slots []uint16, body []byte) (meta.BackupSnapshotStats, error) {
	return db.ImportHashSlotSnapshotReaderForRestoreWithStats(ctx, slots, bytes.NewReader(body), int64(len(body)), false)
}

func TestVerifC11Meta(t *testing.T) {
	r := verifkit.Start(t, "C11", "meta")
	defer r.Finish()
	r.SetRule("Each case fills 2 exported hash slots + 1 foreign slot of a fresh metadata store with PRNG rows through the public pkg/db/meta writers (users, devices, channels, subscribers, memberships, channel-latest, plugin bindings, runtime meta, message events). Paths: ExportHashSlotSnapshot->ImportHashSlotSnapshot; OpenHashSlotSnapshot->ImportHashSlotSnapshotReader; OpenBackupHashSlotSnapshot->Verify/Inspect->ImportHashSlotSnapshotReaderForRestoreWithStats; Replay->RestoreSnapshotWriter; each into a target pre-filled with other rows in the same slots (replaced) and in another slot (untouched); oracle = byte-equal re-export + typed read-back of every modelled row. Faults on the stream against a pre-filled target that must stay byte-identical: every truncation class, bit flips on every header byte / entry length field / trailer / PRNG offsets, extension, entry reordering/duplication, count edits, foreign hash slot, raw and with recomputed checksum. Retry: import interrupted at the K-th context poll then retried. Non-trivial = source slot holds rows of >= 4 tables; distinct by (path, row-count bucket, tables) / (fault class, outcome).")

	root := t.TempDir()
	nCases := r.N(12, 100)
	nRandom := r.N(40, 160)
	for ci := 0; ci < nCases; ci++ {
		if r.Skip(ci) {
			continue
		}
		rng := r.Rand(1101, uint64(ci))
		r.BeginCase(ci, fmt.Sprintf("meta case %d", ci))
		dir := filepath.Join(root, fmt.Sprintf("m%d", ci))
		c11MetaCase(r, rng, ci, dir, nRandom)
		os.RemoveAll(dir)
	}
}

func c11MetaCase(r *verifkit.Run, rng *rand.Rand, ci int, dir string, nRandom int) {
	ctx := context.Background()
	src, err := meta.Open(filepath.Join(dir, "src"))
	if err != nil {
		r.Inconclusive("open meta source: " + err.Error())
		return
	}
	defer src.Close()
	h1 := uint16(rng.IntN(200))
	h2 := h1 + 1 + uint16(rng.IntN(20))
	hOther := h2 + 1 + uint16(rng.IntN(20))
	slots := []uint16{h1, h2}
	if rng.IntN(3) == 0 {
		slots = []uint16{h1}
	}
	nOps := 20 + rng.IntN(120)
	if rng.IntN(8) == 0 {
		nOps = 1500 // crosses the 1024-entry import batch
	}
	models := map[uint16]*c11MetaModel{}
	for _, h := range []uint16{h1, h2, hOther} {
		models[h] = c11FillMeta(rng, src, h, nOps, fmt.Sprintf("s%d-", h))
		r.Count("meta.source.rows", models[h].rows())
		r.Count("meta.source.rejected_writes", models[h].rejected)
		for k, n := range models[h].rejKinds {
			r.Count("meta.source.rejected."+k, n)
		}
	}
	tables := 0
	m1 := models[h1]
	for _, n := range []int{len(m1.users), len(m1.devices), len(m1.channels), len(m1.subs), len(m1.members), len(m1.latest), len(m1.plugins), len(m1.runtime), m1.events} {
		if n > 0 {
			tables++
		}
	}
	shape := fmt.Sprintf("slots%d.rows%d.tables%d", len(slots), m1.rows()/32, tables)

	full, err := c11MetaFull(src, slots)
	if err != nil {
		r.Violation("meta-export-failed", map[string]any{"err": err.Error()})
		return
	}
	fullStream, err := c11ReadAll(src.OpenHashSlotSnapshot(ctx, slots))
	if err != nil {
		r.Violation("meta-export-failed:stream", map[string]any{"err": err.Error()})
		return
	}
	if bytes.Equal(full, fullStream) {
		r.Count("meta.full_stream_equals_bytes", 1)
	} else {
		r.Count("meta.full_stream_differs_from_bytes", 1)
	}
	backup, err := c11ReadAll(src.OpenBackupHashSlotSnapshot(ctx, slots))
	if err != nil {
		r.Violation("meta-export-failed:backup", map[string]any{"err": err.Error()})
		return
	}
	if b2, err := c11ReadAll(src.OpenBackupHashSlotSnapshot(ctx, slots)); err != nil || !bytes.Equal(b2, backup) {
		r.Violation("meta-export-not-deterministic", map[string]any{"err": fmt.Sprint(err)})
	}
	r.Max("meta.max_stream_bytes", len(backup))
	vstats, err := meta.VerifyBackupHashSlotSnapshotReader(ctx, slots, bytes.NewReader(backup), int64(len(backup)))
	if err != nil {
		r.Violation("meta-verify-rejects-own-export", map[string]any{"err": err.Error()})
		return
	}
	if rd, hstats, err := meta.InspectBackupHashSlotSnapshotHeader(io.NopCloser(bytes.NewReader(backup))); err != nil || hstats != vstats {
		r.Violation("meta-header-stats-differ", map[string]any{"err": fmt.Sprint(err), "header": hstats.EntryCount, "verified": vstats.EntryCount})
	} else if again, _ := io.ReadAll(rd); !bytes.Equal(again, backup) {
		r.Violation("meta-inspect-header-changed-stream", nil)
	}

	// pre-filled targets
	openTarget := func(name string) (*meta.DB, []byte, []byte) {
		t, err := meta.Open(filepath.Join(dir, name))
		if err != nil {
			r.Inconclusive("open meta target: " + err.Error())
			return nil, nil, nil
		}
		trng := rand.New(rand.NewPCG(uint64(ci), 77))
		for _, h := range slots {
			c11FillMeta(trng, t, h, 15, "junk-")
		}
		c11FillMeta(trng, t, hOther, 15, "keep-")
		before, _ := c11MetaFull(t, slots)
		other, _ := c11MetaFull(t, []uint16{hOther})
		return t, before, other
	}
	type path struct {
		name       string
		backupOnly bool
		stream     []byte
		run        func(t *meta.DB) error
	}
	paths := []path{
		{"bytes", false, full, func(t *meta.DB) error {
			return t.ImportHashSlotSnapshot(ctx, meta.SlotSnapshot{HashSlots: slots, Data: full})
		}},
		{"reader", false, fullStream, func(t *meta.DB) error {
			return t.MetaDB().ImportHashSlotSnapshotReader(ctx, slots, bytes.NewReader(fullStream), int64(len(fullStream)))
		}},
		{"restore", true, backup, func(t *meta.DB) error {
			st, err := c11MetaImportReader(ctx, t, slots, backup)
			if err == nil && st != vstats {
				return fmt.Errorf("import stats %d != verified %d", st.EntryCount, vstats.EntryCount)
			}
			return err
		}},
		{"writer", true, backup, func(t *meta.DB) error {
			// the writer installs into a fresh slot: discard first (documented cleanup)
			for _, h := range slots {
				if err := t.DeleteHashSlotData(ctx, h); err != nil {
					return err
				}
			}
			w, err := t.MetaDB().NewRestoreSnapshotWriter(ctx, slots, false)
			if err != nil {
				return err
			}
			_, _, rerr := meta.ReplayBackupHashSlotSnapshot(ctx, bytes.NewReader(backup), int64(len(backup)), func(e meta.BackupSnapshotEntry) error {
				return w.Put(ctx, e.Key, e.Value)
			})
			cerr := w.Close()
			return errors.Join(rerr, cerr)
		}},
	}
	for _, p := range paths {
		tgt, _, otherBefore := openTarget("tgt-" + p.name)
		if tgt == nil {
			return
		}
		r.Eval(1)
		var ierr error
		if r.Guard("meta-import:"+p.name, shape, func() { ierr = p.run(tgt) }) {
			tgt.Close()
			continue
		}
		if ierr != nil {
			r.Violation("meta-clean-import-failed:"+p.name, map[string]any{"shape": shape, "err": ierr.Error()})
			tgt.Close()
			continue
		}
		var re []byte
		var err error
		if p.backupOnly {
			re, err = c11ReadAll(tgt.OpenBackupHashSlotSnapshot(ctx, slots))
		} else if p.name == "bytes" {
			re, err = c11MetaFull(tgt, slots)
		} else {
			re, err = c11ReadAll(tgt.OpenHashSlotSnapshot(ctx, slots))
		}
		if err != nil || !bytes.Equal(re, p.stream) {
			r.Violation("meta-re-export-differs:"+p.name, map[string]any{"shape": shape, "err": fmt.Sprint(err), "len_export": len(p.stream), "len_reexport": len(re), "first_diff": c11FirstDiff(p.stream, re)})
		}
		for _, h := range slots {
			if sig, wit := c11MetaAudit(r, models[h], src, tgt, h, p.backupOnly); sig != "" {
				r.Violation(sig+":"+p.name, wit)
			}
		}
		if after, _ := c11MetaFull(tgt, []uint16{hOther}); !bytes.Equal(after, otherBefore) {
			r.Violation("meta-import-touched-other-slot:"+p.name, map[string]any{"shape": shape})
		}
		// rows of the foreign source slot must not have travelled
		for uid := range models[hOther].users {
			if _, err := tgt.ForHashSlot(hOther).GetUser(ctx, uid); err == nil {
				r.Violation("meta-import-carried-foreign-slot:"+p.name, map[string]any{"uid": uid})
				break
			}
		}
		r.Count("meta.roundtrip.ok."+p.name, 1)
		if tables >= 4 {
			r.Nontrivial("meta-roundtrip|" + p.name + "|" + shape)
		}
		tgt.Close()
		os.RemoveAll(filepath.Join(dir, "tgt-"+p.name))
	}
	if r.WantSample() {
		r.Sample(map[string]any{"case": ci, "unit": "meta", "slots": slots, "rows_slot1": m1.rows(), "tables": tables, "backup_stream_bytes": len(backup), "full_snapshot_bytes": len(full), "entries": vstats.EntryCount})
	}

	// ---- faults -----------------------------------------------------------
	ft, before, otherBefore := openTarget("faults")
	if ft == nil {
		return
	}
	defer ft.Close()
	for fi, f := range c11MetaFaults(rng, backup, nRandom) {
		variant := []string{"restore", "bytes", "verify"}[fi%3]
		if f.forged && fi%2 == 0 {
			variant = "restore"
		}
		wit := map[string]any{"shape": shape, "class": f.class, "detail": f.detail, "variant": variant, "stream_len": len(backup)}
		r.Eval(1)
		var ferr error
		if r.Guard("meta-import:"+variant+":"+f.class, wit, func() {
			switch variant {
			case "restore":
				_, ferr = c11MetaImportReader(ctx, ft, slots, f.body)
			case "bytes":
				ferr = ft.ImportHashSlotSnapshot(ctx, meta.SlotSnapshot{HashSlots: slots, Data: f.body})
			default:
				_, ferr = meta.VerifyBackupHashSlotSnapshotReader(ctx, slots, bytes.NewReader(f.body), int64(len(f.body)))
			}
		}) {
			continue
		}
		outcome := "rejected"
		if ferr == nil {
			outcome = "accepted"
		}
		r.Count("meta.fault."+f.class+"."+outcome, 1)
		r.Nontrivial("meta-fault|" + f.class + "|" + outcome + "|" + variant)
		if ferr == nil && f.mustReject {
			r.Violation("meta-corrupt-stream-accepted:"+f.class+":"+variant, wit)
		}
		now, _ := c11MetaFull(ft, slots)
		if ferr != nil && !bytes.Equal(now, before) {
			// both import variants validate the complete stream before the
			// first write (two-phase reader / single atomic batch)
			wit["err"] = ferr.Error()
			r.Violation("meta-partial-state-after-rejected-import:"+f.class+":"+variant, wit)
		}
		if !bytes.Equal(now, before) {
			// accepted forged stream: put the pre-filled content back
			if err := ft.ImportHashSlotSnapshot(ctx, meta.SlotSnapshot{HashSlots: slots, Data: before}); err != nil {
				r.Violation("meta-reimport-failed", map[string]any{"err": err.Error()})
				return
			}
		}
	}
	if after, _ := c11MetaFull(ft, []uint16{hOther}); !bytes.Equal(after, otherBefore) {
		r.Violation("meta-import-touched-other-slot:faults", map[string]any{"shape": shape})
	}
	// wrong expected slot set
	for _, wrong := range [][]uint16{{hOther}, {h1, hOther}, {h1, h2, hOther}} {
		r.Eval(1)
		if _, err := c11MetaImportReader(ctx, ft, wrong, backup); err == nil {
			r.Violation("meta-mismatched-slots-accepted:restore", map[string]any{"stream_slots": slots, "requested": wrong})
		}
		if err := ft.ImportHashSlotSnapshot(ctx, meta.SlotSnapshot{HashSlots: wrong, Data: full}); err == nil {
			r.Violation("meta-mismatched-slots-accepted:bytes", map[string]any{"stream_slots": slots, "requested": wrong})
		}
		if _, err := meta.VerifyBackupHashSlotSnapshotReader(ctx, wrong, bytes.NewReader(backup), int64(len(backup))); err == nil {
			r.Violation("meta-mismatched-slots-accepted:verify", map[string]any{"stream_slots": slots, "requested": wrong})
		}
		r.Count("meta.mismatch.rejected", 1)
	}
	if now, _ := c11MetaFull(ft, slots); !bytes.Equal(now, before) {
		r.Violation("meta-partial-state-after-rejected-import:mismatched-slots", map[string]any{"shape": shape})
	}
	// later clean import => canonical
	if _, err := c11MetaImportReader(ctx, ft, slots, backup); err != nil {
		r.Violation("meta-clean-import-after-faults-failed", map[string]any{"err": err.Error()})
	} else if re, err := c11ReadAll(ft.OpenBackupHashSlotSnapshot(ctx, slots)); err != nil || !bytes.Equal(re, backup) {
		r.Violation("meta-re-export-differs:after-faults", map[string]any{"err": fmt.Sprint(err)})
	}

	// ---- interrupted restore, retried from scratch --------------------------
	probe := &c11CountCtx{Context: ctx}
	if _, err := c11MetaImportReader(probe, ft, slots, backup); err != nil {
		r.Violation("meta-clean-import-failed:retry-probe", map[string]any{"err": err.Error()})
		return
	}
	total := probe.calls.Load()
	r.Max("meta.max_interruption_points", int(total))
	if total < 1 {
		return
	}
	points := map[int64]bool{1: true, 2: true, total: true, total / 2: true, total - 1: true}
	for i := 0; i < r.N(3, 10); i++ {
		points[1+rng.Int64N(total)] = true
	}
	var pl []int64
	for p := range points {
		if p >= 1 && p <= total {
			pl = append(pl, p)
		}
	}
	sort.Slice(pl, func(i, j int) bool { return pl[i] < pl[j] })
	for _, k := range pl {
		r.Eval(1)
		// start from the pre-filled content
		if err := ft.ImportHashSlotSnapshot(ctx, meta.SlotSnapshot{HashSlots: slots, Data: before}); err != nil {
			r.Violation("meta-reimport-failed", map[string]any{"err": err.Error()})
			return
		}
		ictx := &c11CountCtx{Context: ctx, limit: k}
		_, ierr := c11MetaImportReader(ictx, ft, slots, backup)
		mid, _ := c11MetaFull(ft, slots)
		state := "partial"
		if bytes.Equal(mid, before) {
			state = "untouched"
		}
		if ierr == nil {
			state = "completed"
		}
		r.Count("meta.retry.interrupted."+state, 1)
		if _, err := c11MetaImportReader(ctx, ft, slots, backup); err != nil {
			r.Violation("meta-retry-after-interrupt-failed", map[string]any{"interrupted_at_poll": k, "polls_total": total, "state": state, "err": err.Error()})
			continue
		}
		if re, err := c11ReadAll(ft.OpenBackupHashSlotSnapshot(ctx, slots)); err != nil || !bytes.Equal(re, backup) {
			r.Violation("meta-retry-converged-differently", map[string]any{"interrupted_at_poll": k, "polls_total": total, "state": state, "err": fmt.Sprint(err)})
		}
		r.Nontrivial(fmt.Sprintf("meta-retry|%s|%s", state, shape))
	}
}
