//go:build verif

package c11_test

import (
	"bytes"
	"context"
	"encoding/binary"
	"errors"
	"fmt"
	"hash/crc32"
	"io"
	"math/rand/v2"
	"os"
	"path/filepath"
	"sort"
	"sync/atomic"
	"testing"

	ch "github.com/WuKongIM/WuKongIM/pkg/channel"
	chstore "github.com/WuKongIM/WuKongIM/pkg/channel/store"
	"github.com/WuKongIM/WuKongIM/pkg/verifkit"
)

var c11Ctx = context.Background()

// ---------------------------------------------------------------------------
// Source generator + model.

type c11Msg struct {
	Seq      uint64
	ID       uint64
	UID, No  string
	TS       int64
	Setting  uint8
	SyncOnce bool
	Payload  []byte
}

type c11Prop struct {
	cmd        ch.CommandID
	base, last uint64
	manifest   ch.ProposalManifest
}

type c11Chan struct {
	id      ch.ChannelID
	key     ch.ChannelKey
	exact   bool
	epoch   uint64
	msgs    []c11Msg // seq 1..LEO, everything ever appended
	props   []c11Prop
	hw      uint64
	through uint64 // physical retention boundary (rows <= through are gone)
	export  bool   // part of the exported hash slot
}

func (c *c11Chan) leo() uint64 { return uint64(len(c.msgs)) }

// committed returns the rows a restored store must contain: through < seq <= hw.
func (c *c11Chan) committed() []c11Msg {
	var out []c11Msg
	for _, m := range c.msgs {
		if m.Seq > c.through && m.Seq <= c.hw {
			out = append(out, m)
		}
	}
	return out
}

func (c *c11Chan) cut() chstore.BackupChannelCut {
	return chstore.BackupChannelCut{Key: c.key, ID: c.id, Epoch: c.epoch, LogStartOffset: c.through, HW: c.hw}
}

type c11Source struct {
	reportedLEO map[string]bool
	chans       []*c11Chan
	slot        uint16
	nextID      uint64
	nextCmd     uint64
}

func (s *c11Source) exported() []*c11Chan {
	var out []*c11Chan
	for _, c := range s.chans {
		if c.export {
			out = append(out, c)
		}
	}
	return out
}

func (s *c11Source) request() chstore.BackupSnapshotRequest {
	req := chstore.BackupSnapshotRequest{HashSlot: s.slot}
	for _, c := range s.exported() {
		req.Channels = append(req.Channels, c.cut())
	}
	return req
}

func (s *c11Source) shape() string {
	var ret, suf, ex, idem, empty int
	for _, c := range s.exported() {
		if c.through > 0 {
			ret++
		}
		if c.leo() > c.hw {
			suf++
		}
		if c.exact {
			ex++
		}
		if c.hw == 0 {
			empty++
		}
		for _, m := range c.committed() {
			if m.UID != "" && m.No != "" {
				idem++
				break
			}
		}
	}
	return fmt.Sprintf("ch%d.ret%d.suf%d.exact%d.idem%d.hw0_%d", len(s.exported()), ret, suf, ex, idem, empty)
}

func (s *c11Source) nontrivial() bool {
	for _, c := range s.exported() {
		if c.through >= 1 && c.leo() > c.hw {
			return true
		}
	}
	return false
}

func c11Payload(rng *rand.Rand) []byte {
	n := rng.IntN(48)
	switch rng.IntN(12) {
	case 0:
		n = 0
	case 1:
		n = 200 + rng.IntN(3000)
	}
	b := make([]byte, n)
	for i := range b {
		b[i] = byte(rng.UintN(256))
	}
	return b
}

func (s *c11Source) newMsg(rng *rand.Rand, c *c11Chan, used map[string]bool) c11Msg {
	s.nextID += 1 + uint64(rng.IntN(5))
	m := c11Msg{ID: s.nextID, TS: 1_700_000_000_000 + int64(rng.IntN(1<<30)), Setting: uint8(rng.IntN(4)) << 5,
		SyncOnce: rng.IntN(8) == 0, Payload: c11Payload(rng)}
	if rng.IntN(10) < 7 {
		m.UID = fmt.Sprintf("u%d", rng.IntN(6))
		for {
			m.No = fmt.Sprintf("no-%d-%d", len(c.msgs), rng.IntN(1<<20))
			if !used[m.UID+"\x00"+m.No] {
				used[m.UID+"\x00"+m.No] = true
				break
			}
		}
	} else if rng.IntN(2) == 0 {
		m.UID = fmt.Sprintf("u%d", rng.IntN(6))
	}
	return m
}

func c11Record(m c11Msg, epoch uint64) ch.Record {
	return ch.Record{ID: m.ID, Epoch: epoch, Setting: m.Setting, FromUID: m.UID, ClientMsgNo: m.No, ServerTimestampMS: m.TS,
		SyncOnce: m.SyncOnce, Payload: append([]byte(nil), m.Payload...), SizeBytes: len(m.Payload)}
}

// c11BuildSource writes a PRNG history into a fresh message store through the
// production adapter (pkg/channel/store.MessageDBFactory).
func c11BuildSource(rng *rand.Rand, f *chstore.MessageDBFactory, forceShape bool) (*c11Source, error) {
	s := &c11Source{slot: uint16(rng.IntN(1024)), nextID: uint64(1000 + rng.IntN(1000))}
	nCh := 2 + rng.IntN(4)
	for ci := 0; ci <= nCh; ci++ {
		c := &c11Chan{id: ch.ChannelID{ID: fmt.Sprintf("c%02d-%x", ci, rng.Uint32()), Type: uint8(1 + rng.IntN(3))}, export: ci < nCh,
			exact: rng.IntN(3) == 0, epoch: 1 + uint64(rng.IntN(9))}
		c.key = ch.ChannelKeyForID(c.id)
		st, err := f.ChannelStore(c.key, c.id)
		if err != nil {
			return nil, fmt.Errorf("ChannelStore: %w", err)
		}
		used := map[string]bool{}
		nBatches := rng.IntN(7)
		if rng.IntN(10) == 0 {
			nBatches = 20 + rng.IntN(40) // > one import batch boundary is exercised in the thorough tier via c11Big
		}
		if forceShape && ci == 0 {
			if nBatches < 3 {
				nBatches = 3
			}
		}
		var prevDigest ch.EntryDigest
		var prevTerm uint64
		term := 1 + uint64(rng.IntN(5))
		fence := 1 + uint64(rng.IntN(5))
		bounds := []uint64{0}
		var committed uint64
		for b := 0; b < nBatches; b++ {
			n := 1 + rng.IntN(4)
			var recs []ch.Record
			var ms []c11Msg
			for i := 0; i < n; i++ {
				m := s.newMsg(rng, c, used)
				m.Seq = c.leo() + uint64(i) + 1
				ms = append(ms, m)
				recs = append(recs, c11Record(m, c.epoch))
			}
			req := chstore.AppendLeaderRequest{Records: recs}
			base := c.leo()
			if c.exact {
				s.nextCmd++
				var cmd ch.CommandID
				binary.BigEndian.PutUint64(cmd[:8], s.nextCmd)
				cmd[31] = byte(1 + rng.IntN(255))
				man := ch.ProposalManifest{Version: ch.ProposalManifestVersion, ChannelEpoch: c.epoch, LeaderTerm: term, FenceVersion: fence,
					CommandID: cmd, BaseOffset: base, LastOffset: base + uint64(n), PreviousIndex: base, PreviousTerm: prevTerm, PreviousDigest: prevDigest}
				sealed, entries, ok := ch.SealProposalManifest(man, recs)
				if !ok {
					return nil, fmt.Errorf("SealProposalManifest failed (harness)")
				}
				req.ExactBaseOffset, req.ExpectedBaseOffset, req.Proposal = true, base, sealed
				req.ServerAllocatedMessageIDs = true
				if rng.IntN(2) == 0 {
					if v := bounds[rng.IntN(len(bounds))]; v > committed {
						committed = v
					}
					req.Committed = committed
				}
				prevDigest, prevTerm = entries[len(entries)-1].Digest, term
				c.props = append(c.props, c11Prop{cmd: cmd, base: base, last: base + uint64(n), manifest: sealed})
			}
			res, err := st.AppendLeader(c11Ctx, req)
			if err != nil {
				return nil, fmt.Errorf("AppendLeader(exact=%v base=%d n=%d): %w", c.exact, base, n, err)
			}
			if res.LastOffset != base+uint64(n) {
				return nil, fmt.Errorf("AppendLeader last=%d want %d", res.LastOffset, base+uint64(n))
			}
			c.msgs = append(c.msgs, ms...)
			bounds = append(bounds, c.leo())
		}
		// committed frontier: a batch boundary (proposal boundary for exact
		// channels), biased below LEO so that an uncommitted suffix exists.
		c.hw = bounds[rng.IntN(len(bounds))]
		if c.hw < committed {
			c.hw = committed
		}
		if !c.exact && c.leo() > 0 && rng.IntN(2) == 0 {
			c.hw = uint64(rng.IntN(int(c.leo()) + 1))
		}
		if forceShape && ci == 0 && !c.exact {
			c.hw = 1 + uint64(rng.IntN(int(c.leo())-1))
		}
		if forceShape && ci == 0 && c.exact {
			c.hw = bounds[1+rng.IntN(len(bounds)-2)]
			if c.hw < committed {
				c.hw = committed
			}
		}
		if c.hw > 0 {
			if err := st.StoreCheckpoint(c11Ctx, ch.Checkpoint{HW: c.hw}); err != nil {
				return nil, fmt.Errorf("StoreCheckpoint: %w", err)
			}
		}
		// retention: adopt + physically trim a committed prefix
		if c.hw > 0 && (rng.IntN(2) == 0 || (forceShape && ci == 0)) {
			through := 1 + uint64(rng.IntN(int(c.hw)))
			if forceShape && ci == 0 && through == c.hw && c.hw > 1 {
				through = c.hw - 1
			}
			if _, err := st.AdoptRetentionBoundary(c11Ctx, through, "c11"); err != nil {
				return nil, fmt.Errorf("AdoptRetentionBoundary(%d, hw=%d leo=%d): %w", through, c.hw, c.leo(), err)
			}
			for {
				res, err := st.TrimMessagesThrough(c11Ctx, through, chstore.RetentionTrimOptions{})
				if err != nil {
					return nil, fmt.Errorf("TrimMessagesThrough: %w", err)
				}
				if !res.More {
					break
				}
			}
			c.through = through
		}
		if err := st.Close(); err != nil {
			return nil, err
		}
		s.chans = append(s.chans, c)
	}
	return s, nil
}

// ---------------------------------------------------------------------------
// Store helpers.

func c11Open(dir string) (*chstore.MessageDBFactory, error) {
	f := chstore.NewMessageDBFactory(dir)
	if _, _, _, err := f.ListChannelsPage(c11Ctx, "", 1); err != nil {
		return nil, fmt.Errorf("open message store: %w", err)
	}
	return f, nil
}

func c11List(f *chstore.MessageDBFactory) ([]chstore.ChannelCatalogEntry, error) {
	var out []chstore.ChannelCatalogEntry
	var cur ch.ChannelKey
	for {
		page, next, more, err := f.ListChannelsPage(c11Ctx, cur, 256)
		if err != nil {
			return nil, err
		}
		out = append(out, page...)
		if !more {
			return out, nil
		}
		cur = next
	}
}

func c11Export(f *chstore.MessageDBFactory, req chstore.BackupSnapshotRequest, withStats bool) ([]byte, chstore.BackupSnapshotStats, error) {
	var rd io.ReadCloser
	var stats chstore.BackupSnapshotStats
	var err error
	if withStats {
		rd, stats, err = f.OpenBackupSnapshotWithStats(c11Ctx, req)
	} else {
		rd, err = f.OpenBackupSnapshot(c11Ctx, req)
	}
	if err != nil {
		return nil, stats, err
	}
	body, rerr := io.ReadAll(rd)
	cerr := rd.Close()
	if rerr != nil {
		return nil, stats, rerr
	}
	return body, stats, cerr
}

func c11Import(ctx context.Context, f *chstore.MessageDBFactory, body []byte, reader bool) (chstore.BackupSnapshotStats, error) {
	if reader {
		return f.ImportBackupSnapshotReader(ctx, bytes.NewReader(body), int64(len(body)))
	}
	return f.ImportBackupSnapshot(ctx, body)
}

// c11Cleanup is the documented restore-failure cleanup: every Channel known
// to the target or named by the stream is discarded.
func c11Cleanup(f *chstore.MessageDBFactory, extra []*c11Chan) error {
	entries, err := c11List(f)
	if err != nil {
		return err
	}
	seen := map[ch.ChannelID]bool{}
	var bs []chstore.RestoreChannelBoundary
	for _, e := range entries {
		if !seen[e.ID] && e.ID.Type != 0 && e.ID.ID != "" && e.Key == ch.ChannelKeyForID(e.ID) {
			seen[e.ID] = true
			bs = append(bs, chstore.RestoreChannelBoundary{ID: e.ID})
		}
	}
	for _, c := range extra {
		if !seen[c.id] {
			seen[c.id] = true
			bs = append(bs, chstore.RestoreChannelBoundary{ID: c.id})
		}
	}
	return f.DiscardRestoreChannels(c11Ctx, bs)
}

// ---------------------------------------------------------------------------
// Audit of a restored store against the generator's model.

func c11MsgEq(m c11Msg, g ch.Message, c *c11Chan) bool {
	return g.MessageSeq == m.Seq && g.MessageID == m.ID && g.FromUID == m.UID && g.ClientMsgNo == m.No && g.ServerTimestampMS == m.TS &&
		g.Setting == m.Setting && g.SyncOnce == m.SyncOnce && bytes.Equal(g.Payload, m.Payload) && g.ChannelID == c.id.ID && g.ChannelType == c.id.Type
}

// c11Audit returns "" or a (signature, witness) pair.
func c11Audit(r *verifkit.Run, src *c11Source, srcF, tgt *chstore.MessageDBFactory) (string, any) {
	entries, err := c11List(tgt)
	if err != nil {
		return "audit-error:list", err.Error()
	}
	exp := src.exported()
	want := map[ch.ChannelKey]ch.ChannelID{}
	for _, c := range exp {
		want[c.key] = c.id
	}
	if len(entries) != len(want) {
		return "restored-catalog-differs", map[string]any{"want": len(want), "got": fmt.Sprint(entries)}
	}
	for _, e := range entries {
		if id, ok := want[e.Key]; !ok || id != e.ID {
			return "restored-catalog-differs", map[string]any{"unexpected": fmt.Sprint(e)}
		}
	}
	for _, c := range exp {
		w := func(extra map[string]any) map[string]any {
			m := map[string]any{"channel": c.id.ID, "type": c.id.Type, "exact": c.exact, "leo": c.leo(), "hw": c.hw, "retention_through": c.through}
			for k, v := range extra {
				m[k] = v
			}
			return m
		}
		st, err := tgt.ChannelStore(c.key, c.id)
		if err != nil {
			return "audit-error:open", w(map[string]any{"err": err.Error()})
		}
		ss, err := srcF.ChannelStore(c.key, c.id)
		if err != nil {
			st.Close()
			return "audit-error:open-source", w(map[string]any{"err": err.Error()})
		}
		sig, wit := func() (string, any) {
			init, err := st.Load(c11Ctx)
			if err != nil {
				return "audit-error:load", w(map[string]any{"err": err.Error()})
			}
			if init.LEO > c.hw {
				// The restored store reports a log end above the exported
				// committed watermark although no row above HW exists. Recorded
				// and the audit continues (the remaining clauses are independent).
				sr, _ := ss.LoadRetentionState(c11Ctx)
				r.Count("audit.restored_leo_above_hw", 1)
				if src.reportedLEO == nil {
					src.reportedLEO = map[string]bool{}
				}
				if !src.reportedLEO[c.id.ID] {
					src.reportedLEO[c.id.ID] = true
					r.Violation("restored-leo-above-hw", w(map[string]any{"restored_leo": init.LEO, "restored_hw": init.HW,
						"source_retained_max_seq": sr.RetainedMaxSeq, "source_retention_through": sr.LocalRetentionThroughSeq}))
				}
			}
			if init.LEO < c.hw || init.HW != c.hw {
				return "restored-frontier-differs", w(map[string]any{"restored_leo": init.LEO, "restored_hw": init.HW})
			}
			res, err := st.ReadCommitted(c11Ctx, chstore.ReadCommittedRequest{FromSeq: 1, Limit: 1 << 20, MaxBytes: 1 << 30})
			if err != nil {
				return "audit-error:read", w(map[string]any{"err": err.Error()})
			}
			wantMsgs := c.committed()
			for _, g := range res.Messages {
				if g.MessageSeq > c.hw {
					return "restored-above-hw:message", w(map[string]any{"seq": g.MessageSeq})
				}
			}
			if len(res.Messages) != len(wantMsgs) {
				return "restored-messages-differ:count", w(map[string]any{"want": len(wantMsgs), "got": len(res.Messages)})
			}
			for i, m := range wantMsgs {
				if !c11MsgEq(m, res.Messages[i], c) {
					return "restored-messages-differ:content", w(map[string]any{"seq": m.Seq, "got_seq": res.Messages[i].MessageSeq, "got_id": res.Messages[i].MessageID, "want_id": m.ID})
				}
			}
			r.Count("audit.messages", len(wantMsgs))
			lg, err := st.ReadLog(c11Ctx, chstore.ReadLogRequest{FromOffset: 1, MaxBytes: 1 << 30})
			if err != nil {
				return "audit-error:readlog", w(map[string]any{"err": err.Error()})
			}
			if len(lg.Records) != len(wantMsgs) {
				return "restored-log-differs:count", w(map[string]any{"want": len(wantMsgs), "got": len(lg.Records)})
			}
			for i, m := range wantMsgs {
				g := lg.Records[i]
				if g.Index != m.Seq || g.ID != m.ID || !bytes.Equal(g.Payload, m.Payload) || g.FromUID != m.UID || g.ClientMsgNo != m.No {
					return "restored-log-differs:content", w(map[string]any{"seq": m.Seq})
				}
			}
			// identity + idempotency
			tl, _ := st.(chstore.IdempotencyLookup)
			sl, _ := ss.(chstore.IdempotencyLookup)
			tm, _ := st.(chstore.MessageLookup)
			for _, m := range c.msgs {
				retained := m.Seq > c.through && m.Seq <= c.hw
				if tm != nil {
					g, found, err := tm.LookupMessageByID(c11Ctx, m.ID)
					if err != nil {
						return "audit-error:lookup-id", w(map[string]any{"err": err.Error()})
					}
					if retained && (!found || !c11MsgEq(m, g, c)) {
						return "restored-identity-missing", w(map[string]any{"seq": m.Seq, "message_id": m.ID, "found": found})
					}
					if m.Seq > c.hw && found {
						return "restored-above-hw:message-id", w(map[string]any{"seq": m.Seq, "message_id": m.ID})
					}
					r.Count("audit.identity_lookups", 1)
				}
				if m.UID == "" || m.No == "" || tl == nil {
					continue
				}
				hit, found, err := tl.LookupIdempotency(c11Ctx, m.UID, m.No)
				if err != nil {
					return "audit-error:lookup-idem", w(map[string]any{"err": err.Error()})
				}
				switch {
				case m.Seq > c.hw:
					if found {
						return "restored-above-hw:idempotency", w(map[string]any{"seq": m.Seq, "uid": m.UID, "client_msg_no": m.No})
					}
					r.Count("audit.idempotency_absent_above_hw", 1)
				case retained:
					if !found || hit.Message.MessageSeq != m.Seq || hit.Message.MessageID != m.ID {
						return "restored-idempotency-missing", w(map[string]any{"seq": m.Seq, "uid": m.UID, "client_msg_no": m.No, "found": found, "hit_seq": hit.Message.MessageSeq})
					}
					if sl != nil {
						sh, sf, serr := sl.LookupIdempotency(c11Ctx, m.UID, m.No)
						if serr == nil && sf && sh.PayloadHash != hit.PayloadHash {
							return "restored-idempotency-differs:payload-hash", w(map[string]any{"seq": m.Seq})
						}
					}
					r.Count("audit.idempotency_present", 1)
				default: // trimmed by retention: whatever the source answers, the restored store answers the same
					if sl != nil {
						_, sf, serr := sl.LookupIdempotency(c11Ctx, m.UID, m.No)
						if serr == nil && sf != found {
							return "restored-idempotency-differs:trimmed", w(map[string]any{"seq": m.Seq, "source_found": sf, "restored_found": found})
						}
					}
					r.Count("audit.idempotency_trimmed", 1)
				}
			}
			tr, err := st.LoadRetentionState(c11Ctx)
			sr, serr := ss.LoadRetentionState(c11Ctx)
			if err != nil || serr != nil {
				return "audit-error:retention", w(map[string]any{"err": fmt.Sprint(err, serr)})
			}
			// The export clamps a retained log end that lies above the exported HW
			// (it may cover the unexported uncommitted suffix) to
			// max(HW, LocalRetentionThroughSeq); everything else travels unchanged.
			wr := sr
			if wr.RetainedMaxSeq > c.hw {
				wr.RetainedMaxSeq = c.hw
				if wr.LocalRetentionThroughSeq > wr.RetainedMaxSeq {
					wr.RetainedMaxSeq = wr.LocalRetentionThroughSeq
				}
				r.Count("audit.retention_retained_max_clamped", 1)
			}
			if tr != wr {
				return "restored-retention-differs", w(map[string]any{"source": fmt.Sprint(sr), "expected": fmt.Sprint(wr), "restored": fmt.Sprint(tr)})
			}
			// exact proposals
			if tp, ok := st.(chstore.ExactProposalLookup); ok && c.exact {
				sp := ss.(chstore.ExactProposalLookup)
				for _, p := range c.props {
					preq := chstore.ExactProposalRequest{CommandID: p.cmd, MaxRecords: 64, MaxBytes: 1 << 24}
					sg, sfound, serr := sp.LoadExactProposal(c11Ctx, preq)
					got, found, err := tp.LoadExactProposal(c11Ctx, preq)
					if p.last > c.hw {
						if found {
							return "restored-above-hw:proposal", w(map[string]any{"base": p.base, "last": p.last})
						}
						r.Count("audit.proposal_absent_above_hw", 1)
						continue
					}
					if serr != nil {
						// the source itself cannot materialise it (rows below
						// the proposal were trimmed): nothing to compare
						r.Count("audit.proposal_source_unreadable", 1)
						continue
					}
					if err != nil {
						return "restored-proposal-unreadable", w(map[string]any{"err": err.Error(), "base": p.base, "last": p.last})
					}
					if sfound != found || (found && got.Manifest != sg.Manifest) {
						return "restored-proposal-differs", w(map[string]any{"base": p.base, "last": p.last, "source_found": sfound, "restored_found": found})
					}
					if found && got.Manifest != p.manifest {
						return "restored-proposal-differs:manifest", w(map[string]any{"base": p.base, "last": p.last})
					}
					r.Count("audit.proposal_present", 1)
				}
			}
			return "", nil
		}()
		st.Close()
		ss.Close()
		if sig != "" {
			return sig, wit
		}
	}
	return "", nil
}

// ---------------------------------------------------------------------------
// Stream layout (the documented portable format), used only to aim faults and
// to build structure-aware forgeries.

type c11Section struct {
	start, end int
	msgs       [][2]int // [start,end) of each message record
	msgCountAt int
	sysCountAt int
	ckptAt     int
}

type c11Layout struct {
	maxCount uint64 // largest system-entry / message count claimed so far
	sections []c11Section
	fields   []int // offsets of length / count / checkpoint / seq fields
	ok       bool
}

func c11Parse(s []byte) c11Layout {
	var l c11Layout
	if len(s) < 16 {
		return l
	}
	body := s[:len(s)-4]
	p := 12
	uv := func() (uint64, bool) {
		v, n := binary.Uvarint(body[p:])
		if n <= 0 {
			return 0, false
		}
		l.fields = append(l.fields, p)
		p += n
		return v, true
	}
	skipBytes := func() bool {
		n, ok := uv()
		if !ok || uint64(len(body)-p) < n {
			return false
		}
		p += int(n)
		return true
	}
	count := binary.BigEndian.Uint32(s[8:12])
	for i := uint32(0); i < count; i++ {
		sec := c11Section{start: p}
		if !skipBytes() || !skipBytes() || p+25 > len(body) {
			return l
		}
		p++ // type
		sec.ckptAt = p
		l.fields = append(l.fields, p, p+8, p+16, p+23)
		p += 24
		sec.sysCountAt = p
		nSys, ok := uv()
		if !ok {
			return l
		}
		if nSys > l.maxCount {
			l.maxCount = nSys
		}
		for j := uint64(0); j < nSys; j++ {
			if !skipBytes() || !skipBytes() {
				return l
			}
		}
		sec.msgCountAt = p
		nMsg, ok := uv()
		if !ok {
			return l
		}
		for j := uint64(0); j < nMsg; j++ {
			ms := p
			if p+8 > len(body) {
				return l
			}
			l.fields = append(l.fields, p+7)
			p += 8
			if !skipBytes() || !skipBytes() {
				return l
			}
			sec.msgs = append(sec.msgs, [2]int{ms, p})
		}
		sec.end = p
		l.sections = append(l.sections, sec)
	}
	l.ok = p == len(body)
	return l
}

func c11FixCRC(s []byte) []byte {
	if len(s) < 4 {
		return s
	}
	binary.BigEndian.PutUint32(s[len(s)-4:], crc32.ChecksumIEEE(s[:len(s)-4]))
	return s
}

type c11Fault struct {
	class      string
	body       []byte
	forged     bool // checksum recomputed
	mustReject bool
	detail     string
	wantSlot   int // >=0: a successful import must report this hash slot
}

func c11Faults(rng *rand.Rand, s []byte, lay c11Layout, nRandom int) []c11Fault {
	var out []c11Fault
	n := len(s)
	raw := func(class, detail string, b []byte) {
		out = append(out, c11Fault{class: class, body: b, mustReject: true, detail: detail, wantSlot: -1})
	}
	// truncation: every length class
	lens := map[int]bool{0: true, n - 1: true, n - 4: true, n - 5: true, n / 2: true}
	for i := 1; i <= 17 && i < n; i++ {
		lens[i] = true
	}
	for _, sec := range lay.sections {
		for _, x := range []int{sec.start, sec.start + 1, sec.end - 1, sec.end} {
			if x >= 0 && x < n {
				lens[x] = true
			}
		}
		if len(sec.msgs) > 0 {
			m := sec.msgs[rng.IntN(len(sec.msgs))]
			lens[m[0]], lens[m[1]] = true, true
		}
	}
	for i := 0; i < nRandom/4; i++ {
		lens[rng.IntN(n)] = true
	}
	var ll []int
	for l := range lens {
		if l >= 0 && l < n {
			ll = append(ll, l)
		}
	}
	sort.Ints(ll)
	for _, l := range ll {
		raw("truncate", fmt.Sprintf("len=%d/%d", l, n), append([]byte(nil), s[:l]...))
	}
	// bit flips: header, trailer, every structural field, PRNG body offsets
	offs := map[int]bool{}
	for i := 0; i < 12 && i < n; i++ {
		offs[i] = true
	}
	for i := n - 4; i < n; i++ {
		offs[i] = true
	}
	fields := append([]int(nil), lay.fields...)
	rng.Shuffle(len(fields), func(i, j int) { fields[i], fields[j] = fields[j], fields[i] })
	if len(fields) > nRandom {
		fields = fields[:nRandom]
	}
	for _, f := range fields {
		offs[f] = true
	}
	for i := 0; i < nRandom; i++ {
		offs[rng.IntN(n)] = true
	}
	var ol []int
	for o := range offs {
		ol = append(ol, o)
	}
	sort.Ints(ol)
	for _, o := range ol {
		b := append([]byte(nil), s...)
		bit := byte(1) << rng.UintN(8)
		b[o] ^= bit
		raw("bitflip", fmt.Sprintf("off=%d/%d bit=%#x", o, n, bit), b)
	}
	for i := 0; i < 4; i++ {
		o := rng.IntN(n)
		b := append([]byte(nil), s...)
		b[o] = ^b[o]
		raw("byteflip", fmt.Sprintf("off=%d/%d", o, n), b)
	}
	raw("extend", "+1 zero", append(append([]byte(nil), s...), 0))
	raw("extend", "stream twice", append(append([]byte(nil), s...), s...))
	raw("extend", "leading byte", append([]byte{s[0]}, s...))
	if n > 40 {
		o := 12 + rng.IntN(n-16-12)
		raw("delete-byte", fmt.Sprintf("off=%d", o), append(append([]byte(nil), s[:o]...), s[o+1:]...))
		raw("insert-byte", fmt.Sprintf("off=%d", o), append(append(append([]byte(nil), s[:o]...), byte(rng.UintN(256))), s[o:]...))
	}
	if !lay.ok {
		return out
	}
	// chunk (channel section / message record) reordering and duplication, raw
	// and with the checksum recomputed.
	body := s[:n-4]
	rebuild := func(secs [][]byte, count int) []byte {
		b := append([]byte(nil), s[:12]...)
		binary.BigEndian.PutUint32(b[8:12], uint32(count))
		for _, x := range secs {
			b = append(b, x...)
		}
		return append(b, s[n-4:]...)
	}
	var secs [][]byte
	for _, sec := range lay.sections {
		secs = append(secs, body[sec.start:sec.end])
	}
	both := func(class, detail string, b []byte, must bool, wantSlot int) {
		if !bytes.Equal(b, s) {
			raw(class, detail, append([]byte(nil), b...))
		}
		f := c11FixCRC(append([]byte(nil), b...))
		if !bytes.Equal(f, s) {
			out = append(out, c11Fault{class: "forged-" + class, body: f, forged: true, mustReject: must, detail: detail, wantSlot: wantSlot})
		}
	}
	if len(secs) >= 2 {
		i := rng.IntN(len(secs))
		j := (i + 1 + rng.IntN(len(secs)-1)) % len(secs)
		sw := append([][]byte(nil), secs...)
		sw[i], sw[j] = sw[j], sw[i]
		both("reorder-channels", fmt.Sprintf("%d<->%d", i, j), rebuild(sw, len(sw)), true, -1)
	}
	if len(secs) >= 1 {
		i := rng.IntN(len(secs))
		dup := append(append([][]byte(nil), secs[:i+1]...), secs[i:]...)
		both("duplicate-channel", fmt.Sprintf("section %d twice", i), rebuild(dup, len(dup)), true, -1)
		both("duplicate-channel-same-count", fmt.Sprintf("section %d twice, count unchanged", i), rebuild(dup, len(secs)), true, -1)
		both("channel-count+1", "", rebuild(secs, len(secs)+1), true, -1)
		if len(secs) >= 2 {
			both("channel-count-1", "trailing section left over", rebuild(secs, len(secs)-1), true, -1)
		}
	}
	for si, sec := range lay.sections {
		if len(sec.msgs) < 2 {
			continue
		}
		i := rng.IntN(len(sec.msgs) - 1)
		a, b2 := sec.msgs[i], sec.msgs[i+1]
		sw := append([]byte(nil), s...)
		copy(sw[a[0]:], append(append([]byte(nil), s[b2[0]:b2[1]]...), s[a[0]:a[1]]...))
		both("reorder-messages", fmt.Sprintf("section %d msg %d<->%d", si, i, i+1), sw, true, -1)
		dup := append(append(append([]byte(nil), s[:a[1]]...), s[a[0]:a[1]]...), s[a[1]:]...)
		both("duplicate-message", fmt.Sprintf("section %d msg %d twice (count unchanged)", si, i), dup, true, -1)
		break
	}
	// another hash slot in the header: with a valid checksum this is a
	// well-formed snapshot of that other slot; the import API reports the slot
	// so that the caller can refuse it.
	other := append([]byte(nil), s...)
	slot := binary.BigEndian.Uint16(s[6:8])
	ns := slot ^ uint16(1+rng.IntN(1023))
	binary.BigEndian.PutUint16(other[6:8], ns)
	both("other-hash-slot", fmt.Sprintf("%d->%d", slot, ns), other, false, int(ns))
	// forged single-bit edits of structural fields (valid checksum): must not
	// panic, must not leave partial state behind a returned error (reader
	// variant), cleanup must work; acceptance is legitimate.
	ff := append([]int(nil), lay.fields...)
	rng.Shuffle(len(ff), func(i, j int) { ff[i], ff[j] = ff[j], ff[i] })
	if len(ff) > nRandom/2 {
		ff = ff[:nRandom/2]
	}
	for _, o := range ff {
		b := append([]byte(nil), s...)
		bit := byte(1) << rng.UintN(7) // bit 7 of a 1-byte uvarint would turn it into a multi-GiB length claim only via multi-byte forms; keep sizes sane
		b[o] ^= bit
		out = append(out, c11Fault{class: "forged-field-bit", body: c11FixCRC(b), forged: true, detail: fmt.Sprintf("off=%d bit=%#x", o, bit), wantSlot: -1})
	}
	for i := 0; i < nRandom/4; i++ {
		o := 12 + rng.IntN(n-16)
		b := append([]byte(nil), s...)
		b[o] ^= 1 << rng.UintN(8)
		out = append(out, c11Fault{class: "forged-body-bit", body: c11FixCRC(b), forged: true, detail: fmt.Sprintf("off=%d", o), wantSlot: -1})
	}
	return out
}

// c11CountCtx is a logical-clock interruption: Err() starts failing at the
// K-th poll. The import code polls ctx.Err() between rows/channels.
type c11CountCtx struct {
	context.Context
	calls atomic.Int64
	limit int64 // 0 = never
}

// Err is polled directly by pkg/db/meta (contextErr) and after a closed Done()
// by pkg/db/message (ctxErr): both count as ticks.
func (c *c11CountCtx) Err() error {
	n := c.calls.Add(1)
	if c.limit > 0 && n >= c.limit {
		return context.Canceled
	}
	return nil
}

var c11ClosedCh = func() chan struct{} { c := make(chan struct{}); close(c); return c }()

// Done is the poll the import code performs (select on ctx.Done() with a
// default branch): every call is one tick of the logical clock.
func (c *c11CountCtx) Done() <-chan struct{} {
	n := c.calls.Add(1)
	if c.limit > 0 && n >= c.limit {
		return c11ClosedCh
	}
	return nil
}

func c11ErrClass(err error) string {
	switch {
	case err == nil:
		return "nil"
	case errors.Is(err, context.Canceled):
		return "canceled"
	case errors.Is(err, ch.ErrLogConflict):
		return "log_conflict"
	}
	s := err.Error()
	for _, k := range []string{"checksum", "corrupt value", "corrupt state", "conflict", "invalid"} {
		if bytes.Contains([]byte(s), []byte(k)) {
			return k
		}
	}
	return "other"
}

func TestVerifC11Message(t *testing.T) {
	r := verifkit.Start(t, "C11", "message")
	defer r.Finish()
	r.SetRule("Each case builds a PRNG source message store through the production adapter (pkg/channel/store.MessageDBFactory): 2-5 exported channels + 1 unexported, plain and exact-proposal appends with sender/client idempotency keys, a committed HW at a batch/proposal boundary (often below LEO = uncommitted suffix), adopted+trimmed retention prefixes. Round trip: OpenBackupSnapshot[WithStats] -> ImportBackupSnapshot[Reader] into a fresh store -> model audit (catalog, frontier, every committed row, identity, idempotency, retention, proposals, nothing above HW) -> re-export byte-equal. Faults on the stream (each imported into one empty target that must stay empty): every truncation length class, bit/byte flips on every header/trailer byte, every length/count/checkpoint field and PRNG body offsets, extension, insert/delete, channel/message reordering and duplication, count edits, foreign hash slot; the same structural edits with a recomputed checksum (forged). Then clean import => canonical. Retry: import interrupted at the K-th context poll, then retried directly or after the documented DiscardRestoreChannels cleanup; exact replay; conflicting checkpoint. Non-trivial round trip = source has a channel with retention start > 1 and an uncommitted suffix; non-trivial fault = mutation inside the stream body; distinct by (source shape, import variant) / (fault class, outcome, shape).")
	r.Assume("Cluster-selected cuts are honest: HW <= source LEO, at a proposal boundary for exact channels, LogStartOffset <= HW.")
	r.Assume("Forged streams (checksum recomputed) may legitimately be accepted when they encode a well-formed different snapshot; for them only no-panic, no partial state behind an error of the two-phase reader import, and working cleanup are asserted.")

	root := t.TempDir()
	nCases := r.N(30, 220)
	nRandom := r.N(40, 160)
	for ci := 0; ci < nCases; ci++ {
		if r.Skip(ci) {
			continue
		}
		rng := r.Rand(11, uint64(ci))
		r.BeginCase(ci, fmt.Sprintf("message case %d", ci))
		dir := filepath.Join(root, fmt.Sprintf("case%d", ci))
		c11MessageCase(r, rng, ci, dir, nRandom)
		os.RemoveAll(dir)
	}
}

func c11MessageCase(r *verifkit.Run, rng *rand.Rand, ci int, dir string, nRandom int) {
	srcF, err := c11Open(filepath.Join(dir, "src"))
	if err != nil {
		r.Inconclusive("open source store: " + err.Error())
		return
	}
	defer srcF.Close()
	src, err := c11BuildSource(rng, srcF, ci%2 == 0)
	if err != nil {
		// the generator asked the store for something it legitimately refuses
		r.Count("generator.rejected", 1)
		r.Note(fmt.Sprintf("generator_rejected_case_%d", ci), err.Error())
		return
	}
	req := src.request()
	shape := src.shape()
	s, _, err := c11Export(srcF, req, false)
	if err != nil {
		r.Violation("export-failed", map[string]any{"shape": shape, "err": err.Error()})
		return
	}
	s2, stats, err := c11Export(srcF, req, true)
	if err != nil {
		r.Violation("export-failed:with-stats", map[string]any{"shape": shape, "err": err.Error()})
		return
	}
	r.Eval(1)
	if !bytes.Equal(s, s2) {
		r.Violation("export-not-deterministic", map[string]any{"shape": shape, "len1": len(s), "len2": len(s2)})
	}
	var wantCount, wantMaxID uint64
	for _, c := range src.exported() {
		for _, m := range c.committed() {
			wantCount++
			if m.ID > wantMaxID {
				wantMaxID = m.ID
			}
		}
	}
	if stats.HashSlot != src.slot || stats.ChannelCount != uint64(len(src.exported())) || stats.MessageCount != wantCount || stats.MaxMessageID != wantMaxID {
		r.Violation("export-stats-differ", map[string]any{"shape": shape, "stats": fmt.Sprintf("%+v", stats), "want_messages": wantCount, "want_max_id": wantMaxID})
	}
	r.Count("roundtrip.stream_bytes", len(s))
	r.Max("max_stream_bytes", len(s))
	lay := c11Parse(s)
	if !lay.ok {
		r.Count("layout.unparsed", 1)
	}

	// ---- round trip, both import variants ---------------------------------
	for vi, reader := range []bool{true, false} {
		tdir := filepath.Join(dir, fmt.Sprintf("tgt%d", vi))
		tgt, err := c11Open(tdir)
		if err != nil {
			r.Inconclusive("open target: " + err.Error())
			return
		}
		variant := map[bool]string{true: "reader", false: "bytes"}[reader]
		r.Eval(1)
		var istats chstore.BackupSnapshotStats
		if r.Guard("Import:"+variant, shape, func() { istats, err = c11Import(c11Ctx, tgt, s, reader) }) {
			tgt.Close()
			continue
		}
		if err != nil {
			r.Violation("clean-import-failed:"+variant, map[string]any{"shape": shape, "err": err.Error()})
			tgt.Close()
			continue
		}
		if istats != stats {
			r.Violation("import-stats-differ:"+variant, map[string]any{"shape": shape, "export": fmt.Sprintf("%+v", stats), "import": fmt.Sprintf("%+v", istats)})
		}
		if sig, wit := c11Audit(r, src, srcF, tgt); sig != "" {
			r.Violation(sig+":"+variant, wit)
		}
		re, _, err := c11Export(tgt, req, vi == 0)
		if err != nil {
			r.Violation("re-export-failed:"+variant, map[string]any{"shape": shape, "err": err.Error()})
		} else if !bytes.Equal(re, s) {
			r.Violation("re-export-differs:"+variant, map[string]any{"shape": shape, "len_export": len(s), "len_reexport": len(re), "first_diff": c11FirstDiff(s, re)})
		}
		// exact replay is idempotent
		if _, err := c11Import(c11Ctx, tgt, s, !reader); err != nil {
			r.Violation("replay-not-idempotent:"+variant, map[string]any{"shape": shape, "err": err.Error()})
		} else if re2, _, err := c11Export(tgt, req, false); err != nil || !bytes.Equal(re2, s) {
			r.Violation("replay-changed-state:"+variant, map[string]any{"shape": shape, "err": fmt.Sprint(err)})
		}
		r.Count("roundtrip.ok."+variant, 1)
		if src.nontrivial() {
			r.Nontrivial("roundtrip|" + shape + "|" + variant)
		}
		// conflicting checkpoint: the same channels cut at a different HW
		if vi == 0 {
			c11Conflict(r, rng, src, srcF, tgt, s, shape)
		}
		if vi == 1 && len(src.reportedLEO) > 0 {
			c11ProbeLEO(r, src, tgt)
		}
		tgt.Close()
		os.RemoveAll(tdir)
	}
	if r.WantSample() {
		r.Sample(map[string]any{"case": ci, "shape": shape, "stream_bytes": len(s), "stats": fmt.Sprintf("%+v", stats), "channels": c11Brief(src)})
	}

	// ---- faults -----------------------------------------------------------
	fdir := filepath.Join(dir, "faults")
	ft, err := c11Open(fdir)
	if err != nil {
		r.Inconclusive("open fault target: " + err.Error())
		return
	}
	defer func() { ft.Close() }()
	generation := 0
	for fi, f := range c11Faults(rng, s, lay, nRandom) {
		reader := fi%3 != 2
		if f.forged && fi%2 == 0 {
			reader = true
		}
		if f.forged && !reader {
			// ImportBackupSnapshot([]byte) sizes a slice from the stream's
			// system-entry count without an upper bound (the reader variant
			// caps it at 1<<20): a checksum-valid forged count makes the
			// process die with "fatal error: out of memory", which no monitor
			// survives. Such streams go to the bounded variant; the hazard is
			// recorded, not exercised.
			if claimed := c11Parse(f.body).maxCount; claimed > 1<<20 {
				reader = true
				r.Count("fault.forged_unbounded_system_count_routed_to_reader", 1)
				r.Note("forged_unbounded_system_count", map[string]any{"class": f.class, "detail": f.detail, "claimed_system_entries": claimed, "stream_len": len(f.body)})
			}
		}
		variant := map[bool]string{true: "reader", false: "bytes"}[reader]
		wit := map[string]any{"shape": shape, "class": f.class, "detail": f.detail, "variant": variant, "stream_len": len(s)}
		r.Eval(1)
		var fstats chstore.BackupSnapshotStats
		var ferr error
		if r.Guard("Import:"+variant+":"+f.class, wit, func() { fstats, ferr = c11Import(c11Ctx, ft, f.body, reader) }) {
			c11Cleanup(ft, src.exported())
			continue
		}
		outcome := "rejected"
		if ferr == nil {
			outcome = "accepted"
		}
		r.Count("fault."+f.class+"."+outcome, 1)
		r.Count("fault.err."+c11ErrClass(ferr), 1)
		r.Nontrivial("fault|" + f.class + "|" + outcome + "|" + variant + "|" + shape)
		if ferr == nil && f.mustReject {
			r.Violation("corrupt-stream-accepted:"+f.class+":"+variant, wit)
		}
		if ferr == nil && f.wantSlot >= 0 && int(fstats.HashSlot) != f.wantSlot {
			r.Violation("foreign-slot-not-reported:"+variant, wit)
		}
		entries, lerr := c11List(ft)
		if lerr != nil {
			r.Violation("target-unreadable-after-fault:"+f.class, wit)
			return
		}
		if ferr != nil && len(entries) > 0 && (!f.forged || reader) {
			// raw corruption is caught by the checksum before anything is
			// applied; the reader variant documents "a failed semantic
			// validation never mutates the target".
			wit["left_behind"] = fmt.Sprint(entries)
			wit["err"] = ferr.Error()
			r.Violation("partial-state-after-rejected-import:"+f.class+":"+variant, wit)
		}
		if len(entries) > 0 {
			if ferr != nil {
				r.Count("fault.partial_state_then_cleanup", 1)
			}
			if err := c11Cleanup(ft, src.exported()); err != nil {
				wit["err"] = err.Error()
				r.Violation("cleanup-failed", wit)
				return
			}
			if left, _ := c11List(ft); len(left) > 0 {
				addressable := false
				for _, e := range left {
					if e.ID.ID != "" && e.ID.Type != 0 && e.Key == ch.ChannelKeyForID(e.ID) {
						addressable = true
					}
				}
				if addressable || !f.forged {
					wit["left_behind"] = fmt.Sprint(left)
					r.Violation("cleanup-incomplete", wit)
					return
				}
				// a forged stream installed a Channel whose storage key is not
				// the one derived from its identity: outside the cleanup API's
				// addressing; observed only, continue on a fresh target.
				r.Count("fault.forged_unaddressable_channel", 1)
				ft.Close()
				generation++
				fdir = filepath.Join(dir, fmt.Sprintf("faults%d", generation))
				if ft, err = c11Open(fdir); err != nil {
					r.Inconclusive("open fault target: " + err.Error())
					return
				}
				continue
			}
			r.Count("fault.cleanup_ok", 1)
		}
	}
	// a later clean import succeeds and yields the canonical state
	r.Eval(1)
	if _, err := c11Import(c11Ctx, ft, s, true); err != nil {
		r.Violation("clean-import-after-faults-failed", map[string]any{"shape": shape, "err": err.Error()})
	} else {
		if sig, wit := c11Audit(r, src, srcF, ft); sig != "" {
			r.Violation(sig+":after-faults", wit)
		}
		if re, _, err := c11Export(ft, req, false); err != nil || !bytes.Equal(re, s) {
			r.Violation("re-export-differs:after-faults", map[string]any{"shape": shape, "err": fmt.Sprint(err)})
		}
		r.Count("faults.clean_import_after_ok", 1)
	}

	// ---- interrupted restore, retried -------------------------------------
	c11Retry(r, rng, src, srcF, s, req, shape, filepath.Join(dir, "retry"))
}

// c11ProbeLEO documents (evidence only, nothing asserted) how a restored store
// whose LEO exceeds the restored HW behaves when it is used.
func c11ProbeLEO(r *verifkit.Run, src *c11Source, tgt *chstore.MessageDBFactory) {
	for _, c := range src.exported() {
		if !src.reportedLEO[c.id.ID] {
			continue
		}
		st, err := tgt.ChannelStore(c.key, c.id)
		if err != nil {
			return
		}
		defer st.Close()
		probe := map[string]any{"channel": c.id.ID, "exact": c.exact, "exported_hw": c.hw, "source_leo": c.leo()}
		if xs, ok := st.(chstore.ExactStateLoader); ok && c.exact {
			ex, err := xs.LoadExactState(c11Ctx)
			probe["load_exact_state"] = fmt.Sprintf("leo=%d hw=%d tail_index=%d err=%v", ex.LEO, ex.HW, ex.TailIdentity.Index, err)
		}
		lg, err := st.ReadLog(c11Ctx, chstore.ReadLogRequest{FromOffset: c.hw + 1, MaxBytes: 1 << 20})
		probe["read_log_above_hw"] = fmt.Sprintf("records=%d err=%v", len(lg.Records), err)
		if !c.exact {
			res, err := st.AppendLeader(c11Ctx, chstore.AppendLeaderRequest{Records: []ch.Record{{ID: 1 << 40, ServerTimestampMS: 1_700_000_000_000, Payload: []byte("probe")}}})
			probe["append_after_restore"] = fmt.Sprintf("base=%d last=%d err=%v", res.BaseOffset, res.LastOffset, err)
		}
		r.Note("restored_leo_above_hw_probe", probe)
		r.Count("audit.leo_probe", 1)
		return
	}
}

func c11FirstDiff(a, b []byte) int {
	for i := 0; i < len(a) && i < len(b); i++ {
		if a[i] != b[i] {
			return i
		}
	}
	if len(a) != len(b) {
		if len(a) < len(b) {
			return len(a)
		}
		return len(b)
	}
	return -1
}

func c11Brief(src *c11Source) []string {
	var out []string
	for _, c := range src.chans {
		out = append(out, fmt.Sprintf("%s/%d exact=%v leo=%d hw=%d through=%d export=%v", c.id.ID, c.id.Type, c.exact, c.leo(), c.hw, c.through, c.export))
	}
	return out
}

// c11Conflict: importing a snapshot whose checkpoint for an already restored
// channel differs must be refused and must leave the target as it was.
func c11Conflict(r *verifkit.Run, rng *rand.Rand, src *c11Source, srcF, tgt *chstore.MessageDBFactory, s []byte, shape string) {
	req := src.request()
	changed := false
	for i := range req.Channels {
		c := src.exported()[i]
		if c.exact || c.hw <= c.through+1 || c.hw < 2 {
			continue
		}
		req.Channels[i].HW = c.hw - 1 // plain channel: any HW <= LEO is a legal cut
		changed = true
		break
	}
	if !changed {
		for i := range req.Channels {
			req.Channels[i].Epoch += 7 // same rows, different checkpoint epoch
			changed = true
			break
		}
	}
	if !changed {
		return
	}
	other, _, err := c11Export(srcF, req, false)
	if err != nil {
		r.Count("conflict.export_refused", 1)
		return
	}
	for _, reader := range []bool{true, false} {
		r.Eval(1)
		_, err := c11Import(c11Ctx, tgt, other, reader)
		if err == nil {
			r.Violation("conflicting-checkpoint-accepted", map[string]any{"shape": shape, "reader": reader})
			return
		}
		r.Count("conflict.rejected."+c11ErrClass(err), 1)
		re, _, rerr := c11Export(tgt, src.request(), false)
		if rerr != nil || !bytes.Equal(re, s) {
			r.Violation("conflict-changed-target", map[string]any{"shape": shape, "reader": reader, "err": fmt.Sprint(rerr)})
			return
		}
	}
	r.Nontrivial("conflict|" + shape)
}

func c11Retry(r *verifkit.Run, rng *rand.Rand, src *c11Source, srcF *chstore.MessageDBFactory, s []byte, req chstore.BackupSnapshotRequest, shape, dir string) {
	tgt, err := c11Open(dir)
	if err != nil {
		r.Inconclusive("open retry target: " + err.Error())
		return
	}
	defer tgt.Close()
	for _, reader := range []bool{true, false} {
		variant := map[bool]string{true: "reader", false: "bytes"}[reader]
		// measure the number of interruption points of an uninterrupted import
		probe := &c11CountCtx{Context: c11Ctx}
		if _, err := c11Import(probe, tgt, s, reader); err != nil {
			r.Violation("clean-import-failed:retry-probe:"+variant, map[string]any{"shape": shape, "err": err.Error()})
			return
		}
		total := probe.calls.Load()
		if total < 1 {
			r.Count("retry.no_interruption_points."+variant, 1)
			c11Cleanup(tgt, src.exported())
			continue
		}
		r.Max("max_interruption_points."+variant, int(total))
		if err := c11Cleanup(tgt, src.exported()); err != nil {
			r.Violation("cleanup-failed", map[string]any{"shape": shape, "err": err.Error()})
			return
		}
		if left, _ := c11List(tgt); len(left) > 0 {
			r.Violation("cleanup-incomplete", map[string]any{"shape": shape, "left_behind": fmt.Sprint(left)})
			return
		}
		points := map[int64]bool{1: true, 2: true, total: true, total - 1: true, total / 2: true}
		for i := 0; i < r.N(3, 10); i++ {
			points[1+rng.Int64N(total)] = true
		}
		var pl []int64
		for p := range points {
			if p >= 1 && p <= total {
				pl = append(pl, p)
			}
		}
		sort.Slice(pl, func(i, j int) bool { return pl[i] < pl[j] })
		for pi, k := range pl {
			r.Eval(1)
			ictx := &c11CountCtx{Context: c11Ctx, limit: k}
			_, ierr := c11Import(ictx, tgt, s, reader)
			left, _ := c11List(tgt)
			state := "untouched"
			if len(left) > 0 {
				state = "partial"
			}
			if ierr == nil {
				state = "completed"
			}
			r.Count("retry.interrupted."+variant+"."+state, 1)
			mode := "direct"
			if pi%2 == 1 && ierr != nil {
				mode = "cleanup"
				if err := c11Cleanup(tgt, src.exported()); err != nil {
					r.Violation("cleanup-failed", map[string]any{"shape": shape, "err": err.Error(), "interrupted_at": k})
					return
				}
				if l2, _ := c11List(tgt); len(l2) > 0 {
					r.Violation("cleanup-incomplete", map[string]any{"shape": shape, "left_behind": fmt.Sprint(l2), "interrupted_at": k})
					return
				}
			}
			wit := map[string]any{"shape": shape, "variant": variant, "interrupted_at_poll": k, "polls_total": total, "state_after_interrupt": state, "retry_mode": mode, "interrupt_err": fmt.Sprint(ierr)}
			if _, err := c11Import(c11Ctx, tgt, s, reader); err != nil {
				wit["err"] = err.Error()
				r.Violation("retry-after-interrupt-failed:"+mode+":"+variant, wit)
				c11Cleanup(tgt, src.exported())
				continue
			}
			if sig, w := c11Audit(r, src, srcF, tgt); sig != "" {
				wit["audit"] = w
				r.Violation(sig+":after-retry:"+mode+":"+variant, wit)
			}
			if re, _, err := c11Export(tgt, req, false); err != nil || !bytes.Equal(re, s) {
				wit["err"] = fmt.Sprint(err)
				r.Violation("retry-converged-differently:"+mode+":"+variant, wit)
			}
			r.Nontrivial(fmt.Sprintf("retry|%s|%s|%s|%s", variant, state, mode, shape))
			// back to empty for the next point
			if err := c11Cleanup(tgt, src.exported()); err != nil {
				r.Violation("cleanup-failed", map[string]any{"shape": shape, "err": err.Error()})
				return
			}
			if l2, _ := c11List(tgt); len(l2) > 0 {
				r.Violation("cleanup-incomplete", map[string]any{"shape": shape, "left_behind": fmt.Sprint(l2)})
				return
			}
			// after cleanup the channels must really be gone: a fresh export of
			// them from the target holds no rows
			if pi == 0 {
				empty := chstore.BackupSnapshotRequest{HashSlot: req.HashSlot}
				for _, c := range req.Channels {
					c.HW, c.LogStartOffset = 0, 0
					empty.Channels = append(empty.Channels, c)
				}
				if b, st, err := c11Export(tgt, empty, true); err == nil && st.MessageCount != 0 {
					r.Violation("cleanup-left-rows", map[string]any{"shape": shape, "bytes": len(b), "stats": fmt.Sprintf("%+v", st)})
				}
			}
		}
	}
}
