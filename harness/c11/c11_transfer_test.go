//go:build verif

package c11_test

import (
	"bytes"
	"context"
	"crypto/sha256"
	"encoding/hex"
	"encoding/json"
	"fmt"
	"math/rand/v2"
	"os"
	"path/filepath"
	"sort"
	"strings"
	"testing"

	"github.com/WuKongIM/WuKongIM/pkg/db"
	"github.com/WuKongIM/WuKongIM/pkg/db/inspect"
	msgdb "github.com/WuKongIM/WuKongIM/pkg/db/message"
	metadb "github.com/WuKongIM/WuKongIM/pkg/db/meta"
	"github.com/WuKongIM/WuKongIM/pkg/db/transfer"
	"github.com/WuKongIM/WuKongIM/pkg/hashslot"
	"github.com/WuKongIM/WuKongIM/pkg/verifkit"
)

const c11SlotCount uint16 = 16

// c11Known rate-limits two registered findings to two kept witnesses per run
// (every occurrence is still counted) so that they cannot crowd fresh
// violations out of the bounded violation list.
var c11KnownSeen = map[string]int{}

func c11Known(r *verifkit.Run, sig string, wit any) {
	r.Count("known."+sig, 1)
	if c11KnownSeen[sig] < 2 {
		c11KnownSeen[sig]++
		r.Violation(sig, wit)
	}
}

func c11Seed(rng *rand.Rand, store *db.NodeStore, fixedWidth, emptyPayloads bool) (rows int, err error) {
	ctx := context.Background()
	slot := func(key string) metadb.HashSlot { return metadb.HashSlot(hashslot.HashSlotForKey(key, c11SlotCount)) }
	nUsers := 2 + rng.IntN(8)
	var uids []string
	for i := 0; i < nUsers; i++ {
		uid := fmt.Sprintf("u%d-%x", i, rng.Uint32()>>uint(rng.IntN(28)))
		if fixedWidth {
			uid = fmt.Sprintf("u%d-%03x", i, rng.Uint32()&0xfff)
		}
		uids = append(uids, uid)
		if err = store.Meta().HashSlot(slot(uid)).UpsertUser(ctx, metadb.User{UID: uid, Token: fmt.Sprintf("t%x", rng.Uint32()), DeviceFlag: int64(rng.IntN(3)), DeviceLevel: int64(rng.IntN(2))}); err != nil {
			return rows, fmt.Errorf("UpsertUser: %w", err)
		}
		rows++
		if rng.IntN(2) == 0 {
			if err = store.Meta().HashSlot(slot(uid)).UpsertDevice(ctx, metadb.Device{UID: uid, DeviceFlag: int64(rng.IntN(3)), Token: fmt.Sprintf("d%x", rng.Uint32()), DeviceLevel: int64(rng.IntN(2))}); err != nil {
				return rows, fmt.Errorf("UpsertDevice: %w", err)
			}
			rows++
		}
	}
	nCh := 2 + rng.IntN(4)
	nextID := uint64(5000 + rng.IntN(1000))
	for i := 0; i < nCh; i++ {
		cid := fmt.Sprintf("g%d-%x", i, rng.Uint32()>>uint(rng.IntN(28)))
		if fixedWidth {
			cid = fmt.Sprintf("g%d-%03x", i, rng.Uint32()&0xfff)
		}
		const ctype = 2
		sh := store.Meta().HashSlot(slot(cid))
		if err = sh.UpsertChannel(ctx, metadb.Channel{ChannelID: cid, ChannelType: ctype, AllowStranger: int64(rng.IntN(2)), Large: int64(rng.IntN(2)), Ban: int64(rng.IntN(2))}); err != nil {
			return rows, fmt.Errorf("UpsertChannel: %w", err)
		}
		rows++
		var members []string
		for _, u := range uids {
			if rng.IntN(2) == 0 {
				members = append(members, u)
			}
		}
		if len(members) > 0 {
			if err = sh.AddSubscribers(ctx, cid, ctype, members, 0); err != nil {
				return rows, fmt.Errorf("AddSubscribers: %w", err)
			}
			rows += len(members)
		}
		for _, u := range members {
			if rng.IntN(2) == 0 {
				continue
			}
			if err = store.Meta().HashSlot(slot(u)).UpsertUserChannelMembership(ctx, metadb.UserChannelMembership{UID: u, ChannelID: cid, ChannelType: ctype,
				JoinSeq: uint64(1 + rng.IntN(5)), ReadSeq: uint64(rng.IntN(5)), ActivatedAt: int64(1 + rng.IntN(1<<20)), SourceVersion: uint64(1 + rng.IntN(9)), UpdatedAt: int64(1 + rng.IntN(1<<30))}); err != nil {
				return rows, fmt.Errorf("UpsertUserChannelMembership: %w", err)
			}
			rows++
		}
		// messages
		key := msgdb.ChannelKey(fmt.Sprintf("%d:%s", ctype, cid))
		log, lerr := store.Messages().Channel(key, msgdb.ChannelID{ID: cid, Type: ctype})
		if lerr != nil {
			return rows, fmt.Errorf("Channel: %w", lerr)
		}
		nMsg := rng.IntN(12)
		var last msgdb.Record
		for b := 0; b < nMsg; {
			n := 1 + rng.IntN(3)
			var recs []msgdb.Record
			for k := 0; k < n; k++ {
				nextID += 1 + uint64(rng.IntN(4))
				payload := c11Payload(rng)
				if len(payload) == 0 && !emptyPayloads {
					payload = []byte{byte(rng.UintN(256))}
				}
				rec := msgdb.Record{ID: nextID, Payload: payload, ServerTimestampMS: 1_700_000_000_000 + int64(rng.IntN(1<<30))}
				if rng.IntN(3) != 0 && len(uids) > 0 {
					rec.FromUID = uids[rng.IntN(len(uids))]
					rec.ClientMsgNo = fmt.Sprintf("no-%d", nextID)
				}
				recs = append(recs, rec)
				last = rec
			}
			if _, err = log.Append(ctx, recs, msgdb.AppendOptions{}); err != nil {
				log.Close()
				return rows, fmt.Errorf("Append: %w", err)
			}
			b += n
			rows += n
		}
		if cerr := log.Close(); cerr != nil {
			return rows, cerr
		}
		if nMsg > 0 && rng.IntN(2) == 0 {
			if err = sh.UpsertChannelLatest(ctx, metadb.ChannelLatest{ChannelID: cid, ChannelType: ctype, LastMessageID: last.ID, LastMessageSeq: uint64(nMsg),
				LastAt: last.ServerTimestampMS, FromUID: last.FromUID, ClientMsgNo: last.ClientMsgNo, Payload: last.Payload, UpdatedAt: int64(1 + rng.IntN(1<<30))}); err != nil {
				return rows, fmt.Errorf("UpsertChannelLatest: %w", err)
			}
			rows++
		}
	}
	return rows, nil
}

func c11OpenInspect(opts db.NodeStoreOptions) (*inspect.Store, error) {
	return inspect.OpenStore(inspect.Options{MetaPath: opts.MetaPath, MessagePath: opts.MessagePath, HashSlotCount: c11SlotCount, DefaultLimit: 100, MaxLimit: 10000})
}

// c11Tree reads every file of a bundle directory.
func c11Tree(root string) (map[string][]byte, error) {
	out := map[string][]byte{}
	err := filepath.Walk(root, func(p string, info os.FileInfo, err error) error {
		if err != nil || info.IsDir() {
			return err
		}
		b, rerr := os.ReadFile(p)
		if rerr != nil {
			return rerr
		}
		rel, _ := filepath.Rel(root, p)
		out[filepath.ToSlash(rel)] = b
		return nil
	})
	return out, err
}

func c11WriteTree(root string, tree map[string][]byte) error {
	if err := os.RemoveAll(root); err != nil {
		return err
	}
	for rel, b := range tree {
		p := filepath.Join(root, filepath.FromSlash(rel))
		if err := os.MkdirAll(filepath.Dir(p), 0o755); err != nil {
			return err
		}
		if err := os.WriteFile(p, b, 0o644); err != nil {
			return err
		}
	}
	return nil
}

func c11TargetEmpty(store *db.NodeStore) (bool, string) {
	ctx := context.Background()
	var all []uint16
	for i := uint16(0); i < c11SlotCount; i++ {
		all = append(all, i)
	}
	snap, err := store.Meta().ExportHashSlotSnapshot(ctx, all)
	if err != nil {
		return false, "meta export: " + err.Error()
	}
	if snap.Stats.EntryCount != 0 {
		return false, fmt.Sprintf("%d metadata entries", snap.Stats.EntryCount)
	}
	chs, err := store.Messages().ListChannels(ctx)
	if err != nil {
		return false, "list channels: " + err.Error()
	}
	if len(chs) != 0 {
		return false, fmt.Sprintf("%d message channels", len(chs))
	}
	return true, ""
}

type c11BundleFault struct {
	class, file, detail string
	forged              bool
	tree                map[string][]byte
}

// c11Resign recomputes sha256 and row count of one data file in manifest.json.
func c11Resign(tree map[string][]byte, file string) bool {
	var man transfer.Manifest
	if json.Unmarshal(tree["manifest.json"], &man) != nil {
		return false
	}
	for i := range man.Files {
		if man.Files[i].Path == file {
			sum := sha256.Sum256(tree[file])
			man.Files[i].SHA256 = hex.EncodeToString(sum[:])
			man.Files[i].Rows = int64(bytes.Count(tree[file], []byte("\n")))
			b, err := json.MarshalIndent(man, "", "  ")
			if err != nil {
				return false
			}
			tree["manifest.json"] = b
			return true
		}
	}
	return false
}

func c11BundleFaults(rng *rand.Rand, clean map[string][]byte) []c11BundleFault {
	var files []string
	for f := range clean {
		files = append(files, f)
	}
	sort.Strings(files)
	clone := func() map[string][]byte {
		t := make(map[string][]byte, len(clean))
		for k, v := range clean {
			t[k] = v
		}
		return t
	}
	var out []c11BundleFault
	// every metadata file, the manifest, the message channel index and up to
	// three PRNG-chosen message files (they are all alike)
	var msgFiles []string
	for _, f := range files {
		if strings.HasPrefix(f, "message/messages-") {
			msgFiles = append(msgFiles, f)
		}
	}
	rng.Shuffle(len(msgFiles), func(i, j int) { msgFiles[i], msgFiles[j] = msgFiles[j], msgFiles[i] })
	skip := map[string]bool{}
	for i, f := range msgFiles {
		if i >= 3 {
			skip[f] = true
		}
	}
	for _, f := range files {
		body := clean[f]
		if len(body) == 0 || skip[f] {
			continue
		}
		add := func(class, detail string, b []byte) {
			t := clone()
			if b == nil {
				delete(t, f)
			} else {
				t[f] = b
			}
			out = append(out, c11BundleFault{class: class, file: f, detail: detail, tree: t})
		}
		for k := 0; k < 1; k++ {
			o := rng.IntN(len(body))
			b := append([]byte(nil), body...)
			b[o] ^= 1 << rng.UintN(8)
			add("bitflip", fmt.Sprintf("off=%d/%d", o, len(body)), b)
		}
		// manifest.json is the unauthenticated root: trailing whitespace is not a change of the document
		if f != "manifest.json" || body[len(body)-1] > ' ' {
			add("truncate", "last byte", append([]byte(nil), body[:len(body)-1]...))
		}
		if rng.IntN(2) == 0 {
			add("truncate", "half", append([]byte(nil), body[:len(body)/2]...))
		} else {
			add("truncate", "empty", []byte{})
		}
		if f != "manifest.json" {
			add("extend", "+newline", append(append([]byte(nil), body...), '\n'))
		} else {
			add("extend", "+second JSON value", append(append([]byte(nil), body...), "{}"...))
		}
		add("missing", "", nil)
		if f == "manifest.json" {
			continue
		}
		lines := bytes.SplitAfter(body, []byte("\n"))
		if len(lines) > 0 && len(lines[len(lines)-1]) == 0 {
			lines = lines[:len(lines)-1]
		}
		if len(lines) >= 1 {
			i := rng.IntN(len(lines))
			dup := append(append(append([][]byte(nil), lines[:i+1]...), lines[i]), lines[i+1:]...)
			add("duplicate-line", fmt.Sprintf("line %d", i), bytes.Join(dup, nil))
			t := clone()
			t[f] = bytes.Join(dup, nil)
			if c11Resign(t, f) {
				out = append(out, c11BundleFault{class: "forged-duplicate-line", file: f, detail: fmt.Sprintf("line %d", i), forged: true, tree: t})
			}
			drop := append(append([][]byte(nil), lines[:i]...), lines[i+1:]...)
			add("drop-line", fmt.Sprintf("line %d", i), bytes.Join(drop, nil))
		}
		if len(lines) >= 2 {
			i := rng.IntN(len(lines) - 1)
			sw := append([][]byte(nil), lines...)
			sw[i], sw[i+1] = sw[i+1], sw[i]
			if !bytes.Equal(sw[i], sw[i+1]) {
				add("reorder-lines", fmt.Sprintf("%d<->%d", i, i+1), bytes.Join(sw, nil))
				t := clone()
				t[f] = bytes.Join(sw, nil)
				if c11Resign(t, f) {
					out = append(out, c11BundleFault{class: "forged-reorder-lines", file: f, detail: fmt.Sprintf("%d<->%d", i, i+1), forged: true, tree: t})
				}
			}
		}
		// a data file of the same kind from elsewhere: swap two data files
		for _, g := range files {
			if g != f && g != "manifest.json" && !bytes.Equal(clean[g], body) && rng.IntN(4) == 0 {
				t := clone()
				t[f], t[g] = clean[g], clean[f]
				out = append(out, c11BundleFault{class: "swap-files", file: f, detail: "with " + g, tree: t})
				break
			}
		}
	}
	// manifest-level forgeries (still valid JSON)
	var man transfer.Manifest
	if json.Unmarshal(clean["manifest.json"], &man) == nil && len(man.Files) > 0 {
		edit := func(class string, fn func(m *transfer.Manifest)) {
			m := man
			m.Files = append([]transfer.FileEntry(nil), man.Files...)
			fn(&m)
			b, _ := json.MarshalIndent(m, "", "  ")
			t := clone()
			t["manifest.json"] = b
			out = append(out, c11BundleFault{class: class, file: "manifest.json", tree: t, forged: class == "manifest-drop-file"})
		}
		i := rng.IntN(len(man.Files))
		edit("manifest-rows+1", func(m *transfer.Manifest) { m.Files[i].Rows++ })
		edit("manifest-sha-edit", func(m *transfer.Manifest) {
			s := []byte(m.Files[i].SHA256)
			if s[0] == 'a' {
				s[0] = 'b'
			} else {
				s[0] = 'a'
			}
			m.Files[i].SHA256 = string(s)
		})
		edit("manifest-drop-file", func(m *transfer.Manifest) { m.Files = append(m.Files[:i:i], m.Files[i+1:]...) })
		edit("manifest-version", func(m *transfer.Manifest) { m.Version = 2 })
		edit("manifest-slot-count", func(m *transfer.Manifest) { m.HashSlotCount = int(c11SlotCount) * 2 })
	}
	return out
}

func TestVerifC11Transfer(t *testing.T) {
	r := verifkit.Start(t, "C11", "transfer")
	defer r.Finish()
	r.SetRule("Each case seeds a NodeStore (users, devices, channels, subscribers, memberships, channel-latest, message logs with idempotency keys) through the typed pkg/db APIs, exports it with transfer.ExportBundle, validates, imports into an empty NodeStore, requires transfer.VerifyStores (full mode) to report equality and the re-export of the target to be file-for-file byte-identical. Faults: for every bundle file: bit flips, truncations, extension, missing file, duplicated/dropped/reordered JSONL lines, swapped files, manifest row/sha/file-list/version/slot-count edits, plus duplicated/reordered lines with the manifest digest recomputed (forged). Each faulted bundle must fail ValidateBundle-or-ImportBundle and leave the target empty; afterwards a clean import into the same target must succeed and verify equal. Non-trivial = bundle with >= 1 message file and >= 3 metadata kinds; distinct by (fault class, file kind, outcome).")
	r.Assume("Forged bundles whose edit is semantically legal (e.g. a dropped optional row with recomputed digest) may be accepted; only forged duplicates/reorderings are exercised and only no-partial-state is asserted for them.")

	root := t.TempDir()
	nCases := r.N(4, 50)
	for ci := 0; ci < nCases; ci++ {
		if r.Skip(ci) {
			continue
		}
		rng := r.Rand(1102, uint64(ci))
		r.BeginCase(ci, fmt.Sprintf("transfer case %d", ci))
		dir := filepath.Join(root, fmt.Sprintf("t%d", ci))
		c11TransferCase(r, rng, ci, dir)
		os.RemoveAll(dir)
	}
}

func c11TransferCase(r *verifkit.Run, rng *rand.Rand, ci int, dir string) {
	ctx := context.Background()
	srcOpts := db.DefaultNodeStoreOptions(filepath.Join(dir, "src"))
	src, err := db.OpenNodeStore(srcOpts)
	if err != nil {
		r.Inconclusive("open source NodeStore: " + err.Error())
		return
	}
	rows, err := c11Seed(rng, src, ci%2 == 0, os.Getenv("C11_EMPTY_PAYLOADS") == "1")
	cerr := src.Close()
	if err != nil || cerr != nil {
		r.Count("transfer.generator_rejected", 1)
		r.Note(fmt.Sprintf("transfer_generator_rejected_%d", ci), fmt.Sprint(err, cerr))
		return
	}
	r.Count("transfer.source_rows", rows)
	export := func(opts db.NodeStoreOptions, out string) (transfer.ExportStats, error) {
		ins, err := c11OpenInspect(opts)
		if err != nil {
			return transfer.ExportStats{}, err
		}
		defer ins.Close()
		return transfer.ExportBundle(ctx, out, ins, transfer.ExportOptions{HashSlotCount: c11SlotCount, PageSize: 1 + rng.IntN(7), MessageFileRows: 1 + rng.IntN(6), Overwrite: true})
	}
	bundle := filepath.Join(dir, "bundle")
	est, err := export(srcOpts, bundle)
	if err != nil {
		r.Violation("transfer-export-failed", map[string]any{"err": err.Error()})
		return
	}
	r.Eval(1)
	if _, err := transfer.ValidateBundle(ctx, bundle, transfer.ImportOptions{HashSlotCount: c11SlotCount}); err != nil {
		c11Known(r, "transfer-validate-rejects-own-export", map[string]any{"err": err.Error()})
		return
	}
	clean, err := c11Tree(bundle)
	if err != nil {
		r.Inconclusive("read bundle: " + err.Error())
		return
	}
	kinds := map[string]bool{}
	msgFiles := 0
	for f := range clean {
		k := strings.SplitN(f, "/", 2)[0] + "/" + strings.SplitN(filepath.Base(f), "-", 2)[0]
		kinds[k] = true
		if strings.HasPrefix(f, "message/messages") {
			msgFiles++
		}
	}
	shape := fmt.Sprintf("files%d.msgfiles%d.rows%d", len(clean), msgFiles, est.RowsExported/8)

	verify := func(a, b db.NodeStoreOptions) (transfer.VerifyReport, error) {
		ia, err := c11OpenInspect(a)
		if err != nil {
			return transfer.VerifyReport{}, err
		}
		defer ia.Close()
		ib, err := c11OpenInspect(b)
		if err != nil {
			return transfer.VerifyReport{}, err
		}
		defer ib.Close()
		return transfer.VerifyStores(ctx, ia, ib, transfer.VerifyOptions{HashSlotCount: c11SlotCount, PageSize: 1 + rng.IntN(7), Mode: transfer.VerifyModeFull})
	}

	// ---- round trip --------------------------------------------------------
	tgtOpts := db.DefaultNodeStoreOptions(filepath.Join(dir, "tgt"))
	tgt, err := db.OpenNodeStore(tgtOpts)
	if err != nil {
		r.Inconclusive("open target NodeStore: " + err.Error())
		return
	}
	ist, err := transfer.ImportBundle(ctx, bundle, tgt, transfer.ImportOptions{HashSlotCount: c11SlotCount, RequireEmpty: true,
		SubscriberBatchSize: 1 + rng.IntN(4), MessageBatchSize: 1 + rng.IntN(4)})
	if cerr := tgt.Close(); cerr != nil && err == nil {
		err = cerr
	}
	r.Eval(1)
	if err != nil {
		r.Violation("transfer-clean-import-failed", map[string]any{"shape": shape, "err": err.Error()})
		return
	}
	if ist.MessagesImported != est.MessagesExported || ist.ChannelsImported != est.ChannelsExported {
		r.Violation("transfer-import-stats-differ", map[string]any{"export": fmt.Sprintf("%+v", est), "import": fmt.Sprintf("%+v", ist)})
	}
	rep, err := verify(srcOpts, tgtOpts)
	if err != nil {
		r.Violation("transfer-verify-failed", map[string]any{"shape": shape, "err": err.Error()})
	} else if !rep.Equal {
		r.Violation("transfer-restored-store-differs", map[string]any{"shape": shape, "mismatches": rep.Mismatches})
	}
	bundle2 := filepath.Join(dir, "bundle2")
	if _, err := export(tgtOpts, bundle2); err != nil {
		r.Violation("transfer-re-export-failed", map[string]any{"shape": shape, "err": err.Error()})
	} else if again, err := c11Tree(bundle2); err != nil {
		r.Inconclusive("read re-exported bundle: " + err.Error())
	} else {
		// page size / rows-per-file are PRNG per export: compare the
		// concatenation per data set kind, which is what the format promises
		// independent of file splitting, and the files one-for-one when the
		// split happens to agree.
		if d := c11BundleDiff(clean, again); d != "" {
			r.Violation("transfer-re-export-differs", map[string]any{"shape": shape, "diff": d})
		}
	}
	r.Count("transfer.roundtrip.ok", 1)
	if msgFiles >= 1 && len(kinds) >= 4 {
		r.Nontrivial("transfer-roundtrip|" + shape)
	}
	if r.WantSample() {
		var names []string
		for f := range clean {
			names = append(names, f)
		}
		sort.Strings(names)
		r.Sample(map[string]any{"case": ci, "unit": "transfer", "files": names, "export": fmt.Sprintf("%+v", est)})
	}

	// ---- faults -------------------------------------------------------------
	ftOpts := db.DefaultNodeStoreOptions(filepath.Join(dir, "ft"))
	ft, err := db.OpenNodeStore(ftOpts)
	if err != nil {
		r.Inconclusive("open fault NodeStore: " + err.Error())
		return
	}
	bad := filepath.Join(dir, "bad")
	for _, f := range c11BundleFaults(rng, clean) {
		if err := c11WriteTree(bad, f.tree); err != nil {
			r.Inconclusive("write faulted bundle: " + err.Error())
			break
		}
		wit := map[string]any{"shape": shape, "class": f.class, "file": f.file, "detail": f.detail}
		r.Eval(1)
		var verr, ierr error
		if r.Guard("transfer:"+f.class, wit, func() {
			_, verr = transfer.ValidateBundle(ctx, bad, transfer.ImportOptions{HashSlotCount: c11SlotCount})
			_, ierr = transfer.ImportBundle(ctx, bad, ft, transfer.ImportOptions{HashSlotCount: c11SlotCount, RequireEmpty: true})
		}) {
			continue
		}
		outcome := "rejected"
		if ierr == nil {
			outcome = "accepted"
		}
		fk := strings.SplitN(f.file, "/", 2)[0]
		r.Count("transfer.fault."+f.class+"."+outcome, 1)
		r.Nontrivial("transfer-fault|" + f.class + "|" + fk + "|" + outcome)
		if (verr == nil) != (ierr == nil) && !f.forged {
			wit["validate_err"], wit["import_err"] = fmt.Sprint(verr), fmt.Sprint(ierr)
			r.Violation("transfer-validate-import-disagree:"+f.class, wit)
		}
		if ierr == nil && !f.forged {
			if f.file != "manifest.json" {
				// data files are bound by the SHA-256 in the manifest: any
				// change of their bytes must be refused
				r.Violation("transfer-corrupt-bundle-accepted:"+f.class, wit)
			} else {
				// manifest.json is the unauthenticated JSON root: a mutation can
				// be semantically neutral (key case, whitespace, a byte nobody
				// interprets). Accepted is fine iff the resulting target is
				// exactly what the clean bundle produces.
				mut, cl := f.tree["manifest.json"], clean["manifest.json"]
				at := c11FirstDiff(cl, mut)
				ctxOf := func(b []byte) string {
					lo, hi := at-40, at+40
					if lo < 0 {
						lo = 0
					}
					if hi > len(b) {
						hi = len(b)
					}
					if lo > hi {
						return ""
					}
					return string(b[lo:hi])
				}
				wit["manifest_clean_context"], wit["manifest_mutated_context"], wit["first_diff_at"] = ctxOf(cl), ctxOf(mut), at
				if cerr := ft.Close(); cerr != nil {
					r.Inconclusive("close fault NodeStore: " + cerr.Error())
					return
				}
				diff := ""
				if rep, verr := verify(srcOpts, ftOpts); verr != nil {
					diff = "VerifyStores: " + verr.Error()
				} else if !rep.Equal {
					diff = fmt.Sprintf("VerifyStores mismatches: %+v", rep.Mismatches)
				} else if _, eerr := export(ftOpts, filepath.Join(dir, "bundle3")); eerr != nil {
					diff = "re-export: " + eerr.Error()
				} else if again, terr := c11Tree(filepath.Join(dir, "bundle3")); terr != nil {
					diff = "re-export read: " + terr.Error()
				} else {
					diff = c11BundleDiff(clean, again)
				}
				os.RemoveAll(filepath.Join(dir, "bundle3"))
				if diff == "" {
					r.Count("transfer.neutral_manifest_mutations_accepted", 1)
					r.Count("transfer.neutral_manifest_mutations_accepted."+f.class, 1)
					r.Note("neutral_manifest_mutation_example", wit)
				} else {
					wit["state_diff"] = diff
					r.Violation("transfer-corrupt-bundle-accepted:"+f.class, wit)
				}
				os.RemoveAll(filepath.Join(dir, "ft"))
				if ft, err = db.OpenNodeStore(ftOpts); err != nil {
					r.Inconclusive("reopen fault NodeStore: " + err.Error())
					return
				}
				continue
			}
		}
		empty, what := c11TargetEmpty(ft)
		if ierr != nil && !empty {
			wit["left_behind"], wit["err"] = what, ierr.Error()
			if f.class == "manifest-drop-file" {
				c11Known(r, "transfer-partial-state-after-rejected-import:"+f.class, wit)
			} else {
				r.Violation("transfer-partial-state-after-rejected-import:"+f.class, wit)
			}
		}
		if !empty {
			// start over on a fresh target
			ft.Close()
			os.RemoveAll(filepath.Join(dir, "ft"))
			if ft, err = db.OpenNodeStore(ftOpts); err != nil {
				r.Inconclusive("reopen fault NodeStore: " + err.Error())
				return
			}
		}
	}
	// a later clean import into the same (still empty) target succeeds
	_, err = transfer.ImportBundle(ctx, bundle, ft, transfer.ImportOptions{HashSlotCount: c11SlotCount, RequireEmpty: true})
	if cerr := ft.Close(); cerr != nil && err == nil {
		err = cerr
	}
	if err != nil {
		r.Violation("transfer-clean-import-after-faults-failed", map[string]any{"shape": shape, "err": err.Error()})
		return
	}
	if rep, err := verify(srcOpts, ftOpts); err != nil || !rep.Equal {
		r.Violation("transfer-restored-store-differs:after-faults", map[string]any{"shape": shape, "err": fmt.Sprint(err), "mismatches": rep.Mismatches})
	}
	r.Count("transfer.clean_import_after_faults_ok", 1)
}

// c11BundleDiff compares two bundles independent of how rows were split into
// files: per data-set directory/kind the concatenated JSONL must be identical.
func c11BundleDiff(a, b map[string][]byte) string {
	group := func(t map[string][]byte) map[string][]byte {
		var names []string
		for f := range t {
			if f != "manifest.json" {
				names = append(names, f)
			}
		}
		sort.Strings(names)
		out := map[string][]byte{}
		for _, f := range names {
			base := filepath.Base(f)
			if i := strings.LastIndex(base, "-"); i > 0 && strings.HasPrefix(f, "message/messages") {
				base = base[:i]
			}
			k := filepath.ToSlash(filepath.Join(filepath.Dir(f), base))
			out[k] = append(out[k], t[f]...)
		}
		return out
	}
	ga, gb := group(a), group(b)
	for k, v := range ga {
		if !bytes.Equal(v, gb[k]) {
			return fmt.Sprintf("data set %s differs (%d vs %d bytes, first diff at %d)", k, len(v), len(gb[k]), c11FirstDiff(v, gb[k]))
		}
	}
	for k := range gb {
		if _, ok := ga[k]; !ok {
			return "extra data set " + k
		}
	}
	return ""
}
