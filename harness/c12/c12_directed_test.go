//go:build verif

package c12

// Directed schedule (found by the random search, seed 2 case 1, then reduced):
// a leader that has been deposed while a client proposal is still sitting in
// its control queue.
//
//  1. A is leader of the slot (term t); A gets isolated (CheckQuorum off, so it
//     keeps believing it leads); B is elected by the majority (term t+1) and
//     commits a command Q1 that A does not have.
//  2. A's worker is held inside Storage.Save (slow disk) while persisting P0.
//  3. A client proposes P on A: accepted into the control queue (A's cached
//     role is still leader).
//  4. The partition heals; B's heartbeat (term t+1) reaches A's request queue.
//  5. The disk write completes. A's worker steps the heartbeat first (becomes
//     follower of B), then drains the control queue.
//
// Whatever the runtime does with P afterwards, the client-visible contract is
// the property: if P's future succeeds with Result{Index}, P is the command
// applied at that index. The ordinary oracle (monitor.ack) decides.

import (
	"context"
	"fmt"
	"testing"
	"time"

	"github.com/WuKongIM/WuKongIM/pkg/slot/multiraft"
	"github.com/WuKongIM/WuKongIM/pkg/verifkit"
)

func (cl *c12Cluster) proposeOn(nd *c12Node, slot uint64, body string) (multiraft.Future, string, error) {
	inc := nd.cur.Load()
	if inc == nil {
		return nil, "", c12ErrDead
	}
	before := ""
	if st, ok := cl.status(nd, slot); ok {
		before = fmt.Sprintf("role=%d term=%d leader=%d commit=%d", st.Role, st.Term, st.LeaderID, st.CommitIndex)
	}
	cl.mon.registerProposal(slot, body)
	fut, err := inc.rt.Propose(cl.ctx, multiraft.SlotID(slot), c12Envelope(body))
	return fut, before, err
}

// proposeAndWait proposes on nd and waits for the result under a watchdog.
func (cl *c12Cluster) proposeAndWait(nd *c12Node, slot uint64, body string, limit time.Duration) (multiraft.Result, bool) {
	fut, before, err := cl.proposeOn(nd, slot, body)
	if err != nil {
		return multiraft.Result{}, false
	}
	ctx, cancel := context.WithTimeout(cl.ctx, limit)
	defer cancel()
	res, err := fut.Wait(ctx)
	if err != nil {
		return multiraft.Result{}, false
	}
	cl.mon.ack(slot, uint64(nd.id), body, before, res, nd.logs[slot])
	return res, true
}

func c12RunDirectedStaleLeader(t *testing.T, r *verifkit.Run, caseIdx int) {
	cfg := c12Cfg{nodes: 3, slots: 1, memMode: true, smDurable: true, preVote: false, checkQuorum: false,
		tick: 10 * time.Millisecond, election: 10, heartbeat: 1, workers: 1, trigger: 1 << 30, checkInterval: time.Hour,
		maxOpDelay: time.Millisecond, writeBatchWait: time.Millisecond, snapChunk: 1024}
	r.BeginCase(caseIdx, "directed: deposed leader drains a queued proposal | "+cfg.String())
	cl, teardown := c12NewCluster(t, r, caseIdx, &cfg)
	defer teardown()
	slot := cl.slots[0]
	giveUp := func(why string) {
		r.Count("directed.not_reproduced:"+why, 1)
	}
	for _, nd := range cl.nodes {
		if !nd.start(true) {
			r.Inconclusive("directed case: bootstrap failed")
			return
		}
	}
	if !c12Poll(60*time.Second, func() bool { return len(cl.leaders(slot)) == 1 }) {
		r.Inconclusive("directed case: no initial leader within watchdog")
		return
	}
	a := cl.leaders(slot)[0]
	for i := 0; i < 3; i++ {
		if _, ok := cl.proposeAndWait(a, slot, fmt.Sprintf("d-warm-%d", i), 20*time.Second); !ok {
			giveUp("warmup")
			return
		}
	}
	// 1. isolate A, wait for B, commit Q1 on B
	cl.isolate(a)
	var b *c12Node
	if !c12Poll(60*time.Second, func() bool {
		for _, nd := range cl.leaders(slot) {
			if nd != a {
				b = nd
				return true
			}
		}
		return false
	}) {
		giveUp("no-second-leader")
		return
	}
	if _, ok := cl.proposeAndWait(b, slot, "d-Q1", 20*time.Second); !ok {
		giveUp("Q1")
		return
	}
	// 2. hold A's worker in Storage.Save while it persists P0
	gate := &c12Gate{body: "d-P0", entered: make(chan struct{}), release: make(chan struct{})}
	a.gate.Store(gate)
	released := false
	release := func() {
		if !released {
			released = true
			close(gate.release)
		}
	}
	defer release()
	if _, _, err := cl.proposeOn(a, slot, "d-P0"); err != nil {
		giveUp("P0-rejected")
		return
	}
	select {
	case <-gate.entered:
	case <-time.After(30 * time.Second):
		giveUp("gate-not-reached")
		return
	}
	// 3. P is accepted by A (cached role: leader)
	futP, beforeP, err := cl.proposeOn(a, slot, "d-P")
	if err != nil {
		giveUp("P-rejected")
		return
	}
	// 4. heal; wait until a higher-term message from B sits in A's request queue
	cl.net.heal()
	if !c12Poll(30*time.Second, func() bool {
		st, ok := cl.status(a, slot)
		return ok && st.Role != multiraft.RoleLeader
	}) {
		giveUp("A-never-saw-higher-term")
		return
	}
	// 5. the disk write completes
	release()
	a.gate.Store(nil)
	// keep B busy with one more command so that entries keep flowing to A
	cl.proposeAndWait(b, slot, "d-Q2", 20*time.Second)

	ctx, cancel := context.WithTimeout(cl.ctx, 20*time.Second)
	res, err := futP.Wait(ctx)
	cancel()
	switch {
	case err != nil:
		// Rejecting or never resolving P is within the contract. Since /repo
		// 221e536ba (raft DisableProposalForwarding) the expected outcome is
		// ErrNotLeader; an acknowledgement goes through the ordinary ack oracle,
		// whose signature flags the defect should it return.
		r.Count("directed.P_not_acknowledged("+c12ErrClass(err)+")", 1)
	default:
		r.Count("directed.P_acknowledged", 1)
		r.Note("directed.P_result", map[string]any{"index": res.Index, "term": res.Term, "data": string(res.Data), "proposed_on": uint64(a.id), "new_leader": uint64(b.id), "status_before": beforeP})
		cl.mon.ack(slot, uint64(a.id), "d-P", beforeP, res, a.logs[slot])
	}
	q := cl.quiesce(60 * time.Second)
	if q.ok {
		cl.finalCheck(q)
	} else {
		r.Inconclusive("directed case: cluster did not quiesce (" + q.detail + ")")
	}
	r.Count("cases.directed", 1)
}
