//go:build verif

package c12

// Monitor, recording state machine and storage wrapper of the C12 harness.
//
// Observation points (property "observe_at"):
//   - StateMachine.Apply/ApplyBatch/Restore/Snapshot calls on every replica
//   - Storage.Save/MarkApplied calls on every replica (persisted log shape,
//     snapshots), used only to know which indices carry deliverable commands
//   - Future.Wait results at the proposing client
//
// Everything the oracle decides on is a logical event recorded under the
// monitor mutex; no wall-clock value takes part in a verdict.

import (
	"bytes"
	"context"
	"encoding/binary"
	"errors"
	"fmt"
	"hash/fnv"
	"runtime"
	"sort"
	"strings"
	"sync"
	"sync/atomic"
	"time"

	"github.com/WuKongIM/WuKongIM/pkg/slot/multiraft"
	"github.com/WuKongIM/WuKongIM/pkg/verifkit"
	"go.etcd.io/raft/v3/raftpb"
)

var c12ErrDead = errors.New("c12: incarnation is dead (crashed)")

const c12SnapMagic = "C12SNAP1"

// c12Rec is one applied command.
type c12Rec struct {
	Term uint64 `json:"term"`
	Body string `json:"body"`
	Node uint64 `json:"first_node,omitempty"`
}

// c12Ack is one successful Future result seen by a client.
type c12Ack struct {
	Slot  uint64 `json:"slot"`
	Index uint64 `json:"index"`
	Term  uint64 `json:"term"`
	Body  string `json:"body"`
	Node  uint64 `json:"proposed_on"`
	// Before is the proposing node's cached raft status just before Propose.
	Before  string `json:"proposer_status_before_propose,omitempty"`
	flagged bool
}

// c12Monitor is the per-case oracle state.
type c12Monitor struct {
	r *verifkit.Run

	mu                sync.Mutex
	canon             map[uint64]map[uint64]c12Rec // slot -> index -> first applied record
	proposed          map[string]uint64            // body -> slot (registered before Propose)
	bodyIndex         map[string]uint64            // body -> first canon index (duplicates counted)
	acks              []c12Ack
	applied           int // distinct (slot,index) applied
	applies           int // apply events over all replicas
	snapSaves         int
	restoresInflight  int
	restoresOpen      int
	reapplyNonDurable int
	gapUnknown        int
	saveErrs          []map[string]any
	leaderOf          map[uint64]map[uint64]uint64 // slot -> term -> node seen sending leader messages
}

func c12NewMonitor(r *verifkit.Run) *c12Monitor {
	return &c12Monitor{r: r, canon: map[uint64]map[uint64]c12Rec{}, proposed: map[string]uint64{}, bodyIndex: map[string]uint64{}, leaderOf: map[uint64]map[uint64]uint64{}}
}

// c12SigSeen bounds reports per signature over the whole run: the kit keeps the
// first 10 violations only, and one frequent signature must not crowd out a
// different one.
var (
	c12SigMu   sync.Mutex
	c12SigSeen = map[string]int{}
)

func (m *c12Monitor) violation(sig string, w map[string]any) {
	c12SigMu.Lock()
	c12SigSeen[sig]++
	n := c12SigSeen[sig]
	c12SigMu.Unlock()
	m.r.Count("violation_events:"+sig, 1)
	if n <= 2 {
		m.r.Violation(sig, w)
	}
}

func c12HashSlot(body string) uint16 {
	h := fnv.New32a()
	h.Write([]byte(body))
	return uint16(h.Sum32() & 0x3ff)
}

func c12Envelope(body string) []byte {
	out := make([]byte, 10+len(body))
	binary.BigEndian.PutUint16(out[:2], c12HashSlot(body))
	binary.BigEndian.PutUint64(out[2:10], 1781754611123) // fixed logical "created at"
	copy(out[10:], body)
	return out
}

func c12Result(body string) string { return "r:" + body }

// registerProposal must be called before Runtime.Propose.
func (m *c12Monitor) registerProposal(slot uint64, body string) {
	m.mu.Lock()
	m.proposed[body] = slot
	m.mu.Unlock()
}

// ack checks one successful future result.
func (m *c12Monitor) ack(slot uint64, node uint64, body, before string, res multiraft.Result, log *c12Log) {
	m.mu.Lock()
	defer m.mu.Unlock()
	m.r.Eval(1)
	a := c12Ack{Slot: slot, Index: res.Index, Term: res.Term, Body: body, Node: node, Before: before}
	defer func() { m.acks = append(m.acks, a) }()
	rec, ok := m.canon[slot][res.Index]
	if !ok {
		// The future is resolved after the proposing replica applied the entry,
		// and the recording state machine logs under this mutex inside Apply.
		a.flagged = true
		m.violation("ack-index-not-applied", map[string]any{"ack": a})
		return
	}
	if rec.Body != body {
		a.flagged = true
		// Classify by what the acknowledging node itself persisted for this
		// proposal (observed at Storage.Save), to keep the signature specific.
		own, had := log.bodyAt(body)
		// "not-appended-at-acked-index": the acknowledging node never stored this
		// proposal at the acknowledged index (it did not create that entry);
		// "own-entry-superseded": it did store it there under an older term and
		// the entry was later overwritten by another leader's entry.
		kind := "proposal-not-appended-at-acked-index-by-acking-node"
		detail := "never persisted by the acking node before the ack"
		switch {
		case had && own[0] == res.Index && own[1] != res.Term:
			kind = "own-entry-superseded-at-same-index"
			detail = "persisted at the acked index under an older term"
		case had:
			detail = "persisted by the acking node at a different index (forwarded and replicated back)"
		}
		w := map[string]any{"ack": a, "applied_at_index": rec, "own_command_first_applied_at_index": m.bodyIndex[body],
			"leader_of_acked_term": m.leaderOf[slot][res.Term], "acking_node_persisted_proposal_at(index,term)": own, "detail": detail}
		m.violation("ack-index-holds-other-command:"+kind, w)
		return
	}
	if rec.Term != res.Term {
		a.flagged = true
		m.violation("ack-term-mismatch", map[string]any{"ack": a, "applied_at_index": rec})
	}
	if string(res.Data) != c12Result(body) {
		a.flagged = true
		m.violation("ack-result-of-other-command", map[string]any{"ack": a, "result": string(res.Data)})
	}
}

// noteLeader records which node acted as leader of (slot, term): only a leader
// sends MsgApp/MsgHeartbeat/MsgSnap. Witness material only.
func (m *c12Monitor) noteLeader(slot, term, node uint64) {
	m.mu.Lock()
	lt := m.leaderOf[slot]
	if lt == nil {
		lt = map[uint64]uint64{}
		m.leaderOf[slot] = lt
	}
	if _, ok := lt[term]; !ok {
		lt[term] = node
	}
	m.mu.Unlock()
}

// ---------------------------------------------------------------------------
// Persisted-log shape per (node, slot), learnt from successful Storage.Save.

type c12LogEnt struct {
	term        uint64
	deliverable bool // normal entry with data (delivered to the state machine)
}

type c12Log struct {
	mu          sync.Mutex
	ents        map[uint64]c12LogEnt
	bodies      map[string][2]uint64 // command body -> last (index, term) this node persisted it at
	snapIndex   uint64
	markApplied uint64
}

func (l *c12Log) saved(st multiraft.PersistentState) {
	l.mu.Lock()
	defer l.mu.Unlock()
	if st.Snapshot != nil {
		x := st.Snapshot.Metadata.Index
		if x > l.snapIndex {
			l.snapIndex = x
		}
		for i := range l.ents {
			if i <= x {
				delete(l.ents, i)
			}
		}
	}
	if len(st.Entries) > 0 {
		first := st.Entries[0].Index
		for i := range l.ents {
			if i >= first {
				delete(l.ents, i)
			}
		}
		for _, e := range st.Entries {
			l.ents[e.Index] = c12LogEnt{term: e.Term, deliverable: e.Type == raftpb.EntryNormal && len(e.Data) > 0}
			if e.Type == raftpb.EntryNormal && len(e.Data) > 10 {
				l.bodies[string(e.Data[10:])] = [2]uint64{e.Index, e.Term}
			}
		}
	}
}

func (l *c12Log) bodyAt(body string) ([2]uint64, bool) {
	l.mu.Lock()
	defer l.mu.Unlock()
	v, ok := l.bodies[body]
	return v, ok
}

// gap classifies the open interval (lo, hi): number of indices known to hold a
// deliverable command, and number of indices the wrapper never saw.
func (l *c12Log) gap(lo, hi uint64) (deliverable []uint64, unknown int) {
	l.mu.Lock()
	defer l.mu.Unlock()
	for j := lo + 1; j < hi; j++ {
		e, ok := l.ents[j]
		if !ok {
			unknown++
			continue
		}
		if e.deliverable {
			deliverable = append(deliverable, j)
		}
	}
	return
}

// ---------------------------------------------------------------------------
// Durable state of one replica's state machine (survives incarnations). The
// "disk" of the state machine: every successful apply is durable immediately,
// like the production FSM which commits data and applied index in one synced
// batch.

type c12Disk struct {
	list map[uint64]c12Rec
	p    uint64 // highest index covered (last applied command or restored snapshot index)
}

func (d *c12Disk) clone() *c12Disk {
	out := &c12Disk{list: make(map[uint64]c12Rec, len(d.list)), p: d.p}
	for k, v := range d.list {
		out.list[k] = v
	}
	return out
}

// c12SM is the recording batch state machine of one (node, slot, incarnation).
type c12SM struct {
	mon   *c12Monitor
	node  *c12Node
	inc   *c12Inc
	slot  uint64
	log   *c12Log
	delay func() time.Duration

	mu      sync.Mutex
	disk    *c12Disk
	cur     uint64 // incarnation cursor: last index covered in this incarnation
	curSet  bool   // false: non-durable SM after an unclean stop, resume point not yet known
	startP  uint64 // disk.p when the incarnation started
	gate    atomic.Pointer[c12ApplyGate]
	opening bool // OpenSlot/BootstrapSlot in progress (restore-at-open allowed to rewind)
	fresh   bool // nothing applied or restored yet in this incarnation
	hist    []string
}

func (s *c12SM) note(format string, a ...any) {
	if len(s.hist) >= 60 {
		s.hist = append(s.hist[:20], s.hist[21:]...)
	}
	s.hist = append(s.hist, fmt.Sprintf(format, a...))
}

func (s *c12SM) where() map[string]any {
	return map[string]any{"node": uint64(s.node.id), "slot": s.slot, "incarnation": s.inc.no, "sm_durable_variant": s.node.cfg.smDurable,
		"start_applied": s.startP, "cursor": s.cur, "history": append([]string(nil), s.hist...)}
}

func (s *c12SM) Apply(ctx context.Context, cmd multiraft.Command) ([]byte, error) {
	res, err := s.ApplyBatch(ctx, []multiraft.Command{cmd})
	if err != nil {
		return nil, err
	}
	return res[0], nil
}

// c12ApplyGate blocks the next Apply of one replica until the director releases it.
type c12ApplyGate struct {
	entered chan struct{}
	release chan struct{}
	once    sync.Once
}

// applyPath classifies, from the call stack, how the runtime reached the state
// machine. Evidence only (proves the backpressure fallback is exercised).
func c12ApplyPath() string {
	var pcs [24]uintptr
	n := runtime.Callers(3, pcs[:])
	frames := runtime.CallersFrames(pcs[:n])
	sync_, fallback := false, false
	for {
		f, more := frames.Next()
		switch {
		case strings.HasSuffix(f.Function, ".runApplyTask"):
			return "pipeline"
		case strings.HasSuffix(f.Function, ".processReadySynchronously"):
			sync_ = true
		case strings.HasSuffix(f.Function, ".processReadyAsyncNormal"):
			fallback = true
		}
		if !more {
			break
		}
	}
	switch {
	case sync_ && fallback:
		return "sync_fallback_backpressure"
	case sync_:
		return "sync_required"
	}
	return "other"
}

func (s *c12SM) ApplyBatch(_ context.Context, cmds []multiraft.Command) ([][]byte, error) {
	path := c12ApplyPath()
	s.mon.r.Count("apply.calls."+path, 1)
	if b := s.inc.obs.backlog(multiraft.SlotID(s.slot)); b > 1 {
		s.mon.r.Count("apply.calls_with_queued_backlog", 1)
	}
	if g := s.gate.Load(); g != nil {
		g.once.Do(func() { close(g.entered) })
		<-g.release
		s.mon.r.Count("apply.gated", 1)
	}
	if d := s.delay(); d > 0 {
		time.Sleep(d)
	}
	s.node.cut.RLock()
	defer s.node.cut.RUnlock()
	if s.inc.dead {
		return nil, c12ErrDead
	}
	m := s.mon
	m.mu.Lock()
	defer m.mu.Unlock()
	s.mu.Lock()
	defer s.mu.Unlock()
	out := make([][]byte, len(cmds))
	if len(cmds) > 0 {
		s.note("apply %d..%d (n=%d)", cmds[0].Index, cmds[len(cmds)-1].Index, len(cmds))
	}
	for i, cmd := range cmds {
		body := string(cmd.Data)
		out[i] = []byte(c12Result(body))
		m.r.Eval(1)
		m.applies++
		if uint64(cmd.SlotID) != s.slot {
			m.violation("apply-wrong-slot", map[string]any{"at": s.where(), "cmd_slot": uint64(cmd.SlotID), "index": cmd.Index})
		}
		// --- order / restart clauses -------------------------------------
		switch {
		case !s.curSet:
			// Non-durable state machine after an unclean stop: Storage.MarkApplied
			// is the authority and legitimately trails the state machine, so a
			// bounded re-apply is by design (counted); skipping is not.
			if cmd.Index <= s.startP {
				m.reapplyNonDurable++
			} else {
				s.checkGap(s.startP, cmd.Index)
			}
			s.cur, s.curSet = cmd.Index, true
		case cmd.Index <= s.cur:
			sig := "apply-reapplied-or-out-of-order"
			if s.fresh && !s.inc.first {
				sig = "restart-reapplied-command"
			}
			m.violation(sig, map[string]any{"at": s.where(), "index": cmd.Index, "term": cmd.Term, "body": body})
			s.cur = cmd.Index // resynchronise: report the rewind once, not every command after it
		default:
			s.checkGap(s.cur, cmd.Index)
			s.cur = cmd.Index
		}
		s.fresh = false
		// --- payload clauses -----------------------------------------------
		if want, ok := m.proposed[body]; !ok {
			m.violation("apply-never-proposed-command", map[string]any{"at": s.where(), "index": cmd.Index, "body": body})
		} else if want != s.slot {
			m.violation("apply-command-of-other-slot", map[string]any{"at": s.where(), "index": cmd.Index, "body": body, "proposed_slot": want})
		}
		if cmd.HashSlot != c12HashSlot(body) {
			m.violation("apply-hashslot-mismatch", map[string]any{"at": s.where(), "index": cmd.Index, "body": body, "hash_slot": cmd.HashSlot})
		}
		rec := c12Rec{Term: cmd.Term, Body: body}
		cs := m.canon[s.slot]
		if cs == nil {
			cs = map[uint64]c12Rec{}
			m.canon[s.slot] = cs
		}
		if prev, ok := cs[cmd.Index]; ok {
			if prev.Body != body || prev.Term != cmd.Term {
				m.violation("replicas-diverge-at-index", map[string]any{"at": s.where(), "index": cmd.Index,
					"this": rec, "other": prev})
			}
		} else {
			rec.Node = uint64(s.node.id)
			cs[cmd.Index] = rec
			m.applied++
			if _, dup := m.bodyIndex[body]; dup {
				m.r.Count("command_applied_at_two_indices(forwarded-proposal duplicate)", 1)
			} else {
				m.bodyIndex[body] = cmd.Index
			}
		}
		if old, ok := s.disk.list[cmd.Index]; ok && (old.Body != body || old.Term != cmd.Term) {
			m.violation("replica-rewrites-applied-index", map[string]any{"at": s.where(), "index": cmd.Index, "old": old, "new": rec})
		}
		s.disk.list[cmd.Index] = c12Rec{Term: cmd.Term, Body: body}
		if cmd.Index > s.disk.p {
			s.disk.p = cmd.Index
		}
	}
	return out, nil
}

// checkGap: every index strictly between the previous covered index and the
// newly applied one must be a non-deliverable entry (empty leader no-op or
// membership change; those are not handed to the state machine).
func (s *c12SM) checkGap(lo, idx uint64) {
	if idx <= lo+1 {
		return
	}
	skipped, unknown := s.log.gap(lo, idx)
	if len(skipped) > 0 {
		sig := "apply-skipped-command"
		if s.fresh && !s.inc.first {
			sig = "restart-skipped-command"
		}
		s.mon.violation(sig, map[string]any{"at": s.where(), "previous": lo, "applied": idx, "skipped_indices": skipped})
	}
	s.mon.gapUnknown += unknown
}

func (s *c12SM) Snapshot(_ context.Context) (multiraft.Snapshot, error) {
	s.node.cut.RLock()
	defer s.node.cut.RUnlock()
	if s.inc.dead {
		return multiraft.Snapshot{}, c12ErrDead
	}
	s.mu.Lock()
	defer s.mu.Unlock()
	s.note("snapshot() at p=%d n=%d", s.disk.p, len(s.disk.list))
	return multiraft.Snapshot{Index: s.disk.p, Data: c12EncodeSnap(s.disk)}, nil
}

func (s *c12SM) Restore(_ context.Context, snap multiraft.Snapshot) error {
	s.node.cut.RLock()
	defer s.node.cut.RUnlock()
	if s.inc.dead {
		return c12ErrDead
	}
	m := s.mon
	m.mu.Lock()
	defer m.mu.Unlock()
	s.mu.Lock()
	defer s.mu.Unlock()
	d, ok := c12DecodeSnap(snap.Data)
	if !ok {
		m.violation("restore-undecodable-snapshot", map[string]any{"at": s.where(), "index": snap.Index, "len": len(snap.Data)})
		return errors.New("c12: undecodable snapshot")
	}
	m.checkSnapshotLocked(s.slot, snap.Index, d, "restore", s.where())
	if s.opening {
		m.restoresOpen++
		s.note("restore@open index=%d (disk p was %d)", snap.Index, s.disk.p)
	} else {
		m.restoresInflight++
		s.note("restore inflight index=%d (cursor %d)", snap.Index, s.cur)
		if s.curSet && snap.Index < s.cur {
			m.violation("restore-moves-backward", map[string]any{"at": s.where(), "snapshot_index": snap.Index})
		}
	}
	d.p = snap.Index
	s.disk.list, s.disk.p = d.list, d.p
	s.cur, s.curSet = snap.Index, true
	s.fresh = false
	return nil
}

func (s *c12SM) durableIndex() uint64 {
	s.mu.Lock()
	defer s.mu.Unlock()
	return s.disk.p
}

// c12DurableSM adds the DurableAppliedStateMachine capability (production FSM shape).
type c12DurableSM struct{ *c12SM }

func (s c12DurableSM) DurableAppliedIndex(context.Context) (uint64, error) {
	return s.durableIndex(), nil
}

var _ multiraft.BatchStateMachine = (*c12SM)(nil)
var _ multiraft.DurableAppliedStateMachine = c12DurableSM{}

func c12EncodeSnap(d *c12Disk) []byte {
	idx := make([]uint64, 0, len(d.list))
	for i := range d.list {
		idx = append(idx, i)
	}
	sort.Slice(idx, func(a, b int) bool { return idx[a] < idx[b] })
	buf := make([]byte, 0, 32+len(idx)*32)
	buf = append(buf, c12SnapMagic...)
	// Canonical bytes: a function of the applied commands only, so that two
	// replicas snapshotting at the same raft index produce identical payloads.
	buf = binary.AppendUvarint(buf, uint64(len(idx)))
	for _, i := range idx {
		e := d.list[i]
		buf = binary.AppendUvarint(buf, i)
		buf = binary.AppendUvarint(buf, e.Term)
		buf = binary.AppendUvarint(buf, uint64(len(e.Body)))
		buf = append(buf, e.Body...)
	}
	return buf
}

// c12DecodeSnap finds the state machine's own record inside data (the runtime
// wraps it in an envelope of its own) and decodes it.
func c12DecodeSnap(data []byte) (*c12Disk, bool) {
	at := bytes.Index(data, []byte(c12SnapMagic))
	if at < 0 {
		return nil, false
	}
	b := data[at+len(c12SnapMagic):]
	rd := func() (uint64, bool) {
		v, n := binary.Uvarint(b)
		if n <= 0 {
			return 0, false
		}
		b = b[n:]
		return v, true
	}
	n, ok := rd()
	if !ok {
		return nil, false
	}
	d := &c12Disk{list: make(map[uint64]c12Rec, n)}
	for k := uint64(0); k < n; k++ {
		i, ok1 := rd()
		t, ok2 := rd()
		l, ok3 := rd()
		if !ok1 || !ok2 || !ok3 || uint64(len(b)) < l {
			return nil, false
		}
		d.list[i] = c12Rec{Term: t, Body: string(b[:l])}
		b = b[l:]
	}
	return d, true
}

// checkSnapshotLocked: a snapshot labelled with raft index X must hold exactly
// the commands applied at indices <= X (the "restored snapshot whose content
// equals the prefix" clause). Caller holds m.mu.
func (m *c12Monitor) checkSnapshotLocked(slot, index uint64, d *c12Disk, where string, at map[string]any) {
	m.r.Eval(1)
	cs := m.canon[slot]
	for i, e := range d.list {
		if i > index {
			m.violation("snapshot-holds-command-beyond-its-index", map[string]any{"where": where, "at": at, "snapshot_index": index, "command_index": i})
			return
		}
		c, ok := cs[i]
		if !ok {
			m.violation("snapshot-holds-unapplied-command", map[string]any{"where": where, "at": at, "snapshot_index": index, "command_index": i, "body": e.Body})
			return
		}
		if c.Body != e.Body || c.Term != e.Term {
			m.violation("snapshot-differs-from-applied-prefix", map[string]any{"where": where, "at": at, "snapshot_index": index, "command_index": i, "snapshot": e, "applied": c})
			return
		}
	}
	for i, c := range cs {
		if i <= index {
			if _, ok := d.list[i]; !ok {
				m.violation("snapshot-lacks-applied-command", map[string]any{"where": where, "at": at, "snapshot_index": index, "command_index": i, "applied": c})
				return
			}
		}
	}
}

// ---------------------------------------------------------------------------
// Storage wrapper.

type c12Store struct {
	inner multiraft.Storage
	mon   *c12Monitor
	node  *c12Node
	inc   *c12Inc
	slot  uint64
	log   *c12Log
	delay func() time.Duration
}

func (s *c12Store) InitialState(ctx context.Context) (multiraft.BootstrapState, error) {
	return s.inner.InitialState(ctx)
}
func (s *c12Store) Entries(ctx context.Context, lo, hi, maxSize uint64) ([]raftpb.Entry, error) {
	return s.inner.Entries(ctx, lo, hi, maxSize)
}
func (s *c12Store) Term(ctx context.Context, index uint64) (uint64, error) {
	return s.inner.Term(ctx, index)
}
func (s *c12Store) FirstIndex(ctx context.Context) (uint64, error) { return s.inner.FirstIndex(ctx) }
func (s *c12Store) LastIndex(ctx context.Context) (uint64, error)  { return s.inner.LastIndex(ctx) }
func (s *c12Store) Snapshot(ctx context.Context) (raftpb.Snapshot, error) {
	return s.inner.Snapshot(ctx)
}

// c12Gate lets a directed scenario hold one node's worker inside Storage.Save
// (a slow disk) when the batch contains a given command.
type c12Gate struct {
	body    string
	entered chan struct{}
	release chan struct{}
	once    sync.Once
}

func (s *c12Store) Save(ctx context.Context, st multiraft.PersistentState) error {
	if d := s.delay(); d > 0 {
		time.Sleep(d)
	}
	if g := s.node.gate.Load(); g != nil {
		for _, e := range st.Entries {
			if e.Type == raftpb.EntryNormal && len(e.Data) > 10 && string(e.Data[10:]) == g.body {
				g.once.Do(func() { close(g.entered) })
				<-g.release
				break
			}
		}
	}
	s.node.cut.RLock()
	defer s.node.cut.RUnlock()
	if s.inc.dead {
		// The process is gone: nothing reaches the disk image any more. Report
		// success so the abandoned runtime winds down on its normal path (its
		// sends are dropped and its state machine refuses applies).
		return nil
	}
	err := s.inner.Save(ctx, st)
	if err != nil {
		s.mon.r.Count("storage.save_error", 1)
		s.mon.r.Count("storage.save_error:"+c12Scrub(err.Error()), 1)
		s.mon.noteSaveError(s, st, err)
		return err
	}
	s.log.saved(st)
	if st.Snapshot != nil {
		s.mon.r.Count("storage.save_snapshot", 1)
		s.mon.mu.Lock()
		s.mon.snapSaves++
		if d, ok := c12DecodeSnap(st.Snapshot.Data); ok {
			s.mon.checkSnapshotLocked(s.slot, st.Snapshot.Metadata.Index, d, "save",
				map[string]any{"node": uint64(s.node.id), "slot": s.slot, "incarnation": s.inc.no})
		} else {
			s.mon.r.Count("storage.snapshot_undecodable", 1)
		}
		s.mon.mu.Unlock()
	}
	if len(st.Entries) > 0 {
		s.mon.r.Count("storage.save_entries", len(st.Entries))
	}
	return nil
}

func (s *c12Store) MarkApplied(ctx context.Context, index uint64) error {
	if d := s.delay(); d > 0 {
		time.Sleep(d)
	}
	s.node.cut.RLock()
	defer s.node.cut.RUnlock()
	if s.inc.dead {
		return c12ErrDead
	}
	err := s.inner.MarkApplied(ctx, index)
	if err == nil {
		s.log.mu.Lock()
		if index > s.log.markApplied {
			s.log.markApplied = index
		}
		s.log.mu.Unlock()
		s.mon.r.Count("storage.mark_applied", 1)
	}
	return err
}

func (s *c12Store) MarkConfigApplied(ctx context.Context, index uint64) error {
	s.node.cut.RLock()
	defer s.node.cut.RUnlock()
	if s.inc.dead {
		return c12ErrDead
	}
	if st, ok := s.inner.(multiraft.ConfigAppliedIndexStorage); ok {
		return st.MarkConfigApplied(ctx, index)
	}
	return nil
}

func (s *c12Store) LogRangeBytes(ctx context.Context, lo, hi uint64) (uint64, error) {
	if st, ok := s.inner.(multiraft.LogRangeSizer); ok {
		return st.LogRangeBytes(ctx, lo, hi)
	}
	return 0, nil
}

// c12Scrub removes digits so that error texts can be used as counter keys.
func c12Scrub(s string) string {
	b := []byte(s)
	for i, c := range b {
		if c >= '0' && c <= '9' {
			b[i] = '#'
		}
	}
	if len(b) > 120 {
		b = b[:120]
	}
	return string(b)
}

func (m *c12Monitor) noteSaveError(s *c12Store, st multiraft.PersistentState, err error) {
	d := map[string]any{"node": uint64(s.node.id), "slot": s.slot, "incarnation": s.inc.no, "err": err.Error(), "entries": len(st.Entries)}
	if len(st.Entries) > 0 {
		d["first"], d["last"] = st.Entries[0].Index, st.Entries[len(st.Entries)-1].Index
	}
	if st.Snapshot != nil {
		d["snapshot_index"], d["snapshot_term"], d["snapshot_len"] = st.Snapshot.Metadata.Index, st.Snapshot.Metadata.Term, len(st.Snapshot.Data)
		d["snapshot_conf"] = st.Snapshot.Metadata.ConfState.String()
	}
	if st.HardState != nil {
		d["hs"] = st.HardState.String()
	}
	m.mu.Lock()
	if len(m.saveErrs) < 6 {
		m.saveErrs = append(m.saveErrs, d)
	}
	m.mu.Unlock()
}
