//go:build verif

package c12

// In-process fault-injecting transport: drop, duplicate, delay (hence
// reorder), symmetric and one-way partitions, node isolation. Every decision
// comes from the case PRNG. Messages are marshalled at send time and
// unmarshalled per delivery, like a real wire, so sender and receiver never
// share memory.

import (
	"context"
	"math/rand/v2"
	"sync"
	"time"

	"github.com/WuKongIM/WuKongIM/pkg/slot/multiraft"
	"github.com/WuKongIM/WuKongIM/pkg/verifkit"
	"go.etcd.io/raft/v3/raftpb"
)

type c12Faults struct {
	dropPct      int
	dupPct       int
	maxDelay     time.Duration
	longDelayPct int
	longDelay    time.Duration
}

type c12Net struct {
	r *verifkit.Run

	mu      sync.Mutex
	rng     *rand.Rand
	nodes   map[multiraft.NodeID]*c12Node
	blocked map[[2]multiraft.NodeID]bool
	faults  c12Faults
	closed  bool
	wg      sync.WaitGroup

	byType map[string]int

	sent, dropped, duplicated, delayed, partitioned, delivered, stepErr int
}

func c12NewNet(r *verifkit.Run, rng *rand.Rand) *c12Net {
	return &c12Net{r: r, rng: rng, nodes: map[multiraft.NodeID]*c12Node{}, blocked: map[[2]multiraft.NodeID]bool{}, byType: map[string]int{}}
}

func (n *c12Net) setFaults(f c12Faults) { n.mu.Lock(); n.faults = f; n.mu.Unlock() }

func (n *c12Net) block(a, b multiraft.NodeID, both bool) {
	n.mu.Lock()
	n.blocked[[2]multiraft.NodeID{a, b}] = true
	if both {
		n.blocked[[2]multiraft.NodeID{b, a}] = true
	}
	n.mu.Unlock()
}

func (n *c12Net) heal() {
	n.mu.Lock()
	n.blocked = map[[2]multiraft.NodeID]bool{}
	n.mu.Unlock()
}

func (n *c12Net) close() {
	n.mu.Lock()
	n.closed = true
	n.mu.Unlock()
	n.wg.Wait()
}

// drain waits until no accepted message is still in flight.
func (n *c12Net) drain() { n.wg.Wait() }

func (n *c12Net) flushCounters() {
	n.mu.Lock()
	defer n.mu.Unlock()
	n.r.Count("net.sent", n.sent)
	n.r.Count("net.dropped", n.dropped)
	n.r.Count("net.duplicated", n.duplicated)
	n.r.Count("net.delayed", n.delayed)
	n.r.Count("net.blocked_by_partition", n.partitioned)
	n.r.Count("net.delivered", n.delivered)
	n.r.Count("net.step_rejected", n.stepErr)
	for k, v := range n.byType {
		n.r.Count("net.sent."+k, v)
	}
}

type c12Transport struct {
	net  *c12Net
	node *c12Node
	inc  *c12Inc
}

func (t *c12Transport) Send(_ context.Context, batch []multiraft.Envelope) error {
	t.node.cut.RLock()
	defer t.node.cut.RUnlock()
	if t.inc.dead {
		return nil
	}
	n := t.net
	from := t.node.id
	for _, env := range batch {
		data, err := env.Message.Marshal()
		if err != nil {
			continue
		}
		to := multiraft.NodeID(env.Message.To)
		switch env.Message.Type {
		case raftpb.MsgApp, raftpb.MsgHeartbeat, raftpb.MsgSnap:
			t.node.cl.mon.noteLeader(uint64(env.SlotID), env.Message.Term, uint64(from))
		}
		n.mu.Lock()
		if n.closed {
			n.mu.Unlock()
			return nil
		}
		n.sent++
		switch env.Message.Type {
		case raftpb.MsgProp, raftpb.MsgSnap, raftpb.MsgTimeoutNow, raftpb.MsgVote, raftpb.MsgPreVote:
			n.byType[env.Message.Type.String()]++
		}
		if n.blocked[[2]multiraft.NodeID{from, to}] {
			n.partitioned++
			n.mu.Unlock()
			continue
		}
		f := n.faults
		if f.dropPct > 0 && n.rng.IntN(100) < f.dropPct {
			n.dropped++
			n.mu.Unlock()
			continue
		}
		copies := 1
		if f.dupPct > 0 && n.rng.IntN(100) < f.dupPct {
			copies = 2
			n.duplicated++
		}
		delays := make([]time.Duration, copies)
		for i := range delays {
			if f.maxDelay > 0 {
				delays[i] = time.Duration(n.rng.Int64N(int64(f.maxDelay) + 1))
			}
			if f.longDelayPct > 0 && n.rng.IntN(100) < f.longDelayPct {
				delays[i] = time.Duration(n.rng.Int64N(int64(f.longDelay) + 1))
			}
			if delays[i] > 0 {
				n.delayed++
			}
		}
		n.wg.Add(copies)
		n.mu.Unlock()
		slot := env.SlotID
		for _, d := range delays {
			if d <= 0 {
				go n.deliver(from, to, slot, data)
			} else {
				time.AfterFunc(d, func() { n.deliver(from, to, slot, data) })
			}
		}
	}
	return nil
}

func (n *c12Net) deliver(from, to multiraft.NodeID, slot multiraft.SlotID, data []byte) {
	defer n.wg.Done()
	n.mu.Lock()
	if n.closed {
		n.mu.Unlock()
		return
	}
	if n.blocked[[2]multiraft.NodeID{from, to}] {
		n.partitioned++
		n.mu.Unlock()
		return
	}
	target := n.nodes[to]
	n.mu.Unlock()
	if target == nil {
		return
	}
	inc := target.cur.Load()
	if inc == nil || inc.rt == nil {
		return
	}
	var msg raftpb.Message
	if err := msg.Unmarshal(data); err != nil {
		return
	}
	err := inc.rt.Step(context.Background(), multiraft.Envelope{SlotID: slot, Message: msg})
	n.mu.Lock()
	if err != nil {
		n.stepErr++
	} else {
		n.delivered++
	}
	n.mu.Unlock()
}
