//go:build verif

package c12

// C12 — Slot Raft replicas apply identical command sequences.
//
// Drives 3 or 5 real multiraft runtimes (several slots each) over a hostile
// in-process network, real raftlog (Pebble) storage with aggressive log
// compaction, crash-restart of a minority (clean stop, process-kill image,
// power-loss image) and leader transfers, while clients propose unique
// commands. See c12_mon_test.go for the oracle.

import (
	"context"
	"errors"
	"fmt"
	"math/rand/v2"
	"path/filepath"
	"strings"
	"sync"
	"sync/atomic"
	"testing"
	"time"

	"github.com/WuKongIM/WuKongIM/pkg/raftlog"
	"github.com/WuKongIM/WuKongIM/pkg/slot/multiraft"
	"github.com/WuKongIM/WuKongIM/pkg/verifkit"
	"github.com/cockroachdb/pebble/v2/vfs"
)

// ---------------------------------------------------------------------------
// Case configuration and schedule (pure function of the case PRNG).

type c12Cfg struct {
	nodes, slots   int
	memMode        bool // Pebble on CrashableMem (abrupt crashes possible) vs real directory on tmpfs
	smDurable      bool // state machine implements DurableAppliedStateMachine (production shape)
	preVote        bool
	checkQuorum    bool
	tick           time.Duration
	election       int
	heartbeat      int
	workers        int
	trigger        uint64
	checkInterval  time.Duration
	storeDelayPct  int
	smDelayPct     int
	maxOpDelay     time.Duration
	writeBatchWait time.Duration
	snapChunk      uint64
	clients        int
	maxProposals   int
	base           c12Faults
	// apply-pipeline shaping
	maxApplying     int // RaftOptions.MaxApplyingTasks (0 = default 1024)
	stallNode       int // node index whose state machine occasionally stalls 20-50ms
	stallPct        int
	maxSizePerMsg   uint64
	maxInflight     int
	maxQueuedReq    int
	maxQueuedCtl    int
	writeBatchItems int
}

type c12Event struct {
	kind  string // part | oneway | iso-leader | heal | transfer | compact | crash | faults | burst
	a, b  int    // generic parameters (slot pick, node pick, ...)
	crash string // clean | kill | powerloss
	pct   int
	down  time.Duration
	pause time.Duration
	f     c12Faults
}

func c12GenFaults(rng *rand.Rand) c12Faults {
	f := c12Faults{}
	switch rng.IntN(4) {
	case 0: // calm
	case 1:
		f.dropPct, f.dupPct, f.maxDelay = rng.IntN(6), rng.IntN(6), time.Duration(rng.IntN(4))*time.Millisecond
	case 2:
		f.dropPct, f.dupPct, f.maxDelay = rng.IntN(15), rng.IntN(15), time.Duration(rng.IntN(12))*time.Millisecond
		f.longDelayPct, f.longDelay = rng.IntN(4), time.Duration(20+rng.IntN(80))*time.Millisecond
	case 3:
		f.dropPct, f.dupPct, f.maxDelay = rng.IntN(30), rng.IntN(25), time.Duration(rng.IntN(25))*time.Millisecond
		f.longDelayPct, f.longDelay = rng.IntN(8), time.Duration(20+rng.IntN(150))*time.Millisecond
	}
	return f
}

func c12GenCase(rng *rand.Rand, thorough bool) (c12Cfg, []c12Event) {
	cfg := c12Cfg{nodes: 3, slots: 2 + rng.IntN(3)}
	if thorough && rng.IntN(5) < 2 {
		cfg.nodes = 5
	}
	cfg.memMode = rng.IntN(4) != 0
	cfg.smDurable = rng.IntN(4) != 0
	if rng.IntN(2) == 0 {
		cfg.preVote, cfg.checkQuorum = true, true // production setting
	} else {
		cfg.preVote, cfg.checkQuorum = rng.IntN(2) == 0, rng.IntN(2) == 0
	}
	cfg.tick = []time.Duration{4 * time.Millisecond, 6 * time.Millisecond, 10 * time.Millisecond}[rng.IntN(3)]
	cfg.election = 10 + rng.IntN(6)
	cfg.heartbeat = 1 + rng.IntN(2)
	cfg.workers = 1 + rng.IntN(4)
	// Bimodal: aggressive auto-compaction (snapshots everywhere, restarts go
	// through restore+replay) or late compaction (long snapshot-free prefixes,
	// restarts resume from the durable applied index; snapshots then come from
	// the director's CompactLog events).
	if rng.IntN(2) == 0 {
		cfg.trigger = uint64(4 + rng.IntN(40))
	} else {
		cfg.trigger = uint64(200 + rng.IntN(600))
	}
	cfg.checkInterval = time.Duration(1+rng.IntN(15)) * time.Millisecond
	cfg.storeDelayPct = rng.IntN(35)
	cfg.smDelayPct = rng.IntN(35)
	cfg.maxOpDelay = time.Duration(1+rng.IntN(4)) * time.Millisecond
	cfg.writeBatchWait = []time.Duration{0, time.Millisecond, 200 * time.Microsecond}[rng.IntN(3)]
	cfg.snapChunk = uint64(64 + rng.IntN(2048))
	cfg.clients = 3 + rng.IntN(3)
	cfg.maxProposals = 2500
	if thorough {
		cfg.maxProposals = 3500
	}
	cfg.base = c12GenFaults(rng)
	// Apply backpressure: in ~2/3 of the cases the per-slot apply pipeline is
	// tiny, so that slow applies push the ready loop onto its synchronous
	// fallback (processReadyAsyncNormal -> ErrSlotBusy -> processReadySynchronously).
	if rng.IntN(3) != 0 {
		cfg.maxApplying = []int{1, 1, 2, 2, 4, 16}[rng.IntN(6)]
		cfg.smDelayPct = 25 + rng.IntN(50)
	}
	cfg.stallNode = rng.IntN(cfg.nodes)
	cfg.stallPct = rng.IntN(4)
	cfg.maxSizePerMsg = []uint64{0, 0, 128, 1024, 16 << 10}[rng.IntN(5)]
	cfg.maxInflight = []int{0, 0, 1, 4, 32}[rng.IntN(5)]
	cfg.maxQueuedReq = []int{0, 0, 32, 256}[rng.IntN(4)]
	cfg.maxQueuedCtl = []int{0, 0, 8, 64}[rng.IntN(4)]
	cfg.writeBatchItems = []int{0, 0, 1, 8}[rng.IntN(4)]

	steps := 9 + rng.IntN(4)
	if thorough {
		steps = 11 + rng.IntN(8)
	}
	kinds := []string{"part", "oneway", "iso-leader", "iso-leader", "heal", "transfer", "transfer", "compact", "compact", "crash", "crash", "faults", "burst", "apply-gate", "apply-gate"}
	evs := make([]c12Event, steps)
	for i := range evs {
		evs[i].kind = kinds[rng.IntN(len(kinds))]
	}
	// every schedule contains the ingredients of a non-trivial case
	must := []string{"crash", "iso-leader", "compact", "transfer", "heal", "apply-gate"}
	perm := rng.Perm(steps)
	for i, k := range must {
		evs[perm[i]].kind = k
	}
	for i := range evs {
		e := &evs[i]
		e.a, e.b = rng.IntN(1<<20), rng.IntN(1<<20)
		e.pause = time.Duration(60+rng.IntN(260)) * time.Millisecond
		e.down = time.Duration(rng.IntN(450)) * time.Millisecond
		e.f = c12GenFaults(rng)
		e.pct = rng.IntN(100)
		if e.kind == "crash" {
			switch {
			case !cfg.memMode:
				e.crash = "clean"
			case thorough:
				e.crash = []string{"clean", "kill", "kill", "powerloss"}[rng.IntN(4)]
			default:
				e.crash = []string{"clean", "kill", "kill"}[rng.IntN(3)]
			}
		}
	}
	return cfg, evs
}

func (c c12Cfg) String() string {
	mode := "disk"
	if c.memMode {
		mode = "mem"
	}
	sm := "plain"
	if c.smDurable {
		sm = "durable"
	}
	return fmt.Sprintf("n%d s%d %s sm=%s pv=%v cq=%v tick=%v el=%d hb=%d w=%d trig=%d maxapply=%d smdelay=%d%% msg=%d infl=%d qreq=%d qctl=%d wb=%d", c.nodes, c.slots, mode, sm, c.preVote, c.checkQuorum, c.tick, c.election, c.heartbeat, c.workers, c.trigger,
		c.maxApplying, c.smDelayPct, c.maxSizePerMsg, c.maxInflight, c.maxQueuedReq, c.maxQueuedCtl, c.writeBatchItems)
}

// ---------------------------------------------------------------------------
// Nodes and incarnations.

type c12Inc struct {
	no    int
	first bool
	rt    *multiraft.Runtime
	db    *raftlog.DB
	dead  bool // guarded by node.cut
	sms   map[uint64]*c12SM
	obs   *c12IncObs
}

type c12Node struct {
	id  multiraft.NodeID
	cfg *c12Cfg
	cl  *c12Cluster

	// cut makes a crash atomic across storage, state machine and transport of
	// one node: Save/MarkApplied/Apply/Send hold it shared, the crash holds it
	// exclusively while it takes the disk image and the state machine's list.
	cut sync.RWMutex
	cur atomic.Pointer[c12Inc]

	fs       *vfs.MemFS
	dbPath   string
	snapPath string
	disks    map[uint64]*c12Disk
	logs     map[uint64]*c12Log
	incNo    int
	unclean  bool

	rngMu sync.Mutex
	rng   *rand.Rand

	gate atomic.Pointer[c12Gate]
}

func (nd *c12Node) opDelay(pct int) func() time.Duration {
	return func() time.Duration {
		if pct <= 0 {
			return 0
		}
		nd.rngMu.Lock()
		defer nd.rngMu.Unlock()
		if nd.rng.IntN(100) >= pct {
			return 0
		}
		return time.Duration(nd.rng.Int64N(int64(nd.cfg.maxOpDelay) + 1))
	}
}

// smDelay: bursty state machine: short sleeps with probability smDelayPct and,
// on the case's designated node, occasional 20-50 ms stalls.
func (nd *c12Node) smDelay() func() time.Duration {
	short := nd.opDelay(nd.cfg.smDelayPct)
	stall := nd.cfg.stallPct > 0 && int(nd.id)-1 == nd.cfg.stallNode
	return func() time.Duration {
		if stall {
			nd.rngMu.Lock()
			hit := nd.rng.IntN(100) < nd.cfg.stallPct
			d := time.Duration(20+nd.rng.IntN(31)) * time.Millisecond
			nd.rngMu.Unlock()
			if hit {
				nd.cl.r.Count("apply.long_stalls", 1)
				return d
			}
		}
		return short()
	}
}

// c12OpenMu serialises raftlog.Open because the verif FS provider is global.
var c12OpenMu sync.Mutex

func (nd *c12Node) openDB() (*raftlog.DB, error) {
	c12OpenMu.Lock()
	defer c12OpenMu.Unlock()
	if nd.cfg.memMode {
		fs := nd.fs
		raftlog.SetVerifFS(func() vfs.FS { return fs })
		defer raftlog.SetVerifFS(nil)
	} else {
		raftlog.SetVerifFS(nil)
	}
	return raftlog.Open(nd.dbPath, raftlog.Options{
		SnapshotPath:       nd.snapPath,
		SnapshotChunkSize:  nd.cfg.snapChunk,
		WriteBatchMaxWait:  nd.cfg.writeBatchWait,
		WriteBatchMaxItems: nd.cfg.writeBatchItems,
	})
}

// start opens the node's durable state in a fresh runtime (what a process
// start does). bootstrap is true only for the very first start.
func (nd *c12Node) start(bootstrap bool) bool {
	cl := nd.cl
	nd.incNo++
	inc := &c12Inc{no: nd.incNo, first: bootstrap, sms: map[uint64]*c12SM{}}
	inc.obs = &c12IncObs{c12Observer: cl.obs, r: cl.r, limit: nd.cfg.maxApplying, outstanding: map[multiraft.SlotID]int{}}
	ok := true
	panicked := cl.r.Guard("node-start", map[string]any{"node": uint64(nd.id), "incarnation": inc.no, "cfg": nd.cfg.String()}, func() {
		db, err := nd.openDB()
		if err != nil {
			cl.mon.violation("restart-storage-open-error", map[string]any{"node": uint64(nd.id), "incarnation": inc.no, "err": err.Error()})
			ok = false
			return
		}
		inc.db = db
		rt, err := multiraft.New(multiraft.Options{
			NodeID:       nd.id,
			TickInterval: nd.cfg.tick,
			Workers:      nd.cfg.workers,
			Transport:    &c12Transport{net: cl.net, node: nd, inc: inc},
			Observer:     inc.obs,
			Raft: multiraft.RaftOptions{
				ElectionTick:      nd.cfg.election,
				HeartbeatTick:     nd.cfg.heartbeat,
				PreVote:           nd.cfg.preVote,
				CheckQuorum:       nd.cfg.checkQuorum,
				MaxSizePerMsg:     nd.cfg.maxSizePerMsg,
				MaxInflight:       nd.cfg.maxInflight,
				MaxQueuedRequests: nd.cfg.maxQueuedReq,
				MaxQueuedControls: nd.cfg.maxQueuedCtl,
				MaxApplyingTasks:  nd.cfg.maxApplying,
				LogCompaction: multiraft.LogCompactionConfig{Enabled: true, EnabledSet: true,
					TriggerEntries: nd.cfg.trigger, CheckInterval: nd.cfg.checkInterval},
			},
		})
		if err != nil {
			panic(fmt.Sprintf("c12 harness: multiraft.New: %v", err))
		}
		inc.rt = rt
		for _, slot := range cl.slots {
			disk := nd.disks[slot]
			sm := &c12SM{mon: cl.mon, node: nd, inc: inc, slot: slot, log: nd.logs[slot], delay: nd.smDelay(),
				disk: disk, cur: disk.p, startP: disk.p, fresh: true, opening: true,
				curSet: nd.cfg.smDurable || !nd.unclean || bootstrap}
			sm.note("incarnation %d opens with durable applied=%d commands=%d unclean=%v", inc.no, disk.p, len(disk.list), nd.unclean)
			inc.sms[slot] = sm
			var smi multiraft.StateMachine = sm
			if nd.cfg.smDurable {
				smi = c12DurableSM{sm}
			}
			opts := multiraft.SlotOptions{ID: multiraft.SlotID(slot), StateMachine: smi,
				Storage: &c12Store{inner: db.ForSlot(slot), mon: cl.mon, node: nd, inc: inc, slot: slot, log: nd.logs[slot], delay: nd.opDelay(nd.cfg.storeDelayPct)}}
			if bootstrap {
				err = rt.BootstrapSlot(context.Background(), multiraft.BootstrapSlotRequest{Slot: opts, Voters: cl.voters})
			} else {
				err = rt.OpenSlot(context.Background(), opts)
			}
			sm.mu.Lock()
			sm.opening = false
			sm.mu.Unlock()
			if err != nil {
				cl.mon.violation("restart-open-slot-error", map[string]any{"at": sm.where(), "err": err.Error()})
				ok = false
			}
		}
	})
	if panicked {
		return false
	}
	if inc.rt != nil {
		nd.cur.Store(inc)
	}
	return ok
}

// stop ends the current incarnation. kind: clean (Close runtime and DB),
// kill (process-kill image), powerloss (unsynced data partially lost).
func (nd *c12Node) stop(kind string, pct int, rng *rand.Rand) {
	inc := nd.cur.Load()
	if inc == nil {
		return
	}
	cloneDisks := func() {
		for slot, sm := range inc.sms {
			sm.mu.Lock()
			nd.disks[slot] = sm.disk.clone()
			sm.mu.Unlock()
		}
	}
	closeAll := func() {
		_ = inc.rt.Close()
		if inc.db != nil {
			_ = inc.db.Close()
		}
	}
	switch kind {
	case "clean":
		nd.cur.Store(nil)
		closeAll()
		nd.cut.Lock()
		inc.dead = true
		cloneDisks()
		nd.cut.Unlock()
		nd.unclean = false
	default:
		nd.cut.Lock()
		inc.dead = true
		nd.cur.Store(nil)
		unsynced := 100
		if kind == "powerloss" {
			unsynced = pct
		}
		clone := nd.fs.CrashClone(vfs.CrashCloneCfg{UnsyncedDataPercent: unsynced, RNG: rng})
		cloneDisks()
		nd.cut.Unlock()
		// The abandoned process image is torn down before the successor opens
		// the (shared, real-FS) snapshot chunk directory.
		closeAll()
		nd.fs = clone
		nd.unclean = true
	}
}

// ---------------------------------------------------------------------------
// Observer: counts leader changes reported by the runtimes.

type c12Observer struct{ leaderChanges atomic.Int64 }

func (*c12Observer) SetSchedulerWorkers(int)                         {}
func (*c12Observer) SetSchedulerInflight(int)                        {}
func (*c12Observer) SetSchedulerState(multiraft.SchedulerStateEvent) {}
func (*c12Observer) ObserveSchedulerAdmission(string)                {}
func (*c12Observer) ObserveSchedulerTask(string, time.Duration)      {}
func (o *c12Observer) ObserveSlotLeaderChange(_ multiraft.SlotID, from, to multiraft.NodeID) {
	if from != 0 && to != 0 && from != to {
		o.leaderChanges.Add(1)
	}
}

// c12IncObs is the per-incarnation observer: leader changes (shared counter)
// plus the apply pipeline gauges that prove the backlog limit is reached.
type c12IncObs struct {
	*c12Observer
	r     *verifkit.Run
	limit int

	mu          sync.Mutex
	outstanding map[multiraft.SlotID]int // accepted, not yet completed apply tasks
}

func (o *c12IncObs) ObserveSlotApplyQueue(slot multiraft.SlotID, depth int) {
	o.mu.Lock()
	o.outstanding[slot]++
	n := o.outstanding[slot]
	o.mu.Unlock()
	o.r.Max("apply.max_queue_depth_at_enqueue", depth)
	o.r.Max("apply.max_outstanding_tasks", n)
	if o.limit > 0 && n >= o.limit {
		o.r.Count("apply.backlog_limit_reached", 1)
	}
}

func (o *c12IncObs) ObserveSlotApplyTask(slot multiraft.SlotID, _ time.Duration) {
	o.mu.Lock()
	o.outstanding[slot]--
	o.mu.Unlock()
}

func (o *c12IncObs) backlog(slot multiraft.SlotID) int {
	o.mu.Lock()
	defer o.mu.Unlock()
	return o.outstanding[slot]
}

var _ multiraft.ApplyPipelineObserver = (*c12IncObs)(nil)

// ---------------------------------------------------------------------------
// Cluster.

type c12Cluster struct {
	r      *verifkit.Run
	mon    *c12Monitor
	net    *c12Net
	cfg    *c12Cfg
	obs    *c12Observer
	nodes  []*c12Node
	slots  []uint64
	voters []multiraft.NodeID

	ctx      context.Context
	cancel   context.CancelFunc
	stopCli  atomic.Bool
	burstUntil atomic.Int64 // unix nanos; workload pacing only
	proposed atomic.Int64
	waiters  sync.WaitGroup
	clients  sync.WaitGroup

	outMu sync.Mutex
	out   map[string]int
}

func (cl *c12Cluster) outcome(k string) {
	cl.outMu.Lock()
	cl.out[k]++
	cl.outMu.Unlock()
}

func (cl *c12Cluster) status(nd *c12Node, slot uint64) (multiraft.Status, bool) {
	inc := nd.cur.Load()
	if inc == nil {
		return multiraft.Status{}, false
	}
	st, err := inc.rt.Status(multiraft.SlotID(slot))
	return st, err == nil
}

// leaders returns the nodes that currently claim leadership of slot.
func (cl *c12Cluster) leaders(slot uint64) []*c12Node {
	var out []*c12Node
	for _, nd := range cl.nodes {
		if st, ok := cl.status(nd, slot); ok && st.Role == multiraft.RoleLeader {
			out = append(out, nd)
		}
	}
	return out
}

func c12ErrClass(err error) string {
	switch {
	case errors.Is(err, multiraft.ErrNotLeader):
		return "not_leader"
	case errors.Is(err, multiraft.ErrProposalBackpressure), errors.Is(err, multiraft.ErrSlotBusy):
		return "backpressure"
	case errors.Is(err, multiraft.ErrRuntimeClosed), errors.Is(err, multiraft.ErrSlotClosed), errors.Is(err, multiraft.ErrSlotNotFound):
		return "closed"
	case errors.Is(err, context.Canceled), errors.Is(err, context.DeadlineExceeded):
		return "unresolved_at_case_end"
	case errors.Is(err, c12ErrDead):
		return "crashed_while_pending"
	default:
		return "other:" + err.Error()
	}
}

func (cl *c12Cluster) client(id int, rng *rand.Rand) {
	defer cl.clients.Done()
	ctr := 0
	for !cl.stopCli.Load() {
		if cl.proposed.Load() >= int64(cl.cfg.maxProposals) {
			return
		}
		slot := cl.slots[rng.IntN(len(cl.slots))]
		var nd *c12Node
		if rng.IntN(10) < 8 {
			if ls := cl.leaders(slot); len(ls) > 0 {
				nd = ls[rng.IntN(len(ls))]
			}
		}
		if nd == nil {
			nd = cl.nodes[rng.IntN(len(cl.nodes))]
		}
		inc := nd.cur.Load()
		if inc == nil {
			time.Sleep(time.Millisecond)
			continue
		}
		ctr++
		body := fmt.Sprintf("c%d-%d-s%d|%s", id, ctr, slot, strings.Repeat("x", rng.IntN(48)))
		before := ""
		if st, ok := cl.status(nd, slot); ok {
			before = fmt.Sprintf("role=%d term=%d leader=%d commit=%d", st.Role, st.Term, st.LeaderID, st.CommitIndex)
		}
		cl.mon.registerProposal(slot, body)
		fut, err := inc.rt.Propose(cl.ctx, multiraft.SlotID(slot), c12Envelope(body))
		if err != nil {
			cl.outcome("propose." + c12ErrClass(err))
			time.Sleep(time.Duration(200+rng.IntN(1500)) * time.Microsecond)
			continue
		}
		cl.proposed.Add(1)
		cl.outcome("propose.accepted")
		cl.waiters.Add(1)
		go func(nd *c12Node) {
			defer cl.waiters.Done()
			res, err := fut.Wait(cl.ctx)
			if err != nil {
				cl.outcome("future." + c12ErrClass(err))
				return
			}
			cl.outcome("future.acknowledged")
			cl.mon.ack(slot, uint64(nd.id), body, before, res, nd.logs[slot])
		}(nd)
		// paced so that traffic lasts for the whole schedule; bursts are timed
		if time.Now().UnixNano() > cl.burstUntil.Load() {
			time.Sleep(time.Duration(1000+rng.IntN(7000)) * time.Microsecond)
		}
	}
}

// poll waits for cond with a generous wall-clock watchdog (never a verdict).
func c12Poll(limit time.Duration, cond func() bool) bool {
	deadline := time.Now().Add(limit)
	for {
		if cond() {
			return true
		}
		if time.Now().After(deadline) {
			return false
		}
		time.Sleep(15 * time.Millisecond)
	}
}

func (cl *c12Cluster) pickNodes(e c12Event, k int) []*c12Node {
	idx := rand.New(rand.NewPCG(uint64(e.a), uint64(e.b))).Perm(len(cl.nodes))
	out := make([]*c12Node, 0, k)
	for _, i := range idx[:k] {
		out = append(out, cl.nodes[i])
	}
	return out
}

func (cl *c12Cluster) isolate(nd *c12Node) {
	for _, o := range cl.nodes {
		if o != nd {
			cl.net.block(nd.id, o.id, true)
		}
	}
}

// runEvent executes one schedule step; returns the abstract label actually performed.
func (cl *c12Cluster) runEvent(e c12Event, rng *rand.Rand) string {
	slot := cl.slots[e.a%len(cl.slots)]
	switch e.kind {
	case "part":
		k := 1 + e.b%((len(cl.nodes)-1)/2)
		group := cl.pickNodes(e, k)
		in := map[*c12Node]bool{}
		for _, g := range group {
			in[g] = true
		}
		for _, a := range cl.nodes {
			for _, b := range cl.nodes {
				if in[a] != in[b] {
					cl.net.block(a.id, b.id, false)
				}
			}
		}
		return fmt.Sprintf("part%d", k)
	case "oneway":
		ns := cl.pickNodes(e, 2)
		cl.net.block(ns[0].id, ns[1].id, false)
		return "oneway"
	case "iso-leader":
		if ls := cl.leaders(slot); len(ls) > 0 {
			cl.isolate(ls[e.b%len(ls)])
			return "iso-leader"
		}
		return "iso-leader(none)"
	case "heal":
		cl.net.heal()
		return "heal"
	case "transfer":
		ls := cl.leaders(slot)
		if len(ls) == 0 {
			return "transfer(none)"
		}
		from := ls[e.b%len(ls)]
		to := cl.nodes[(e.b/7)%len(cl.nodes)]
		if inc := from.cur.Load(); inc != nil {
			_ = inc.rt.TransferLeadership(cl.ctx, multiraft.SlotID(slot), to.id)
		}
		return "transfer"
	case "compact":
		nd := cl.nodes[e.b%len(cl.nodes)]
		inc := nd.cur.Load()
		if inc == nil {
			return "compact(down)"
		}
		ctx, cancel := context.WithTimeout(cl.ctx, 5*time.Second)
		res, err := inc.rt.CompactLog(ctx, multiraft.SlotID(slot))
		cancel()
		switch {
		case err != nil:
			cl.r.Count("compact.error", 1)
		case res.Compacted:
			cl.r.Count("compact.compacted", 1)
		default:
			cl.r.Count("compact.skipped."+res.SkippedReason, 1)
		}
		return "compact"
	case "crash":
		// a minority only: one node at a time for 3 nodes, up to two for 5
		k := 1
		if len(cl.nodes) >= 5 && e.b%3 == 0 {
			k = 2
		}
		var victims []*c12Node
		if ls := cl.leaders(slot); len(ls) > 0 && e.b%2 == 0 {
			victims = append(victims, ls[0])
		}
		for _, nd := range cl.pickNodes(e, len(cl.nodes)) {
			if len(victims) >= k {
				break
			}
			if len(victims) == 0 || victims[0] != nd {
				victims = append(victims, nd)
			}
		}
		for _, v := range victims {
			v.stop(e.crash, e.pct, rng)
			cl.r.Count("crash."+e.crash, 1)
		}
		time.Sleep(e.down)
		for _, v := range victims {
			if !v.start(false) {
				cl.r.Count("restart.failed", 1)
			} else {
				cl.r.Count("restart.ok", 1)
			}
		}
		return fmt.Sprintf("crash-%s%d", e.crash, len(victims))
	case "apply-gate":
		// Block one Apply on one replica while more proposals commit, then
		// release: the apply backlog of that slot fills behind the gate.
		nd := cl.nodes[e.b%len(cl.nodes)]
		inc := nd.cur.Load()
		if inc == nil {
			return "apply-gate(down)"
		}
		sm := inc.sms[slot]
		g := &c12ApplyGate{entered: make(chan struct{}), release: make(chan struct{})}
		sm.gate.Store(g)
		cl.burstUntil.Store(time.Now().Add(700 * time.Millisecond).UnixNano())
		label := "apply-gate"
		select {
		case <-g.entered:
			time.Sleep(time.Duration(40+e.pct) * time.Millisecond)
		case <-time.After(500 * time.Millisecond):
			label = "apply-gate(idle)"
		}
		sm.gate.Store(nil)
		close(g.release)
		cl.burstUntil.Store(0)
		return label
	case "faults":
		cl.net.setFaults(e.f)
		return "faults"
	case "burst":
		cl.burstUntil.Store(time.Now().Add(time.Duration(100+e.pct*3) * time.Millisecond).UnixNano())
		return "burst"
	}
	return e.kind
}

type c12Quiesced struct {
	ok     bool
	commit map[uint64]uint64
	detail string
}

// quiesce polls logical conditions: every node up, one leader per slot, and
// commit == applied == the same index on every replica, twice in a row.
func (cl *c12Cluster) quiesce(limit time.Duration) c12Quiesced {
	var last map[uint64]uint64
	var detail string
	stable := 0
	check := func() bool {
		cur := map[uint64]uint64{}
		for _, slot := range cl.slots {
			leaders := 0
			var commit uint64
			for i, nd := range cl.nodes {
				st, ok := cl.status(nd, slot)
				if !ok {
					detail = fmt.Sprintf("slot %d node %d: status unavailable", slot, nd.id)
					return false
				}
				if st.Role == multiraft.RoleLeader {
					leaders++
				}
				if i == 0 {
					commit = st.CommitIndex
				}
				if st.CommitIndex != commit || st.AppliedIndex != commit {
					detail = fmt.Sprintf("slot %d node %d: commit=%d applied=%d, node %d commit=%d", slot, nd.id, st.CommitIndex, st.AppliedIndex, cl.nodes[0].id, commit)
					return false
				}
			}
			if leaders != 1 {
				detail = fmt.Sprintf("slot %d: %d leaders", slot, leaders)
				return false
			}
			cur[slot] = commit
		}
		same := last != nil
		for k, v := range cur {
			if last == nil || last[k] != v {
				same = false
			}
		}
		last = cur
		if same {
			stable++
		} else {
			stable = 0
		}
		return stable >= 2
	}
	// A MsgSnap lost during the fault phase leaves the follower's progress in
	// StateSnapshot on the leader until leadership changes (nothing in /repo
	// calls RawNode.ReportSnapshot). That is a liveness matter outside C12, so
	// the director nudges a stalled slot with leader transfers.
	deadline := time.Now().Add(limit)
	nextNudge := time.Now().Add(3 * time.Second)
	nudge := 0
	for {
		if check() {
			return c12Quiesced{ok: true, commit: last}
		}
		now := time.Now()
		if now.After(deadline) {
			return c12Quiesced{ok: false, commit: last, detail: detail}
		}
		if now.After(nextNudge) {
			nextNudge = now.Add(3 * time.Second)
			nudge++
			for _, slot := range cl.slots {
				if !cl.converged(slot) {
					if ls := cl.leaders(slot); len(ls) > 0 {
						if inc := ls[0].cur.Load(); inc != nil {
							to := cl.nodes[nudge%len(cl.nodes)]
							_ = inc.rt.TransferLeadership(context.Background(), multiraft.SlotID(slot), to.id)
							cl.r.Count("quiesce.nudge_leader_transfer", 1)
						}
					}
				}
			}
		}
		time.Sleep(15 * time.Millisecond)
	}
}

func (cl *c12Cluster) converged(slot uint64) bool {
	var commit uint64
	for i, nd := range cl.nodes {
		st, ok := cl.status(nd, slot)
		if !ok {
			return false
		}
		if i == 0 {
			commit = st.CommitIndex
		}
		if st.CommitIndex != commit || st.AppliedIndex != commit {
			return false
		}
	}
	return true
}

// finalCheck: with every replica at commit==applied==Q, every replica holds
// every command applied anywhere at an index <= Q, and every acknowledged
// proposal is at its acknowledged index on every replica.
func (cl *c12Cluster) finalCheck(q c12Quiesced) {
	m := cl.mon
	m.mu.Lock()
	defer m.mu.Unlock()
	reported := 0
	for _, slot := range cl.slots {
		Q := q.commit[slot]
		for _, nd := range cl.nodes {
			inc := nd.cur.Load()
			if inc == nil {
				continue
			}
			sm := inc.sms[slot]
			sm.mu.Lock()
			for i, rec := range m.canon[slot] {
				if i > Q {
					continue
				}
				m.r.Eval(1)
				got, ok := sm.disk.list[i]
				if !ok && reported < 5 {
					reported++
					m.violation("final-replica-lacks-applied-command", map[string]any{"at": sm.where(), "final_commit": Q, "index": i, "applied_elsewhere": rec})
				} else if ok && (got.Body != rec.Body || got.Term != rec.Term) && reported < 5 {
					reported++
					m.violation("final-replica-differs-at-index", map[string]any{"at": sm.where(), "final_commit": Q, "index": i, "this": got, "other": rec})
				}
			}
			sm.mu.Unlock()
		}
	}
	for _, a := range m.acks {
		if a.flagged {
			// already reported online with a more specific signature
			m.r.Count("final.acks_skipped_already_flagged", 1)
			continue
		}
		m.r.Eval(1)
		Q := q.commit[a.Slot]
		if a.Index > Q {
			if reported < 8 {
				reported++
				m.violation("acknowledged-write-beyond-final-commit", map[string]any{"ack": a, "final_commit": Q})
			}
			continue
		}
		for _, nd := range cl.nodes {
			inc := nd.cur.Load()
			if inc == nil {
				continue
			}
			sm := inc.sms[a.Slot]
			sm.mu.Lock()
			got, ok := sm.disk.list[a.Index]
			sm.mu.Unlock()
			if (!ok || got.Body != a.Body) && reported < 8 {
				reported++
				m.violation("acknowledged-write-lost", map[string]any{"ack": a, "replica": uint64(nd.id), "replica_has_at_index": got, "final_commit": Q})
			}
		}
	}
}

// ---------------------------------------------------------------------------

// c12NewCluster builds the nodes (not yet started) and the teardown function.
func c12NewCluster(t *testing.T, r *verifkit.Run, caseIdx int, cfgp *c12Cfg) (*c12Cluster, func()) {
	cfg := *cfgp
	dir := t.TempDir()
	mon := c12NewMonitor(r)
	cl := &c12Cluster{r: r, mon: mon, cfg: cfgp, obs: &c12Observer{}, out: map[string]int{}}
	cl.net = c12NewNet(r, r.Rand(12, uint64(caseIdx), 1))
	cl.net.setFaults(cfg.base)
	cl.ctx, cl.cancel = context.WithCancel(context.Background())
	for s := 0; s < cfg.slots; s++ {
		cl.slots = append(cl.slots, uint64(11+s*7))
	}
	for i := 1; i <= cfg.nodes; i++ {
		id := multiraft.NodeID(i)
		cl.voters = append(cl.voters, id)
		nd := &c12Node{id: id, cfg: cfgp, cl: cl, disks: map[uint64]*c12Disk{}, logs: map[uint64]*c12Log{},
			rng: r.Rand(12, uint64(caseIdx), 100+uint64(i))}
		if cfg.memMode {
			nd.fs = vfs.NewCrashableMem()
			nd.dbPath = fmt.Sprintf("/c12/n%d/raftlog", i)
		} else {
			nd.dbPath = filepath.Join(dir, fmt.Sprintf("n%d", i), "raftlog")
		}
		nd.snapPath = filepath.Join(dir, fmt.Sprintf("n%d", i), "snapshots")
		for _, s := range cl.slots {
			nd.disks[s] = &c12Disk{list: map[uint64]c12Rec{}}
			nd.logs[s] = &c12Log{ents: map[uint64]c12LogEnt{}, bodies: map[string][2]uint64{}}
		}
		cl.nodes = append(cl.nodes, nd)
		cl.net.nodes[id] = nd
	}

	teardown := func() {
		cl.stopCli.Store(true)
		cl.cancel()
		cl.clients.Wait()
		cl.waiters.Wait()
		cl.net.close()
		for _, nd := range cl.nodes {
			nd.stop("clean", 0, nil)
		}
		cl.net.flushCounters()
		cl.outMu.Lock()
		for k, v := range cl.out {
			r.Count(k, v)
		}
		cl.outMu.Unlock()
	}

	return cl, teardown
}

func c12RunCase(t *testing.T, r *verifkit.Run, caseIdx int) {
	rng := r.Rand(12, uint64(caseIdx))
	cfg, evs := c12GenCase(rng, r.Thorough())
	kinds := make([]string, len(evs))
	for i, e := range evs {
		kinds[i] = e.kind
		if e.kind == "crash" {
			kinds[i] += ":" + e.crash
		}
	}
	r.BeginCase(caseIdx, cfg.String()+" | "+strings.Join(kinds, ","))

	cl, teardown := c12NewCluster(t, r, caseIdx, &cfg)
	defer teardown()
	mon := cl.mon

	for _, nd := range cl.nodes {
		if !nd.start(true) {
			r.Inconclusive(fmt.Sprintf("case %d: bootstrap failed", caseIdx))
			return
		}
	}
	if !c12Poll(60*time.Second, func() bool {
		for _, s := range cl.slots {
			if len(cl.leaders(s)) == 0 {
				return false
			}
		}
		return true
	}) {
		r.Inconclusive(fmt.Sprintf("case %d: no initial leaders within watchdog", caseIdx))
		return
	}

	for c := 0; c < cfg.clients; c++ {
		cl.clients.Add(1)
		go cl.client(c, r.Rand(12, uint64(caseIdx), 1000+uint64(c)))
	}
	time.Sleep(150 * time.Millisecond)

	var labels []string
	evRng := r.Rand(12, uint64(caseIdx), 2)
	for _, e := range evs {
		label := cl.runEvent(e, evRng)
		labels = append(labels, label)
		r.Count("event."+strings.TrimRight(label, "0123456789"), 1)
		time.Sleep(e.pause)
	}

	// heal, calm the network, make sure everybody is up, let clients finish
	cl.net.heal()
	cl.net.setFaults(c12Faults{})
	cl.burstUntil.Store(0)
	time.Sleep(200 * time.Millisecond)
	cl.stopCli.Store(true)
	cl.clients.Wait()

	var q c12Quiesced
	nodeDown := false
	for _, nd := range cl.nodes {
		if nd.cur.Load() == nil {
			nodeDown = true
		}
	}
	if nodeDown {
		// a restart failed (already reported by start()); nothing to quiesce on
		q = c12Quiesced{detail: "a node could not be restarted"}
		r.Count("cases.aborted_restart_failed", 1)
	} else {
		q = cl.quiesce(120 * time.Second)
	}
	cl.cancel()
	cl.waiters.Wait()

	mon.mu.Lock()
	applied, applies, acks := mon.applied, mon.applies, len(mon.acks)
	snaps, rin, ropen, reap, gapu := mon.snapSaves, mon.restoresInflight, mon.restoresOpen, mon.reapplyNonDurable, mon.gapUnknown
	mon.mu.Unlock()
	leaderChanges := int(cl.obs.leaderChanges.Load())
	crashes := 0
	for _, l := range labels {
		if strings.HasPrefix(l, "crash-") {
			crashes++
		}
	}
	r.Count("applied.distinct_slot_index", applied)
	r.Count("applied.events_all_replicas", applies)
	r.Count("acks", acks)
	r.Count("snapshot.saved", snaps)
	r.Count("snapshot.restore_inflight(transfer)", rin)
	r.Count("snapshot.restore_at_open", ropen)
	r.Count("reapply_after_kill_nondurable_sm(by design)", reap)
	r.Count("gap_index_not_seen_by_storage_wrapper", gapu)
	r.Count("leader_changes_observed", leaderChanges)
	r.Max("max_applied_per_case", applied)
	r.Count("cases", 1)
	if cfg.maxApplying > 0 && cfg.maxApplying <= 4 {
		r.Count("cases.max_applying_tasks_le_4", 1)
	}
	if cfg.maxApplying > 0 {
		r.Count(fmt.Sprintf("cases.max_applying_tasks=%d", cfg.maxApplying), 1)
	}

	mon.mu.Lock()
	if len(mon.saveErrs) > 0 {
		r.Note(fmt.Sprintf("case%d.save_errors", caseIdx), mon.saveErrs)
	}
	mon.mu.Unlock()
	if nodeDown {
		// verdict comes from the restart violation
	} else if !q.ok {
		r.Count("cases.quiesce_timeout", 1)
		r.Inconclusive(fmt.Sprintf("case %d: cluster did not quiesce within watchdog (%s)", caseIdx, q.detail))
		r.Note(fmt.Sprintf("case%d.quiesce_dump", caseIdx), cl.dump())
	} else {
		cl.finalCheck(q)
		r.Count("cases.final_check_done", 1)
	}

	nontrivial := leaderChanges >= 1 && (snaps >= 1 || rin >= 1) && crashes >= 1 && applied >= 50 && q.ok
	if nontrivial {
		r.Nontrivial(cfg.String() + "|" + strings.Join(labels, ","))
	}
	if r.WantSample() {
		r.Sample(map[string]any{"case": caseIdx, "cfg": cfg.String(), "events": labels, "applied": applied, "acks": acks,
			"leader_changes": leaderChanges, "snapshots_saved": snaps, "snapshot_transfers": rin, "restores_at_open": ropen,
			"final_commit": q.commit, "nontrivial": nontrivial})
	}
}

// dump collects the raft status of every replica (diagnostics for inconclusive cases).
func (cl *c12Cluster) dump() any {
	out := map[string]any{}
	for _, slot := range cl.slots {
		for _, nd := range cl.nodes {
			key := fmt.Sprintf("slot%d.node%d", slot, nd.id)
			inc := nd.cur.Load()
			if inc == nil {
				out[key] = "down"
				continue
			}
			ctx, cancel := context.WithTimeout(context.Background(), 2*time.Second)
			st, err := inc.rt.FreshStatus(ctx, multiraft.SlotID(slot))
			cancel()
			if err != nil {
				st2, err2 := inc.rt.Status(multiraft.SlotID(slot))
				out[key] = fmt.Sprintf("fresh status error: %v; cached: %+v err=%v", err, st2, err2)
				continue
			}
			sm := inc.sms[slot]
			sm.mu.Lock()
			hist := append([]string(nil), sm.hist...)
			sm.mu.Unlock()
			if len(hist) > 8 {
				hist = hist[len(hist)-8:]
			}
			out[key] = map[string]any{"inc": inc.no, "role": st.Role, "leader": st.LeaderID, "term": st.Term, "commit": st.CommitIndex, "applied": st.AppliedIndex,
				"progress": fmt.Sprintf("%+v", st.Progress), "sm_tail": hist}
		}
	}
	cl.mon.mu.Lock()
	out["save_errors"] = cl.mon.saveErrs
	cl.mon.mu.Unlock()
	return out
}

func TestVerifC12(t *testing.T) {
	r := verifkit.Start(t, "C12", "main")
	defer r.Finish()
	r.SetRule("Each case = one cluster schedule drawn from the case PRNG: 3 (quick) or 3/5 (thorough) multiraft runtimes x 2-4 slots, raftlog/Pebble storage (real tmpfs dir or CrashableMem), random raft options, 3-5 clients proposing unique commands, and 9-18 director events (partition, one-way block, leader isolation, heal, leader transfer, CompactLog, crash-restart clean/kill/power-loss of a minority, fault-level change, burst, apply-gate); in ~2/3 of the cases MaxApplyingTasks is 1/2/4/16 with a slow, bursty state machine so the apply backpressure fallback runs over a drop/dup/delay network. Non-trivial = >=1 observed leader change, >=1 snapshot saved or transferred, >=1 crash-restart, >=50 distinct applied commands and the final quiesced comparison was performed; distinct by (configuration, performed event sequence).")
	r.Assume("A process crash is modelled as an atomic cut of one node: its raftlog Pebble image (CrashClone), its state machine's durable list and its network endpoint are cut under one lock that Storage.Save/MarkApplied, StateMachine.Apply and Transport.Send hold shared; i.e. crashes happen between, not inside, those calls (Pebble batch atomicity itself is trusted).")
	r.Assume("The recording state machine makes each applied batch durable before Apply returns (production FSM shape: data + applied index in one synced batch). The non-durable variant may be re-applied after a kill (Storage.MarkApplied trails Apply by design); that is counted, not flagged.")
	r.Assume("Empty and membership entries are not delivered to the state machine; index continuity is checked against the entry kinds the node itself persisted through Storage.Save.")

	n := r.N(11, 95)
	// Wall-clock watchdog only: stop early (inconclusive) rather than let the
	// runner kill the unit and lose the observations made so far.
	budget := time.Duration(r.N(700, 3000)) * time.Second
	started := time.Now()
	for i := 0; i < n; i++ {
		if r.Skip(i) {
			continue
		}
		if time.Since(started) > budget {
			r.Inconclusive(fmt.Sprintf("wall-clock budget exhausted before case %d of %d", i, n))
			break
		}
		c12RunCase(t, r, i)
	}
	// Case n: directed schedule reduced from a violation the random search
	// found (see c12_directed_test.go). Same oracle, crafted schedule.
	if !r.Skip(n) {
		c12RunDirectedStaleLeader(t, r, n)
	}
}
