//go:build verif

package c13_test

// Two further C13 units:
//
// malformed — commands that must be refused: hash slots the slot does not own
// (envelope, per-item hash slots of multi-hash-slot commands, wrong slot id,
// delta/envelope mismatch) and malformed payloads (truncated TLVs, oversize
// lengths, unknown tags/types/versions, bit flips, random bytes, valid header +
// garbage, nested deltas), applied alone and inside a batch between two valid
// commands. Oracle: no panic; an unowned-hash-slot command is always refused;
// a refused command/batch leaves Snapshot(), the raw export of ALL hash slots
// and the applied index unchanged; the next valid batch still applies. (Decode
// and ownership checks run while the batch is staged, before anything is
// committed, so "whole batch refused, nothing changed" is what ApplyBatch
// promises for them.) A damaged payload that still decodes is not an error
// case: it is counted and the baseline is re-read.
//
// crash — applied index is part of the same atomic write as the state: the log
// runs over vfs.CrashableMem behind a file-system wrapper that takes Pebble
// crash images (process kill = 100% of unsynced data kept, power loss = 0%,
// torn = 50%) at every WAL sync. Every image is opened and must show exactly
// the reference state for the applied index it reports:
// Snapshot(image) == A's Snapshot after the command with index
// DurableAppliedIndex(image). Anything else means a restart would re-apply or
// lose commands.

import (
	"crypto/sha256"
	"encoding/binary"
	"fmt"
	"math/rand/v2"
	"strings"
	"sync"
	"testing"

	metadb "github.com/WuKongIM/WuKongIM/pkg/db/meta"
	"github.com/WuKongIM/WuKongIM/pkg/slot/fsm"
	"github.com/WuKongIM/WuKongIM/pkg/slot/multiraft"
	"github.com/WuKongIM/WuKongIM/pkg/verifkit"
	"github.com/cockroachdb/pebble/v2/vfs"
)

// ---------------------------------------------------------------------------
// malformed / unowned

type c13Bad struct {
	Kind    string // stable class name
	Unowned bool   // must always be refused
	Cmd     c13Cmd
	SlotID  uint64 // 0 = the slot under test
}

type c13TLV struct{ off, length int }

func c13ParseTLVs(data []byte) []c13TLV {
	var out []c13TLV
	off := 2
	for off+5 <= len(data) {
		l := int(binary.BigEndian.Uint32(data[off+1:]))
		if off+5+l > len(data) {
			break
		}
		out = append(out, c13TLV{off: off, length: l})
		off += 5 + l
	}
	return out
}

func c13Damage(rng *rand.Rand, sample c13Cmd) c13Bad {
	data := append([]byte(nil), sample.Data...)
	bad := c13Bad{Cmd: sample}
	randBytes := func(n int) []byte {
		b := make([]byte, n)
		for i := range b {
			b[i] = byte(rng.IntN(256))
		}
		return b
	}
	switch rng.IntN(13) {
	case 0:
		bad.Kind = "truncated"
		if len(data) > 1 {
			data = data[:1+rng.IntN(len(data)-1)]
		}
	case 1:
		bad.Kind = "truncated-inside-tlv-header"
		if tl := c13ParseTLVs(data); len(tl) > 0 {
			t := tl[rng.IntN(len(tl))]
			data = data[:t.off+1+rng.IntN(4)]
		} else {
			data = data[:len(data)/2]
		}
	case 2:
		bad.Kind = "oversize-length"
		if tl := c13ParseTLVs(data); len(tl) > 0 {
			t := tl[rng.IntN(len(tl))]
			v := []uint32{0xFFFFFFFF, 0x7FFFFFFF, 0x80000000, uint32(t.length + 1), uint32(len(data))}[rng.IntN(5)]
			binary.BigEndian.PutUint32(data[t.off+1:], v)
		} else {
			data = append(data, 1, 0xFF, 0xFF, 0xFF, 0xFF)
		}
	case 3:
		bad.Kind = "undersize-length"
		if tl := c13ParseTLVs(data); len(tl) > 0 {
			t := tl[rng.IntN(len(tl))]
			if t.length > 0 {
				binary.BigEndian.PutUint32(data[t.off+1:], uint32(rng.IntN(t.length)))
			}
		}
	case 4:
		bad.Kind = "unknown-tag-appended"
		v := randBytes(rng.IntN(6))
		data = append(data, byte(200+rng.IntN(50)))
		data = binary.BigEndian.AppendUint32(data, uint32(len(v)))
		data = append(data, v...)
	case 5:
		bad.Kind = "unknown-command-type"
		if len(data) > 1 {
			data[1] = []byte{0, 10, 16, 17, 18, 24, 58, 60, 99, 255}[rng.IntN(10)]
		}
	case 6:
		bad.Kind = "bad-version"
		if len(data) > 0 {
			data[0] = []byte{0, 2, 255}[rng.IntN(3)]
		}
	case 7:
		bad.Kind = "random-bytes"
		data = randBytes(rng.IntN(64))
	case 8:
		bad.Kind = "valid-header-then-garbage"
		if len(data) >= 2 {
			data = append(data[:2:2], randBytes(1+rng.IntN(40))...)
		}
	case 9:
		bad.Kind = "empty-or-one-byte"
		data = data[:rng.IntN(2)]
	case 10:
		bad.Kind = "bit-flip"
		if len(data) > 0 {
			data[rng.IntN(len(data))] ^= 1 << rng.IntN(8)
		}
	case 11:
		bad.Kind = "delta-wrapping-garbage"
		inner := randBytes(rng.IntN(20))
		if rng.IntN(2) == 0 {
			inner = fsm.EncodeApplyDeltaCommand(multiraft.SlotID(c13PeerSlot), 3, sample.HashSlot, sample.Data) // nested delta
		}
		data = fsm.EncodeApplyDeltaCommand(multiraft.SlotID(c13PeerSlot), uint64(500+rng.IntN(1000)), sample.HashSlot, inner)
	default:
		bad.Kind = "duplicated-payload-field"
		if tl := c13ParseTLVs(data); len(tl) > 0 {
			t := tl[rng.IntN(len(tl))]
			data = append(data, data[t.off:t.off+5+t.length]...)
		}
	}
	bad.Cmd.Data = data
	bad.Cmd.Type = sample.Type
	return bad
}

func (g *c13Gen) genUnowned() c13Bad {
	notOwned := append(append([]uint16(nil), c13Unowned...), c13IncomingHS)
	un := notOwned[g.rng.IntN(len(notOwned))]
	switch g.rng.IntN(9) {
	case 0:
		c := g.channel()
		items := []fsm.ChannelLatestBatchItem{{HashSlot: c.HS, Latest: g.latest(c)}, {HashSlot: un, Latest: g.latest(g.channel())}}
		g.rng.Shuffle(len(items), func(i, j int) { items[i], items[j] = items[j], items[i] })
		return c13Bad{Kind: "unowned-item:upsert_channel_latest_batch", Unowned: true, Cmd: c13Cmd{HashSlot: c.HS, Data: fsm.EncodeUpsertChannelLatestBatchCommand(items), Type: "upsert_channel_latest_batch"}}
	case 1:
		c, o := g.chans[0], g.chans[1]
		items := []fsm.CreateChannelRuntimeMetaBatchItem{{HashSlot: c.HS, Meta: g.freshMeta(c)}, {HashSlot: un, Meta: g.freshMeta(o)}}
		data, err := fsm.EncodeCreateChannelRuntimeMetaBatchCommandChecked(items)
		if err != nil {
			break
		}
		return c13Bad{Kind: "unowned-item:create_runtime_meta_batch", Unowned: true, Cmd: c13Cmd{HashSlot: c.HS, Data: data, Type: "create_runtime_meta_batch"}}
	case 2:
		c, o := g.chans[3], g.chans[4]
		items := []fsm.PersonDirectoryAdmissionBatchItem{
			{HashSlot: c.HS, Task: metadb.PersonDirectoryTask{ChannelID: c.ID, ChannelType: 1, CreatedAt: g.tick()}, RuntimeMeta: g.freshMeta(c)},
			{HashSlot: un, Task: metadb.PersonDirectoryTask{ChannelID: o.ID, ChannelType: 1, CreatedAt: g.tick()}, RuntimeMeta: g.freshMeta(o)}}
		data, err := fsm.EncodeAdmitPersonDirectoryTaskBatchCommandChecked(items)
		if err != nil {
			break
		}
		return c13Bad{Kind: "unowned-item:admit_person_directory_batch", Unowned: true, Cmd: c13Cmd{HashSlot: c.HS, Data: data, Type: "admit_person_directory_batch"}}
	case 3:
		c := g.chans[3]
		items := []fsm.UserChannelMembershipBatchItem{
			{HashSlot: 1, Membership: metadb.UserChannelMembership{UID: "u1", ChannelID: c.ID, ChannelType: 1, SourceVersion: 1, UpdatedAt: g.tick()}},
			{HashSlot: un, Membership: metadb.UserChannelMembership{UID: "u2", ChannelID: c.ID, ChannelType: 1, SourceVersion: 1, UpdatedAt: g.tick()}}}
		data, err := fsm.EncodeEnsureUserChannelMembershipBatchCommandChecked(items)
		if err != nil {
			break
		}
		return c13Bad{Kind: "unowned-item:ensure_membership_batch", Unowned: true, Cmd: c13Cmd{HashSlot: 1, Data: data, Type: "ensure_membership_batch"}}
	case 4:
		c, o := g.chans[3], g.chans[4]
		items := []fsm.PersonDirectoryCompletionBatchItem{{HashSlot: c.HS, ChannelID: c.ID, ChannelType: 1, Generation: 1}, {HashSlot: un, ChannelID: o.ID, ChannelType: 1, Generation: 1}}
		data, err := fsm.EncodeCompletePersonDirectoryTaskBatchCommandChecked(items)
		if err != nil {
			break
		}
		return c13Bad{Kind: "unowned-item:complete_person_directory_batch", Unowned: true, Cmd: c13Cmd{HashSlot: c.HS, Data: data, Type: "complete_person_directory_batch"}}
	case 5:
		s := g.plainSample()
		return c13Bad{Kind: "wrong-slot-id", Unowned: true, Cmd: s, SlotID: c13PeerSlot}
	case 6:
		s := g.plainSample()
		hs := g.ownedHS()
		return c13Bad{Kind: "delta-envelope-hash-slot-mismatch", Unowned: true, Cmd: c13Cmd{HashSlot: hs, Data: fsm.EncodeApplyDeltaCommand(multiraft.SlotID(c13PeerSlot), uint64(900+g.rng.IntN(99)), hs+1, s.Data), Type: "apply_delta"}}
	}
	// plain command of any ordinary family addressed to a hash slot not owned
	s := g.plainSample()
	s.HashSlot = un
	return c13Bad{Kind: "unowned-envelope:" + s.Type, Unowned: true, Cmd: s}
}

// plainSample returns an ordinary (non-maintenance) command of a PRNG family.
// Hash-slot migration maintenance commands are excluded on purpose: ApplyDelta,
// EnterFence, Ack and Cleanup are accepted for hash slots that are not (yet /
// any longer) owned by design (resolveHashSlot).
func (g *c13Gen) plainSample() c13Cmd {
	for {
		var c c13Cmd
		switch g.rng.IntN(12) {
		case 0:
			c = g.genUser()
		case 1:
			c = g.genDevice()
		case 2:
			c = g.genChannel()
		case 3:
			c = g.genSubscribers()
		case 4:
			c = g.genMembership()
		case 5:
			c = g.genCMDMembership()
		case 6:
			c = g.genLatest()
		case 7:
			c = g.genEvent()
		case 8:
			c = g.genPlugin()
		case 9:
			c = g.genRuntimeMeta()
		case 10:
			c = g.genPersonDirectory()
		default:
			c = g.genChannelMigration()
		}
		if c.Type != "" {
			return c
		}
	}
}

func c13CommandsFor(entries []c13Entry, slots []uint64) []multiraft.Command {
	cmds := c13Commands(entries)
	for i := range cmds {
		if slots[i] != 0 {
			cmds[i].SlotID = multiraft.SlotID(slots[i])
		}
	}
	return cmds
}

type c13Fingerprint struct {
	snap [32]byte
	raw  [32]byte
	dur  uint64
}

func c13Observe(env *c13Env) (c13Fingerprint, error) {
	var f c13Fingerprint
	s, err := env.snapshot()
	if err != nil {
		return f, err
	}
	raw, err := env.rawAll()
	if err != nil {
		return f, err
	}
	d, err := env.durable()
	if err != nil {
		return f, err
	}
	f.snap, f.raw, f.dur = sha256.Sum256(s), sha256.Sum256(raw), d
	return f, nil
}

func TestVerifC13Malformed(t *testing.T) {
	kr := verifkit.Start(t, "C13", "malformed")
	defer kr.Finish()
	r := &c13Run{Run: kr}
	r.SetRule("Each case builds a PRNG base state (real slot FSM over the real meta DB), then applies ~36 commands that must be refused — unowned hash slots (envelope, per-item hash slot of the five multi-hash-slot command types, wrong slot id, delta/envelope mismatch) and damaged payloads (13 damage classes over samples of every command family) — alone and inside a batch between two valid commands, each followed by a valid batch. An evaluation is one ApplyBatch call. Non-trivial = a refused command whose batch variant was also exercised; distinct by (damage class or unowned kind, command type, refused/decoded).")
	r.Assume("Hash-slot migration maintenance commands (ApplyDelta, EnterFence, Ack, Cleanup) are accepted for hash slots the slot does not own by design (resolveHashSlot: incoming delta before ownership, delayed fence after ownership moved) and are therefore not used as 'must refuse' inputs.")

	nCases := r.N(40, 300)
	for i := 0; i < nCases; i++ {
		if r.Skip(i) {
			continue
		}
		rng := r.Rand(1313, uint64(i))
		fam := c13Family{ChMig: true, GC: true, SubAfterDelete: true, Cleanup: true, Outgoing: rng.IntN(2) == 0}
		r.BeginCase(i, fmt.Sprintf("malformed outgoing=%v", fam.Outgoing))
		env, err := c13NewEnv(vfs.NewMem(), fam)
		if err != nil {
			r.Inconclusive("env: " + err.Error())
			return
		}
		g := newC13Gen(rng, fam, &c13View{env: env})
		var index uint64
		nextEntry := func(c c13Cmd) c13Entry {
			index += uint64(1 + rng.IntN(2))
			return c13Entry{Index: index, Term: 1, Cmd: c}
		}
		apply := func(variant string, entries []c13Entry, slots []uint64) (err error, panicked bool) {
			if slots == nil {
				slots = make([]uint64, len(entries))
			}
			panicked = r.Guard("ApplyBatch:"+variant, c13BatchWitness(entries), func() { _, err = env.bsm.ApplyBatch(c13Ctx, c13CommandsFor(entries, slots)) })
			r.Eval(1)
			return
		}
		// base state
		for k := 0; k < 12+rng.IntN(20); k++ {
			if _, p := apply("base", []c13Entry{nextEntry(g.next(index + 1))}, nil); p {
				break
			}
		}
		valid := func() c13Entry {
			switch rng.IntN(3) {
			case 0:
				return nextEntry(g.genUser())
			case 1:
				return nextEntry(g.genDevice())
			default:
				return nextEntry(g.genPlugin())
			}
		}
		for k := 0; k < 36; k++ {
			var bad c13Bad
			if rng.IntN(3) == 0 {
				bad = g.genUnowned()
			} else {
				bad = c13Damage(rng, g.next(index+1))
			}
			base, oerr := c13Observe(env)
			if oerr != nil {
				r.Violation("observe-error", oerr.Error())
				break
			}
			wit := func(extra map[string]any) map[string]any {
				m := map[string]any{"kind": bad.Kind, "type": bad.Cmd.Type, "hash_slot": bad.Cmd.HashSlot, "slot_id_override": bad.SlotID, "data_hex": fmt.Sprintf("%x", bad.Cmd.Data)}
				for k, v := range extra {
					m[k] = v
				}
				return m
			}
			kindSig := bad.Kind
			if j := strings.IndexByte(kindSig, ':'); j >= 0 && strings.HasPrefix(kindSig, "unowned-envelope") {
				kindSig = kindSig[:j]
			}
			// (1) alone
			badEntry := nextEntry(bad.Cmd)
			aerr, panicked := apply("alone", []c13Entry{badEntry}, []uint64{bad.SlotID})
			if panicked {
				continue
			}
			after, _ := c13Observe(env)
			if aerr == nil {
				if bad.Unowned {
					r.Violation("unowned-hash-slot-command-accepted:"+kindSig, wit(nil))
				} else {
					r.Count("damaged_but_decodable."+bad.Kind, 1)
					r.Nontrivial(bad.Kind + "|" + bad.Cmd.Type + "|decoded")
				}
				continue
			}
			r.Count("refused."+kindSig+"."+c13ErrKind(aerr), 1)
			if after != base {
				r.Violation("refused-command-changed-state:"+kindSig, wit(map[string]any{"err": aerr.Error(), "snapshot_changed": after.snap != base.snap, "raw_export_changed": after.raw != base.raw, "durable_before": base.dur, "durable_after": after.dur}))
				continue
			}
			// (2) inside a batch between two valid commands
			v1 := valid()
			b2 := nextEntry(bad.Cmd)
			v2 := valid()
			berr, panicked := apply("in-batch", []c13Entry{v1, b2, v2}, []uint64{0, bad.SlotID, 0})
			if panicked {
				continue
			}
			after, _ = c13Observe(env)
			if berr == nil {
				r.Violation("refused-alone-but-accepted-in-batch:"+kindSig, wit(map[string]any{"alone_err": aerr.Error()}))
				continue
			}
			if after != base {
				r.Violation("refused-batch-changed-state:"+kindSig, wit(map[string]any{"err": berr.Error(), "snapshot_changed": after.snap != base.snap, "raw_export_changed": after.raw != base.raw, "durable_before": base.dur, "durable_after": after.dur}))
				continue
			}
			// (3) the next valid batch still applies
			n1, n2 := valid(), valid()
			verr, panicked := apply("after", []c13Entry{n1, n2}, nil)
			if panicked {
				continue
			}
			after, _ = c13Observe(env)
			if verr != nil || after.dur != n2.Index {
				r.Violation("valid-batch-fails-after-refusal:"+kindSig, wit(map[string]any{"err": fmt.Sprint(verr), "durable": after.dur, "want_durable": n2.Index}))
				continue
			}
			r.Nontrivial(bad.Kind + "|" + bad.Cmd.Type + "|refused")
		}
		env.close()
		if r.NumViolations() > 30 {
			break
		}
	}
}

// ---------------------------------------------------------------------------
// crash images

type c13HookFS struct {
	vfs.FS
	hook func(name, kind string)
}

func (f *c13HookFS) Unwrap() vfs.FS { return f.FS }

func (f *c13HookFS) wrap(name string, file vfs.File, err error) (vfs.File, error) {
	if err != nil || file == nil || !strings.HasSuffix(name, ".log") {
		return file, err
	}
	return &c13HookFile{File: file, fs: f, name: name}, nil
}

func (f *c13HookFS) Create(name string, cat vfs.DiskWriteCategory) (vfs.File, error) {
	file, err := f.FS.Create(name, cat)
	return f.wrap(name, file, err)
}

func (f *c13HookFS) ReuseForWrite(oldname, newname string, cat vfs.DiskWriteCategory) (vfs.File, error) {
	file, err := f.FS.ReuseForWrite(oldname, newname, cat)
	return f.wrap(newname, file, err)
}

func (f *c13HookFS) OpenReadWrite(name string, cat vfs.DiskWriteCategory, opts ...vfs.OpenOption) (vfs.File, error) {
	file, err := f.FS.OpenReadWrite(name, cat, opts...)
	return f.wrap(name, file, err)
}

type c13HookFile struct {
	vfs.File
	fs   *c13HookFS
	name string
}

func (f *c13HookFile) Sync() error {
	f.fs.hook(f.name, "before-sync")
	err := f.File.Sync()
	f.fs.hook(f.name, "after-sync")
	return err
}

func (f *c13HookFile) SyncData() error {
	f.fs.hook(f.name, "before-sync")
	err := f.File.SyncData()
	f.fs.hook(f.name, "after-sync")
	return err
}

func (f *c13HookFile) SyncTo(length int64) (bool, error) {
	f.fs.hook(f.name, "before-sync")
	full, err := f.File.SyncTo(length)
	f.fs.hook(f.name, "after-sync")
	return full, err
}

type c13Image struct {
	fs   *vfs.MemFS
	pct  int
	when string
}

func TestVerifC13Crash(t *testing.T) {
	kr := verifkit.Start(t, "C13", "crash")
	defer kr.Finish()
	r := &c13Run{Run: kr}
	r.SetRule("Each case replays one PRNG command log (see unit main) in PRNG batches over vfs.CrashableMem; a wrapper takes a Pebble crash image before and after every WAL sync (process-kill 100%, power-loss 0% and torn 50% of unsynced data, in rotation). An evaluation is one opened image: Snapshot(image) must equal the one-by-one reference state after the command whose index is DurableAppliedIndex(image). Non-trivial = image whose applied index is neither 0 nor the last index; distinct by (log fingerprint, image applied index, unsynced percentage).")
	r.Assume("vfs.CrashableMem/CrashClone is a faithful model of what survives a process kill (100%) or a power loss (0%/50% of unsynced blocks); Pebble's own WAL recovery is trusted.")

	nCases := r.N(12, 100)
	for i := 0; i < nCases; i++ {
		if r.Skip(i) {
			continue
		}
		rng := r.Rand(131313, uint64(i))
		fam, famName := c13FamilyFor(i, rng)
		n := 30 + rng.IntN(60)
		r.BeginCase(i, fmt.Sprintf("crash family=%s n=%d", famName, n))
		ref := c13RunReference(r, rng, fam, n, map[int]bool{}, map[int]bool{})
		if ref == nil {
			continue
		}
		ref.caseIdx = i
		n = len(ref.entries)
		logFP := c13LogFingerprint(ref)
		pos := map[uint64]int{}
		for k, en := range ref.entries {
			pos[en.Index] = k
		}

		base := vfs.NewCrashableMem()
		var mu sync.Mutex
		var images []c13Image
		imgRng := rand.New(rand.NewPCG(rng.Uint64(), rng.Uint64()))
		enabled := false
		syncs := 0
		hook := func(name, kind string) {
			mu.Lock()
			defer mu.Unlock()
			if !enabled {
				return
			}
			syncs++
			if len(images) >= 90 {
				return
			}
			pct := []int{100, 0, 50}[len(images)%3]
			img := base.CrashClone(vfs.CrashCloneCfg{UnsyncedDataPercent: pct, RNG: rand.New(rand.NewPCG(imgRng.Uint64(), imgRng.Uint64()))})
			images = append(images, c13Image{fs: img, pct: pct, when: kind})
		}
		env, err := c13NewEnv(&c13HookFS{FS: base, hook: hook}, fam)
		if err != nil {
			r.Inconclusive("crash env: " + err.Error())
			continue
		}
		mu.Lock()
		enabled = true
		mu.Unlock()
		sizes := c13Partition(rng, n)
		lo, ok := 0, true
		for _, s := range sizes {
			if ok, _ = c13CheckBatch(r, "K:family-"+famName, ref, env, lo, lo+s); !ok {
				break
			}
			lo += s
		}
		mu.Lock()
		enabled = false
		taken := images
		mu.Unlock()
		env.close()
		if !ok {
			// the run itself already diverged from the reference (reported by the
			// batch check); its images cannot be judged against the reference.
			r.Count("image_sets_skipped_after_divergence", 1)
			continue
		}
		r.Count("wal_sync_hooks", syncs)
		r.Count("images_taken", len(taken))
		lastIndex := ref.entries[n-1].Index
		for _, img := range taken {
			ienv, err := c13NewEnvAt(img.fs, env.root, fam)
			r.Eval(1)
			if err != nil {
				r.Violation("crash-image-unopenable", map[string]any{"case": i, "pct": img.pct, "when": img.when, "err": err.Error()})
				continue
			}
			d, derr := ienv.durable()
			h, herr := ienv.snapHash()
			ienv.close()
			if derr != nil || herr != nil {
				r.Violation("crash-image-unreadable", map[string]any{"case": i, "pct": img.pct, "err": fmt.Sprint(derr, herr)})
				continue
			}
			r.Count(fmt.Sprintf("images_checked.pct%d.%s", img.pct, img.when), 1)
			want := ref.empty
			if d != 0 {
				k, known := pos[d]
				if !known {
					r.Violation("crash-image-applied-index-unknown", map[string]any{"case": i, "pct": img.pct, "durable": d})
					continue
				}
				want = ref.hash[k]
			}
			if h != want {
				r.Violation(fmt.Sprintf("crash-image-state-not-at-applied-index:pct%d:family-%s", img.pct, famName), map[string]any{"case": i, "pct": img.pct, "when": img.when, "durable": d, "partition": c13Shape(sizes)})
				continue
			}
			if d != 0 && d != lastIndex {
				r.Nontrivial(fmt.Sprintf("%s|%d|%d", logFP, d, img.pct))
			}
		}
		if r.NumViolations() > 30 {
			break
		}
	}
}
