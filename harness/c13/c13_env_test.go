//go:build verif

package c13_test

// Environment plumbing for C13: one meta DB (Pebble on an in-memory
// vfs.MemFS installed through the verif-tagged engine.SetVerifFS seam) plus one
// real slot state machine, the read-only view used by the generator, and the
// dump helpers used by the oracles.

import (
	"context"
	"crypto/sha256"
	"encoding/json"
	"errors"
	"fmt"
	"sort"
	"sync"
	"time"

	"github.com/WuKongIM/WuKongIM/pkg/db/internal/engine"
	metadb "github.com/WuKongIM/WuKongIM/pkg/db/meta"
	"github.com/WuKongIM/WuKongIM/pkg/slot/fsm"
	"github.com/WuKongIM/WuKongIM/pkg/slot/multiraft"
	"github.com/cockroachdb/pebble/v2/vfs"
)

var c13Ctx = context.Background()

var c13FSOnce sync.Once

// c13OpenDB opens a meta DB on fs under the given router root.
func c13OpenDB(fs vfs.FS, root string) (*metadb.DB, error) {
	c13FSOnce.Do(func() { engine.SetVerifFS(func() vfs.FS { return c13Mux{} }) })
	c13Roots.Store(root, fs)
	return metadb.Open(c13RootPrefix + root + "/meta")
}

type c13Tuner interface {
	UpdateIncomingDeltaHashSlots([]uint16)
	UpdateOutgoingDeltaTargets(map[uint16]multiraft.SlotID)
}

type c13Env struct {
	fs   vfs.FS
	root string // router root; a crash image keeps the root of its origin
	fam  c13Family
	db   *metadb.DB
	sm   multiraft.StateMachine
	bsm  multiraft.BatchStateMachine
	dsm  multiraft.DurableAppliedStateMachine
}

func c13NewEnv(fs vfs.FS, fam c13Family) (*c13Env, error) {
	return c13NewEnvAt(fs, c13NewRoot(), fam)
}

// c13NewEnvAt opens fs under an existing root (crash images of that root).
// No two simultaneously open environments may share a root.
func c13NewEnvAt(fs vfs.FS, root string, fam c13Family) (*c13Env, error) {
	e := &c13Env{fs: fs, root: root, fam: fam}
	if err := e.open(); err != nil {
		return nil, err
	}
	return e, nil
}

// c13Timing accumulates wall-clock microseconds per phase, for the evidence
// file only (cost accounting); no oracle reads it.
var (
	c13TimingMu sync.Mutex
	c13Timing   = map[string]int64{}
)

func c13Timed(name string, start time.Time) {
	c13TimingMu.Lock()
	c13Timing[name+"_us"] += time.Since(start).Microseconds()
	c13Timing[name+"_n"]++
	c13TimingMu.Unlock()
}

func (e *c13Env) open() error {
	defer c13Timed("open", time.Now())
	db, err := c13OpenDB(e.fs, e.root)
	if err != nil {
		return fmt.Errorf("meta open: %w", err)
	}
	sm, err := fsm.NewStateMachineWithHashSlots(db, c13Slot, c13Owned)
	if err != nil {
		_ = db.Close()
		return fmt.Errorf("new state machine: %w", err)
	}
	bsm, ok1 := sm.(multiraft.BatchStateMachine)
	dsm, ok2 := sm.(multiraft.DurableAppliedStateMachine)
	tuner, ok3 := sm.(c13Tuner)
	if !ok1 || !ok2 || !ok3 {
		_ = db.Close()
		return errors.New("state machine lacks batch/durable/tuning interfaces")
	}
	// runtime routing facts the Slot runtime derives from the cluster hash-slot
	// table; identical for every variant of one log.
	tuner.UpdateIncomingDeltaHashSlots([]uint16{c13IncomingHS})
	if e.fam.Outgoing {
		tuner.UpdateOutgoingDeltaTargets(map[uint16]multiraft.SlotID{c13OutgoingHS: multiraft.SlotID(c13PeerSlot)})
	}
	e.db, e.sm, e.bsm, e.dsm = db, sm, bsm, dsm
	return nil
}

func (e *c13Env) close() {
	defer c13Timed("close", time.Now())
	if e != nil && e.db != nil {
		_ = e.db.Close()
		e.db = nil
	}
}

func (e *c13Env) reopen() error {
	e.close()
	return e.open()
}

type c13Entry struct {
	Index uint64
	Term  uint64
	Cmd   c13Cmd
}

func c13Commands(entries []c13Entry) []multiraft.Command {
	out := make([]multiraft.Command, 0, len(entries))
	for _, en := range entries {
		out = append(out, multiraft.Command{SlotID: multiraft.SlotID(c13Slot), HashSlot: en.Cmd.HashSlot, Index: en.Index, Term: en.Term, Data: en.Cmd.Data})
	}
	return out
}

func (e *c13Env) snapshot() ([]byte, error) {
	defer c13Timed("snapshot", time.Now())
	snap, err := e.sm.Snapshot(c13Ctx)
	if err != nil {
		return nil, err
	}
	return snap.Data, nil
}

func (e *c13Env) snapHash() ([32]byte, error) {
	b, err := e.snapshot()
	if err != nil {
		return [32]byte{}, err
	}
	return sha256.Sum256(b), nil
}

// rawAll exports the raw key/value content of every hash slot of the tiny key
// space, owned or not (an unowned hash slot must stay empty).
func (e *c13Env) rawAll() ([]byte, error) {
	snap, err := e.db.ExportHashSlotSnapshot(c13Ctx, c13AllHS)
	if err != nil {
		return nil, err
	}
	return snap.Data, nil
}

func (e *c13Env) durable() (uint64, error) { return e.dsm.DurableAppliedIndex(c13Ctx) }

var c13Tables = []string{"user", "device", "channel", "channel_runtime_meta", "subscriber", "user_channel_membership", "user_cmd_channel_membership", "person_directory_task", "channel_latest", "message_event_state", "message_event_cursor", "message_event_applied", "plugin_binding", "channel_migration", "hashslot_migration"}

// inspect returns the decoded rows of every registered table per hash slot
// (independent decode path from the raw export).
func (e *c13Env) inspect() (map[string]string, int, error) {
	out := map[string]string{}
	rows := 0
	for _, table := range c13Tables {
		var all []any
		var after *metadb.InspectCursor
		for {
			res, err := metadb.InspectScan(c13Ctx, e.db.MetaDB(), metadb.InspectScanRequest{Table: table, HashSlotCount: uint16(len(c13AllHS)), After: after, Limit: 400})
			if err != nil {
				return nil, 0, fmt.Errorf("inspect %s: %w", table, err)
			}
			for _, row := range res.Rows {
				all = append(all, row)
			}
			if res.Done || res.Next == nil {
				break
			}
			after = res.Next
		}
		rows += len(all)
		b, err := json.Marshal(all)
		if err != nil {
			return nil, 0, err
		}
		out[table] = string(b)
	}
	return out, rows, nil
}

type c13Dump struct {
	Snap   []byte
	Raw    []byte
	Tables map[string]string
	Rows   int
	Dur    uint64
}

func (e *c13Env) dump() (*c13Dump, error) {
	defer c13Timed("dump", time.Now())
	snap, err := e.snapshot()
	if err != nil {
		return nil, fmt.Errorf("snapshot: %w", err)
	}
	raw, err := e.rawAll()
	if err != nil {
		return nil, fmt.Errorf("raw export: %w", err)
	}
	tables, rows, err := e.inspect()
	if err != nil {
		return nil, err
	}
	dur, err := e.durable()
	if err != nil {
		return nil, fmt.Errorf("durable index: %w", err)
	}
	return &c13Dump{Snap: snap, Raw: raw, Tables: tables, Rows: rows, Dur: dur}, nil
}

// c13DiffDump names where two dumps differ ("" when equal). The applied index
// is compared separately by the callers (see the durable-index rule).
func c13DiffDump(a, b *c13Dump) (where string, detail map[string]any) {
	var tables []string
	for name := range a.Tables {
		if a.Tables[name] != b.Tables[name] {
			tables = append(tables, name)
		}
	}
	sort.Strings(tables)
	if len(tables) > 0 {
		return "table:" + tables[0], map[string]any{"tables": tables, "reference": a.Tables[tables[0]], "variant": b.Tables[tables[0]]}
	}
	if string(a.Snap) != string(b.Snap) {
		return "snapshot-bytes", map[string]any{"len_reference": len(a.Snap), "len_variant": len(b.Snap)}
	}
	if string(a.Raw) != string(b.Raw) {
		return "raw-export", map[string]any{"len_reference": len(a.Raw), "len_variant": len(b.Raw)}
	}
	return "", nil
}

// ---- generator view --------------------------------------------------------------------

type c13View struct{ env *c13Env }

func (v *c13View) channel(c c13Chan) (metadb.Channel, bool) {
	ch, err := v.env.db.ForHashSlot(c.HS).GetChannel(c13Ctx, c.ID, c.Type)
	return ch, err == nil
}

func (v *c13View) runtimeMeta(c c13Chan) (metadb.ChannelRuntimeMeta, bool) {
	m, err := v.env.db.ForHashSlot(c.HS).GetChannelRuntimeMeta(c13Ctx, c.ID, c.Type)
	return m, err == nil
}

func (v *c13View) activeTask(c c13Chan) (metadb.ChannelMigrationTask, bool) {
	t, ok, err := v.env.db.ForHashSlot(c.HS).GetActiveChannelMigrationTask(c13Ctx, c.ID, c.Type)
	return t, ok && err == nil
}

func (v *c13View) migState(hs uint16) (metadb.HashSlotMigrationState, bool) {
	st, err := v.env.db.LoadHashSlotMigrationState(c13Ctx, hs)
	return st, err == nil
}
