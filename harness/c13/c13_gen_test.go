//go:build verif

package c13_test

// Command-log generator for C13. The log is generated ONLINE while variant A
// (one command per ApplyBatch) runs: like the real proposers, the generator
// observes A's committed metadata (runtime meta, migration task, hash-slot
// migration state) to build guarded commands, then perturbs the guards or the
// payload with some probability and re-emits older commands so stale,
// conflicting and duplicate deliveries occur. Everything is a pure function of
// the PRNG and of A's (deterministic) behaviour. All timestamps are logical
// values carried inside the commands; nothing reads the wall clock.

import (
	"fmt"
	"math/rand/v2"
	"strings"

	metadb "github.com/WuKongIM/WuKongIM/pkg/db/meta"
	"github.com/WuKongIM/WuKongIM/pkg/protocol/channelid"
	"github.com/WuKongIM/WuKongIM/pkg/slot/fsm"
	"github.com/WuKongIM/WuKongIM/pkg/slot/multiraft"
)

const (
	c13Slot       uint64 = 11 // physical slot under test
	c13PeerSlot   uint64 = 12 // migration peer slot (delta source / outgoing target)
	c13IncomingHS uint16 = 6  // hash slot being migrated in (incoming delta)
	c13OutgoingHS uint16 = 5  // owned hash slot with an outgoing delta target
)

var (
	c13Owned   = []uint16{1, 2, 3, 5}
	c13Unowned = []uint16{0, 4, 7} // 6 is the incoming-delta hash slot
	c13AllHS   = []uint16{0, 1, 2, 3, 4, 5, 6, 7}
	c13UIDs    = []string{"u1", "u2", "u3"}
)

type c13Chan struct {
	ID   string
	Type int64
	HS   uint16
}

type c13Cmd struct {
	HashSlot uint16
	Data     []byte
	Type     string // command family name (stable, for signatures/fingerprints)
	Desc     string // human readable arguments
	Flavour  string // "", "stale", "conflict", "duplicate", "invalid"
	Chan     string // channel key touched, if any (for family rules)
	// Ents names the entities (channel row family, uid row family, hash-slot
	// migration state) whose state the command reads or writes; used only for
	// the "dependent pair inside one batch" evidence counters.
	Ents []string
}

type c13Family struct {
	// ChMig includes the channel-migration task workflow commands (create, claim,
	// advance, fences, leader transfer, learner, promote, clear, abort).
	ChMig bool
	// GC includes channel-migration task garbage collection commands (with ChMig).
	GC bool
	// Cleanup lets cleanup_migration_outbox commands delete the hash-slot
	// migration state (through >= LastOutboxIndex).
	Cleanup bool
	// SubAfterDelete lets subscriber mutations follow a DeleteChannel of the
	// same channel inside one log.
	SubAfterDelete bool
	// Outgoing configures an outgoing delta target for c13OutgoingHS.
	Outgoing bool
}

type c13Gen struct {
	rng     *rand.Rand
	fam     c13Family
	view    *c13View
	chans   []c13Chan
	now     int64
	seq     int
	pool    []c13Cmd
	deleted map[string]bool // channels deleted at least once in this log
	lastIdx map[uint16][]uint64
	counts  map[string]int
	// burst mode: the next burstLeft commands come from the same generator
	// family and the same channel / uid, so that related commands are adjacent
	// in the log and therefore often share a batch.
	burstLeft int
	burstX    int
	fixChan   *c13Chan
	fixUID    string
}

func newC13Gen(rng *rand.Rand, fam c13Family, view *c13View) *c13Gen {
	g := &c13Gen{rng: rng, fam: fam, view: view, now: 1_000, deleted: map[string]bool{}, lastIdx: map[uint16][]uint64{}, counts: map[string]int{}}
	g.chans = []c13Chan{
		{"g1", 2, 1}, {"g2", 2, 2}, {"g3", 2, c13OutgoingHS},
		{channelid.EncodePersonChannel("u1", "u2"), 1, 3},
		{channelid.EncodePersonChannel("u1", "u3"), 1, 1},
	}
	return g
}

func (g *c13Gen) p(pct int) bool { return g.rng.IntN(100) < pct }
func (g *c13Gen) tick() int64    { g.now += int64(1 + g.rng.IntN(3)); return g.now }
func (g *c13Gen) uid() string {
	if g.fixUID != "" && g.p(80) {
		return g.fixUID
	}
	return c13UIDs[g.rng.IntN(len(c13UIDs))]
}
func (g *c13Gen) ownedHS() uint16 {
	return c13Owned[g.rng.IntN(len(c13Owned))]
}
func (g *c13Gen) uidHS(uid string) uint16 {
	if g.p(8) {
		return g.ownedHS()
	}
	switch uid {
	case "u1":
		return 1
	case "u2":
		return 2
	default:
		return c13OutgoingHS
	}
}
func (g *c13Gen) channel() c13Chan {
	if g.fixChan != nil && g.p(85) {
		return *g.fixChan
	}
	c := g.chans[g.rng.IntN(len(g.chans))]
	if g.p(6) {
		c.HS = g.ownedHS()
	}
	return c
}
func (g *c13Gen) groupChannel() c13Chan {
	if g.fixChan != nil && g.fixChan.Type == 2 && g.p(85) {
		return *g.fixChan
	}
	c := g.chans[g.rng.IntN(3)]
	if g.p(6) {
		c.HS = g.ownedHS()
	}
	return c
}
func (g *c13Gen) personChannel() c13Chan {
	if g.fixChan != nil && g.fixChan.Type == 1 && g.p(85) {
		return *g.fixChan
	}
	return g.chans[3+g.rng.IntN(2)]
}
func c13ChanKey(c c13Chan) string    { return fmt.Sprintf("%d/%s/%d", c.HS, c.ID, c.Type) }
func (g *c13Gen) small(n int) uint64 { return uint64(g.rng.IntN(n)) }

// ---- plain row commands -------------------------------------------------------

func (g *c13Gen) genUser() c13Cmd {
	uid := g.uid()
	u := metadb.User{UID: uid, Token: fmt.Sprintf("tok%d", g.small(3)), DeviceFlag: int64(g.small(2)), DeviceLevel: int64(g.small(2))}
	hs := g.uidHS(uid)
	if g.p(50) {
		return c13Cmd{HashSlot: hs, Data: fsm.EncodeCreateUserCommand(u), Type: "create_user", Desc: fmt.Sprintf("%+v", u)}
	}
	return c13Cmd{HashSlot: hs, Data: fsm.EncodeUpsertUserCommand(u), Type: "upsert_user", Desc: fmt.Sprintf("%+v", u)}
}

func (g *c13Gen) genDevice() c13Cmd {
	uid := g.uid()
	d := metadb.Device{UID: uid, DeviceFlag: int64(g.small(2)), Token: fmt.Sprintf("dt%d", g.small(3)), DeviceLevel: int64(g.small(2))}
	return c13Cmd{HashSlot: g.uidHS(uid), Data: fsm.EncodeUpsertDeviceCommand(d), Type: "upsert_device", Desc: fmt.Sprintf("%+v", d)}
}

func (g *c13Gen) genChannel() c13Cmd {
	c := g.channel()
	ch := metadb.Channel{ChannelID: c.ID, ChannelType: c.Type, Ban: int64(g.small(2)), Disband: int64(g.small(2)), SendBan: int64(g.small(2)), AllowStranger: int64(g.small(2)), Large: int64(g.small(2))}
	key := c13ChanKey(c)
	switch g.rng.IntN(10) {
	case 0, 1, 2:
		return c13Cmd{HashSlot: c.HS, Data: fsm.EncodeUpsertChannelCommand(ch), Type: "upsert_channel", Desc: fmt.Sprintf("%+v", ch), Chan: key}
	case 3, 4, 5:
		return c13Cmd{HashSlot: c.HS, Data: fsm.EncodeCreateChannelCommand(ch), Type: "create_channel", Desc: fmt.Sprintf("%+v", ch), Chan: key}
	case 6, 7:
		fl := metadb.ChannelBusinessFlags{Ban: ch.Ban, Disband: ch.Disband, SendBan: ch.SendBan}
		return c13Cmd{HashSlot: c.HS, Data: fsm.EncodePatchChannelBusinessFlagsCommand(c.ID, c.Type, fl), Type: "patch_channel_flags", Desc: fmt.Sprintf("%s %+v", key, fl), Chan: key}
	default:
		g.deleted[key] = true
		return c13Cmd{HashSlot: c.HS, Data: fsm.EncodeDeleteChannelCommand(c.ID, c.Type), Type: "delete_channel", Desc: key, Chan: key}
	}
}

func (g *c13Gen) genSubscribers() c13Cmd {
	c := g.groupChannel()
	key := c13ChanKey(c)
	if !g.fam.SubAfterDelete && g.deleted[key] {
		// family rule: keep subscriber mutations away from a channel that was
		// deleted earlier in this log (covered by the sub-after-delete family)
		for _, alt := range g.chans[:3] {
			if !g.deleted[c13ChanKey(alt)] {
				c, key = alt, c13ChanKey(alt)
				break
			}
		}
		if g.deleted[key] {
			return g.genUser()
		}
	}
	n := 1 + g.rng.IntN(3)
	var uids []string
	for i := 0; i < n; i++ {
		uids = append(uids, g.uid()) // duplicates on purpose
	}
	var ver []uint64
	flavour := ""
	if g.p(60) {
		cur := uint64(0)
		if ch, ok := g.view.channel(c); ok {
			cur = ch.SubscriberMutationVersion
		}
		v := cur + g.small(3)
		if g.p(20) && cur > 0 {
			v = cur - 1 // stale mutation version (0 means "unversioned")
			flavour = "stale"
		}
		ver = []uint64{v}
	}
	if g.p(50) {
		return c13Cmd{HashSlot: c.HS, Data: fsm.EncodeAddSubscribersCommand(c.ID, c.Type, uids, ver...), Type: "add_subscribers", Desc: fmt.Sprintf("%s %v ver=%v", key, uids, ver), Flavour: flavour, Chan: key}
	}
	return c13Cmd{HashSlot: c.HS, Data: fsm.EncodeRemoveSubscribersCommand(c.ID, c.Type, uids, ver...), Type: "remove_subscribers", Desc: fmt.Sprintf("%s %v ver=%v", key, uids, ver), Flavour: flavour, Chan: key}
}

func (g *c13Gen) genMembership() c13Cmd {
	uid := g.uid()
	c := g.channel()
	hs := g.uidHS(uid)
	n := 1 + g.rng.IntN(2)
	var ms []metadb.UserChannelMembership
	for i := 0; i < n; i++ {
		m := metadb.UserChannelMembership{UID: uid, ChannelID: c.ID, ChannelType: c.Type, JoinSeq: g.small(4), ReadSeq: g.small(6), DeletedToSeq: g.small(4), ActivatedAt: int64(g.small(4)), SourceVersion: g.small(4), UpdatedAt: g.tick()}
		ms = append(ms, m)
		c = g.channel()
	}
	desc := fmt.Sprintf("%+v", ms)
	switch g.rng.IntN(10) {
	case 0, 1, 2:
		return c13Cmd{HashSlot: hs, Data: fsm.EncodeUpsertUserChannelMembershipsCommand(ms), Type: "upsert_user_channel_memberships", Desc: desc}
	case 3, 4:
		for i := range ms {
			ms[i].Tombstone = true
			ms[i].TombstoneAt = g.tick()
		}
		return c13Cmd{HashSlot: hs, Data: fsm.EncodeDeleteUserChannelMembershipsCommand(ms), Type: "delete_user_channel_memberships", Desc: fmt.Sprintf("%+v", ms)}
	case 5, 6:
		return c13Cmd{HashSlot: hs, Data: fsm.EncodeAdvanceUserChannelMembershipReadSeqCommand(ms), Type: "advance_membership_read_seq", Desc: desc, Flavour: "stale"}
	case 7:
		return c13Cmd{HashSlot: hs, Data: fsm.EncodeHideUserChannelMembershipCommand(ms), Type: "hide_membership", Desc: desc, Flavour: "stale"}
	default:
		for i := range ms {
			ms[i].ActivatedAt = int64(1 + g.small(5))
		}
		return c13Cmd{HashSlot: hs, Data: fsm.EncodeActivateUserChannelMembershipCommand(ms), Type: "activate_membership", Desc: fmt.Sprintf("%+v", ms), Flavour: "stale"}
	}
}

func (g *c13Gen) genCMDMembership() c13Cmd {
	uid := g.uid()
	hs := g.uidHS(uid)
	m := metadb.UserCMDChannelMembership{UID: uid, CommandChannelID: fmt.Sprintf("c%d____cmd", g.small(2)), ChannelType: 2, StartSeq: g.small(4), AckSeq: g.small(6), UpdatedAt: g.tick()}
	if g.p(25) {
		m.UpdatedAt = int64(g.small(50)) // older than what is stored: last-writer-wins stale
	}
	ms := []metadb.UserCMDChannelMembership{m}
	switch g.rng.IntN(3) {
	case 0:
		return c13Cmd{HashSlot: hs, Data: fsm.EncodeUpsertUserCMDChannelMembershipsCommand(ms), Type: "upsert_cmd_memberships", Desc: fmt.Sprintf("%+v", m)}
	case 1:
		return c13Cmd{HashSlot: hs, Data: fsm.EncodeAdvanceUserCMDChannelMembershipAcksCommand(ms), Type: "advance_cmd_membership_acks", Desc: fmt.Sprintf("%+v", m), Flavour: "stale"}
	default:
		m.Tombstone, m.TombstoneAt = true, g.tick()
		return c13Cmd{HashSlot: hs, Data: fsm.EncodeTombstoneUserCMDChannelMembershipsCommand([]metadb.UserCMDChannelMembership{m}), Type: "tombstone_cmd_memberships", Desc: fmt.Sprintf("%+v", m)}
	}
}

func (g *c13Gen) latest(c c13Chan) metadb.ChannelLatest {
	return metadb.ChannelLatest{ChannelID: c.ID, ChannelType: c.Type, LastMessageID: 100 + g.small(50), LastMessageSeq: g.small(8), LastAt: g.tick(), FromUID: g.uid(), ClientMsgNo: fmt.Sprintf("m%d", g.small(3)), Payload: []byte(fmt.Sprintf("p%d", g.small(4))), UpdatedAt: g.tick()}
}

func (g *c13Gen) genLatest() c13Cmd {
	if g.p(55) {
		c := g.channel()
		l := g.latest(c)
		return c13Cmd{HashSlot: c.HS, Data: fsm.EncodeUpsertChannelLatestCommand(l), Type: "upsert_channel_latest", Desc: fmt.Sprintf("%+v", l), Chan: c13ChanKey(c)}
	}
	var items []fsm.ChannelLatestBatchItem
	for i := 0; i < 1+g.rng.IntN(3); i++ {
		c := g.channel()
		items = append(items, fsm.ChannelLatestBatchItem{HashSlot: c.HS, Latest: g.latest(c)})
	}
	return c13Cmd{HashSlot: items[0].HashSlot, Data: fsm.EncodeUpsertChannelLatestBatchCommand(items), Type: "upsert_channel_latest_batch", Desc: fmt.Sprintf("%d items first=%+v", len(items), items[0])}
}

func (g *c13Gen) event(c c13Chan) metadb.MessageEventAppend {
	types := []string{metadb.EventTypeStreamOpen, metadb.EventTypeStreamDelta, metadb.EventTypeStreamDelta, metadb.EventTypeStreamSnapshot, metadb.EventTypeStreamClose, metadb.EventTypeStreamError, metadb.EventTypeStreamCancel, metadb.EventTypeStreamFinish}
	e := metadb.MessageEventAppend{ChannelID: c.ID, ChannelType: c.Type, ClientMsgNo: fmt.Sprintf("m%d", g.small(2)), EventID: fmt.Sprintf("e%d", g.small(6)), EventKey: []string{"", "main", "tool"}[g.rng.IntN(3)], EventType: types[g.rng.IntN(len(types))], Visibility: []string{"", metadb.VisibilityPrivate}[g.rng.IntN(2)], OccurredAt: g.tick(), Payload: []byte(fmt.Sprintf("{\"d\":%d}", g.small(5))), UpdatedAt: g.tick()}
	return e
}

func (g *c13Gen) genEvent() c13Cmd {
	c := g.channel()
	if g.p(60) {
		e := g.event(c)
		return c13Cmd{HashSlot: c.HS, Data: fsm.EncodeAppendMessageEventCommand(e), Type: "append_message_event", Desc: fmt.Sprintf("%s %s/%s/%s/%s", c13ChanKey(c), e.ClientMsgNo, e.EventID, e.EventKey, e.EventType), Flavour: "duplicate"}
	}
	var es []metadb.MessageEventAppend
	for i := 0; i < 1+g.rng.IntN(3); i++ {
		es = append(es, g.event(c))
	}
	return c13Cmd{HashSlot: c.HS, Data: fsm.EncodeAppendMessageEventsCommand(es), Type: "append_message_events_batch", Desc: fmt.Sprintf("%s %d events", c13ChanKey(c), len(es)), Flavour: "duplicate"}
}

func (g *c13Gen) genPlugin() c13Cmd {
	uid := g.uid()
	hs := g.uidHS(uid)
	no := fmt.Sprintf("plugin%d", g.small(2))
	if g.p(65) {
		b := metadb.PluginUserBinding{UID: uid, PluginNo: no, CreatedAtMS: g.tick(), UpdatedAtMS: g.tick()}
		return c13Cmd{HashSlot: hs, Data: fsm.EncodeBindPluginUserCommand(b), Type: "bind_plugin_user", Desc: fmt.Sprintf("%+v", b)}
	}
	return c13Cmd{HashSlot: hs, Data: fsm.EncodeUnbindPluginUserCommand(uid, no), Type: "unbind_plugin_user", Desc: uid + "/" + no}
}

// ---- channel runtime metadata ---------------------------------------------------

func (g *c13Gen) freshMeta(c c13Chan) metadb.ChannelRuntimeMeta {
	reps := [][]uint64{{1, 2, 3}, {1, 2}, {2, 3, 4}, {1, 3}}[g.rng.IntN(4)]
	isr := append([]uint64(nil), reps[:1+g.rng.IntN(len(reps))]...)
	m := metadb.ChannelRuntimeMeta{ChannelID: c.ID, ChannelType: c.Type, ChannelEpoch: 1 + g.small(3), LeaderEpoch: 1 + g.small(3), Replicas: reps, ISR: isr, Leader: isr[0], MinISR: 1, Status: uint8(1 + g.small(2)), Features: g.small(2), LeaseUntilMS: g.tick() + 50}
	if g.p(30) {
		m.RetentionThroughSeq, m.RetentionUpdatedAtMS = g.small(6), g.tick()
	}
	return m
}

func (g *c13Gen) genRuntimeMeta() c13Cmd {
	c := g.channel()
	key := c13ChanKey(c)
	cur, has := g.view.runtimeMeta(c)
	switch x := g.rng.IntN(100); {
	case x < 45:
		m := g.freshMeta(c)
		flavour := ""
		if has {
			// build from the observed row, then move epochs forward / backward / sideways
			m = cur
			m.RouteGeneration = 0
			switch g.rng.IntN(6) {
			case 0:
				m.ChannelEpoch++
			case 1:
				m.LeaderEpoch++
				if len(m.ISR) > 1 {
					m.Leader = m.ISR[1]
				}
			case 2:
				if m.ChannelEpoch > 1 {
					m.ChannelEpoch--
					flavour = "stale"
				}
			case 3:
				// same epochs, different leader -> monotonic conflict (stale_meta at commit)
				if len(m.ISR) > 1 {
					if m.Leader == m.ISR[0] {
						m.Leader = m.ISR[1]
					} else {
						m.Leader = m.ISR[0]
					}
					flavour = "conflict"
				}
			case 4:
				m.LeaseUntilMS = g.tick() + 30
			default:
				m.RouteGeneration = cur.RouteGeneration + g.small(3)
				m.Status = uint8(1 + g.small(2))
			}
		}
		return c13Cmd{HashSlot: c.HS, Data: fsm.EncodeUpsertChannelRuntimeMetaCommand(m), Type: "upsert_runtime_meta", Desc: fmt.Sprintf("%s ce=%d le=%d l=%d rg=%d", key, m.ChannelEpoch, m.LeaderEpoch, m.Leader, m.RouteGeneration), Flavour: flavour, Chan: key}
	case x < 55:
		return c13Cmd{HashSlot: c.HS, Data: fsm.EncodeDeleteChannelRuntimeMetaCommand(c.ID, c.Type), Type: "delete_runtime_meta", Desc: key, Chan: key}
	case x < 80:
		req := metadb.ChannelRetentionAdvance{ChannelID: c.ID, ChannelType: c.Type, ExpectedChannelEpoch: cur.ChannelEpoch, ExpectedLeaderEpoch: cur.LeaderEpoch, ExpectedLeader: cur.Leader, ExpectedLeaseUntilMS: cur.LeaseUntilMS, RetentionThroughSeq: cur.RetentionThroughSeq + g.small(3), RetentionUpdatedAtMS: g.tick()}
		flavour := ""
		if g.p(25) {
			req.ExpectedLeaderEpoch++
			flavour = "stale"
		}
		if !has {
			flavour = "stale"
		}
		return c13Cmd{HashSlot: c.HS, Data: fsm.EncodeAdvanceChannelRetentionThroughSeqCommand(req), Type: "advance_retention", Desc: fmt.Sprintf("%s %+v", key, req), Flavour: flavour, Chan: key}
	default:
		var items []fsm.CreateChannelRuntimeMetaBatchItem
		seen := map[string]bool{}
		for i := 0; i < 1+g.rng.IntN(3); i++ {
			cc := g.channel()
			if seen[cc.ID] {
				continue
			}
			seen[cc.ID] = true
			items = append(items, fsm.CreateChannelRuntimeMetaBatchItem{HashSlot: cc.HS, Meta: g.freshMeta(cc)})
		}
		data, err := fsm.EncodeCreateChannelRuntimeMetaBatchCommandChecked(items)
		if err != nil {
			return g.genUser()
		}
		return c13Cmd{HashSlot: items[0].HashSlot, Data: data, Type: "create_runtime_meta_batch", Desc: fmt.Sprintf("%d items first=%s", len(items), items[0].Meta.ChannelID), Flavour: "duplicate"}
	}
}

// ---- person directory ------------------------------------------------------------

func (g *c13Gen) genPersonDirectory() c13Cmd {
	c := g.personChannel()
	key := c13ChanKey(c)
	switch g.rng.IntN(3) {
	case 0:
		items := []fsm.PersonDirectoryAdmissionBatchItem{{HashSlot: c.HS, Task: metadb.PersonDirectoryTask{ChannelID: c.ID, ChannelType: 1, CommittedTail: g.small(5), CreatedAt: g.tick()}, RuntimeMeta: g.freshMeta(c)}}
		if g.p(40) {
			o := g.chans[3]
			if o.ID == c.ID {
				o = g.chans[4]
			}
			items = append(items, fsm.PersonDirectoryAdmissionBatchItem{HashSlot: o.HS, Task: metadb.PersonDirectoryTask{ChannelID: o.ID, ChannelType: 1, CommittedTail: g.small(5), CreatedAt: g.tick()}, RuntimeMeta: g.freshMeta(o)})
		}
		data, err := fsm.EncodeAdmitPersonDirectoryTaskBatchCommandChecked(items)
		if err != nil {
			return g.genUser()
		}
		return c13Cmd{HashSlot: items[0].HashSlot, Data: data, Type: "admit_person_directory_batch", Desc: fmt.Sprintf("%d items %s", len(items), key), Flavour: "duplicate", Chan: key}
	case 1:
		left, right, _ := channelid.DecodePersonChannel(c.ID)
		var items []fsm.UserChannelMembershipBatchItem
		for _, uid := range []string{left, right} {
			if g.p(80) {
				items = append(items, fsm.UserChannelMembershipBatchItem{HashSlot: g.uidHS(uid), Membership: metadb.UserChannelMembership{UID: uid, ChannelID: c.ID, ChannelType: 1, JoinSeq: g.small(3), ReadSeq: g.small(3), DeletedToSeq: g.small(3), SourceVersion: 1 + g.small(3), UpdatedAt: g.tick()}})
			}
		}
		if len(items) == 0 {
			return g.genUser()
		}
		data, err := fsm.EncodeEnsureUserChannelMembershipBatchCommandChecked(items)
		if err != nil {
			return g.genUser()
		}
		return c13Cmd{HashSlot: items[0].HashSlot, Data: data, Type: "ensure_membership_batch", Desc: fmt.Sprintf("%+v", items), Flavour: "stale"}
	default:
		gen := uint64(1)
		if m, ok := g.view.runtimeMeta(c); ok && m.DirectoryGeneration != 0 {
			gen = m.DirectoryGeneration
		}
		flavour := ""
		if g.p(25) {
			gen += 1
			flavour = "stale"
		}
		items := []fsm.PersonDirectoryCompletionBatchItem{{HashSlot: c.HS, ChannelID: c.ID, ChannelType: 1, Generation: gen}}
		data, err := fsm.EncodeCompletePersonDirectoryTaskBatchCommandChecked(items)
		if err != nil {
			return g.genUser()
		}
		return c13Cmd{HashSlot: c.HS, Data: data, Type: "complete_person_directory_batch", Desc: fmt.Sprintf("%s gen=%d", key, gen), Flavour: flavour, Chan: key}
	}
}

// ---- channel migration workflow -----------------------------------------------------

func c13TaskGuard(t metadb.ChannelMigrationTask) metadb.ChannelMigrationTaskGuard {
	return metadb.ChannelMigrationTaskGuard{ChannelID: t.ChannelID, ChannelType: t.ChannelType, TaskID: t.TaskID, ExpectedStatus: t.Status, ExpectedPhase: t.Phase, ExpectedOwnerNodeID: t.OwnerNodeID, ExpectedOwnerLeaseUntilMS: t.OwnerLeaseUntilMS, ExpectedUpdatedAtMS: t.UpdatedAtMS}
}

func c13RuntimeGuard(m metadb.ChannelRuntimeMeta) metadb.ChannelMigrationRuntimeGuard {
	return metadb.ChannelMigrationRuntimeGuard{ChannelID: m.ChannelID, ChannelType: m.ChannelType, ExpectedChannelEpoch: m.ChannelEpoch, ExpectedLeaderEpoch: m.LeaderEpoch, ExpectedLeader: m.Leader, ExpectedFenceToken: m.WriteFenceToken, ExpectedFenceVersion: m.WriteFenceVersion}
}

func c13Has(xs []uint64, v uint64) bool {
	for _, x := range xs {
		if x == v {
			return true
		}
	}
	return false
}

func (g *c13Gen) genChannelMigration() c13Cmd {
	c := g.groupChannel()
	key := c13ChanKey(c)
	meta, hasMeta := g.view.runtimeMeta(c)
	task, hasTask := g.view.activeTask(c)
	mk := func(typ string, data []byte, desc string, flavour string) c13Cmd {
		return c13Cmd{HashSlot: c.HS, Data: data, Type: typ, Desc: key + " " + desc, Flavour: flavour, Chan: key}
	}
	if g.fam.GC && g.p(12) {
		req := metadb.ChannelMigrationTaskGCRequest{BeforeMS: g.now - int64(g.small(40)), Limit: 1 + g.rng.IntN(3)}
		return mk("gc_migration_tasks", fsm.EncodeGarbageCollectTerminalChannelMigrationTasksCommand(req), fmt.Sprintf("%+v", req), "")
	}
	if !hasMeta {
		m := g.freshMeta(c)
		return mk("upsert_runtime_meta", fsm.EncodeUpsertChannelRuntimeMetaCommand(m), "bootstrap meta for migration", "")
	}
	if !hasTask {
		g.seq++
		t := metadb.ChannelMigrationTask{TaskID: fmt.Sprintf("t%d", g.seq%7), Status: metadb.ChannelMigrationStatusPending, Phase: metadb.ChannelMigrationPhaseValidate, ChannelID: c.ID, ChannelType: c.Type, BaseChannelEpoch: meta.ChannelEpoch, BaseLeaderEpoch: meta.LeaderEpoch, CreatedAtMS: g.tick(), UpdatedAtMS: g.now}
		if g.p(50) && len(meta.ISR) > 1 {
			t.Kind = metadb.ChannelMigrationKindLeaderTransfer
			t.SourceNode = meta.Leader
			for _, n := range meta.ISR {
				if n != meta.Leader {
					t.TargetNode = n
				}
			}
			t.DesiredLeader = t.TargetNode
		} else {
			t.Kind = metadb.ChannelMigrationKindReplicaReplace
			for _, n := range meta.Replicas {
				if n != meta.Leader {
					t.SourceNode = n
				}
			}
			if t.SourceNode == 0 {
				t.SourceNode = meta.Replicas[0]
			}
			t.TargetNode = 9
		}
		if g.p(50) {
			req := metadb.ChannelMigrationTaskCreate{Task: t, RuntimeGuard: c13RuntimeGuard(meta)}
			flavour := ""
			if g.p(20) {
				req.RuntimeGuard.ExpectedLeaderEpoch++
				flavour = "stale"
			}
			return mk("create_migration_task_guarded", fsm.EncodeCreateChannelMigrationTaskWithRuntimeGuardCommand(req), fmt.Sprintf("%s kind=%d", t.TaskID, t.Kind), flavour)
		}
		return mk("create_migration_task", fsm.EncodeCreateChannelMigrationTaskCommand(t), fmt.Sprintf("%s kind=%d", t.TaskID, t.Kind), "duplicate")
	}
	// there is an active task: propose the executor's next step
	guard := c13TaskGuard(task)
	rg := c13RuntimeGuard(meta)
	flavour := ""
	if g.p(8) {
		guard.ExpectedUpdatedAtMS--
		flavour = "stale"
	} else if g.p(4) {
		rg.ExpectedLeaderEpoch++
		flavour = "stale"
	}
	upd := g.tick()
	if upd <= task.UpdatedAtMS {
		upd = task.UpdatedAtMS + 1
	}
	running := metadb.ChannelMigrationStatusRunning
	advance := func(phase metadb.ChannelMigrationPhase, withProof bool) c13Cmd {
		req := metadb.ChannelMigrationTaskAdvance{Guard: guard, Status: running, Phase: phase, Attempt: task.Attempt, UpdatedAtMS: upd, Progress: metadb.ChannelMigrationProgress{LeaderLEO: g.small(9), LagRecords: g.small(3)}}
		if withProof {
			req.CutoverProof = metadb.ChannelMigrationCutoverProof{CutoverLEO: 10, CutoverHW: 8 + g.small(3), DrainedLeaderNode: meta.Leader, DrainedRuntimeGeneration: 1 + g.small(3), DrainedChannelEpoch: meta.ChannelEpoch, DrainedLeaderEpoch: meta.LeaderEpoch, DrainedFenceVersion: meta.WriteFenceVersion}
			if g.p(15) {
				req.CutoverProof.DrainedFenceVersion++
			}
		}
		return mk("advance_migration_task", fsm.EncodeAdvanceChannelMigrationTaskCommand(req), fmt.Sprintf("%s %d->%d proof=%v", task.TaskID, task.Phase, phase, withProof), flavour)
	}
	setFence := func(phase metadb.ChannelMigrationPhase) c13Cmd {
		req := metadb.ChannelMigrationFenceRequest{Guard: guard, RuntimeGuard: rg, Status: running, Phase: phase, FenceReason: 1, FenceUntilMS: g.now + 300 + int64(g.small(300)), UpdatedAtMS: upd}
		return mk("set_channel_write_fence", fsm.EncodeSetChannelWriteFenceCommand(req), fmt.Sprintf("%s %d->%d", task.TaskID, task.Phase, phase), flavour)
	}
	clearFence := func() c13Cmd {
		req := metadb.ChannelMigrationClearFenceRequest{Guard: guard, RuntimeGuard: rg, Status: metadb.ChannelMigrationStatusCompleted, Phase: metadb.ChannelMigrationPhaseClearFence, UpdatedAtMS: upd, CompletedAtMS: upd}
		return mk("clear_channel_write_fence", fsm.EncodeClearChannelWriteFenceCommand(req), fmt.Sprintf("%s phase=%d", task.TaskID, task.Phase), flavour)
	}
	if g.p(4) {
		req := metadb.ChannelMigrationAbortRequest{Guard: guard, RuntimeGuard: rg, Status: metadb.ChannelMigrationStatusAborted, Phase: task.Phase, UpdatedAtMS: upd, CompletedAtMS: upd, LastError: "aborted"}
		return mk("abort_channel_migration", fsm.EncodeAbortChannelMigrationCommand(req), fmt.Sprintf("%s phase=%d", task.TaskID, task.Phase), flavour)
	}
	if g.p(6) {
		req := metadb.ChannelMigrationTaskClaim{Guard: guard, Status: task.Status, Phase: task.Phase, OwnerNodeID: 1 + g.small(2), OwnerLeaseUntilMS: g.now + 40, NowMS: g.now, UpdatedAtMS: upd}
		return mk("claim_migration_task", fsm.EncodeClaimChannelMigrationTaskCommand(req), fmt.Sprintf("%s owner=%d", task.TaskID, req.OwnerNodeID), flavour)
	}
	if g.p(4) && meta.WriteFenceToken != "" {
		back := metadb.ChannelMigrationPhaseWriteFence
		if task.Kind == metadb.ChannelMigrationKindReplicaReplace {
			back = metadb.ChannelMigrationPhaseWarmCatchUp
		}
		req := metadb.ChannelMigrationResetFenceRequest{Guard: guard, RuntimeGuard: rg, Status: running, Phase: back, NowMS: meta.WriteFenceUntilMS - 1 + int64(g.small(4)), UpdatedAtMS: upd}
		return mk("reset_channel_write_fence", fsm.EncodeResetChannelWriteFenceToPreCutoverCommand(req), fmt.Sprintf("%s now=%d until=%d", task.TaskID, req.NowMS, meta.WriteFenceUntilMS), flavour)
	}
	leaderFlow := task.Kind != metadb.ChannelMigrationKindReplicaReplace
	switch task.Phase {
	case metadb.ChannelMigrationPhaseValidate:
		if leaderFlow {
			return advance(metadb.ChannelMigrationPhaseWriteFence, false)
		}
		return advance(metadb.ChannelMigrationPhaseAddLearner, false)
	case metadb.ChannelMigrationPhaseProbeTarget:
		return advance(metadb.ChannelMigrationPhaseWriteFence, false)
	case metadb.ChannelMigrationPhaseWriteFence:
		return setFence(metadb.ChannelMigrationPhaseDrainLeader)
	case metadb.ChannelMigrationPhaseDrainLeader, metadb.ChannelMigrationPhaseCutoverFence:
		return advance(metadb.ChannelMigrationPhaseFinalTargetCatchUp, true)
	case metadb.ChannelMigrationPhaseFinalTargetCatchUp:
		if leaderFlow {
			return advance(metadb.ChannelMigrationPhaseCommitLeaderMeta, false)
		}
		return advance(metadb.ChannelMigrationPhasePromoteAndRemove, false)
	case metadb.ChannelMigrationPhaseCommitLeaderMeta:
		req := metadb.ChannelMigrationLeaderTransferRequest{Guard: guard, RuntimeGuard: rg, Status: running, Phase: metadb.ChannelMigrationPhaseVerifyNewLeader, DesiredLeader: task.DesiredLeader, NextLeaderEpoch: meta.LeaderEpoch + 1, LeaseUntilMS: g.now + 50, NowMS: g.now, UpdatedAtMS: upd}
		if g.p(10) {
			req.NowMS = meta.WriteFenceUntilMS + 1 // expired fence
		}
		return mk("commit_channel_leader_transfer", fsm.EncodeCommitChannelLeaderTransferCommand(req), fmt.Sprintf("%s leader=%d", task.TaskID, req.DesiredLeader), flavour)
	case metadb.ChannelMigrationPhaseVerifyNewLeader, metadb.ChannelMigrationPhaseVerifyMembership:
		return clearFence()
	case metadb.ChannelMigrationPhaseAddLearner:
		req := metadb.ChannelMigrationAddLearnerRequest{Guard: guard, RuntimeGuard: rg, Status: running, Phase: metadb.ChannelMigrationPhaseBootstrapTarget, TargetNode: task.TargetNode, UpdatedAtMS: upd}
		return mk("add_channel_learner", fsm.EncodeAddChannelLearnerCommand(req), fmt.Sprintf("%s target=%d", task.TaskID, req.TargetNode), flavour)
	case metadb.ChannelMigrationPhaseBootstrapTarget:
		return advance(metadb.ChannelMigrationPhaseWarmCatchUp, false)
	case metadb.ChannelMigrationPhaseWarmCatchUp:
		return setFence(metadb.ChannelMigrationPhaseCutoverFence)
	case metadb.ChannelMigrationPhasePromoteAndRemove:
		req := metadb.ChannelMigrationPromoteLearnerRequest{Guard: guard, RuntimeGuard: rg, Status: running, Phase: metadb.ChannelMigrationPhaseVerifyMembership, SourceNode: task.SourceNode, TargetNode: task.TargetNode, NowMS: g.now, UpdatedAtMS: upd}
		return mk("promote_learner_and_remove_replica", fsm.EncodePromoteLearnerAndRemoveReplicaCommand(req), fmt.Sprintf("%s %d->%d", task.TaskID, req.SourceNode, req.TargetNode), flavour)
	default:
		return clearFence()
	}
}

// ---- hash-slot migration maintenance --------------------------------------------------

func (g *c13Gen) genHashSlotMigration(nextIndex uint64) c13Cmd {
	switch x := g.rng.IntN(100); {
	case x < 55:
		// incoming delta from the peer slot: replays an ordinary command
		hs := c13IncomingHS
		if g.p(35) {
			hs = g.ownedHS()
		}
		var inner c13Cmd
		switch g.rng.IntN(4) {
		case 0:
			inner = g.genUser()
		case 1:
			cc := g.channel()
			ch := metadb.Channel{ChannelID: cc.ID, ChannelType: cc.Type, Ban: int64(g.small(2)), Large: int64(g.small(2))}
			inner = c13Cmd{Data: fsm.EncodeUpsertChannelCommand(ch), Type: "upsert_channel"}
		case 2:
			cc := g.channel()
			inner = c13Cmd{Data: fsm.EncodeUpsertChannelLatestCommand(g.latest(cc)), Type: "upsert_channel_latest"}
		default:
			inner = g.genPlugin()
		}
		srcIdx := 1 + g.small(12) // small space: duplicates must be deduplicated
		return c13Cmd{HashSlot: hs, Data: fsm.EncodeApplyDeltaCommand(multiraft.SlotID(c13PeerSlot), srcIdx, hs, inner.Data), Type: "apply_delta", Desc: fmt.Sprintf("hs=%d src=%d/%d inner=%s", hs, c13PeerSlot, srcIdx, inner.Type), Flavour: "duplicate"}
	case x < 63:
		hs := c13OutgoingHS
		if g.p(30) {
			hs = g.ownedHS()
		}
		return c13Cmd{HashSlot: hs, Data: fsm.EncodeEnterFenceCommandForTarget(hs, multiraft.SlotID(c13PeerSlot)), Type: "enter_fence", Desc: fmt.Sprintf("hs=%d target=%d", hs, c13PeerSlot)}
	case x < 83:
		hs := c13OutgoingHS
		if g.p(25) {
			hs = g.ownedHS()
		}
		idx := uint64(1 + g.rng.IntN(int(nextIndex)+1))
		if st, ok := g.view.migState(hs); ok && g.p(70) && st.LastOutboxIndex > 0 {
			idx = st.LastAckedIndex + 1 + g.small(3)
		}
		return c13Cmd{HashSlot: hs, Data: fsm.EncodeAckHashSlotMigrationOutboxCommand(hs, multiraft.SlotID(c13Slot), multiraft.SlotID(c13PeerSlot), idx), Type: "ack_migration_outbox", Desc: fmt.Sprintf("hs=%d idx=%d", hs, idx), Flavour: "stale"}
	default:
		hs := c13OutgoingHS
		if g.p(25) {
			hs = g.ownedHS()
		}
		through := uint64(1 + g.rng.IntN(int(nextIndex)+1))
		st, has := g.view.migState(hs)
		if has && g.p(50) {
			through = st.LastOutboxIndex + g.small(2)
			if through == 0 {
				through = 1
			}
		}
		if !g.fam.Cleanup && has && st.LastOutboxIndex != 0 && through >= st.LastOutboxIndex {
			// family rule: a cleanup that deletes the migration state is only
			// generated in the cleanup family
			if st.LastOutboxIndex <= 1 {
				return c13Cmd{HashSlot: hs, Data: fsm.EncodeNoopCommand(), Type: "noop"}
			}
			through = 1 + g.small(int(st.LastOutboxIndex-1))
		}
		return c13Cmd{HashSlot: hs, Data: fsm.EncodeCleanupHashSlotMigrationOutboxCommand(hs, multiraft.SlotID(c13Slot), multiraft.SlotID(c13PeerSlot), through), Type: "cleanup_migration_outbox", Desc: fmt.Sprintf("hs=%d through=%d", hs, through), Flavour: "stale"}
	}
}

// ---- semantically invalid (decodable) commands: hard errors by design ------------------

func (g *c13Gen) genInvalid() c13Cmd {
	hs := g.ownedHS()
	switch g.rng.IntN(7) {
	case 0:
		return c13Cmd{HashSlot: hs, Data: fsm.EncodeUpsertUserCommand(metadb.User{UID: ""}), Type: "upsert_user", Desc: "empty uid", Flavour: "invalid"}
	case 1:
		m := g.freshMeta(g.chans[0])
		m.MinISR = 9
		return c13Cmd{HashSlot: hs, Data: fsm.EncodeUpsertChannelRuntimeMetaCommand(m), Type: "upsert_runtime_meta", Desc: "min_isr > replicas", Flavour: "invalid"}
	case 2:
		e := g.event(g.chans[0])
		e.EventType = "stream.bogus"
		return c13Cmd{HashSlot: hs, Data: fsm.EncodeAppendMessageEventCommand(e), Type: "append_message_event", Desc: "unknown event type", Flavour: "invalid"}
	case 3:
		return c13Cmd{HashSlot: hs, Data: fsm.EncodeEnterFenceCommand(hs + 1), Type: "enter_fence", Desc: "payload hash slot differs from envelope", Flavour: "invalid"}
	case 4:
		req := metadb.ChannelMigrationTaskGCRequest{BeforeMS: 0, Limit: 0}
		return c13Cmd{HashSlot: hs, Data: fsm.EncodeGarbageCollectTerminalChannelMigrationTasksCommand(req), Type: "gc_migration_tasks", Desc: "zero cutoff", Flavour: "invalid"}
	case 5:
		return c13Cmd{HashSlot: hs, Data: fsm.EncodeAckHashSlotMigrationOutboxCommand(hs, multiraft.SlotID(c13Slot), 0, 0), Type: "ack_migration_outbox", Desc: "zero target", Flavour: "invalid"}
	default:
		return c13Cmd{HashSlot: hs, Data: fsm.EncodeActivateUserChannelMembershipCommand([]metadb.UserChannelMembership{{UID: "u1", ChannelID: "g1", ChannelType: 2, ActivatedAt: 0}}), Type: "activate_membership", Desc: "activated_at=0", Flavour: "invalid"}
	}
}

// c13DeriveEnts derives entity names from the generator's descriptors: the
// channel key when the command is channel-addressed, every uid / channel id
// mentioned in the argument description otherwise, and the hash slot for
// hash-slot migration maintenance commands.
func c13DeriveEnts(c c13Cmd) []string {
	var out []string
	if c.Chan != "" {
		out = append(out, "chan:"+c.Chan)
	}
	switch c.Type {
	case "apply_delta", "enter_fence", "ack_migration_outbox", "cleanup_migration_outbox":
		out = append(out, fmt.Sprintf("hsmig:%d", c.HashSlot))
	}
	for _, uid := range c13UIDs {
		if strings.Contains(c.Desc, "UID:"+uid) || strings.HasPrefix(c.Desc, uid+"/") {
			out = append(out, fmt.Sprintf("uid:%d/%s", c.HashSlot, uid))
		}
	}
	if c.Chan == "" {
		for _, id := range []string{"g1", "g2", "g3", "u2@u1", "u3@u1"} {
			if strings.Contains(c.Desc, "ChannelID:"+id) || strings.Contains(c.Desc, "/"+id+"/") || strings.Contains(c.Desc, "first="+id) {
				out = append(out, "chanid:"+id)
			}
		}
	}
	return out
}

// next produces the next command of the log. nextIndex is the Raft index the
// command will carry (used for plausible outbox acknowledgements).
func (g *c13Gen) next(nextIndex uint64) c13Cmd {
	if len(g.pool) > 0 && g.p(10) {
		c := g.pool[g.rng.IntN(len(g.pool))]
		blocked := !g.fam.SubAfterDelete && c.Chan != "" && g.deleted[c.Chan] && (c.Type == "add_subscribers" || c.Type == "remove_subscribers")
		blocked = blocked || (!g.fam.Cleanup && c.Type == "cleanup_migration_outbox")
		if !blocked {
			c.Flavour = "duplicate"
			g.counts["redelivered"]++
			return c
		}
	}
	var c c13Cmd
	x := g.rng.IntN(100)
	if g.fam.ChMig && g.burstLeft == 0 && g.p(14) {
		x = 80 // extra weight for the migration workflow in its own families
	}
	if g.burstLeft > 0 {
		g.burstLeft--
		x = g.burstX
		if g.p(25) {
			// a neighbouring family on the same channel/uid (e.g. channel row vs
			// subscribers vs runtime meta vs migration task of one channel)
			x = []int{12, 22, 30, 43, 48, 60, 68, 80}[g.rng.IntN(8)]
		}
		g.counts["burst_commands"]++
	} else if g.p(12) {
		g.burstLeft = 1 + g.rng.IntN(4)
		g.burstX = x
		fc := g.chans[g.rng.IntN(len(g.chans))]
		g.fixChan = &fc
		g.fixUID = c13UIDs[g.rng.IntN(len(c13UIDs))]
	} else {
		g.fixChan, g.fixUID = nil, ""
	}
	switch {
	case x < 6:
		c = g.genUser()
	case x < 9:
		c = g.genDevice()
	case x < 19:
		c = g.genChannel()
	case x < 29:
		c = g.genSubscribers()
	case x < 37:
		c = g.genMembership()
	case x < 41:
		c = g.genCMDMembership()
	case x < 46:
		c = g.genLatest()
	case x < 52:
		c = g.genEvent()
	case x < 55:
		c = g.genPlugin()
	case x < 66:
		c = g.genRuntimeMeta()
	case x < 72:
		c = g.genPersonDirectory()
	case x < 88:
		if g.fam.ChMig {
			c = g.genChannelMigration()
		} else if g.p(50) {
			c = g.genRuntimeMeta()
		} else {
			c = g.genSubscribers()
		}
	case x < 96:
		c = g.genHashSlotMigration(nextIndex)
	case x < 98:
		c = g.genInvalid()
	default:
		c = c13Cmd{HashSlot: g.ownedHS(), Data: fsm.EncodeNoopCommand(), Type: "noop"}
	}
	if c.Type == "delete_channel" {
		g.deleted[c.Chan] = true
	}
	if len(c.Ents) == 0 {
		c.Ents = c13DeriveEnts(c)
	}
	g.pool = append(g.pool, c)
	if len(g.pool) > 20 {
		g.pool = g.pool[1:]
	}
	return c
}
