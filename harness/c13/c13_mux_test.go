//go:build verif

package c13_test

// The engine's verif FS seam is a process-global provider without arguments.
// To let several cases open databases concurrently, the provider returns one
// router file system that dispatches on the "/c13r/<root>/" path prefix to the
// per-database vfs.FS registered for that root. Paths are passed through
// unchanged, so a crash image (CrashClone) of a database is opened under the
// same root as the database it was taken from.

import (
	"errors"
	"fmt"
	"io"
	"os"
	"strings"
	"sync"
	"sync/atomic"

	"github.com/cockroachdb/pebble/v2/vfs"
)

const c13RootPrefix = "/c13r/"

var (
	c13Roots   sync.Map // root name -> vfs.FS
	c13RootSeq atomic.Uint64
)

func c13NewRoot() string { return fmt.Sprintf("r%d", c13RootSeq.Add(1)) }

type c13Mux struct{}

var errC13NoRoot = errors.New("c13 mux: no file system registered for path")

func (c13Mux) fs(name string) (vfs.FS, error) {
	if strings.HasPrefix(name, c13RootPrefix) {
		rest := name[len(c13RootPrefix):]
		if i := strings.IndexByte(rest, '/'); i >= 0 {
			rest = rest[:i]
		}
		if v, ok := c13Roots.Load(rest); ok {
			return v.(vfs.FS), nil
		}
	}
	if name == "/" || name == "/c13r" || name == c13RootPrefix {
		// ancestors of the roots (Pebble syncs/creates parent directories)
		c13TopOnce.Do(func() { _ = c13Top.MkdirAll("/c13r", 0o755) })
		return c13Top, nil
	}
	return nil, &os.PathError{Op: "c13mux", Path: name, Err: errC13NoRoot}
}

var (
	c13Top     = vfs.NewMem()
	c13TopOnce sync.Once
)

func (m c13Mux) Create(name string, c vfs.DiskWriteCategory) (vfs.File, error) {
	fs, err := m.fs(name)
	if err != nil {
		return nil, err
	}
	return fs.Create(name, c)
}
func (m c13Mux) Link(a, b string) error {
	fs, err := m.fs(a)
	if err != nil {
		return err
	}
	return fs.Link(a, b)
}
func (m c13Mux) Open(name string, opts ...vfs.OpenOption) (vfs.File, error) {
	fs, err := m.fs(name)
	if err != nil {
		return nil, err
	}
	return fs.Open(name, opts...)
}
func (m c13Mux) OpenReadWrite(name string, c vfs.DiskWriteCategory, opts ...vfs.OpenOption) (vfs.File, error) {
	fs, err := m.fs(name)
	if err != nil {
		return nil, err
	}
	return fs.OpenReadWrite(name, c, opts...)
}
func (m c13Mux) OpenDir(name string) (vfs.File, error) {
	fs, err := m.fs(name)
	if err != nil {
		return nil, err
	}
	return fs.OpenDir(name)
}
func (m c13Mux) Remove(name string) error {
	fs, err := m.fs(name)
	if err != nil {
		return err
	}
	return fs.Remove(name)
}
func (m c13Mux) RemoveAll(name string) error {
	fs, err := m.fs(name)
	if err != nil {
		return err
	}
	return fs.RemoveAll(name)
}
func (m c13Mux) Rename(a, b string) error {
	fs, err := m.fs(a)
	if err != nil {
		return err
	}
	return fs.Rename(a, b)
}
func (m c13Mux) ReuseForWrite(a, b string, c vfs.DiskWriteCategory) (vfs.File, error) {
	fs, err := m.fs(a)
	if err != nil {
		return nil, err
	}
	return fs.ReuseForWrite(a, b, c)
}
func (m c13Mux) MkdirAll(dir string, perm os.FileMode) error {
	fs, err := m.fs(dir)
	if err != nil {
		return err
	}
	return fs.MkdirAll(dir, perm)
}
func (m c13Mux) Lock(name string) (io.Closer, error) {
	fs, err := m.fs(name)
	if err != nil {
		return nil, err
	}
	return fs.Lock(name)
}
func (m c13Mux) List(dir string) ([]string, error) {
	fs, err := m.fs(dir)
	if err != nil {
		return nil, err
	}
	return fs.List(dir)
}
func (m c13Mux) Stat(name string) (vfs.FileInfo, error) {
	fs, err := m.fs(name)
	if err != nil {
		return nil, err
	}
	return fs.Stat(name)
}
func (c13Mux) PathBase(p string) string    { return vfs.Default.PathBase(p) }
func (c13Mux) PathJoin(e ...string) string { return vfs.Default.PathJoin(e...) }
func (c13Mux) PathDir(p string) string     { return vfs.Default.PathDir(p) }
func (c13Mux) Unwrap() vfs.FS              { return nil }
func (m c13Mux) GetDiskUsage(p string) (vfs.DiskUsage, error) {
	fs, err := m.fs(p)
	if err != nil {
		return vfs.DiskUsage{}, err
	}
	return fs.GetDiskUsage(p)
}
